// Property C15 (X.509 create / parse / verify) is decided by executing smx509 on
// generated templates, key types and PKI topologies next to (i) field and signature
// laws, (ii) the alteration law (this file), (iii) a ground-truth model of the
// generated PKI and (iv) crypto/x509 on a twin instance with other key types (chains.go).

package c15

import (
	"bytes"
	"crypto/ecdsa"
	"crypto/rsa"
	"crypto/sha1"
	"crypto/x509"
	"crypto/x509/pkix"
	"encoding/asn1"
	"fmt"
	"math/big"
	"os"
	"strings"
	"time"

	"github.com/emmansun/gmsm/smx509"

	"verifh/mon"
	"verifh/wl/reg"
)

func init() {
	reg.Register("c15.objects", "C15", func(x *mon.Ctx) { objects(x, false) })
	reg.Register("c15.sha1", "C15", func(x *mon.Ctx) { objects(x, true) })
	reg.Register("c15.chains", "C15", chains)
}

var objKinds = []string{"cert", "cert-selfsigned", "csr", "cfca-csr", "crl"}

// signer kinds by object number: SM2 (the branch the fork adds) most often, P-384 least
// (a sweep under a P-384 issuer costs ten times the others).
var signerCycle = []keyKind{kSM2, kP256, kRSA, kSM2, kEd25519, kSM2, kP384, kRSA, kP256, kSM2}

// objects: one object = one created certificate, request, CFCA request or revocation
// list, handled in sweepParts cases (to keep a case short): every part re-creates the
// object from the same template and keys and checks that it parses and verifies; part 0
// carries the field/signature laws, the key-substitution and issuer-gating laws, the
// truncations and the trailing-data extensions; part p sweeps the DER offsets = p mod sweepParts,
// so the parts together apply all 4 substitutions at every offset.
const sweepParts = 4

func objects(x *mon.Ctx, sha1Mode bool) {
	if err := selfTest(); err != nil {
		x.HarnessError("%v", err)
	}
	if sha1Mode && !strings.Contains(os.Getenv("GODEBUG"), "x509sha1=1") {
		for _, p := range strings.Split(os.Getenv("VERIF_PRELUDE"), ",") {
			if p == "c15.sha1" {
				// prelude of a mixed-order job of another workload (driver/plan.py _add_mixed) in a configuration
				// without SHA-1: nothing to execute here (the workload's own jobs run with sha1ok and have a floor)
				return
			}
		}
		x.HarnessError("workload c15.sha1 must run in configuration sha1ok (GODEBUG=x509sha1=1)")
	}
	n := x.Scale(300, 5000)
	if sha1Mode {
		n = x.Scale(40, 400)
	}
	ordK, ordKS := map[string]int{}, map[string]int{} // ordinal of the object among those of its kind / of its kind and signer kind
	for i := 0; i < n; i++ {
		kind := objKinds[i%len(objKinds)]
		// signer kind cycles so that every (object kind, signer kind) pair is visited early
		sk := signerCycle[(i/len(objKinds))%len(signerCycle)]
		if sha1Mode {
			sk = []keyKind{kP256, kRSA, kP256, kRSA, kP384}[(i/len(objKinds))%5]
		}
		if kind == "cfca-csr" && sha1Mode {
			kind = "csr"
		}
		plan := planKeys(kind, sk, ordK[kind], ordKS[kind+sk.String()])
		ordK[kind]++
		ordKS[kind+sk.String()]++
		for p := 0; p < sweepParts; p++ {
			c := x.Begin("object #%d part %d/%d kind=%s signer=%v sha1=%v keys: %s (template, PRNG keys and algorithm from the PRNG of (seed, workload, object number), the same in all parts; "+
				"this part applies the 4 substitutions at the DER offsets = %d mod %d%s)", i, p, sweepParts, kind, sk, sha1Mode, plan, p, sweepParts,
				map[bool]string{true: "; P-384 issuer: only every 4th of those", false: ""}[sk == kP384])
			if c == nil {
				continue
			}
			curPlan = plan
			runObject(c, x.Seed, x.Workload, i, p, kind, sk, sha1Mode)
			c.End()
		}
	}
}

// keyPlan says which keys of an object are structured keys (structkeys.go) instead of
// keys drawn from the PRNG. It is a function of the object number only, so that every
// run, whatever its seed, serialises every class of short coordinate in every role.
type keyPlan struct {
	signer  int     // class of the signer key (issuer key, CSR key, self-signed subject key); -1: from the PRNG
	second  int     // class of the certificate subject key / CFCA temporary key; -1: from the PRNG
	secKind keyKind // kind of the structured second key
}

func (p keyPlan) String() string {
	s := "signer=prng"
	if p.signer >= 0 {
		s = "signer=" + structClass(p.signer).String()
	}
	if p.second >= 0 {
		return s + fmt.Sprintf(" subject/temporary=%v-%v", p.secKind, structClass(p.second))
	}
	return s + " subject/temporary=prng"
}

func planKeys(kind string, sk keyKind, ordK, ordKS int) keyPlan {
	const n = int(nStructClasses)
	p := keyPlan{signer: -1, second: -1}
	if (sk == kSM2 || sk == kP256) && ordKS%2 == 1 {
		p.signer = (ordKS / 2) % n
	}
	switch kind {
	case "cert": // every second certificate gets a structured subject key, SM2 and P-256 in turn
		if ordK%2 == 0 {
			p.secKind = []keyKind{kSM2, kP256}[(ordK/2)%2]
			p.second = (ordK / 4) % n
		}
	case "cfca-csr": // SM2 requests: the temporary key runs through all classes, then one from the PRNG
		if sk == kSM2 {
			if cl := ordKS % (n + 1); cl < n {
				if cl == p.signer {
					cl = (cl + 1) % n
				}
				p.secKind, p.second = kSM2, cl
			}
		}
	}
	return p
}

var curPlan keyPlan

// libR is the random source handed to the library during the current case. It is a
// stream of its own: the library consumes a non-reproducible number of bytes
// (randutil.MaybeReadByte), which must not shift the stream the generator takes its
// decisions from. Workloads run on one goroutine, so per-case state is kept in
// package variables.
var libR *mon.Rand

// genR is the generator stream of the object workloads: a function of (seed, workload,
// object number), hence the same in all parts of an object.
var genR *mon.Rand

// curPart is the part of the object the current case handles (laws only in part 0).
var curPart int

// sweepStride/sweepPhase of the current case: part p visits the offsets = p mod sweepParts.
// Objects signed by a P-384 key (one verification costs as much as twenty of the others)
// are swept at a quarter of those offsets, selected by the object number.
var sweepStride, sweepPhase = 1, 0

func splitLibRand(c *mon.Case) { libR = mon.NewRand(c.R.Uint64(), "c15.library-random-source") }

func runObject(c *mon.Case, seed uint64, workload string, i, part int, kind string, sk keyKind, sha1Mode bool) {
	genR = mon.NewRand(seed, workload+".object", i)
	libR = c.R
	curPart = part
	f := 1
	if sk == kP384 {
		f = 4
	}
	sweepStride, sweepPhase = sweepParts*f, part+sweepParts*(i%f)
	r := genR
	signer, err := newKey(r, sk, 0)
	if err != nil {
		c.Fail("reject", "key generation: %v", err)
		return
	}
	if curPlan.signer >= 0 {
		signer = structKey(sk, structClass(curPlan.signer))
	}
	var alg x509.SignatureAlgorithm
	if ch := sigAlgChoices(signer, sha1Mode); len(ch) > 0 {
		alg = ch[r.Intn(len(ch))]
	}
	uniq := fmt.Sprintf(" %x", r.Bytes(4))
	if signer.kind == kSM2 && curPart == 0 {
		// the public key is derived by the library from a fixed scalar: equal in every configuration
		px, py := sm2XY(signer)
		c.Digest(fmt.Sprintf("sm2-public-key/%d", i), append(px.Bytes(), py.Bytes()...))
	}
	switch kind {
	case "cert", "cert-selfsigned":
		certObject(c, kind == "cert-selfsigned", signer, alg, uniq)
	case "csr":
		csrObject(c, signer, alg, uniq)
	case "cfca-csr":
		cfcaObject(c, signer, alg, uniq)
	case "crl":
		crlObject(c, signer, alg, uniq)
	}
}

func algName(a x509.SignatureAlgorithm) string {
	if a == smx509.SM2WithSM3 {
		return "SM2-SM3"
	}
	if a == 0 {
		return "default"
	}
	return a.String()
}

func expectAlg(signer key, alg x509.SignatureAlgorithm) x509.SignatureAlgorithm {
	if alg == 0 {
		return defaultSigAlg(signer)
	}
	return alg
}

// makeCA creates a self-signed CA certificate for key k through the library and
// parses it. tweak may edit the template.
func makeCA(c *mon.Case, k key, alg x509.SignatureAlgorithm, uniq string, tweak func(t *x509.Certificate)) (*x509.Certificate, *smx509.Certificate, []byte, bool) {
	t := genCertTemplate(genR, true, uniq)
	t.SignatureAlgorithm = alg
	if tweak != nil {
		tweak(t)
	}
	var der []byte
	var err error
	if !c.Call("CreateCertificate(CA)", func() { der, err = smx509.CreateCertificate(libR, t, t, k.pub, k.priv) }) {
		return nil, nil, nil, false
	}
	if err != nil {
		c.Fail("reject", "CreateCertificate refused a well-formed self-signed CA template (signer %v, alg %s): %v", k.kind, algName(alg), err)
		return nil, nil, nil, false
	}
	var p *smx509.Certificate
	if !c.Call("ParseCertificate(CA)", func() { p, err = smx509.ParseCertificate(der) }) {
		return nil, nil, nil, false
	}
	if err != nil {
		c.Detail("der", der)
		c.Fail("reject", "ParseCertificate refused a certificate the library created: %v", err)
		return nil, nil, nil, false
	}
	return t, p, der, true
}

// ---- certificates ----

func certObject(c *mon.Case, selfSigned bool, signer key, alg x509.SignatureAlgorithm, uniq string) {
	r := genR
	var tmpl *x509.Certificate
	var parent *smx509.Certificate
	var parsed *smx509.Certificate
	var der []byte
	var subj key
	var err error
	if selfSigned {
		subj = signer
		tmpl = genCertTemplate(r, r.Intn(3) > 0, uniq)
		tmpl.SignatureAlgorithm = alg
		baseSerial := tmpl.SerialNumber
		var done bool
		if der, err, done = issue(c, "CreateCertificate", func(a int) ([]byte, error) {
			if a > 0 && baseSerial != nil {
				tmpl.SerialNumber = bump(baseSerial, a)
			}
			return smx509.CreateCertificate(libR, tmpl, tmpl, subj.pub, signer.priv)
		}); !done {
			return
		}
	} else {
		var ok bool
		if _, parent, _, ok = makeCA(c, signer, 0, "P"+uniq, nil); !ok {
			return
		}
		subjKind := keyKind(r.Intn(int(nKinds)))
		if subj, err = newKey(r, subjKind, 0); err != nil {
			c.Fail("reject", "key generation: %v", err)
			return
		}
		if curPlan.second >= 0 {
			subj = structKey(curPlan.secKind, structClass(curPlan.second))
		}
		tmpl = genCertTemplate(r, r.Intn(4) == 0, uniq)
		tmpl.SignatureAlgorithm = alg
		baseSerial := tmpl.SerialNumber
		var done bool
		if der, err, done = issue(c, "CreateCertificate", func(a int) ([]byte, error) {
			if a > 0 && baseSerial != nil {
				tmpl.SerialNumber = bump(baseSerial, a)
			}
			return smx509.CreateCertificate(libR, tmpl, parent, subj.pub, signer.priv)
		}); !done {
			return
		}
	}
	c.Class("cert/self=%v/signer=%v%s/alg=%s/subject=%v%s/ca=%v/nc=%v", selfSigned, signer.kind, signer.note, algName(alg), subj.kind, subj.note, tmpl.IsCA && tmpl.BasicConstraintsValid, hasConstraints(tmpl))
	if curPart == 0 && signer.note+subj.note != "" {
		c.Event("structured_keys_serialised/cert", 1)
	}
	if err != nil {
		c.Fail("reject", "CreateCertificate refused a well-formed template (signer %v alg %s subject %v): %v", signer.kind, algName(alg), subj.kind, err)
		return
	}
	c.Event("object_instances_created", 1)
	if curPart == 0 {
		c.Event("objects_created/cert", 1)
	}
	c.Detail("der", der)
	if !c.Call("ParseCertificate", func() { parsed, err = smx509.ParseCertificate(der) }) {
		return
	}
	if err != nil {
		c.Fail("reject", "ParseCertificate refused a certificate the library created: %v", err)
		return
	}
	issuer := parent
	if selfSigned {
		issuer = parsed
	}
	checkCertFields(c, tmpl, issuer, selfSigned, parsed, subj, signer, alg)

	// signature laws
	sigOK := true
	if selfSigned && !(parsed.BasicConstraintsValid && parsed.IsCA && (parsed.KeyUsage == 0 || parsed.KeyUsage&x509.KeyUsageCertSign != 0)) {
		// a self-signed non-CA certificate: CheckSignatureFrom(itself) is documented to refuse
		// (RFC 5280 4.2.1.9); the signature itself is checked through CheckSignature.
		var e error
		if c.Call("CheckSignatureFrom(self, not a CA)", func() { e = parsed.CheckSignatureFrom(parsed) }) && e == nil {
			c.Fail("accept", "CheckSignatureFrom accepted a parent that is not a CA / lacks certSign (BasicConstraintsValid=%v IsCA=%v KeyUsage=%#x)", parsed.BasicConstraintsValid, parsed.IsCA, int(parsed.KeyUsage))
		}
		c.Event("parent_gating_checked", 1)
		// issuer stand-in with the same key that is a CA, for the sweep
		var ok bool
		if _, issuer, _, ok = makeCA(c, signer, 0, "S"+uniq, nil); !ok {
			return
		}
	}
	var e error
	if c.Call("CheckSignatureFrom", func() { e = parsed.CheckSignatureFrom(issuer) }) && e != nil {
		c.Fail("reject", "signature of a created certificate does not verify under the issuer key (signer %v alg %s): %v", signer.kind, algName(alg), e)
		sigOK = false
	}
	if c.Call("CheckSignature", func() {
		e = issuer.CheckSignature(parsed.SignatureAlgorithm, parsed.RawTBSCertificate, parsed.Signature)
	}) && e != nil {
		c.Fail("reject", "issuer.CheckSignature(alg, RawTBSCertificate, Signature) failed: %v", e)
		sigOK = false
	}
	c.Event("honest_signature_checks", 2)
	independentSigCheck(c, "certificate", signer, parsed.SignatureAlgorithm, parsed.RawTBSCertificate, parsed.Signature)
	stdlibCrossCheck(c, der, signer, subj, issuer, selfSigned)
	if !sigOK {
		return
	}
	// key substitution: same CA attributes, other key (same kind and another kind)
	substituteIssuer(c, signer, func(other *smx509.Certificate) error { return parsed.CheckSignatureFrom(other) },
		func(other *smx509.Certificate) error {
			return other.CheckSignature(parsed.SignatureAlgorithm, parsed.RawTBSCertificate, parsed.Signature)
		}, uniq)
	// parent gating (RFC 5280 4.2.1.9 as documented in CheckSignatureFrom): same key, not allowed to sign
	parentGating(c, signer, uniq, x509.KeyUsageCertSign, func(p *smx509.Certificate) error { return parsed.CheckSignatureFrom(p) }, "certificate")

	orig := sigParts{tbs: parsed.RawTBSCertificate, sig: parsed.Signature, alg: parsed.SignatureAlgorithm}
	sweep(c, "cert", der, orig, true, func(m []byte) (*sigParts, error, error) {
		p, err := smx509.ParseCertificate(m)
		if err != nil {
			return nil, err, nil
		}
		return &sigParts{tbs: p.RawTBSCertificate, sig: p.Signature, alg: p.SignatureAlgorithm, raw: p.Raw}, nil, p.CheckSignatureFrom(issuer)
	})
}

// expected MaxPathLen after a round trip, per the CreateCertificate / ParseCertificate documentation
func expectedPathLen(t *x509.Certificate) int {
	if !t.BasicConstraintsValid {
		return 0
	}
	if t.MaxPathLen > 0 {
		return t.MaxPathLen
	}
	if t.MaxPathLen == 0 && t.MaxPathLenZero {
		return 0
	}
	return -1
}

// Context of the field laws, set by the template-history workload (reissue.go); the zero
// values are the plain case of a template written from scratch.
var (
	lawCtx           string // prefix of the violation messages: which template history / precedence rule
	skipSubjectLaw   bool   // RawSubject and Subject of template or parent differ: the documentation is silent, crypto/x509 on a twin judges
	akiFromExtraExt  []byte // non-nil: ExtraExtensions carries an authorityKeyIdentifier with this key id, which overrides (documented for ExtraExtensions)
	skidFromExtraExt []byte // non-nil: the same for subjectKeyIdentifier
)

func checkCertFields(c *mon.Case, t *x509.Certificate, issuer *smx509.Certificate, selfSigned bool, p *smx509.Certificate, subj, signer key, alg x509.SignatureAlgorithm) {
	if curPart != 0 {
		return // the laws are checked once per object, in part 0
	}
	bad := func(what string, got, want any) {
		c.Fail("mismatch", "%screated certificate parses back with a different %s: got %v want %v", lawCtx, what, got, want)
	}
	cmp := func(what string, got, want string) {
		c.Event("field_comparisons", 1)
		if got != want {
			bad(what, got, want)
		}
	}
	if p.Version != 3 {
		bad("version", p.Version, 3)
	}
	wantSubj, _ := asn1.Marshal(t.Subject.ToRDNSequence())
	if !skipSubjectLaw {
		c.Eq(lawCtx+"RawSubject", p.RawSubject, wantSubj)
		cmp("subject", nameFields(p.Subject), nameFields(t.Subject))
		if selfSigned {
			c.Eq(lawCtx+"RawIssuer", p.RawIssuer, wantSubj)
		} else {
			c.Eq(lawCtx+"RawIssuer", p.RawIssuer, issuer.RawSubject)
			cmp("issuer", nameFields(p.Issuer), nameFields(issuer.Subject))
		}
	}
	cmp("SANs", sansString(p.DNSNames, p.EmailAddresses, p.IPAddresses, p.URIs), sansString(t.DNSNames, t.EmailAddresses, t.IPAddresses, t.URIs))
	cmp("key usage", fmt.Sprintf("%#x", int(p.KeyUsage)), fmt.Sprintf("%#x", int(t.KeyUsage)))
	cmp("extended key usage", fmt.Sprint(p.ExtKeyUsage), fmt.Sprint(t.ExtKeyUsage))
	cmp("unknown extended key usage", oidStrings(p.UnknownExtKeyUsage), oidStrings(t.UnknownExtKeyUsage))
	cmp("BasicConstraintsValid", fmt.Sprint(p.BasicConstraintsValid), fmt.Sprint(t.BasicConstraintsValid))
	cmp("IsCA", fmt.Sprint(p.IsCA), fmt.Sprint(t.BasicConstraintsValid && t.IsCA))
	cmp("MaxPathLen", fmt.Sprint(p.MaxPathLen), fmt.Sprint(expectedPathLen(t)))
	cmp("MaxPathLenZero", fmt.Sprint(p.MaxPathLenZero), fmt.Sprint(t.BasicConstraintsValid && expectedPathLen(t) == 0))
	cmp("name constraints", constraintsString(p.ToX509()), constraintsString(t))
	if hasConstraints(t) {
		cmp("name constraints critical", fmt.Sprint(p.PermittedDNSDomainsCritical), fmt.Sprint(t.PermittedDNSDomainsCritical))
	}
	c.Event("field_comparisons", 2)
	if !p.NotBefore.Equal(t.NotBefore) || !p.NotAfter.Equal(t.NotAfter) {
		bad("validity", fmt.Sprint(p.NotBefore.UTC(), " .. ", p.NotAfter.UTC()), fmt.Sprint(t.NotBefore.UTC(), " .. ", t.NotAfter.UTC()))
	}
	if t.SerialNumber != nil {
		cmp("serial", p.SerialNumber.String(), t.SerialNumber.String())
	} else if p.SerialNumber.Sign() <= 0 || p.SerialNumber.BitLen() > 159 {
		bad("generated serial (must be positive, at most 20 octets)", p.SerialNumber, "0 < serial < 2^159")
	}
	c.Event("field_comparisons", 1)
	if !subj.samePublic(p.PublicKey) {
		bad("public key", fmt.Sprintf("%T %v", p.PublicKey, p.PublicKey), fmt.Sprintf("%T", subj.pub))
	}
	cmp("public key algorithm", p.PublicKeyAlgorithm.String(), pubKeyAlg(subj).String())
	cmp("signature algorithm", algName(p.SignatureAlgorithm), algName(expectAlg(signer, alg)))
	cmp("policies", oidStrings(p.PolicyIdentifiers), oidStrings(t.PolicyIdentifiers))
	cmp("OCSP servers", fmt.Sprintf("%q", p.OCSPServer), fmt.Sprintf("%q", t.OCSPServer))
	cmp("issuing certificate URLs", fmt.Sprintf("%q", p.IssuingCertificateURL), fmt.Sprintf("%q", t.IssuingCertificateURL))
	cmp("CRL distribution points", fmt.Sprintf("%q", p.CRLDistributionPoints), fmt.Sprintf("%q", t.CRLDistributionPoints))
	// key identifiers (documented rules of CreateCertificate)
	var spki struct {
		Algo pkix.AlgorithmIdentifier
		Key  asn1.BitString
	}
	if _, err := asn1.Unmarshal(p.RawSubjectPublicKeyInfo, &spki); err != nil {
		c.Fail("mismatch", "RawSubjectPublicKeyInfo of a created certificate is not a SubjectPublicKeyInfo: %v", err)
	} else {
		// the subjectPublicKey bits must be the standard fixed-width encoding of the template's key
		c.Eq("subjectPublicKey BIT STRING", spki.Key.Bytes, pubBytes(subj))
		want := t.SubjectKeyId
		if len(want) == 0 && t.IsCA {
			h := sha1.Sum(pubBytes(subj)) // RFC 5280 4.2.1.2 method 1, computed from the template's key
			want = h[:]
		}
		if skidFromExtraExt != nil {
			want = skidFromExtraExt
		}
		c.Eq(lawCtx+"SubjectKeyId", p.SubjectKeyId, want)
	}
	wantAKI := t.AuthorityKeyId
	if !selfSigned && len(issuer.SubjectKeyId) > 0 {
		wantAKI = issuer.SubjectKeyId
	}
	if akiFromExtraExt != nil {
		wantAKI = akiFromExtraExt
	}
	c.Eq(lawCtx+"AuthorityKeyId", p.AuthorityKeyId, wantAKI)
	for _, e := range t.ExtraExtensions {
		found := false
		for _, pe := range p.Extensions {
			if pe.Id.Equal(e.Id) {
				found = pe.Critical == e.Critical && bytes.Equal(pe.Value, e.Value)
			}
		}
		if !found {
			bad("extra extension "+e.Id.String(), "absent or altered", "present")
		}
		unh := false
		for _, u := range p.UnhandledCriticalExtensions {
			unh = unh || u.Equal(e.Id)
		}
		if want := e.Critical && !handledExtension(e.Id); unh != want {
			bad("UnhandledCriticalExtensions membership of "+e.Id.String(), unh, want)
		}
		c.Event("field_comparisons", 2)
	}
}

// independentSigCheck verifies SM2-SM3 signatures with the reference curve and
// reference SM3 (user id 1234567812345678), so that a signer and a verifier that are
// wrong in the same way do not pass.
func independentSigCheck(c *mon.Case, what string, signer key, alg x509.SignatureAlgorithm, tbs, sig []byte) {
	if curPart != 0 {
		return // the laws are checked once per object, in part 0
	}
	if signer.kind != kSM2 {
		return
	}
	if alg != smx509.SM2WithSM3 {
		return // reported by the field oracle already
	}
	px, py := sm2XY(signer)
	ok, err := refSM2Verify(px, py, tbs, sig)
	c.Event("independent_sm2_verifications", 1)
	if err != nil || !ok {
		c.Fail("mismatch", "SM2-SM3 signature on a created %s does not verify with the reference implementation of GB/T 32918.2 (default user id): ok=%v err=%v sig=%x", what, ok, err, sig)
	}
}

// substituteIssuer: the object must not verify under a different issuer key.
func substituteIssuer(c *mon.Case, signer key, viaFrom, viaCheck func(other *smx509.Certificate) error, uniq string) {
	if curPart != 0 {
		return // the laws are checked once per object, in part 0
	}
	others := []key{}
	if k, err := otherKey(genR, signer); err == nil {
		others = append(others, k)
	}
	ok2 := keyKind((int(signer.kind) + 1 + genR.Intn(int(nKinds)-1)) % int(nKinds))
	if k, err := newKey(genR, ok2, 0); err == nil {
		others = append(others, k)
	}
	for _, ok := range others {
		_, oc, _, good := makeCA(c, ok, 0, "X"+uniq, nil)
		if !good {
			continue
		}
		for name, f := range map[string]func(*smx509.Certificate) error{"CheckSignatureFrom": viaFrom, "CheckSignature": viaCheck} {
			if f == nil {
				continue
			}
			var e error
			if c.Call(name+"(substituted key)", func() { e = f(oc) }) {
				c.Event("substituted_key_checks", 1)
				if e == nil {
					c.Fail("accept", "%s accepted the object under a substituted issuer key (signer %v, substitute %v)", name, signer.kind, ok.kind)
				}
			}
		}
	}
}

// parentGating: an issuer certificate holding the right key but not entitled to
// sign (not a CA, basic constraints absent, key usage without the needed bit) must be refused;
// the same certificate without a key usage extension must be accepted.
func parentGating(c *mon.Case, signer key, uniq string, needed x509.KeyUsage, check func(p *smx509.Certificate) error, what string) {
	if curPart != 0 {
		return // the laws are checked once per object, in part 0
	}
	type variant struct {
		name  string
		tweak func(t *x509.Certificate)
		want  bool
	}
	vs := []variant{
		{"not a CA", func(t *x509.Certificate) { t.IsCA = false; t.MaxPathLen = -1; t.MaxPathLenZero = false }, false},
		{"no basic constraints", func(t *x509.Certificate) { t.BasicConstraintsValid = false }, false},
		{"key usage without the signing bit", func(t *x509.Certificate) {
			t.KeyUsage = x509.KeyUsageDigitalSignature | (x509.KeyUsageCertSign|x509.KeyUsageCRLSign)&^needed
		}, false},
		{"no key usage extension", func(t *x509.Certificate) { t.KeyUsage = 0 }, true},
	}
	v := vs[genR.Intn(len(vs))]
	_, pc, _, ok := makeCA(c, signer, 0, "G"+uniq, v.tweak)
	if !ok {
		return
	}
	var e error
	if !c.Call("CheckSignatureFrom(gated parent)", func() { e = check(pc) }) {
		return
	}
	c.Event("parent_gating_checked", 1)
	if v.want && e != nil {
		c.Fail("reject", "%s: issuer with the right key and %s was refused: %v", what, v.name, e)
	}
	if !v.want && e == nil {
		c.Fail("accept", "%s: CheckSignatureFrom accepted an issuer certificate with the right key but %s", what, v.name)
	}
}

// stdlibCrossCheck: a well-formed object created by smx509 without any SM2 key in it
// must also parse and verify with crypto/x509 (interoperability of created objects).
func stdlibCrossCheck(c *mon.Case, der []byte, signer, subj key, issuer *smx509.Certificate, selfSigned bool) {
	if curPart != 0 {
		return // the laws are checked once per object, in part 0
	}
	if signer.kind == kSM2 || subj.kind == kSM2 {
		return
	}
	sc, err := x509.ParseCertificate(der)
	c.Event("stdlib_cross_parses", 1)
	if err != nil {
		c.Fail("mismatch", "crypto/x509 refuses a well-formed certificate created by smx509 (no SM2 involved): %v", err)
		return
	}
	if err := checkSigStd(issuer.ToX509(), sc); err != nil {
		c.Fail("mismatch", "crypto/x509 does not verify the signature of a certificate created by smx509: %v", err)
	}
}

// checkSigStd uses Certificate.CheckSignature of the standard library, which (unlike
// CheckSignatureFrom) also accepts the SHA-1 algorithms of workload c15.sha1.
func checkSigStd(issuer *x509.Certificate, sc *x509.Certificate) error {
	return issuer.CheckSignature(sc.SignatureAlgorithm, sc.RawTBSCertificate, sc.Signature)
}

// issue creates an object. In part 0 it re-issues (attempt 1, 2, ...: the creator varies the
// serial / CRL number / subject so that deterministic schemes give another signature, the
// randomised ones draw fresh randomness from libR anyway) until the last signature octet
// has its low three bits clear, so that the unused-bits mutants 1..3 of the sweep are
// well-formed DER. ok=false: the library panicked (already recorded).
func issue(c *mon.Case, what string, create func(attempt int) ([]byte, error)) (der []byte, err error, ok bool) {
	limit := 1
	if curPart == 0 {
		limit = 128
	}
	for a := 0; a < limit; a++ {
		if !c.Call(what, func() { der, err = create(a) }) {
			return nil, nil, false
		}
		if err != nil || len(der) == 0 {
			return der, err, true
		}
		if curPart == 0 {
			c.Event("issue_attempts", 1)
		}
		if der[len(der)-1]&7 == 0 {
			if curPart == 0 {
				c.Event("objects_with_clear_low_signature_bits", 1)
			}
			return der, nil, true
		}
	}
	return der, nil, true
}

func bump(base *big.Int, a int) *big.Int { return new(big.Int).Add(base, big.NewInt(int64(a))) }

// ---- alteration sweep ----

type sigParts struct {
	tbs, sig []byte
	alg      x509.SignatureAlgorithm
	raw      []byte
}

// sweep applies the four substitutions at every offset of der (identity mutants
// excluded), every truncation and two trailing-data extensions, and demands:
// parse ∧ verify succeed ⇒ TBS, signature and signature algorithm are the original's.
// fidelity: additionally an accepted input must be reproduced in Raw (objects whose
// parser documents that trailing data is refused).
func sweep(c *mon.Case, what string, der []byte, orig sigParts, fidelity bool, pv func(m []byte) (*sigParts, error, error)) {
	// Layout of a created object: SEQUENCE { tbs, signatureAlgorithm, signatureValue BIT STRING }.
	// The BIT STRING is the last element and is created with 0 unused bits, so its content is
	// the unused-bits octet followed by the signature octets, up to the end of the DER.
	tbsOff := bytes.Index(der, orig.tbs)
	sigOff := len(der) - len(orig.sig)
	unusedOff := sigOff - 1
	if tbsOff < 0 || unusedOff <= tbsOff+len(orig.tbs) || !bytes.Equal(der[sigOff:], orig.sig) || der[unusedOff] != 0 {
		c.Detail("der", der)
		c.Fail("mismatch", "created %s is not laid out as tbs || algorithm || BIT STRING(0 unused bits, signature): tbs at %d, signature expected at %d, unused-bits octet %#x",
			what, tbsOff, sigOff, der[max(unusedOff, 0)])
		return
	}
	// strict regions: the signed portion (the whole tbs element) and the content octets of
	// signatureValue including the unused-bits octet. An alteration there must make parsing or
	// verification fail, without exception. Elsewhere (outer SEQUENCE header, signatureAlgorithm
	// element, tag/length octets of signatureValue) the implication below is demanded.
	region := func(i int) (string, bool) {
		switch {
		case i < tbsOff:
			return "outer-header", false
		case i < tbsOff+len(orig.tbs):
			return "tbs", true
		case i < unusedOff:
			return "algorithm+bitstring-header", false
		case i == unusedOff:
			return "signature-unused-bits-octet", true
		}
		return "signature", true
	}
	try := func(m []byte, desc string, rg string, strict bool) {
		var p *sigParts
		var perr, verr error
		pi := mon.Try(func() { p, perr, verr = pv(m) })
		c.Event("alterations", 1)
		if pi != nil {
			c.Detail("altered", m)
			c.Detail("stack", pi.Stack)
			c.Fail("panic", "%s %s: panic while parsing/verifying: %v", what, desc, pi.Value)
			return
		}
		switch {
		case perr != nil:
			c.Event("alter/"+rg+"/parse_refused", 1)
		case verr != nil:
			c.Event("alter/"+rg+"/signature_refused", 1)
		default:
			same := bytes.Equal(p.tbs, orig.tbs) && bytes.Equal(p.sig, orig.sig) && p.alg == orig.alg
			if strict {
				c.Detail("altered", m)
				c.Fail("accept", "%s %s lies in the %s (signed portion / signatureValue content), yet the altered object parses and its signature verifies (parsed tbs same=%v, signature same=%v, alg %v vs %v)",
					what, desc, rg, bytes.Equal(p.tbs, orig.tbs), bytes.Equal(p.sig, orig.sig), p.alg, orig.alg)
				return
			}
			if !same {
				c.Detail("altered", m)
				c.Fail("accept", "%s %s (region %s) parses and its signature verifies although TBS/signature/algorithm differ from the original (tbs same=%v, sig same=%v, alg %v vs %v)",
					what, desc, rg, bytes.Equal(p.tbs, orig.tbs), bytes.Equal(p.sig, orig.sig), p.alg, orig.alg)
				return
			}
			c.Event("alter/"+rg+"/accepted_same_tbs_sig_alg", 1)
			if fidelity && !bytes.Equal(p.raw, m) {
				c.Detail("altered", m)
				c.Fail("accept", "%s %s accepted, but Raw (%d bytes) is not the input (%d bytes): bytes outside the object were ignored", what, desc, len(p.raw), len(m))
			}
		}
	}
	m := make([]byte, len(der))
	for i := range der {
		if i%sweepStride != sweepPhase {
			continue
		}
		for k, v := range [4]byte{der[i] ^ 0x01, der[i] ^ 0x80, 0x00, 0xFF} {
			if v == der[i] {
				continue // identity mutant
			}
			copy(m, der)
			m[i] = v
			rg, strict := region(i)
			try(m, fmt.Sprintf("offset %d: %#02x -> %#02x (subst %d)", i, der[i], v, k), rg, strict)
		}
	}
	if curPart == 0 {
		// the unused-bits octet gets every value 1..7: k unused bits is well-formed DER when the low
		// k bits of the last signature octet are zero (issue() re-issues until the low 3 bits are)
		for k := byte(1); k <= 7; k++ {
			copy(m, der)
			m[unusedOff] = k
			wf := "malformed"
			if der[len(der)-1]&(1<<k-1) == 0 {
				wf = "well-formed"
				c.Event("unused_bits_mutants_wellformed", 1)
			}
			try(m, fmt.Sprintf("offset %d: unused-bits octet of signatureValue 0 -> %d (%s BIT STRING, last signature octet %#02x)", unusedOff, k, wf, der[len(der)-1]),
				"signature-unused-bits-octet", true)
		}
		for n := 0; n < len(der); n++ {
			try(der[:n:n], fmt.Sprintf("truncated to %d of %d bytes", n, len(der)), "truncation", false)
		}
		trail := "trailing"
		if !fidelity {
			trail = "trailing(Raw fidelity not judged)"
		}
		try(append(append([]byte{}, der...), 0x00), "with one trailing zero byte", trail, false)
		try(append(append([]byte{}, der...), der...), "followed by a copy of itself", trail, false)
		c.Event("sweeps(objects)", 1)
	}
	c.Event(fmt.Sprintf("swept_offsets(stride %d)", sweepStride), (len(der)-sweepPhase+sweepStride-1)/sweepStride)
}

// ---- certificate requests ----

func genCSRTemplate(r *mon.Rand, uniq string) *x509.CertificateRequest {
	t := &x509.CertificateRequest{Subject: genName(r, r.Range(1, 4), uniq)}
	if r.Intn(3) > 0 {
		t.DNSNames = subset(r, dnsPool, r.Intn(4))
		t.EmailAddresses = subset(r, emailPool, r.Intn(3))
		for i := r.Intn(3); i > 0; i-- {
			t.IPAddresses = append(t.IPAddresses, randIP(r))
		}
		t.URIs = parseURIs(subset(r, uriPool, r.Intn(3)))
	}
	if r.Intn(3) == 0 {
		ku, _ := asn1.Marshal(asn1.BitString{Bytes: []byte{0xa0}, BitLength: 3})
		t.ExtraExtensions = append(t.ExtraExtensions, pkix.Extension{Id: asn1.ObjectIdentifier{2, 5, 29, 15}, Critical: true, Value: ku})
	}
	if r.Intn(3) == 0 {
		t.ExtraExtensions = append(t.ExtraExtensions, pkix.Extension{Id: append(append(asn1.ObjectIdentifier{}, oidVerifArc...), 2, r.Intn(1000)), Value: r.Bytes(r.Range(1, 16))})
	}
	return t
}

func csrObject(c *mon.Case, signer key, alg x509.SignatureAlgorithm, uniq string) {
	r := genR
	t := genCSRTemplate(r, uniq)
	t.SignatureAlgorithm = alg
	if curPart == 0 && signer.note != "" {
		c.Event("structured_keys_serialised/csr", 1)
	}
	c.Class("csr/signer=%v%s/alg=%s/sans=%v/ext=%d", signer.kind, signer.note, algName(alg), len(t.DNSNames)+len(t.EmailAddresses)+len(t.IPAddresses)+len(t.URIs) > 0, len(t.ExtraExtensions))
	var der []byte
	var err error
	baseCN := t.Subject.CommonName
	var done bool
	if der, err, done = issue(c, "CreateCertificateRequest", func(a int) ([]byte, error) {
		if a > 0 {
			t.Subject.CommonName = fmt.Sprintf("%s r%d", baseCN, a)
		}
		return smx509.CreateCertificateRequest(libR, t, signer.priv)
	}); !done {
		return
	}
	if err != nil {
		c.Fail("reject", "CreateCertificateRequest refused a well-formed template (signer %v alg %s): %v", signer.kind, algName(alg), err)
		return
	}
	c.Event("object_instances_created", 1)
	if curPart == 0 {
		c.Event("objects_created/csr", 1)
	}
	c.Detail("der", der)
	var p *smx509.CertificateRequest
	if !c.Call("ParseCertificateRequest", func() { p, err = smx509.ParseCertificateRequest(der) }) {
		return
	}
	if err != nil {
		c.Fail("reject", "ParseCertificateRequest refused a request the library created: %v", err)
		return
	}
	checkCSRFields(c, t, p, signer, alg)
	var e error
	if c.Call("CSR CheckSignature", func() { e = p.CheckSignature() }) && e != nil {
		c.Fail("reject", "signature of a created request does not verify (signer %v alg %s): %v", signer.kind, algName(alg), e)
		return
	}
	c.Event("honest_signature_checks", 1)
	independentSigCheck(c, "certificate request", signer, p.SignatureAlgorithm, p.RawTBSCertificateRequest, p.Signature)
	if signer.kind != kSM2 {
		sc, err := x509.ParseCertificateRequest(der)
		c.Event("stdlib_cross_parses", 1)
		if err != nil {
			c.Fail("mismatch", "crypto/x509 refuses a well-formed request created by smx509: %v", err)
		} else if err := sc.CheckSignature(); err != nil {
			c.Fail("mismatch", "crypto/x509 does not verify a request created by smx509: %v", err)
		}
	}
	// the request must not verify under another key (through a certificate holding that key)
	substituteIssuer(c, signer, nil, func(other *smx509.Certificate) error {
		return other.CheckSignature(p.SignatureAlgorithm, p.RawTBSCertificateRequest, p.Signature)
	}, uniq)
	orig := sigParts{tbs: p.RawTBSCertificateRequest, sig: p.Signature, alg: p.SignatureAlgorithm}
	sweep(c, "csr", der, orig, true, func(m []byte) (*sigParts, error, error) {
		q, err := smx509.ParseCertificateRequest(m)
		if err != nil {
			return nil, err, nil
		}
		return &sigParts{tbs: q.RawTBSCertificateRequest, sig: q.Signature, alg: q.SignatureAlgorithm, raw: q.Raw}, nil, q.CheckSignature()
	})
}

func checkCSRFields(c *mon.Case, t *x509.CertificateRequest, p *smx509.CertificateRequest, signer key, alg x509.SignatureAlgorithm) {
	if curPart != 0 {
		return // the laws are checked once per object, in part 0
	}
	cmp := func(what string, got, want string) {
		c.Event("field_comparisons", 1)
		if got != want {
			c.Fail("mismatch", "%screated request parses back with a different %s: got %v want %v", lawCtx, what, got, want)
		}
	}
	if !skipSubjectLaw {
		wantSubj, _ := asn1.Marshal(t.Subject.ToRDNSequence())
		c.Eq(lawCtx+"CSR RawSubject", p.RawSubject, wantSubj)
		cmp("subject", nameFields(p.Subject), nameFields(t.Subject))
	}
	cmp("SANs", sansString(p.DNSNames, p.EmailAddresses, p.IPAddresses, p.URIs), sansString(t.DNSNames, t.EmailAddresses, t.IPAddresses, t.URIs))
	cmp("version", fmt.Sprint(p.Version), "0")
	cmp("public key algorithm", p.PublicKeyAlgorithm.String(), pubKeyAlg(signer).String())
	cmp("signature algorithm", algName(p.SignatureAlgorithm), algName(expectAlg(signer, alg)))
	c.Event("field_comparisons", 1)
	if !signer.samePublic(p.PublicKey) {
		c.Fail("mismatch", "created request parses back with a different public key (%T)", p.PublicKey)
	}
	var spki struct {
		Algo pkix.AlgorithmIdentifier
		Key  asn1.BitString
	}
	if _, err := asn1.Unmarshal(p.RawSubjectPublicKeyInfo, &spki); err != nil {
		c.Fail("mismatch", "RawSubjectPublicKeyInfo of a created request is not a SubjectPublicKeyInfo: %v", err)
	} else {
		c.Eq("CSR subjectPublicKey BIT STRING", spki.Key.Bytes, pubBytes(signer))
	}
	for _, e := range t.ExtraExtensions {
		found := false
		for _, pe := range p.Extensions {
			if pe.Id.Equal(e.Id) && bytes.Equal(pe.Value, e.Value) && pe.Critical == e.Critical {
				found = true
			}
		}
		c.Event("field_comparisons", 1)
		if !found {
			c.Fail("mismatch", "requested extension %v is absent or altered after parsing", e.Id)
		}
	}
}

// ---- CFCA requests ----

func pubString(p any) string {
	switch k := p.(type) {
	case nil:
		return "nil"
	case *ecdsa.PublicKey:
		if k == nil {
			return "nil *ecdsa.PublicKey"
		}
		return fmt.Sprintf("EC X=%064x Y=%064x", k.X, k.Y)
	case *rsa.PublicKey:
		return fmt.Sprintf("RSA N=%x.. E=%d", k.N.Bytes()[:8], k.E)
	}
	return fmt.Sprintf("%T", p)
}

func cfcaObject(c *mon.Case, signer key, alg x509.SignatureAlgorithm, uniq string) {
	r := genR
	t := &x509.CertificateRequest{Subject: genName(r, r.Range(1, 4), uniq), SignatureAlgorithm: alg}
	var tmp key
	var tmpPub any
	pw := ""
	mode := "no-temp-key"
	if (signer.kind == kSM2 || signer.kind == kRSA) && (r.Intn(5) > 0 || curPlan.second >= 0) {
		var err error
		if tmp, err = otherKey(r, signer); err != nil {
			c.Fail("reject", "key generation: %v", err)
			return
		}
		if curPlan.second >= 0 {
			tmp = structKey(curPlan.secKind, structClass(curPlan.second))
			if curPart == 0 {
				c.Event("structured_keys_serialised/cfca-temporary-key/"+tmp.note, 1)
			}
		}
		tmpPub = tmp.pub
		pw = []string{"pass1234", "A", "challenge-" + fmt.Sprintf("%x", r.Bytes(6)), "口令 pw", "Zm9vYmFy+/="}[r.Intn(5)]
		mode = "temp-key"
	}
	c.Class("cfca/signer=%v%s/alg=%s/%s%s", signer.kind, signer.note, algName(alg), mode, tmp.note)
	var der []byte
	var err error
	baseCN := t.Subject.CommonName
	var done bool
	if der, err, done = issue(c, "CreateCFCACertificateRequest", func(a int) ([]byte, error) {
		if a > 0 {
			t.Subject.CommonName = fmt.Sprintf("%s r%d", baseCN, a)
		}
		return smx509.CreateCFCACertificateRequest(libR, t, signer.priv, tmpPub, pw)
	}); !done {
		return
	}
	if err != nil {
		c.Fail("reject", "CreateCFCACertificateRequest refused a well-formed request (signer %v alg %s %s): %v", signer.kind, algName(alg), mode, err)
		return
	}
	c.Event("object_instances_created", 1)
	if curPart == 0 {
		c.Event("objects_created/cfca-csr", 1)
	}
	c.Detail("der", der)
	var p *smx509.CertificateRequestCFCA
	if !c.Call("ParseCFCACertificateRequest", func() { p, err = smx509.ParseCFCACertificateRequest(der) }) {
		return
	}
	if err != nil {
		c.Fail("reject", "ParseCFCACertificateRequest refused a request the library created: %v", err)
		return
	}
	checkCSRFields(c, t, &p.CertificateRequest, signer, alg)
	c.Event("field_comparisons", 2)
	if p.ChallengePassword != pw {
		c.Fail("mismatch", "CFCA challenge password parses back as %q, want %q", p.ChallengePassword, pw)
	}
	if tmpPub == nil {
		if p.TmpPublicKey != nil {
			c.Fail("mismatch", "CFCA request without temporary key parses back with one (%T)", p.TmpPublicKey)
		}
	} else if !tmp.samePublic(p.TmpPublicKey) { // comparison by value (X, Y, curve / N, E)
		c.Fail("mismatch", "CFCA temporary public key (class %q) does not parse back to the key that was put in: want %s, got %s", tmp.note, pubString(tmp.pub), pubString(p.TmpPublicKey))
	}
	// the plain parser must agree on the common part
	var q *smx509.CertificateRequest
	if c.Call("ParseCertificateRequest(cfca)", func() { q, err = smx509.ParseCertificateRequest(der) }) {
		if err != nil {
			c.Fail("reject", "ParseCertificateRequest refused a CFCA request the library created: %v", err)
		} else if !bytes.Equal(q.RawTBSCertificateRequest, p.RawTBSCertificateRequest) {
			c.Fail("mismatch", "the two request parsers disagree on RawTBSCertificateRequest")
		}
	}
	var e error
	if c.Call("CFCA CheckSignature", func() { e = p.CheckSignature() }) && e != nil {
		c.Fail("reject", "signature of a created CFCA request does not verify (signer %v alg %s): %v", signer.kind, algName(alg), e)
		return
	}
	c.Event("honest_signature_checks", 1)
	independentSigCheck(c, "CFCA request", signer, p.SignatureAlgorithm, p.RawTBSCertificateRequest, p.Signature)
	substituteIssuer(c, signer, nil, func(other *smx509.Certificate) error {
		return other.CheckSignature(p.SignatureAlgorithm, p.RawTBSCertificateRequest, p.Signature)
	}, uniq)
	orig := sigParts{tbs: p.RawTBSCertificateRequest, sig: p.Signature, alg: p.SignatureAlgorithm}
	sweep(c, "cfca-csr", der, orig, true, func(m []byte) (*sigParts, error, error) {
		q, err := smx509.ParseCFCACertificateRequest(m)
		if err != nil {
			return nil, err, nil
		}
		return &sigParts{tbs: q.RawTBSCertificateRequest, sig: q.Signature, alg: q.SignatureAlgorithm, raw: q.Raw}, nil, q.CheckSignature()
	})
}

// ---- revocation lists ----

func crlObject(c *mon.Case, signer key, alg x509.SignatureAlgorithm, uniq string) {
	r := genR
	_, issuer, _, ok := makeCA(c, signer, 0, "R"+uniq, nil)
	if !ok {
		return
	}
	this := time.Date(2024, 3, 1, 0, 0, 0, 0, time.UTC).Add(time.Duration(r.Intn(86400*365)) * time.Second)
	if r.Intn(6) == 0 {
		this = time.Date(2050, 1, 1, 0, 0, 0, 0, time.UTC).Add(-time.Duration(r.Intn(3)) * time.Second)
	}
	t := &x509.RevocationList{
		SignatureAlgorithm: alg,
		Number:             new(big.Int).SetBytes(r.Bytes(r.Range(1, 19))),
		ThisUpdate:         this,
		NextUpdate:         this.Add(time.Duration(r.Intn(86400*60)) * time.Second),
	}
	for i := r.Intn(5); i > 0; i-- {
		e := x509.RevocationListEntry{
			SerialNumber:   new(big.Int).Add(new(big.Int).SetBytes(r.Bytes(r.Range(1, 16))), big.NewInt(1)),
			RevocationTime: this.Add(-time.Duration(r.Intn(86400*300)+1) * time.Second),
		}
		if r.Bool() {
			e.ReasonCode = []int{1, 2, 3, 4, 5, 6, 8, 9, 10}[r.Intn(9)]
		}
		t.RevokedCertificateEntries = append(t.RevokedCertificateEntries, e)
	}
	if r.Intn(4) == 0 {
		t.ExtraExtensions = []pkix.Extension{{Id: append(append(asn1.ObjectIdentifier{}, oidVerifArc...), 4, r.Intn(1000)), Value: r.Bytes(r.Range(1, 12))}}
	}
	c.Class("crl/signer=%v%s/alg=%s/entries=%d/ext=%d", signer.kind, signer.note, algName(alg), len(t.RevokedCertificateEntries), len(t.ExtraExtensions))
	var der []byte
	var err error
	baseNumber := t.Number
	var done bool
	if der, err, done = issue(c, "CreateRevocationList", func(a int) ([]byte, error) {
		if a > 0 {
			t.Number = bump(baseNumber, a)
		}
		return smx509.CreateRevocationList(libR, t, issuer, signer.priv)
	}); !done {
		return
	}
	if err != nil {
		c.Fail("reject", "CreateRevocationList refused a well-formed template (signer %v alg %s): %v", signer.kind, algName(alg), err)
		return
	}
	c.Event("object_instances_created", 1)
	if curPart == 0 {
		c.Event("objects_created/crl", 1)
	}
	c.Detail("der", der)
	var p *smx509.RevocationList
	if !c.Call("ParseRevocationList", func() { p, err = smx509.ParseRevocationList(der) }) {
		return
	}
	if err != nil {
		c.Fail("reject", "ParseRevocationList refused a list the library created: %v", err)
		return
	}
	// fields
	cmp := func(what string, got, want string) {
		c.Event("field_comparisons", 1)
		if got != want {
			c.Fail("mismatch", "created revocation list parses back with a different %s: got %v want %v", what, got, want)
		}
	}
	c.Eq("CRL RawIssuer", p.RawIssuer, issuer.RawSubject)
	cmp("issuer", nameFields(p.Issuer), nameFields(issuer.Subject))
	cmp("number", fmt.Sprint(p.Number), fmt.Sprint(t.Number))
	cmp("thisUpdate", fmt.Sprint(p.ThisUpdate.UTC()), fmt.Sprint(t.ThisUpdate.UTC()))
	cmp("nextUpdate", fmt.Sprint(p.NextUpdate.UTC()), fmt.Sprint(t.NextUpdate.UTC()))
	cmp("signature algorithm", algName(p.SignatureAlgorithm), algName(expectAlg(signer, alg)))
	c.Eq("CRL AuthorityKeyId", p.AuthorityKeyId, issuer.SubjectKeyId)
	entries := func(es []x509.RevocationListEntry) string {
		var s []string
		for _, e := range es {
			s = append(s, fmt.Sprintf("%v@%d/%d", e.SerialNumber, e.RevocationTime.Unix(), e.ReasonCode))
		}
		return strings.Join(s, " ")
	}
	cmp("revoked entries", entries(p.RevokedCertificateEntries), entries(t.RevokedCertificateEntries))
	for _, e := range t.ExtraExtensions {
		found := false
		for _, pe := range p.Extensions {
			found = found || pe.Id.Equal(e.Id) && bytes.Equal(pe.Value, e.Value)
		}
		c.Event("field_comparisons", 1)
		if !found {
			c.Fail("mismatch", "CRL extension %v is absent or altered after parsing", e.Id)
		}
	}
	var e error
	if c.Call("CRL CheckSignatureFrom", func() { e = p.CheckSignatureFrom(issuer) }) && e != nil {
		c.Fail("reject", "signature of a created revocation list does not verify under the issuer (signer %v alg %s): %v", signer.kind, algName(alg), e)
		return
	}
	c.Event("honest_signature_checks", 1)
	independentSigCheck(c, "revocation list", signer, p.SignatureAlgorithm, p.RawTBSRevocationList, p.Signature)
	if signer.kind != kSM2 {
		sc, err := x509.ParseRevocationList(der)
		c.Event("stdlib_cross_parses", 1)
		if err != nil {
			c.Fail("mismatch", "crypto/x509 refuses a well-formed revocation list created by smx509: %v", err)
		} else if err := sc.CheckSignatureFrom(issuer.ToX509()); err != nil {
			c.Fail("mismatch", "crypto/x509 does not verify a revocation list created by smx509: %v", err)
		}
	}
	substituteIssuer(c, signer, func(other *smx509.Certificate) error { return p.CheckSignatureFrom(other) }, nil, uniq)
	parentGating(c, signer, uniq, x509.KeyUsageCRLSign, func(pc *smx509.Certificate) error { return p.CheckSignatureFrom(pc) }, "revocation list")
	orig := sigParts{tbs: p.RawTBSRevocationList, sig: p.Signature, alg: p.SignatureAlgorithm}
	// ParseRevocationList (like crypto/x509) does not look at bytes after the outer SEQUENCE:
	// the trailing-data mutants are executed and counted but not judged for Raw fidelity.
	sweep(c, "crl", der, orig, false, func(m []byte) (*sigParts, error, error) {
		q, err := smx509.ParseRevocationList(m)
		if err != nil {
			return nil, err, nil
		}
		return &sigParts{tbs: q.RawTBSRevocationList, sig: q.Signature, alg: q.SignatureAlgorithm, raw: q.Raw}, nil, q.CheckSignatureFrom(issuer)
	})
}
