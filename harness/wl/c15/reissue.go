package c15

import (
	"bytes"
	"crypto/x509"
	"crypto/x509/pkix"
	"encoding/asn1"
	"fmt"
	"math/big"
	"sort"
	"strings"
	"time"

	"github.com/emmansun/gmsm/smx509"

	"verifh/mon"
	"verifh/wl/reg"
)

// c15.reissue: "parses back with the same fields" for templates that are not written
// from scratch.
//
// Histories: create -> parse -> take the parsed object (its ToX509 form, or the
// smx509 value itself where the creator accepts it) as the next template, change it
// the way a CA program does (new serial / number, later dates, one more name, one more
// revoked entry, another parent, another key ...) -> create -> parse, twice in a row,
// for certificates (under a CA and self-signed), requests and revocation lists and for
// every signer key type. A parsed object has every output-only field populated
// (Extensions, Raw*, Signature, the other one of each deprecated / current field pair):
// the result must be what the documented input fields of the changed template say.
//
// Precedence: templates written from scratch that populate both sides of a documented
// rule DIFFERENTLY: ExtraExtensions against each dedicated field group (documented:
// ExtraExtensions override), Extensions (documented: ignored when creating), given key
// identifiers against derived ones, AuthorityKeyId against the parent's SubjectKeyId,
// RevokedCertificateEntries against the deprecated RevokedCertificates (documented: the
// deprecated list is used only if the other is empty), the CRL's AuthorityKeyId / Issuer
// (documented: taken from the issuer certificate), request Attributes against
// ExtraExtensions against the name fields (documented: Attributes override ExtraExtensions
// override fields), Policies against PolicyIdentifiers (only the latter is in the list of
// used members), output-only fields filled with contradicting values.
//
// Oracles: the documented rule, applied by the harness to the template (the "effective
// template" goes through the same field-by-field comparison as in c15.objects, plus
// the exact set of extension identifiers: nothing of the old object may leak); where the
// documentation is silent (RawSubject against Subject, Attributes holding extensions that
// do not fit the deprecated type) the same template is given to crypto/x509 with P-256
// twin keys and names, validity, serial and the complete extension lists must agree.

func init() { reg.Register("c15.reissue", "C15", reissue) }

var (
	reissueSigners = []keyKind{kSM2, kP256, kRSA, kEd25519, kSM2, kP384, kRSA, kP256, kSM2, kEd25519}
	reissueKinds   = []string{"crl", "cert", "csr", "crl-precedence", "cert-selfsigned", "cert-precedence", "csr-precedence"}
)

func reissue(x *mon.Ctx) {
	if err := selfTest(); err != nil {
		x.HarnessError("%v", err)
	}
	n := x.Scale(490, 7000)
	for i := 0; i < n; i++ {
		kind, sk := reissueKinds[i%len(reissueKinds)], reissueSigners[(i/len(reissueKinds))%len(reissueSigners)]
		c := x.Begin("template history #%d kind=%s signer=%v (templates, changes and keys from the case PRNG)", i, kind, sk)
		if c == nil {
			continue
		}
		splitLibRand(c)
		genR, curPart = c.R, 0
		lawCtx, skipSubjectLaw, akiFromExtraExt, skidFromExtraExt = "", false, nil, nil
		signer, err := newKey(c.R, sk, 0)
		if err != nil {
			c.Fail("reject", "key generation: %v", err)
		} else {
			switch kind {
			case "cert", "cert-selfsigned":
				certHistory(c, signer, kind == "cert-selfsigned")
			case "cert-precedence":
				certPrecedence(c, signer)
			case "crl":
				crlHistory(c, signer)
			case "crl-precedence":
				crlPrecedence(c, signer)
			case "csr":
				csrHistory(c, signer)
			case "csr-precedence":
				csrPrecedence(c, signer)
			}
		}
		lawCtx, skipSubjectLaw, akiFromExtraExt, skidFromExtraExt = "", false, nil, nil
		c.End()
	}
}

func pickAlg(r *mon.Rand, k key) x509.SignatureAlgorithm {
	ch := sigAlgChoices(k, false)
	return ch[r.Intn(len(ch))]
}

var (
	oidExtSKID     = asn1.ObjectIdentifier{2, 5, 29, 14}
	oidExtKU       = asn1.ObjectIdentifier{2, 5, 29, 15}
	oidExtSAN      = asn1.ObjectIdentifier{2, 5, 29, 17}
	oidExtBC       = asn1.ObjectIdentifier{2, 5, 29, 19}
	oidExtCRLNum   = asn1.ObjectIdentifier{2, 5, 29, 20}
	oidExtReason   = asn1.ObjectIdentifier{2, 5, 29, 21}
	oidExtNC       = asn1.ObjectIdentifier{2, 5, 29, 30}
	oidExtCRLDP    = asn1.ObjectIdentifier{2, 5, 29, 31}
	oidExtPolicies = asn1.ObjectIdentifier{2, 5, 29, 32}
	oidExtAKID     = asn1.ObjectIdentifier{2, 5, 29, 35}
	oidExtEKU      = asn1.ObjectIdentifier{2, 5, 29, 37}
	oidExtAIA      = asn1.ObjectIdentifier{1, 3, 6, 1, 5, 5, 7, 1, 1}
	oidExtRequest  = asn1.ObjectIdentifier{1, 2, 840, 113549, 1, 9, 14}
)

func verifOID(arc ...int) asn1.ObjectIdentifier {
	return append(append(asn1.ObjectIdentifier{}, oidVerifArc...), arc...)
}

func extIDs(es []pkix.Extension) string {
	var s []string
	for _, e := range es {
		s = append(s, e.Id.String())
	}
	sort.Strings(s)
	return strings.Join(s, " ")
}

func extList(es []pkix.Extension, skip ...asn1.ObjectIdentifier) string {
	var s []string
next:
	for _, e := range es {
		for _, k := range skip {
			if e.Id.Equal(k) {
				s = append(s, e.Id.String()+"(value not compared)")
				continue next
			}
		}
		s = append(s, fmt.Sprintf("%v/%v/%x", e.Id, e.Critical, e.Value))
	}
	return strings.Join(s, " ")
}

// ---------------------------------------------------------------------------
// certificates
// ---------------------------------------------------------------------------

// wantCertExtIDs: the identifiers of the extensions the documented template fields produce.
func wantCertExtIDs(t *x509.Certificate, skid, akid bool) string {
	ids := map[string]bool{}
	add := func(on bool, id asn1.ObjectIdentifier) {
		if on {
			ids[id.String()] = true
		}
	}
	add(t.KeyUsage != 0, oidExtKU)
	add(len(t.ExtKeyUsage)+len(t.UnknownExtKeyUsage) > 0, oidExtEKU)
	add(t.BasicConstraintsValid, oidExtBC)
	add(skid, oidExtSKID)
	add(akid, oidExtAKID)
	add(len(t.OCSPServer)+len(t.IssuingCertificateURL) > 0, oidExtAIA)
	add(len(t.DNSNames)+len(t.EmailAddresses)+len(t.IPAddresses)+len(t.URIs) > 0, oidExtSAN)
	add(len(t.PolicyIdentifiers) > 0, oidExtPolicies)
	add(hasConstraints(t), oidExtNC)
	add(len(t.CRLDistributionPoints) > 0, oidExtCRLDP)
	for _, e := range t.ExtraExtensions {
		ids[e.Id.String()] = true
	}
	var s []string
	for k := range ids {
		s = append(s, k)
	}
	sort.Strings(s)
	return strings.Join(s, " ")
}

// certChange applies 1..3 changes a CA program makes to a template before re-issuing.
func certChange(t *x509.Certificate, r *mon.Rand, selfSigned bool, gen int) string {
	var notes []string
	emptySubject := bytes.Equal(t.RawSubject, []byte{0x30, 0})
	for _, m := range r.Perm(15)[:r.Range(1, 3)] {
		switch m {
		case 0:
			if t.SerialNumber = genSerial(r); t.SerialNumber == nil && r.Bool() {
				t.SerialNumber = big.NewInt(int64(7000 + gen))
			}
			notes = append(notes, "serial")
		case 1:
			t.NotAfter = t.NotAfter.Add(time.Duration(r.Range(1, 800)) * day)
			if r.Bool() {
				t.NotBefore = t.NotBefore.Add(time.Duration(r.Range(1, 86400)) * time.Second)
			}
			notes = append(notes, "validity")
		case 2:
			if len(t.DNSNames) > 0 && r.Intn(3) == 0 && !emptySubject {
				t.DNSNames = nil
				notes = append(notes, "DNSNames cleared")
			} else {
				t.DNSNames = append(append([]string{}, t.DNSNames...), fmt.Sprintf("re%d.example.com", gen))
				notes = append(notes, "DNSNames+1")
			}
		case 3:
			t.EmailAddresses = subset(r, emailPool, r.Intn(3))
			t.IPAddresses = nil
			for k := r.Intn(3); k > 0; k-- {
				t.IPAddresses = append(t.IPAddresses, randIP(r))
			}
			if emptySubject && len(t.DNSNames)+len(t.EmailAddresses)+len(t.IPAddresses)+len(t.URIs) == 0 {
				t.DNSNames = []string{"only.example.com"}
			}
			notes = append(notes, "emails/IPs replaced")
		case 4:
			if t.KeyUsage = x509.KeyUsage(r.Intn(512)); r.Intn(4) == 0 {
				t.KeyUsage = 0 // no extension
			}
			notes = append(notes, fmt.Sprintf("KeyUsage=%#x", int(t.KeyUsage)))
		case 5:
			t.ExtKeyUsage = nil
			p := r.Perm(len(knownEKUs))
			for k := r.Intn(4); k > 0; k-- {
				t.ExtKeyUsage = append(t.ExtKeyUsage, knownEKUs[p[k]])
			}
			if r.Intn(3) == 0 {
				t.UnknownExtKeyUsage = []asn1.ObjectIdentifier{verifOID(3, r.Intn(1000))}
			} else {
				t.UnknownExtKeyUsage = nil
			}
			notes = append(notes, "ExtKeyUsage replaced")
		case 6:
			switch r.Intn(3) {
			case 0:
				t.BasicConstraintsValid, t.IsCA, t.MaxPathLen, t.MaxPathLenZero = true, true, r.Intn(4), true
				t.MaxPathLenZero = t.MaxPathLen == 0
			case 1:
				t.BasicConstraintsValid, t.IsCA, t.MaxPathLen, t.MaxPathLenZero = true, false, -1, false
			default:
				t.BasicConstraintsValid = false
			}
			notes = append(notes, fmt.Sprintf("BasicConstraints valid=%v ca=%v pathlen=%d", t.BasicConstraintsValid, t.IsCA, t.MaxPathLen))
		case 7:
			if len(t.PolicyIdentifiers) > 0 && r.Bool() {
				t.PolicyIdentifiers = nil
			} else {
				t.PolicyIdentifiers = append(append([]asn1.ObjectIdentifier{}, t.PolicyIdentifiers...), asn1.ObjectIdentifier{1, 2, 156, 10197, 6, 2, gen, r.Intn(300)})
			}
			notes = append(notes, "PolicyIdentifiers")
		case 8:
			t.OCSPServer = subset(r, urlPool, r.Intn(3))
			t.IssuingCertificateURL = subset(r, urlPool, r.Intn(2))
			t.CRLDistributionPoints = subset(r, urlPool, r.Intn(3))
			notes = append(notes, "AIA/CRLDP replaced")
		case 9:
			t.PermittedDNSDomains, t.ExcludedDNSDomains, t.PermittedIPRanges, t.ExcludedIPRanges = nil, nil, nil, nil
			t.PermittedEmailAddresses, t.ExcludedEmailAddresses, t.PermittedURIDomains, t.ExcludedURIDomains = nil, nil, nil, nil
			if r.Bool() {
				t.PermittedDNSDomains = subset(r, permDNSPool, r.Range(1, 2))
				t.ExcludedIPRanges = cidrs(subset(r, cidrPool, r.Intn(2)))
				t.PermittedDNSDomainsCritical = r.Bool()
			}
			notes = append(notes, "name constraints replaced")
		case 10:
			if r.Bool() {
				t.SubjectKeyId = nil
				notes = append(notes, "SubjectKeyId cleared")
			} else {
				t.SubjectKeyId = r.Bytes(r.Range(1, 20))
				notes = append(notes, "SubjectKeyId given")
			}
		case 11:
			t.AuthorityKeyId = r.Bytes(r.Range(1, 20))
			notes = append(notes, "AuthorityKeyId given")
		case 12:
			t.ExtraExtensions = append(append([]pkix.Extension{}, t.ExtraExtensions...), pkix.Extension{Id: verifOID(6, gen, r.Intn(1000)), Value: r.Bytes(r.Range(1, 16))})
			notes = append(notes, "ExtraExtensions+1")
		case 13:
			t.Subject, t.RawSubject = genName(r, r.Range(1, 4), fmt.Sprintf(" g%d %x", gen, r.Bytes(3))), nil
			notes = append(notes, "Subject replaced (RawSubject cleared)")
		case 14:
			junkCertOutputs(t, r)
			notes = append(notes, "output-only fields overwritten")
		}
	}
	return strings.Join(notes, ", ")
}

// junkCertOutputs fills the members that CreateCertificate does not list as used (and that
// parsing fills) with values that contradict the rest of the template.
func junkCertOutputs(t *x509.Certificate, r *mon.Rand) {
	san, _ := asn1.Marshal([]asn1.RawValue{{Tag: 2, Class: 2, Bytes: []byte("from-extensions.example.com")}})
	ku, _ := asn1.Marshal(asn1.BitString{Bytes: []byte{0x06}, BitLength: 7})
	t.Extensions = append(append([]pkix.Extension{}, t.Extensions...),
		pkix.Extension{Id: oidExtSAN, Value: san}, pkix.Extension{Id: oidExtKU, Critical: true, Value: ku},
		pkix.Extension{Id: verifOID(7, r.Intn(1000)), Critical: r.Bool(), Value: r.Bytes(5)})
	t.Version = 1 + r.Intn(2)
	t.Signature = r.Bytes(r.Range(1, 70))
	t.Issuer = pkix.Name{CommonName: "not the issuer"}
	t.RawIssuer = r.Bytes(12)
	t.RawTBSCertificate, t.Raw = r.Bytes(20), r.Bytes(24)
	t.RawSubjectPublicKeyInfo = r.Bytes(16)
	t.UnhandledCriticalExtensions = []asn1.ObjectIdentifier{verifOID(8, 1)}
	if o, err := x509.OIDFromInts([]uint64{1, 2, 156, 10197, 9, uint64(r.Intn(99))}); err == nil {
		t.Policies = []x509.OID{o} // not among the used members: PolicyIdentifiers decides
	}
}

// certRoundTrip creates from tmpl (given to the library as *x509.Certificate or as
// *smx509.Certificate), parses, and judges against eff, the effective template.
func certRoundTrip(c *mon.Case, tmpl, eff *x509.Certificate, parentArg any, parentParsed *smx509.Certificate, selfSigned bool, subj, signer key) *smx509.Certificate {
	r := c.R
	var tArg any = tmpl
	if r.Bool() {
		tArg = (*smx509.Certificate)(tmpl)
	}
	if selfSigned {
		parentArg = tArg
	}
	var der []byte
	var err error
	if !c.Call("CreateCertificate", func() { der, err = smx509.CreateCertificate(libR, tArg, parentArg, subj.pub, signer.priv) }) {
		return nil
	}
	if err != nil {
		c.Fail("reject", "%sCreateCertificate refused the template (signer %v subject key %v): %v", lawCtx, signer.kind, subj.kind, err)
		return nil
	}
	var p *smx509.Certificate
	if !c.Call("ParseCertificate", func() { p, err = smx509.ParseCertificate(der) }) {
		return nil
	}
	if err != nil {
		c.Detail("der", der)
		c.Fail("reject", "%sParseCertificate refused the certificate the library created: %v", lawCtx, err)
		return nil
	}
	c.Event("reissue/certificates_created", 1)
	issuer := parentParsed
	if selfSigned {
		issuer = p
	}
	checkCertFields(c, eff, issuer, selfSigned, p, subj, signer, eff.SignatureAlgorithm)
	// nothing but what the used members say: no extension of the old object, none twice
	if got, want := extIDs(p.Extensions), wantCertExtIDs(eff, len(p.SubjectKeyId) > 0, len(p.AuthorityKeyId) > 0); got != want {
		c.Detail("der", der)
		c.Fail("mismatch", "%screated certificate carries the extensions {%s}, the used members of the template produce {%s}", lawCtx, got, want)
	}
	var e error
	if c.Call("CheckSignature", func() { e = issuer.CheckSignature(p.SignatureAlgorithm, p.RawTBSCertificate, p.Signature) }) && e != nil {
		c.Fail("reject", "%ssignature of the created certificate does not verify under the signer key: %v", lawCtx, e)
	}
	certTwin(c, tmpl, parentArg, selfSigned, p)
	return p
}

// certTwin: the same template through crypto/x509 with P-256 twin keys: everything that
// does not depend on the keys must agree (the judge where the documentation is silent).
func certTwin(c *mon.Case, tmpl *x509.Certificate, parentArg any, selfSigned bool, p *smx509.Certificate) {
	r := c.R
	tk, _ := newKey(r, kP256, 0)
	pk, _ := newKey(r, kP256, 0)
	tt := *tmpl
	tt.SignatureAlgorithm = 0
	var der []byte
	var err error
	if selfSigned {
		tt.PublicKey = tk.pub
		der, err = x509.CreateCertificate(libR, &tt, &tt, tk.pub, tk.priv)
	} else {
		var tp x509.Certificate
		switch v := parentArg.(type) {
		case *x509.Certificate:
			tp = *v
		case *smx509.Certificate:
			tp = *v.ToX509()
		}
		tp.PublicKey = pk.pub
		der, err = x509.CreateCertificate(libR, &tt, &tp, tk.pub, pk.priv)
	}
	if err != nil {
		c.Event("reissue/twin_refused_by_crypto_x509(not judged)", 1)
		return
	}
	sp, err := x509.ParseCertificate(der)
	if err != nil {
		c.Event("reissue/twin_refused_by_crypto_x509(not judged)", 1)
		return
	}
	c.Event("reissue/twin_comparisons", 1)
	skip := []asn1.ObjectIdentifier{}
	if len(tmpl.SubjectKeyId) == 0 {
		skip = append(skip, oidExtSKID) // derived from the key
	}
	got := fmt.Sprintf("subject %x issuer %x validity %d..%d extensions %s", p.RawSubject, p.RawIssuer, p.NotBefore.Unix(), p.NotAfter.Unix(), extList(p.Extensions, skip...))
	want := fmt.Sprintf("subject %x issuer %x validity %d..%d extensions %s", sp.RawSubject, sp.RawIssuer, sp.NotBefore.Unix(), sp.NotAfter.Unix(), extList(sp.Extensions, skip...))
	if tmpl.SerialNumber != nil {
		got += " serial " + p.SerialNumber.String()
		want += " serial " + sp.SerialNumber.String()
	}
	if got != want {
		c.Fail("mismatch", "%sthe same template gives through smx509: %s; through crypto/x509 (P-256 twin keys): %s", lawCtx, got, want)
	}
}

func certHistory(c *mon.Case, signer key, selfSigned bool) {
	r := c.R
	uniq := fmt.Sprintf(" %x", r.Bytes(4))
	var parent *smx509.Certificate
	subj := signer
	if !selfSigned {
		var ok bool
		if _, parent, _, ok = makeCA(c, signer, 0, "H"+uniq, nil); !ok {
			return
		}
		subj, _ = newKey(r, keyKind(r.Intn(int(nKinds))), 0)
	}
	t1 := genCertTemplate(r, selfSigned && r.Intn(3) > 0, uniq)
	t1.SignatureAlgorithm = pickAlg(r, signer)
	c.Class("reissue/cert/self=%v/signer=%v/subject=%v", selfSigned, signer.kind, subj.kind)
	lawCtx = "template written from scratch: "
	prev := certRoundTrip(c, t1, t1, parent, parent, selfSigned, subj, signer)
	for gen := 1; gen <= 2 && prev != nil; gen++ {
		tt := *prev.ToX509() // the parsed object is the next template
		what := certChange(&tt, r, selfSigned, gen)
		switch {
		case !selfSigned && r.Intn(3) == 0:
			// another CA takes over (other key, other key type)
			ns, _ := newKey(r, keyKind(r.Intn(int(nKinds))), 0)
			_, np, _, ok := makeCA(c, ns, 0, fmt.Sprintf("H%d%s", gen, uniq), nil)
			if !ok {
				return
			}
			signer, parent = ns, np
			tt.SignatureAlgorithm = pickAlg(r, signer)
			what += ", another parent (" + signer.kind.String() + ")"
		case r.Bool():
			tt.SignatureAlgorithm = pickAlg(r, signer)
		}
		if r.Intn(3) == 0 {
			// certificate for a new key
			subj, _ = newKey(r, keyKind(r.Intn(int(nKinds))), 0)
			what += ", new subject key (" + subj.kind.String() + ")"
			if selfSigned {
				signer = subj
				tt.PublicKey = subj.pub // the template is the parent as well: its key must be the signer's
				tt.SignatureAlgorithm = pickAlg(r, signer)
			}
			if r.Bool() {
				tt.SubjectKeyId = nil
				what += " with SubjectKeyId cleared"
			}
		}
		lawCtx = fmt.Sprintf("template = parsed certificate of generation %d with: %s: ", gen-1, what)
		c.Event("reissue/cert_generations", 1)
		eff := tt
		prev = certRoundTrip(c, &tt, &eff, parent, parent, selfSigned, subj, signer)
	}
}

// extension groups: the dedicated members that produce one extension
type extGroup struct {
	name string
	oid  asn1.ObjectIdentifier
	set  func(t *x509.Certificate, r *mon.Rand, variant int) // gives the members non-empty values (two variants that differ)
	copy func(dst, src *x509.Certificate)
}

var extGroups = []extGroup{
	{"KeyUsage", oidExtKU, func(t *x509.Certificate, r *mon.Rand, v int) {
		t.KeyUsage = []x509.KeyUsage{x509.KeyUsageDigitalSignature | x509.KeyUsageKeyEncipherment, x509.KeyUsageCertSign | x509.KeyUsageDecipherOnly | x509.KeyUsageKeyAgreement}[v]
	}, func(d, s *x509.Certificate) { d.KeyUsage = s.KeyUsage }},
	{"ExtKeyUsage", oidExtEKU, func(t *x509.Certificate, r *mon.Rand, v int) {
		t.ExtKeyUsage = [][]x509.ExtKeyUsage{{x509.ExtKeyUsageServerAuth}, {x509.ExtKeyUsageCodeSigning, x509.ExtKeyUsageEmailProtection}}[v]
		t.UnknownExtKeyUsage = [][]asn1.ObjectIdentifier{nil, {verifOID(3, 77)}}[v]
	}, func(d, s *x509.Certificate) {
		d.ExtKeyUsage, d.UnknownExtKeyUsage = s.ExtKeyUsage, s.UnknownExtKeyUsage
	}},
	{"BasicConstraints", oidExtBC, func(t *x509.Certificate, r *mon.Rand, v int) {
		t.BasicConstraintsValid, t.IsCA, t.MaxPathLen, t.MaxPathLenZero = true, v == 1, []int{-1, 2}[v], false
	}, func(d, s *x509.Certificate) {
		d.BasicConstraintsValid, d.IsCA, d.MaxPathLen, d.MaxPathLenZero = s.BasicConstraintsValid, s.IsCA, s.MaxPathLen, s.MaxPathLenZero
	}},
	{"SubjectKeyId", oidExtSKID, func(t *x509.Certificate, r *mon.Rand, v int) { t.SubjectKeyId = r.Bytes(8 + 4*v) },
		func(d, s *x509.Certificate) { d.SubjectKeyId = s.SubjectKeyId }},
	{"AuthorityKeyId", oidExtAKID, func(t *x509.Certificate, r *mon.Rand, v int) { t.AuthorityKeyId = r.Bytes(8 + 4*v) },
		func(d, s *x509.Certificate) { d.AuthorityKeyId = s.AuthorityKeyId }},
	{"SubjectAltName", oidExtSAN, func(t *x509.Certificate, r *mon.Rand, v int) {
		t.DNSNames = [][]string{{"field.example.com"}, {"extra.example.org", "extra2.example.org"}}[v]
		t.EmailAddresses = [][]string{nil, {"extra@example.org"}}[v]
		t.IPAddresses, t.URIs = nil, nil
		if v == 0 {
			t.IPAddresses = ips("10.1.1.1")
		}
	}, func(d, s *x509.Certificate) {
		d.DNSNames, d.EmailAddresses, d.IPAddresses, d.URIs = s.DNSNames, s.EmailAddresses, s.IPAddresses, s.URIs
	}},
	{"AuthorityInfoAccess", oidExtAIA, func(t *x509.Certificate, r *mon.Rand, v int) {
		t.OCSPServer = [][]string{{urlPool[0]}, nil}[v]
		t.IssuingCertificateURL = [][]string{nil, {urlPool[1], urlPool[3]}}[v]
	}, func(d, s *x509.Certificate) {
		d.OCSPServer, d.IssuingCertificateURL = s.OCSPServer, s.IssuingCertificateURL
	}},
	{"PolicyIdentifiers", oidExtPolicies, func(t *x509.Certificate, r *mon.Rand, v int) {
		t.PolicyIdentifiers = [][]asn1.ObjectIdentifier{{{2, 23, 140, 1, 2, 1}}, {{1, 2, 156, 10197, 6, 1, 5}, {2, 23, 140, 1, 2, 2}}}[v]
	}, func(d, s *x509.Certificate) { d.PolicyIdentifiers = s.PolicyIdentifiers }},
	{"NameConstraints", oidExtNC, func(t *x509.Certificate, r *mon.Rand, v int) {
		t.PermittedDNSDomains, t.ExcludedDNSDomains, t.PermittedIPRanges, t.ExcludedIPRanges = nil, nil, nil, nil
		t.PermittedEmailAddresses, t.ExcludedEmailAddresses, t.PermittedURIDomains, t.ExcludedURIDomains = nil, nil, nil, nil
		if v == 0 {
			t.PermittedDNSDomains, t.PermittedDNSDomainsCritical = []string{"example.com"}, true
		} else {
			t.ExcludedDNSDomains, t.PermittedIPRanges, t.PermittedDNSDomainsCritical = []string{".example.org"}, cidrs([]string{"10.0.0.0/8"}), false
		}
	}, func(d, s *x509.Certificate) {
		d.PermittedDNSDomains, d.ExcludedDNSDomains, d.PermittedIPRanges, d.ExcludedIPRanges = s.PermittedDNSDomains, s.ExcludedDNSDomains, s.PermittedIPRanges, s.ExcludedIPRanges
		d.PermittedEmailAddresses, d.ExcludedEmailAddresses, d.PermittedURIDomains, d.ExcludedURIDomains = s.PermittedEmailAddresses, s.ExcludedEmailAddresses, s.PermittedURIDomains, s.ExcludedURIDomains
		d.PermittedDNSDomainsCritical = s.PermittedDNSDomainsCritical
	}},
	{"CRLDistributionPoints", oidExtCRLDP, func(t *x509.Certificate, r *mon.Rand, v int) {
		t.CRLDistributionPoints = [][]string{{urlPool[2]}, {urlPool[3], urlPool[0]}}[v]
	}, func(d, s *x509.Certificate) { d.CRLDistributionPoints = s.CRLDistributionPoints }},
}

// handledExtension: one of the extensions the package parses into dedicated members
// (a critical one is then not "unhandled").
func handledExtension(id asn1.ObjectIdentifier) bool {
	for _, g := range extGroups {
		if g.oid.Equal(id) {
			return true
		}
	}
	return false
}

// donorExtension has crypto/x509 encode the extension of group g for the member
// values of variant v (self-signed throw-away certificate with a P-256 key).
func donorExtension(c *mon.Case, g extGroup, v int) (pkix.Extension, *x509.Certificate, bool) {
	r := c.R
	k, _ := newKey(r, kP256, 0)
	d := &x509.Certificate{SerialNumber: big.NewInt(1), Subject: pkix.Name{CommonName: "donor"}, NotBefore: t0, NotAfter: t0.Add(day)}
	g.set(d, r, v)
	der, err := x509.CreateCertificate(libR, d, d, k.pub, k.priv)
	if err != nil {
		c.Inconclusive("crypto/x509 could not encode the donor extension %s: %v", g.name, err)
		return pkix.Extension{}, nil, false
	}
	sc, err := x509.ParseCertificate(der)
	if err != nil {
		c.Inconclusive("crypto/x509 could not parse the donor certificate: %v", err)
		return pkix.Extension{}, nil, false
	}
	for _, e := range sc.Extensions {
		if e.Id.Equal(g.oid) {
			return e, d, true
		}
	}
	c.Inconclusive("donor certificate lacks the extension %s", g.name)
	return pkix.Extension{}, nil, false
}

func certPrecedence(c *mon.Case, signer key) {
	r := c.R
	uniq := fmt.Sprintf(" %x", r.Bytes(4))
	_, parent, _, ok := makeCA(c, signer, 0, "P"+uniq, nil)
	if !ok {
		return
	}
	subj, _ := newKey(r, keyKind(r.Intn(int(nKinds))), 0)
	t := genCertTemplate(r, false, uniq)
	if len(t.Subject.ToRDNSequence()) == 0 {
		t.Subject.CommonName = "named" + uniq
	}
	t.ExtraExtensions = nil
	t.SignatureAlgorithm = pickAlg(r, signer)
	rule := r.Intn(5)
	c.Class("reissue/cert-precedence/rule%d/signer=%v", rule, signer.kind)
	eff := *t
	var parentArg any = parent
	switch rule {
	case 0, 1, 2:
		// ExtraExtensions against the dedicated members of one extension (of two, one time in three)
		type patch struct {
			g extGroup
			d *x509.Certificate
		}
		var patches []patch
		var names []string
		for _, gi := range r.Perm(len(extGroups))[:1+r.Intn(3)/2] {
			g := extGroups[gi]
			g.set(t, r, 0)
			ext, d, ok := donorExtension(c, g, 1)
			if !ok {
				return
			}
			t.ExtraExtensions = append(t.ExtraExtensions, ext)
			patches = append(patches, patch{g, d})
			names = append(names, g.name)
		}
		// the effective template has the donor's values for these groups
		eff = *t
		for _, pa := range patches {
			pa.g.copy(&eff, pa.d)
			switch {
			case pa.g.oid.Equal(oidExtAKID):
				akiFromExtraExt = pa.d.AuthorityKeyId
			case pa.g.oid.Equal(oidExtSKID):
				skidFromExtraExt = pa.d.SubjectKeyId
			case pa.g.oid.Equal(oidExtBC) && len(t.SubjectKeyId) == 0 && skidFromExtraExt == nil:
				// "if the template is a CA" speaks of the member IsCA, which says no: no key identifier is derived
				skidFromExtraExt = []byte{}
			}
		}
		lawCtx = fmt.Sprintf("template with ExtraExtensions holding %s next to differing dedicated members (documented: ExtraExtensions override): ", strings.Join(names, " and "))
	case 3:
		// members that are filled by parsing and not used when creating
		junkCertOutputs(t, r)
		if r.Bool() {
			t.PublicKey = parent.PublicKey // the subject key is the pub argument
		}
		eff = *t
		lawCtx = "template with Extensions, Policies, Issuer, Version, Signature, Raw* filled with contradicting values (documented: not used): "
	case 4:
		// RawSubject against Subject (template and/or parent): the documentation is silent, the twin judges
		if r.Bool() {
			t.RawSubject, _ = asn1.Marshal(genName(r, r.Range(1, 3), " raw"+uniq).ToRDNSequence())
		}
		if r.Bool() || len(t.RawSubject) == 0 {
			pp := *parent.ToX509()
			pp.Subject = genName(r, r.Range(1, 3), " other"+uniq)
			parentArg = &pp
		}
		eff = *t
		skipSubjectLaw = true
		lawCtx = "template / parent whose RawSubject and Subject differ: "
	}
	certRoundTrip(c, t, &eff, parentArg, parent, false, subj, signer)
	c.Event(fmt.Sprintf("reissue/cert_precedence_rule_%d", rule), 1)
}

// ---------------------------------------------------------------------------
// revocation lists
// ---------------------------------------------------------------------------

type wantEntry struct {
	serial string
	at     int64
	reason int
	exts   string
}

func (w wantEntry) String() string {
	return fmt.Sprintf("%s@%d/%d{%s}", w.serial, w.at, w.reason, w.exts)
}

// wantEntries applies the documented rule: RevokedCertificateEntries, or, only if that
// is empty, the deprecated RevokedCertificates.
func wantEntries(t *x509.RevocationList) []wantEntry {
	var out []wantEntry
	if len(t.RevokedCertificateEntries) > 0 {
		for _, e := range t.RevokedCertificateEntries {
			ids := append([]pkix.Extension{}, e.ExtraExtensions...)
			if e.ReasonCode != 0 {
				ids = append(ids, pkix.Extension{Id: oidExtReason})
			}
			out = append(out, wantEntry{e.SerialNumber.String(), e.RevocationTime.Unix(), e.ReasonCode, extIDs(ids)})
		}
		return out
	}
	for _, e := range t.RevokedCertificates {
		w := wantEntry{serial: e.SerialNumber.String(), at: e.RevocationTime.Unix(), exts: extIDs(e.Extensions)}
		for _, x := range e.Extensions {
			if x.Id.Equal(oidExtReason) {
				var rc asn1.Enumerated
				if _, err := asn1.Unmarshal(x.Value, &rc); err == nil {
					w.reason = int(rc)
				}
			}
		}
		out = append(out, w)
	}
	return out
}

func gotEntries(p *smx509.RevocationList) []wantEntry {
	var out []wantEntry
	for _, e := range p.RevokedCertificateEntries {
		out = append(out, wantEntry{e.SerialNumber.String(), e.RevocationTime.Unix(), e.ReasonCode, extIDs(e.Extensions)})
	}
	return out
}

func genEntry(r *mon.Rand, before time.Time) x509.RevocationListEntry {
	e := x509.RevocationListEntry{
		SerialNumber:   new(big.Int).Add(new(big.Int).SetBytes(r.Bytes(r.Range(1, 16))), big.NewInt(1)),
		RevocationTime: before.Add(-time.Duration(r.Intn(86400*300)+1) * time.Second),
	}
	if r.Bool() {
		e.ReasonCode = []int{1, 2, 3, 4, 5, 6, 8, 9, 10}[r.Intn(9)]
	}
	if r.Intn(4) == 0 {
		e.ExtraExtensions = []pkix.Extension{{Id: verifOID(5, r.Intn(1000)), Value: r.Bytes(r.Range(1, 8))}}
	}
	return e
}

func deprecatedEntry(r *mon.Rand, before time.Time) pkix.RevokedCertificate {
	e := pkix.RevokedCertificate{
		SerialNumber:   new(big.Int).Add(new(big.Int).SetBytes(r.Bytes(r.Range(1, 16))), big.NewInt(1)),
		RevocationTime: before.Add(-time.Duration(r.Intn(86400*300)+1) * time.Second),
	}
	if r.Bool() {
		v, _ := asn1.Marshal(asn1.Enumerated([]int{1, 3, 4, 5, 9}[r.Intn(5)]))
		e.Extensions = []pkix.Extension{{Id: oidExtReason, Value: v}}
	}
	return e
}

func junkCRLOutputs(t *x509.RevocationList, r *mon.Rand) {
	num, _ := asn1.Marshal(big.NewInt(int64(r.Range(1, 1000000))))
	t.Extensions = append(append([]pkix.Extension{}, t.Extensions...), pkix.Extension{Id: oidExtCRLNum, Value: num},
		pkix.Extension{Id: verifOID(9, r.Intn(1000)), Value: r.Bytes(4)})
	t.AuthorityKeyId = r.Bytes(r.Range(1, 20)) // documented: ignored, taken from the issuer certificate
	t.Issuer = pkix.Name{CommonName: "not the issuer"}
	t.RawIssuer = r.Bytes(10)
	t.Signature = r.Bytes(r.Range(1, 70))
	t.Raw, t.RawTBSRevocationList = r.Bytes(20), r.Bytes(20)
}

func crlRoundTrip(c *mon.Case, tmpl *x509.RevocationList, issuer *smx509.Certificate, signer key) *smx509.RevocationList {
	var der []byte
	var err error
	if !c.Call("CreateRevocationList", func() { der, err = smx509.CreateRevocationList(libR, tmpl, issuer, signer.priv) }) {
		return nil
	}
	if err != nil {
		c.Fail("reject", "%sCreateRevocationList refused the template (signer %v): %v", lawCtx, signer.kind, err)
		return nil
	}
	var p *smx509.RevocationList
	if !c.Call("ParseRevocationList", func() { p, err = smx509.ParseRevocationList(der) }) {
		return nil
	}
	if err != nil {
		c.Detail("der", der)
		c.Fail("reject", "%sParseRevocationList refused the list the library created: %v", lawCtx, err)
		return nil
	}
	c.Event("reissue/revocation_lists_created", 1)
	cmp := func(what, got, want string) {
		c.Event("field_comparisons", 1)
		if got != want {
			c.Detail("der", der)
			c.Fail("mismatch", "%screated revocation list parses back with a different %s: got %v want %v", lawCtx, what, got, want)
		}
	}
	cmp("revoked entries (serial@time/reason{entry extensions})", fmt.Sprint(gotEntries(p)), fmt.Sprint(wantEntries(tmpl)))
	cmp("number", fmt.Sprint(p.Number), fmt.Sprint(tmpl.Number))
	cmp("thisUpdate", fmt.Sprint(p.ThisUpdate.Unix()), fmt.Sprint(tmpl.ThisUpdate.Unix()))
	cmp("nextUpdate", fmt.Sprint(p.NextUpdate.Unix()), fmt.Sprint(tmpl.NextUpdate.Unix()))
	cmp("signature algorithm", algName(p.SignatureAlgorithm), algName(expectAlg(signer, tmpl.SignatureAlgorithm)))
	cmp("issuer (documented: from the issuer certificate)", fmt.Sprintf("%x", p.RawIssuer), fmt.Sprintf("%x", issuer.RawSubject))
	cmp("AuthorityKeyId (documented: from the issuer certificate)", fmt.Sprintf("%x", p.AuthorityKeyId), fmt.Sprintf("%x", issuer.SubjectKeyId))
	cmp("set of extensions", extIDs(p.Extensions), extIDs(append([]pkix.Extension{{Id: oidExtAKID}, {Id: oidExtCRLNum}}, tmpl.ExtraExtensions...)))
	for _, e := range tmpl.ExtraExtensions {
		found := false
		for _, pe := range p.Extensions {
			found = found || pe.Id.Equal(e.Id) && bytes.Equal(pe.Value, e.Value) && pe.Critical == e.Critical
		}
		if !found {
			c.Fail("mismatch", "%sCRL extension %v of ExtraExtensions is absent or altered after parsing", lawCtx, e.Id)
		}
	}
	var e error
	if c.Call("RevocationList.CheckSignatureFrom", func() { e = p.CheckSignatureFrom(issuer) }) && e != nil {
		c.Fail("reject", "%ssignature of the created revocation list does not verify under the issuer: %v", lawCtx, e)
	}
	// the same template through crypto/x509 (P-256 twin issuer with the same name and key identifier)
	tk, _ := newKey(c.R, kP256, 0)
	ti := *issuer.ToX509()
	ti.PublicKey = tk.pub
	tt := *tmpl
	tt.SignatureAlgorithm = 0
	if sder, err := x509.CreateRevocationList(libR, &tt, &ti, tk.priv); err != nil {
		c.Event("reissue/twin_refused_by_crypto_x509(not judged)", 1)
	} else if sp, err := x509.ParseRevocationList(sder); err == nil {
		c.Event("reissue/twin_comparisons", 1)
		raw := func(es []x509.RevocationListEntry) string {
			var s []string
			for _, e := range es {
				s = append(s, fmt.Sprintf("%x", e.Raw))
			}
			return strings.Join(s, " ")
		}
		got := fmt.Sprintf("issuer %x number %v %d..%d entries [%s] extensions %s", p.RawIssuer, p.Number, p.ThisUpdate.Unix(), p.NextUpdate.Unix(), raw(p.RevokedCertificateEntries), extList(p.Extensions))
		want := fmt.Sprintf("issuer %x number %v %d..%d entries [%s] extensions %s", sp.RawIssuer, sp.Number, sp.ThisUpdate.Unix(), sp.NextUpdate.Unix(), raw(sp.RevokedCertificateEntries), extList(sp.Extensions))
		if got != want {
			c.Fail("mismatch", "%sthe same template gives through smx509: %s; through crypto/x509 (P-256 twin issuer): %s", lawCtx, got, want)
		}
	}
	return p
}

func crlIssuer(c *mon.Case, signer key, uniq string) (*smx509.Certificate, bool) {
	_, issuer, _, ok := makeCA(c, signer, 0, uniq, nil)
	return issuer, ok
}

func crlHistory(c *mon.Case, signer key) {
	r := c.R
	uniq := fmt.Sprintf(" %x", r.Bytes(4))
	issuer, ok := crlIssuer(c, signer, "L"+uniq)
	if !ok {
		return
	}
	this := time.Date(2024, 3, 1, 0, 0, 0, 0, time.UTC).Add(time.Duration(r.Intn(86400*365)) * time.Second)
	t1 := &x509.RevocationList{SignatureAlgorithm: pickAlg(r, signer), Number: new(big.Int).SetBytes(r.Bytes(r.Range(1, 18))),
		ThisUpdate: this, NextUpdate: this.Add(time.Duration(r.Intn(86400*60)) * time.Second)}
	first := "RevokedCertificateEntries"
	if r.Intn(3) == 0 {
		first = "RevokedCertificates only"
		for k := r.Range(1, 3); k > 0; k-- {
			t1.RevokedCertificates = append(t1.RevokedCertificates, deprecatedEntry(r, this))
		}
	} else {
		for k := r.Intn(4); k > 0; k-- {
			t1.RevokedCertificateEntries = append(t1.RevokedCertificateEntries, genEntry(r, this))
		}
	}
	c.Class("reissue/crl/signer=%v/first=%s/entries=%d", signer.kind, first, len(t1.RevokedCertificateEntries)+len(t1.RevokedCertificates))
	lawCtx = "template written from scratch (" + first + "): "
	prev := crlRoundTrip(c, t1, issuer, signer)
	for gen := 1; gen <= 2 && prev != nil; gen++ {
		tt := *prev.ToX509() // the parsed list is the next template: both entry members are populated
		var notes []string
		tt.Number = new(big.Int).Add(tt.Number, big.NewInt(int64(r.Range(1, 3))))
		step := time.Duration(r.Range(1, 86400*30)) * time.Second
		tt.ThisUpdate, tt.NextUpdate = tt.ThisUpdate.Add(step), tt.NextUpdate.Add(step+time.Duration(r.Intn(3600))*time.Second)
		switch r.Intn(6) {
		case 0, 1:
			tt.RevokedCertificateEntries = append(append([]x509.RevocationListEntry{}, tt.RevokedCertificateEntries...), genEntry(r, tt.ThisUpdate))
			notes = append(notes, "one more entry in RevokedCertificateEntries")
		case 2:
			if n := len(tt.RevokedCertificateEntries); n > 1 {
				k := r.Intn(n)
				tt.RevokedCertificateEntries = append(append([]x509.RevocationListEntry{}, tt.RevokedCertificateEntries[:k]...), tt.RevokedCertificateEntries[k+1:]...)
				notes = append(notes, "one entry removed from RevokedCertificateEntries")
			}
		case 3:
			if n := len(tt.RevokedCertificateEntries); n > 0 {
				es := append([]x509.RevocationListEntry{}, tt.RevokedCertificateEntries...)
				k := r.Intn(n)
				es[k].ReasonCode = []int{0, 1, 4, 6, 9}[r.Intn(5)]
				tt.RevokedCertificateEntries = es
				notes = append(notes, fmt.Sprintf("reason of entry %d set to %d", k, es[k].ReasonCode))
			}
		case 4:
			// a program that still maintains the deprecated member
			tt.RevokedCertificateEntries = nil
			tt.RevokedCertificates = append(append([]pkix.RevokedCertificate{}, tt.RevokedCertificates...), deprecatedEntry(r, tt.ThisUpdate))
			notes = append(notes, "RevokedCertificateEntries cleared, one more entry in the deprecated RevokedCertificates")
		}
		if r.Intn(4) == 0 {
			tt.ExtraExtensions = append(append([]pkix.Extension{}, tt.ExtraExtensions...), pkix.Extension{Id: verifOID(4, gen, r.Intn(1000)), Value: r.Bytes(r.Range(1, 12))})
			notes = append(notes, "ExtraExtensions+1")
		}
		if r.Intn(4) == 0 {
			junkCRLOutputs(&tt, r)
			notes = append(notes, "output-only members overwritten")
		}
		switch r.Intn(5) {
		case 0:
			// the issuer certificate was renewed, or another CA key took over
			if r.Bool() {
				signer, _ = newKey(r, keyKind(r.Intn(int(nKinds))), 0)
				notes = append(notes, "another issuer key ("+signer.kind.String()+")")
			} else {
				notes = append(notes, "renewed issuer certificate")
			}
			if issuer, ok = crlIssuer(c, signer, fmt.Sprintf("L%d%s", gen, uniq)); !ok {
				return
			}
			tt.SignatureAlgorithm = pickAlg(r, signer)
		case 1:
			tt.SignatureAlgorithm = pickAlg(r, signer)
		}
		lawCtx = fmt.Sprintf("template = parsed revocation list of generation %d (ToX509) with: new number and dates, %s: ", gen-1, strings.Join(notes, ", "))
		c.Event("reissue/crl_generations", 1)
		prev = crlRoundTrip(c, &tt, issuer, signer)
	}
}

func crlPrecedence(c *mon.Case, signer key) {
	r := c.R
	uniq := fmt.Sprintf(" %x", r.Bytes(4))
	issuer, ok := crlIssuer(c, signer, "Q"+uniq)
	if !ok {
		return
	}
	this := time.Date(2025, 1, 1, 0, 0, 0, 0, time.UTC).Add(time.Duration(r.Intn(86400*365)) * time.Second)
	t := &x509.RevocationList{SignatureAlgorithm: pickAlg(r, signer), Number: new(big.Int).SetBytes(r.Bytes(r.Range(1, 18))),
		ThisUpdate: this, NextUpdate: this.Add(time.Duration(r.Intn(86400*60)) * time.Second)}
	for k := r.Range(1, 3); k > 0; k-- {
		t.RevokedCertificateEntries = append(t.RevokedCertificateEntries, genEntry(r, this))
	}
	for k := r.Range(1, 3); k > 0; k-- {
		t.RevokedCertificates = append(t.RevokedCertificates, deprecatedEntry(r, this))
	}
	if r.Bool() {
		junkCRLOutputs(t, r)
	}
	c.Class("reissue/crl-precedence/signer=%v/entries=%d/deprecated=%d", signer.kind, len(t.RevokedCertificateEntries), len(t.RevokedCertificates))
	lawCtx = "template with differing RevokedCertificateEntries and deprecated RevokedCertificates (documented: the deprecated member is used only if the other is empty): "
	crlRoundTrip(c, t, issuer, signer)
}

// ---------------------------------------------------------------------------
// requests
// ---------------------------------------------------------------------------

// csrEffective applies the documented order Attributes > ExtraExtensions > name members
// to a template. judged=false: the Attributes hold something the deprecated type cannot
// represent faithfully (a critical extension): only the twin judges.
func csrEffective(t *x509.CertificateRequest) (eff x509.CertificateRequest, sanFromAttr []byte, judged bool) {
	eff, judged = *t, true
	inAttr := map[string][]byte{}
	for _, a := range t.Attributes {
		if !a.Type.Equal(oidExtRequest) {
			continue
		}
		for _, set := range a.Value {
			for _, atv := range set {
				v, ok := atv.Value.([]byte)
				if !ok {
					judged = false
				}
				inAttr[atv.Type.String()] = v
			}
		}
		break // only the first extensionRequest attribute is extended, as documented for the deprecated member
	}
	eff.ExtraExtensions = nil
	for _, e := range t.ExtraExtensions {
		if _, over := inAttr[e.Id.String()]; !over {
			eff.ExtraExtensions = append(eff.ExtraExtensions, e)
		}
	}
	if v, ok := inAttr[oidExtSAN.String()]; ok {
		sanFromAttr = v
	}
	return
}

func csrRoundTrip(c *mon.Case, tmpl *x509.CertificateRequest, signer key, wantSANs string) *smx509.CertificateRequest {
	var der []byte
	var err error
	if !c.Call("CreateCertificateRequest", func() { der, err = smx509.CreateCertificateRequest(libR, tmpl, signer.priv) }) {
		return nil
	}
	// the same template through crypto/x509 with a P-256 twin key
	tk, _ := newKey(c.R, kP256, 0)
	tt := *tmpl
	tt.SignatureAlgorithm = 0
	sder, serr := x509.CreateCertificateRequest(libR, &tt, tk.priv)
	if (err == nil) != (serr == nil) {
		c.Fail("mismatch", "%sCreateCertificateRequest: smx509 error %v, crypto/x509 on the same template (P-256 twin key) error %v", lawCtx, err, serr)
		return nil
	}
	if err != nil {
		c.Event("reissue/request_template_refused_by_both", 1)
		return nil
	}
	var p *smx509.CertificateRequest
	var perr error
	if !c.Call("ParseCertificateRequest", func() { p, perr = smx509.ParseCertificateRequest(der) }) {
		return nil
	}
	sp, sperr := x509.ParseCertificateRequest(sder)
	if (perr == nil) != (sperr == nil) {
		c.Detail("der", der)
		c.Fail("mismatch", "%srequest created from the template: smx509 parse error %v, crypto/x509 on its own request from the same template: %v", lawCtx, perr, sperr)
		return nil
	}
	if perr != nil {
		c.Event("reissue/created_request_unparsable_for_both(not judged)", 1)
		return nil
	}
	c.Event("reissue/requests_created", 1)
	c.Event("reissue/twin_comparisons", 1)
	got := fmt.Sprintf("subject %x extensions %s attributes %d", p.RawSubject, extList(p.Extensions), len(p.Attributes))
	want := fmt.Sprintf("subject %x extensions %s attributes %d", sp.RawSubject, extList(sp.Extensions), len(sp.Attributes))
	if got != want {
		c.Fail("mismatch", "%sthe same template gives through smx509: %s; through crypto/x509 (P-256 twin key): %s", lawCtx, got, want)
	}
	eff, sanAttr, judged := csrEffective(tmpl)
	if judged {
		if sanAttr != nil {
			// the extension in Attributes wins: the names are the ones it encodes
			eff.DNSNames, eff.EmailAddresses, eff.IPAddresses, eff.URIs = nil, nil, nil, nil
			if g := sansString(p.DNSNames, p.EmailAddresses, p.IPAddresses, p.URIs); g != wantSANs {
				c.Fail("mismatch", "%screated request parses back with the names %s, the subjectAltName in Attributes (documented to take priority) encodes %s", lawCtx, g, wantSANs)
			}
			eff.DNSNames, eff.EmailAddresses, eff.IPAddresses, eff.URIs = p.DNSNames, p.EmailAddresses, p.IPAddresses, p.URIs
		}
		for _, e := range eff.ExtraExtensions {
			if e.Id.Equal(oidExtSAN) { // ExtraExtensions override the name members
				var err error
				var sc *x509.CertificateRequest
				probe := x509.CertificateRequest{ExtraExtensions: []pkix.Extension{e}}
				if d, e2 := x509.CreateCertificateRequest(libR, &probe, tk.priv); e2 == nil {
					sc, err = x509.ParseCertificateRequest(d)
				}
				if sc != nil && err == nil {
					eff.DNSNames, eff.EmailAddresses, eff.IPAddresses, eff.URIs = sc.DNSNames, sc.EmailAddresses, sc.IPAddresses, sc.URIs
				}
			}
		}
		checkCSRFields(c, &eff, p, signer, tmpl.SignatureAlgorithm)
		c.Event("reissue/requests_judged_by_documented_rule", 1)
	} else {
		c.Event("reissue/requests_judged_by_twin_only", 1)
	}
	var e error
	if c.Call("CertificateRequest.CheckSignature", func() { e = p.CheckSignature() }) && e != nil {
		c.Fail("reject", "%ssignature of the created request does not verify: %v", lawCtx, e)
	}
	return p
}

func csrHistory(c *mon.Case, signer key) {
	r := c.R
	uniq := fmt.Sprintf(" %x", r.Bytes(4))
	t1 := genCSRTemplate(r, uniq)
	t1.SignatureAlgorithm = pickAlg(r, signer)
	c.Class("reissue/csr/signer=%v/sans=%v/ext=%d", signer.kind, len(t1.DNSNames)+len(t1.EmailAddresses)+len(t1.IPAddresses)+len(t1.URIs) > 0, len(t1.ExtraExtensions))
	lawCtx = "template written from scratch: "
	prev := csrRoundTrip(c, t1, signer, "")
	for gen := 1; gen <= 2 && prev != nil; gen++ {
		tt := *prev.ToX509()
		oldSANs := sansString(prev.DNSNames, prev.EmailAddresses, prev.IPAddresses, prev.URIs)
		var notes []string
		if r.Bool() {
			tt.Attributes = nil // a program that knows the member is deprecated
			notes = append(notes, "Attributes cleared")
		} else {
			notes = append(notes, "Attributes kept")
		}
		for _, m := range r.Perm(4)[:r.Range(1, 2)] {
			switch m {
			case 0:
				tt.DNSNames = append(append([]string{}, tt.DNSNames...), fmt.Sprintf("re%d.example.com", gen))
				notes = append(notes, "DNSNames+1")
			case 1:
				tt.Subject, tt.RawSubject = genName(r, r.Range(1, 4), fmt.Sprintf(" g%d%s", gen, uniq)), nil
				notes = append(notes, "Subject replaced (RawSubject cleared)")
			case 2:
				tt.ExtraExtensions = append(append([]pkix.Extension{}, tt.ExtraExtensions...), pkix.Extension{Id: verifOID(2, gen, r.Intn(1000)), Value: r.Bytes(r.Range(1, 16))})
				notes = append(notes, "ExtraExtensions+1")
			case 3:
				tt.EmailAddresses = subset(r, emailPool, r.Range(1, 2))
				notes = append(notes, "EmailAddresses replaced")
			}
		}
		if r.Intn(3) == 0 {
			signer, _ = newKey(r, keyKind(r.Intn(int(nKinds))), 0)
			tt.SignatureAlgorithm = pickAlg(r, signer)
			notes = append(notes, "new key ("+signer.kind.String()+")")
		} else if r.Bool() {
			tt.SignatureAlgorithm = pickAlg(r, signer)
		}
		lawCtx = fmt.Sprintf("template = parsed request of generation %d (ToX509) with: %s: ", gen-1, strings.Join(notes, ", "))
		c.Event("reissue/csr_generations", 1)
		prev = csrRoundTrip(c, &tt, signer, oldSANs)
	}
}

func csrPrecedence(c *mon.Case, signer key) {
	r := c.R
	uniq := fmt.Sprintf(" %x", r.Bytes(4))
	t := &x509.CertificateRequest{Subject: genName(r, r.Range(1, 4), uniq), SignatureAlgorithm: pickAlg(r, signer)}
	t.DNSNames = []string{"field.example.com"}
	san := func(names ...string) []byte {
		var rv []asn1.RawValue
		for _, n := range names {
			rv = append(rv, asn1.RawValue{Tag: 2, Class: 2, Bytes: []byte(n)})
		}
		b, _ := asn1.Marshal(rv)
		return b
	}
	rule := r.Intn(4)
	c.Class("reissue/csr-precedence/rule%d/signer=%v", rule, signer.kind)
	want := ""
	switch rule {
	case 0:
		t.ExtraExtensions = []pkix.Extension{{Id: oidExtSAN, Value: san("extra.example.org", "extra2.example.org")}}
		lawCtx = "request template with a subjectAltName in ExtraExtensions next to differing DNSNames (documented: ExtraExtensions override): "
	case 1:
		t.ExtraExtensions = []pkix.Extension{{Id: oidExtSAN, Value: san("extra.example.org")}, {Id: verifOID(2, 5), Value: []byte{1, 2, 3}}}
		t.Attributes = []pkix.AttributeTypeAndValueSET{{Type: oidExtRequest, Value: [][]pkix.AttributeTypeAndValue{{{Type: oidExtSAN, Value: san("attr.example.net")}}}}}
		want = sansString([]string{"attr.example.net"}, nil, nil, nil)
		lawCtx = "request template with a subjectAltName in Attributes, another in ExtraExtensions and differing DNSNames (documented: Attributes override ExtraExtensions override members): "
	case 2:
		t.Attributes = []pkix.AttributeTypeAndValueSET{{Type: oidExtRequest, Value: [][]pkix.AttributeTypeAndValue{{{Type: verifOID(2, 6), Value: []byte{9, 9}}}}}}
		t.ExtraExtensions = []pkix.Extension{{Id: verifOID(2, 7), Value: []byte{4}}}
		lawCtx = "request template with an extensionRequest in Attributes that does not name the extensions of the other members (documented: those are added to it): "
	case 3:
		t.RawSubject, _ = asn1.Marshal(genName(r, r.Range(1, 3), " raw"+uniq).ToRDNSequence())
		skipSubjectLaw = true
		lawCtx = "request template whose RawSubject and Subject differ: "
	}
	p := csrRoundTrip(c, t, signer, want)
	if p != nil && rule == 2 {
		if got := extIDs(p.Extensions); got != extIDs([]pkix.Extension{{Id: verifOID(2, 6)}, {Id: verifOID(2, 7)}, {Id: oidExtSAN}}) {
			c.Fail("mismatch", "%sthe created request carries the extensions {%s}", lawCtx, got)
		}
	}
	c.Event(fmt.Sprintf("reissue/csr_precedence_rule_%d", rule), 1)
}
