package c15

import (
	"crypto/x509"
	"crypto/x509/pkix"
	"encoding/asn1"
	"encoding/pem"
	"fmt"
	"math/big"
	"net"
	"net/url"
	"sort"
	"strings"
	"time"

	"github.com/emmansun/gmsm/smx509"

	"verifh/mon"
)

// ---------------------------------------------------------------------------
// Ground truth: the specification of a generated PKI. The harness decides every
// signing edge, validity window, CA flag, key usage, path length and name
// constraint itself, so it knows which chains exist.
// ---------------------------------------------------------------------------

var t0 = time.Unix(1_700_000_000, 0).UTC() // nominal verification time (never the wall clock)

const day = 24 * time.Hour

type certSpec struct {
	name       string // subject common name; equal names <=> equal RawSubject
	key        int    // index into the key table of an instance
	issuer     int    // index of the issuing certificate, -1: self-signed
	fakeIssuer string // non-empty: issuer name claimed while the signature is made with the certificate's own key
	ca         bool   // basicConstraints present with cA=TRUE
	bcValid    bool   // basicConstraints present
	maxPath    int    // -1: none
	ku         x509.KeyUsage
	eku        []x509.ExtKeyUsage
	unkEKU     bool
	nb, na     time.Time
	dns        []string
	emails     []string
	uris       []string
	ips        []net.IP
	pDNS, xDNS []string
	pMail      []string
	xMail      []string
	pURI, xURI []string
	pIP, xIP   []*net.IPNet
	crit       bool   // carries an unknown critical extension
	// extensions written by hand (ExtraExtensions), critext.go: what the verifier cannot evaluate must stop chain building when critical
	ext       []extSpec // further extensions, each with the verdict the property gives it
	ncP, ncX  []gnForm  // GeneralName forms in the permitted / excluded subtrees that the verifier does not evaluate
	ncHand    bool      // the nameConstraints extension is written by hand (always when ncP/ncX/ncSuffix/ncRaw are set)
	ncFirst   bool      // hand-written subtrees: the forms of ncP/ncX precede the evaluated forms
	ncCrit    int       // criticality of nameConstraints: 0 = critical (what the templates always asked for), 2 = not critical
	ncSuffix  []byte    // hand-written: minimum/maximum fields appended to every GeneralSubtree (outside the model: topo.unjudged)
	ncRaw     []byte    // hand-written: the complete extension value (malformed or unusual values)
	ncInvalid bool      // ncRaw is not a NameConstraints value at all: when critical the certificate must never be part of a chain
	sanOpaque []gnForm  // GeneralName forms in subjectAltName that the verifier does not evaluate (hand-written SAN)
	sanFirst  bool      // they precede the evaluated names
	sanCrit   int       // hand-written SAN: 1 = critical, otherwise not
	skid       []byte // explicit subjectKeyIdentifier (nil: the library derives one for CAs); key ids are hints and never part of the ground truth
	roots      bool   // member of the trusted pool
	inter      bool   // member of the intermediates pool
	target     bool   // verified as a leaf
}

func (s *certSpec) hasNC() bool {
	return len(s.pDNS)+len(s.xDNS)+len(s.pMail)+len(s.xMail)+len(s.pURI)+len(s.xURI)+len(s.pIP)+len(s.xIP) > 0
}

type topo struct {
	recipe string
	depth  int
	certs  []*certSpec
	chain  []int // the base chain, root first, leaf last
	nkeys  int
	notes  []string

	ekuVaried bool // extended key usages differ between certificates: ask with several requested usages
	// critext.go
	unjudged     string      // non-empty: the topology uses a feature outside the model (why); only the differentials judge
	noTwin       bool        // crypto/x509 of other toolchains may evaluate an extension smx509 leaves unhandled: no comparison with the twin
	buildMayFail bool        // a certificate carries a value ParseCertificate may refuse (refusal is an acceptable answer)
	times        []time.Time // further verification times for every target
	noHost       bool        // no queries with DNSName (names that are no host names)
	digestKey    string      // key prefix of the verdict digest (default "topo")
	ekuRecipe bool // ... because the recipe is about them

	// Pool contents of the query being judged when they are not the roots/inter flags of
	// the specifications: a query without Intermediates (mInter all false) and the pool
	// histories of pools.go (contents and per-entry constraints from the pool models).
	mRoots, mInter []bool
	cRoots, cInter []*poolCons // per certificate: constraint of its entry in the pool used as Roots / Intermediates (nil: none)
}

func (t *topo) isRoot(i int) bool {
	if t.mRoots != nil {
		return t.mRoots[i]
	}
	return t.certs[i].roots
}

func (t *topo) isInter(i int) bool {
	if t.mInter != nil {
		return t.mInter[i]
	}
	return t.certs[i].inter
}

func (t *topo) newKey() int { t.nkeys++; return t.nkeys - 1 }

func (t *topo) add(s *certSpec) int { t.certs = append(t.certs, s); return len(t.certs) - 1 }

func (t *topo) issuerName(i int) string {
	s := t.certs[i]
	switch {
	case s.fakeIssuer != "":
		return s.fakeIssuer
	case s.issuer < 0:
		return s.name
	}
	return t.certs[s.issuer].name
}

func (t *topo) signerKey(i int) int {
	s := t.certs[i]
	if s.issuer < 0 || s.fakeIssuer != "" {
		return s.key
	}
	return t.certs[s.issuer].key
}

// link: certificate i names j as issuer and carries a signature made with j's key.
func (t *topo) link(i, j int) bool {
	return t.issuerName(i) == t.certs[j].name && t.signerKey(i) == t.certs[j].key
}

func (t *topo) selfIssued(i int) bool { return t.issuerName(i) == t.certs[i].name }

func window(r *mon.Rand) (time.Time, time.Time) {
	nb := t0.Add(-time.Duration(r.Range(30, 400))*day - time.Duration(r.Intn(86400))*time.Second)
	na := t0.Add(time.Duration(r.Range(30, 400))*day + time.Duration(r.Intn(86400))*time.Second)
	return nb, na
}

func caSpec(r *mon.Rand, name string, key, issuer int) *certSpec {
	s := &certSpec{name: name, key: key, issuer: issuer, ca: true, bcValid: true, maxPath: -1,
		ku: x509.KeyUsageCertSign | x509.KeyUsageCRLSign}
	switch r.Intn(4) {
	case 0:
		s.ku |= x509.KeyUsageDigitalSignature
	case 1:
		s.ku = 0 // no key usage extension: unrestricted
	}
	s.nb, s.na = window(r)
	return s
}

func leafSpec(r *mon.Rand, name string, key, issuer int) *certSpec {
	s := &certSpec{name: name, key: key, issuer: issuer, maxPath: -1, bcValid: r.Bool(),
		ku: x509.KeyUsageDigitalSignature | x509.KeyUsageKeyEncipherment, target: true}
	if r.Bool() {
		s.eku = []x509.ExtKeyUsage{x509.ExtKeyUsageServerAuth}
	}
	if r.Intn(3) > 0 {
		s.dns = []string{strings.ToLower(name) + ".example.com"}
	}
	s.nb, s.na = window(r)
	return s
}

// base builds root -> I1 .. Id -> leaf.
func base(r *mon.Rand, d int) *topo {
	t := &topo{depth: d}
	root := caSpec(r, "Root", t.newKey(), -1)
	root.roots = true
	prev := t.add(root)
	t.chain = append(t.chain, prev)
	for i := 1; i <= d; i++ {
		s := caSpec(r, fmt.Sprintf("Inter%d", i), t.newKey(), prev)
		s.inter = true
		prev = t.add(s)
		t.chain = append(t.chain, prev)
	}
	t.chain = append(t.chain, t.add(leafSpec(r, "Leaf", t.newKey(), prev)))
	return t
}

func (t *topo) leaf() *certSpec { return t.certs[t.chain[len(t.chain)-1]] }
func (t *topo) root() *certSpec { return t.certs[t.chain[0]] }

// pickCA returns an index into t.chain of a CA position (0..depth).
func (t *topo) pickCA(r *mon.Rand) int { return r.Intn(len(t.chain) - 1) }

func ips(ss ...string) []net.IP {
	var out []net.IP
	for _, s := range ss {
		ip := net.ParseIP(s)
		if v4 := ip.To4(); v4 != nil {
			ip = v4
		}
		out = append(out, ip)
	}
	return out
}

// nameConstraint puts a permitted or excluded subtree of one name type on a CA of the
// base chain and gives the leaf names of that type inside and/or outside of it.
func nameConstraint(t *topo, r *mon.Rand, kind int) {
	ca := t.certs[t.chain[t.pickCA(r)]]
	leaf := t.leaf()
	excl := r.Bool()
	var cons, names []string
	hostOnly := func(cs []string) bool { // a host constraint without leading period is present
		for _, c := range cs {
			if c == "example.com" {
				return true
			}
		}
		return false
	}
	switch kind {
	case 0:
		cons = subset(r, []string{"example.com", ".example.com", "corp.example.com"}, r.Range(1, 2))
		names = subset(r, []string{"www.example.com", "example.com", "a.corp.example.com", "www.example.org", "corp.example.com", "EXAMPLE.COM"}, r.Range(1, 2))
		leaf.dns = names
		if excl {
			ca.xDNS = cons
		} else {
			ca.pDNS = cons
		}
	case 1:
		cons = subset(r, []string{"10.0.0.0/8", "192.168.0.0/16", "2001:db8::/32"}, r.Range(1, 2))
		names = subset(r, []string{"10.1.2.3", "192.168.5.5", "8.8.8.8", "2001:db8::1", "2001:db9::1"}, r.Range(1, 2))
		leaf.ips = ips(names...)
		if excl {
			ca.xIP = cidrs(cons)
		} else {
			ca.pIP = cidrs(cons)
		}
	case 2:
		cons = subset(r, []string{"user@example.com", "example.com", ".example.com"}, r.Range(1, 2))
		pool := []string{"user@example.com", "other@example.com", "user@example.org", "USER@example.com", "user@mail.example.com"}
		if hostOnly(cons) && r.Intn(4) > 0 {
			pool = pool[:4] // keep clear of the sub-domain-of-a-host reading on which Verify and RFC 5280 differ
		}
		names = subset(r, pool, r.Range(1, 2))
		if r.Bool() {
			// quoted-string local parts (RFC 5321 4.1.2): the quotes and quoted-pairs are syntax, "user" is the mailbox user
			names = append(names, pick(r, []string{`"user"@example.com`, `"other user"@example.com`, `"us\er"@example.com`, `"user"@example.org`}))
		}
		leaf.emails = names
		if excl {
			ca.xMail = cons
		} else {
			ca.pMail = cons
		}
	case 3:
		cons = subset(r, []string{"example.com", ".example.com"}, r.Range(1, 2))
		pool := []string{"https://example.com/x", "https://example.org/", "spiffe://EXAMPLE.com/ns", "https://example.net:8443/z", "https://api.example.com:8443/y"}
		if hostOnly(cons) && r.Intn(4) > 0 {
			pool = pool[:4]
		}
		names = subset(r, pool, r.Range(1, 2))
		if r.Intn(4) == 0 {
			// URIs without a fully qualified host name: RFC 5280 4.2.1.10 demands refusal under a CA with URI constraints
			names = append(names, pick(r, []string{"https://192.0.2.7/x", "https://192.0.2.7:8443/x", "https://[2001:db8::7]/y", "https://[2001:db8::7]:8443/y", "urn:verif:no-authority"}))
		}
		leaf.uris = names
		if excl {
			ca.xURI = cons
		} else {
			ca.pURI = cons
		}
	}
	// sometimes an intermediate below the constrained CA claims a name as well
	if len(t.chain) > 2 && r.Intn(3) == 0 {
		mid := t.certs[t.chain[r.Range(1, len(t.chain)-2)]]
		mid.dns = append(mid.dns, pick(r, []string{"ca.example.com", "ca.example.org"}))
	}
	t.notes = append(t.notes, fmt.Sprintf("%s constraint kind=%d excluded=%v %q vs leaf %q", ca.name, kind, excl, cons, names))
}

type mutator struct {
	name string
	f    func(t *topo, r *mon.Rand)
}

var mutators = []mutator{
	{"plain", func(t *topo, r *mon.Rand) {}},
	{"expired-link", func(t *topo, r *mon.Rand) {
		s := t.certs[t.chain[r.Intn(len(t.chain))]]
		if r.Bool() {
			s.na = t0.Add(-time.Duration(r.Range(1, 100)) * day)
			if !s.nb.Before(s.na) {
				s.nb = s.na.Add(-100 * day)
			}
			t.notes = append(t.notes, s.name+" expired")
		} else {
			s.nb = t0.Add(time.Duration(r.Range(1, 100)) * day)
			if !s.nb.Before(s.na) {
				s.na = s.nb.Add(100 * day)
			}
			t.notes = append(t.notes, s.name+" not yet valid")
		}
	}},
	{"non-ca-issuer", func(t *topo, r *mon.Rand) {
		s := t.certs[t.chain[t.pickCA(r)]]
		s.ca, s.maxPath = false, -1
		s.bcValid = r.Bool()
		t.notes = append(t.notes, fmt.Sprintf("%s not a CA (basicConstraints present=%v)", s.name, s.bcValid))
	}},
	{"no-certsign", func(t *topo, r *mon.Rand) {
		s := t.certs[t.chain[t.pickCA(r)]]
		s.ku = x509.KeyUsageDigitalSignature | x509.KeyUsageCRLSign
		t.notes = append(t.notes, s.name+" lacks keyCertSign")
	}},
	{"path-length", func(t *topo, r *mon.Rand) {
		s := t.certs[t.chain[t.pickCA(r)]]
		if s.ca {
			s.maxPath = r.Intn(3)
			t.notes = append(t.notes, fmt.Sprintf("%s pathLen=%d", s.name, s.maxPath))
		}
	}},
	{"name-constraint-dns-ip", func(t *topo, r *mon.Rand) { nameConstraint(t, r, r.Intn(2)) }},
	{"name-constraint-mail-uri", func(t *topo, r *mon.Rand) { nameConstraint(t, r, 2+r.Intn(2)) }},
	{"same-name-other-key-root", func(t *topo, r *mon.Rand) {
		root := t.root()
		fake := caSpec(r, root.name, t.newKey(), -1)
		fake.roots = true
		t.add(fake)
		if r.Bool() {
			root.roots = false
			t.notes = append(t.notes, "only an unrelated root with the same name is trusted")
		}
	}},
	{"same-key-other-name", func(t *topo, r *mon.Rand) {
		x := t.certs[t.chain[t.pickCA(r)]]
		alias := caSpec(r, x.name+" Alias", x.key, x.issuer)
		alias.roots, alias.inter = x.roots, x.inter
		t.add(alias)
		if r.Bool() {
			x.roots, x.inter = false, false
			t.notes = append(t.notes, x.name+" present only under another name")
		}
	}},
	{"cross-signed", func(t *topo, r *mon.Rand) {
		r2 := caSpec(r, "Root2", t.newKey(), -1)
		r2.roots = r.Intn(4) > 0
		i2 := t.add(r2)
		x := t.certs[t.chain[t.pickCA(r)]]
		cross := caSpec(r, x.name, x.key, i2)
		cross.inter = true
		t.add(cross)
		if r.Bool() {
			t.root().roots = false
		}
		t.notes = append(t.notes, fmt.Sprintf("%s cross-signed by Root2 (trusted=%v), Root trusted=%v", x.name, r2.roots, t.root().roots))
	}},
	{"reissued", func(t *topo, r *mon.Rand) {
		x := t.certs[t.chain[t.pickCA(r)]]
		re := caSpec(r, x.name, x.key, x.issuer)
		re.roots, re.inter = x.roots, x.inter
		if r.Bool() {
			re.na = t0.Add(-time.Duration(r.Range(1, 50)) * day)
			re.nb = re.na.Add(-200 * day)
		} else {
			x.na = t0.Add(-time.Duration(r.Range(1, 50)) * day)
			x.nb = x.na.Add(-200 * day)
		}
		t.add(re)
		t.notes = append(t.notes, x.name+" re-issued with another validity window")
	}},
	{"key-rollover", func(t *topo, r *mon.Rand) {
		// Root (old key) signs a certificate for the same name with a new key; the
		// certificate below the root is re-issued under the new key.
		root := t.root()
		k2 := t.newKey()
		bridge := caSpec(r, root.name, k2, t.chain[0])
		bridge.inter = true
		bi := t.add(bridge)
		t.certs[t.chain[1]].issuer = bi
		if r.Intn(3) == 0 {
			nr := caSpec(r, root.name, k2, -1)
			nr.roots = true
			t.add(nr)
		}
		if r.Intn(3) == 0 {
			bridge.maxPath = r.Intn(2)
		}
		t.notes = append(t.notes, "root key rollover through a self-issued bridge certificate")
	}},
	{"missing-intermediate", func(t *topo, r *mon.Rand) {
		if len(t.chain) > 2 {
			s := t.certs[t.chain[r.Range(1, len(t.chain)-2)]]
			s.inter = false
			t.notes = append(t.notes, s.name+" not supplied")
		} else {
			t.root().roots = false
			t.notes = append(t.notes, "root not supplied")
		}
	}},
	{"intermediate-trusted", func(t *topo, r *mon.Rand) {
		if len(t.chain) > 2 {
			s := t.certs[t.chain[r.Range(1, len(t.chain)-2)]]
			s.roots = true
			s.inter = r.Bool()
			if r.Bool() {
				t.root().roots = false
			}
			t.notes = append(t.notes, s.name+" is itself a trust anchor")
		}
	}},
	{"root-untrusted", func(t *topo, r *mon.Rand) {
		t.root().roots, t.root().inter = false, true
	}},
	{"ext-key-usage", func(t *topo, r *mon.Rand) {
		for _, i := range t.chain {
			if r.Bool() {
				t.certs[i].eku = ekuOpts[r.Intn(len(ekuOpts))]
			}
			if r.Intn(8) == 0 {
				t.certs[i].eku, t.certs[i].unkEKU = nil, true
			}
		}
		t.ekuVaried, t.ekuRecipe = true, true
	}},
	{"critical-extension", func(t *topo, r *mon.Rand) {
		// an unknown critical extension, or another thing the verifier cannot evaluate (critext.go)
		unevaluableExt(t, r, t.certs[t.chain[r.Intn(len(t.chain))]])
	}},
	{"leaf-is-anchor", func(t *topo, r *mon.Rand) {
		t.leaf().roots = true
		if r.Bool() {
			t.root().roots = false
		}
	}},
	{"forged-issuer", func(t *topo, r *mon.Rand) {
		// an attacker CA using the name of the genuine issuer of the leaf, with its own key
		gi := t.chain[len(t.chain)-2]
		g := t.certs[gi]
		att := caSpec(r, g.name, t.newKey(), -1)
		if r.Bool() && g.issuer >= 0 {
			att.fakeIssuer = t.certs[g.issuer].name // claims the genuine issuer's issuer, signs itself
		}
		att.inter = true
		ai := t.add(att)
		f := leafSpec(r, "Forged", t.newKey(), ai)
		t.add(f)
		t.notes = append(t.notes, "forged leaf under a look-alike CA")
	}},
	{"target-named-like-anchor", func(t *topo, r *mon.Rand) {
		// a certificate that only shares the subject name (or name and key) of a trust anchor
		root := t.root()
		k := t.newKey()
		if r.Intn(4) == 0 {
			k = root.key // re-issued anchor that is not in the pool itself
		}
		s := caSpec(r, root.name, k, -1)
		s.target = true
		t.add(s)
		if len(t.chain) > 2 && r.Bool() {
			x := t.certs[t.chain[1]]
			x.roots = true // also an intermediate anchor with a look-alike target
			y := caSpec(r, x.name, t.newKey(), x.issuer)
			y.target = true
			t.add(y)
		}
	}},
	{"ca-as-target", func(t *topo, r *mon.Rand) {
		t.certs[t.chain[t.pickCA(r)]].target = true
	}},
	// several candidate chains, each with rules of its own (any rule of the model)
	{"parallel-versions", func(t *topo, r *mon.Rand) { parallelVersions(t, r, false) }},
	// several candidate chains whose extended key usages differ
	{"parallel-versions-eku", func(t *topo, r *mon.Rand) { parallelVersions(t, r, true) }},
}

// ekuOpts: the extended key usage lists certificates are given.
var ekuOpts = [][]x509.ExtKeyUsage{nil, {x509.ExtKeyUsageServerAuth}, {x509.ExtKeyUsageClientAuth},
	{x509.ExtKeyUsageServerAuth, x509.ExtKeyUsageClientAuth}, {x509.ExtKeyUsageAny}, {x509.ExtKeyUsageCodeSigning},
	{x509.ExtKeyUsageEmailProtection}, {x509.ExtKeyUsageEmailProtection, x509.ExtKeyUsageClientAuth}}

// parallelVersions gives one or two CAs of the base chain one or two further
// certificates for the same name and key (re-issued by the same issuer, cross-signed by
// a further root, or a second self-signed version of the root), so that the target has
// 2..9 candidate chains, and gives every version a rule of its own: whatever Verify
// keeps between candidate chains (usage lists, counters, the chain under construction)
// then meets a candidate for which the answer differs.
func parallelVersions(t *topo, r *mon.Rand, ekuOnly bool) {
	levels := 1
	if len(t.chain) > 2 && r.Intn(3) == 0 {
		levels = 2
	}
	seen := map[int]bool{}
	for l := 0; l < levels; l++ {
		p := t.pickCA(r)
		if seen[p] {
			continue
		}
		seen[p] = true
		x := t.certs[t.chain[p]]
		versions := []*certSpec{x}
		for v, nv := 0, r.Range(1, 2); v < nv; v++ {
			var s *certSpec
			switch k := r.Intn(3); {
			case k == 0 || (k == 2 && x.issuer < 0):
				// re-issued: same issuer (for the root: a second self-signed certificate), same pools
				s = caSpec(r, x.name, x.key, x.issuer)
				s.roots, s.inter = x.roots, x.inter
			case k == 1:
				// cross-signed by a further root
				nr := caSpec(r, fmt.Sprintf("XRoot%d", len(t.certs)), t.newKey(), -1)
				nr.roots = r.Intn(4) > 0
				s = caSpec(r, x.name, x.key, t.add(nr))
				s.inter = true
			default:
				// a version of an intermediate that is itself a trust anchor
				s = caSpec(r, x.name, x.key, x.issuer)
				s.roots, s.inter = true, r.Bool()
			}
			t.add(s)
			versions = append(versions, s)
		}
		for _, s := range versions {
			k := r.Intn(9)
			if ekuOnly {
				k = r.Intn(4) // 3: no rule of its own
			}
			switch k {
			case 0, 1, 2:
				s.eku = ekuOpts[r.Intn(len(ekuOpts))]
				if r.Intn(8) == 0 {
					s.eku, s.unkEKU = nil, true
				}
			case 3:
			case 4:
				s.maxPath = r.Intn(2)
			case 5:
				s.na = t0.Add(-time.Duration(r.Range(1, 50)) * day)
				s.nb = s.na.Add(-200 * day)
			case 6:
				s.dns = append(s.dns, pick(r, []string{"ca.example.com", "ca.example.org"})) // a version with names of its own
			case 7:
				s.skid = r.Bytes(r.Range(4, 20)) // key identifiers are hints: a mismatch must not change the verdict
			case 8:
				if r.Bool() {
					s.pDNS = []string{pick(r, []string{".example.com", "example.org", "leaf.example.com"})}
				} else {
					s.xDNS = []string{pick(r, []string{".example.com", "example.org", "leaf.example.com"})}
				}
			}
		}
		t.notes = append(t.notes, fmt.Sprintf("%s exists in %d versions", x.name, len(versions)))
	}
	// the certificates outside the versions take part as well
	for _, i := range t.chain {
		if s := t.certs[i]; len(s.eku) == 0 && !s.unkEKU && r.Intn(3) == 0 {
			s.eku = ekuOpts[r.Intn(len(ekuOpts))]
		}
	}
	t.ekuVaried, t.ekuRecipe = true, true
}

// mixSlots: the recipe cycle has len(mutators)+mixSlots = 29 entries (a prime, so that
// every shard count sees every recipe); the extra slots mix two or three recipes.
const mixSlots = 8

func genTopo(r *mon.Rand, i int) *topo {
	d := r.Intn(4)
	t := base(r, d)
	// recipes cycle with the topology number; the last mixSlots entries mix two or three of them
	m := i % (len(mutators) + mixSlots)
	if m < len(mutators) {
		t.recipe = mutators[m].name
		mutators[m].f(t, r)
	} else {
		t.recipe = "mix"
		for k := r.Range(2, 3); k > 0; k-- {
			mu := mutators[1+r.Intn(len(mutators)-1)]
			t.notes = append(t.notes, "+"+mu.name)
			mu.f(t, r)
		}
	}
	// any recipe, one topology in five: extended key usages on every certificate (also on
	// those the recipe added), so that every multi-chain recipe meets differing usage lists
	if r.Intn(5) == 0 {
		for _, s := range t.certs {
			if r.Bool() {
				s.eku = ekuOpts[r.Intn(len(ekuOpts))]
			}
		}
		t.ekuVaried = true
	}
	// one in six: host names in the forms VerifyHostname distinguishes (wildcard, mixed case)
	if r.Intn(6) == 0 {
		for _, s := range t.certs {
			if s.target {
				s.dns = append(s.dns, pick(r, []string{"*.wild.example.com", "MiXed." + strings.ReplaceAll(s.name, " ", "-") + ".Example.COM", "*.example.org"}))
				if r.Bool() {
					s.ips = append(s.ips, ips(pick(r, []string{"10.9.8.7", "2001:db8::99"}))...)
				}
			}
		}
	}
	// background noise: an unrelated hierarchy in the pools
	if r.Intn(3) == 0 {
		nr := caSpec(r, "Noise Root", t.newKey(), -1)
		nr.roots = true
		ni := t.add(nr)
		nx := caSpec(r, "Noise Inter", t.newKey(), ni)
		nx.inter = true
		t.add(nx)
	}
	return t
}

// ---------------------------------------------------------------------------
// Model: RFC 5280 path validation restricted to what the generator uses.
// strict=true follows the documented behaviour of Verify where it is stricter
// than RFC 5280 (self-issued certificates count for path length and are subject
// to name constraints); it is used for completeness. strict=false is used to
// judge returned chains (soundness).
// ---------------------------------------------------------------------------

func domainMatch(name, constraint string) bool {
	if constraint == "" {
		return true
	}
	must := false
	if constraint[0] == '.' {
		must = true
		constraint = constraint[1:]
	}
	nl := strings.Split(strings.ToLower(name), ".")
	cl := strings.Split(strings.ToLower(constraint), ".")
	if len(nl) < len(cl) || must && len(nl) == len(cl) {
		return false
	}
	for i := 1; i <= len(cl); i++ {
		if nl[len(nl)-i] != cl[len(cl)-i] {
			return false
		}
	}
	return true
}

// hostMatch is the rule for the host part of rfc822Name and URI constraints: a
// constraint without leading period names one host (RFC 5280 4.2.1.10); Verify also
// accepts sub-domains of it. Pairs on which the two readings differ are flagged
// ambiguous and not judged.
func hostMatch(host, constraint string, amb *bool) bool {
	if strings.HasPrefix(constraint, ".") {
		return domainMatch(host, constraint)
	}
	if strings.EqualFold(host, constraint) {
		return true
	}
	if domainMatch(host, constraint) {
		*amb = true
	}
	return false
}

// unquoteLocal gives the mailbox user a local part denotes: a quoted-string stands for
// its content, a quoted-pair for the character after the backslash (RFC 5321 4.1.2).
func unquoteLocal(l string) string {
	if len(l) < 2 || l[0] != '"' || l[len(l)-1] != '"' {
		return l
	}
	var b []byte
	for in, i := l[1:len(l)-1], 0; i < len(in); i++ {
		if in[i] == '\\' && i+1 < len(in) {
			i++
		}
		b = append(b, in[i])
	}
	return string(b)
}

func emailMatch(mailbox, constraint string, amb *bool) bool {
	at := strings.LastIndexByte(mailbox, '@')
	local, host := unquoteLocal(mailbox[:at]), mailbox[at+1:]
	if cat := strings.LastIndexByte(constraint, '@'); cat >= 0 {
		return local == unquoteLocal(constraint[:cat]) && strings.EqualFold(host, constraint[cat+1:])
	}
	return hostMatch(host, constraint, amb)
}

func ipMatch(ip net.IP, n *net.IPNet) bool {
	nip := n.IP
	if v4 := nip.To4(); v4 != nil && len(n.Mask) == 4 {
		nip = v4
	}
	if len(ip) != len(nip) || len(n.Mask) != len(ip) {
		return false
	}
	for i := range ip {
		if ip[i]&n.Mask[i] != nip[i]&n.Mask[i] {
			return false
		}
	}
	return true
}

func permits[T any, C any](names []T, permitted, excluded []C, match func(T, C) bool) bool {
	for _, n := range names {
		for _, x := range excluded {
			if match(n, x) {
				return false
			}
		}
		if len(permitted) > 0 {
			ok := false
			for _, p := range permitted {
				ok = ok || match(n, p)
			}
			if !ok {
				return false
			}
		}
	}
	return true
}

func constraintsAllow(ca, sub *certSpec, amb *bool) bool {
	uriHosts := []string{}
	for _, u := range sub.uris {
		pu, _ := url.Parse(u)
		h := pu.Hostname()
		if h == "" || net.ParseIP(h) != nil {
			// no authority, or an IP address as host: cannot be matched, the certificate
			// must be refused under a CA that constrains URIs (RFC 5280 4.2.1.10)
			if len(ca.pURI)+len(ca.xURI) > 0 {
				return false
			}
			continue
		}
		uriHosts = append(uriHosts, h)
	}
	// names that cannot be read as a domain name / mailbox at all (critext.go): under permitted subtrees of their form
	// they cannot be shown to lie inside; otherwise (excluded subtrees only, constraints on other forms only) the
	// model does not judge
	bad := false
	for _, d := range sub.dns {
		if h := hopelessDomain(d); h != 0 {
			if h == 2 && len(ca.pDNS) > 0 {
				return false
			}
			bad = true
		}
	}
	for _, m := range sub.emails {
		if h := hopelessMailbox(m); h != 0 {
			if h == 2 && len(ca.pMail) > 0 {
				return false
			}
			bad = true
		}
	}
	if bad {
		*amb = true
		return true
	}
	return permits(sub.dns, ca.pDNS, ca.xDNS, domainMatch) &&
		permits(sub.ips, ca.pIP, ca.xIP, ipMatch) &&
		permits(sub.emails, ca.pMail, ca.xMail, func(n, c string) bool { return emailMatch(n, c, amb) }) &&
		permits(uriHosts, ca.pURI, ca.xURI, func(n, c string) bool { return hostMatch(n, c, amb) })
}

func ekuAllows(path []*certSpec, usages []x509.ExtKeyUsage) bool {
	if len(usages) == 0 {
		usages = []x509.ExtKeyUsage{x509.ExtKeyUsageServerAuth}
	}
	for _, u := range usages {
		if u == x509.ExtKeyUsageAny {
			return true
		}
	}
	for _, u := range usages {
		ok := true
		for _, s := range path {
			if len(s.eku) == 0 && !s.unkEKU {
				continue
			}
			has := false
			for _, e := range s.eku {
				has = has || e == x509.ExtKeyUsageAny || e == u
			}
			ok = ok && has
		}
		if ok {
			return true
		}
	}
	return false
}

// ncNeed is the number of name comparisons the constraints of ca can take on the
// certificates below it: every name against every constraint of its type.
func ncNeed(ca *certSpec, below []*certSpec) int {
	n := 0
	for _, s := range below {
		n += len(s.dns)*(len(ca.pDNS)+len(ca.xDNS)) + len(s.ips)*(len(ca.pIP)+len(ca.xIP)) +
			len(s.emails)*(len(ca.pMail)+len(ca.xMail)) + len(s.uris)*(len(ca.pURI)+len(ca.xURI))
	}
	return n
}

// hostOK: VerifyHostname as documented, for the host names the generator asks for (valid
// host names and IP addresses): an IP address (brackets allowed) must equal an IP SAN; a
// name is compared case-insensitively, label by label, with the DNS SANs, one trailing
// period of the name ignored, "*" as complete left-most label of a SAN standing for
// exactly one label. The common name is never consulted.
func hostOK(s *certSpec, h string) bool {
	cand := h
	if len(h) >= 3 && h[0] == '[' && h[len(h)-1] == ']' {
		cand = h[1 : len(h)-1]
	}
	if ip := net.ParseIP(cand); ip != nil {
		for _, x := range s.ips {
			if ip.Equal(x) {
				return true
			}
		}
		return false
	}
	hl := strings.Split(strings.TrimSuffix(strings.ToLower(h), "."), ".")
next:
	for _, d := range s.dns {
		pl := strings.Split(strings.ToLower(d), ".")
		if len(pl) != len(hl) {
			continue
		}
		for i := range pl {
			if !(i == 0 && pl[i] == "*") && pl[i] != hl[i] {
				continue next
			}
		}
		return true
	}
	return false
}

// pathValid judges a candidate chain (indices, leaf first) for a query. It returns the
// first rule that is violated, or "".
func (t *topo) pathValid(path []int, q *query, strict bool, amb *bool) string {
	at, usages := q.at, q.usages
	if t.unjudged != "" {
		*amb = true
	}
	specs := make([]*certSpec, len(path))
	for i, p := range path {
		specs[i] = t.certs[p]
	}
	last := len(path) - 1
	if !t.isRoot(path[last]) {
		return fmt.Sprintf("%s ends the chain but is not in the pool given as Roots", specs[last].name)
	}
	if q.dnsName != "" && !hostOK(specs[0], q.dnsName) {
		return fmt.Sprintf("%s is not a certificate for the host %q", specs[0].name, q.dnsName)
	}
	for i, s := range specs {
		if at.Before(s.nb) || at.After(s.na) {
			return fmt.Sprintf("%s is outside its validity period at %s", s.name, at.Format(time.RFC3339))
		}
		if why := s.unevaluable(); why != "" {
			return fmt.Sprintf("%s carries %s", s.name, why)
		}
		if i > 0 && i < last && !t.isInter(path[i]) {
			return fmt.Sprintf("%s is not in the pool given as Intermediates", s.name)
		}
		if i < last && !t.link(path[i], path[i+1]) {
			return fmt.Sprintf("%s was not issued by %s (issuer name %q signer key %d; parent name %q key %d)", s.name, specs[i+1].name,
				t.issuerName(path[i]), t.signerKey(path[i]), specs[i+1].name, specs[i+1].key)
		}
		if i == 0 {
			continue
		}
		if !(s.bcValid && s.ca) {
			return fmt.Sprintf("%s is not a CA", s.name)
		}
		if s.ku != 0 && s.ku&x509.KeyUsageCertSign == 0 {
			return fmt.Sprintf("%s has a key usage without keyCertSign", s.name)
		}
		if s.maxPath >= 0 {
			n := 0
			for j := 1; j < i; j++ {
				if strict || !t.selfIssued(path[j]) {
					n++
				}
			}
			if n > s.maxPath {
				return fmt.Sprintf("%s allows %d intermediates, the chain has %d below it", s.name, s.maxPath, n)
			}
		}
		if s.hasNC() || s.ncByHand() {
			for j := 0; j < i; j++ {
				if !strict && j > 0 && t.selfIssued(path[j]) {
					continue
				}
				if !constraintsAllow(s, specs[j], amb) {
					return fmt.Sprintf("name constraints of %s do not allow the names of %s", s.name, specs[j].name)
				}
			}
			// MaxConstraintComparisions bounds work, it is not a rule of path validation: a
			// chain is only demanded when the bound cannot be reached, and never refused
			// by the model because of it (the verdict under a tight bound is compared with
			// crypto/x509 on the twin)
			if strict && q.maxCmp > 0 && ncNeed(s, specs[:i]) > q.maxCmp {
				return fmt.Sprintf("the name constraints of %s may take more than %d comparisons", s.name, q.maxCmp)
			}
		}
		// constraint attached to the pool entry (AddCertWithConstraint): documented for
		// chains rooted in the entry; for entries of the Intermediates pool it is only
		// taken into account when a chain is demanded
		if i == last && t.cRoots != nil && t.cRoots[path[i]] != nil {
			if why := t.cRoots[path[i]].refuses(t, path[:i]); why != "" {
				return fmt.Sprintf("the constraint added with %s to the Roots pool refuses the chain: %s", s.name, why)
			}
		}
		if strict && i < last && t.cInter != nil && t.cInter[path[i]] != nil {
			if why := t.cInter[path[i]].refuses(t, path[:i]); why != "" {
				return fmt.Sprintf("the constraint added with %s to the Intermediates pool refuses the chain: %s", s.name, why)
			}
		}
	}
	if !ekuAllows(specs, usages) {
		return "extended key usages along the chain do not allow any requested usage"
	}
	return ""
}

// allPaths enumerates every chain of links from target to a trust anchor.
func (t *topo) allPaths(target int) [][]int {
	var out [][]int
	if t.isRoot(target) {
		out = append(out, []int{target})
	}
	var rec func(path []int)
	rec = func(path []int) {
		if len(path) > 8 {
			return
		}
		cur := path[len(path)-1]
	next:
		for j := range t.certs {
			for _, p := range path {
				if p == j {
					continue next
				}
			}
			if !t.link(cur, j) {
				continue
			}
			np := append(append([]int{}, path...), j)
			if t.isRoot(j) {
				out = append(out, np)
			}
			if t.isInter(j) {
				rec(np)
			}
		}
	}
	rec([]int{target})
	return out
}

// trivial: no two certificates of the path share subject and key (Verify refuses to
// put equivalent certificates twice into a chain, which is documented loop protection).
func (t *topo) trivial(path []int) bool {
	for i := range path {
		for j := i + 1; j < len(path); j++ {
			a, b := t.certs[path[i]], t.certs[path[j]]
			if a.name == b.name && a.key == b.key {
				return false
			}
		}
	}
	return true
}

// ---------------------------------------------------------------------------
// Instances of a topology
// ---------------------------------------------------------------------------

func pkiName(cn string) pkix.Name {
	return pkix.Name{CommonName: cn, Organization: []string{"verif-pki"}}
}

func (t *topo) template(i int) *x509.Certificate {
	s := t.certs[i]
	tm := &x509.Certificate{
		SerialNumber:          big.NewInt(int64(1000 + i)),
		Subject:               pkiName(s.name),
		NotBefore:             s.nb,
		NotAfter:              s.na,
		KeyUsage:              s.ku,
		ExtKeyUsage:           s.eku,
		BasicConstraintsValid: s.bcValid,
		IsCA:                  s.ca,
		MaxPathLen:            -1,
		DNSNames:              s.dns,
		EmailAddresses:        s.emails,
		IPAddresses:           s.ips,
		URIs:                  parseURIs(s.uris),
		PermittedDNSDomains:   s.pDNS, ExcludedDNSDomains: s.xDNS,
		PermittedEmailAddresses: s.pMail, ExcludedEmailAddresses: s.xMail,
		PermittedURIDomains: s.pURI, ExcludedURIDomains: s.xURI,
		PermittedIPRanges: s.pIP, ExcludedIPRanges: s.xIP,
		PermittedDNSDomainsCritical: s.hasNC() && s.ncCrit != 2,
		SubjectKeyId:                s.skid,
	}
	if s.ca && s.maxPath >= 0 {
		tm.MaxPathLen, tm.MaxPathLenZero = s.maxPath, s.maxPath == 0
	}
	if s.unkEKU {
		tm.UnknownExtKeyUsage = []asn1.ObjectIdentifier{append(append(asn1.ObjectIdentifier{}, oidVerifArc...), 3, 7)}
	}
	if s.crit {
		tm.ExtraExtensions = []pkix.Extension{{Id: append(append(asn1.ObjectIdentifier{}, oidVerifArc...), 9, 9), Critical: true, Value: []byte{5, 0}}}
	}
	tm.ExtraExtensions = append(tm.ExtraExtensions, s.handWritten()...)
	return tm
}

type instance struct {
	label string
	der   [][]byte
	sm    []*smx509.Certificate
	std   []*x509.Certificate
	byRaw map[string]int
}

// build creates every certificate of the topology, issuers first. std marks the twin
// instance that crypto/x509 parses and verifies; its certificates are created by
// crypto/x509 (stdCreates) or by smx509 (then crypto/x509 must accept what smx509 created).
func (t *topo) build(c *mon.Case, label string, keys []key, std, stdCreates bool) (*instance, error) {
	in := &instance{label: label, der: make([][]byte, len(t.certs)), sm: make([]*smx509.Certificate, len(t.certs)),
		std: make([]*x509.Certificate, len(t.certs)), byRaw: map[string]int{}}
	var create func(i, depth int) error
	create = func(i, depth int) error {
		if in.der[i] != nil {
			return nil
		}
		if depth > len(t.certs) {
			return fmt.Errorf("issuer cycle in the generated topology")
		}
		s := t.certs[i]
		tm := t.template(i)
		var parent any = tm
		priv := keys[s.key].priv
		switch {
		case s.fakeIssuer != "":
			parent = &x509.Certificate{Subject: pkiName(s.fakeIssuer)}
		case s.issuer >= 0:
			if err := create(s.issuer, depth+1); err != nil {
				return err
			}
			priv = keys[t.certs[s.issuer].key].priv
			if std {
				parent = in.std[s.issuer]
			} else {
				parent = in.sm[s.issuer]
			}
		}
		var der []byte
		var err error
		if std && stdCreates {
			der, err = x509.CreateCertificate(libR, tm, parent.(*x509.Certificate), keys[s.key].pub, priv)
		} else {
			if pi := mon.Try(func() { der, err = smx509.CreateCertificate(libR, tm, parent, keys[s.key].pub, priv) }); pi != nil {
				return fmt.Errorf("CreateCertificate(%s) panicked: %v", s.name, pi.Value)
			}
		}
		if err != nil {
			return fmt.Errorf("CreateCertificate(%s): %w", s.name, err)
		}
		in.der[i] = der
		in.byRaw[string(der)] = i
		if std {
			if in.std[i], err = x509.ParseCertificate(der); err != nil {
				return fmt.Errorf("crypto/x509.ParseCertificate(%s): %w", s.name, err)
			}
		}
		if pi := mon.Try(func() { in.sm[i], err = smx509.ParseCertificate(der) }); pi != nil {
			return fmt.Errorf("smx509.ParseCertificate(%s) panicked: %v", s.name, pi.Value)
		}
		if err != nil {
			return fmt.Errorf("smx509.ParseCertificate(%s): %w", s.name, err)
		}
		return nil
	}
	for i := range t.certs {
		if err := create(i, 0); err != nil {
			return nil, err
		}
	}
	return in, nil
}

func (in *instance) smPools(t *topo, viaPEM bool) (roots, inter *smx509.CertPool) {
	roots, inter = smx509.NewCertPool(), smx509.NewCertPool()
	addTo := func(p *smx509.CertPool, i int) {
		if viaPEM { // lazily parsed entries
			p.AppendCertsFromPEM(pem.EncodeToMemory(&pem.Block{Type: "CERTIFICATE", Bytes: in.der[i]}))
		} else {
			p.AddCert(in.sm[i])
		}
	}
	for i, s := range t.certs {
		if s.roots {
			addTo(roots, i)
		}
		if s.inter {
			addTo(inter, i)
		}
	}
	return
}

func (in *instance) stdPools(t *topo) (roots, inter *x509.CertPool) {
	roots, inter = x509.NewCertPool(), x509.NewCertPool()
	for i, s := range t.certs {
		if s.roots {
			roots.AddCert(in.std[i])
		}
		if s.inter {
			inter.AddCert(in.std[i])
		}
	}
	return
}

// ---------------------------------------------------------------------------
// Workload
// ---------------------------------------------------------------------------

type query struct {
	target  int
	at      time.Time
	usages  []x509.ExtKeyUsage
	dnsName string // VerifyOptions.DNSName
	maxCmp  int    // VerifyOptions.MaxConstraintComparisions
	noInter bool   // VerifyOptions.Intermediates nil
	extra   bool   // asked of the SM2 instance and of crypto/x509 on the twin only (the queries at the 4 times go to all instances)
}

func usageString(u []x509.ExtKeyUsage) string {
	if u == nil {
		return "default"
	}
	return fmt.Sprint(u)
}

func (q *query) String(t *topo) string {
	s := fmt.Sprintf("Verify(%s#%d, time=%d, usages=%s", t.certs[q.target].name, q.target, q.at.Unix(), usageString(q.usages))
	if q.dnsName != "" {
		s += fmt.Sprintf(", DNSName=%q", q.dnsName)
	}
	if q.maxCmp != 0 {
		s += fmt.Sprintf(", MaxConstraintComparisions=%d", q.maxCmp)
	}
	if q.noInter {
		s += ", Intermediates=nil"
	}
	return s + ")"
}

// usageSets: requested usages with one entry (or none); multiUsageSets: two and three
// entries in several orders, so that a chain can be acceptable because of the first, a
// middle or the last entry only, or of none.
var usageSets = [][]x509.ExtKeyUsage{nil, {x509.ExtKeyUsageAny}, {x509.ExtKeyUsageClientAuth},
	{x509.ExtKeyUsageClientAuth, x509.ExtKeyUsageServerAuth}, {x509.ExtKeyUsageCodeSigning}}

var multiUsageSets = [][]x509.ExtKeyUsage{
	{x509.ExtKeyUsageServerAuth, x509.ExtKeyUsageClientAuth},
	{x509.ExtKeyUsageEmailProtection, x509.ExtKeyUsageClientAuth, x509.ExtKeyUsageServerAuth},
	{x509.ExtKeyUsageCodeSigning, x509.ExtKeyUsageEmailProtection},
	{x509.ExtKeyUsageClientAuth, x509.ExtKeyUsageEmailProtection},
	{x509.ExtKeyUsageServerAuth, x509.ExtKeyUsageCodeSigning, x509.ExtKeyUsageClientAuth},
	{x509.ExtKeyUsageTimeStamping, x509.ExtKeyUsageOCSPSigning},
	{x509.ExtKeyUsageCodeSigning, x509.ExtKeyUsageAny},
}

// hostCandidates: host names to ask for, matching and not matching the certificate.
func hostCandidates(s *certSpec, r *mon.Rand) []string {
	out := []string{"other.example.net", s.name, "10.9.8.6"}
	for _, d := range s.dns {
		if strings.HasPrefix(d, "*.") {
			out = append(out, "a"+d[1:], "A"+strings.ToUpper(d[1:])+".", d[2:], "a.b"+d[1:], "a"+d[1:]+".example.net")
		} else {
			out = append(out, d, strings.ToUpper(d), d+".", "sub."+d, d+".example.net", "x"+d)
		}
	}
	for _, ip := range s.ips {
		out = append(out, ip.String(), "["+ip.String()+"]")
	}
	return out
}

func (t *topo) queries(r *mon.Rand) []query {
	var qs []query
	anyNC := false
	for _, s := range t.certs {
		anyNC = anyNC || s.hasNC()
	}
	pickUsage := func() []x509.ExtKeyUsage {
		if t.ekuVaried {
			if r.Intn(3) > 0 {
				return multiUsageSets[r.Intn(len(multiUsageSets))]
			}
			return usageSets[r.Intn(len(usageSets))]
		}
		switch r.Intn(12) {
		case 0:
			return usageSets[r.Intn(len(usageSets))]
		case 1:
			return multiUsageSets[r.Intn(len(multiUsageSets))]
		}
		return usageSets[r.Intn(2)]
	}
	for i, s := range t.certs {
		if !s.target {
			continue
		}
		times := []time.Time{t0, t0.Add(time.Duration(r.Range(-20*86400, 20*86400)) * time.Second)}
		// boundaries of a certificate of the topology, far past, far future
		b := t.certs[r.Intn(len(t.certs))]
		cands := []time.Time{b.na, b.na.Add(time.Second), b.nb, b.nb.Add(-time.Second),
			t0.Add(-1000 * day), t0.Add(1000 * day), s.na, s.nb.Add(-time.Second)}
		p := r.Perm(len(cands))
		times = append(times, cands[p[0]], cands[p[1]])
		times = append(times, t.times...)
		for _, at := range times {
			qs = append(qs, query{target: i, at: at, usages: pickUsage()})
		}
		if t.ekuVaried {
			// a sample of the single-entry and of the multi-entry sets at the nominal time (more
			// of them when the recipe is about usages than when the usages were sprinkled on another recipe)
			ns, nm := 0, 2
			if t.ekuRecipe {
				ns, nm = 3, 3
			}
			sp, mp := r.Perm(len(usageSets)), r.Perm(len(multiUsageSets))
			for _, k := range sp[:ns] {
				qs = append(qs, query{target: i, at: t0, usages: usageSets[k], extra: true})
			}
			for _, k := range mp[:nm] {
				qs = append(qs, query{target: i, at: t0, usages: multiUsageSets[k], extra: true})
			}
		}
		// the other fields of VerifyOptions
		if r.Intn(4) == 0 {
			qs = append(qs, query{target: i, at: t0, usages: usageSets[r.Intn(2)], noInter: true, extra: r.Bool()})
		}
		if !t.noHost && r.Intn(4) == 0 {
			hc := hostCandidates(s, r)
			for k := 0; k < 2; k++ {
				qs = append(qs, query{target: i, at: t0, usages: usageSets[1], dnsName: hc[r.Intn(len(hc))], extra: k > 0})
			}
		}
		if anyNC {
			// comparison bounds around the largest number any chain of the target can need
			need := 0
			for _, path := range t.allPaths(i) {
				for k := 1; k < len(path); k++ {
					if ca := t.certs[path[k]]; ca.hasNC() {
						var below []*certSpec
						for _, j := range path[:k] {
							below = append(below, t.certs[j])
						}
						if n := ncNeed(ca, below); n > need {
							need = n
						}
					}
				}
			}
			if need > 0 {
				for _, m := range []int{need, need - 1, 1, need + 1}[:r.Range(2, 4)] {
					if m > 0 {
						qs = append(qs, query{target: i, at: t0, usages: usageSets[1], maxCmp: m, extra: m != need})
					}
				}
			}
		}
	}
	return qs
}

func pathString(t *topo, p []int) string {
	var s []string
	for _, i := range p {
		s = append(s, fmt.Sprintf("%s#%d", t.certs[i].name, i))
	}
	return strings.Join(s, " <- ")
}

func chainSet(t *topo, cs [][]int) string {
	var s []string
	for _, p := range cs {
		s = append(s, pathString(t, p))
	}
	sort.Strings(s)
	return strings.Join(s, " | ")
}

func (t *topo) describe() string {
	var b strings.Builder
	for i, s := range t.certs {
		fmt.Fprintf(&b, "[#%d %s key=%d issuer=%d", i, s.name, s.key, s.issuer)
		if s.fakeIssuer != "" {
			fmt.Fprintf(&b, " claims-issuer=%q", s.fakeIssuer)
		}
		fmt.Fprintf(&b, " ca=%v bc=%v", s.ca, s.bcValid)
		if s.maxPath >= 0 {
			fmt.Fprintf(&b, " pathLen=%d", s.maxPath)
		}
		fmt.Fprintf(&b, " ku=%#x", int(s.ku))
		if len(s.eku) > 0 || s.unkEKU {
			fmt.Fprintf(&b, " eku=%v unk=%v", s.eku, s.unkEKU)
		}
		fmt.Fprintf(&b, " %d..%d", s.nb.Unix(), s.na.Unix())
		if len(s.dns)+len(s.emails)+len(s.uris)+len(s.ips) > 0 {
			fmt.Fprintf(&b, " san=%v%v%v%v", s.dns, s.emails, s.uris, s.ips)
		}
		if s.hasNC() {
			fmt.Fprintf(&b, " nc=p%v%v%v%v/x%v%v%v%v", s.pDNS, s.pMail, s.pURI, netStrings(s.pIP), s.xDNS, s.xMail, s.xURI, netStrings(s.xIP))
		}
		if s.crit {
			b.WriteString(" critical-ext")
		}
		b.WriteString(s.describeHand())
		if s.roots {
			b.WriteString(" ROOTS")
		}
		if s.inter {
			b.WriteString(" INTER")
		}
		if s.target {
			b.WriteString(" TARGET")
		}
		b.WriteString("] ")
	}
	return b.String()
}

func chains(x *mon.Ctx) {
	if err := selfTest(); err != nil {
		x.HarnessError("%v", err)
	}
	n := x.Scale(4000, 50000)
	for i := 0; i < n; i++ {
		c := x.Begin("topology #%d recipe=%s (generated from the case PRNG; built with SM2 keys, with mixed key types and as ECDSA twin for crypto/x509, created by %s)", i, recipeName(i), []string{"smx509", "crypto/x509"}[i%2])
		if c == nil {
			continue
		}
		runTopology(c, i)
		c.End()
	}
	// second part: the systematic enumeration of hand-written extensions, unevaluable names and
	// validity boundaries (critext.go), judged by the same machinery
	extensionCases(x)
}

func recipeName(i int) string {
	m := i % (len(mutators) + mixSlots)
	if m < len(mutators) {
		return mutators[m].name
	}
	return "mix"
}

func runTopology(c *mon.Case, i int) {
	splitLibRand(c)
	runTopo(c, genTopo(c.R, i), i)
}

// runTopo builds the three instances of a generated topology, asks its queries and
// judges the answers (ground truth, metamorphic relation, twin differential).
func runTopo(c *mon.Case, t *topo, i int) {
	r := c.R
	c.Detail("topology", t.describe())
	c.Detail("notes", strings.Join(t.notes, "; "))

	// key tables
	sm2Keys := make([]key, t.nkeys)
	ecKeys := make([]key, t.nkeys)
	mixKeys := make([]key, t.nkeys)
	rsaUsed := 0
	mixKinds := ""
	for k := 0; k < t.nkeys; k++ {
		var err error
		if sm2Keys[k], err = newKey(r, kSM2, 0); err != nil {
			c.Fail("reject", "key generation: %v", err)
			return
		}
		ecKeys[k], _ = newKey(r, kP256, 0)
		kind := []keyKind{kSM2, kSM2, kP256, kP256, kEd25519, kEd25519, kRSA, kRSA, kP384}[r.Intn(9)]
		if kind == kRSA {
			if rsaUsed == 3 {
				kind = kP256
			} else {
				rsaUsed++
			}
		}
		mixKeys[k], _ = newKey(r, kind, rsaUsed)
		mixKinds += kind.String() + " "
	}
	// every third topology carries one structured key (short public coordinate or scalar,
	// structkeys.go) in the SM2 and in the ECDSA key table
	if i%3 == 0 {
		slot, cl := (i/3)%t.nkeys, structClass((i/3)%int(nStructClasses))
		sm2Keys[slot], ecKeys[slot] = structKey(kSM2, cl), structKey(kP256, cl)
		c.Detail("structured key", fmt.Sprintf("slot %d class %v", slot, cl))
		c.Event("topologies_with_structured_key", 1)
	}
	c.Detail("mixed-instance key kinds", mixKinds)

	var insts []*instance
	refusedSM := false
	for _, b := range []struct {
		label string
		keys  []key
		std   bool
	}{{"sm2", sm2Keys, false}, {"mixed", mixKeys, false}, {"ecdsa-twin", ecKeys, true}} {
		in, err := t.build(c, b.label, b.keys, b.std, i%2 == 1)
		if err != nil && t.buildMayFail {
			// a hand-written extension value that the parser may refuse: refusal is an acceptable answer,
			// but it must not depend on the key types
			c.Event("instance_refused_at_creation_or_parsing/"+b.label, 1)
			c.Detail("refused "+b.label, err.Error())
			if b.std {
				insts = append(insts, nil)
				if !refusedSM {
					c.Event("value_accepted_by_smx509_and_refused_by_crypto/x509(observed)", 1)
				}
				continue
			}
			if len(insts) > 0 && !refusedSM {
				c.Fail("mismatch", "instance %s refuses (%v) what the instance with SM2 keys accepts", b.label, err)
			}
			refusedSM = true
			insts = append(insts, nil)
			continue
		}
		if err == nil && refusedSM && !b.std {
			c.Fail("mismatch", "instance %s accepts what the instance with SM2 keys refuses", b.label)
			return
		}
		if err != nil {
			if b.std && i%2 == 1 {
				c.Inconclusive("twin instance could not be created by crypto/x509: %v", err)
				insts = append(insts, nil)
				continue
			}
			c.Fail("reject", "instance %s of a well-formed topology could not be created/parsed: %v", b.label, err)
			return
		}
		insts = append(insts, in)
		c.Event("certificates_created", len(in.der))
	}
	if refusedSM {
		if insts[2] != nil {
			c.Event("value_refused_by_smx509_and_accepted_by_crypto/x509(observed)", 1)
		}
		c.Class("%s/depth%d/certs%d/%s", t.recipe, t.depth, len(t.certs), "refused-at-parsing")
		return
	}
	viaPEM := r.Bool()
	// pool objects: built once per instance and used by every query of the topology (lazily
	// parsed entries are then used a second time, a pool serves many Verify calls), or
	// built afresh for every query
	reuse := r.Intn(4) > 0
	type poolPair struct{ roots, inter *smx509.CertPool }
	cache := map[string]poolPair{}
	poolsOf := func(in *instance, viaPEM bool) (*smx509.CertPool, *smx509.CertPool) {
		key := fmt.Sprint(in.label, viaPEM)
		if pp, ok := cache[key]; ok && reuse {
			return pp.roots, pp.inter
		}
		ro, it := in.smPools(t, viaPEM)
		cache[key] = poolPair{ro, it}
		return ro, it
	}
	if reuse {
		c.Event("topologies_with_pools_reused_by_all_queries", 1)
	}
	qs := t.queries(r)
	verdicts := make([]byte, 0, len(qs))
	anyValid, anyInvalid := false, false
	multiChainMultiUsage := 0
	for qi := range qs {
		q := &qs[qi]
		t.mInter = nil
		if q.noInter {
			t.mInter = make([]bool, len(t.certs))
			c.Event("queries_without_intermediates_pool", 1)
		}
		if q.dnsName != "" {
			c.Event("queries_with_DNSName", 1)
		}
		if q.maxCmp != 0 {
			c.Event("queries_with_MaxConstraintComparisions", 1)
		}
		amb := t.unjudged != ""
		paths := t.allPaths(q.target)
		var validStrict [][]int
		for _, p := range paths {
			if t.trivial(p) && t.pathValid(p, q, true, &amb) == "" {
				validStrict = append(validStrict, p)
			}
		}
		if len(q.usages) > 1 && len(paths) > 1 {
			multiChainMultiUsage++
		}
		qd := q.String(t)
		var smSet string
		var smOK, smDone bool
		for k, in := range insts[:2] {
			if k > 0 && q.extra {
				break
			}
			roots, inter := poolsOf(in, viaPEM)
			if q.noInter {
				inter = nil
			}
			got, ok, done := verifySM(c, t, in, in.sm[q.target], roots, inter, q, qd, validStrict, &amb, true)
			if !done {
				continue
			}
			if k == 0 {
				smSet, smOK, smDone = got, ok, true
				if ok {
					verdicts = append(verdicts, '1')
				} else {
					verdicts = append(verdicts, '0')
				}
			} else if smDone && (ok != smOK || got != smSet) {
				// key type must not change the verdict (metamorphic relation inside smx509)
				c.Fail("mismatch", "%s: instance with SM2 keys gives ok=%v chains {%s}, instance with mixed key types gives ok=%v chains {%s}", qd, smOK, smSet, ok, got)
			}
			c.Event("metamorphic_comparisons", 1)
		}
		if len(validStrict) > 0 {
			anyValid = true
		} else {
			anyInvalid = true
		}
		if !smDone {
			continue
		}
		// twin instance through crypto/x509
		if in := insts[2]; in != nil {
			sr, si := in.stdPools(t)
			if q.noInter {
				si = nil
			}
			var sc [][]*x509.Certificate
			var serr error
			if pi := mon.Try(func() {
				sc, serr = in.std[q.target].Verify(x509.VerifyOptions{Roots: sr, Intermediates: si, CurrentTime: q.at, KeyUsages: q.usages,
					DNSName: q.dnsName, MaxConstraintComparisions: q.maxCmp})
			}); pi != nil {
				c.Inconclusive("crypto/x509 panicked on the twin instance: %v", pi.Value)
				continue
			}
			var idx [][]int
			for _, ch := range sc {
				var p []int
				for _, ce := range ch {
					p = append(p, in.byRaw[string(ce.Raw)])
				}
				idx = append(idx, p)
			}
			stdSet, stdOK := chainSet(t, idx), serr == nil
			if t.noTwin {
				c.Event("twin_verdicts_not_compared(extension that other toolchains evaluate)", 1)
				continue
			}
			c.Event("stdlib_differential_comparisons", 1)
			if stdOK != smOK || stdSet != smSet {
				c.Fail("mismatch", "%s: smx509 on the SM2 instance gives ok=%v chains {%s}; crypto/x509 on the ECDSA twin gives ok=%v chains {%s} (err %v)", qd, smOK, smSet, stdOK, stdSet, serr)
			}
			if !q.extra {
				// the twin's DER parsed and verified by smx509 itself
				roots, inter := poolsOf(in, !viaPEM)
				if q.noInter {
					inter = nil
				}
				got, ok, done := verifySM(c, t, in, in.sm[q.target], roots, inter, q, qd+" [ECDSA twin through smx509]", validStrict, &amb, false)
				if done && (ok != stdOK || got != stdSet) {
					c.Fail("mismatch", "%s: same ECDSA certificates: smx509 ok=%v chains {%s}, crypto/x509 ok=%v chains {%s}", qd, ok, got, stdOK, stdSet)
				}
			}
		}
		if amb {
			c.Event("queries_with_ambiguous_host_constraint(not judged by the model)", 1)
		}
	}
	t.mInter = nil
	outcome := "none-valid"
	if anyValid && anyInvalid {
		outcome = "both"
	} else if anyValid {
		outcome = "all-valid"
	}
	c.Class("%s/depth%d/certs%d/%s", t.recipe, t.depth, len(t.certs), outcome)
	c.Event("queries", len(qs))
	c.Event("queries_with_several_usages_and_several_candidate_chains", multiChainMultiUsage)
	dk := t.digestKey
	if dk == "" {
		dk = "topo"
	}
	c.Digest(fmt.Sprintf("%s/%d", dk, i), verdicts)
}

// verifySM runs smx509 Verify on one instance and judges the result against the
// ground truth. It returns the canonical chain set, the verdict and whether the
// call completed.
func verifySM(c *mon.Case, t *topo, in *instance, leaf *smx509.Certificate, roots, inter *smx509.CertPool, q *query, qd string,
	validStrict [][]int, amb *bool, count bool) (string, bool, bool) {
	var got [][]*smx509.Certificate
	var err error
	usages := append([]x509.ExtKeyUsage(nil), q.usages...) // the caller's list, which Verify must leave alone
	opts := smx509.VerifyOptions{Roots: roots, Intermediates: inter, CurrentTime: q.at, KeyUsages: usages,
		DNSName: q.dnsName, MaxConstraintComparisions: q.maxCmp}
	if !c.Call(qd+" on instance "+in.label, func() { got, err = leaf.Verify(opts) }) {
		return "", false, false
	}
	if err != nil && strings.Contains(err.Error(), "signature check attempts limit") {
		c.Inconclusive("%s: signature check budget of Verify exhausted", qd)
		return "", false, false
	}
	if count {
		c.Event("verify_calls", 1)
	}
	if fmt.Sprint(usages) != fmt.Sprint(q.usages) {
		c.Fail("mismatch", "%s on %s: Verify changed the caller's VerifyOptions.KeyUsages from %v to %v", qd, in.label, q.usages, usages)
	}
	var idx [][]int
	if err == nil {
		if len(got) == 0 {
			c.Fail("mismatch", "%s on %s: nil error but no chain", qd, in.label)
		}
		for _, ch := range got {
			var p []int
			known := true
			for _, ce := range ch {
				j, ok := -1, false
				if ce != nil {
					j, ok = in.byRaw[string(ce.Raw)]
				}
				known = known && ok
				p = append(p, j)
			}
			if !known || len(p) == 0 || p[0] != q.target {
				c.Fail("accept", "%s on %s: returned chain contains a certificate that is not part of the topology or does not start at the leaf: %v", qd, in.label, p)
				continue
			}
			idx = append(idx, p)
			// soundness: every link and every rule, against the ground truth
			lamb := t.unjudged != ""
			why := t.pathValid(p, q, false, &lamb)
			if lamb {
				*amb = true
				continue
			}
			c.Event("chains_checked_link_by_link", 1)
			if len(got) > 1 {
				c.Event("chains_checked_link_by_link/of_a_multi_chain_answer", 1)
			}
			if why != "" {
				c.Fail("accept", "%s on instance %s returned the chain %s which the ground truth refuses: %s", qd, in.label, pathString(t, p), why)
			}
		}
		// the returned slices belong to the caller: overwriting them must not disturb later calls
		for _, ch := range got {
			for j := range ch {
				ch[j] = nil
			}
		}
		c.Event("verdict/chain_returned", 1)
	} else {
		if len(got) != 0 {
			c.Fail("mismatch", "%s on %s: error %v together with %d chains", qd, in.label, err, len(got))
		}
		c.Event("verdict/refused", 1)
		// completeness
		if len(validStrict) > 0 && !*amb {
			c.Fail("reject", "%s on instance %s failed (%v) although a valid chain exists: %s", qd, in.label, err, pathString(t, validStrict[0]))
		}
	}
	return chainSet(t, idx), err == nil, true
}
