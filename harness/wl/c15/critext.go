package c15

import (
	"crypto/x509/pkix"
	"encoding/asn1"
	"fmt"
	"net"
	"strings"
	"time"

	"verifh/mon"
	"verifh/wl/reg"
)

// ---------------------------------------------------------------------------
// Second part of workload c15.chains (alone: c15.extensions): extensions written by hand (ExtraExtensions) on the
// certificates of a generated PKI, enumerated systematically.
//
// The clause of the property that is decided: chain verification returns a chain
// only if ... name constraints hold. A CRITICAL extension that the verifier cannot
// evaluate (an unknown extension; nameConstraints with a GeneralName form outside
// dNSName / rfc822Name / iPAddress / URI on either side; a subjectAltName without
// any name of those forms; policy constraints, which smx509 does not process) means
// that the constraint cannot be shown to hold: no chain may contain the certificate,
// whatever its position (target, intermediate, trust anchor). The same extension
// marked non-critical must not stop chain building. The verdict of the model is
// confirmed by crypto/x509 on the ECDSA twin of the same PKI and by the instance
// with mixed key types (machinery of c15.chains).
// ---------------------------------------------------------------------------

// The check runs the enumeration as the second part of c15.chains (after its generated
// topologies); c15.extensions is the enumeration alone, for development and replay.
func init() { reg.Register("c15.extensions", "C15", extensions) }

// extSpec is one hand-written extension with the verdict the property gives it.
type extSpec struct {
	id       asn1.ObjectIdentifier
	critical bool
	value    []byte
	what     string
	refuse   bool // critical and not evaluated by the verifier: the certificate must not be part of a returned chain
}

// gnForm is one GeneralName (complete DER) of a form the verifier does not evaluate.
type gnForm struct {
	name string
	der  []byte
}

// ---- DER by hand ----------------------------------------------------------

func derLen(n int) []byte {
	switch {
	case n < 128:
		return []byte{byte(n)}
	case n < 256:
		return []byte{0x81, byte(n)}
	}
	return []byte{0x82, byte(n >> 8), byte(n)}
}

func tlv(tag byte, parts ...[]byte) []byte {
	n := 0
	for _, p := range parts {
		n += len(p)
	}
	out := append([]byte{tag}, derLen(n)...)
	for _, p := range parts {
		out = append(out, p...)
	}
	return out
}

func oidDER(o asn1.ObjectIdentifier) []byte {
	b, err := asn1.Marshal(o)
	if err != nil {
		panic(err)
	}
	return b
}

func arc(sub ...int) asn1.ObjectIdentifier {
	return append(append(asn1.ObjectIdentifier{}, oidVerifArc...), sub...)
}

var (
	oidNameConstraints = asn1.ObjectIdentifier{2, 5, 29, 30}
	oidSubjectAltName  = asn1.ObjectIdentifier{2, 5, 29, 17}
)

// opaqueForms: the GeneralName alternatives (RFC 5280 4.2.1.6) outside the four the
// verifier evaluates, and a context tag that is no alternative at all.
var opaqueForms = []gnForm{
	// otherName [0] { type-id, [0] EXPLICIT value }
	{"otherName", tlv(0xA0, oidDER(asn1.ObjectIdentifier{1, 3, 6, 1, 4, 1, 311, 20, 2, 3}), tlv(0xA0, tlv(0x0C, []byte("user@example.com"))))},
	// x400Address [3] IMPLICIT ORAddress { built-in-standard-attributes {} }
	{"x400Address", tlv(0xA3, tlv(0x30))},
	// directoryName [4] EXPLICIT Name
	{"directoryName", tlv(0xA4, tlv(0x30, tlv(0x31, tlv(0x30, oidDER(asn1.ObjectIdentifier{2, 5, 4, 10}), tlv(0x0C, []byte("verif-pki"))))))},
	// ediPartyName [5] { partyName [1] DirectoryString }
	{"ediPartyName", tlv(0xA5, tlv(0xA1, tlv(0x0C, []byte("party"))))},
	// registeredID [8] IMPLICIT OBJECT IDENTIFIER
	{"registeredID", tlv(0x88, []byte{0x2A, 0x03, 0x04})},
	// [9]: not an alternative of GeneralName
	{"tag9", tlv(0x89, []byte{0x00})},
}

// ---- hand-written nameConstraints and subjectAltName -----------------------

func (s *certSpec) hasOpaqueNC() bool { return len(s.ncP)+len(s.ncX) > 0 }

func (s *certSpec) ncByHand() bool {
	return s.ncHand || s.hasOpaqueNC() || s.ncSuffix != nil || s.ncRaw != nil
}

func (s *certSpec) ncCritical() bool { return s.ncCrit != 2 }

func ipNetDER(n *net.IPNet) []byte {
	ip := n.IP
	if v4 := ip.To4(); v4 != nil && len(n.Mask) == 4 {
		ip = v4
	}
	return tlv(0x87, ip, n.Mask)
}

// subtrees encodes one GeneralSubtrees value: the evaluated forms in the order
// CreateCertificate uses (dNSName, iPAddress, rfc822Name, URI), the other forms before
// or after them.
func (s *certSpec) subtrees(dns []string, ips []*net.IPNet, mails, uris []string, opaque []gnForm) []byte {
	var bases [][]byte
	for _, d := range dns {
		bases = append(bases, tlv(0x82, []byte(d)))
	}
	for _, n := range ips {
		bases = append(bases, ipNetDER(n))
	}
	for _, m := range mails {
		bases = append(bases, tlv(0x81, []byte(m)))
	}
	for _, u := range uris {
		bases = append(bases, tlv(0x86, []byte(u)))
	}
	var op [][]byte
	for _, f := range opaque {
		op = append(op, f.der)
	}
	if s.ncFirst {
		bases = append(op, bases...)
	} else {
		bases = append(bases, op...)
	}
	var out []byte
	for _, b := range bases {
		out = append(out, tlv(0x30, b, s.ncSuffix)...)
	}
	return out
}

func (s *certSpec) ncDER() []byte {
	if s.ncRaw != nil {
		return s.ncRaw
	}
	var body []byte
	if p := s.subtrees(s.pDNS, s.pIP, s.pMail, s.pURI, s.ncP); len(p) > 0 {
		body = append(body, tlv(0xA0, p)...)
	}
	if x := s.subtrees(s.xDNS, s.xIP, s.xMail, s.xURI, s.ncX); len(x) > 0 {
		body = append(body, tlv(0xA1, x)...)
	}
	return tlv(0x30, body)
}

func (s *certSpec) sanByHand() bool { return len(s.sanOpaque) > 0 }

func (s *certSpec) sanDER() []byte {
	var names [][]byte // the order of CreateCertificate: dNSName, rfc822Name, iPAddress, URI
	for _, d := range s.dns {
		names = append(names, tlv(0x82, []byte(d)))
	}
	for _, m := range s.emails {
		names = append(names, tlv(0x81, []byte(m)))
	}
	for _, ip := range s.ips {
		names = append(names, tlv(0x87, ip))
	}
	for _, u := range s.uris {
		names = append(names, tlv(0x86, []byte(u)))
	}
	var op [][]byte
	for _, f := range s.sanOpaque {
		op = append(op, f.der)
	}
	if s.sanFirst {
		names = append(op, names...)
	} else {
		names = append(names, op...)
	}
	return tlv(0x30, names...)
}

// handWritten: the ExtraExtensions of the template. An extension given here replaces
// the one CreateCertificate would derive from the template members (documented rule).
func (s *certSpec) handWritten() []pkix.Extension {
	var out []pkix.Extension
	if s.sanByHand() {
		out = append(out, pkix.Extension{Id: oidSubjectAltName, Critical: s.sanCrit == 1, Value: s.sanDER()})
	}
	if s.ncByHand() {
		out = append(out, pkix.Extension{Id: oidNameConstraints, Critical: s.ncCritical(), Value: s.ncDER()})
	}
	for _, e := range s.ext {
		out = append(out, pkix.Extension{Id: e.id, Critical: e.critical, Value: e.value})
	}
	return out
}

// unevaluable: why no chain may contain the certificate, or "".
func (s *certSpec) unevaluable() string {
	if s.crit {
		return "an unknown critical extension"
	}
	for _, e := range s.ext {
		if e.refuse {
			return "the critical extension " + e.what + ", which the verifier does not evaluate"
		}
	}
	if s.ncCritical() {
		if s.hasOpaqueNC() {
			return fmt.Sprintf("critical name constraints with name forms the verifier cannot evaluate (permitted %s, excluded %s)", formNames(s.ncP), formNames(s.ncX))
		}
		if s.ncRaw != nil && s.ncInvalid {
			return "a critical nameConstraints extension whose value is not a NameConstraints value"
		}
	}
	if s.sanByHand() && s.sanCrit == 1 && len(s.dns)+len(s.emails)+len(s.ips)+len(s.uris) == 0 {
		return fmt.Sprintf("a critical subjectAltName with only name forms the verifier does not evaluate (%s)", formNames(s.sanOpaque))
	}
	return ""
}

func formNames(fs []gnForm) string {
	var n []string
	for _, f := range fs {
		n = append(n, f.name)
	}
	return "[" + strings.Join(n, " ") + "]"
}

func (s *certSpec) describeHand() string {
	var b strings.Builder
	if s.ncByHand() {
		fmt.Fprintf(&b, " nc-by-hand(critical=%v other-forms p%s x%s first=%v suffix=%x raw=%x invalid=%v)", s.ncCritical(), formNames(s.ncP), formNames(s.ncX), s.ncFirst, s.ncSuffix, s.ncRaw, s.ncInvalid)
	} else if s.hasNC() && !s.ncCritical() {
		b.WriteString(" nc-not-critical")
	}
	if s.sanByHand() {
		fmt.Fprintf(&b, " san-by-hand(critical=%v other-forms %s first=%v)", s.sanCrit == 1, formNames(s.sanOpaque), s.sanFirst)
	}
	for _, e := range s.ext {
		fmt.Fprintf(&b, " ext(%s critical=%v must-refuse=%v)", e.what, e.critical, e.refuse)
	}
	return b.String()
}

// ---- other extensions -------------------------------------------------------

// extKind is an extension identifier with a well-formed value. handled: the parser
// documents it as processed (a critical one does not end up in UnhandledCriticalExtensions).
// policy: crypto/x509 of later toolchains evaluates it although smx509 does not: the
// twin's verdict is not compared.
type extKind struct {
	name    string
	id      asn1.ObjectIdentifier
	value   []byte
	handled bool
	policy  bool
}

var extKinds = []extKind{
	{name: "private-arc", id: arc(9, 1), value: []byte{5, 0}},
	{name: "policyConstraints(requireExplicitPolicy=0)", id: asn1.ObjectIdentifier{2, 5, 29, 36}, value: tlv(0x30, tlv(0x80, []byte{0})), policy: true},
	{name: "policyConstraints(inhibitPolicyMapping=1)", id: asn1.ObjectIdentifier{2, 5, 29, 36}, value: tlv(0x30, tlv(0x81, []byte{1})), policy: true},
	{name: "inhibitAnyPolicy(0)", id: asn1.ObjectIdentifier{2, 5, 29, 54}, value: tlv(0x02, []byte{0}), policy: true},
	{name: "policyMappings", id: asn1.ObjectIdentifier{2, 5, 29, 33}, value: tlv(0x30, tlv(0x30, oidDER(arc(1, 1)), oidDER(arc(1, 2)))), policy: true},
	{name: "subjectDirectoryAttributes", id: asn1.ObjectIdentifier{2, 5, 29, 9}, value: tlv(0x30, tlv(0x30, oidDER(asn1.ObjectIdentifier{2, 5, 4, 6}), tlv(0x31, tlv(0x13, []byte("CN")))))},
	{name: "issuerAltName", id: asn1.ObjectIdentifier{2, 5, 29, 18}, value: tlv(0x30, tlv(0x82, []byte("issuer.example.com")))},
	{name: "privateKeyUsagePeriod", id: asn1.ObjectIdentifier{2, 5, 29, 16}, value: tlv(0x30, tlv(0x80, []byte("20200101000000Z")))},
	{name: "freshestCRL", id: asn1.ObjectIdentifier{2, 5, 29, 46}, value: tlv(0x30, tlv(0x30, tlv(0xA0, tlv(0xA0, tlv(0x86, []byte("http://crl.example.com/delta.crl"))))))},
	{name: "subjectInfoAccess", id: asn1.ObjectIdentifier{1, 3, 6, 1, 5, 5, 7, 1, 11}, value: tlv(0x30, tlv(0x30, oidDER(asn1.ObjectIdentifier{1, 3, 6, 1, 5, 5, 7, 48, 5}), tlv(0x86, []byte("http://repo.example.com/"))))},
	{name: "tlsFeature", id: asn1.ObjectIdentifier{1, 3, 6, 1, 5, 5, 7, 1, 24}, value: tlv(0x30, tlv(0x02, []byte{5}))},
	{name: "ctPoison", id: asn1.ObjectIdentifier{1, 3, 6, 1, 4, 1, 11129, 2, 4, 3}, value: []byte{5, 0}},
	{name: "netscapeCertType", id: asn1.ObjectIdentifier{2, 16, 840, 1, 113730, 1, 1}, value: []byte{3, 2, 6, 0x40}},
	// identifiers next to the ones the parser knows: a longer one, a shorter one, last arc + 128, another first arcs
	{name: "id-ce-keyUsage.1", id: asn1.ObjectIdentifier{2, 5, 29, 15, 1}, value: []byte{3, 2, 1, 6}},
	{name: "id-ce", id: asn1.ObjectIdentifier{2, 5, 29}, value: []byte{5, 0}},
	{name: "id-ce.147(basicConstraints+128)", id: asn1.ObjectIdentifier{2, 5, 29, 147}, value: tlv(0x30, []byte{1, 1, 0xFF})},
	{name: "id-ce.158(nameConstraints+128)", id: asn1.ObjectIdentifier{2, 5, 29, 158}, value: tlv(0x30, tlv(0xA0, tlv(0x30, tlv(0x82, []byte("example.com")))))},
	{name: "2.5.28.19", id: asn1.ObjectIdentifier{2, 5, 28, 19}, value: tlv(0x30, []byte{1, 1, 0xFF})},
	{name: "1.5.29.17", id: asn1.ObjectIdentifier{1, 5, 29, 17}, value: tlv(0x30, tlv(0x82, []byte("www.example.com")))},
	// processed by the parser: must not stop chain building when critical
	{name: "certificatePolicies", id: asn1.ObjectIdentifier{2, 5, 29, 32}, value: tlv(0x30, tlv(0x30, oidDER(arc(1, 1)))), handled: true},
	{name: "cRLDistributionPoints", id: asn1.ObjectIdentifier{2, 5, 29, 31}, value: tlv(0x30, tlv(0x30, tlv(0xA0, tlv(0xA0, tlv(0x86, []byte("http://crl.example.com/ca.crl")))))), handled: true},
}

func (k extKind) spec(critical bool) extSpec {
	return extSpec{id: k.id, critical: critical, value: k.value, what: fmt.Sprintf("%s (%v)", k.name, k.id), refuse: critical && !k.handled}
}

// unevaluableExt puts, on one certificate of the base chain, one of the things a
// verifier cannot evaluate, critical: used by the recipe critical-extension of genTopo
// (c15.chains, c15.pools) next to the plain unknown extension.
func unevaluableExt(t *topo, r *mon.Rand, s *certSpec) {
	switch v := r.Intn(5); {
	case v == 0:
		s.crit = true
		t.notes = append(t.notes, s.name+" has an unknown critical extension")
	case v == 1:
		k := extKinds[r.Intn(len(extKinds))]
		for k.handled {
			k = extKinds[r.Intn(len(extKinds))]
		}
		s.ext = append(s.ext, k.spec(true))
		t.noTwin = t.noTwin || k.policy
		t.notes = append(t.notes, s.name+" has the critical extension "+k.name)
	case v == 2 && !s.ca && len(s.dns)+len(s.emails)+len(s.ips)+len(s.uris) == 0:
		s.sanOpaque, s.sanCrit, s.sanFirst = []gnForm{opaqueForms[r.Intn(len(opaqueForms))]}, 1, r.Bool()
		t.notes = append(t.notes, s.name+" has a critical subjectAltName of the form "+s.sanOpaque[0].name+" only")
	default:
		f := opaqueForms[r.Intn(len(opaqueForms))]
		if r.Intn(3) > 0 {
			s.ncX = append(s.ncX, f)
		} else {
			s.ncP = append(s.ncP, f)
		}
		s.ncFirst = r.Bool()
		t.notes = append(t.notes, fmt.Sprintf("%s has critical name constraints with a %s (permitted %d, excluded %d)", s.name, f.name, len(s.ncP), len(s.ncX)))
	}
}

// ---------------------------------------------------------------------------
// The enumeration
// ---------------------------------------------------------------------------

type extCase struct {
	desc string
	gen  func(r *mon.Rand) *topo
}

// caAt gives a base chain in which the CA at the named position exists and returns it.
func caAt(r *mon.Rand, pos string) (*topo, *certSpec) {
	switch pos {
	case "root":
		t := base(r, r.Intn(3))
		return t, t.root()
	case "issuing-ca": // the intermediate that issued the target
		t := base(r, r.Range(1, 3))
		return t, t.certs[t.chain[len(t.chain)-2]]
	}
	// "upper-ca": an intermediate with a further intermediate below it
	t := base(r, r.Range(2, 3))
	return t, t.certs[t.chain[1]]
}

var caPositions = []string{"root", "issuing-ca", "upper-ca"}

func boolName(b bool, yes, no string) string {
	if b {
		return yes
	}
	return no
}

// ncTypes: for every evaluated name form a permitted subtree, an excluded subtree
// inside of it, and names inside the permitted subtree only, inside the excluded
// subtree, and outside of both. The host constraints are chosen so that RFC 5280 and
// the documented behaviour of Verify read them alike.
var ncTypes = []struct {
	name               string
	perm, excl         string
	in, inExcl, out    string
	otherFamilyOf      int // index of the name form whose "in" name serves as a name of another form
	otherFamilyRefused bool
}{
	{name: "dns", perm: "example.com", excl: "corp.example.com", in: "www.example.com", inExcl: "a.corp.example.com", out: "www.example.org", otherFamilyOf: 1},
	{name: "email", perm: "example.com", excl: "blocked@example.com", in: "user@example.com", inExcl: "blocked@example.com", out: "user@example.org", otherFamilyOf: 4},
	{name: "ipv4", perm: "10.0.0.0/8", excl: "10.1.0.0/16", in: "10.2.3.4", inExcl: "10.1.2.3", out: "192.168.5.5", otherFamilyOf: 3},
	{name: "ipv6", perm: "2001:db8::/32", excl: "2001:db8:1::/48", in: "2001:db8:2::1", inExcl: "2001:db8:1::9", out: "2001:db9::1", otherFamilyOf: 2},
	{name: "uri", perm: ".example.com", excl: "blocked.example.com", in: "https://api.example.com/x", inExcl: "https://blocked.example.com:8443/", out: "https://api.example.org/", otherFamilyOf: 0},
}

func setConstraint(ca *certSpec, ty int, perm, excl bool) {
	k := ncTypes[ty]
	switch k.name {
	case "dns":
		if perm {
			ca.pDNS = append(ca.pDNS, k.perm)
		}
		if excl {
			ca.xDNS = append(ca.xDNS, k.excl)
		}
	case "email":
		if perm {
			ca.pMail = append(ca.pMail, k.perm)
		}
		if excl {
			ca.xMail = append(ca.xMail, k.excl)
		}
	case "uri":
		if perm {
			ca.pURI = append(ca.pURI, k.perm)
		}
		if excl {
			ca.xURI = append(ca.xURI, k.excl)
		}
	default:
		if perm {
			ca.pIP = append(ca.pIP, cidrs([]string{k.perm})...)
		}
		if excl {
			ca.xIP = append(ca.xIP, cidrs([]string{k.excl})...)
		}
	}
}

func addName(s *certSpec, ty int, name string) {
	switch ncTypes[ty].name {
	case "dns":
		s.dns = append(s.dns, name)
	case "email":
		s.emails = append(s.emails, name)
	case "uri":
		s.uris = append(s.uris, name)
	default:
		s.ips = append(s.ips, ips(name)...)
	}
}

func clearNames(s *certSpec) { s.dns, s.emails, s.uris, s.ips = nil, nil, nil, nil }

var nameShapes = []string{"inside", "in-excluded", "outside", "inside+in-excluded", "inside+outside", "other-form", "none"}

// malformed or unusual complete nameConstraints values.
type ncValue struct {
	name    string
	der     []byte
	invalid bool // not a NameConstraints value (RFC 5280 4.2.1.10 / X.690): must never be honoured silently when critical
}

func ncValues() []ncValue {
	dns := func(s string) []byte { return tlv(0x30, tlv(0x82, []byte(s))) }
	ip := func(b ...byte) []byte { return tlv(0x30, tlv(0x87, b)) }
	good := dns("example.com")
	return []ncValue{
		{"empty-sequence", tlv(0x30), true},
		{"permitted-empty", tlv(0x30, tlv(0xA0)), true},
		{"excluded-empty", tlv(0x30, tlv(0xA1)), true},
		{"both-empty", tlv(0x30, tlv(0xA0), tlv(0xA1)), true},
		{"trailing-element", tlv(0x30, tlv(0xA0, good), tlv(0xA2, good)), true},
		{"excluded-before-permitted", tlv(0x30, tlv(0xA1, dns("example.org")), tlv(0xA0, good)), true},
		{"permitted-twice", tlv(0x30, tlv(0xA0, good), tlv(0xA0, good)), true},
		{"bytes-after-value", append(tlv(0x30, tlv(0xA0, good)), 5, 0), true},
		{"empty-subtree", tlv(0x30, tlv(0xA1, tlv(0x30))), true},
		{"subtree-not-a-sequence", tlv(0x30, tlv(0xA1, tlv(0x82, []byte("example.org")))), true},
		{"ip-length-4", tlv(0x30, tlv(0xA1, ip(10, 0, 0, 0))), true},
		{"ip-length-5", tlv(0x30, tlv(0xA1, ip(10, 0, 0, 0, 8))), true},
		{"ip-length-16", tlv(0x30, tlv(0xA1, ip(make([]byte, 16)...))), true},
		{"ip-length-31", tlv(0x30, tlv(0xA1, ip(make([]byte, 31)...))), true},
		{"ip-length-0", tlv(0x30, tlv(0xA1, ip())), true},
		{"ip-mask-with-hole", tlv(0x30, tlv(0xA1, ip(10, 0, 0, 0, 255, 0, 255, 0))), true},
		{"dns-not-ia5", tlv(0x30, tlv(0xA1, dns("ex\xe4mple.org"))), true},
		// unusual, not clearly invalid or read differently by implementations: executed, compared with the other instances and crypto/x509, not judged by the model
		{"permitted-empty+excluded", tlv(0x30, tlv(0xA0), tlv(0xA1, dns("example.org"))), false},
		{"permitted+excluded-empty", tlv(0x30, tlv(0xA0, good), tlv(0xA1)), false},
		{"dns-with-space", tlv(0x30, tlv(0xA1, dns("exa mple.org"))), false},
		{"dns-empty", tlv(0x30, tlv(0xA1, dns(""))), false},
		{"dns-trailing-period", tlv(0x30, tlv(0xA1, dns("example.org."))), false},
		{"uri-is-ip", tlv(0x30, tlv(0xA1, tlv(0x30, tlv(0x86, []byte("192.0.2.1"))))), false},
		{"email-bad-mailbox", tlv(0x30, tlv(0xA1, tlv(0x30, tlv(0x81, []byte("a@b@example.org"))))), false},
		{"ip-all-zero-mask-v4", tlv(0x30, tlv(0xA1, ip(0, 0, 0, 0, 0, 0, 0, 0))), false},
	}
}

// hopelessDomain / hopelessMailbox classify the names family H gives to certificates below a
// constrained CA: 0 = an ordinary name, 2 = cannot be read as a domain name / mailbox at all
// (a space, an empty label in the middle, no "@", an empty part), 1 = debatable (absolute
// form with trailing period, leading period, empty name): never judged by the model.
func hopelessDomain(d string) int {
	if d == "" || strings.HasPrefix(d, ".") || strings.HasSuffix(d, ".") {
		return 1
	}
	if strings.ContainsAny(d, " \t") || strings.Contains(d, "..") {
		return 2
	}
	return 0
}

func hopelessMailbox(m string) int {
	at := strings.LastIndexByte(m, '@')
	if at <= 0 || at == len(m)-1 {
		return 2
	}
	if m[0] == '"' {
		return 0 // quoted local parts are handled by the model (unquoteLocal)
	}
	if strings.ContainsAny(m, " \t") {
		return 2
	}
	return hopelessDomain(m[at+1:])
}

var hopelessNames = []struct {
	email bool
	name  string
}{
	{false, "exa mple.com"}, {false, "www..example.com"}, {false, "www.example.com."}, {false, ".example.com"}, {false, ""}, {false, "www.exam\tple.com"},
	{true, "no-at-sign.example.com"}, {true, "user@"}, {true, "@example.com"}, {true, "us er@example.com"}, {true, "user@exa mple.com"}, {true, "user@example.com."},
}

func wideWindow(s *certSpec, r *mon.Rand) {
	s.nb = t0.Add(-time.Duration(r.Range(500, 900)) * day)
	s.na = t0.Add(time.Duration(r.Range(500, 900)) * day)
}

func extCases() []extCase {
	var cs []extCase
	add := func(gen func(r *mon.Rand) *topo, format string, a ...any) {
		cs = append(cs, extCase{fmt.Sprintf(format, a...), gen})
	}

	// A. nameConstraints with a name form the verifier does not evaluate: side x form x criticality x
	// position of the CA x company of evaluated constraints (all of which the leaf satisfies)
	sides := []string{"permitted", "excluded", "both"}
	company := []string{"alone", "dns-same-side", "dns-other-side", "dns+ip-both-sides"}
	for fi := range opaqueForms {
		for _, side := range sides {
			for _, crit := range []bool{true, false} {
				for _, pos := range caPositions {
					for _, comp := range company {
						if side == "both" && comp == "dns-other-side" {
							continue
						}
						fi, side, crit, pos, comp := fi, side, crit, pos, comp
						add(func(r *mon.Rand) *topo {
							t, ca := caAt(r, pos)
							t.recipe = "nc-form/" + opaqueForms[fi].name + "/" + side + "/" + boolName(crit, "critical", "non-critical") + "/" + pos
							f, f2 := opaqueForms[fi], opaqueForms[(fi+1+r.Intn(len(opaqueForms)-1))%len(opaqueForms)]
							switch side {
							case "permitted":
								ca.ncP = []gnForm{f}
							case "excluded":
								ca.ncX = []gnForm{f}
							default:
								ca.ncP, ca.ncX = []gnForm{f}, []gnForm{f2}
								if r.Bool() {
									ca.ncP, ca.ncX = ca.ncX, ca.ncP
								}
							}
							if r.Intn(4) == 0 { // two forms on one side
								if side == "permitted" {
									ca.ncP = append(ca.ncP, f2)
								} else {
									ca.ncX = append(ca.ncX, f2)
								}
							}
							ca.ncFirst = r.Bool()
							if !crit {
								ca.ncCrit = 2
							}
							leaf := t.leaf()
							clearNames(leaf)
							leaf.dns = []string{"www.example.com"}
							onP := comp == "dns-same-side" && side != "excluded" || comp == "dns-other-side" && side == "excluded" || comp == "dns+ip-both-sides"
							onX := comp == "dns-same-side" && side != "permitted" || comp == "dns-other-side" && side == "permitted" || comp == "dns+ip-both-sides"
							if onP {
								ca.pDNS = []string{pick(r, []string{"example.com", ".example.com", "www.example.com"})}
							}
							if onX {
								ca.xDNS = []string{pick(r, []string{"example.org", ".www.example.com", "corp.example.com"})}
							}
							if comp == "dns+ip-both-sides" {
								ca.pIP, ca.xIP = cidrs([]string{"10.0.0.0/8"}), cidrs([]string{"10.1.0.0/16"})
								leaf.ips = ips("10.2.3.4")
							}
							return t
						}, "nameConstraints with a %s in the %s subtrees (%s), %s, on the %s", opaqueForms[fi].name, side, comp, boolName(crit, "critical", "not critical"), pos)
					}
				}
			}
		}
	}

	// B. other extensions: identifier x criticality x position of the certificate
	for ki := range extKinds {
		for _, crit := range []bool{true, false} {
			for _, pos := range []string{"target", "intermediate", "root", "target-that-is-an-anchor", "one-of-two-versions"} {
				ki, crit, pos := ki, crit, pos
				add(func(r *mon.Rand) *topo {
					k := extKinds[ki]
					var t *topo
					var s *certSpec
					switch pos {
					case "target":
						t = base(r, r.Intn(3))
						s = t.leaf()
					case "intermediate":
						t = base(r, r.Range(1, 3))
						s = t.certs[t.chain[r.Range(1, len(t.chain)-2)]]
					case "root":
						t = base(r, r.Intn(3))
						s = t.root()
					case "target-that-is-an-anchor":
						t = base(r, r.Intn(2))
						s = t.leaf()
						s.roots = true
						if r.Bool() {
							t.root().roots = false
						}
					default:
						// the CA exists in two versions (same name and key), one of them with the extension: the
						// chain through the other one must be found, and only that one
						var x *certSpec
						t, x = caAt(r, caPositions[r.Intn(len(caPositions))])
						s = caSpec(r, x.name, x.key, x.issuer)
						s.roots, s.inter = x.roots, x.inter
						t.add(s)
						if r.Bool() {
							s, x = x, s
						}
					}
					t.recipe = "extension/" + k.name + "/" + boolName(crit, "critical", "non-critical") + "/" + pos
					// one case in three each: an unknown extension that is not critical before / after it
					other := extSpec{id: arc(9, 2), value: tlv(0x04, []byte("verif")), what: "private-arc-2"}
					switch (ki + len(pos)) % 3 {
					case 0:
						s.ext = append(s.ext, other, k.spec(crit))
					case 1:
						s.ext = append(s.ext, k.spec(crit), other)
					default:
						s.ext = append(s.ext, k.spec(crit))
					}
					t.noTwin = k.policy
					return t
				}, "extension %s, %s, on the %s", extKinds[ki].name, boolName(crit, "critical", "not critical"), pos)
			}
		}
	}

	// C. subjectAltName with a name form the verifier does not evaluate: form x criticality x with / without
	// an evaluated name x holder, half of them below a CA with name constraints
	for fi := range opaqueForms {
		for _, crit := range []bool{true, false} {
			for _, with := range []bool{false, true} {
				for hi, holder := range []string{"target", "intermediate", "root"} {
					fi, crit, with, hi, holder := fi, crit, with, hi, holder
					add(func(r *mon.Rand) *topo {
						var t *topo
						var s *certSpec
						switch holder {
						case "target":
							t = base(r, r.Intn(3))
							s = t.leaf()
						case "intermediate":
							t = base(r, r.Range(1, 3))
							s = t.certs[t.chain[r.Range(1, len(t.chain)-2)]]
						default:
							t = base(r, r.Intn(3))
							s = t.root()
						}
						t.recipe = "san-form/" + opaqueForms[fi].name + "/" + boolName(crit, "critical", "non-critical") + "/" + boolName(with, "with-dns", "only") + "/" + holder
						clearNames(t.leaf())
						clearNames(s)
						s.sanOpaque = []gnForm{opaqueForms[fi]}
						if r.Intn(4) == 0 {
							s.sanOpaque = append(s.sanOpaque, opaqueForms[r.Intn(len(opaqueForms))])
						}
						s.sanFirst = r.Bool()
						if crit {
							s.sanCrit = 1
						}
						if with {
							s.dns = []string{"www.example.com"}
						}
						if (fi+hi)%2 == 0 && holder != "root" {
							// a constrained CA above: names of forms without constraint are not restricted
							t.root().pDNS = []string{"example.com"}
							if r.Bool() {
								t.root().xIP = cidrs([]string{"10.1.0.0/16"})
							}
						}
						return t
					}, "subjectAltName with a %s (%s), %s, on the %s", opaqueForms[fi].name, boolName(with, "and a dNSName", "nothing else"), boolName(crit, "critical", "not critical"), holder)
				}
			}
		}
	}

	// D. the evaluated forms: form x side(s) x names of the target x position of the CA; written by hand or by
	// CreateCertificate, critical or not (a constraint that is present is applied either way)
	n := 0
	for ty := range ncTypes {
		for _, side := range sides {
			for _, shape := range nameShapes {
				for _, pos := range caPositions[:2] {
					ty, side, shape, pos, n0 := ty, side, shape, pos, n
					n++
					add(func(r *mon.Rand) *topo {
						t, ca := caAt(r, pos)
						k := ncTypes[ty]
						t.recipe = "nc-sides/" + k.name + "/" + side + "/" + shape + "/" + pos
						setConstraint(ca, ty, side != "excluded", side != "permitted")
						ca.ncHand = n0%2 == 0
						if n0%4 >= 2 {
							ca.ncCrit = 2
						}
						leaf := t.leaf()
						clearNames(leaf)
						for _, part := range strings.Split(shape, "+") {
							switch part {
							case "inside":
								addName(leaf, ty, k.in)
							case "in-excluded":
								addName(leaf, ty, k.inExcl)
							case "outside":
								addName(leaf, ty, k.out)
							case "other-form":
								// a name of another form; for IP constraints an address of the other family whose leading
								// octets are those of an address the subtree contains (address and mask lengths differ:
								// the constraint does not apply to it - it neither matches nor may it be indexed with)
								src := k.in
								if side == "excluded" {
									src = k.inExcl
								}
								switch k.name {
								case "ipv4":
									leaf.ips = append(leaf.ips, append(append(net.IP{}, ips(src)[0]...), 0, 0, 0, 0, 0, 0, 0, 0, 0, 0, 0, 1))
								case "ipv6":
									leaf.ips = append(leaf.ips, append(net.IP{}, ips(src)[0][:4]...))
								default:
									addName(leaf, k.otherFamilyOf, ncTypes[k.otherFamilyOf].in)
								}
							}
						}
						if len(leaf.dns)+len(leaf.emails)+len(leaf.ips)+len(leaf.uris) == 2 && r.Bool() {
							// the name that decides comes first or last
							leaf.dns, leaf.emails, leaf.ips, leaf.uris = rev(leaf.dns), rev(leaf.emails), revIP(leaf.ips), rev(leaf.uris)
						}
						return t
					}, "name constraints of the form %s on the %s side(s) of the %s, target names: %s", ncTypes[ty].name, side, pos, shape)
				}
			}
		}
	}

	// E. complete nameConstraints values that are malformed or unusual: value x criticality x position
	for _, v := range ncValues() {
		for _, crit := range []bool{true, false} {
			for _, pos := range caPositions[:2] {
				v, crit, pos := v, crit, pos
				add(func(r *mon.Rand) *topo {
					t, ca := caAt(r, pos)
					t.recipe = "nc-value/" + v.name + "/" + boolName(crit, "critical", "non-critical") + "/" + pos
					ca.ncRaw, ca.ncInvalid = v.der, v.invalid
					if !crit {
						ca.ncCrit = 2
					}
					t.buildMayFail = true
					if !(v.invalid && crit) {
						t.unjudged = "nameConstraints value " + v.name + " (" + boolName(v.invalid, "malformed but not critical", "unusual") + "): outside the model"
					}
					leaf := t.leaf()
					clearNames(leaf)
					leaf.dns = []string{"www.example.com"}
					leaf.ips = ips("10.2.3.4")
					return t
				}, "nameConstraints value %s, %s, on the %s", v.name, boolName(crit, "critical", "not critical"), pos)
			}
		}
	}

	// F. minimum / maximum fields of a GeneralSubtree (RFC 5280: MUST be 0 / absent; both libraries skip the fields):
	// executed and compared with the other instances and with crypto/x509, not judged by the model
	for si, suffix := range [][]byte{tlv(0x80, []byte{0}), tlv(0x80, []byte{1}), tlv(0x81, []byte{3}), append(tlv(0x80, []byte{1}), tlv(0x81, []byte{3})...)} {
		for _, shape := range []string{"inside", "in-excluded"} {
			for _, crit := range []bool{true, false} {
				si, suffix, shape, crit := si, suffix, shape, crit
				add(func(r *mon.Rand) *topo {
					t, ca := caAt(r, caPositions[r.Intn(2)])
					t.recipe = fmt.Sprintf("nc-distance/%d/%s/%s", si, shape, boolName(crit, "critical", "non-critical"))
					ty := r.Intn(len(ncTypes))
					setConstraint(ca, ty, true, true)
					ca.ncSuffix = suffix
					if !crit {
						ca.ncCrit = 2
					}
					t.unjudged = "GeneralSubtree with minimum/maximum fields: outside the model"
					leaf := t.leaf()
					clearNames(leaf)
					addName(leaf, ty, map[string]string{"inside": ncTypes[ty].in, "in-excluded": ncTypes[ty].inExcl}[shape])
					return t
				}, "name constraints whose subtrees carry the distance fields %x, %s, target name %s", suffix, boolName(crit, "critical", "not critical"), shape)
			}
		}
	}

	// H. names that cannot be read as a domain name / mailbox, below a constrained CA: name x constraint (permitted of
	// the form, excluded of the form, another form only) x position x alone / next to an ordinary name
	for ni := range hopelessNames {
		for _, cons := range []string{"permitted", "excluded", "other-form-only"} {
			for pi, pos := range caPositions[:2] {
				ni, cons, pi, pos := ni, cons, pi, pos
				add(func(r *mon.Rand) *topo {
					t, ca := caAt(r, pos)
					hn := hopelessNames[ni]
					t.recipe = fmt.Sprintf("unreadable-name/%s%d/%s/%s", boolName(hn.email, "email", "dns"), ni, cons, pos)
					t.noHost = true
					ty := 0
					if hn.email {
						ty = 1
					}
					switch cons {
					case "permitted":
						setConstraint(ca, ty, true, r.Bool())
					case "excluded":
						setConstraint(ca, ty, false, true)
					default:
						setConstraint(ca, 2+r.Intn(2), r.Bool(), true)
					}
					ca.ncHand = (ni+pi)%2 == 0
					leaf := t.leaf()
					clearNames(leaf)
					if (ni+pi)%3 == 0 {
						addName(leaf, ty, ncTypes[ty].in)
					}
					addName(leaf, ty, hn.name)
					if r.Bool() {
						leaf.dns, leaf.emails = rev(leaf.dns), rev(leaf.emails)
					}
					return t
				}, "target with the %s %q below name constraints (%s) of the %s", boolName(hopelessNames[ni].email, "rfc822Name", "dNSName"), hopelessNames[ni].name, cons, pos)
			}
		}
	}

	// I. extensions the parser refuses when marked critical (key identifiers, authority information access): refusal or
	// acceptance must not depend on the key types; not judged by the model
	for _, k := range []extKind{
		{name: "subjectKeyIdentifier", id: asn1.ObjectIdentifier{2, 5, 29, 14}, value: tlv(0x04, []byte{1, 2, 3, 4})},
		{name: "authorityKeyIdentifier", id: asn1.ObjectIdentifier{2, 5, 29, 35}, value: tlv(0x30, tlv(0x80, []byte{1, 2, 3, 4}))},
		{name: "authorityInfoAccess", id: asn1.ObjectIdentifier{1, 3, 6, 1, 5, 5, 7, 1, 1}, value: tlv(0x30, tlv(0x30, oidDER(asn1.ObjectIdentifier{1, 3, 6, 1, 5, 5, 7, 48, 1}), tlv(0x86, []byte("http://ocsp.example.com"))))},
	} {
		for _, pos := range []string{"target", "root"} {
			k, pos := k, pos
			add(func(r *mon.Rand) *topo {
				t := base(r, r.Intn(3))
				t.recipe = "must-not-be-critical/" + k.name + "/" + pos
				s := t.leaf()
				if pos == "root" {
					s = t.root()
				}
				s.ext = append(s.ext, extSpec{id: k.id, critical: true, value: k.value, what: k.name})
				t.buildMayFail = true
				t.unjudged = k.name + " marked critical: outside the model"
				return t
			}, "extension %s marked critical on the %s", k.name, pos)
		}
	}

	// G. verification time outside the validity period of exactly one certificate of the chain: depth x position x side,
	// asked one second outside, at the boundary and inside
	for d := 0; d <= 3; d++ {
		for p := 0; p <= d+1; p++ {
			for _, after := range []bool{false, true} {
				d, p, after := d, p, after
				add(func(r *mon.Rand) *topo {
					t := base(r, d)
					t.recipe = fmt.Sprintf("validity/depth%d/position%d/%s", d, p, boolName(after, "after", "before"))
					for _, s := range t.certs {
						wideWindow(s, r)
					}
					s := t.certs[t.chain[p]]
					s.nb = t0.Add(-time.Duration(r.Range(5, 100))*day - time.Duration(r.Intn(86400))*time.Second)
					s.na = t0.Add(time.Duration(r.Range(5, 100))*day + time.Duration(r.Intn(86400))*time.Second)
					if after {
						t.times = []time.Time{s.na, s.na.Add(time.Second), s.na.Add(time.Duration(r.Range(2, 300)) * day), s.na.Add(-time.Second)}
					} else {
						t.times = []time.Time{s.nb, s.nb.Add(-time.Second), s.nb.Add(-time.Duration(r.Range(2, 300)) * day), s.nb.Add(time.Second)}
					}
					return t
				}, "verification times around the %s of the certificate at position %d (0 = root) of a chain of depth %d, all other certificates valid", boolName(after, "NotAfter", "NotBefore"), p, d)
			}
		}
	}
	return cs
}

func rev(s []string) []string {
	for i, j := 0, len(s)-1; i < j; i, j = i+1, j-1 {
		s[i], s[j] = s[j], s[i]
	}
	return s
}

func revIP(s []net.IP) []net.IP {
	for i, j := 0, len(s)-1; i < j; i, j = i+1, j-1 {
		s[i], s[j] = s[j], s[i]
	}
	return s
}

// extensions: one case = one entry of the enumeration, built as a PKI of its own
// (the dimensions that are not enumerated - depth, validity windows, key usages,
// order of the hand-written entries, keys - come from the case PRNG) three times
// (SM2 keys, mixed key types, ECDSA twin) and judged as the topologies of c15.chains
// are. The thorough tier repeats the enumeration with further PRNG draws.
func extensions(x *mon.Ctx) {
	if err := selfTest(); err != nil {
		x.HarnessError("%v", err)
	}
	extensionCases(x)
}

func extensionCases(x *mon.Ctx) {
	cs := extCases()
	rounds := x.Scale(1, 6)
	for round := 0; round < rounds; round++ {
		for i, ec := range cs {
			n := round*len(cs) + i
			c := x.Begin("extension case #%d (round %d): %s (built with SM2 keys, with mixed key types and as ECDSA twin for crypto/x509, created by %s)", i, round, ec.desc, []string{"smx509", "crypto/x509"}[n%2])
			if c == nil {
				continue
			}
			splitLibRand(c)
			t := ec.gen(c.R)
			t.digestKey = "ext"
			// background noise as in c15.chains: an unrelated hierarchy in the pools
			if c.R.Intn(3) == 0 {
				nr := caSpec(c.R, "Noise Root", t.newKey(), -1)
				nr.roots = true
				nx := caSpec(c.R, "Noise Inter", t.newKey(), t.add(nr))
				nx.inter = true
				t.add(nx)
			}
			must := 0
			for _, s := range t.certs {
				if s.unevaluable() != "" {
					must++
				}
			}
			c.Event("certificates_that_must_stop_chain_building", must)
			if t.unjudged != "" {
				c.Event("topologies_outside_the_model(differentials_only)", 1)
			}
			runTopo(c, t, n)
			c.End()
		}
	}
}
