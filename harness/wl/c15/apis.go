package c15

import (
	"bytes"
	"crypto"
	sdkecdh "crypto/ecdh"
	"crypto/ecdsa"
	"crypto/elliptic"
	_ "crypto/sha256"
	_ "crypto/sha512"
	"crypto/x509"
	"crypto/x509/pkix"
	"encoding/pem"
	"fmt"
	"math/big"
	"time"

	"github.com/emmansun/gmsm/ecdh"
	"github.com/emmansun/gmsm/sm2"
	"github.com/emmansun/gmsm/smx509"

	"verifh/mon"
	refec "verifh/ref/ec"
	refsm3 "verifh/ref/sm3"
	"verifh/wl/reg"
)

// c15.apis: the entry points of the property that c15.objects does not reach, each
// with the law the property states for its kind of object:
//   - Certificate.CheckSignatureWithDigest (verification from a digest the caller computed),
//   - the older revocation-list interface (Certificate.CreateCRL, ParseCRL, ParseDERCRL,
//     Certificate.CheckCRLSignature), also read through ParseRevocationList,
//   - ParseCertificates, ParseCertificatePEM, ParseCertificateRequestPEM,
//   - MarshalCSRResponse / ParseCSRResponse (GM/T 0092) with 1..3 signing certificates,
//   - certificates whose subject key is given as a key-agreement key (crypto/ecdh, gmsm/ecdh),
//   - Verify on a Certificate value that was not parsed.
//
// One case = one issuer (key kind cycling with the case number) with one to three
// certificates under it.

func init() { reg.Register("c15.apis", "C15", apis) }

var apiSigners = []keyKind{kSM2, kP256, kRSA, kSM2, kEd25519, kP384, kSM2, kRSA, kP256}

func apis(x *mon.Ctx) {
	if err := selfTest(); err != nil {
		x.HarnessError("%v", err)
	}
	n := x.Scale(270, 3600)
	for i := 0; i < n; i++ {
		sk := apiSigners[i%len(apiSigners)]
		c := x.Begin("entry points #%d issuer key %v (templates, keys, revoked entries and alteration offsets from the case PRNG)", i, sk)
		if c == nil {
			continue
		}
		runAPIs(c, i, sk)
		c.End()
	}
}

// refZA: the SM2 hash prefix Z_A for the default user id (GB/T 32918.2 5.5), from the reference SM3.
func refZA(px, py *big.Int) []byte {
	entl := []byte{byte(len(sm2DefaultUID) * 8 >> 8), byte(len(sm2DefaultUID) * 8)}
	return refsm3.SumParts(entl, sm2DefaultUID, refec.Bytes32(refec.A), refec.Bytes32(refec.B),
		refec.Bytes32(refec.Gx), refec.Bytes32(refec.Gy), refec.Bytes32(px), refec.Bytes32(py))
}

func hashOfAlg(a x509.SignatureAlgorithm) crypto.Hash {
	switch a {
	case x509.SHA256WithRSA, x509.ECDSAWithSHA256, x509.SHA256WithRSAPSS:
		return crypto.SHA256
	case x509.SHA384WithRSA, x509.ECDSAWithSHA384, x509.SHA384WithRSAPSS:
		return crypto.SHA384
	case x509.SHA512WithRSA, x509.ECDSAWithSHA512, x509.SHA512WithRSAPSS:
		return crypto.SHA512
	}
	return 0
}

// digestFor computes, without the library, the digest the signature algorithm signs.
func digestFor(alg x509.SignatureAlgorithm, signer key, msg []byte) []byte {
	if alg == smx509.SM2WithSM3 {
		px, py := sm2XY(signer)
		return refsm3.SumParts(refZA(px, py), msg)
	}
	h := hashOfAlg(alg)
	if h == 0 {
		return nil
	}
	hh := h.New()
	hh.Write(msg)
	return hh.Sum(nil)
}

func runAPIs(c *mon.Case, i int, sk keyKind) {
	splitLibRand(c)
	genR, curPart = c.R, 0
	sweepStride, sweepPhase = 1, 0
	r := c.R
	signer, err := newKey(r, sk, 0)
	if err != nil {
		c.Fail("reject", "key generation: %v", err)
		return
	}
	ch := sigAlgChoices(signer, false)
	alg := ch[r.Intn(len(ch))]
	uniq := fmt.Sprintf(" %x", r.Bytes(4))
	_, issuer, issuerDER, ok := makeCA(c, signer, alg, "A"+uniq, nil)
	if !ok {
		return
	}
	other, _ := otherKey(r, signer)
	_, otherCA, _, ok := makeCA(c, other, 0, "B"+uniq, nil)
	if !ok {
		return
	}
	// one to three certificates under the issuer
	nLeaf := r.Range(1, 3)
	var leaves []*smx509.Certificate
	var leafKeys []key
	for k := 0; k < nLeaf; k++ {
		kind := keyKind(r.Intn(int(nKinds)))
		if k == 0 && i%2 == 0 {
			kind = kSM2 // the response of GM/T 0092 is for an SM2 signing key
		}
		lk, _ := newKey(r, kind, 0)
		t := genCertTemplate(r, false, fmt.Sprintf("%s/%d", uniq, k))
		t.SignatureAlgorithm = alg
		var der []byte
		var p *smx509.Certificate
		if !c.Call("CreateCertificate", func() { der, err = smx509.CreateCertificate(libR, t, issuer, lk.pub, signer.priv) }) {
			return
		}
		if err != nil {
			c.Fail("reject", "CreateCertificate refused a well-formed template (signer %v alg %s subject %v): %v", signer.kind, algName(alg), kind, err)
			return
		}
		if !c.Call("ParseCertificate", func() { p, err = smx509.ParseCertificate(der) }) {
			return
		}
		if err != nil {
			c.Fail("reject", "ParseCertificate refused a certificate the library created: %v", err)
			return
		}
		leaves = append(leaves, p)
		leafKeys = append(leafKeys, lk)
	}
	c.Class("apis/signer=%v/alg=%s/leaves=%d/first=%v", signer.kind, algName(alg), nLeaf, leafKeys[0].kind)

	digestLaws(c, signer, issuer, otherCA, leaves[0])
	legacyCRL(c, signer, issuer, otherCA)
	multiParse(c, signer, issuer, issuerDER, leaves)
	if leafKeys[0].kind == kSM2 {
		csrResponse(c, issuer, leaves, leafKeys)
	}
	if i%3 == 0 {
		agreementSubjectKey(c, i/3, signer, issuer, alg, uniq)
	}
	if i%5 == 0 {
		unparsed(c, issuer, leaves[0])
	}
	mismatchedSigner(c, r, signer, other, issuer, alg, uniq)
}

// mismatchedSigner: CreateCertificate is handed a parent certificate together with a private key that is NOT the
// parent's (another key of the same kind under the same algorithm, and a key of another kind under its default
// algorithm). What the library creates must verify under the issuer key; a key that is not the issuer's cannot
// produce such a signature, so the outcomes that keep the property are a refusal (what the unchanged library does:
// "provided PrivateKey doesn't match parent's PublicKey") or a certificate that does verify under the parent. A
// certificate that parses but does not verify under the parent it names is a violation (mutation sweep: dropping
// that comparison survived every C15 workload).
func mismatchedSigner(c *mon.Case, r *mon.Rand, signer, other key, issuer *smx509.Certificate, alg x509.SignatureAlgorithm, uniq string) {
	type wrongKey struct {
		k   key
		alg x509.SignatureAlgorithm
	}
	wrong := []wrongKey{{other, alg}}
	if k2, err := newKey(r, keyKind((int(signer.kind)+1+r.Intn(int(nKinds)-1))%int(nKinds)), 0); err == nil {
		wrong = append(wrong, wrongKey{k2, 0})
	}
	for _, w := range wrong {
		if w.k.priv == nil || w.k.samePublic(signer.pub) {
			continue
		}
		lk, err := newKey(r, kSM2, 0)
		if err != nil {
			continue
		}
		t := genCertTemplate(r, false, uniq+"/mismatch")
		t.SignatureAlgorithm = w.alg
		var der []byte
		what := fmt.Sprintf("CreateCertificate(parent of a %v key, private key: another %v key)", signer.kind, w.k.kind)
		if !c.Call(what, func() { der, err = smx509.CreateCertificate(libR, t, issuer, lk.pub, w.k.priv) }) {
			continue
		}
		if err != nil {
			c.Event("apis/mismatched_signer_refused", 1)
			continue
		}
		var p *smx509.Certificate
		if !c.Call("ParseCertificate", func() { p, err = smx509.ParseCertificate(der) }) {
			continue
		}
		if err != nil {
			c.Event("apis/mismatched_signer_unparsable_result", 1)
			continue
		}
		var verr error
		if !c.Call("CheckSignatureFrom", func() { verr = p.CheckSignatureFrom(issuer) }) {
			continue
		}
		if verr != nil {
			c.Fail("accept", "%s returned a certificate naming that parent as issuer whose signature does not verify under the parent's key (%v): the library created a certificate that fails to verify under its issuer", what, verr)
			continue
		}
		c.Event("apis/mismatched_signer_result_verifies", 1)
	}
}

// ---- CheckSignatureWithDigest ----

func digestLaws(c *mon.Case, signer key, issuer, otherCA, leaf *smx509.Certificate) {
	r := c.R
	alg := leaf.SignatureAlgorithm
	d := digestFor(alg, signer, leaf.RawTBSCertificate)
	var e error
	if d == nil {
		// Ed25519 signs the message, not a digest: the documentation lists RSA, ECDSA and SM2
		if c.Call("CheckSignatureWithDigest(Ed25519)", func() { e = issuer.CheckSignatureWithDigest(alg, leaf.RawTBSCertificate, leaf.Signature) }) && e == nil {
			c.Fail("accept", "CheckSignatureWithDigest accepted the message itself as digest for %s", algName(alg))
		}
		return
	}
	if c.Call("CheckSignatureWithDigest", func() { e = issuer.CheckSignatureWithDigest(alg, d, leaf.Signature) }) && e != nil {
		c.Fail("reject", "issuer.CheckSignatureWithDigest(%s, digest of RawTBSCertificate, Signature) failed on a created certificate: %v", algName(alg), e)
		return
	}
	c.Event("digest_checks/honest", 1)
	refuse := func(what string, a x509.SignatureAlgorithm, by *smx509.Certificate, dg, sig []byte) {
		var e error
		if c.Call("CheckSignatureWithDigest("+what+")", func() { e = by.CheckSignatureWithDigest(a, dg, sig) }) {
			c.Event("digest_checks/altered", 1)
			if e == nil {
				c.Fail("accept", "CheckSignatureWithDigest(%s) accepted %s", algName(a), what)
			}
		}
	}
	// ECDSA uses the leftmost bits of the digest, as many as the group order has (FIPS 186-4 6.4):
	// octets beyond that are not part of what is signed
	eff := len(d)
	if pk, ok := signer.pub.(*ecdsa.PublicKey); ok && alg != smx509.SM2WithSM3 {
		if n := (pk.Curve.Params().N.BitLen() + 7) / 8; n < eff {
			eff = n
		}
	}
	for k := 0; k < 6; k++ { // digest of another message: single bits of the digest
		dd := append([]byte(nil), d...)
		pos, bit := r.Intn(eff), r.Intn(8)
		if k == 0 {
			pos, bit = 0, 7
		} else if k == 1 {
			pos, bit = eff-1, 0
		}
		dd[pos] ^= 1 << bit
		refuse(fmt.Sprintf("a digest with bit %d of octet %d changed", bit, pos), alg, issuer, dd, leaf.Signature)
	}
	tbs2 := append([]byte(nil), leaf.RawTBSCertificate...)
	tbs2[r.Intn(len(tbs2))] ^= 1 << r.Intn(8)
	refuse("the digest of an altered TBSCertificate", alg, issuer, digestFor(alg, signer, tbs2), leaf.Signature)
	for k := 0; k < 4; k++ {
		s2 := append([]byte(nil), leaf.Signature...)
		s2[r.Intn(len(s2))] ^= 1 << r.Intn(8)
		refuse("an altered signature", alg, issuer, d, s2)
	}
	refuse("a truncated digest", alg, issuer, d[:len(d)-1], leaf.Signature)
	refuse("a digest with an octet appended", alg, issuer, append(append([]byte(nil), d...), 0), leaf.Signature)
	refuse("the signature under another issuer key", alg, otherCA, d, leaf.Signature)
	if alg == smx509.SM2WithSM3 {
		// the digest must cover Z_A: the plain SM3 of the TBSCertificate is another message
		refuse("the SM3 digest without the Z_A prefix", alg, issuer, refsm3.SumParts(leaf.RawTBSCertificate), leaf.Signature)
	}
}

// ---- CreateCRL / ParseCRL / ParseDERCRL / CheckCRLSignature ----

func legacyCRL(c *mon.Case, signer key, issuer, otherCA *smx509.Certificate) {
	r := c.R
	now := time.Unix(int64(r.Range(1_500_000_000, 1_900_000_000)), 0).UTC()
	exp := now.Add(time.Duration(r.Range(1, 90)) * day)
	var rev []pkix.RevokedCertificate
	for k, n := 0, r.Intn(4); k < n; k++ {
		sn := genSerial(r)
		if sn == nil { // "let the library choose" has no meaning for a revoked entry
			sn = big.NewInt(int64(k + 1))
		}
		rev = append(rev, pkix.RevokedCertificate{SerialNumber: sn, RevocationTime: now.Add(-time.Duration(r.Range(1, 1000)) * time.Hour)})
	}
	var der []byte
	var err error
	if !c.Call("Certificate.CreateCRL", func() { der, err = issuer.CreateCRL(libR, signer.priv, rev, now, exp) }) {
		return
	}
	if err != nil {
		c.Fail("reject", "Certificate.CreateCRL refused %d entries (signer %v): %v", len(rev), signer.kind, err)
		return
	}
	c.Event("legacy_crl/created", 1)
	type parser struct {
		name string
		f    func([]byte) (*pkix.CertificateList, error)
		in   []byte
	}
	var first *pkix.CertificateList
	for _, p := range []parser{{"ParseDERCRL", smx509.ParseDERCRL, der}, {"ParseCRL(DER)", smx509.ParseCRL, der},
		{"ParseCRL(PEM)", smx509.ParseCRL, pem.EncodeToMemory(&pem.Block{Type: "X509 CRL", Bytes: der})}} {
		var cl *pkix.CertificateList
		if !c.Call(p.name, func() { cl, err = p.f(p.in) }) {
			return
		}
		if err != nil {
			c.Fail("reject", "%s refused a list Certificate.CreateCRL created: %v", p.name, err)
			return
		}
		if first == nil {
			first = cl
		}
		got := fmt.Sprintf("%d..%d", cl.TBSCertList.ThisUpdate.Unix(), cl.TBSCertList.NextUpdate.Unix())
		for _, e := range cl.TBSCertList.RevokedCertificates {
			got += fmt.Sprintf(" %v@%d", e.SerialNumber, e.RevocationTime.Unix())
		}
		want := fmt.Sprintf("%d..%d", now.Unix(), exp.Unix())
		for _, e := range rev {
			want += fmt.Sprintf(" %v@%d", e.SerialNumber, e.RevocationTime.Unix())
		}
		if got != want {
			c.Fail("mismatch", "%s: list created by Certificate.CreateCRL parses back as %s, want %s", p.name, got, want)
		}
		if cl.TBSCertList.Issuer.String() != issuer.Subject.ToRDNSequence().String() {
			c.Fail("mismatch", "%s: issuer %v, want %v", p.name, cl.TBSCertList.Issuer, issuer.Subject)
		}
		var e error
		if c.Call("CheckCRLSignature", func() { e = issuer.CheckCRLSignature(cl) }) && e != nil {
			c.Fail("reject", "issuer.CheckCRLSignature failed on a list the issuer created (%s, signer %v): %v", p.name, signer.kind, e)
			return
		}
		c.Event("legacy_crl/parsed_and_verified", 1)
	}
	independentSigCheck(c, "revocation list (CreateCRL)", signer, defaultSigAlg(signer), first.TBSCertList.Raw, first.SignatureValue.RightAlign())
	// the same bytes through the current interface
	var rl *smx509.RevocationList
	if c.Call("ParseRevocationList", func() { rl, err = smx509.ParseRevocationList(der) }) {
		if err != nil {
			c.Fail("reject", "ParseRevocationList refused a list Certificate.CreateCRL created: %v", err)
		} else {
			var e error
			if c.Call("RevocationList.CheckSignatureFrom", func() { e = rl.CheckSignatureFrom(issuer) }) && e != nil {
				c.Fail("reject", "RevocationList.CheckSignatureFrom failed on a list Certificate.CreateCRL created: %v", e)
			}
		}
	}
	// substituted issuer key
	var e error
	if c.Call("CheckCRLSignature(other key)", func() { e = otherCA.CheckCRLSignature(first) }) && e == nil {
		c.Fail("accept", "CheckCRLSignature accepted the list under a substituted issuer key")
	}
	// alterations of the signed portion and of the signature: parse or verification must fail
	tbsOff := bytes.Index(der, first.TBSCertList.Raw)
	sig := first.SignatureValue.RightAlign()
	sigOff := len(der) - len(sig)
	if tbsOff < 0 || !bytes.Equal(der[sigOff:], sig) {
		c.Fail("mismatch", "the list does not contain its parsed TBSCertList / end with its signature octets")
		return
	}
	for k := 0; k < 40; k++ {
		off := tbsOff + r.Intn(len(first.TBSCertList.Raw))
		if k%4 == 3 {
			off = sigOff + r.Intn(len(sig))
		}
		m := append([]byte(nil), der...)
		m[off] ^= []byte{0x01, 0x80, 0xff, 0x10}[r.Intn(4)]
		var cl *pkix.CertificateList
		var perr, verr error
		if !c.Call("ParseDERCRL+CheckCRLSignature(altered)", func() {
			if cl, perr = smx509.ParseDERCRL(m); perr == nil {
				verr = issuer.CheckCRLSignature(cl)
			}
		}) {
			continue
		}
		c.Event("legacy_crl/alterations", 1)
		if perr == nil && verr == nil {
			c.Detail("der", der)
			c.Fail("accept", "list from Certificate.CreateCRL: offset %d (%s) altered from %#02x to %#02x still parses (ParseDERCRL) and verifies (CheckCRLSignature)",
				off, map[bool]string{true: "signature", false: "signed portion"}[off >= sigOff], der[off], m[off])
		}
	}
}

// ---- ParseCertificates / ParseCertificatePEM / ParseCertificateRequestPEM ----

func multiParse(c *mon.Case, signer key, issuer *smx509.Certificate, issuerDER []byte, leaves []*smx509.Certificate) {
	r := c.R
	var cat []byte
	want := [][]byte{}
	for _, l := range leaves {
		cat = append(cat, l.Raw...)
		want = append(want, l.Raw)
	}
	if r.Bool() {
		cat = append(cat, issuerDER...)
		want = append(want, issuerDER)
	}
	var got []*smx509.Certificate
	var err error
	if c.Call("ParseCertificates", func() { got, err = smx509.ParseCertificates(cat) }) {
		c.Event("multi_parse/ParseCertificates", 1)
		if err != nil || len(got) != len(want) {
			c.Fail("reject", "ParseCertificates on %d concatenated created certificates: %d certificates, error %v", len(want), len(got), err)
		} else {
			for k := range got {
				if !bytes.Equal(got[k].Raw, want[k]) || got[k].CheckSignatureFrom(issuer) != nil {
					c.Fail("mismatch", "ParseCertificates: element %d of %d is not the certificate that was put in (or does not verify under the issuer)", k, len(want))
				}
			}
		}
	}
	// a damaged tail must not be passed over
	bad := append(append([]byte(nil), cat...), leaves[0].Raw[:len(leaves[0].Raw)-1-r.Intn(20)]...)
	if c.Call("ParseCertificates(truncated last element)", func() { got, err = smx509.ParseCertificates(bad) }) && err == nil {
		c.Fail("accept", "ParseCertificates accepted input whose last element is truncated (%d certificates returned)", len(got))
	}
	var one *smx509.Certificate
	pemIn := pemOf(leaves[0].Raw)
	if c.Call("ParseCertificatePEM", func() { one, err = smx509.ParseCertificatePEM(pemIn) }) {
		c.Event("multi_parse/ParseCertificatePEM", 1)
		if err != nil || !bytes.Equal(one.Raw, leaves[0].Raw) {
			c.Fail("reject", "ParseCertificatePEM on the PEM form of a created certificate: error %v", err)
		}
	}
	for _, w := range [][]byte{pem.EncodeToMemory(&pem.Block{Type: "CERTIFICATE REQUEST", Bytes: leaves[0].Raw}), leaves[0].Raw, nil} {
		if c.Call("ParseCertificatePEM(not a certificate block)", func() { one, err = smx509.ParseCertificatePEM(w) }) && err == nil {
			c.Fail("accept", "ParseCertificatePEM accepted input that is not a CERTIFICATE block")
		}
	}
	// request in PEM form
	ct := genCSRTemplate(r, " pem")
	var csr []byte
	if !c.Call("CreateCertificateRequest", func() { csr, err = smx509.CreateCertificateRequest(libR, ct, signer.priv) }) || err != nil {
		if err != nil {
			c.Fail("reject", "CreateCertificateRequest refused a well-formed template (signer %v): %v", signer.kind, err)
		}
		return
	}
	var req *smx509.CertificateRequest
	csrPEM := pem.EncodeToMemory(&pem.Block{Type: "CERTIFICATE REQUEST", Bytes: csr})
	if c.Call("ParseCertificateRequestPEM", func() { req, err = smx509.ParseCertificateRequestPEM(csrPEM) }) {
		c.Event("multi_parse/ParseCertificateRequestPEM", 1)
		if err != nil || !bytes.Equal(req.Raw, csr) {
			c.Fail("reject", "ParseCertificateRequestPEM on the PEM form of a created request: error %v", err)
		} else if e := req.CheckSignature(); e != nil {
			c.Fail("reject", "request parsed from PEM does not verify: %v", e)
		} else if !signer.samePublic(req.PublicKey) {
			c.Fail("mismatch", "request parsed from PEM carries another public key")
		}
	}
	if c.Call("ParseCertificateRequestPEM(certificate block)", func() { req, err = smx509.ParseCertificateRequestPEM(pemIn) }) && err == nil {
		c.Fail("accept", "ParseCertificateRequestPEM accepted a CERTIFICATE block")
	}
}

// ---- MarshalCSRResponse / ParseCSRResponse ----

// csrResponse: the response a CA returns for a double-certificate request: the signing
// certificate(s), and optionally the encryption key pair the CA generated, enveloped for
// the signing key, with its certificate(s). What was put in must come out, and only for
// the holder of the signing key.
func csrResponse(c *mon.Case, issuer *smx509.Certificate, leaves []*smx509.Certificate, leafKeys []key) {
	r := c.R
	signPriv := leafKeys[0].priv.(*sm2.PrivateKey)
	signCerts := leaves // 1..3, the certificate of the signing key first
	var encKey *sm2.PrivateKey
	var encCerts []*smx509.Certificate
	withEnc := r.Intn(4) > 0
	if withEnc {
		ek, err := newKey(r, kSM2, 0)
		if err != nil {
			return
		}
		encKey = ek.priv.(*sm2.PrivateKey)
		t := genCertTemplate(r, false, " enc")
		t.KeyUsage = x509.KeyUsageKeyEncipherment | x509.KeyUsageDataEncipherment
		_, ca, _, ok := makeCA(c, leafKeys[0], 0, " encca", nil)
		if !ok {
			return
		}
		var der []byte
		var ec *smx509.Certificate
		if !c.Call("CreateCertificate+ParseCertificate(encryption certificate)", func() {
			if der, err = smx509.CreateCertificate(libR, t, ca, ek.pub, leafKeys[0].priv); err == nil {
				ec, err = smx509.ParseCertificate(der)
			}
		}) {
			return
		}
		if err != nil {
			c.Fail("reject", "the encryption certificate could not be created/parsed: %v", err)
			return
		}
		encCerts = []*smx509.Certificate{ec}
		if r.Bool() {
			encCerts = append(encCerts, ca)
		}
	}
	var der []byte
	var err error
	if withEnc {
		// an encryption key without its certificate, or with the certificate of another key first, is not a response
		for k, what := range []string{"no encryption certificate", "the certificate of another key as encryption certificate"} {
			certs := [][]*smx509.Certificate{nil, signCerts}[k]
			var e error
			if c.Call("MarshalCSRResponse("+what+")", func() { _, e = smx509.MarshalCSRResponse(signCerts, encKey, certs) }) && e == nil {
				c.Fail("accept", "MarshalCSRResponse accepted an encryption private key with %s", what)
			}
		}
		c.Event("csr_response/refusals_checked", 2)
	}
	if !c.Call("MarshalCSRResponse", func() { der, err = smx509.MarshalCSRResponse(signCerts, encKey, encCerts) }) {
		return
	}
	if err != nil {
		c.Fail("reject", "MarshalCSRResponse refused %d signing certificates, encryption key present=%v, %d encryption certificates: %v", len(signCerts), withEnc, len(encCerts), err)
		return
	}
	c.Event(fmt.Sprintf("csr_response/created/sign_certs=%d/enc=%v", len(signCerts), withEnc), 1)
	var resp smx509.CSRResponse
	if !c.Call("ParseCSRResponse", func() { resp, err = smx509.ParseCSRResponse(signPriv, der) }) {
		return
	}
	raws := func(cs []*smx509.Certificate) string {
		s := ""
		for _, x := range cs {
			s += fmt.Sprintf("%x;", x.SerialNumber)
		}
		return s
	}
	if err != nil {
		// with several signing certificates the DER SET OF is sorted by encoding: the certificate of the
		// signing key need not stay first
		msg := fmt.Sprintf("ParseCSRResponse (with the signing key) refused the response MarshalCSRResponse created from %d signing certificates (serials %s), encryption key present=%v: %v",
			len(signCerts), raws(signCerts), withEnc, err)
		// (the sorted SET OF used to make ParseCSRResponse look at the wrong certificate: repaired by /repo db069ac)
		if len(signCerts) > 1 && setOfMovesFirst(signCerts) {
			c.Event("csr_response/refused_with_reordered_sign_certs", 1)
		}
		c.Fail("reject", "%s", msg)
		return
	}
	// the signing certificates as a set (SET OF has no order), the others in order
	in, out := map[string]bool{}, map[string]bool{}
	for _, x := range signCerts {
		in[string(x.Raw)] = true
	}
	for _, x := range resp.SignCerts {
		out[string(x.Raw)] = true
	}
	same := len(in) == len(out) && len(resp.SignCerts) == len(signCerts)
	for k := range in {
		same = same && out[k]
	}
	if !same {
		c.Fail("mismatch", "CSRResponse: signing certificates %s put in, %s parsed back", raws(signCerts), raws(resp.SignCerts))
	}
	if raws(resp.EncryptCerts) != raws(encCerts) {
		c.Fail("mismatch", "CSRResponse: encryption certificates %s put in, %s parsed back", raws(encCerts), raws(resp.EncryptCerts))
	}
	switch {
	case withEnc && (resp.EncryptPrivateKey == nil || !resp.EncryptPrivateKey.Equal(encKey)):
		c.Fail("mismatch", "CSRResponse: the enveloped encryption private key does not come back")
	case !withEnc && resp.EncryptPrivateKey != nil:
		c.Fail("mismatch", "CSRResponse: an encryption private key appears although none was put in")
	}
	c.Event("csr_response/round_trips", 1)
	// another signing key must not open it
	ok2, _ := newKey(r, kSM2, 0)
	var resp2 smx509.CSRResponse
	if c.Call("ParseCSRResponse(other key)", func() { resp2, err = smx509.ParseCSRResponse(ok2.priv.(*sm2.PrivateKey), der) }) && err == nil {
		c.Fail("accept", "ParseCSRResponse accepted the response for a signing key it was not made for (encryption key returned=%v)", resp2.EncryptPrivateKey != nil)
	}
}

// setOfMovesFirst: the DER order (ascending encodings) of the signing certificates does
// not start with the first one.
func setOfMovesFirst(cs []*smx509.Certificate) bool {
	for _, x := range cs[1:] {
		if bytes.Compare(x.Raw, cs[0].Raw) < 0 {
			return true
		}
	}
	return false
}

// ---- subject keys given as key-agreement keys ----

func agreementSubjectKey(c *mon.Case, n int, signer key, issuer *smx509.Certificate, alg x509.SignatureAlgorithm, uniq string) {
	r := c.R
	var pub any
	var wantBytes []byte
	var wantCurve elliptic.Curve
	// (X25519 keys are refused by CreateCertificate as by crypto/x509: there is no certificate to read back)
	kind := []string{"ecdh-p256", "gmsm-ecdh-sm2", "ecdh-p384", "ecdh-p521"}[n%4]
	switch kind {
	case "ecdh-p256", "ecdh-p384", "ecdh-p521":
		cv := map[string]elliptic.Curve{"ecdh-p256": elliptic.P256(), "ecdh-p384": elliptic.P384(), "ecdh-p521": elliptic.P521()}[kind]
		ek := ecdsaFromScalar(cv, r)
		p, err := ek.PublicKey.ECDH()
		if err != nil {
			return
		}
		pub, wantBytes, wantCurve = p, p.Bytes(), cv
	default:
		k, err := newKey(r, kSM2, 0)
		if err != nil {
			return
		}
		p, err := k.priv.(*sm2.PrivateKey).ECDH()
		if err != nil {
			c.Fail("reject", "sm2.PrivateKey.ECDH: %v", err)
			return
		}
		var pk *ecdh.PublicKey = p.PublicKey()
		pub, wantBytes, wantCurve = pk, pk.Bytes(), sm2.P256()
	}
	t := genCertTemplate(r, r.Bool(), uniq+" ka") // also as a CA certificate: the key still cannot have signed anything
	t.SignatureAlgorithm = alg
	var der []byte
	var err error
	if !c.Call("CreateCertificate(key-agreement subject key)", func() { der, err = smx509.CreateCertificate(libR, t, issuer, pub, signer.priv) }) {
		return
	}
	if err != nil {
		c.Fail("reject", "CreateCertificate refused a %s subject key (signer %v): %v", kind, signer.kind, err)
		return
	}
	var p *smx509.Certificate
	if !c.Call("ParseCertificate", func() { p, err = smx509.ParseCertificate(der) }) {
		return
	}
	if err != nil {
		c.Detail("der", der)
		c.Fail("reject", "ParseCertificate refused a certificate the library created for a %s subject key: %v", kind, err)
		return
	}
	c.Event("agreement_subject_keys/"+kind, 1)
	var got []byte
	switch k := p.PublicKey.(type) {
	case *sdkecdh.PublicKey:
		got = k.Bytes()
		if wantCurve != nil {
			got = nil
		}
	case *ecdsa.PublicKey:
		if k.Curve == wantCurve {
			got = elliptic.Marshal(k.Curve, k.X, k.Y)
		}
	}
	if !bytes.Equal(got, wantBytes) {
		c.Detail("der", der)
		c.Fail("mismatch", "certificate created for a %s subject key parses back with public key %T %x, want point %x", kind, p.PublicKey, got, wantBytes)
	}
	var e error
	if c.Call("CheckSignatureFrom", func() { e = p.CheckSignatureFrom(issuer) }) && e != nil {
		c.Fail("reject", "certificate with a %s subject key does not verify under its issuer: %v", kind, e)
	}
	// such a certificate cannot have signed anything: as a parent it must be refused
	if c.Call("CheckSignatureFrom(key-agreement certificate as parent)", func() { e = p.CheckSignatureFrom(p) }) && e == nil {
		c.Fail("accept", "CheckSignatureFrom accepted a certificate with a %s key as issuer", kind)
	}
}

// ---- Verify on a value that was not parsed ----

func unparsed(c *mon.Case, issuer, leaf *smx509.Certificate) {
	roots := smx509.NewCertPool()
	roots.AddCert(issuer)
	at := leaf.NotBefore.Add(time.Second)
	if at.Before(issuer.NotBefore) {
		at = issuer.NotBefore.Add(time.Second)
	}
	// a copy of the parsed certificate without its encoding: nothing ties the fields to a signature
	cp := *leaf
	cp.Raw = nil
	var chains [][]*smx509.Certificate
	var err error
	if c.Call("Verify(certificate without Raw)", func() {
		chains, err = cp.Verify(smx509.VerifyOptions{Roots: roots, CurrentTime: at, KeyUsages: []x509.ExtKeyUsage{x509.ExtKeyUsageAny}})
	}) && (err == nil || len(chains) > 0) {
		c.Fail("accept", "Verify returned %d chains for a Certificate value that was not parsed (no Raw)", len(chains))
	}
	var e2 error
	if c.Call("Verify(empty Certificate)", func() {
		chains, e2 = (&smx509.Certificate{}).Verify(smx509.VerifyOptions{Roots: roots, CurrentTime: at})
	}) && (e2 == nil || len(chains) > 0) {
		c.Fail("accept", "Verify returned %d chains for an empty Certificate value", len(chains))
	}
	// the same for a certificate offered as intermediate: whatever Verify answers, no chain
	// may contain a value without encoding
	inter := smx509.NewCertPool()
	ic := *issuer
	ic.Raw = nil
	inter.AddCert(&ic)
	var e3 error
	if c.Call("Verify(intermediate without Raw)", func() {
		chains, e3 = leaf.Verify(smx509.VerifyOptions{Roots: roots, Intermediates: inter, CurrentTime: at, KeyUsages: []x509.ExtKeyUsage{x509.ExtKeyUsageAny}})
	}) && e3 == nil {
		for _, ch := range chains {
			for _, ce := range ch {
				if ce == nil || len(ce.Raw) == 0 {
					c.Fail("accept", "Verify returned a chain that contains a Certificate value that was not parsed (no Raw)")
				}
			}
		}
	}
	c.Event("verify_unparsed_refused", 3)
}
