package c15

import (
	"crypto"
	"crypto/ecdsa"
	"crypto/ed25519"
	"crypto/elliptic"
	"crypto/rsa"
	"crypto/x509"
	"encoding/asn1"
	"encoding/pem"
	"errors"
	"fmt"
	"math/big"
	"sync"

	"github.com/emmansun/gmsm/sm2"
	"github.com/emmansun/gmsm/smx509"

	"verifh/mon"
	refec "verifh/ref/ec"
	refsm3 "verifh/ref/sm3"
)

// keyKind enumerates the key types the property quantifies over.
type keyKind int

const (
	kSM2 keyKind = iota
	kP256
	kP384
	kEd25519
	kRSA // one of the embedded keys
	nKinds
)

func (k keyKind) String() string {
	return [...]string{"sm2", "p256", "p384", "ed25519", "rsa"}[k]
}

// key is a signing key of one of the kinds with its public half.
type key struct {
	kind keyKind
	priv crypto.Signer
	pub  crypto.PublicKey
	rsaN int    // which embedded RSA key (1..3), 0 otherwise
	note string // structured-key class ("x0", "y00", ...), empty for keys drawn from the PRNG
}

type pubEqual interface {
	Equal(crypto.PublicKey) bool
}

func (k key) samePublic(p crypto.PublicKey) bool {
	e, ok := k.pub.(pubEqual)
	return ok && p != nil && e.Equal(p)
}

var (
	rsaOnce sync.Once
	rsaKeys []*rsa.PrivateKey
	rsaErr  error
)

func loadRSA() ([]*rsa.PrivateKey, error) {
	rsaOnce.Do(func() {
		for _, p := range []string{rsaPEM1, rsaPEM2, rsaPEM3} {
			b, _ := pem.Decode([]byte(p))
			if b == nil {
				rsaErr = errors.New("embedded RSA key: no PEM block")
				return
			}
			k, err := x509.ParsePKCS1PrivateKey(b.Bytes) // standard library, not the library under test
			if err != nil {
				rsaErr = err
				return
			}
			if err := k.Validate(); err != nil {
				rsaErr = err
				return
			}
			rsaKeys = append(rsaKeys, k)
		}
	})
	return rsaKeys, rsaErr
}

// rsaKey returns embedded key n (1..3).
func rsaKey(n int) key {
	ks, _ := loadRSA()
	k := ks[n-1]
	return key{kind: kRSA, priv: k, pub: &k.PublicKey, rsaN: n}
}

// ecdsaFromScalar builds an ECDSA key from a fixed scalar (deterministic, no use of
// ecdsa.GenerateKey, whose output is deliberately not a function of the reader).
func ecdsaFromScalar(curve elliptic.Curve, r *mon.Rand) *ecdsa.PrivateKey {
	n := curve.Params().N
	d := r.BigBelow(new(big.Int).Sub(n, big.NewInt(1)))
	d.Add(d, big.NewInt(1))
	x, y := curve.ScalarBaseMult(d.FillBytes(make([]byte, (n.BitLen()+7)/8)))
	return &ecdsa.PrivateKey{PublicKey: ecdsa.PublicKey{Curve: curve, X: x, Y: y}, D: d}
}

// newKey draws a key of the given kind from r. rsaN selects the embedded RSA key.
func newKey(r *mon.Rand, kind keyKind, rsaN int) (key, error) {
	switch kind {
	case kSM2:
		// fixed scalar in [1, n-2] through the library's constructor (deterministic)
		d := r.BigBelow(new(big.Int).Sub(refec.N, big.NewInt(2)))
		d.Add(d, big.NewInt(1))
		p, err := sm2.NewPrivateKeyFromInt(d)
		if err != nil {
			return key{}, fmt.Errorf("sm2.NewPrivateKeyFromInt: %w", err)
		}
		return key{kind: kSM2, priv: p, pub: &p.PublicKey}, nil
	case kP256:
		p := ecdsaFromScalar(elliptic.P256(), r)
		return key{kind: kP256, priv: p, pub: &p.PublicKey}, nil
	case kP384:
		p := ecdsaFromScalar(elliptic.P384(), r)
		return key{kind: kP384, priv: p, pub: &p.PublicKey}, nil
	case kEd25519:
		p := ed25519.NewKeyFromSeed(r.Bytes(ed25519.SeedSize))
		return key{kind: kEd25519, priv: p, pub: p.Public()}, nil
	case kRSA:
		if rsaN < 1 || rsaN > 3 {
			rsaN = 1 + r.Intn(2)
		}
		return rsaKey(rsaN), nil
	}
	return key{}, errors.New("unknown key kind")
}

// otherKey returns a key of the same kind that differs from k.
func otherKey(r *mon.Rand, k key) (key, error) {
	if k.kind == kRSA {
		n := 1
		if k.rsaN == 1 {
			n = 2
		}
		return rsaKey(n), nil
	}
	return newKey(r, k.kind, 0)
}

// defaultSigAlg is the algorithm the package documents for a signer key when the
// template does not name one.
func defaultSigAlg(k key) x509.SignatureAlgorithm {
	switch k.kind {
	case kSM2:
		return smx509.SM2WithSM3
	case kP256:
		return x509.ECDSAWithSHA256
	case kP384:
		return x509.ECDSAWithSHA384
	case kEd25519:
		return x509.PureEd25519
	}
	return x509.SHA256WithRSA
}

// sigAlgChoices lists the algorithms a signer key may be asked to use (0 = default).
func sigAlgChoices(k key, sha1 bool) []x509.SignatureAlgorithm {
	if sha1 {
		switch k.kind {
		case kP256, kP384:
			return []x509.SignatureAlgorithm{x509.ECDSAWithSHA1}
		case kRSA:
			return []x509.SignatureAlgorithm{x509.SHA1WithRSA}
		}
		return nil
	}
	switch k.kind {
	case kSM2:
		return []x509.SignatureAlgorithm{0, smx509.SM2WithSM3}
	case kP256, kP384:
		return []x509.SignatureAlgorithm{0, x509.ECDSAWithSHA256, x509.ECDSAWithSHA384, x509.ECDSAWithSHA512}
	case kEd25519:
		return []x509.SignatureAlgorithm{0, x509.PureEd25519}
	}
	if k.rsaN == 3 { // 1024-bit modulus: SHA-512 PSS does not fit
		return []x509.SignatureAlgorithm{0, x509.SHA256WithRSA, x509.SHA512WithRSA, x509.SHA256WithRSAPSS}
	}
	return []x509.SignatureAlgorithm{0, x509.SHA256WithRSA, x509.SHA384WithRSA, x509.SHA512WithRSA,
		x509.SHA256WithRSAPSS, x509.SHA384WithRSAPSS, x509.SHA512WithRSAPSS}
}

func pubKeyAlg(k key) x509.PublicKeyAlgorithm {
	switch k.kind {
	case kSM2, kP256, kP384:
		return x509.ECDSA
	case kEd25519:
		return x509.Ed25519
	}
	return x509.RSA
}

// ---- independent SM2 signature verification (GB/T 32918.2) over ref/ec and ref/sm3 ----

var sm2DefaultUID = []byte("1234567812345678")

// refSM2Verify verifies an ASN.1 SM2 signature over msg with the default user id,
// using only the reference curve arithmetic and the reference SM3.
func refSM2Verify(px, py *big.Int, msg, sigDER []byte) (bool, error) {
	var sig struct{ R, S *big.Int }
	rest, err := asn1.Unmarshal(sigDER, &sig)
	if err != nil || len(rest) != 0 {
		return false, fmt.Errorf("signature is not SEQUENCE{INTEGER,INTEGER}: %v", err)
	}
	n := refec.N
	one := big.NewInt(1)
	if sig.R.Cmp(one) < 0 || sig.S.Cmp(one) < 0 || sig.R.Cmp(n) >= 0 || sig.S.Cmp(n) >= 0 {
		return false, nil
	}
	if !refec.OnCurve(px, py) {
		return false, errors.New("public key not on the SM2 curve")
	}
	entl := []byte{byte(len(sm2DefaultUID) * 8 >> 8), byte(len(sm2DefaultUID) * 8)}
	za := refsm3.SumParts(entl, sm2DefaultUID, refec.Bytes32(refec.A), refec.Bytes32(refec.B),
		refec.Bytes32(refec.Gx), refec.Bytes32(refec.Gy), refec.Bytes32(px), refec.Bytes32(py))
	e := new(big.Int).SetBytes(refsm3.SumParts(za, msg))
	t := new(big.Int).Add(sig.R, sig.S)
	t.Mod(t, n)
	if t.Sign() == 0 {
		return false, nil
	}
	p := refec.Add(refec.BaseMul(sig.S), refec.Mul(t, refec.Point{X: px, Y: py}))
	if p.Inf {
		return false, nil
	}
	rr := new(big.Int).Add(e, p.X)
	rr.Mod(rr, n)
	return rr.Cmp(sig.R) == 0, nil
}

func sm2XY(k key) (*big.Int, *big.Int) {
	p := k.pub.(*ecdsa.PublicKey)
	return p.X, p.Y
}

func hexInt(s string) *big.Int { v, _ := new(big.Int).SetString(s, 16); return v }

// selfTest validates the trusted base of this package: reference SM3, reference
// curve, the SM2 verifier (GM/T 0003.5 / GB/T 32918.5 signature example on the
// recommended curve) and the embedded RSA keys.
func selfTest() error {
	if err := refsm3.SelfTest(); err != nil {
		return err
	}
	if err := refec.SelfTest(); err != nil {
		return err
	}
	if _, err := loadRSA(); err != nil {
		return err
	}
	if err := structSelfTest(); err != nil {
		return err
	}
	// GB/T 32918.5-2017 Annex A.2: message "message digest", ID 1234567812345678
	px := hexInt("09F9DF311E5421A150DD7D161E4BC5C672179FAD1833FC076BB08FF356F35020")
	py := hexInt("CCEA490CE26775A52DC6EA718CC1AA600AED05FBF35E084A6632F6072DA9AD13")
	r := hexInt("F5A03B0648D2C4630EEAC513E1BB81A15944DA3827D5B74143AC7EACEEE720B3")
	s := hexInt("B1B6AA29DF212FD8763182BC0D421CA1BB9038FD1F7F42D4840B69C485BBC1AA")
	sig, err := asn1.Marshal(struct{ R, S *big.Int }{r, s})
	if err != nil {
		return err
	}
	ok, err := refSM2Verify(px, py, []byte("message digest"), sig)
	if err != nil || !ok {
		return fmt.Errorf("c15 self-test: reference SM2 verifier rejects the GB/T 32918.5 example (ok=%v err=%v)", ok, err)
	}
	if ok, _ := refSM2Verify(px, py, []byte("message digesu"), sig); ok {
		return errors.New("c15 self-test: reference SM2 verifier accepts an altered message")
	}
	return nil
}
