package c15

import (
	"crypto/ecdsa"
	"crypto/ed25519"
	"crypto/elliptic"
	"crypto/rsa"
	"crypto/x509"
	"fmt"
	"math/big"
	"sync"

	"github.com/emmansun/gmsm/sm2"

	refec "verifh/ref/ec"
)

// Structured key material: SM2 and P-256 keys whose public coordinates or private
// scalar have leading zero bytes, so that every place where the library serialises a
// coordinate into a fixed-width field (SubjectPublicKeyInfo, subject key identifier,
// the 136-byte CFCA temporary-key blob) sees a value shorter than the field. Random
// scalars produce such a coordinate once in 128 keys only.
//
// The scalars are the smallest k >= 0x8f3a5c7e...c6d700 with the stated property
// (found once by stepping k -> k+1, P -> P+G); they are re-validated at child start:
// the key is rebuilt, the class predicate is evaluated on the resulting coordinates,
// and for SM2 the coordinates are recomputed with the reference curve arithmetic.
type structClass int

const (
	scX0   structClass = iota // X has exactly one leading zero byte, Y none
	scY0                      // Y has exactly one leading zero byte, X none
	scX0Y0                    // both have at least one
	scX00                     // X has at least two, Y none
	scY00                     // Y has at least two, X none
	scD0                      // the private scalar has two leading zero bytes
	nStructClasses
)

func (s structClass) String() string {
	return [...]string{"x0", "y0", "x0y0", "x00", "y00", "d0"}[s]
}

var structScalars = map[keyKind][nStructClasses]string{
	kSM2: {
		"8f3a5c7e9b1d2f4061728394a5b6c7d8e9fa0b1c2d3e4f50617283a4b5c6d78a",
		"8f3a5c7e9b1d2f4061728394a5b6c7d8e9fa0b1c2d3e4f50617283a4b5c6d7a2",
		"8f3a5c7e9b1d2f4061728394a5b6c7d8e9fa0b1c2d3e4f50617283a4b5c729c5",
		"8f3a5c7e9b1d2f4061728394a5b6c7d8e9fa0b1c2d3e4f50617283a4b5c707e2",
		"8f3a5c7e9b1d2f4061728394a5b6c7d8e9fa0b1c2d3e4f50617283a4b5cb46ed",
		"00005c7e9b1d2f4061728394a5b6c7d8e9fa0b1c2d3e4f50617283a4b5c6d701",
	},
	kP256: {
		"8f3a5c7e9b1d2f4061728394a5b6c7d8e9fa0b1c2d3e4f50617283a4b5c6d848",
		"8f3a5c7e9b1d2f4061728394a5b6c7d8e9fa0b1c2d3e4f50617283a4b5c6d8e4",
		"8f3a5c7e9b1d2f4061728394a5b6c7d8e9fa0b1c2d3e4f50617283a4b5c94aa7",
		"8f3a5c7e9b1d2f4061728394a5b6c7d8e9fa0b1c2d3e4f50617283a4b5c8745a",
		"8f3a5c7e9b1d2f4061728394a5b6c7d8e9fa0b1c2d3e4f50617283a4b5c76ccb",
		"00005c7e9b1d2f4061728394a5b6c7d8e9fa0b1c2d3e4f50617283a4b5c6d701",
	},
}

func leadZeros(v *big.Int) int { return 32 - (v.BitLen()+7)/8 }

func (s structClass) holds(d, x, y *big.Int) bool {
	lx, ly := leadZeros(x), leadZeros(y)
	switch s {
	case scX0:
		return lx == 1 && ly == 0
	case scY0:
		return lx == 0 && ly == 1
	case scX0Y0:
		return lx >= 1 && ly >= 1
	case scX00:
		return lx >= 2 && ly == 0
	case scY00:
		return lx == 0 && ly >= 2
	case scD0:
		return leadZeros(d) >= 2
	}
	return false
}

var (
	structOnce sync.Once
	structTab  map[keyKind][]key
	structErr  error
)

func buildStructKeys() {
	structTab = map[keyKind][]key{}
	for _, kind := range []keyKind{kSM2, kP256} {
		for cl := structClass(0); cl < nStructClasses; cl++ {
			d := hexInt(structScalars[kind][cl])
			var k key
			var x, y *big.Int
			if kind == kSM2 {
				p, err := sm2.NewPrivateKeyFromInt(d)
				if err != nil {
					structErr = fmt.Errorf("structured SM2 key %v: %w", cl, err)
					return
				}
				k = key{kind: kSM2, priv: p, pub: &p.PublicKey}
				x, y = p.PublicKey.X, p.PublicKey.Y
				// the class must hold for the true coordinates, not only for what the library computed
				rp := refec.BaseMul(d)
				if rp.Inf || rp.X.Cmp(x) != 0 || rp.Y.Cmp(y) != 0 {
					structErr = fmt.Errorf("structured SM2 key %v: library public key differs from the reference [d]G", cl)
					return
				}
			} else {
				c := elliptic.P256()
				x, y = c.ScalarBaseMult(d.FillBytes(make([]byte, 32)))
				p := &ecdsa.PrivateKey{PublicKey: ecdsa.PublicKey{Curve: c, X: x, Y: y}, D: d}
				k = key{kind: kP256, priv: p, pub: &p.PublicKey}
			}
			if !cl.holds(d, x, y) {
				structErr = fmt.Errorf("structured %v key %v: class predicate does not hold (x=%x y=%x)", kind, cl, x, y)
				return
			}
			k.note = cl.String()
			structTab[kind] = append(structTab[kind], k)
		}
	}
}

// structKey returns the structured key of a class (kind kSM2 or kP256).
func structKey(kind keyKind, cl structClass) key {
	structOnce.Do(buildStructKeys)
	return structTab[kind][cl]
}

func structSelfTest() error {
	structOnce.Do(buildStructKeys)
	return structErr
}

// pubBytes is the content of the subjectPublicKey BIT STRING the standards prescribe
// for the key, computed without the library: fixed-width uncompressed point for EC keys
// (SEC 1 2.3.3 / GB/T 32918.1 4.2.9), RFC 8410 for Ed25519, PKCS#1 RSAPublicKey for RSA.
func pubBytes(k key) []byte {
	switch p := k.pub.(type) {
	case *ecdsa.PublicKey:
		n := (p.Curve.Params().BitSize + 7) / 8
		out := make([]byte, 1+2*n)
		out[0] = 4
		p.X.FillBytes(out[1 : 1+n])
		p.Y.FillBytes(out[1+n:])
		return out
	case ed25519.PublicKey:
		return p
	case *rsa.PublicKey:
		return x509.MarshalPKCS1PublicKey(p)
	}
	return nil
}
