package c15

import (
	"bytes"
	"crypto/x509"
	"encoding/pem"
	"errors"
	"fmt"
	"sort"
	"strings"
	"time"

	"github.com/emmansun/gmsm/smx509"

	"verifh/mon"
	"verifh/wl/reg"
)

// c15.pools: histories of CertPool objects. The chain workload hands Verify pools that
// were filled in one go; here the pools of a generated PKI are built the way programs
// build trust stores: a common base pool, clones of it that are extended separately
// (AddCert, AppendCertsFromPEM with one or several blocks, AddCertWithConstraint), clones
// of clones, duplicate and refused additions, interleaved with Verify calls that use
// any pool as Roots and any pool (or none, or the same one) as Intermediates. Every pool
// object has a model (the list of certificates added to it and the constraint of each
// entry); the verdict of every Verify is judged by the ground truth of chains.go with
// the pool models as trust-anchor and intermediate sets: a chain may only end in a
// certificate that was added to the very pool given as Roots and may only pass through
// certificates of the pool given as Intermediates, and a valid chain through the pools'
// contents must be found. Subjects and Equal are compared with the models as well.

func init() { reg.Register("c15.pools", "C15", pools) }

// ---- constraints attached to pool entries (AddCertWithConstraint) ----

const (
	consRefuseAll  = iota + 1 // refuses every chain
	consAllowAll              // accepts every chain
	consRefuseLeaf            // refuses chains that start at certificate arg
	consRefuseVia             // refuses chains that contain certificate arg (never the entry itself)
)

type poolCons struct {
	kind, arg int
	calls     int    // calls by the library
	bad       string // first malformed argument the library passed
}

func (pc *poolCons) String() string {
	return [...]string{"", "refuse-all", "allow-all", "refuse-leaf#", "refuse-via#"}[pc.kind] + map[bool]string{true: fmt.Sprint(pc.arg), false: ""}[pc.kind >= consRefuseLeaf]
}

// refuses is the rule, on certificate indices (leaf first, the constrained entry itself
// not included). The rules do not depend on whether the entry is part of the argument,
// which the documentation leaves open.
func (pc *poolCons) refuses(_ *topo, below []int) string {
	switch pc.kind {
	case consRefuseAll:
		return "it refuses every chain"
	case consRefuseLeaf:
		if len(below) > 0 && below[0] == pc.arg {
			return fmt.Sprintf("it refuses chains of certificate #%d", pc.arg)
		}
	case consRefuseVia:
		for _, j := range below {
			if j == pc.arg {
				return fmt.Sprintf("it refuses chains through certificate #%d", pc.arg)
			}
		}
	}
	return ""
}

// fn is the function the library gets for the entry of certificate self.
func (pc *poolCons) fn(in *instance, self int) func([]*smx509.Certificate) error {
	return func(chain []*smx509.Certificate) error {
		pc.calls++
		var idx []int
		for _, ce := range chain {
			j, ok := -1, false
			if ce != nil {
				j, ok = in.byRaw[string(ce.Raw)]
			}
			if !ok && pc.bad == "" {
				pc.bad = fmt.Sprintf("the constraint of #%d was called with a chain of %d elements containing a certificate that is not part of the PKI", self, len(chain))
			}
			idx = append(idx, j)
		}
		if len(idx) == 0 && pc.bad == "" {
			pc.bad = fmt.Sprintf("the constraint of #%d was called with an empty chain", self)
		}
		if n := len(idx); n > 0 && idx[n-1] == self {
			idx = idx[:n-1]
		}
		if why := pc.refuses(nil, idx); why != "" {
			return errors.New("verif pool constraint: " + why)
		}
		return nil
	}
}

// ---- pool models ----

type poolModel struct {
	name    string
	lib     *smx509.CertPool
	entries []int // certificates in the order they were added
	has     map[int]bool
	hist    []string
}

func newPoolModel(name string) *poolModel {
	return &poolModel{name: name, lib: smx509.NewCertPool(), has: map[int]bool{}, hist: []string{"new"}}
}

func (pm *poolModel) String() string {
	return fmt.Sprintf("%s%v{%s}", pm.name, pm.entries, strings.Join(pm.hist, " "))
}

func (pm *poolModel) note(c int) {
	if !pm.has[c] {
		pm.has[c] = true
		pm.entries = append(pm.entries, c)
	}
}

type poolScript struct {
	c     *mon.Case
	r     *mon.Rand
	t     *topo
	in    *instance
	cons  []*poolCons // per certificate: the constraint it is always added with (nil: none)
	pools []*poolModel
}

func pemOf(der []byte) []byte {
	return pem.EncodeToMemory(&pem.Block{Type: "CERTIFICATE", Bytes: der})
}

// add puts certificate k into pool pm with one of the adding entry points.
func (ps *poolScript) add(pm *poolModel, k int) {
	c, in := ps.c, ps.in
	switch {
	case ps.cons[k] != nil:
		c.Call("AddCertWithConstraint", func() { pm.lib.AddCertWithConstraint(in.sm[k], ps.cons[k].fn(in, k)) })
		pm.hist = append(pm.hist, fmt.Sprintf("+c%d", k))
		c.Event("pool_ops/AddCertWithConstraint", 1)
	case ps.r.Bool():
		c.Call("AddCert", func() { pm.lib.AddCert(in.sm[k]) })
		pm.hist = append(pm.hist, fmt.Sprintf("+%d", k))
		c.Event("pool_ops/AddCert", 1)
	default:
		ps.appendPEM(pm, []int{k}, false)
	}
	pm.note(k)
}

// appendPEM adds the certificates ks (none of them constrained) with one
// AppendCertsFromPEM call; junk puts blocks between them that must be skipped.
func (ps *poolScript) appendPEM(pm *poolModel, ks []int, junk bool) {
	c, in, r := ps.c, ps.in, ps.r
	var buf bytes.Buffer
	skip := func() {
		switch r.Intn(5) {
		case 0:
			buf.WriteString("some text between the blocks\n")
		case 1: // other block type
			pem.Encode(&buf, &pem.Block{Type: "X509 CRL", Bytes: in.der[r.Intn(len(in.der))]})
		case 2: // headers: not a plain certificate block
			pem.Encode(&buf, &pem.Block{Type: "CERTIFICATE", Headers: map[string]string{"Proc-Type": "4,ENCRYPTED"}, Bytes: in.der[r.Intn(len(in.der))]})
		case 3: // not a certificate
			pem.Encode(&buf, &pem.Block{Type: "CERTIFICATE", Bytes: r.Bytes(r.Range(1, 60))})
		case 4: // truncated certificate
			d := in.der[r.Intn(len(in.der))]
			pem.Encode(&buf, &pem.Block{Type: "CERTIFICATE", Bytes: d[:len(d)-1-r.Intn(len(d)/2)]})
		}
	}
	for _, k := range ks {
		if junk && r.Bool() {
			skip()
		}
		buf.Write(pemOf(in.der[k]))
	}
	if junk && (len(ks) == 0 || r.Bool()) {
		skip()
	}
	data := buf.Bytes()
	var ok bool
	if !c.Call("AppendCertsFromPEM", func() { ok = pm.lib.AppendCertsFromPEM(data) }) {
		return
	}
	if ok != (len(ks) > 0) {
		c.Fail("mismatch", "AppendCertsFromPEM on pool %s with %d certificate blocks (junk=%v) returned %v", pm.name, len(ks), junk, ok)
	}
	// the caller's buffer is the caller's: the pool must not depend on it afterwards
	for i := range data {
		data[i] = 'x'
	}
	for _, k := range ks {
		pm.note(k)
	}
	pm.hist = append(pm.hist, fmt.Sprintf("+pem%v", ks))
	c.Event("pool_ops/AppendCertsFromPEM", 1)
	if junk {
		c.Event("pool_ops/AppendCertsFromPEM_with_blocks_to_skip", 1)
	}
}

func (ps *poolScript) clone(src *poolModel, name string) *poolModel {
	pm := &poolModel{name: name, has: map[int]bool{}, entries: append([]int(nil), src.entries...),
		hist: []string{fmt.Sprintf("clone(%s@%d)", src.name, len(src.entries))}}
	for k := range src.has {
		pm.has[k] = true
	}
	if !ps.c.Call("CertPool.Clone", func() { pm.lib = src.lib.Clone() }) || pm.lib == nil {
		ps.c.Fail("mismatch", "Clone of pool %s returned nil", src.name)
		pm.lib = smx509.NewCertPool()
		pm.entries, pm.has = nil, map[int]bool{}
	}
	ps.pools = append(ps.pools, pm)
	ps.c.Event("pool_ops/Clone", 1)
	ps.c.Event(fmt.Sprintf("pool_ops/Clone_of_a_pool_with_%s_entries", bucket(len(src.entries))), 1)
	return pm
}

func bucket(n int) string {
	if n >= 8 {
		return "8+"
	}
	return fmt.Sprint(n)
}

// checkContents compares Subjects with the model (as a multiset: the order is not documented).
func (ps *poolScript) checkContents(pm *poolModel) {
	c := ps.c
	var got [][]byte
	if !c.Call("CertPool.Subjects", func() { got = pm.lib.Subjects() }) {
		return
	}
	var g, w []string
	for _, s := range got {
		g = append(g, string(s))
	}
	for _, k := range pm.entries {
		w = append(w, string(ps.in.sm[k].RawSubject))
	}
	sort.Strings(g)
	sort.Strings(w)
	c.Event("pool_contents_compared_with_model", 1)
	if strings.Join(g, "\x00") != strings.Join(w, "\x00") {
		c.Fail("mismatch", "pool %s: Subjects() returns %d subjects %q, the certificates added to this pool have the %d subjects %q",
			pm, len(g), ps.commonNames(g), len(w), ps.commonNames(w))
	}
}

// commonNames names the certificates of the PKI that have the given raw subjects.
func (ps *poolScript) commonNames(raw []string) []string {
	var out []string
next:
	for _, s := range raw {
		for k, ce := range ps.in.sm {
			if string(ce.RawSubject) == s {
				out = append(out, ps.t.certs[k].name)
				continue next
			}
		}
		out = append(out, fmt.Sprintf("unknown subject %x", s))
	}
	return out
}

func (ps *poolScript) checkEqual(a, b *poolModel) {
	c := ps.c
	want := len(a.entries) == len(b.entries)
	for k := range a.has {
		want = want && b.has[k]
	}
	var got, rev bool
	if !c.Call("CertPool.Equal", func() { got, rev = a.lib.Equal(b.lib), b.lib.Equal(a.lib) }) {
		return
	}
	c.Event("pool_Equal_compared_with_model", 1)
	if got != want || rev != want {
		c.Fail("mismatch", "pools %s and %s: Equal gives %v / %v (reversed), the sets of added certificates are equal=%v", a, b, got, rev, want)
	}
}

// verify asks for target with pool ro as Roots and pool it as Intermediates (nil: none)
// and judges the answer with the pool models as ground truth.
func (ps *poolScript) verify(target int, ro, it *poolModel, at time.Time, usages []x509.ExtKeyUsage) {
	c, t, in := ps.c, ps.t, ps.in
	n := len(t.certs)
	t.mRoots, t.mInter = make([]bool, n), make([]bool, n)
	t.cRoots, t.cInter = make([]*poolCons, n), make([]*poolCons, n)
	defer func() { t.mRoots, t.mInter, t.cRoots, t.cInter = nil, nil, nil, nil }()
	for _, k := range ro.entries {
		t.mRoots[k], t.cRoots[k] = true, ps.cons[k]
	}
	var itLib *smx509.CertPool
	itName := "nil"
	if it != nil {
		for _, k := range it.entries {
			t.mInter[k], t.cInter[k] = true, ps.cons[k]
		}
		itLib, itName = it.lib, it.String()
	}
	q := &query{target: target, at: at, usages: usages, noInter: it == nil}
	amb := false
	var validStrict [][]int
	paths := t.allPaths(target)
	for _, p := range paths {
		if t.trivial(p) && t.pathValid(p, q, true, &amb) == "" {
			validStrict = append(validStrict, p)
		}
	}
	qd := fmt.Sprintf("Verify(%s#%d, time=%d, usages=%s, Roots=pool %s, Intermediates=pool %s)", t.certs[target].name, target, at.Unix(), usageString(usages), ro, itName)
	_, ok, done := verifySM(c, t, in, in.sm[target], ro.lib, itLib, q, qd, validStrict, &amb, true)
	if done {
		c.Event(fmt.Sprintf("pool_verify/ground_truth_has_chain=%v/accepted=%v", len(validStrict) > 0, ok), 1)
	}
	for k, pc := range ps.cons {
		if pc != nil && pc.bad != "" {
			c.Fail("mismatch", "%s: %s", qd, pc.bad)
			ps.cons[k].bad = ""
		}
	}
}

func pools(x *mon.Ctx) {
	if err := selfTest(); err != nil {
		x.HarnessError("%v", err)
	}
	n := x.Scale(800, 12000)
	for i := 0; i < n; i++ {
		c := x.Begin("pool history #%d on a PKI of recipe=%s with %s keys (PKI, fillers, same-subject CAs and the script of pool operations from the case PRNG)", i, recipeName(i), poolInstKind(i))
		if c == nil {
			continue
		}
		runPools(c, i)
		c.End()
	}
}

func poolInstKind(i int) string { return [...]string{"sm2", "mixed", "ecdsa"}[(i/3)%3] }

func runPools(c *mon.Case, i int) {
	splitLibRand(c)
	r := c.R
	t := genTopo(r, i)
	// a CA that only shares the subject of the root (unrelated key) with a leaf of its own:
	// accepted only under pools that hold this CA
	rogue := caSpec(r, t.root().name, t.newKey(), -1)
	ri := t.add(rogue)
	rl := leafSpec(r, "RogueLeaf", t.newKey(), ri)
	t.add(rl)
	// fillers: self-signed CAs under one further key, some with the subject of a CA of the PKI
	var caNames []string
	for _, s := range t.certs {
		if s.ca {
			caNames = append(caNames, s.name)
		}
	}
	fk := t.newKey()
	var fillers []int
	isFiller := map[int]bool{}
	sameName := 0
	for k, nf := 0, r.Intn(10); k < nf; k++ {
		name := fmt.Sprintf("Filler%d", k)
		if r.Intn(4) == 0 && sameName < 2 { // at most two: Verify's budget of signature checks is not the subject here
			name = pick(r, caNames)
			sameName++
		}
		fillers = append(fillers, t.add(caSpec(r, name, fk, -1)))
		isFiller[fillers[k]] = true
	}
	// one history in three: a cluster of 4..6 CAs with one subject and different keys (one of
	// them has issued a leaf), part of it in the base pool, the others added to the clones
	var clusterRest []int
	if r.Intn(3) == 0 {
		var cl []int
		for k, n := 0, r.Range(4, 6); k < n; k++ {
			cl = append(cl, t.add(caSpec(r, "Cluster", t.newKey(), -1)))
		}
		t.add(leafSpec(r, "ClusterLeaf", t.newKey(), cl[r.Intn(len(cl))]))
		nb := r.Range(2, len(cl)-1)
		for _, k := range cl[:nb] {
			fillers = append(fillers, k)
			isFiller[k] = true
		}
		clusterRest = cl[nb:]
		t.notes = append(t.notes, fmt.Sprintf("cluster of %d same-subject CAs, %d of them in the base pool", len(cl), nb))
	}
	c.Detail("topology", t.describe())
	c.Detail("notes", strings.Join(t.notes, "; "))

	keys := make([]key, t.nkeys)
	rsaUsed := 0
	for k := range keys {
		kind := kSM2
		switch (i / 3) % 3 {
		case 1:
			kind = []keyKind{kSM2, kSM2, kP256, kP256, kEd25519, kEd25519, kRSA, kP384}[r.Intn(8)]
			if kind == kRSA {
				if rsaUsed == 3 {
					kind = kP256
				} else {
					rsaUsed++
				}
			}
		case 2:
			kind = kP256
		}
		var err error
		if keys[k], err = newKey(r, kind, rsaUsed); err != nil {
			c.Fail("reject", "key generation: %v", err)
			return
		}
	}
	in, err := t.build(c, poolInstKind(i), keys, false, false)
	if err != nil {
		c.Fail("reject", "the certificates of a well-formed topology could not be created/parsed: %v", err)
		return
	}
	c.Event("certificates_created", len(in.der))

	ps := &poolScript{c: c, r: r, t: t, in: in, cons: make([]*poolCons, len(t.certs))}
	var targets []int
	for k, s := range t.certs {
		if s.target {
			targets = append(targets, k)
		}
	}
	// constraints: a few CA certificates are always added together with a constraint
	if r.Intn(3) == 0 {
		for k, s := range t.certs {
			if s.target || !s.ca || r.Intn(3) > 0 {
				continue
			}
			pc := &poolCons{kind: r.Range(consRefuseAll, consRefuseVia)}
			switch pc.kind {
			case consRefuseLeaf:
				pc.arg = targets[r.Intn(len(targets))]
			case consRefuseVia:
				if pc.arg = r.Intn(len(t.certs)); pc.arg == k {
					pc.kind = consAllowAll
				}
			}
			ps.cons[k] = pc
			t.notes = append(t.notes, fmt.Sprintf("#%d is added with constraint %s", k, pc))
		}
	}
	plain := func(ks []int) (out []int) {
		for _, k := range ks {
			if ps.cons[k] == nil {
				out = append(out, k)
			}
		}
		return
	}

	// the base pool: fillers added one at a time or in PEM bundles
	base := newPoolModel("base")
	ps.pools = append(ps.pools, base)
	for rest := fillers; len(rest) > 0; {
		if n := r.Range(1, 3); r.Intn(3) == 0 && len(plain(rest[:min(n, len(rest))])) == min(n, len(rest)) {
			n = min(n, len(rest))
			ps.appendPEM(base, rest[:n], r.Bool())
			rest = rest[n:]
		} else {
			ps.add(base, rest[0])
			rest = rest[1:]
		}
	}
	// the three pools a verifier works with start as clones of the base (or, one time in
	// four, empty): trust anchors, intermediates, and a pool of another application
	mk := func(name string) *poolModel {
		if r.Intn(4) == 0 {
			pm := newPoolModel(name)
			ps.pools = append(ps.pools, pm)
			return pm
		}
		return ps.clone(base, name)
	}
	R, I, O := mk("R"), mk("I"), mk("O")

	type pending struct {
		cert int
		to   *poolModel
	}
	var todo []pending
	for k, s := range t.certs {
		if s.roots {
			todo = append(todo, pending{k, R})
		}
		if s.inter {
			todo = append(todo, pending{k, I})
		}
		if !s.roots && !s.inter && !s.target && !isFiller[k] && k != ri && s.name != "Cluster" && r.Bool() {
			todo = append(todo, pending{k, O})
		}
	}
	todo = append(todo, pending{ri, O})
	for _, k := range clusterRest {
		todo = append(todo, pending{k, []*poolModel{R, I, O}[r.Intn(3)]})
	}
	// the shuffle keeps the additions to one pool apart, so that the pools grow alternately
	perm := r.Perm(len(todo))
	times := []time.Time{t0, t0, t0.Add(time.Duration(r.Range(-20*86400, 20*86400)) * time.Second)}
	randomQuery := func() {
		ro, it := ps.pools[r.Intn(len(ps.pools))], ps.pools[r.Intn(len(ps.pools))]
		if r.Bool() {
			ro, it = R, I
		}
		if r.Intn(6) == 0 {
			it = nil
		}
		u := usageSets[1] // any usage: the pools decide
		if r.Intn(3) == 0 {
			u = usageSets[r.Intn(len(usageSets))]
		}
		ps.verify(targets[r.Intn(len(targets))], ro, it, times[r.Intn(len(times))], u)
	}
	for _, pi := range perm {
		p := todo[pi]
		dest := p.to
		if r.Intn(6) == 0 {
			dest = ps.pools[r.Intn(len(ps.pools))]
		}
		ps.add(dest, p.cert)
		switch r.Intn(8) {
		case 0, 1:
			if len(ps.pools) < 8 {
				src := ps.pools[r.Intn(len(ps.pools))]
				ps.clone(src, fmt.Sprintf("C%d", len(ps.pools)))
			}
		case 2, 3:
			randomQuery()
		case 4:
			// additions that must change nothing: an entry that is there already (through either
			// entry point), a bundle without any certificate
			pm := ps.pools[r.Intn(len(ps.pools))]
			if len(pm.entries) > 0 && r.Bool() {
				ps.add(pm, pm.entries[r.Intn(len(pm.entries))])
				c.Event("pool_ops/duplicate_addition", 1)
			} else {
				ps.appendPEM(pm, nil, true)
			}
			ps.checkContents(pm)
		case 5:
			ps.checkContents(ps.pools[r.Intn(len(ps.pools))])
			ps.checkEqual(ps.pools[r.Intn(len(ps.pools))], ps.pools[r.Intn(len(ps.pools))])
		case 6:
			// a bundle of several certificates for one pool
			if ks := plain(subsetInts(r, len(t.certs), r.Range(2, 3))); len(ks) > 0 {
				ps.appendPEM(ps.pools[r.Intn(len(ps.pools))], ks, r.Bool())
			}
		}
	}

	// final state: every pool against its model, and every pool as Roots for every target
	for _, pm := range ps.pools {
		ps.checkContents(pm)
	}
	for a := range ps.pools {
		for b := a + 1; b < len(ps.pools); b++ {
			ps.checkEqual(ps.pools[a], ps.pools[b])
		}
	}
	var nilPool *smx509.CertPool
	if !nilPool.Equal(nil) || nilPool.Equal(R.lib) || R.lib.Equal(nil) {
		c.Fail("mismatch", "Equal with nil pools: nil.Equal(nil)=%v nil.Equal(R)=%v R.Equal(nil)=%v", nilPool.Equal(nil), nilPool.Equal(R.lib), R.lib.Equal(nil))
	}
	for _, tg := range targets {
		for _, pm := range ps.pools {
			it := I
			switch r.Intn(8) {
			case 0:
				it = pm // one pool in both roles
			case 1:
				it = nil
			case 2:
				it = ps.pools[r.Intn(len(ps.pools))]
			}
			ps.verify(tg, pm, it, t0, usageSets[1])
		}
		ps.verify(tg, R, I, times[2], usageSets[r.Intn(len(usageSets))])
		ps.verify(tg, I, R, t0, usageSets[1]) // roles exchanged
	}
	calls := 0
	for _, pc := range ps.cons {
		if pc != nil {
			calls += pc.calls
		}
	}
	c.Event("pool_constraint_calls", calls)
	c.Event("pools_per_history", len(ps.pools))
	c.Class("pools/%s/%s/pools=%d/fillers=%s", poolInstKind(i), t.recipe, len(ps.pools), bucket(len(fillers)))
}

func subsetInts(r *mon.Rand, n, k int) []int {
	p := r.Perm(n)
	if k > n {
		k = n
	}
	return p[:k]
}
