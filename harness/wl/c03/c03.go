// Package c03 decides property C03 (cipher modes over SM4): the library's ECB, CBC,
// CFB, OFB, CTR, XTS (IEEE and GB/T 17964 conventions), BC, OFBNLF and HCTR are
// executed on every length residue, on counters that carry, in place and into
// separate buffers, in one call and through call partitions, always from
// guard-page buffers, and compared with the definitions of verifh/ref/modes over
// verifh/ref/sm4. Three library code paths are driven with the same inputs: the
// fused fast path (block as returned by sm4.NewCipher), the generic composition
// (block hidden behind BlockSize/Encrypt/Decrypt) and the batched path (block that
// additionally exposes only Concurrency/EncryptBlocks/DecryptBlocks).
package c03

import (
	"bytes"
	"crypto/cipher"
	"fmt"
	"strings"

	gcipher "github.com/emmansun/gmsm/cipher"
	"github.com/emmansun/gmsm/sm4"

	"verifh/mon"
	"verifh/ref/modes"
	refsm4 "verifh/ref/sm4"
	"verifh/wl/reg"
)

func init() {
	reg.Register("c03.oneshot", "C03", oneshotWL)
	reg.Register("c03.stream", "C03", streamWL)
}

func selftest(x *mon.Ctx) {
	if err := modes.SelfTest(); err != nil {
		x.HarnessError("%v", err)
	}
	if err := bugModelSelfTest(); err != nil {
		x.HarnessError("%v", err)
	}
	batch := 0
	if b, err := sm4.NewCipher(make([]byte, 16)); err == nil {
		if cb, ok := b.(concB); ok {
			batch = cb.Concurrency() * 16
		}
	}
	x.Note("batched path: the library's block offers batches of %d bytes (0 = no batch interface in this configuration; emulated block by block with batches of %d bytes)", batch, loopBatch*16)
}

// raceBuild: the race/checkptr variant is 4-5 times slower; it keeps the full
// lattice and drops repetitions.
func raceBuild(x *mon.Ctx) bool { return strings.HasPrefix(x.Variant, "race") }

// ---------------------------------------------------------------------------
// the three library paths

const (
	pFused   = "fused"
	pGeneric = "generic"
	pBatched = "batched"
)

// opaque hides every fast-path interface of the block: the mode constructors of
// crypto/cipher and gmsm/cipher fall back to their generic Go compositions.
type opaque struct{ b cipher.Block }

func (o opaque) BlockSize() int          { return o.b.BlockSize() }
func (o opaque) Encrypt(dst, src []byte) { o.b.Encrypt(dst, src) }
func (o opaque) Decrypt(dst, src []byte) { o.b.Decrypt(dst, src) }

type concB interface {
	Concurrency() int
	EncryptBlocks(dst, src []byte)
	DecryptBlocks(dst, src []byte)
}

// batched exposes cipher.Block plus the batch interface of the library's block
// and nothing else: gmsm's generic XTS and HCTR take their concurrentBlocks branches.
type batched struct {
	opaque
	c concB
}

func (b batched) Concurrency() int              { return b.c.Concurrency() }
func (b batched) EncryptBlocks(dst, src []byte) { b.c.EncryptBlocks(dst, src) }
func (b batched) DecryptBlocks(dst, src []byte) { b.c.DecryptBlocks(dst, src) }

// loopBatched is used where the library's block has no batch interface (table
// driven Go cipher: cpu.aes=off and purego): a batch of 4 is emulated block by
// block so that the concurrentBlocks branches of the generic XTS and HCTR code
// still execute there.
type loopBatched struct{ opaque }

const loopBatch = 4

func (b loopBatched) Concurrency() int { return loopBatch }
func (b loopBatched) EncryptBlocks(dst, src []byte) {
	for i := 0; i < loopBatch*16; i += 16 {
		b.b.Encrypt(dst[i:i+16], src[i:i+16])
	}
}
func (b loopBatched) DecryptBlocks(dst, src []byte) {
	for i := 0; i < loopBatch*16; i += 16 {
		b.b.Decrypt(dst[i:i+16], src[i:i+16])
	}
}

func creator(path string) gcipher.CipherCreator {
	switch path {
	case pFused:
		return sm4.NewCipher
	case pGeneric:
		return func(k []byte) (cipher.Block, error) {
			b, err := sm4.NewCipher(k)
			if err != nil {
				return nil, err
			}
			return opaque{b}, nil
		}
	}
	return func(k []byte) (cipher.Block, error) {
		b, err := sm4.NewCipher(k)
		if err != nil {
			return nil, err
		}
		if cb, ok := b.(concB); ok {
			return batched{opaque{b}, cb}, nil
		}
		return loopBatched{opaque{b}}, nil
	}
}

// ---------------------------------------------------------------------------
// modes

type spec struct {
	mode string // ecb cbc cfb ofb ctr xts xtsgb bc ofbnlf hctr
	dir  string // enc dec
}

func (s spec) String() string { return s.mode + "/" + s.dir }

// gran is the granularity of admissible lengths, min the smallest one.
func (s spec) gran() int {
	switch s.mode {
	case "ecb", "cbc", "bc", "ofbnlf":
		return 16
	}
	return 1
}

func (s spec) min() int {
	switch s.mode {
	case "xts", "xtsgb", "hctr":
		return 16
	}
	return 0
}

func (s spec) isXTS() bool { return s.mode == "xts" || s.mode == "xtsgb" }

// paths lists the library paths worth driving for the mode: the batch interface
// is consulted only by the generic XTS and HCTR code.
func (s spec) paths() []string {
	if s.isXTS() || s.mode == "hctr" {
		return []string{pFused, pGeneric, pBatched}
	}
	return []string{pFused, pGeneric}
}

func (s spec) opposite() spec {
	switch s.mode {
	case "ofb", "ctr":
		return s
	}
	if s.dir == "enc" {
		return spec{s.mode, "dec"}
	}
	return spec{s.mode, "enc"}
}

var allSpecs = []spec{
	{"ecb", "enc"}, {"ecb", "dec"}, {"cbc", "enc"}, {"cbc", "dec"},
	{"cfb", "enc"}, {"cfb", "dec"}, {"ofb", "enc"}, {"ctr", "enc"},
	{"xts", "enc"}, {"xts", "dec"}, {"xtsgb", "enc"}, {"xtsgb", "dec"},
	{"bc", "enc"}, {"bc", "dec"}, {"ofbnlf", "enc"}, {"ofbnlf", "dec"},
	{"hctr", "enc"}, {"hctr", "dec"},
}

// material is the keying material of one case. iv doubles as XTS/HCTR tweak,
// key2 as XTS tweak key and HCTR hash key.
type material struct {
	key, key2, iv []byte
	sector        uint64
	useSector     bool // XTS: build through the ...WithSector constructor
	ivKind        string
}

// iv kinds per mode
func ivKinds(s spec) []string {
	switch {
	case s.mode == "ctr":
		return []string{"rand", "ff", "c32", "c64", "c128"}
	case s.isXTS():
		return []string{"tweak", "sector"}
	case s.mode == "ecb":
		return []string{"-"}
	}
	return []string{"rand"}
}

func genMaterial(r *mon.Rand, s spec, ivKind string) *material {
	m := &material{key: r.Bytes(16), key2: r.Bytes(16), iv: r.Bytes(16), ivKind: ivKind}
	// counters: 2^k - d, so that the carry out of the low k bits happens after d
	// blocks (d = 1: the low k bits are all ones)
	d := 1
	if r.Intn(4) != 0 {
		d = r.Range(1, 40)
	}
	sub := func(lo int) { // iv[lo:16] = 2^(8*(16-lo)) - d
		for i := lo; i < 16; i++ {
			m.iv[i] = 0xff
		}
		m.iv[15] -= byte(d - 1)
	}
	switch ivKind {
	case "ff":
		sub(0)
		m.iv[15] = 0xff
	case "c32":
		sub(12)
	case "c64":
		sub(8)
	case "c128":
		sub(0)
	case "sector":
		m.useSector = true
		m.sector = r.Uint64()
		if r.Intn(4) == 0 {
			m.sector = uint64(r.Intn(1000))
		}
		m.iv = modes.SectorTweak(m.sector)
	}
	return m
}

func refBlock(key []byte) modes.Block { return refsm4.New(key) }

// reference applies the textbook definition to src.
func reference(s spec, m *material, src []byte) []byte {
	b := refsm4.New(m.key)
	enc := s.dir == "enc"
	switch s.mode {
	case "ecb":
		if enc {
			return modes.ECBEncrypt(b, src)
		}
		return modes.ECBDecrypt(b, src)
	case "cbc":
		if enc {
			return modes.CBCEncrypt(b, m.iv, src)
		}
		return modes.CBCDecrypt(b, m.iv, src)
	case "cfb":
		if enc {
			return modes.CFBEncrypt(b, m.iv, src)
		}
		return modes.CFBDecrypt(b, m.iv, src)
	case "ofb":
		return modes.OFB(b, m.iv, src)
	case "ctr":
		return modes.CTR(b, m.iv, src)
	case "xts", "xtsgb":
		conv := modes.IEEE
		if s.mode == "xtsgb" {
			conv = modes.GB
		}
		b2 := refsm4.New(m.key2)
		if enc {
			return modes.XTSEncrypt(b, b2, m.iv, conv, src)
		}
		return modes.XTSDecrypt(b, b2, m.iv, conv, src)
	case "bc":
		if enc {
			return modes.BCEncrypt(b, m.iv, src)
		}
		return modes.BCDecrypt(b, m.iv, src)
	case "ofbnlf":
		if enc {
			return modes.OFBNLFEncrypt(refBlock, m.key, m.iv, src)
		}
		return modes.OFBNLFDecrypt(refBlock, m.key, m.iv, src)
	case "hctr":
		if enc {
			return modes.HCTREncrypt(b, m.iv, m.key2, src)
		}
		return modes.HCTRDecrypt(b, m.iv, m.key2, src)
	}
	panic("c03: unknown mode " + s.mode)
}

// build constructs the library's mode object on the given path from keying
// material that lives in guarded buffers and returns its processing function.
func build(s spec, path string, key, key2, iv []byte, m *material) (func(dst, src []byte), error) {
	cf := creator(path)
	enc := s.dir == "enc"
	blockMode := func(bm cipher.BlockMode, err error) (func(dst, src []byte), error) {
		if err != nil {
			return nil, err
		}
		if bm.BlockSize() != 16 {
			return nil, fmt.Errorf("BlockSize() = %d", bm.BlockSize())
		}
		return bm.CryptBlocks, nil
	}
	switch s.mode {
	case "xts":
		switch {
		case enc && m.useSector:
			return blockMode(gcipher.NewXTSEncrypterWithSector(cf, key, key2, m.sector))
		case enc:
			return blockMode(gcipher.NewXTSEncrypter(cf, key, key2, iv))
		case m.useSector:
			return blockMode(gcipher.NewXTSDecrypterWithSector(cf, key, key2, m.sector))
		}
		return blockMode(gcipher.NewXTSDecrypter(cf, key, key2, iv))
	case "xtsgb":
		switch {
		case enc && m.useSector:
			return blockMode(gcipher.NewGBXTSEncrypterWithSector(cf, key, key2, m.sector))
		case enc:
			return blockMode(gcipher.NewGBXTSEncrypter(cf, key, key2, iv))
		case m.useSector:
			return blockMode(gcipher.NewGBXTSDecrypterWithSector(cf, key, key2, m.sector))
		}
		return blockMode(gcipher.NewGBXTSDecrypter(cf, key, key2, iv))
	case "ofbnlf":
		if enc {
			return blockMode(gcipher.NewOFBNLFEncrypter(cf, key, iv))
		}
		return blockMode(gcipher.NewOFBNLFDecrypter(cf, key, iv))
	}
	b, err := cf(key)
	if err != nil {
		return nil, err
	}
	switch s.mode {
	case "ecb":
		if enc {
			return blockMode(gcipher.NewECBEncrypter(b), nil)
		}
		return blockMode(gcipher.NewECBDecrypter(b), nil)
	case "cbc":
		if enc {
			return blockMode(cipher.NewCBCEncrypter(b, iv), nil)
		}
		return blockMode(cipher.NewCBCDecrypter(b, iv), nil)
	case "bc":
		if enc {
			return blockMode(gcipher.NewBCEncrypter(b, iv), nil)
		}
		return blockMode(gcipher.NewBCDecrypter(b, iv), nil)
	case "cfb":
		if enc {
			return cipher.NewCFBEncrypter(b, iv).XORKeyStream, nil
		}
		return cipher.NewCFBDecrypter(b, iv).XORKeyStream, nil
	case "ofb":
		return cipher.NewOFB(b, iv).XORKeyStream, nil
	case "ctr":
		return cipher.NewCTR(b, iv).XORKeyStream, nil
	case "hctr":
		h, err := gcipher.NewHCTR(b, iv, key2)
		if err != nil {
			return nil, err
		}
		if h.BlockSize() != 16 {
			return nil, fmt.Errorf("BlockSize() = %d", h.BlockSize())
		}
		if enc {
			return h.EncryptBytes, nil
		}
		return h.DecryptBytes, nil
	}
	panic("c03: unknown mode " + s.mode)
}

// ---------------------------------------------------------------------------
// guarded buffers of a workload

type bufs struct {
	dst, src, key, key2, iv *mon.Guard
}

func newBufs(max int) *bufs {
	return &bufs{dst: mon.NewGuard(max), src: mon.NewGuard(max), key: mon.NewGuard(64), key2: mon.NewGuard(64), iv: mon.NewGuard(64)}
}

func (b *bufs) all() []*mon.Guard { return []*mon.Guard{b.dst, b.src, b.key, b.key2, b.iv} }

func (b *bufs) free() {
	for _, g := range b.all() {
		g.Free()
	}
}

// placement says where in their guarded regions the buffers of a case live.
//
//	hi   every buffer ENDS at the upper guard page (an overrun by one byte faults); with
//	     an odd length the start is misaligned as well
//	lo   every buffer STARTS at the lower guard page (an underrun faults); starts are page aligned
//	mis  chosen start misalignments: src, dst, key and iv/tweak start so/do/ko.. bytes
//	     after the lower guard page, offsets from {1, 8, 16, 24, 31} with src != dst (16
//	     is misaligned only for 32-byte loads). hi and lo hand out 16-byte aligned
//	     starts whenever the length is a multiple of 16, which would hide an aligned
//	     load or store (MOVDQA/VMOVDQA) applied to caller memory; here it faults.
type placement struct {
	kind   int
	so, do int // start offsets of src and dst (mis)
	ko     int // index into misOffsets for key, key2, iv (mis)
}

const (
	plHi = iota
	plLo
	plMis
)

var misOffsets = []int{1, 8, 16, 24, 31}

// misPlacement derives the offsets of the i-th misaligned case of a rotation: src
// walks through the offsets, dst is always a different one, the keying material a third.
func misPlacement(i int) placement {
	if i < 0 {
		i = -i
	}
	return placement{kind: plMis, so: misOffsets[i%5], do: misOffsets[(i+1+(i/5)%4)%5], ko: (i + 2 + (i/20)%3) % 5}
}

func (p placement) String() string {
	switch p.kind {
	case plHi:
		return "hi"
	case plLo:
		return "lo"
	}
	return fmt.Sprintf("mis(src+%d,dst+%d,key+%d)", p.so, p.do, misOffsets[p.ko])
}

// short is the class-key token of the placement.
func (p placement) short() string {
	switch p.kind {
	case plHi:
		return "hi"
	case plLo:
		return "lo"
	}
	return "mis"
}

func (p placement) buf(g *mon.Guard, n, off int) []byte {
	switch p.kind {
	case plHi:
		return g.Hi(n)
	case plLo:
		return g.Lo(n)
	}
	return g.Off(n, off)
}

func (p placement) putSrc(g *mon.Guard, b []byte) []byte {
	s := p.buf(g, len(b), p.so)
	copy(s, b)
	return s
}

func (p placement) getDst(g *mon.Guard, n int) []byte { return p.buf(g, n, p.do) }

// placed is the keying material of a case copied into guarded buffers.
type placed struct{ key, key2, iv []byte }

func (b *bufs) place(m *material, p placement) placed {
	put := func(g *mon.Guard, v []byte, k int) []byte {
		s := p.buf(g, len(v), misOffsets[(p.ko+k)%5])
		copy(s, v)
		return s
	}
	return placed{put(b.key, m.key, 0), put(b.key2, m.key2, 1), put(b.iv, m.iv, 2)}
}

// construct runs build under the panic/fault monitor and verifies that the
// constructor left the caller's key and IV alone and outside untouched.
func construct(c *mon.Case, bf *bufs, s spec, path string, p placed, m *material) func(dst, src []byte) {
	var f func(dst, src []byte)
	var err error
	what := "New " + s.String() + " (" + path + ")"
	// (re)fill the caller's buffers: an earlier construction of the case has overwritten them
	copy(p.key, m.key)
	copy(p.key2, m.key2)
	copy(p.iv, m.iv)
	if !c.Call(what, func() { f, err = build(s, path, p.key, p.key2, p.iv, m) }) {
		return nil
	}
	c.CheckGuards(what, bf.key, bf.key2, bf.iv)
	if err != nil {
		c.Fail("reject", "%s: constructor refused valid parameters: %v", what, err)
		return nil
	}
	if !bytes.Equal(p.key, m.key) || !bytes.Equal(p.key2, m.key2) || !bytes.Equal(p.iv, m.iv) {
		c.Event("observation/constructor_modified_caller_key_or_iv", 1)
	}
	// input-buffer independence: the object must own what it needs. The caller's key, second key and IV/tweak
	// buffers are overwritten now (the reference works on the private copies in m); every later output of the
	// object is still judged against the original values.
	for _, b := range [][]byte{p.key, p.key2, p.iv} {
		for i := range b {
			b[i] = 0xA5
		}
	}
	c.Event("caller_key_iv_buffers_overwritten_after_construction", 1)
	return f
}

// lenClass buckets a length by the number of whole blocks (bulk-loop phase).
func lenClass(n int) string {
	q := n / 16
	switch {
	case q <= 1:
		return fmt.Sprintf("b%d", q)
	case q < 4:
		return "b2-3"
	case q < 8:
		return "b4-7"
	case q < 16:
		return "b8-15"
	case q < 32:
		return "b16-31"
	case q < 64:
		return "b32-63"
	case q <= 65:
		return "b64-65"
	}
	return "long"
}

// call describes one observed library call for the judge.
type call struct {
	s    spec
	path string
	m    *material
}

// verdicts of judge
const (
	vOK              = iota
	vKnownInvertible // open finding whose defective map is still a permutation (the round trip stays demanded)
	vFail
)

// judge compares the library's output got for src = data[lo:hi] with the
// reference output want. A mismatch is a violation unless it is exactly what
// the bug model of an open finding predicts for this class of call. data is the
// whole message of a history (one-shot calls: lo = 0, hi = len(data)).
func judge(c *mon.Case, what string, k call, data []byte, lo, hi int, got, want []byte) int {
	c.Event("compare/"+k.path, 1)
	if bytes.Equal(got, want) {
		return vOK
	}
	s, m, src := k.s, k.m, data[lo:hi]
	if s.mode == "hctr" && hctrBugPredicate(len(src)) {
		c.Event("hctr_mismatch_in_known_class", 1)
		if bytes.Equal(got, hctrBugModel(m.key, m.iv, m.key2, src, s.dir == "dec")) {
			c.Event("known/hctr-tail-tweak", 1)
			c.Known("hctr-tail-tweak", "mismatch", "%s: HCTR %s of %d bytes ((len-16) mod 16 = %d) differs from the definition and equals the model in which the last hash block is built from tweak[r:] (cipher/hctr.go uhash)",
				what, s.dir, len(src), (len(src)-16)%16)
			return vKnownInvertible
		}
	}
	off := 0
	for off < len(got) && off < len(want) && got[off] == want[off] {
		off++
	}
	c.Detail("key", m.key)
	c.Detail("key2", m.key2)
	c.Detail("iv_or_tweak", m.iv)
	if m.useSector {
		c.Detail("sector", m.sector)
	}
	if lo != 0 || hi != len(data) {
		c.Detail("message", data)
		c.Detail("call_range", fmt.Sprintf("%d..%d", lo, hi))
	}
	c.Detail("src", src)
	c.Detail("got", got)
	c.Detail("want", want)
	c.Fail("mismatch", "%s: %s path, %d bytes: output differs from the definition, first difference at byte %d of the call (block %d): got %x want %x",
		what, k.path, len(src), off, off/16, clip(got, off), clip(want, off))
	return vFail
}

func clip(b []byte, off int) []byte {
	lo := off / 16 * 16
	hi := lo + 32
	if lo > len(b) {
		lo = len(b)
	}
	if hi > len(b) {
		hi = len(b)
	}
	return b[lo:hi]
}
