package c03

import (
	"bytes"
	"fmt"

	"verifh/mon"
)

// streamWL is the history monitor of the mode objects: a message is fed to ONE
// mode object through a sequence of calls that partition it, every call with
// its own guarded buffers; after each call the bytes produced must equal the
// corresponding bytes of the one-shot reference output (the abstract state of
// the model is the absolute position in the message). Modes: ECB, CBC, CFB, OFB,
// CTR, BC, OFBNLF, and XTS / GB-XTS in whole blocks (the running tweak is carried
// from call to call). HCTR documents that calls are independent and is not
// streamed.
var streamKinds = []string{"unit", "edge", "random", "empties", "two", "headtail"}

var edgeBytes = []int{15, 16, 17, 31, 32, 33, 63, 64, 65, 127, 128, 129, 255, 256, 257, 511, 512, 513}
var edgeBlocks = []int{1, 2, 3, 4, 5, 7, 8, 9, 15, 16, 17, 31, 32, 33}

// partition returns the chunk sizes (multiples of gran; zero = empty call) of one history.
func partition(r *mon.Rand, n, gran int, kind string) []int {
	var out []int
	take := func(k int) {
		if k > n {
			k = n
		}
		out = append(out, k)
		n -= k
	}
	switch kind {
	case "unit":
		for n > 0 {
			take(gran)
		}
	case "edge":
		for n > 0 {
			if gran == 1 {
				take(edgeBytes[r.Intn(len(edgeBytes))])
			} else {
				take(16 * edgeBlocks[r.Intn(len(edgeBlocks))])
			}
		}
	case "random", "empties":
		maxUnits := 200
		if gran == 16 {
			maxUnits = 20
		}
		for n > 0 {
			if kind == "empties" && r.Bool() {
				out = append(out, 0)
			}
			take(gran * (1 + r.Intn(1+r.Intn(maxUnits))))
		}
		if kind == "empties" {
			out = append(out, 0)
		}
	case "two":
		units := n / gran
		if units >= 2 {
			take(gran * r.Range(1, units-1))
		}
		take(n)
	case "headtail":
		if n >= 3*gran {
			take(gran)
			take(n - gran)
			take(gran)
		} else {
			for n > 0 {
				take(gran)
			}
		}
	}
	return out
}

var streamLensBytes = []int{1, 15, 16, 17, 31, 32, 33, 47, 63, 64, 65, 100, 127, 128, 129, 255, 256, 257, 300, 511, 512, 513,
	527, 528, 529, 600, 1023, 1024, 1025, 1040, 1537, -1, -1, -1, -1, -1, -1}
var streamLensBlocks = []int{1, 2, 3, 4, 5, 6, 7, 8, 9, 10, 12, 15, 16, 17, 24, 31, 32, 33, 47, 48, 63, 64, 65, 96, 128, 129, -1, -1, -1, -1}

func streamWL(x *mon.Ctx) {
	selftest(x)
	bf := newBufs(4096)
	defer bf.free()
	reps := x.Scale(1, 22)
	mis := 0
	if raceBuild(x) {
		reps = x.Scale(1, 3)
	}
	for _, s := range allSpecs {
		if s.mode == "hctr" {
			continue
		}
		unit := s.gran()
		if s.isXTS() {
			unit = 16
		}
		lens := streamLensBytes
		if unit == 16 {
			lens = streamLensBlocks
		}
		for _, kind := range streamKinds {
			if kind == "empties" && s.isXTS() {
				continue // XTS refuses calls shorter than one block (documented precondition)
			}
			for li, L := range lens {
				for rep := 0; rep < reps; rep++ {
					for pl := 0; pl < 3; pl++ {
						p := placement{kind: pl}
						if pl == plMis {
							p = misPlacement(mis + li + rep)
							mis++
						}
						ld := fmt.Sprint(L * unit)
						if L < 0 {
							ld = "random"
						}
						c := x.Begin("stream mode=%s dir=%s kind=%s len=%s#%d place=%s rep=%d (iv kind, key, iv, data, cut points from the case PRNG)",
							s.mode, s.dir, kind, ld, li, p, rep)
						if c == nil {
							continue
						}
						n := L * unit
						if L < 0 {
							n = unit * c.R.Range(1, 2100/unit)
						}
						streamCase(c, bf, s, unit, n, kind, p)
						c.End()
					}
				}
			}
		}
	}
}

func streamCase(c *mon.Case, bf *bufs, s spec, unit, n int, kind string, pl placement) {
	kinds := ivKinds(s)
	ivk := kinds[c.R.Intn(len(kinds))]
	m := genMaterial(c.R, s, ivk)
	data := c.R.Bytes(n)
	chunks := partition(c.R, n, unit, kind)
	want := reference(s, m, data)
	c.Class("stream/%s/%s/%s/%s/t%d/%s/%s", s.mode, s.dir, kind, lenClass(n), n%16, ivk, pl.short())
	c.Event("bytes", n)
	p := bf.place(m, pl)
	c.Detail("chunk_sizes_of_the_history", fmt.Sprint(clipChunks(chunks)))
	for _, path := range s.paths() {
		f := construct(c, bf, s, path, p, m)
		if f == nil {
			continue
		}
		c.Event("histories", 1)
		off := 0
		for ci, k := range chunks {
			cp := pl
			if pl.kind == plMis {
				// every call of the history gets another offset pair
				cp = misPlacement(ci + pl.so + 5*pl.do)
				c.Event("misaligned_calls", 1)
			}
			what := fmt.Sprintf("%s (%s, guard %s) call %d of %d: bytes %d..%d", s, path, cp, ci+1, len(chunks), off, off+k)
			src := cp.putSrc(bf.src, data[off:off+k])
			dst := src
			inPlace := (ci+len(chunks))%2 == 1
			if inPlace {
				bf.dst.Lo(0)
			} else {
				dst = cp.getDst(bf.dst, k)
			}
			ok := c.Call(what, func() { f(dst, src) })
			ok = c.CheckGuards(what, bf.dst, bf.src) && ok
			c.Event("stream_calls", 1)
			if k == 0 {
				c.Event("stream_empty_calls", 1)
			}
			if !ok {
				break
			}
			if !inPlace && !bytes.Equal(src, data[off:off+k]) {
				c.Fail("mismatch", "%s: the call modified src although dst is a separate buffer", what)
			}
			if v := judge(c, what, call{s, path, m}, data, off, off+k, dst[:k], want[off:off+k]); v == vFail {
				break // the object's state is no longer the model's: stop this history
			}
			off += k
		}
		// the mode object owns copies of key and IV: the caller's must be intact
		c.CheckGuards(s.String()+" ("+path+") history", bf.key, bf.key2, bf.iv)
	}
}

func clipChunks(ch []int) []int {
	if len(ch) > 40 {
		return ch[:40]
	}
	return ch
}
