// Package c03 holds the workloads and oracles that decide property C03.
package c03
