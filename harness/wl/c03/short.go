package c03

// c03.short: the clause "no call reads or writes outside the slices it was given" for calls the mode
// REFUSES: a destination shorter than the source, and (block modes) a source that is not a whole number
// of blocks. The documented behaviour is a panic ("output smaller than input", "input not full blocks");
// whether the call panics, is stopped by a Go bounds check or returns is NOT judged here. What is judged
// is what the property states: nothing outside the two slices is written (canaries around both slices in
// their guarded regions) and nothing beyond them is touched (the destination ends at a guard page in the
// hi placement, starts at one in the lo placement; a stray access is a memory fault, reported as oob).
// The argument checks in front of the assembly are the only thing between such a call and an overrun by
// the vector code, and no other workload ever makes such a call (mutation sweep: deleting
// `x.validate(dst, src)` in front of the fused ECB/CBC code survived every other C03 workload).

import (
	"runtime"

	"verifh/mon"
	"verifh/wl/reg"
)

func init() { reg.Register("c03.short", "C03", shortWL) }

func shortWL(x *mon.Ctx) {
	selftest(x)
	bf := newBufs(latticeMax + 64)
	defer bf.free()
	lens := []int{16, 32, 48, 64, 80, 112, 128, 144, 240, 256, 272, 512, 528}
	odd := []int{17, 31, 33, 47, 63, 65, 100, 127, 129, 255, 257, 300}
	for _, s := range allSpecs {
		for _, path := range s.paths() {
			var ns []int
			ns = append(ns, lens...)
			if s.gran() == 1 {
				ns = append(ns, odd...)
			}
			for _, n := range ns {
				if n < s.min() {
					continue
				}
				for _, d := range []int{1, 15, 16, 17, n / 2, n} {
					if d < 1 || d > n {
						continue
					}
					for pl := 0; pl < 2; pl++ {
						c := x.Begin("short-dst mode=%s dir=%s path=%s len(src)=%d len(dst)=%d place=%s", s.mode, s.dir, path, n, n-d, placement{kind: pl})
						if c == nil {
							continue
						}
						c.Class("shortdst/%s/%s/%s/%s/d%d/%s", s.mode, s.dir, path, lenClass(n), dClass(d, n), placement{kind: pl}.short())
						shortCase(c, bf, s, path, n, n-d, n, placement{kind: pl})
						c.End()
					}
				}
			}
			if s.gran() == 16 {
				// block modes: a source that is not a whole number of blocks, destination of the same length and longer
				for _, n := range odd {
					for _, dl := range []int{n, n + 15, (n/16 + 1) * 16} {
						for pl := 0; pl < 2; pl++ {
							c := x.Begin("partial-src mode=%s dir=%s path=%s len(src)=%d len(dst)=%d place=%s", s.mode, s.dir, path, n, dl, placement{kind: pl})
							if c == nil {
								continue
							}
							c.Class("partialsrc/%s/%s/%s/%s/t%d/%s", s.mode, s.dir, path, lenClass(n), n%16, placement{kind: pl}.short())
							shortCase(c, bf, s, path, n, dl, n, placement{kind: pl})
							c.End()
						}
					}
				}
			}
		}
	}
}

func dClass(d, n int) string {
	switch {
	case d == n:
		return "all"
	case d < 16:
		return "lt16"
	case d == 16:
		return "16"
	case d < 32:
		return "lt32"
	}
	return "big"
}

// shortCase builds the mode object and makes one refused call with len(src)=n, len(dst)=dl.
func shortCase(c *mon.Case, bf *bufs, s spec, path string, n, dl, _ int, pl placement) {
	m := genMaterial(c.R, s, ivKinds(s)[c.R.Intn(len(ivKinds(s)))])
	p := bf.place(m, pl)
	f := construct(c, bf, s, path, p, m)
	if f == nil {
		return
	}
	src := pl.putSrc(bf.src, c.R.Bytes(n))
	dst := pl.getDst(bf.dst, dl)
	for i := range dst {
		dst[i] = tailFill
	}
	what := "refused " + s.String() + " (" + path + ")"
	pi := mon.Try(func() { f(dst, src) })
	switch {
	case pi == nil:
		c.Event("short/returned_normally", 1)
	default:
		if e, ok := pi.Value.(runtime.Error); ok {
			if _, isAddr := e.(interface{ Addr() uintptr }); isAddr {
				c.Detail("stack", pi.Stack)
				c.Fail("oob", "%s: len(src)=%d len(dst)=%d: memory fault: the call reached outside the slices it was given: %v", what, n, dl, pi.Value)
				return
			}
			c.Event("short/stopped_by_bounds_check", 1)
		} else {
			c.Event("short/refused_by_argument_check", 1)
		}
	}
	c.CheckGuards(what, bf.dst, bf.src)
}
