package c03

// c03.setiv: histories that re-key the chaining value of a live mode object. The
// CBC (fused SM4 implementation and the generic composition), BC and OFBNLF
// objects export SetIV(iv); after SetIV the object must behave exactly like a
// freshly constructed one with that IV (the definition of the mode applied to the
// bytes that follow), whatever was processed before, and it must keep its own
// copy of the IV (the caller's slice is overwritten after the call).

import (
	"bytes"
	"crypto/cipher"
	"fmt"

	gcipher "github.com/emmansun/gmsm/cipher"

	"verifh/mon"
	"verifh/wl/reg"
)

func init() {
	reg.Register("c03.setiv", "C03", setivWL)
}

type ivSetter interface{ SetIV([]byte) }

var setivSpecs = []spec{{"cbc", "enc"}, {"cbc", "dec"}, {"bc", "enc"}, {"bc", "dec"}, {"ofbnlf", "enc"}, {"ofbnlf", "dec"}}

// buildMode constructs the BlockMode object itself (build returns only its method value).
func buildMode(s spec, path string, key, iv []byte) (cipher.BlockMode, error) {
	cf := creator(path)
	enc := s.dir == "enc"
	if s.mode == "ofbnlf" {
		if enc {
			return gcipher.NewOFBNLFEncrypter(cf, key, iv)
		}
		return gcipher.NewOFBNLFDecrypter(cf, key, iv)
	}
	b, err := cf(key)
	if err != nil {
		return nil, err
	}
	switch s.mode {
	case "cbc":
		if enc {
			return cipher.NewCBCEncrypter(b, iv), nil
		}
		return cipher.NewCBCDecrypter(b, iv), nil
	case "bc":
		if enc {
			return gcipher.NewBCEncrypter(b, iv), nil
		}
		return gcipher.NewBCDecrypter(b, iv), nil
	}
	panic("c03.setiv: mode " + s.mode)
}

func setivWL(x *mon.Ctx) {
	selftest(x)
	bf := newBufs(4096)
	defer bf.free()
	reps := x.Scale(6, 60)
	if raceBuild(x) {
		reps = x.Scale(2, 6)
	}
	for _, s := range setivSpecs {
		for _, path := range []string{pFused, pGeneric} {
			for rep := 0; rep < reps; rep++ {
				for pl := 0; pl < 3; pl++ {
					p := placement{kind: pl}
					if pl == plMis {
						p = misPlacement(rep)
					}
					c := x.Begin("setiv mode=%s dir=%s path=%s place=%s rep=%d (key, IVs, segment lengths, data from the case PRNG)", s.mode, s.dir, path, p, rep)
					if c == nil {
						continue
					}
					setivCase(c, bf, s, path, p, rep)
					c.End()
				}
			}
		}
	}
}

func setivCase(c *mon.Case, bf *bufs, s spec, path string, pl placement, rep int) {
	m := genMaterial(c.R, s, "rand")
	nseg := c.R.Range(2, 4)
	c.Class("setiv/%s/%s/%s/%s/segs%d", s.mode, s.dir, path, pl.short(), nseg)
	p := bf.place(m, pl)
	var bm cipher.BlockMode
	var err error
	what := fmt.Sprintf("New %s (%s)", s, path)
	if !c.Call(what, func() { bm, err = buildMode(s, path, p.key, p.iv) }) {
		return
	}
	if err != nil {
		c.Fail("reject", "%s: constructor refused valid parameters: %v", what, err)
		return
	}
	// the object owns copies of key and IV: the caller's buffers are overwritten now
	for _, b := range [][]byte{p.key, p.iv} {
		for i := range b {
			b[i] = 0x5A
		}
	}
	setter, ok := bm.(ivSetter)
	if !ok {
		// the object does not offer SetIV on this path: nothing to decide
		c.Event("no_SetIV_on_this_path", 1)
		c.Trivial()
		return
	}
	iv := append([]byte(nil), m.iv...)
	for seg := 0; seg < nseg; seg++ {
		if seg > 0 {
			// a new IV from a guarded buffer; the buffer is overwritten once SetIV has returned
			iv = c.R.Bytes(16)
			if c.R.Intn(4) == 0 {
				for i := range iv {
					iv[i] = 0xff
				}
			}
			gi := pl.buf(bf.iv, 16, misOffsets[(pl.ko+seg)%5])
			copy(gi, iv)
			w := fmt.Sprintf("%s (%s) SetIV before segment %d", s, path, seg+1)
			if !c.Call(w, func() { setter.SetIV(gi) }) {
				return
			}
			if !c.CheckGuards(w, bf.iv) {
				return
			}
			if !bytes.Equal(gi, iv) {
				c.Fail("mismatch", "%s: SetIV modified the caller's IV slice", w)
				return
			}
			for i := range gi {
				gi[i] = 0xA5
			}
			c.Event("setiv_calls", 1)
		}
		// segment of 1..40 blocks (seg lengths straddle the 4/8/16-block bulk loops), in one or two calls
		nb := c.R.Range(1, 40)
		if c.R.Intn(3) == 0 {
			nb = []int{1, 3, 4, 5, 8, 9, 16, 17, 32, 33}[c.R.Intn(10)]
		}
		data := c.R.Bytes(nb * 16)
		mm := *m
		mm.iv = iv
		want := reference(s, &mm, data)
		cut := nb * 16
		if nb > 1 && c.R.Intn(2) == 0 {
			cut = 16 * c.R.Range(1, nb-1)
		}
		off := 0
		for _, k := range []int{cut, nb*16 - cut} {
			if k == 0 {
				continue
			}
			w := fmt.Sprintf("%s (%s, guard %s) segment %d of %d after SetIV (%d blocks): bytes %d..%d", s, path, pl, seg+1, nseg, nb, off, off+k)
			src := pl.putSrc(bf.src, data[off:off+k])
			dst := src
			inPlace := (seg+rep+off/16)%2 == 1
			if !inPlace {
				dst = pl.getDst(bf.dst, k)
			}
			okc := c.Call(w, func() { bm.CryptBlocks(dst, src) })
			okc = c.CheckGuards(w, bf.dst, bf.src) && okc
			if !okc {
				return
			}
			c.Event("setiv_segment_calls", 1)
			if v := judge(c, w, call{s, path, &mm}, data, off, off+k, dst[:k], want[off:off+k]); v == vFail {
				return
			}
			off += k
		}
	}
	c.CheckGuards(s.String()+" ("+path+") SetIV history", bf.key, bf.key2, bf.iv)
}

