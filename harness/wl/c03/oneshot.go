package c03

import (
	"bytes"
	"fmt"

	"verifh/mon"
)

// alias modes of a call
const (
	aDisjoint = iota // dst and src are different buffers of the same length
	aInPlace         // dst == src exactly
	aLonger          // dst is a different, longer buffer (only dst[:len(src)] is specified)
)

var aliasName = [...]string{"disjoint", "inplace", "dstlonger"}

const latticeMax = 1040 // 65 blocks: every residue after 0..64 whole blocks

// lattice lengths of a mode in the one-shot workload
func maxLen(s spec, thorough bool) int {
	if s.mode == "hctr" && !thorough {
		return 400
	}
	return latticeMax
}

// oneshotWL: one call per mode object. Every admissible length up to 1040 (HCTR:
// 400 in the quick tier), every IV/counter kind, the three buffer placements (hi, lo, misaligned), the alias
// modes, on every library path; each output is compared with the reference, the
// fused encryption is additionally decrypted again by the library.
func oneshotWL(x *mon.Ctx) {
	selftest(x)
	small := newBufs(latticeMax + 64)
	defer small.free()
	big := newBufs(1<<16 + 64)
	defer big.free()

	reps := x.Scale(1, 14)
	if raceBuild(x) {
		reps = x.Scale(1, 2) // checkptr needs every path once, not random depth
	}
	mis := 0 // running index of the misaligned cases: rotates the offset triple
	for _, s := range allSpecs {
		for n := s.min(); n <= maxLen(s, x.Thorough()); n += s.gran() {
			for ki, ivk := range ivKinds(s) {
				for rep := 0; rep < reps; rep++ {
					for pl := 0; pl < 3; pl++ {
						p := placement{kind: pl}
						if pl == plMis {
							// n/16 + n%16: lengths that share a tail path (same n mod 64,
							// 128, 256) still walk through all five offsets
							p = misPlacement(n/16 + n%16 + ki + rep + mis)
							mis++
						}
						// quick: byte-granular modes rotate the alias mode so that every
						// (residue, loop phase) still meets all three; block modes and the
						// thorough tier take the full product
						aliases := []int{aDisjoint, aInPlace, aLonger}
						if !x.Thorough() && s.gran() == 1 {
							aliases = []int{(n + n/16 + pl + ki) % 3}
						}
						for _, al := range aliases {
							c := x.Begin("oneshot mode=%s dir=%s len=%d iv=%s place=%s alias=%s rep=%d (key, iv/tweak, data from the case PRNG)",
								s.mode, s.dir, n, ivk, p, aliasName[al], rep)
							if c == nil {
								continue
							}
							if n == 0 {
								c.Trivial()
							}
							c.Class("one/%s/%s/%s/t%d/%s/%s/%s", s.mode, s.dir, lenClass(n), n%16, ivk, aliasName[al], p.short())
							if pl == plMis {
								c.Class("mis/%s/%s/%s/src+%d", s.mode, s.dir, lenClass(n), p.so)
							}
							oneCase(c, small, s, n, ivk, p, al)
							c.End()
						}
					}
				}
			}
		}
	}
	// long messages: random lengths up to 64 KiB (several refills / many bulk iterations)
	nLong := x.Scale(6, 60)
	for _, s := range allSpecs {
		for i := 0; i < nLong; i++ {
			for _, ivk := range ivKinds(s) {
				c := x.Begin("oneshot-long mode=%s dir=%s iv=%s #%d (length, placement, alias, key, iv, data from the case PRNG)", s.mode, s.dir, ivk, i)
				if c == nil {
					continue
				}
				n := c.R.Range(latticeMax+1, 1<<16)
				if i%3 == 0 {
					n = c.R.Range(latticeMax+1, 4200)
				}
				n -= n % s.gran()
				p := placement{kind: c.R.Intn(3)}
				if p.kind == plMis {
					p = misPlacement(c.R.Intn(1000))
				}
				al := c.R.Intn(3)
				c.Class("long/%s/%s/t%d/%s/%s/%s", s.mode, s.dir, n%16, ivk, aliasName[al], p.short())
				c.Detail("placement", p.String())
				oneCase(c, big, s, n, ivk, p, al)
				c.End()
			}
		}
	}
}

const tailFill = 0x5C

// oneCase executes one (mode, direction, length, iv kind, placement, alias) on all paths.
func oneCase(c *mon.Case, bf *bufs, s spec, n int, ivk string, pl placement, al int) {
	m := genMaterial(c.R, s, ivk)
	data := c.R.Bytes(n)
	extra := c.R.Range(1, 33)
	want := reference(s, m, data)
	c.Event("bytes", n)
	p := bf.place(m, pl)
	if pl.kind == plMis {
		c.Event(fmt.Sprintf("misaligned/src+%d/dst+%d", pl.so, pl.do), 1)
	}

	run := func(sp spec, path string, in []byte, alias int, what string) ([]byte, bool) {
		f := construct(c, bf, sp, path, p, m)
		if f == nil {
			return nil, false
		}
		src := pl.putSrc(bf.src, in)
		var dst []byte
		switch alias {
		case aDisjoint:
			dst = pl.getDst(bf.dst, len(in))
		case aInPlace:
			bf.dst.Lo(0)
			dst = src
		case aLonger:
			dst = pl.getDst(bf.dst, len(in)+extra)
			for i := range dst {
				dst[i] = tailFill
			}
		}
		ok := c.Call(what, func() { f(dst, src) })
		ok = c.CheckGuards(what, bf.all()...) && ok
		if !ok {
			return nil, false
		}
		if alias != aInPlace && !bytes.Equal(src, in) {
			c.Detail("src_before", in)
			c.Detail("src_after", src)
			c.Fail("mismatch", "%s: the call modified src although dst is a separate buffer", what)
		}
		if alias == aLonger {
			for _, v := range dst[len(in):] {
				if v != tailFill {
					// inside a slice the caller handed over: recorded, not a violation
					c.Event("observation/dst_tail_touched/"+sp.mode+"/"+sp.dir+"/"+path, 1)
					break
				}
			}
		}
		return append([]byte{}, dst[:len(in)]...), true
	}

	var fusedOut []byte
	fusedVerdict := vFail
	for _, path := range s.paths() {
		what := s.String() + " (" + path + ", " + aliasName[al] + ", guard " + pl.String() + ")"
		got, ok := run(s, path, data, al, what)
		if !ok {
			continue
		}
		v := judge(c, what, call{s, path, m}, data, 0, n, got, want)
		if path == pFused {
			fusedOut, fusedVerdict = got, v
		} else if fusedOut != nil {
			// the paths are compared with each other through the common reference;
			// a disagreement is always accompanied by a verdict of judge
			c.Event("cross_path_pairs", 1)
			if !bytes.Equal(got, fusedOut) {
				c.Event("cross_path_disagreements", 1)
			}
		}
	}
	// Decrypt o Encrypt = id inside the library (also demanded where an open
	// finding makes the ciphertext itself differ from the definition)
	if s.dir == "enc" && fusedOut != nil && fusedVerdict <= vKnownInvertible {
		op := s.opposite()
		what := "inverse " + op.String() + " (fused)"
		back, ok := run(op, pFused, fusedOut, aDisjoint, what)
		if ok {
			c.Event("roundtrips", 1)
			if !bytes.Equal(back, data) {
				c.Detail("key", m.key)
				c.Detail("key2", m.key2)
				c.Detail("iv_or_tweak", m.iv)
				c.Detail("plaintext", data)
				c.Detail("ciphertext", fusedOut)
				c.Detail("decrypted", back)
				c.Fail("mismatch", "%s: decryption of the library's own %s output (%d bytes) does not return the plaintext", what, s.mode, n)
			}
		}
	}
}
