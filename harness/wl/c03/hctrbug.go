package c03

import (
	"bytes"
	"encoding/hex"
	"fmt"

	"verifh/ref/modes"
	refsm4 "verifh/ref/sm4"
)

// Matcher of the open finding `hctr-tail-tweak` (KNOWN_FINDINGS.txt).
//
// Predicate: the mode is HCTR and r = (len-16) mod 16 is neither 0 nor 8.
//
// Model of the defective behaviour (cipher/hctr.go, uhash): HCTR hashes
// X = N || T (N = everything after the first block, T = tweak) padded with zeros.
// With a partial last block of N of r bytes the two closing blocks must be
//
//	A = N_tail || T[0:16-r]      B = T[16-r:16] || 0^(16-r)
//
// The library builds A correctly in a 16-byte buffer and then, in the same
// buffer, copies T[r:16] (16-r bytes) to the front and clears bytes r..15. So
//
//	r <= 8:  B' = T[r:2r] || 0^(16-r)                       (equal to B only for r = 8)
//	r >  8:  B' = T[r:16] || N_tail[16-r:r] || 0^(16-r)     (stale message bytes stay in the buffer)
//
// Everything else (field, length block, counter part) follows the definition.
// Encryption and decryption use the same hash, so both directions are modelled
// by plugging the defective hash into the reference HCTR.

func hctrBugPredicate(n int) bool {
	if n < 16 {
		return false
	}
	r := (n - 16) % 16
	return r != 0 && r != 8
}

func hctrDefectiveHash(hkey, tweak []byte) func(n []byte) [16]byte {
	return func(n []byte) [16]byte {
		var h [16]byte
		copy(h[:], hkey)
		r := len(n) % 16
		x := append([]byte{}, n[:len(n)-r]...)
		if r == 0 {
			x = append(x, tweak...)
		} else {
			var buf [16]byte
			copy(buf[:], n[len(n)-r:])
			copy(buf[r:], tweak)
			x = append(x, buf[:]...) // block A, as the definition has it
			copy(buf[:], tweak[r:])  // 16-r bytes to the front of the SAME buffer
			for i := r; i < 16; i++ {
				buf[i] = 0
			}
			x = append(x, buf[:]...) // block B'
		}
		return modes.PolyHash(h, x, uint64(len(n)+16)*8)
	}
}

// hctrBugModel returns what the defective library computes for src.
func hctrBugModel(key, tweak, hkey, src []byte, decrypt bool) []byte {
	return modes.HCTRCore(refsm4.New(key), hctrDefectiveHash(hkey, tweak), src, decrypt)
}

// bugModelSelfTest pins the model: it must reproduce the 60-byte vector that the
// library's own test suite carries (TestHCTR vector 3, which encodes the defect),
// must differ from the definition on that input, and must coincide with the
// definition outside the predicate.
func bugModelSelfTest() error {
	unhex := func(s string) []byte { b, _ := hex.DecodeString(s); return b }
	key := unhex("2B7E151628AED2A6ABF7158809CF4F3C")
	hk := unhex("000102030405060708090A0B0C0D0E0F")
	tw := unhex("F0F1F2F3F4F5F6F7F8F9FAFBFCFDFEFF")
	pt := unhex("6bc1bee22e409f96e93d7e117393172aae2d8a571e03ac9c9eb76fac45af8e5130c81c46a35ce411e5fbc1191a0a52eff69f2445df4f9b17ad2b417b")
	ct := unhex("f7505aff357ac13107cdb2848c6bb2dcdda473f7a6ea939d44f52c986c11ca9341042f2b0091a1ca5c8f708cae8ca6a5c59e2228b3616c4455627722")
	if got := hctrBugModel(key, tw, hk, pt, false); !bytes.Equal(got, ct) {
		return fmt.Errorf("c03: HCTR bug model does not reproduce the 60-byte vector pinned by the library's tests: %x", got)
	}
	if got := hctrBugModel(key, tw, hk, ct, true); !bytes.Equal(got, pt) {
		return fmt.Errorf("c03: HCTR bug model (decryption) does not reproduce the pinned 60-byte vector")
	}
	if bytes.Equal(modes.HCTREncrypt(refsm4.New(key), tw, hk, pt), ct) {
		return fmt.Errorf("c03: the reference HCTR reproduces the pinned defective vector")
	}
	long := append(append([]byte{}, pt...), pt...)
	for n := 16; n <= 64; n++ {
		same := bytes.Equal(hctrBugModel(key, tw, hk, long[:n], false), modes.HCTREncrypt(refsm4.New(key), tw, hk, long[:n]))
		if same == hctrBugPredicate(n) {
			return fmt.Errorf("c03: HCTR bug model and predicate disagree at length %d", n)
		}
	}
	return nil
}
