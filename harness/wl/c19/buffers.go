package c19

// buffers.go: the memory the caller owns. The tag may depend on the key and the message
// VALUES only, so every buffer the caller hands over (key slices, message, Write chunk,
// Sum destination) and every slice it gets back (tags) is treated as the caller treats
// its own memory: it is compared with a private copy after every library call, it is
// used again for further objects, it is overwritten as soon as the call has returned,
// and it is placed where an access outside it faults (guard pages) or is seen (dirty
// spare capacity, neighbouring key).

import (
	"bytes"
	"crypto/cipher"
	"errors"
	"fmt"

	"github.com/emmansun/gmsm/padding"

	"verifh/mon"
	"verifh/ref/mac"
	"verifh/ref/pad"
)

// placements of one caller buffer
const (
	plExact      = iota // heap, len == cap (nil for an empty value)
	plSpare             // heap, dirty spare capacity behind the slice
	plGuardHi           // len == cap, end abuts an inaccessible page
	plGuardLo           // len == cap, start abuts an inaccessible page
	plGuardOff          // len == cap, misaligned start between canaries
	plGuardSpare        // dirty spare capacity that ends at an inaccessible page
	nPlace
)

var placeNames = [nPlace]string{"exact", "spare", "guard-hi", "guard-lo", "guard-off", "guard-spare"}

// dirt fills b with non-zero bytes.
func dirt(r *mon.Rand, b []byte) {
	r.Fill(b)
	for i := range b {
		if b[i] == 0 {
			b[i] = 0x5a
		}
	}
}

// cbuf is one caller-owned buffer: the slice handed to the library and a private copy
// of its whole backing array (len and spare capacity) taken when it was handed over.
type cbuf struct {
	s    []byte     // handed to the library
	full []byte     // s[:cap(s)]
	snap []byte     // private copy of full
	g    *mon.Guard // non-nil: s lies in this guard region
}

func newCbuf(s []byte, g *mon.Guard) *cbuf {
	full := s[:cap(s)]
	return &cbuf{s: s, full: full, snap: append([]byte{}, full...), g: g}
}

// place puts the value v into caller memory of the given placement; spare is the spare
// capacity of the placements that have one.
func place(r *mon.Rand, g *mon.Guard, v []byte, pl, spare int) *cbuf {
	n := len(v)
	var s []byte
	var gg *mon.Guard
	switch pl {
	case plExact:
		if n > 0 {
			s = make([]byte, n)[:n:n]
		}
	case plSpare:
		b := make([]byte, n+spare)
		dirt(r, b)
		s = b[:n]
	case plGuardHi:
		s, gg = g.Hi(n), g
	case plGuardLo:
		s, gg = g.Lo(n), g
	case plGuardOff:
		s, gg = g.Off(n, []int{1, 8, 16, 24, 31}[r.Intn(5)]), g
	case plGuardSpare:
		b := g.Hi(n + spare)
		dirt(r, b)
		s, gg = b[:n], g
	}
	copy(s, v)
	return newCbuf(s, gg)
}

// check decides what happened to the caller's memory since it was handed over: the
// bytes of the slice must be what the caller put there and nothing outside its
// capacity may be written (canaries, guard pages); a write into the spare capacity is
// counted only - the method 2 padding extends a message in place when it fits, which
// the property does not forbid.
func (b *cbuf) check(c *mon.Case, what, name string) bool { return b.checkv(c, what, name, true) }

// checkv with canaries == false compares the bytes only (the 4 KiB canary scan of a
// guarded key is left to the next full check; nothing is lost, only attributed later).
func (b *cbuf) checkv(c *mon.Case, what, name string, canaries bool) bool {
	ok := true
	n := len(b.s)
	c.Event("buffer_checks", 1)
	if !bytes.Equal(b.full[:n], b.snap[:n]) {
		c.Fail("mismatch", "%s modified the caller's %s: %x -> %x", what, name, b.snap[:n], b.full[:n])
		copy(b.snap, b.full)
		ok = false
	}
	if !bytes.Equal(b.full[n:], b.snap[n:]) {
		c.Event(name+"_spare_capacity_written", 1)
		copy(b.snap[n:], b.full[n:])
	}
	if canaries && b.g != nil && !c.CheckGuards(what+" ("+name+")", b.g) {
		ok = false
	}
	return ok
}

// scribble is the caller reusing its buffer for something else: the whole backing array
// gets new non-zero contents.
func (b *cbuf) scribble(r *mon.Rand) {
	dirt(r, b.full)
	copy(b.snap, b.full)
}

// key placements: how the two key slices of one case lie in the caller's memory
const (
	kpExact     = iota // two heap slices, len == cap
	kpSpare            // two heap slices with dirty spare capacity
	kpAdjacent         // one heap buffer K1|K2|dirt: the spare capacity of K1 is K2
	kpSame             // key2 is the very same slice as key1
	kpGuardHi          // each key ends at an inaccessible page
	kpGuardLo          // each key starts at an inaccessible page
	kpGuardOff         // misaligned starts between canaries
	kpGuardAdj         // K1|K2 in one region that ends at an inaccessible page
	nKeyPlace
)

var keyPlaceNames = [nKeyPlace]string{"exact", "spare", "adjacent", "same-slice", "guard-hi", "guard-lo", "guard-off", "guard-adjacent"}

func placeKeys(r *mon.Rand, kp int, k1v, k2v []byte, g1, g2 *mon.Guard) (K1, K2 *cbuf) {
	kl := len(k1v)
	switch kp {
	case kpExact:
		return place(r, nil, k1v, plExact, 0), place(r, nil, k2v, plExact, 0)
	case kpSpare:
		return place(r, nil, k1v, plSpare, 2*kl+5), place(r, nil, k2v, plSpare, kl+3)
	case kpAdjacent:
		b := make([]byte, 3*kl+7)
		dirt(r, b)
		copy(b, k1v)
		copy(b[kl:], k2v)
		return newCbuf(b[:kl], nil), newCbuf(b[kl:2*kl], nil)
	case kpSame:
		K1 = place(r, nil, k1v, plSpare, kl)
		return K1, K1
	case kpGuardHi:
		return place(r, g1, k1v, plGuardHi, 0), place(r, g2, k2v, plGuardHi, 0)
	case kpGuardLo:
		return place(r, g1, k1v, plGuardLo, 0), place(r, g2, k2v, plGuardLo, 0)
	case kpGuardOff:
		K1 = place(r, g1, k1v, plGuardOff, 0)
		s := g2.HiOff(kl, []int{1, 8, 24, 31}[r.Intn(4)])
		copy(s, k2v)
		return K1, newCbuf(s, g2)
	case kpGuardAdj:
		b := g1.Hi(2 * kl)
		copy(b, k1v)
		copy(b[kl:], k2v)
		return newCbuf(b[:kl], g1), newCbuf(b[kl:], nil)
	}
	panic("c19: key placement")
}

// paddings selectable through the WithPadding constructors: besides the two methods of
// the standard the package's other two padding functions are accepted as well; the
// constructions are defined over whatever injective padding is plugged in.
var bufPads = []padSel{
	{"default", pad.M2, nil},
	{"m2", pad.M2, padding.NewISO9797M2Padding},
	{"m3", pad.M3, padding.NewISO9797M3Padding},
	{"pkcs7", pad.PKCS7, padding.NewPKCS7Padding},
	{"x923", pad.X923, padding.NewANSIX923Padding},
}

var errFactory = errors.New("c19: cipher factory failure injected by the caller")

// bobj is one library object of a case with the reference keys for the key VALUES.
type bobj struct {
	name string
	s    int
	ps   padSel
	size int
	inst instance
}

// held is a tag the caller still holds, with a private copy of what it was.
type held struct {
	t, want []byte
	what    string
}

// buffersWL: constructor histories over the same caller key slices and buffer
// independence of every MAC call, for all constructions, ciphers and paddings.
func buffersWL(x *mon.Ctx) {
	selftest(x)
	gk1, gk2, gm := mon.NewGuard(4096), mon.NewGuard(4096), mon.NewGuard(4096)
	for s := mac.CBCMAC; s <= mac.CBCR; s++ {
		for _, f := range families {
			for _, ps := range bufPads {
				if !hasPadding(s) && ps.name != "default" {
					continue
				}
				for kp := 0; kp < nKeyPlace; kp++ {
					for rep := 0; rep < x.Scale(2, 100); rep++ {
						c := x.Begin("buffers scheme=%s cipher=%s pad=%s keys=%s rep=%d", mac.Names[s], f.name, ps.name, keyPlaceNames[kp], rep)
						if c == nil {
							continue
						}
						c.Class("buffers/%s/%s/%s/keys-%s", mac.Names[s], f.name, ps.name, keyPlaceNames[kp])
						buffersCase(c, s, f, ps, kp, gk1, gk2, gm)
						c.End()
					}
				}
			}
		}
	}
}

func buffersCase(c *mon.Case, s int, f family, ps padSel, kp int, gk1, gk2, gm *mon.Guard) {
	if _, ok := refKeys(s, f, make([]byte, f.keyLen), make([]byte, f.keyLen)); !ok {
		c.Trivial()
		return
	}
	// key values (private) and the caller's key slices
	k1v, k2v := c.R.Bytes(f.keyLen), c.R.Bytes(f.keyLen)
	if kp == kpSame {
		k2v = k1v
	}
	K1, K2 := placeKeys(c.R, kp, k1v, k2v, gk1, gk2)
	keysCheck := func(what string, canaries bool) {
		K1.checkv(c, what, "key1", canaries)
		if K2 != K1 {
			K2.checkv(c, what, "key2", canaries)
		}
	}
	keysOK := func(what string) { keysCheck(what, true) }
	// the schemes that take a cipher.Block: one parent block for all objects of the
	// case, or a new one from the caller's key slice for each
	shareBlock := c.R.Bool()
	var shared cipher.Block
	blk := func() cipher.Block {
		if shared != nil {
			return shared
		}
		b := libBlock(f, K1.s)
		if shareBlock {
			shared = b
		}
		return b
	}
	var objs []*bobj
	mk := func(name string, s int, ps padSel, size int) *bobj {
		keys, ok := refKeys(s, f, k1v, k2v)
		if !ok {
			return nil
		}
		if !hasPadding(s) {
			ps = bufPads[0]
		}
		o := &bobj{name: fmt.Sprintf("%s(%s,%s,size=%d)", name, mac.Names[s], ps.name, size), s: s, ps: ps, size: size}
		o.inst.keys = keys
		what := "constructor of " + o.name
		if !c.Call(what, func() { o.inst.lib = construct(s, f, ps, size, blk(), K1.s, K2.s) }) {
			return nil
		}
		keysOK(what)
		c.Event("objects", 1)
		if got := o.inst.lib.Size(); got != size {
			c.Fail("mismatch", "%s: Size() = %d want %d", o.name, got, size)
		}
		objs = append(objs, o)
		return o
	}
	var out []held
	lens := []int{0, 1, f.bs - 1, f.bs, f.bs + 1, 2*f.bs - 1, 2 * f.bs, 2*f.bs + 1, 3*f.bs + f.bs/2, 5 * f.bs}
	use := func(o *bobj, what string, pl int) {
		if o == nil {
			return
		}
		n := lens[c.R.Intn(len(lens))]
		if c.R.Intn(4) == 0 {
			n = c.R.Intn(80)
		}
		mv := c.R.Bytes(n)
		// spare capacities around what the padding needs: one short, exact fit, one more, plenty
		over := f.bs - n%f.bs
		spare := []int{over - 1, over, over + 1, 3*f.bs + 5}[c.R.Intn(4)]
		M := place(c.R, gm, mv, pl, spare)
		what = fmt.Sprintf("%s.MAC(%d bytes, %s buffer): %s", o.name, n, placeNames[pl], what)
		var t []byte
		if !c.Call(what, func() { t = o.inst.lib.MAC(M.s) }) {
			return
		}
		c.Event("tags", 1)
		M.check(c, what, "message")
		keysCheck(what, false)
		if got := o.inst.lib.Size(); got != o.size {
			c.Fail("mismatch", "%s: Size() = %d want %d after MAC", o.name, got, o.size)
		}
		if len(t) != o.size {
			c.Fail("mismatch", "%s: len(tag) = %d want %d", what, len(t), o.size)
			return
		}
		judge(c, what, o.s, o.inst, o.ps, mv, t, o.size)
		// the caller reuses its message buffer: a tag it was given must not change
		want := append([]byte{}, t...)
		M.scribble(c.R)
		if !bytes.Equal(t, want) {
			c.Fail("mismatch", "%s: the returned tag changed from %x to %x when the caller overwrote its message buffer", what, want, t)
			want = append([]byte{}, t...)
		}
		out = append(out, held{t, want, what})
	}
	sizeA := c.R.Range(1, f.bs)
	// constructor history on the same key slices: A, a refused call, another scheme, a
	// second padding / size, a twin of A, and D which stays unused until the key buffers
	// have been overwritten; A is used between the constructions
	a := mk("A", s, ps, sizeA)
	if a == nil {
		return
	}
	use(a, "first use", c.R.Intn(nPlace))
	{
		bad := []int{0, -1, f.bs + 1}[c.R.Intn(3)]
		what := fmt.Sprintf("refused constructor %s size=%d", mac.Names[s], bad)
		if p := mon.Try(func() { construct(s, f, ps, bad, blk(), K1.s, K2.s) }); p == nil {
			c.Fail("accept", "constructor accepted tag size %d for a %d-byte block", bad, f.bs)
		}
		keysOK(what)
	}
	if s == mac.EMAC || s == mac.ANSIRetail || s == mac.MacDES || s == mac.LMAC {
		// the caller's cipher factory fails at its 1st, 2nd or 3rd call (the constructors give
		// up by panicking with the error; how they give up is not judged): the key slices
		// are the caller's whatever happens
		failAt, calls := c.R.Intn(3), 0
		ff := f
		ff.lib = func(k []byte) (cipher.Block, error) {
			calls++
			if calls-1 == failAt {
				return nil, errFactory
			}
			return f.lib(k)
		}
		mon.Try(func() { construct(s, ff, ps, sizeA, nil, K1.s, K2.s) })
		if calls > failAt {
			c.Event("factory_failures", 1)
		}
		keysOK(fmt.Sprintf("constructor %s whose cipher factory failed at call %d", mac.Names[s], failAt+1))
	}
	other := mac.CBCMAC + (s-mac.CBCMAC+c.R.Range(1, 7))%8
	xo := mk("X", other, bufPads[c.R.Intn(len(bufPads))], f.bs)
	use(a, "after another object was built from the same key slices", c.R.Intn(nPlace))
	ps2 := ps
	if hasPadding(s) {
		ps2 = bufPads[1+c.R.Intn(len(bufPads)-1)]
	}
	b := mk("B", s, ps2, f.bs)
	twin := mk("C", s, ps, sizeA)
	// every object, interleaved, over every buffer placement of the message
	base := c.R.Intn(nPlace)
	for i, o := range []*bobj{twin, xo, b, a} {
		use(o, "interleaved", (base+i)%nPlace)
		use(o, "interleaved", (base+i+3)%nPlace)
	}
	// tags handed out earlier are the caller's: none may have changed meanwhile
	for _, h := range out {
		c.Event("held_tags", 1)
		if !bytes.Equal(h.t, h.want) {
			c.Fail("mismatch", "the tag returned by %s changed from %x to %x during later calls", h.what, h.want, h.t)
		}
	}
	// ... and the caller may overwrite them (whole capacity) without disturbing the objects
	for _, h := range out {
		dirt(c.R, h.t[:cap(h.t)])
	}
	out = out[:0]
	for _, o := range objs {
		use(o, "after the caller overwrote the tags it was given", plSpare)
	}
	keysOK("the MAC calls of the case")
	// the caller wipes its key buffers: the objects keep working, also one that was built
	// but never used before (nothing may be derived from the caller's slices later)
	mk("D-unused-so-far", s, ps, c.R.Range(1, f.bs))
	K1.scribble(c.R)
	K2.scribble(c.R)
	copy(K1.snap, K1.full) // K2 may lie in the spare capacity of K1
	for _, o := range objs {
		use(o, "after the caller overwrote its key buffers", c.R.Intn(nPlace))
	}
}
