// Package c19 decides property C19 (block-cipher MACs) by comparing every tag the
// library returns with the reference constructions of verifh/ref/mac, on fresh and
// reused objects, streamed and one-shot, and by flipping single bits of the last block.
package c19

import (
	"bytes"
	"crypto/aes"
	"crypto/cipher"
	"crypto/des"
	"fmt"

	"github.com/emmansun/gmsm/cbcmac"
	"github.com/emmansun/gmsm/padding"
	"github.com/emmansun/gmsm/sm4"

	"verifh/mon"
	"verifh/ref/mac"
	"verifh/ref/pad"
	refsm4 "verifh/ref/sm4"
	"verifh/wl/reg"
)

func init() {
	reg.Register("c19.tags", "C19", tagsWL)
	reg.Register("c19.cmacstream", "C19", cmacStreamWL)
	reg.Register("c19.inject", "C19", injectWL)
	reg.Register("c19.buffers", "C19", buffersWL)
}

// a cipher family: how the library side and the reference side build a block from a key
type family struct {
	name   string
	keyLen int
	bs     int
	lib    func(key []byte) (cipher.Block, error)
	ref    func(key []byte) mac.Block
}

func stdRef(f func([]byte) (cipher.Block, error)) func([]byte) mac.Block {
	return func(k []byte) mac.Block {
		b, err := f(k)
		if err != nil {
			panic(err)
		}
		return b
	}
}

var families = []family{
	{"sm4", 16, 16, sm4.NewCipher, func(k []byte) mac.Block { return refsm4.New(k) }},
	{"aes128", 16, 16, aes.NewCipher, stdRef(aes.NewCipher)},
	{"des", 8, 8, des.NewCipher, stdRef(des.NewCipher)},
	{"3des", 24, 8, des.NewTripleDESCipher, stdRef(des.NewTripleDESCipher)},
}

type padSel struct {
	name string
	ref  pad.Scheme
	lib  padding.NewPaddingFunc // nil = the constructor's default (method 2)
}

var pads = []padSel{
	{"default", pad.M2, nil},
	{"m2", pad.M2, padding.NewISO9797M2Padding},
	{"m3", pad.M3, padding.NewISO9797M3Padding},
}

func selftest(x *mon.Ctx) {
	if err := refsm4.SelfTest(false); err != nil {
		x.HarnessError("%v", err)
	}
	if err := mac.SelfTest(); err != nil {
		x.HarnessError("%v", err)
	}
}

// instance bundles a library MAC object with the reference keys for the same key material.
type instance struct {
	lib  cbcmac.BlockCipherMAC
	keys mac.Keys
}

// refKeys derives the reference side of scheme s from key VALUES (private copies the
// library never sees). ok is false where the scheme cannot be keyed with this family
// (LMAC derives keys one block long).
func refKeys(s int, f family, k1, k2 []byte) (keys mac.Keys, ok bool) {
	k1, k2 = append([]byte{}, k1...), append([]byte{}, k2...)
	switch s {
	case mac.CBCMAC, mac.CMAC, mac.TrCBC, mac.CBCR:
		keys = mac.Keys{B: f.ref(k1)}
	case mac.EMAC, mac.ANSIRetail:
		keys = mac.Keys{B: f.ref(k1), B2: f.ref(k2)}
	case mac.MacDES:
		k3 := make([]byte, len(k2))
		for i := range k3 {
			k3[i] = k2[i] ^ 0xf0
		}
		keys = mac.Keys{B: f.ref(k1), B2: f.ref(k2), B3: f.ref(k3)}
	case mac.LMAC:
		if f.bs != f.keyLen {
			// derived keys are one block long: only families whose key is one block can run LMAC
			return keys, false
		}
		b := f.ref(k1)
		l1, l2 := make([]byte, f.bs), make([]byte, f.bs)
		l1[f.bs-1], l2[f.bs-1] = 1, 2
		b.Encrypt(l1, l1)
		b.Encrypt(l2, l2)
		keys = mac.Keys{B: f.ref(l1), B2: f.ref(l2)}
	}
	return keys, true
}

// construct calls the library constructor of scheme s with the caller's key slices k1, k2
// exactly as given (no copies); lb is the block the caller made for the schemes that take
// one. Panics of the library propagate.
func construct(s int, f family, ps padSel, size int, lb cipher.Block, k1, k2 []byte) cbcmac.BlockCipherMAC {
	switch s {
	case mac.CBCMAC:
		if ps.lib == nil {
			return cbcmac.NewCBCMAC(lb, size)
		}
		return cbcmac.NewCBCMACWithPadding(lb, size, ps.lib)
	case mac.EMAC:
		if ps.lib == nil {
			return cbcmac.NewEMAC(f.lib, k1, k2, size)
		}
		return cbcmac.NewEMACWithPadding(f.lib, k1, k2, size, ps.lib)
	case mac.ANSIRetail:
		if ps.lib == nil {
			return cbcmac.NewANSIRetailMAC(f.lib, k1, k2, size)
		}
		return cbcmac.NewANSIRetailMACWithPadding(f.lib, k1, k2, size, ps.lib)
	case mac.MacDES:
		if ps.lib == nil {
			return cbcmac.NewMACDES(f.lib, k1, k2, size)
		}
		return cbcmac.NewMACDESWithPadding(f.lib, k1, k2, size, ps.lib)
	case mac.CMAC:
		return cbcmac.NewCMAC(lb, size)
	case mac.LMAC:
		if ps.lib == nil {
			return cbcmac.NewLMAC(f.lib, k1, size)
		}
		return cbcmac.NewLMACWithPadding(f.lib, k1, size, ps.lib)
	case mac.TrCBC:
		return cbcmac.NewTRCBCMAC(lb, size)
	case mac.CBCR:
		return cbcmac.NewCBCRMAC(lb, size)
	}
	panic("c19: unknown scheme")
}

// libBlock makes the library-side block cipher from the caller's key slice.
func libBlock(f family, k []byte) cipher.Block {
	lb, e := f.lib(k)
	if e != nil {
		panic(e)
	}
	return lb
}

// build constructs scheme s for family f with fresh random keys from r.
func build(s int, f family, ps padSel, size int, r *mon.Rand) (inst instance, err *mon.PanicInfo) {
	k1, k2 := r.Bytes(f.keyLen), r.Bytes(f.keyLen)
	var ok bool
	if inst.keys, ok = refKeys(s, f, k1, k2); !ok {
		return inst, &mon.PanicInfo{Value: "skip"}
	}
	err = mon.Try(func() {
		inst.lib = construct(s, f, ps, size, libBlock(f, k1), k1, k2)
	})
	return
}

func hasPadding(s int) bool {
	return s == mac.CBCMAC || s == mac.EMAC || s == mac.ANSIRetail || s == mac.MacDES || s == mac.LMAC
}

// judge compares one library tag with the reference; the CBCR defect model is the
// only thing routed to a known finding.
func judge(c *mon.Case, what string, s int, inst instance, ps padSel, msg, got []byte, size int) bool {
	return judgeF(c, func() string { return what }, s, inst, ps, msg, got, size)
}

// judgeF is judge with the description built only when it is needed.
func judgeF(c *mon.Case, whatf func() string, s int, inst instance, ps padSel, msg, got []byte, size int) bool {
	want := mac.Tag(s, inst.keys, ps.ref, msg, size)
	c.Event("compare", 1)
	if bytes.Equal(got, want) {
		return true
	}
	what := whatf()
	if s == mac.CBCR && (len(msg) == 0 || len(msg)%inst.keys.B.BlockSize() != 0) {
		if t, dropped := mac.CBCRShiftModel(inst.keys, msg); dropped && bytes.Equal(got, t[:size]) {
			c.Known("cbcr-shift-not-rotate", "mismatch", "%s: CBCR on a padded %d-byte message returns the shift-not-rotate value %x instead of %x", what, len(msg), got, want)
			return false
		}
	}
	c.Fail("mismatch", "%s: %s tag of a %d-byte message (size %d): got %x want %x", what, mac.Names[s], len(msg), size, got, want)
	return false
}

func lenClass(n, bs int) string {
	switch {
	case n == 0:
		return "empty"
	case n%bs == 0:
		return fmt.Sprintf("x%d", min(n/bs, 3))
	}
	return fmt.Sprintf("x%d+r%s", min(n/bs, 3), map[bool]string{true: "1", false: "n"}[n%bs == 1])
}

func tagsWL(x *mon.Ctx) {
	selftest(x)
	maxLen := x.Scale(80, 400) // thorough: every length up to 25 SM4 blocks (50 DES blocks)
	for s := mac.CBCMAC; s <= mac.CBCR; s++ {
		for _, f := range families {
			for _, ps := range pads {
				if !hasPadding(s) && ps.name != "default" {
					continue
				}
				for n := 0; n <= maxLen; n++ {
					sizes := []int{f.bs, 1 + (n % f.bs), f.bs / 2}
					if x.Thorough() {
						sizes = nil
						for z := 1; z <= f.bs; z++ {
							sizes = append(sizes, z)
						}
					}
					for _, size := range sizes {
						c := x.Begin("tags scheme=%s cipher=%s pad=%s len=%d size=%d", mac.Names[s], f.name, ps.name, n, size)
						if c == nil {
							continue
						}
						c.Class("tags/%s/%s/%s/%s/size%s", mac.Names[s], f.name, ps.name, lenClass(n, f.bs), sizeClass(size, f.bs))
						oneTag(c, s, f, ps, n, size)
						c.End()
					}
				}
			}
		}
	}
	// invalid sizes are refused by the constructors (documented panic); a refused call leaves
	// the caller's key slices as they were and a following valid call on the same slices is
	// unaffected. Both entry points (default padding and WithPadding) are driven.
	for s := mac.CBCMAC; s <= mac.CBCR; s++ {
		for _, f := range families {
			for _, ps := range pads[:2] {
				if !hasPadding(s) && ps.name != "default" {
					continue
				}
				c := x.Begin("ctor scheme=%s cipher=%s pad=%s invalid sizes", mac.Names[s], f.name, ps.name)
				if c == nil {
					continue
				}
				c.Class("ctor/%s/%s/%s", mac.Names[s], f.name, ps.name)
				refusedCtor(c, s, f, ps)
				c.End()
			}
		}
	}
	// method 3 puts the bit length into the first block: lengths around the point where the
	// length needs a third byte (65536 bits), for every construction with a selectable padding
	for s := mac.CBCMAC; s <= mac.CBCR; s++ {
		for _, f := range []family{families[0], families[2]} { // one 16-byte and one 8-byte block
			for _, ps := range pads[2:] {
				for _, n := range []int{8191, 8192, 8193} {
					if !hasPadding(s) {
						continue
					}
					c := x.Begin("tags scheme=%s cipher=%s pad=%s len=%d size=%d", mac.Names[s], f.name, ps.name, n, f.bs)
					if c == nil {
						continue
					}
					c.Class("tags/%s/%s/%s/long%+d/sizefull", mac.Names[s], f.name, ps.name, n-8192)
					oneTag(c, s, f, ps, n, f.bs)
					c.End()
				}
			}
		}
	}
}

func refusedCtor(c *mon.Case, s int, f family, ps padSel) {
	k1v, k2v := c.R.Bytes(f.keyLen), c.R.Bytes(f.keyLen)
	keys, ok := refKeys(s, f, k1v, k2v)
	if !ok {
		c.Trivial()
		return
	}
	K1, K2 := place(c.R, nil, k1v, plSpare, f.keyLen), place(c.R, nil, k2v, plSpare, f.keyLen)
	lb := libBlock(f, K1.s)
	for _, size := range []int{0, -1, f.bs + 1} {
		if p := mon.Try(func() { construct(s, f, ps, size, lb, K1.s, K2.s) }); p == nil {
			c.Fail("accept", "constructor accepted tag size %d for a %d-byte block", size, f.bs)
		}
		what := fmt.Sprintf("refused constructor (size %d)", size)
		K1.check(c, what, "key1")
		K2.check(c, what, "key2")
	}
	inst := instance{keys: keys}
	size := c.R.Range(1, f.bs)
	if !c.Call("constructor after refused calls", func() { inst.lib = construct(s, f, ps, size, lb, K1.s, K2.s) }) {
		return
	}
	msg := c.R.Bytes(c.R.Intn(3 * f.bs))
	var t []byte
	if c.Call("MAC", func() { t = inst.lib.MAC(append([]byte{}, msg...)) }) {
		judge(c, "MAC on an object built after refused constructor calls", s, inst, ps, msg, t, size)
	}
}

// roomClass: spare capacity of a Sum destination relative to the tag size.
func roomClass(spare, size int) string {
	switch {
	case spare == 0:
		return "none"
	case spare < size:
		return "short"
	case spare == size:
		return "exact"
	}
	return "more"
}

func sizeClass(size, bs int) string {
	switch {
	case size == bs:
		return "full"
	case size == 1:
		return "1"
	case size*2 == bs:
		return "half"
	case size*2 < bs:
		return "lt-half"
	}
	return "gt-half"
}

func oneTag(c *mon.Case, s int, f family, ps padSel, n, size int) {
	inst, p := build(s, f, ps, size, c.R)
	if p != nil {
		if p.String() == "skip" {
			c.Trivial()
			return
		}
		c.Fail("panic", "constructor: %v", p.Value)
		return
	}
	if inst.lib.Size() != size {
		c.Fail("mismatch", "Size() = %d want %d", inst.lib.Size(), size)
	}
	msg := c.R.Bytes(n)
	call := func(what string, m []byte) []byte {
		var t []byte
		in := append([]byte{}, m...)
		if !c.Call(what, func() { t = inst.lib.MAC(m) }) {
			return nil
		}
		if len(t) != size {
			c.Fail("mismatch", "%s: len(tag) = %d want %d", what, len(t), size)
			return nil
		}
		if !bytes.Equal(in, m) {
			c.Fail("mismatch", "%s modified the caller's message: %x -> %x", what, in, m)
		}
		judge(c, what, s, inst, ps, in, t, size)
		return t
	}
	// fresh object, exact-capacity message
	t0 := call("MAC(fresh)", msg[:n:n])
	// history: other messages first, then the same message again on the same object
	for k := c.R.Range(1, 3); k > 0; k-- {
		other := c.R.Bytes(c.R.Intn(3*f.bs + 2))
		call("MAC(other)", other)
	}
	t1 := call("MAC(reused object)", msg[:n:n])
	// message slice with spare capacity, twice (the library pads in place when it can)
	// the spare capacity holds stale non-zero bytes, as a reused read buffer would
	buf := bytes.Repeat([]byte{0xc3}, n+4*f.bs+8)[:n]
	copy(buf, msg)
	t2 := call("MAC(spare capacity)", buf)
	t3 := call("MAC(spare capacity, again)", buf)
	for i, t := range [][]byte{t1, t2, t3} {
		if t0 != nil && t != nil && !bytes.Equal(t, t0) {
			c.Fail("mismatch", "tag depends on history: fresh %x, variant %d %x", t0, i+1, t)
		}
	}
	c.Event("tags", 4)
}

// cmacStreamWL: CMAC is also a hash.Hash: any write partition with interleaved Sum,
// reuse after Reset and after MAC must give the one-shot value.
func cmacStreamWL(x *mon.Ctx) {
	selftest(x)
	gw, gs := mon.NewGuard(4096), mon.NewGuard(4096)
	for i := 0; i < x.Scale(12000, 1200000); i++ {
		c := x.Begin("cmacstream #%d", i)
		if c == nil {
			continue
		}
		f := families[c.R.Intn(len(families))]
		size := c.R.Range(1, f.bs)
		if c.R.Bool() {
			size = f.bs
		}
		inst, p := build(mac.CMAC, f, pads[0], size, c.R)
		if p != nil {
			c.Fail("panic", "NewCMAC: %v", p.Value)
			c.End()
			continue
		}
		h := inst.lib.(interface {
			Write([]byte) (int, error)
			Sum([]byte) []byte
			Reset()
			MAC([]byte) []byte
			Size() int
			BlockSize() int
		})
		if got := h.BlockSize(); got != f.bs {
			c.Fail("mismatch", "CMAC BlockSize() = %d over a cipher with %d-byte blocks", got, f.bs)
		}
		var model []byte
		var ops []string
		steps := c.R.Range(2, 14)
		// dirty the object first in half of the cases
		pre := c.R.Intn(3)
		if pre == 1 {
			h.MAC(c.R.Bytes(c.R.Intn(40)))
			h.Reset()
			ops = append(ops, "MAC;Reset")
		} else if pre == 2 {
			h.Write(c.R.Bytes(c.R.Intn(40)))
			h.Reset()
			ops = append(ops, "Write;Reset")
		}
		ok := true
		guardedChunk := false
		for sidx := 0; sidx < steps && ok; sidx++ {
			switch op := c.R.Intn(8); {
			case op < 5:
				n := []int{0, 1, f.bs - 1, f.bs, f.bs + 1, 2 * f.bs, 2*f.bs + 1, 3*f.bs - 1, c.R.Intn(70)}[c.R.Intn(9)]
				// the chunk lies in the caller's read buffer (any placement), which is reused
				// for other data as soon as Write has returned
				pl := c.R.Intn(nPlace)
				P := place(c.R, gw, c.R.Bytes(n), pl, c.R.Range(1, 2*f.bs))
				ops = append(ops, fmt.Sprintf("Write(%d,%s)", n, placeNames[pl]))
				c.Class("cmac/%s/write/nx=%s/len=%s/%s", f.name, lenClass(len(model), f.bs), lenClass(n, f.bs), placeNames[pl])
				var wn int
				var werr error
				if !c.Call("Write", func() { wn, werr = h.Write(P.s) }) {
					ok = false
					continue
				}
				if wn != n || werr != nil {
					c.Fail("mismatch", "Write of %d bytes returned (%d, %v) after %v", n, wn, werr, ops)
				}
				P.checkv(c, "Write", "chunk", false) // canaries of gw: once, at the end of the case
				guardedChunk = guardedChunk || P.g != nil
				model = append(model, P.s...)
				P.scribble(c.R)
			case op < 7:
				ops = append(ops, "Sum")
				c.Class("cmac/%s/sum/nx=%s", f.name, lenClass(len(model), f.bs))
			case op == 7 && c.R.Bool():
				// the one-shot MAC(m) on the RUNNING object (data absorbed, with or without a Sum behind it, no Reset):
				// its tag depends on the key and m alone. What the streaming state is afterwards is not specified:
				// the history goes on after a Reset.
				m := c.R.Bytes([]int{0, 1, f.bs - 1, f.bs, f.bs + 1, 2 * f.bs, c.R.Intn(60)}[c.R.Intn(7)])
				ops = append(ops, fmt.Sprintf("MAC(%d bytes, one-shot on the running object)", len(m)))
				c.Class("cmac/%s/oneshot-on-running/nx=%s/len=%s", f.name, lenClass(len(model), f.bs), lenClass(len(m), f.bs))
				var t []byte
				if !c.Call("MAC", func() { t = h.MAC(append([]byte{}, m...)) }) {
					ok = false
					continue
				}
				ok = judgeF(c, func() string { return fmt.Sprintf("one-shot MAC after %v", ops) }, mac.CMAC, inst, pads[0], m, t, size) && ok
				h.Reset()
				model = model[:0]
			default:
				ops = append(ops, "Reset")
				c.Class("cmac/%s/reset", f.name)
				h.Reset()
				model = model[:0]
			}
			// Sum appends to the caller's slice: prefix of 0-3 bytes, spare capacity one short
			// of the tag, exactly the tag (in place, ending at a guard page), more, none
			prefix := c.R.Bytes(c.R.Intn(4))
			spare := []int{0, size - 1, size, size + 1, f.bs, 2*f.bs + 3}[c.R.Intn(6)]
			pl := []int{plSpare, plSpare, plSpare, plGuardSpare}[c.R.Intn(4)]
			IN := place(c.R, gs, prefix, pl, spare)
			c.Class("cmac/%s/sum-dst/%s/room=%s", f.name, placeNames[pl], roomClass(spare, size))
			var a, b []byte
			if !c.Call("Sum", func() { a = h.Sum(IN.s); b = h.Sum(nil) }) {
				break
			}
			if !bytes.Equal(IN.full[:len(prefix)], prefix) {
				c.Fail("mismatch", "Sum modified the %d bytes already in the caller's slice: %x -> %x", len(prefix), prefix, IN.full[:len(prefix)])
				ok = false
			}
			if spare > size && !bytes.Equal(IN.full[len(prefix)+size:], IN.snap[len(prefix)+size:]) {
				c.Event("sum_wrote_behind_the_tag", 1) // observation only
			}
			if IN.g != nil && !c.CheckGuards("Sum", IN.g) {
				ok = false
			}
			if len(a) != len(prefix)+size || !bytes.Equal(a[:len(prefix)], prefix) || !bytes.Equal(a[len(prefix):], b) {
				c.Fail("mismatch", "Sum(%x with %d spare)/Sum(nil) inconsistent after %v: %x / %x", prefix, spare, ops, a, b)
				ok = false
			}
			ok = judgeF(c, func() string { return fmt.Sprintf("Sum after %v", ops) }, mac.CMAC, inst, pads[0], model, b, size) && ok
			// what Sum returned is the caller's: overwriting it must not reach the object
			dirt(c.R, a[:cap(a)])
			dirt(c.R, b[:cap(b)])
		}
		if guardedChunk {
			c.CheckGuards("the Write calls of the case", gw)
		}
		c.Detail("ops", ops)
		c.Event("history_steps", len(ops))
		c.End()
	}
}

// injectWL: flip every bit of the last block; with a full-size tag two messages of
// equal length differing in one bit must never share a tag.
func injectWL(x *mon.Ctx) {
	selftest(x)
	for s := mac.CBCMAC; s <= mac.CBCR; s++ {
		for _, f := range families {
			lens := []int{1, f.bs - 1, f.bs, f.bs + 1, 2 * f.bs, 2*f.bs + f.bs/2}
			for _, n := range lens {
				for rep := 0; rep < x.Scale(4, 120); rep++ {
					c := x.Begin("inject scheme=%s cipher=%s len=%d rep=%d", mac.Names[s], f.name, n, rep)
					if c == nil {
						continue
					}
					c.Class("inject/%s/%s/%s", mac.Names[s], f.name, lenClass(n, f.bs))
					inst, p := build(s, f, pads[0], f.bs, c.R)
					if p != nil {
						if p.String() == "skip" {
							c.Trivial()
						} else {
							c.Fail("panic", "constructor: %v", p.Value)
						}
						c.End()
						continue
					}
					msg := c.R.Bytes(n)
					var base []byte
					if !c.Call("MAC", func() { base = inst.lib.MAC(append([]byte{}, msg...)) }) {
						c.End()
						continue
					}
					judge(c, "MAC(base)", s, inst, pads[0], msg, base, f.bs)
					lastStart := (n - 1) / f.bs * f.bs
					for bit := lastStart * 8; bit < n*8; bit++ {
						m2 := append([]byte{}, msg...)
						m2[bit/8] ^= 0x80 >> (bit % 8)
						var t []byte
						if !c.Call("MAC", func() { t = inst.lib.MAC(append([]byte{}, m2...)) }) {
							break
						}
						c.Event("bit_flips", 1)
						if bytes.Equal(t, base) {
							// collision: only the modelled CBCR defect may explain it
							ta, da := mac.CBCRShiftModel(inst.keys, msg)
							tb, db := mac.CBCRShiftModel(inst.keys, m2)
							if s == mac.CBCR && n%f.bs != 0 && (da || db) && bytes.Equal(ta, base) && bytes.Equal(tb, t) {
								c.Known("cbcr-shift-not-rotate", "mismatch", "CBCR: %d-byte messages differing in bit %d share the tag %x (top bit of the final block is dropped)", n, bit, t)
							} else {
								c.Fail("mismatch", "%s: two %d-byte messages differing only in bit %d share the full-size tag %x", mac.Names[s], n, bit, t)
							}
							continue
						}
						judge(c, fmt.Sprintf("MAC(bit %d flipped)", bit), s, inst, pads[0], m2, t, f.bs)
					}
					c.End()
				}
			}
		}
	}
}
