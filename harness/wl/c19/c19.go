// Package c19 decides property C19 (block-cipher MACs) by comparing every tag the
// library returns with the reference constructions of verifh/ref/mac, on fresh and
// reused objects, streamed and one-shot, and by flipping single bits of the last block.
package c19

import (
	"bytes"
	"crypto/aes"
	"crypto/cipher"
	"crypto/des"
	"fmt"

	"github.com/emmansun/gmsm/cbcmac"
	"github.com/emmansun/gmsm/padding"
	"github.com/emmansun/gmsm/sm4"

	"verifh/mon"
	"verifh/ref/mac"
	"verifh/ref/pad"
	refsm4 "verifh/ref/sm4"
	"verifh/wl/reg"
)

func init() {
	reg.Register("c19.tags", "C19", tagsWL)
	reg.Register("c19.cmacstream", "C19", cmacStreamWL)
	reg.Register("c19.inject", "C19", injectWL)
}

// a cipher family: how the library side and the reference side build a block from a key
type family struct {
	name   string
	keyLen int
	bs     int
	lib    func(key []byte) (cipher.Block, error)
	ref    func(key []byte) mac.Block
}

func stdRef(f func([]byte) (cipher.Block, error)) func([]byte) mac.Block {
	return func(k []byte) mac.Block {
		b, err := f(k)
		if err != nil {
			panic(err)
		}
		return b
	}
}

var families = []family{
	{"sm4", 16, 16, sm4.NewCipher, func(k []byte) mac.Block { return refsm4.New(k) }},
	{"aes128", 16, 16, aes.NewCipher, stdRef(aes.NewCipher)},
	{"des", 8, 8, des.NewCipher, stdRef(des.NewCipher)},
	{"3des", 24, 8, des.NewTripleDESCipher, stdRef(des.NewTripleDESCipher)},
}

type padSel struct {
	name string
	ref  pad.Scheme
	lib  padding.NewPaddingFunc // nil = the constructor's default (method 2)
}

var pads = []padSel{
	{"default", pad.M2, nil},
	{"m2", pad.M2, padding.NewISO9797M2Padding},
	{"m3", pad.M3, padding.NewISO9797M3Padding},
}

func selftest(x *mon.Ctx) {
	if err := refsm4.SelfTest(false); err != nil {
		x.HarnessError("%v", err)
	}
	if err := mac.SelfTest(); err != nil {
		x.HarnessError("%v", err)
	}
}

// instance bundles a library MAC object with the reference keys for the same key material.
type instance struct {
	lib  cbcmac.BlockCipherMAC
	keys mac.Keys
}

// build constructs scheme s for family f with fresh random keys from r.
func build(s int, f family, ps padSel, size int, r *mon.Rand) (inst instance, err *mon.PanicInfo) {
	k1, k2 := r.Bytes(f.keyLen), r.Bytes(f.keyLen)
	if f.name == "des" || f.name == "3des" {
		// keep them valid whatever the parity rules: stdlib does not check parity
	}
	switch s {
	case mac.CBCMAC, mac.CMAC, mac.TrCBC, mac.CBCR:
		inst.keys = mac.Keys{B: f.ref(k1)}
	case mac.EMAC, mac.ANSIRetail:
		inst.keys = mac.Keys{B: f.ref(k1), B2: f.ref(k2)}
	case mac.MacDES:
		k3 := make([]byte, len(k2))
		for i := range k3 {
			k3[i] = k2[i] ^ 0xf0
		}
		inst.keys = mac.Keys{B: f.ref(k1), B2: f.ref(k2), B3: f.ref(k3)}
	case mac.LMAC:
		b := f.ref(k1)
		l1, l2 := make([]byte, f.bs), make([]byte, f.bs)
		l1[f.bs-1], l2[f.bs-1] = 1, 2
		b.Encrypt(l1, l1)
		b.Encrypt(l2, l2)
		if len(l1) != f.keyLen {
			// derived keys are one block long: only families whose key is one block can run LMAC
			return inst, &mon.PanicInfo{Value: "skip"}
		}
		inst.keys = mac.Keys{B: f.ref(l1), B2: f.ref(l2)}
	}
	err = mon.Try(func() {
		lb, e := f.lib(k1)
		if e != nil {
			panic(e)
		}
		switch s {
		case mac.CBCMAC:
			if ps.lib == nil {
				inst.lib = cbcmac.NewCBCMAC(lb, size)
			} else {
				inst.lib = cbcmac.NewCBCMACWithPadding(lb, size, ps.lib)
			}
		case mac.EMAC:
			if ps.lib == nil {
				inst.lib = cbcmac.NewEMAC(f.lib, k1, k2, size)
			} else {
				inst.lib = cbcmac.NewEMACWithPadding(f.lib, k1, k2, size, ps.lib)
			}
		case mac.ANSIRetail:
			if ps.lib == nil {
				inst.lib = cbcmac.NewANSIRetailMAC(f.lib, k1, k2, size)
			} else {
				inst.lib = cbcmac.NewANSIRetailMACWithPadding(f.lib, k1, k2, size, ps.lib)
			}
		case mac.MacDES:
			if ps.lib == nil {
				inst.lib = cbcmac.NewMACDES(f.lib, k1, k2, size)
			} else {
				inst.lib = cbcmac.NewMACDESWithPadding(f.lib, k1, k2, size, ps.lib)
			}
		case mac.CMAC:
			inst.lib = cbcmac.NewCMAC(lb, size)
		case mac.LMAC:
			if ps.lib == nil {
				inst.lib = cbcmac.NewLMAC(f.lib, k1, size)
			} else {
				inst.lib = cbcmac.NewLMACWithPadding(f.lib, k1, size, ps.lib)
			}
		case mac.TrCBC:
			inst.lib = cbcmac.NewTRCBCMAC(lb, size)
		case mac.CBCR:
			inst.lib = cbcmac.NewCBCRMAC(lb, size)
		}
	})
	return
}

func hasPadding(s int) bool {
	return s == mac.CBCMAC || s == mac.EMAC || s == mac.ANSIRetail || s == mac.MacDES || s == mac.LMAC
}

// judge compares one library tag with the reference; the CBCR defect model is the
// only thing routed to a known finding.
func judge(c *mon.Case, what string, s int, inst instance, ps padSel, msg, got []byte, size int) bool {
	want := mac.Tag(s, inst.keys, ps.ref, msg, size)
	c.Event("compare", 1)
	if bytes.Equal(got, want) {
		return true
	}
	if s == mac.CBCR && (len(msg) == 0 || len(msg)%inst.keys.B.BlockSize() != 0) {
		if t, dropped := mac.CBCRShiftModel(inst.keys, msg); dropped && bytes.Equal(got, t[:size]) {
			c.Known("cbcr-shift-not-rotate", "mismatch", "%s: CBCR on a padded %d-byte message returns the shift-not-rotate value %x instead of %x", what, len(msg), got, want)
			return false
		}
	}
	c.Fail("mismatch", "%s: %s tag of a %d-byte message (size %d): got %x want %x", what, mac.Names[s], len(msg), size, got, want)
	return false
}

func lenClass(n, bs int) string {
	switch {
	case n == 0:
		return "empty"
	case n%bs == 0:
		return fmt.Sprintf("x%d", min(n/bs, 3))
	}
	return fmt.Sprintf("x%d+r%s", min(n/bs, 3), map[bool]string{true: "1", false: "n"}[n%bs == 1])
}

func tagsWL(x *mon.Ctx) {
	selftest(x)
	maxLen := 80
	for s := mac.CBCMAC; s <= mac.CBCR; s++ {
		for _, f := range families {
			for _, ps := range pads {
				if !hasPadding(s) && ps.name != "default" {
					continue
				}
				for n := 0; n <= maxLen; n++ {
					sizes := []int{f.bs, 1 + (n % f.bs), f.bs / 2}
					if x.Thorough() {
						sizes = nil
						for z := 1; z <= f.bs; z++ {
							sizes = append(sizes, z)
						}
					}
					for _, size := range sizes {
						c := x.Begin("tags scheme=%s cipher=%s pad=%s len=%d size=%d", mac.Names[s], f.name, ps.name, n, size)
						if c == nil {
							continue
						}
						c.Class("tags/%s/%s/%s/%s/size%s", mac.Names[s], f.name, ps.name, lenClass(n, f.bs), sizeClass(size, f.bs))
						oneTag(c, s, f, ps, n, size)
						c.End()
					}
				}
			}
		}
	}
	// invalid sizes are refused by the constructors (documented panic)
	for s := mac.CBCMAC; s <= mac.CBCR; s++ {
		for _, f := range families {
			c := x.Begin("ctor scheme=%s cipher=%s invalid sizes", mac.Names[s], f.name)
			if c == nil {
				continue
			}
			c.Class("ctor/%s/%s", mac.Names[s], f.name)
			for _, size := range []int{0, -1, f.bs + 1} {
				if _, p := build(s, f, pads[0], size, c.R); p == nil {
					c.Fail("accept", "constructor accepted tag size %d for a %d-byte block", size, f.bs)
				}
			}
			c.End()
		}
	}
}

func sizeClass(size, bs int) string {
	switch {
	case size == bs:
		return "full"
	case size == 1:
		return "1"
	case size*2 == bs:
		return "half"
	case size*2 < bs:
		return "lt-half"
	}
	return "gt-half"
}

func oneTag(c *mon.Case, s int, f family, ps padSel, n, size int) {
	inst, p := build(s, f, ps, size, c.R)
	if p != nil {
		if p.String() == "skip" {
			c.Trivial()
			return
		}
		c.Fail("panic", "constructor: %v", p.Value)
		return
	}
	if inst.lib.Size() != size {
		c.Fail("mismatch", "Size() = %d want %d", inst.lib.Size(), size)
	}
	msg := c.R.Bytes(n)
	call := func(what string, m []byte) []byte {
		var t []byte
		in := append([]byte{}, m...)
		if !c.Call(what, func() { t = inst.lib.MAC(m) }) {
			return nil
		}
		if len(t) != size {
			c.Fail("mismatch", "%s: len(tag) = %d want %d", what, len(t), size)
			return nil
		}
		if !bytes.Equal(in, m) {
			c.Fail("mismatch", "%s modified the caller's message: %x -> %x", what, in, m)
		}
		judge(c, what, s, inst, ps, in, t, size)
		return t
	}
	// fresh object, exact-capacity message
	t0 := call("MAC(fresh)", msg[:n:n])
	// history: other messages first, then the same message again on the same object
	for k := c.R.Range(1, 3); k > 0; k-- {
		other := c.R.Bytes(c.R.Intn(3*f.bs + 2))
		call("MAC(other)", other)
	}
	t1 := call("MAC(reused object)", msg[:n:n])
	// message slice with spare capacity, twice (the library pads in place when it can)
	// the spare capacity holds stale non-zero bytes, as a reused read buffer would
	buf := bytes.Repeat([]byte{0xc3}, n+4*f.bs+8)[:n]
	copy(buf, msg)
	t2 := call("MAC(spare capacity)", buf)
	t3 := call("MAC(spare capacity, again)", buf)
	for i, t := range [][]byte{t1, t2, t3} {
		if t0 != nil && t != nil && !bytes.Equal(t, t0) {
			c.Fail("mismatch", "tag depends on history: fresh %x, variant %d %x", t0, i+1, t)
		}
	}
	c.Event("tags", 4)
}

// cmacStreamWL: CMAC is also a hash.Hash: any write partition with interleaved Sum,
// reuse after Reset and after MAC must give the one-shot value.
func cmacStreamWL(x *mon.Ctx) {
	selftest(x)
	for i := 0; i < x.Scale(6000, 150000); i++ {
		c := x.Begin("cmacstream #%d", i)
		if c == nil {
			continue
		}
		f := families[c.R.Intn(len(families))]
		size := c.R.Range(1, f.bs)
		if c.R.Bool() {
			size = f.bs
		}
		inst, p := build(mac.CMAC, f, pads[0], size, c.R)
		if p != nil {
			c.Fail("panic", "NewCMAC: %v", p.Value)
			c.End()
			continue
		}
		h := inst.lib.(interface {
			Write([]byte) (int, error)
			Sum([]byte) []byte
			Reset()
			MAC([]byte) []byte
			Size() int
			BlockSize() int
		})
		var model []byte
		var ops []string
		steps := c.R.Range(2, 14)
		// dirty the object first in half of the cases
		pre := c.R.Intn(3)
		if pre == 1 {
			h.MAC(c.R.Bytes(c.R.Intn(40)))
			h.Reset()
			ops = append(ops, "MAC;Reset")
		} else if pre == 2 {
			h.Write(c.R.Bytes(c.R.Intn(40)))
			h.Reset()
			ops = append(ops, "Write;Reset")
		}
		ok := true
		for sidx := 0; sidx < steps && ok; sidx++ {
			switch op := c.R.Intn(8); {
			case op < 5:
				n := []int{0, 1, f.bs - 1, f.bs, f.bs + 1, 2 * f.bs, 2*f.bs + 1, 3*f.bs - 1, c.R.Intn(70)}[c.R.Intn(9)]
				p := c.R.Bytes(n)
				ops = append(ops, fmt.Sprintf("Write(%d)", n))
				c.Class("cmac/%s/write/nx=%s/len=%s", f.name, lenClass(len(model), f.bs), lenClass(n, f.bs))
				c.Call("Write", func() { h.Write(p) })
				model = append(model, p...)
			case op < 7:
				ops = append(ops, "Sum")
				c.Class("cmac/%s/sum/nx=%s", f.name, lenClass(len(model), f.bs))
			default:
				ops = append(ops, "Reset")
				c.Class("cmac/%s/reset", f.name)
				h.Reset()
				model = model[:0]
			}
			var a, b []byte
			if !c.Call("Sum", func() { a = h.Sum([]byte{9}); b = h.Sum(nil) }) {
				break
			}
			if len(a) != size+1 || a[0] != 9 || !bytes.Equal(a[1:], b) {
				c.Fail("mismatch", "Sum(prefix)/Sum(nil) inconsistent after %v: %x / %x", ops, a, b)
				ok = false
			}
			ok = judge(c, fmt.Sprintf("Sum after %v", ops), mac.CMAC, inst, pads[0], model, b, size) && ok
		}
		c.Detail("ops", ops)
		c.Event("history_steps", len(ops))
		c.End()
	}
}

// injectWL: flip every bit of the last block; with a full-size tag two messages of
// equal length differing in one bit must never share a tag.
func injectWL(x *mon.Ctx) {
	selftest(x)
	for s := mac.CBCMAC; s <= mac.CBCR; s++ {
		for _, f := range families {
			lens := []int{1, f.bs - 1, f.bs, f.bs + 1, 2 * f.bs, 2*f.bs + f.bs/2}
			for _, n := range lens {
				for rep := 0; rep < x.Scale(2, 20); rep++ {
					c := x.Begin("inject scheme=%s cipher=%s len=%d rep=%d", mac.Names[s], f.name, n, rep)
					if c == nil {
						continue
					}
					c.Class("inject/%s/%s/%s", mac.Names[s], f.name, lenClass(n, f.bs))
					inst, p := build(s, f, pads[0], f.bs, c.R)
					if p != nil {
						if p.String() == "skip" {
							c.Trivial()
						} else {
							c.Fail("panic", "constructor: %v", p.Value)
						}
						c.End()
						continue
					}
					msg := c.R.Bytes(n)
					var base []byte
					if !c.Call("MAC", func() { base = inst.lib.MAC(append([]byte{}, msg...)) }) {
						c.End()
						continue
					}
					judge(c, "MAC(base)", s, inst, pads[0], msg, base, f.bs)
					lastStart := (n - 1) / f.bs * f.bs
					for bit := lastStart * 8; bit < n*8; bit++ {
						m2 := append([]byte{}, msg...)
						m2[bit/8] ^= 0x80 >> (bit % 8)
						var t []byte
						if !c.Call("MAC", func() { t = inst.lib.MAC(append([]byte{}, m2...)) }) {
							break
						}
						c.Event("bit_flips", 1)
						if bytes.Equal(t, base) {
							// collision: only the modelled CBCR defect may explain it
							ta, da := mac.CBCRShiftModel(inst.keys, msg)
							tb, db := mac.CBCRShiftModel(inst.keys, m2)
							if s == mac.CBCR && n%f.bs != 0 && (da || db) && bytes.Equal(ta, base) && bytes.Equal(tb, t) {
								c.Known("cbcr-shift-not-rotate", "mismatch", "CBCR: %d-byte messages differing in bit %d share the tag %x (top bit of the final block is dropped)", n, bit, t)
							} else {
								c.Fail("mismatch", "%s: two %d-byte messages differing only in bit %d share the full-size tag %x", mac.Names[s], n, bit, t)
							}
							continue
						}
						judge(c, fmt.Sprintf("MAC(bit %d flipped)", bit), s, inst, pads[0], m2, t, f.bs)
					}
					c.End()
				}
			}
		}
	}
}
