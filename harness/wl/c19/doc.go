// Package c19 holds the workloads and oracles that decide property C19.
package c19
