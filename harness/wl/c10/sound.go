package c10

import (
	"bytes"
	"fmt"
	"math/big"
	"strings"

	"github.com/emmansun/gmsm/sm9"
	hk "github.com/emmansun/gmsm/verifhook"

	"verifh/mon"
	ref "verifh/ref/sm9"
)

// sound decides the soundness clause: for honest artefacts of a round (signature in
// DER and (h,S) form, ciphertexts in the five modes in raw and ASN.1 form, wrapped
// keys raw and DER, the four key-exchange messages) EVERY single-byte substitution
// (b^0x01, b^0x80, 0x00, 0xFF at every position) and EVERY truncation is presented
// to the matching consumer. Expected verdicts come from the reference model: a
// signature mutant is refused; a ciphertext mutant is refused, or - counted, not a
// violation - decrypts to the same plaintext; it must never decrypt to another
// plaintext unless the reference decryption does too; a mutated G1 point is
// accepted exactly when it is still a canonical point of the curve. Identity
// mutants are skipped. A round is rebuilt deterministically from (seed, round).
// Per round three more cases present the UNREDUCED ALIASES of every integer and
// field element the consumers decode (alias.go).

const chunkPositions = 16

var soundMsgLens = []int{20, 70, 33, 1, 16, 100, 48, 17}
var soundUIDLens = []int{5, 61, 0, 64, 130, 200, 63, 1}

func soundMsgLen(round, mi int) int { return soundMsgLens[(round+mi)%len(soundMsgLens)] }

func c2Len(m ref.Mode, n int) int {
	l := n
	if m == ref.ECB || m == ref.CBC {
		l = n/16*16 + 16
	}
	if m.HasIV() {
		l += 16
	}
	return l
}

type artefact struct {
	name string
	size int // known without building the round
}

func soundArtefacts(round int) []artefact {
	as := []artefact{{"sig/der", 104}, {"sig/h", 32}, {"sig/S", 65}, {"sig/nearmiss", 32}}
	for mi, m := range ref.Modes {
		n := c2Len(m, soundMsgLen(round, mi))
		as = append(as, artefact{"ct/" + m.String() + "/raw", 96 + n},
			artefact{"ct/" + m.String() + "/asn1", len(ref.EncodeCipher(m, make([]byte, 65), make([]byte, 32), make([]byte, n)))})
	}
	return append(as, artefact{"wrap/raw", 65}, artefact{"wrap/der", 68},
		artefact{"kex/RA", 65}, artefact{"kex/RB", 65}, artefact{"kex/SB", 32}, artefact{"kex/SA", 32})
}

// roundData holds the honest artefacts of one round.
type roundData struct {
	id        int
	uid, uidB []byte
	hid       byte
	msg       []byte // signed message
	smk       *sm9.SignMasterPrivateKey
	spub      *sm9.SignMasterPublicKey
	sigH      []byte
	sigS      []byte
	dsA       []byte // the signer's private key 04||x||y (the monitor may use it, an attacker could not)
	emk       *sm9.EncryptMasterPrivateKey
	epub      *sm9.EncryptMasterPublicKey
	euk       *sm9.EncryptPrivateKey
	eukB      *sm9.EncryptPrivateKey
	klen      int
	wkey      []byte
	msgs      map[string][]byte // plaintext per ciphertext artefact
	data      map[string][]byte
	err       error
}

var cachedRound *roundData

func getRound(x *mon.Ctx, id int) *roundData {
	if cachedRound != nil && cachedRound.id == id {
		return cachedRound
	}
	cachedRound = buildRound(x.Seed, id)
	return cachedRound
}

func buildRound(seed uint64, id int) *roundData {
	r := mon.NewRand(seed, "c10.sound.round", id)
	rd := &roundData{id: id, data: map[string][]byte{}, msgs: map[string][]byte{}}
	rnd := mon.NewScript(nil)
	rnd.Tail = mon.NewRand(seed, "c10.sound.random", id)
	fail := func(what string, err error) *roundData {
		rd.err = fmt.Errorf("%s: %v", what, err)
		return rd
	}
	rd.uid = r.Bytes(soundUIDLens[id%len(soundUIDLens)])
	if id >= len(soundUIDLens) {
		rd.uid = r.Bytes(r.Range(0, 200))
	}
	rd.uidB = r.Bytes(r.Range(1, 40))
	rd.hid = hids[id%4]
	rd.msg = r.Bytes(soundMsgLen(id, 0) + 7)
	var err error
	if rd.smk, err = sm9.GenerateSignMasterKey(rnd); err != nil {
		return fail("GenerateSignMasterKey", err)
	}
	rd.spub = rd.smk.PublicKey()
	suk, err := rd.smk.GenerateUserKey(rd.uid, rd.hid)
	if err != nil {
		return fail("GenerateUserKey", err)
	}
	sig, err := sm9.SignASN1(rnd, suk, rd.msg)
	if err != nil {
		return fail("SignASN1", err)
	}
	rd.data["sig/der"] = sig
	h, s, err := ref.ParseSignature(sig)
	if err != nil {
		return fail("ParseSignature", err)
	}
	rd.sigH, rd.sigS, rd.dsA = h, s, suk.Bytes()
	rd.data["sig/h"], rd.data["sig/S"], rd.data["sig/nearmiss"] = h, s, h
	if rd.emk, err = sm9.GenerateEncryptMasterKey(rnd); err != nil {
		return fail("GenerateEncryptMasterKey", err)
	}
	rd.epub = rd.emk.PublicKey()
	if rd.euk, err = rd.emk.GenerateUserKey(rd.uid, rd.hid); err != nil {
		return fail("GenerateUserKey", err)
	}
	if rd.eukB, err = rd.emk.GenerateUserKey(rd.uidB, rd.hid); err != nil {
		return fail("GenerateUserKey", err)
	}
	for mi, m := range ref.Modes {
		msg := r.Bytes(soundMsgLen(id, mi))
		raw, err := sm9.Encrypt(rnd, rd.epub, rd.uid, rd.hid, msg, optsOf(m))
		if err != nil {
			return fail("Encrypt", err)
		}
		der, err := sm9.EncryptASN1(rnd, rd.epub, rd.uid, rd.hid, msg, optsOf(m))
		if err != nil {
			return fail("EncryptASN1", err)
		}
		rd.data["ct/"+m.String()+"/raw"], rd.data["ct/"+m.String()+"/asn1"] = raw, der
		rd.msgs["ct/"+m.String()+"/raw"], rd.msgs["ct/"+m.String()+"/asn1"] = msg, msg
	}
	rd.klen = []int{16, 100, 32, 240}[id%4]
	key, cip, err := sm9.WrapKey(rnd, rd.epub, rd.uid, rd.hid, rd.klen)
	if err != nil {
		return fail("WrapKey", err)
	}
	rd.wkey = key
	rd.data["wrap/raw"] = cip
	rd.data["wrap/der"] = ref.DERBitString(cip)
	return rd
}

// kexState builds a fresh, confirmed key exchange of the round (the objects are
// stateful, so every case gets its own).
type kexState struct {
	a, b           sm9.KeyExchange
	ra, rb, sb, sa []byte
	key            []byte
	rnd            *mon.Script
}

func (rd *roundData) newKex(seed uint64) (*kexState, error) {
	k := &kexState{}
	k.rnd = mon.NewScript(nil)
	k.rnd.Tail = mon.NewRand(seed, "c10.sound.kex", rd.id)
	k.a = rd.euk.NewKeyExchange(rd.uid, rd.uidB, 32, true)
	k.b = rd.eukB.NewKeyExchange(rd.uidB, rd.uid, 32, true)
	ra, err := k.a.InitKeyExchange(k.rnd, rd.hid)
	if err != nil {
		return nil, err
	}
	k.ra = append([]byte{}, ra...)
	rb, sb, err := k.b.RespondKeyExchange(k.rnd, rd.hid, k.ra)
	if err != nil {
		return nil, err
	}
	k.rb, k.sb = append([]byte{}, rb...), append([]byte{}, sb...)
	key, sa, err := k.a.ConfirmResponder(k.rb, k.sb)
	if err != nil {
		return nil, err
	}
	k.sa, k.key = append([]byte{}, sa...), key
	kb, err := k.b.ConfirmInitiator(k.sa)
	if err != nil {
		return nil, err
	}
	if !bytes.Equal(kb, key) {
		return nil, fmt.Errorf("keys differ")
	}
	return k, nil
}

func sound(x *mon.Ctx) {
	selfTest(x)
	rounds := x.Scale(3, 40)
	if x.Variant == "purego" {
		// the decision logic is the same Go code in both builds; the pure-Go build (3x
		// slower) sweeps fewer rounds
		rounds = x.Scale(1, 16)
	}
	for id := 0; id < rounds; id++ {
		if c := x.Begin("sound round=%d wrong uid / hid / message / key for the signature and the ten ciphertexts", id); c != nil {
			c.Class("sound/context/hid=%#x", hids[id%4])
			rd := getRound(x, id)
			if rd.err != nil {
				c.Fail("reject", "honest operation failed while building round %d: %v", id, rd.err)
			} else {
				wrongContext(c, rd)
			}
			c.End()
		}
		aliasCases(x, id)
		for _, a := range soundArtefacts(id) {
			for lo := 0; lo < a.size; lo += chunkPositions {
				hi := min(lo+chunkPositions, a.size)
				c := x.Begin("sound round=%d artefact=%s (%d bytes) positions %d..%d: substitutions ^01 ^80 00 FF and truncation to each length", id, a.name, a.size, lo, hi-1)
				if c == nil {
					continue
				}
				c.Class("sound/%s/chunk%d", a.name, min(lo/chunkPositions, 12))
				rd := getRound(x, id)
				if rd.err != nil {
					c.Fail("reject", "honest operation failed while building round %d: %v", id, rd.err)
					c.End()
					continue
				}
				sweep(c, x, rd, a, lo, hi)
				c.End()
			}
		}
	}
}

// mutants calls f for every candidate derived from positions lo..hi-1 of orig.
func mutants(orig []byte, lo, hi int, f func(kind string, m []byte)) {
	for p := lo; p < hi; p++ {
		for _, v := range []byte{orig[p] ^ 0x01, orig[p] ^ 0x80, 0x00, 0xFF} {
			if v == orig[p] {
				continue // identity mutant
			}
			m := append([]byte{}, orig...)
			m[p] = v
			f(fmt.Sprintf("byte %d: %02x -> %02x", p, orig[p], v), m)
		}
		f(fmt.Sprintf("truncated to %d bytes", p), append([]byte{}, orig[:p]...))
	}
}

// pointVerdict is the reference accept set for an encoded G1 point in a message:
// 04||x||y with a canonical point of the curve.
func pointVerdict(b []byte) bool { return len(b) == 65 && b[0] == 4 && ref.OnCurveG1(b[1:]) }

func sweep(c *mon.Case, x *mon.Ctx, rd *roundData, a artefact, lo, hi int) {
	var orig []byte
	var kx *kexState
	if strings.HasPrefix(a.name, "kex/") {
		var err error
		if kx, err = rd.newKex(x.Seed); err != nil {
			c.Fail("reject", "honest key exchange failed: %v", err)
			return
		}
		orig = map[string][]byte{"kex/RA": kx.ra, "kex/RB": kx.rb, "kex/SB": kx.sb, "kex/SA": kx.sa}[a.name]
	} else {
		orig = rd.data[a.name]
	}
	if len(orig) != a.size {
		c.Fail("mismatch", "artefact %s has %d bytes, the formats predict %d: %x", a.name, len(orig), a.size, orig)
		return
	}
	refused := func() { c.Event("mutants_refused", 1) }
	mutants(orig, lo, hi, func(kind string, m []byte) {
		c.Event("mutants", 1)
		switch {
		case a.name == "sig/der":
			var ok bool
			if !c.Call("VerifyASN1("+kind+")", func() { ok = sm9.VerifyASN1(rd.spub, rd.uid, rd.hid, rd.msg, m) }) {
				return
			}
			if !ok {
				refused()
				return
			}
			if h, s, err := ref.ParseSignature(m); err == nil && len(s) == 65 && s[0] == 4 && modelVerify(rd.spub.Bytes()[1:], rd.uid, rd.hid, rd.msg, h, s[1:]) {
				c.Event("mutants_accepted_also_valid_by_reference/"+a.name+"/"+kind, 1)
				return
			}
			c.Fail("accept", "VerifyASN1 accepts an altered signature (%s): %x (honest: %x)", kind, m, orig)
		case a.name == "sig/h":
			hv := new(big.Int).SetBytes(m)
			if hv.Cmp(new(big.Int).SetBytes(orig)) == 0 {
				return // same number: identity
			}
			var ok bool
			if !c.Call("Verify(h "+kind+")", func() { ok = sm9.Verify(rd.spub, rd.uid, rd.hid, rd.msg, hv, rd.sigS) }) {
				return
			}
			if !ok {
				refused()
				return
			}
			if hv.Cmp(ref.N) < 0 && modelVerify(rd.spub.Bytes()[1:], rd.uid, rd.hid, rd.msg, ref.Bytes32(hv), rd.sigS[1:]) {
				c.Event("mutants_accepted_also_valid_by_reference/"+a.name+"/"+kind, 1)
				return
			}
			c.Fail("accept", "Verify accepts an altered h (%s): %x (honest %x)", kind, m, orig)
		case a.name == "sig/S":
			var ok bool
			if !c.Call("Verify(S "+kind+")", func() { ok = sm9.Verify(rd.spub, rd.uid, rd.hid, rd.msg, new(big.Int).SetBytes(rd.sigH), m) }) {
				return
			}
			if !ok {
				refused()
				return
			}
			if pointVerdict(m) && modelVerify(rd.spub.Bytes()[1:], rd.uid, rd.hid, rd.msg, rd.sigH, m[1:]) {
				c.Event("mutants_accepted_also_valid_by_reference/"+a.name+"/"+kind, 1)
				return
			}
			c.Fail("accept", "Verify accepts an altered S (%s): %x (honest %x)", kind, m, orig)
		case a.name == "sig/nearmiss":
			// h' differs from h in one byte and S' = S + [h-h']dsA, so that the verifier
			// recomputes exactly the honest w and H2(M||w) = h: the pair is wrong ONLY in
			// that byte of h - refused unless the final comparison skips it
			hv := new(big.Int).SetBytes(m)
			if len(m) != 32 || hv.Sign() == 0 || hv.Cmp(ref.N) >= 0 {
				c.Event("mutants", -1)
				return
			}
			d := new(big.Int).Sub(new(big.Int).SetBytes(orig), hv)
			d.Mod(d, ref.N)
			sp, dp := g1From(rd.sigS[1:]), g1From(rd.dsA[1:])
			if sp == nil || dp == nil {
				c.Fail("mismatch", "honest S or dsA does not decode")
				return
			}
			t, err := new(hk.G1).ScalarMult(dp, ref.Bytes32(d))
			if err != nil {
				return
			}
			s2 := t.Add(t, sp).MarshalUncompressed()
			var ok1, ok2 bool
			if !c.Call("Verify(near miss "+kind+")", func() {
				ok1 = sm9.Verify(rd.spub, rd.uid, rd.hid, rd.msg, hv, s2)
				ok2 = sm9.VerifyASN1(rd.spub, rd.uid, rd.hid, rd.msg, ref.EncodeSignature(m, s2))
			}) {
				return
			}
			if !ok1 && !ok2 {
				refused()
				return
			}
			c.Fail("accept", "Verify=%v VerifyASN1=%v accept (h', S') with h' = %x differing from H2(M||w') = %x only in %s (S' = S + [h-h']dsA = %x)", ok1, ok2, m, orig, kind, s2)
		case strings.HasPrefix(a.name, "ct/"):
			sweepCipher(c, rd, a.name, kind, m, orig)
		case a.name == "wrap/raw" || a.name == "wrap/der":
			var got []byte
			var err error
			raw := m
			if a.name == "wrap/der" {
				if !c.Call("priv.UnwrapKey("+kind+")", func() { got, err = rd.euk.UnwrapKey(rd.uid, m, rd.klen) }) {
					return
				}
				var perr error
				if raw, perr = ref.ParseBitString(m); perr != nil {
					raw = nil
				}
			} else if !c.Call("UnwrapKey("+kind+")", func() { got, err = sm9.UnwrapKey(rd.euk, rd.uid, m, rd.klen) }) {
				return
			}
			if len(raw) == 65 && raw[0] == 4 {
				raw = raw[1:]
			}
			valid := ref.OnCurveG1(raw)
			switch {
			case err != nil && !valid:
				refused()
			case err != nil:
				c.Fail("reject", "UnwrapKey refuses %x (%s), a canonical point of G1: %v", m, kind, err)
			case !valid:
				c.Fail("accept", "UnwrapKey accepts an altered C (%s) that is not a canonical point of G1: %x -> key %x", kind, m, got)
			default:
				c.Event("mutants_accepted_also_valid_by_reference/"+a.name+"/"+kind, 1)
				c.Eq("key unwrapped from another valid point", got, ref.KDF(ref.Cat(raw, modelW(raw, rd.euk.Bytes()[1:]), rd.uid), rd.klen))
			}
		case a.name == "kex/RA":
			b := rd.eukB.NewKeyExchange(rd.uidB, rd.uid, 32, true)
			var err error
			if !c.Call("RespondKeyExchange("+kind+")", func() { _, _, err = b.RespondKeyExchange(kx.rnd, rd.hid, m) }) {
				return
			}
			switch valid := pointVerdict(m); {
			case err != nil && !valid:
				refused()
			case err != nil:
				c.Fail("reject", "RespondKeyExchange refuses the valid point %x: %v", m, err)
			case !valid:
				c.Fail("accept", "RespondKeyExchange accepts an altered RA (%s) that is not 04||canonical point of G1: %x", kind, m)
			default:
				c.Event("mutants_accepted_also_valid_by_reference/"+a.name+"/"+kind, 1)
			}
		case a.name == "kex/RB":
			var err error
			var key []byte
			if !c.Call("ConfirmResponder(RB "+kind+")", func() { key, _, err = kx.a.ConfirmResponder(m, kx.sb) }) {
				return
			}
			if err != nil {
				refused()
				return
			}
			c.Fail("accept", "ConfirmResponder accepts an altered RB (%s) although SB confirms the honest RB: %x -> key %x", kind, m, key)
		case a.name == "kex/SB":
			if len(m) == 0 {
				// an empty SB is the API's way of saying "no confirmation sent"; observed only
				var err error
				if c.Call("ConfirmResponder(empty SB)", func() { _, _, err = kx.a.ConfirmResponder(kx.rb, m) }) && err == nil {
					c.Event("kex_empty_SB_skips_confirmation_check", 1)
				}
				return
			}
			var err error
			if !c.Call("ConfirmResponder(SB "+kind+")", func() { _, _, err = kx.a.ConfirmResponder(kx.rb, m) }) {
				return
			}
			if err != nil {
				refused()
				return
			}
			c.Fail("accept", "ConfirmResponder accepts an altered confirmation SB (%s): %x (honest %x)", kind, m, orig)
		case a.name == "kex/SA":
			var err error
			if !c.Call("ConfirmInitiator(SA "+kind+")", func() { _, err = kx.b.ConfirmInitiator(m) }) {
				return
			}
			if err != nil {
				refused()
				return
			}
			c.Fail("accept", "ConfirmInitiator accepts an altered confirmation SA (%s): %x (honest %x)", kind, m, orig)
		}
	})
	if kx != nil {
		// the honest run still completes on these objects after all the refused attempts
		key, _, err := kx.a.ConfirmResponder(kx.rb, kx.sb)
		if err != nil || !bytes.Equal(key, kx.key) {
			c.Fail("reject", "after refused attempts the honest responder message is no longer accepted: %v", err)
		}
	}
}

func modeOf(name string) (ref.Mode, bool) {
	parts := strings.Split(name, "/")
	for _, m := range ref.Modes {
		if m.String() == parts[1] {
			return m, parts[2] == "asn1"
		}
	}
	panic("c10: unknown artefact " + name)
}

func sweepCipher(c *mon.Case, rd *roundData, name, kind string, m, orig []byte) {
	mode, asn1 := modeOf(name)
	judgeCipher(c, rd, name, mode, asn1, rd.msgs[name], kind, m)
}

// judgeCipher presents an altered ciphertext m (the honest one encrypts msg for the
// round's user in the given mode and encoding) to the matching decrypt entry point
// and decides it as described at the top of this file. It returns the verdict:
// "refused", "same-plaintext", "valid-by-reference", "violation" or "panic".
func judgeCipher(c *mon.Case, rd *roundData, name string, mode ref.Mode, asn1 bool, msg []byte, kind string, m []byte) string {
	var got []byte
	var err error
	if asn1 {
		if !c.Call("DecryptASN1("+kind+")", func() { got, err = sm9.DecryptASN1(rd.euk, rd.uid, m) }) {
			return "panic"
		}
	} else {
		p := mon.Try(func() { got, err = sm9.Decrypt(rd.euk, rd.uid, m, optsOf(mode)) })
		if p != nil {
			if len(m) < 96 && strings.Contains(p.String(), "slice bounds out of range") {
				// sm9.Decrypt slices ciphertext[:64] / [64:][:32] without a length check: a
				// hostile-input panic that property C13 decides; here it counts as "not accepted"
				c.Event("raw_ciphertext_below_96_bytes_panics(C13)", 1)
				return "refused"
			}
			c.Detail("stack", p.Stack)
			c.Fail("panic", "Decrypt(%s, %d bytes): panic: %v", kind, len(m), p.Value)
			return "panic"
		}
	}
	if err != nil {
		c.Event("mutants_refused", 1)
		return "refused"
	}
	if bytes.Equal(got, msg) {
		c.Event("mutants_decrypting_to_same_plaintext", 1)
		return "same-plaintext"
	}
	// another plaintext without an error: only legitimate if the reference decryption agrees
	var c1, c3, c2 []byte
	md := mode
	ok := false
	if asn1 {
		if ty, b1, x3, x2, perr := ref.ParseCipher(m); perr == nil && ty.IsInt64() && len(b1) == 65 && b1[0] == 4 {
			for _, mm := range ref.Modes {
				if int64(mm) == ty.Int64() {
					md, c1, c3, c2, ok = mm, b1[1:], x3, x2, true
				}
			}
		}
	} else if len(m) > 96 {
		c1, c3, c2, ok = m[:64], m[64:96], m[96:], true
	}
	if ok && ref.OnCurveG1(c1) {
		if want, wok, _ := ref.Open(md, c1, c3, c2, modelW(c1, rd.euk.Bytes()[1:]), rd.uid); wok && bytes.Equal(want, got) {
			c.Event("mutants_accepted_also_valid_by_reference/"+name+"/"+kind, 1)
			return "valid-by-reference"
		}
	}
	c.Fail("accept", "%s: altered ciphertext (%s) decrypts without error to ANOTHER plaintext %x (honest plaintext %x; altered %x)", name, kind, got, msg, m)
	return "violation"
}

// wrongContext presents honest artefacts with a wrong identity, hid, message or key.
func wrongContext(c *mon.Case, rd *roundData) {
	r := c.R
	sig := rd.data["sig/der"]
	var uids [][]byte
	for i := 0; i < 6; i++ {
		uids = append(uids, flipped(rd.uid, r))
	}
	uids = append(uids, append(append([]byte{}, rd.uid...), 0), append([]byte{0}, rd.uid...))
	if len(rd.uid) > 0 {
		uids = append(uids, rd.uid[:len(rd.uid)-1], rd.uid[1:], nil)
	}
	try := func(what string, uid []byte, hid byte, msg []byte) {
		var ok bool
		c.Event("wrong_context_candidates", 1)
		if c.Call("VerifyASN1("+what+")", func() { ok = sm9.VerifyASN1(rd.spub, uid, hid, msg, sig) }) && ok {
			c.Fail("accept", "VerifyASN1 accepts the signature under %s: uid %x hid %#x msg %x (signed: uid %x hid %#x msg %x)", what, uid, hid, msg, rd.uid, rd.hid, rd.msg)
		}
	}
	for _, u := range uids {
		try("another uid", u, rd.hid, rd.msg)
	}
	for _, h := range []byte{0, 1, 2, 3, 4, 0x7f, 0xfe, 0xff} {
		if h != rd.hid {
			try("another hid", rd.uid, h, rd.msg)
		}
	}
	for i := 0; i < 6; i++ {
		try("another message", rd.uid, rd.hid, flipped(rd.msg, r))
	}
	try("a shortened message", rd.uid, rd.hid, rd.msg[:len(rd.msg)-1])
	try("an extended message", rd.uid, rd.hid, append(append([]byte{}, rd.msg...), 0))
	try("the empty message", rd.uid, rd.hid, nil)
	// a signature by the same identity under another master key
	if smk2, err := sm9.GenerateSignMasterKey(mon.NewRand(r.Uint64(), "smk2")); err == nil {
		var ok bool
		c.Event("wrong_context_candidates", 1)
		if c.Call("VerifyASN1(another master key)", func() { ok = sm9.VerifyASN1(smk2.PublicKey(), rd.uid, rd.hid, rd.msg, sig) }) && ok {
			c.Fail("accept", "VerifyASN1 accepts the signature under another master public key")
		}
	}
	// ciphertexts: wrong uid string, key of another uid, key of another hid
	eukHid, err1 := rd.emk.GenerateUserKey(rd.uid, otherHid(rd.hid))
	if err1 != nil {
		c.Fail("reject", "GenerateUserKey: %v", err1)
		return
	}
	for _, m := range ref.Modes {
		for _, enc := range []string{"raw", "asn1"} {
			name := "ct/" + m.String() + "/" + enc
			ct := rd.data[name]
			dec := func(k *sm9.EncryptPrivateKey, uid []byte) ([]byte, error) {
				if enc == "asn1" {
					return sm9.DecryptASN1(k, uid, ct)
				}
				return sm9.Decrypt(k, uid, ct, optsOf(m))
			}
			tryd := func(what string, k *sm9.EncryptPrivateKey, uid []byte) {
				var got []byte
				var err error
				c.Event("wrong_context_candidates", 1)
				if c.Call("decrypt "+name+" with "+what, func() { got, err = dec(k, uid) }) && err == nil {
					c.Fail("accept", "%s decrypts with %s -> %x", name, what, got)
				}
			}
			tryd("another uid string", rd.euk, uids[r.Intn(len(uids))])
			tryd("the key of another user", rd.eukB, rd.uid)
			tryd("the key of another user and that user's uid", rd.eukB, rd.uidB)
			tryd("the same user's key for another hid", eukHid, rd.uid)
		}
	}
	// wrapped key: another user's key yields another key (cannot be refused)
	var got []byte
	var err error
	if c.Call("UnwrapKey(another user's key)", func() { got, err = sm9.UnwrapKey(rd.eukB, rd.uid, rd.data["wrap/raw"], rd.klen) }) && err == nil && bytes.Equal(got, rd.wkey) {
		c.Fail("accept", "another user's key unwraps the same key")
	}
}
