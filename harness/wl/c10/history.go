package c10

import (
	"bytes"
	"fmt"
	"math/big"

	"github.com/emmansun/gmsm/padding"
	"github.com/emmansun/gmsm/sm4"
	"github.com/emmansun/gmsm/sm9"
	hk "github.com/emmansun/gmsm/verifhook"

	"verifh/mon"
	ref "verifh/ref/sm9"
)

// Reuse histories. The doc comments of the sm9 key exchange describe one flow per
// role (NewKeyExchange -> Init -> ConfirmResponder / NewKeyExchange -> Respond ->
// ConfirmInitiator) and Destroy as "clears all internal state"; they neither promise
// nor forbid further calls on the same object. Every step recomputes its state from
// its arguments, so the histories below only use what the API admits: a step
// repeated after it returned an error, a further run started with Init / Respond on
// an object that finished (or abandoned) a run, with and without Destroy in between.
// Every run on a reused object must behave exactly as on a fresh one: same verdicts,
// and key / SB / SA equal to the reference for THAT run's messages.

// kexEnv is one pair of users under one master key.
type kexEnv struct {
	c          *mon.Case
	ppub       []byte // x||y of the encryption master public key
	hid        byte
	uidA, uidB []byte
	ukA, ukB   *sm9.EncryptPrivateKey
	klen       int
	confirm    bool
}

// kexSide is a key-exchange object together with the scripted source it draws from;
// the stream is kept so that the ephemeral scalar can be recovered for the model.
type kexSide struct {
	ke         sm9.KeyExchange
	uid, peer  []byte
	uk, ukPeer *sm9.EncryptPrivateKey
	stream     []byte
	rnd        *mon.Script
}

func (e *kexEnv) side(label string, initiatorIsA bool) *kexSide {
	s := &kexSide{uid: e.uidA, peer: e.uidB, uk: e.ukA, ukPeer: e.ukB}
	if !initiatorIsA {
		s = &kexSide{uid: e.uidB, peer: e.uidA, uk: e.ukB, ukPeer: e.ukA}
	}
	s.stream = e.c.R.Bytes(32 * 64)
	s.rnd = script(e.c, label, s.stream)
	s.ke = s.uk.NewKeyExchange(s.uid, s.peer, e.klen, e.confirm)
	return s
}

// lastScalar recovers the scalar r of the side's most recent Init from its read log,
// validated by R = [r]Qpeer (reference H1, library G1).
func (e *kexEnv) lastScalar(s *kexSide, r65 []byte) *big.Int {
	q := encUserPublic(e.ppub, s.peer, e.hid)
	if q == nil {
		return nil
	}
	for i := len(s.rnd.Log) - 1; i >= 0; i-- {
		ev := s.rnd.Log[i]
		if ev.Probe || ev.Want != 32 || ev.N != 32 || ev.Off < 0 || ev.Off+32 > len(s.stream) {
			continue
		}
		v := new(big.Int).SetBytes(s.stream[ev.Off : ev.Off+32])
		if v.Sign() == 0 || v.Cmp(ref.N) >= 0 {
			continue
		}
		if p, err := new(hk.G1).ScalarMult(q, ref.Bytes32(v)); err == nil && bytes.Equal(p.Marshal(), r65[1:]) {
			return v
		}
	}
	return nil
}

// expect recomputes SK, SB, SA of the run (init -> resp) with messages ra, rb.
func (e *kexEnv) expect(init, resp *kexSide, ra, rb []byte) (ref.KexResult, bool) {
	if len(ra) != 65 || len(rb) != 65 || ra[0] != 4 || rb[0] != 4 || !ref.OnCurveG1(ra[1:]) || !ref.OnCurveG1(rb[1:]) {
		e.c.Fail("mismatch", "RA=%x RB=%x must be 04||point of G1", ra, rb)
		return ref.KexResult{}, false
	}
	g1 := modelW(ra[1:], resp.uk.Bytes()[1:])
	g2 := hk2GT(rb[1:], init.uk.Bytes()[1:])
	r := e.lastScalar(init, ra)
	if r == nil || g2 == nil || g1 == nil {
		e.c.Event("kex_model_skipped_r_not_recovered", 1)
		return ref.KexResult{}, false
	}
	return ref.Kex(init.uid, init.peer, ra[1:], rb[1:], g1, g2.Marshal(), newGTExp(g2, r), e.klen), true
}

// clone copies a message; nil stays nil (a nil confirmation means "none sent").
func clone(b []byte) []byte {
	if b == nil {
		return nil
	}
	return append([]byte{}, b...)
}

type kexMsgs struct{ ra, rb, sb, sa, key []byte }

// run performs one honest exchange init -> resp on the given (possibly used) objects
// and checks every output against the reference. tag names the run in messages and digests.
func (e *kexEnv) run(tag string, init, resp *kexSide) (m kexMsgs, ok bool) {
	c := e.c
	var err error
	var ra, rb, sb, sa, ska, skb []byte
	if !c.Call(tag+": InitKeyExchange", func() { ra, err = init.ke.InitKeyExchange(init.rnd, e.hid) }) {
		return m, false
	}
	if err != nil {
		c.Fail("reject", "%s: InitKeyExchange: %v", tag, err)
		return m, false
	}
	ra = clone(ra)
	if !c.Call(tag+": RespondKeyExchange", func() { rb, sb, err = resp.ke.RespondKeyExchange(resp.rnd, e.hid, ra) }) {
		return m, false
	}
	if err != nil {
		c.Fail("reject", "%s: RespondKeyExchange refuses an honest RA: %v", tag, err)
		return m, false
	}
	rb, sb = clone(rb), clone(sb)
	m = kexMsgs{ra: ra, rb: rb, sb: sb}
	want, haveWant := e.expect(init, resp, ra, rb)
	if haveWant && e.confirm {
		c.Eq(tag+": SB vs reference for this run's g1,g2,g3,RA,RB", sb, want.SB)
	}
	if !c.Call(tag+": ConfirmResponder", func() { ska, sa, err = init.ke.ConfirmResponder(rb, sb) }) {
		return m, false
	}
	if err != nil {
		c.Fail("reject", "%s: ConfirmResponder refuses the honest response: %v", tag, err)
		return m, false
	}
	sa = clone(sa)
	m.sa, m.key = sa, ska
	if !c.Call(tag+": ConfirmInitiator", func() { skb, err = resp.ke.ConfirmInitiator(sa) }) {
		return m, false
	}
	if err != nil {
		c.Fail("reject", "%s: ConfirmInitiator refuses the honest confirmation: %v", tag, err)
		return m, false
	}
	c.Eq(tag+": SKB vs SKA", skb, ska)
	if len(ska) != e.klen {
		c.Fail("mismatch", "%s: shared key has %d bytes, want %d", tag, len(ska), e.klen)
	}
	if haveWant {
		c.Eq(tag+": shared key vs reference", ska, want.SK)
		if e.confirm {
			c.Eq(tag+": SA vs reference", sa, want.SA)
		}
		c.Event("model_kex_checks", 1)
	}
	digest(c, "kex/"+tag, ra, rb, sb, sa, ska)
	c.Event("key_exchanges", 1)
	c.Event("key_exchanges_on_reused_objects", 1)
	return m, true
}

var kexHistories = []string{"initiator-retry", "responder-two-runs", "both-reuse", "after-errors", "responder-retry", "role-swap"}

func kexReuseCase(c *mon.Case, idx int, la, lb int, hid byte) {
	hist := kexHistories[idx%len(kexHistories)]
	destroy := (idx/len(kexHistories))%2 == 1
	confirm := (idx/(2*len(kexHistories)))%3 != 2
	e := &kexEnv{c: c, hid: hid, confirm: confirm, klen: pickKLen(c.R, idx%3)}
	e.uidA, e.uidB = c.R.Bytes(la), c.R.Bytes(lb)
	c.Class("kexreuse/%s/destroy=%v/confirm=%v", hist, destroy, confirm)
	emk, ke := genEncMaster(c, "random", false)
	if emk == nil {
		return
	}
	e.ppub = emk.PublicKey().Bytes()[1:]
	e.ukA, e.ukB = genEncUser(c, emk, ke, e.uidA, hid), genEncUser(c, emk, ke, e.uidB, hid)
	if e.ukA == nil || e.ukB == nil {
		return
	}
	between := func(ss ...*kexSide) {
		if destroy {
			for _, s := range ss {
				c.Call("Destroy", func() { s.ke.Destroy() })
			}
		}
	}
	refuse := func(what string, err error) {
		if err == nil {
			c.Fail("accept", "%s: %s was accepted", hist, what)
		} else {
			c.Event("history_refusals", 1)
		}
	}
	var err error
	switch hist {
	case "initiator-retry":
		// A receives the (well-formed) response of ANOTHER session first, then the genuine one
		a, b := e.side("A", true), e.side("B", false)
		a2, b2 := e.side("A'", true), e.side("B'", false)
		var ra, ra2, rb, sb, rb2, sb2, ska, sa, skb []byte
		ok := c.Call("Init", func() { ra, err = a.ke.InitKeyExchange(a.rnd, hid) }) && err == nil
		ok = ok && c.Call("Init'", func() { ra2, err = a2.ke.InitKeyExchange(a2.rnd, hid) }) && err == nil
		ra, ra2 = clone(ra), clone(ra2)
		ok = ok && c.Call("Respond", func() { rb, sb, err = b.ke.RespondKeyExchange(b.rnd, hid, ra) }) && err == nil
		ok = ok && c.Call("Respond'", func() { rb2, sb2, err = b2.ke.RespondKeyExchange(b2.rnd, hid, ra2) }) && err == nil
		if !ok {
			c.Fail("reject", "%s: honest step failed: %v", hist, err)
			return
		}
		rb, rb2 = clone(rb), clone(rb2)
		if confirm {
			if c.Call("ConfirmResponder(foreign response)", func() { _, _, err = a.ke.ConfirmResponder(rb2, sb2) }) {
				refuse("the response (RB', SB') of another session", err)
			}
			if c.Call("ConfirmResponder(genuine RB, foreign SB)", func() { _, _, err = a.ke.ConfirmResponder(rb, sb2) }) {
				refuse("the genuine RB with the SB of another session", err)
			}
		} else {
			// without confirmation any valid point is a possible RB: it yields some other key
			c.Call("ConfirmResponder(foreign RB)", func() { _, _, err = a.ke.ConfirmResponder(rb2, nil) })
		}
		between(a)
		if destroy {
			// Destroy wiped rA: the run has to start again
			e.run(hist+"/after-destroy", a, b)
			return
		}
		if !c.Call("ConfirmResponder(genuine)", func() { ska, sa, err = a.ke.ConfirmResponder(rb, sb) }) {
			return
		}
		if err != nil {
			c.Fail("reject", "%s: the genuine response is refused after an earlier refused one: %v", hist, err)
			return
		}
		if c.Call("ConfirmInitiator", func() { skb, err = b.ke.ConfirmInitiator(sa) }) {
			if err != nil {
				c.Fail("reject", "%s: ConfirmInitiator refuses SA: %v", hist, err)
				return
			}
			c.Eq(hist+": SKB vs SKA", skb, ska)
		}
		if want, ok := e.expect(a, b, ra, rb); ok {
			c.Eq(hist+": shared key vs reference", ska, want.SK)
			if confirm {
				c.Eq(hist+": SA vs reference", sa, want.SA)
				c.Eq(hist+": SB vs reference", sb, want.SB)
			}
			c.Event("model_kex_checks", 1)
		}
		digest(c, "kex/"+hist, ra, rb, sb, sa, ska)
		c.Event("key_exchanges_on_reused_objects", 1)
	case "responder-two-runs":
		b := e.side("B", false)
		for run := 1; run <= 3; run++ {
			a := e.side(fmt.Sprintf("A%d", run), true)
			if _, ok := e.run(fmt.Sprintf("%s/run%d", hist, run), a, b); !ok {
				return
			}
			between(b)
		}
	case "both-reuse":
		a, b := e.side("A", true), e.side("B", false)
		for run := 1; run <= 3; run++ {
			if _, ok := e.run(fmt.Sprintf("%s/run%d", hist, run), a, b); !ok {
				return
			}
			between(a, b)
		}
	case "role-swap":
		a, b := e.side("A", true), e.side("B", false)
		if _, ok := e.run(hist+"/run1 A->B", a, b); !ok {
			return
		}
		between(a, b)
		if _, ok := e.run(hist+"/run2 B->A", b, a); !ok {
			return
		}
		between(a, b)
		e.run(hist+"/run3 A->B", a, b)
	case "after-errors":
		a, b := e.side("A", true), e.side("B", false)
		bad := append([]byte{4}, c.R.Bytes(64)...) // not on the curve
		for ref.OnCurveG1(bad[1:]) {
			bad = append([]byte{4}, c.R.Bytes(64)...)
		}
		if c.Call("Respond(off-curve RA)", func() { _, _, err = b.ke.RespondKeyExchange(b.rnd, hid, bad) }) {
			refuse("an off-curve RA", err)
		}
		if c.Call("Respond(short RA)", func() { _, _, err = b.ke.RespondKeyExchange(b.rnd, hid, bad[:33]) }) {
			refuse("a short RA", err)
		}
		var ra, rb, sb, sa []byte
		if !c.Call("Init", func() { ra, err = a.ke.InitKeyExchange(a.rnd, hid) }) || err != nil {
			return
		}
		ra = clone(ra)
		if c.Call("ConfirmResponder(off-curve RB)", func() { _, _, err = a.ke.ConfirmResponder(bad, c.R.Bytes(32)) }) {
			refuse("an off-curve RB", err)
		}
		if !c.Call("Respond", func() { rb, sb, err = b.ke.RespondKeyExchange(b.rnd, hid, ra) }) || err != nil {
			c.Fail("reject", "%s: RespondKeyExchange after refused attempts: %v", hist, err)
			return
		}
		rb, sb = clone(rb), clone(sb)
		if confirm {
			if c.Call("ConfirmResponder(altered SB)", func() { _, _, err = a.ke.ConfirmResponder(rb, flipped(sb, c.R)) }) {
				refuse("an altered SB", err)
			}
		}
		var ska, skb []byte
		if !c.Call("ConfirmResponder(genuine)", func() { ska, sa, err = a.ke.ConfirmResponder(rb, sb) }) || err != nil {
			c.Fail("reject", "%s: the genuine response is refused after refused attempts: %v", hist, err)
			return
		}
		sa = clone(sa)
		if confirm {
			if c.Call("ConfirmInitiator(altered SA)", func() { _, err = b.ke.ConfirmInitiator(flipped(sa, c.R)) }) {
				refuse("an altered SA", err)
			}
		}
		if !c.Call("ConfirmInitiator(genuine)", func() { skb, err = b.ke.ConfirmInitiator(sa) }) || err != nil {
			c.Fail("reject", "%s: the genuine SA is refused after a refused one: %v", hist, err)
			return
		}
		c.Eq(hist+": SKB vs SKA", skb, ska)
		if want, ok := e.expect(a, b, ra, rb); ok {
			c.Eq(hist+": shared key vs reference", ska, want.SK)
			if confirm {
				c.Eq(hist+": SB vs reference", sb, want.SB)
				c.Eq(hist+": SA vs reference", sa, want.SA)
			}
			c.Event("model_kex_checks", 1)
		}
		digest(c, "kex/"+hist, ra, rb, sb, sa, ska)
		c.Event("key_exchanges_on_reused_objects", 1)
		between(a, b)
		e.run(hist+"/next-run", a, b)
	case "responder-retry":
		// B answers two different initiators in turn (the first one never completes), then
		// receives a confirmation that belongs to the abandoned run, then the genuine one
		b := e.side("B", false)
		a1, a2 := e.side("A1", true), e.side("A2", true)
		var ra1, ra2, rb1, sb1, rb2, sb2, sa1, sa2, k1, k2, kb []byte
		ok := c.Call("Init1", func() { ra1, err = a1.ke.InitKeyExchange(a1.rnd, hid) }) && err == nil
		ra1 = clone(ra1)
		ok = ok && c.Call("Init2", func() { ra2, err = a2.ke.InitKeyExchange(a2.rnd, hid) }) && err == nil
		ra2 = clone(ra2)
		ok = ok && c.Call("Respond1", func() { rb1, sb1, err = b.ke.RespondKeyExchange(b.rnd, hid, ra1) }) && err == nil
		rb1, sb1 = clone(rb1), clone(sb1)
		ok = ok && c.Call("Confirm1", func() { k1, sa1, err = a1.ke.ConfirmResponder(rb1, sb1) }) && err == nil
		sa1 = clone(sa1)
		between(b)
		ok = ok && c.Call("Respond2", func() { rb2, sb2, err = b.ke.RespondKeyExchange(b.rnd, hid, ra2) }) && err == nil
		rb2, sb2 = clone(rb2), clone(sb2)
		ok = ok && c.Call("Confirm2", func() { k2, sa2, err = a2.ke.ConfirmResponder(rb2, sb2) }) && err == nil
		if !ok {
			c.Fail("reject", "%s: honest step failed (a responder serving a second initiator): %v", hist, err)
			return
		}
		if confirm {
			if c.Call("ConfirmInitiator(SA of the abandoned run)", func() { _, err = b.ke.ConfirmInitiator(sa1) }) {
				refuse("the confirmation SA of the abandoned run", err)
			}
		}
		if !c.Call("ConfirmInitiator(genuine)", func() { kb, err = b.ke.ConfirmInitiator(sa2) }) || err != nil {
			c.Fail("reject", "%s: ConfirmInitiator refuses the genuine SA of the second run: %v", hist, err)
			return
		}
		c.Eq(hist+": SKB vs SKA of run 2", kb, k2)
		if bytes.Equal(k1, k2) {
			c.Fail("mismatch", "%s: two runs with different ephemeral keys gave the same shared key", hist)
		}
		if want, ok := e.expect(a2, b, ra2, rb2); ok {
			c.Eq(hist+": shared key vs reference", k2, want.SK)
			if confirm {
				c.Eq(hist+": SB of run 2 vs reference", sb2, want.SB)
				c.Eq(hist+": SA of run 2 vs reference", sa2, want.SA)
			}
			c.Event("model_kex_checks", 1)
		}
		if want, ok := e.expect(a1, b, ra1, rb1); ok && confirm {
			c.Eq(hist+": SB of run 1 vs reference", sb1, want.SB)
			c.Eq(hist+": SA of run 1 vs reference", sa1, want.SA)
		}
		digest(c, "kex/"+hist, ra1, rb1, sb1, sa1, k1, ra2, rb2, sb2, sa2, k2)
		c.Event("key_exchanges_on_reused_objects", 2)
	}
}

// objReuseCase uses ONE master public key object, ONE set of encrypter option
// objects (the package-level ones and privately constructed ones), ONE
// DecrypterOptsWithUID per user and ONE verifier key for a sequence of operations
// with changing identities, hids, modes, lengths: every result must be what a fresh
// object gives, i.e. pass the reference model for its own parameters.
func objReuseCase(c *mon.Case, idx int, hid byte) {
	c.Class("objreuse/hid=%#x/%d", hid, idx%4)
	type user struct {
		uid []byte
		hid byte
		euk *sm9.EncryptPrivateKey
		suk *sm9.SignPrivateKey
		dec *sm9.DecrypterOptsWithUID
	}
	emk, ke := genEncMaster(c, "random", false)
	smk, _ := genSignMaster(c, "random")
	if emk == nil || smk == nil {
		return
	}
	epub, spub := emk.PublicKey(), smk.PublicKey()
	uid1, uid2 := c.R.Bytes(c.R.Range(1, 80)), c.R.Bytes(c.R.Range(1, 80))
	if bytes.Equal(uid1, uid2) {
		uid2 = append(uid2, 1)
	}
	users := []*user{{uid: uid1, hid: hid}, {uid: uid2, hid: hid}, {uid: uid1, hid: otherHid(hid)}}
	var err error
	for _, u := range users {
		u.euk = genEncUser(c, emk, ke, u.uid, u.hid)
		if u.euk == nil {
			return
		}
		if u.suk, err = smk.GenerateUserKey(u.uid, u.hid); err != nil {
			return
		}
	}
	// privately constructed option objects, reused for every call below
	pk := padding.NewPKCS7Padding(16)
	own := map[ref.Mode]sm9.EncrypterOpts{
		ref.XOR: new(sm9.XOREncrypterOpts),
		ref.ECB: sm9.NewECBEncrypterOpts(pk, sm4.NewCipher, 16),
		ref.CBC: sm9.NewCBCEncrypterOpts(pk, sm4.NewCipher, 16),
		ref.CFB: sm9.NewCFBEncrypterOpts(sm4.NewCipher, 16),
		ref.OFB: sm9.NewOFBEncrypterOpts(sm4.NewCipher, 16),
	}
	rnd := script(c, "objreuse", nil)
	steps := 10
	type sent struct {
		u    *user
		m    ref.Mode
		asn1 bool
		ct   []byte
		msg  []byte
		o    sm9.EncrypterOpts
	}
	var all []sent
	for s := 0; s < steps; s++ {
		u := users[(s+idx)%3]
		m := ref.Modes[(s*2+idx)%5]
		o := own[m]
		if s%3 == 2 {
			o = optsOf(m) // the shared package-level object
		}
		asn1 := (s+idx)%2 == 0
		msg := c.R.Bytes(pickMsgLen(c.R, m, s%3))
		var ct []byte
		call := func() {
			if asn1 {
				ct, err = sm9.EncryptASN1(rnd, epub, u.uid, u.hid, append([]byte{}, msg...), o)
			} else {
				ct, err = sm9.Encrypt(rnd, epub, u.uid, u.hid, append([]byte{}, msg...), o)
			}
		}
		if !c.Call(fmt.Sprintf("step %d encrypt %v", s, m), call) {
			continue
		}
		if err != nil {
			c.Fail("reject", "objreuse step %d: encrypt %v: %v", s, m, err)
			continue
		}
		digest(c, fmt.Sprintf("objreuse/enc%d/%v", s, m), ct)
		checkCipher(c, m, asn1, ct, u.euk.Bytes()[1:], u.uid, msg)
		all = append(all, sent{u, m, asn1, ct, msg, o})
		c.Event("reused_object_operations", 1)
	}
	// decrypt in another order, each user through ONE DecrypterOptsWithUID whose
	// EncrypterOpts field is switched between calls, and through the plain functions
	for k := range all {
		s := all[(k*7+idx)%len(all)]
		if s.u.dec == nil {
			if s.u.dec, err = sm9.NewDecrypterOptsWithUID(s.o, s.u.uid); err != nil {
				c.Fail("reject", "NewDecrypterOptsWithUID: %v", err)
				return
			}
		}
		s.u.dec.EncrypterOpts = s.o
		var got []byte
		if s.asn1 || !ref.IsOneSequence(s.ct) { // (input that is exactly one DER SEQUENCE is specified to be read as ASN.1)
			if c.Call("priv.Decrypt(reused DecrypterOptsWithUID)", func() { got, err = s.u.euk.Decrypt(nil, s.ct, s.u.dec) }) {
				if err != nil {
					c.Fail("reject", "objreuse: priv.Decrypt with a reused DecrypterOptsWithUID refuses an honest %v ciphertext: %v", s.m, err)
				} else {
					c.Eq("priv.Decrypt(reused options)", got, s.msg)
				}
			}
		}
		dec := func() {
			if s.asn1 {
				got, err = sm9.DecryptASN1(s.u.euk, s.u.uid, s.ct)
			} else {
				got, err = sm9.Decrypt(s.u.euk, s.u.uid, s.ct, own[s.m])
			}
		}
		if c.Call("decrypt", dec) {
			if err != nil {
				c.Fail("reject", "objreuse: decrypt refuses an honest %v ciphertext: %v", s.m, err)
			} else {
				c.Eq("decrypt (reused option objects)", got, s.msg)
			}
		}
		// another user's key must not open it
		o := users[(k+1)%3]
		if o != s.u {
			if c.Call("decrypt(other user)", func() {
				if s.asn1 {
					_, err = sm9.DecryptASN1(o.euk, s.u.uid, s.ct)
				} else {
					_, err = sm9.Decrypt(o.euk, s.u.uid, s.ct, own[s.m])
				}
			}) && err == nil {
				c.Fail("accept", "objreuse: a ciphertext for (uid %x, hid %#x) opens with the key of (uid %x, hid %#x)", s.u.uid, s.u.hid, o.uid, o.hid)
			}
		}
		c.Event("reused_object_operations", 1)
	}
	// wraps to the three identities in turn on the same master public key object
	for s := 0; s < 6; s++ {
		u := users[(s+idx)%3]
		klen := pickKLen(c.R, s%3)
		var key, cip, got []byte
		if !c.Call("WrapKey", func() { key, cip, err = sm9.WrapKey(rnd, epub, u.uid, u.hid, klen) }) || err != nil {
			continue
		}
		digest(c, fmt.Sprintf("objreuse/wrap%d", s), key, cip)
		if len(cip) != 65 || !ref.OnCurveG1(cip[1:]) {
			c.Fail("mismatch", "objreuse: wrap cipher %x", cip)
			continue
		}
		c.Eq("objreuse: wrapped key vs reference KDF", key, ref.KDF(ref.Cat(cip[1:], modelW(cip[1:], u.euk.Bytes()[1:]), u.uid), klen))
		if c.Call("UnwrapKey", func() { got, err = sm9.UnwrapKey(u.euk, u.uid, cip, klen) }) {
			if err != nil {
				c.Fail("reject", "objreuse: UnwrapKey: %v", err)
			} else {
				c.Eq("objreuse: UnwrapKey", got, key)
			}
		}
		c.Event("reused_object_operations", 1)
	}
	// signatures of the three identities verified in turn with one verifier key
	type signed struct {
		u   *user
		msg []byte
		sig []byte
	}
	var sigs []signed
	for s := 0; s < 4; s++ {
		u := users[(s+idx)%3]
		msg := c.R.Bytes(c.R.Range(1, 120))
		var sig []byte
		if !c.Call("SignASN1", func() { sig, err = sm9.SignASN1(rnd, u.suk, msg) }) || err != nil {
			continue
		}
		digest(c, fmt.Sprintf("objreuse/sig%d", s), sig)
		sigs = append(sigs, signed{u, msg, sig})
	}
	for k, s := range sigs {
		var ok bool
		if c.Call("VerifyASN1", func() { ok = sm9.VerifyASN1(spub, s.u.uid, s.u.hid, s.msg, s.sig) }) && !ok {
			c.Fail("reject", "objreuse: VerifyASN1 refuses an honest signature of (uid %x, hid %#x)", s.u.uid, s.u.hid)
		}
		o := users[(k+1+idx)%3]
		if o != s.u {
			if c.Call("VerifyASN1(other identity)", func() { ok = sm9.VerifyASN1(spub, o.uid, o.hid, s.msg, s.sig) }) && ok {
				c.Fail("accept", "objreuse: signature of (uid %x, hid %#x) verifies for (uid %x, hid %#x)", s.u.uid, s.u.hid, o.uid, o.hid)
			}
		}
		c.Event("reused_object_operations", 1)
	}
	if len(sigs) > 0 {
		h, sp, perr := ref.ParseSignature(sigs[0].sig)
		if perr == nil && len(sp) == 65 && !modelVerify(spub.Bytes()[1:], sigs[0].u.uid, sigs[0].u.hid, sigs[0].msg, h, sp[1:]) {
			c.Fail("mismatch", "objreuse: reference verification refuses the signature")
		}
	}
}
