package c10

import (
	"bytes"
	"fmt"
	"math/big"
	"strconv"

	"github.com/emmansun/gmsm/sm9"
	hk "github.com/emmansun/gmsm/verifhook"

	"verifh/mon"
	ref "verifh/ref/sm9"
	"verifh/wl/reg"
)

// c10.sniff: valid artefacts whose leading octets look like ANOTHER encoding.
//
// Several entry points of the package tell two encodings of one artefact apart by looking at
// its octets: EncryptPrivateKey.Decrypt with *DecrypterOptsWithUID reads a DER SEQUENCE header
// to decide between the ASN.1 and the raw C1||C3||C2 ciphertext, UnwrapKey accepts C as 64
// octets or as 04||C, the key parsers switch on the first octet of a point (04 / 02 / 03) and
// of a DER value (30 = wrapped in a SEQUENCE). A raw ciphertext starts with the x coordinate of
// C1 = [r]QB, so about one honest ciphertext in 256 starts with 0x30, one in 500 with a
// well-formed SEQUENCE header that does not run past its end, one in 85 with an octet that is a
// point-format marker. Sampled sessions practically never show such a value to the entry point
// that sniffs, so the values are CONSTRUCTED: the ephemeral scalar r is scripted into the random
// stream, and r is chosen so that the first octets of C1 take every prescribed shape:
//
//	30 + short-form length (inside / exactly / beyond the rest of the ciphertext, by the choice of
//	the message length), 30 00, 30 80 (indefinite), 30 81 nn (nn < 80: not minimal; nn >= 80 inside /
//	exact / beyond), 30 82 00 nn (not minimal), 30 82 01 nn (inside / exact / beyond), 30 82 nn nn
//	beyond, 30 83, 30 84, 30 + more than four length octets, 04 / 04 04 / 02 / 03 (point-format
//	markers), 00 / 00 00 / 00 00 00 (leading zero octets), b6 (the first octet of the field prime).
//
// Shapes of probability >= 1/2048 are searched for in the child, once per (master key, uid, hid)
// set-up: r = r0, r0+1, ... with the library's own G1 addition through the hook (a few thousand
// additions); the set-up derives from the run seed, not from the case, and is cached, so every
// case of the child shares it and a single replayed case rebuilds it. Shapes of probability
// 2^-16 .. 2^-24 come from a table of small scalars found once, offline, by the same walk for
// two fixed identities (the standard's example keys); nothing is believed from it: every entry
// is recomputed with the reference G1 at set-up, a wrong entry is a harness error.
//
// Every such r is run through wrap (three entry points) and unwrap (04||C, the 64-octet C that
// starts with the shaped octets, SM9PublicKey1, SM9KeyPackage), through encryption in the five
// modes and both encodings and EVERY decryption entry point on the result, and as the ephemeral
// scalar of both key-exchange messages (RA, RB = [r]Q). Verdicts as in the transcript: the
// reference model (KDF, MAC, modes, DER; pairing through the hook) opens the library's output
// to the original, and every entry point that is given the encoding it is documented to read
// returns the original plaintext / key; an entry point given the OTHER encoding (decided by the
// reference parser: the octets are not an SM9Cipher / not a point) may refuse or - the property
// does not forbid a lenient reader - return the right plaintext / key, both counted, but never
// anything else. The one documented ambiguity - priv.Decrypt(*DecrypterOptsWithUID) is specified
// to treat input that is exactly one DER SEQUENCE as ASN.1, and a raw ciphertext can (constructed
// here: header length = rest of the ciphertext) be one - is counted, not judged.
//
// The same for the key parsers: user and master public keys whose x coordinate starts with
// 04 / 02 / 03 / 30 / 00 (searched: the scalar of a G1 resp. G2 multiple of the generator; for
// user keys the master scalar is solved from t2 = ks/(H1+ks)), in every encoding the package
// reads (raw uncompressed / compressed, BIT STRING, SEQUENCE with and without the master public
// key, PEM): parse back to an equal, working key.
func init() { reg.Register("c10.sniff", "C10", sniff) }

// shapes searched in the child, and shapes taken from the table
var (
	sniffSearched = []string{"30+short", "30+short>=60", "30+long>4", "04", "02", "03", "00", "b6"}
	sniffTabled   = []string{"30-00", "30-80", "30-81-lt80", "30-81-ge80", "30-82-00", "30-82-01", "30-82-ge02", "30-83", "30-84", "00-00", "00-00-00", "04-04"}
	keyShapes     = []string{"04", "02", "03", "30", "00"}
	keyTypes      = []string{"SignPrivateKey", "EncryptMasterPublicKey", "SignMasterPublicKey", "EncryptPrivateKey"}
)

// sniffShapes names every shape the octet string b (at least 3 octets) starts with.
func sniffShapes(b []byte) (out []string) {
	switch b[0] {
	case 0x30:
		switch l := b[1]; {
		case l == 0:
			out = append(out, "30-00")
		case l < 0x80:
			out = append(out, "30+short")
			if l >= 0x60 {
				out = append(out, "30+short>=60")
			}
		case l == 0x80:
			out = append(out, "30-80")
		case l == 0x81 && b[2] < 0x80:
			out = append(out, "30-81-lt80")
		case l == 0x81:
			out = append(out, "30-81-ge80")
		case l == 0x82 && b[2] == 0:
			out = append(out, "30-82-00")
		case l == 0x82 && b[2] == 1:
			out = append(out, "30-82-01")
		case l == 0x82:
			out = append(out, "30-82-ge02")
		case l == 0x83:
			out = append(out, "30-83")
		case l == 0x84:
			out = append(out, "30-84")
		default:
			out = append(out, "30+long>4")
		}
	case 4:
		out = append(out, "04")
		if b[1] == 4 {
			out = append(out, "04-04")
		}
	case 2:
		out = append(out, "02")
	case 3:
		out = append(out, "03")
	case 0xb6:
		out = append(out, "b6") // the first octet of the field prime: the largest a coordinate starts with
	case 0:
		out = append(out, "00")
		if b[1] == 0 {
			out = append(out, "00-00")
			if b[2] == 0 {
				out = append(out, "00-00-00")
			}
		}
	}
	return out
}

func hasShape(b []byte, shape string) bool {
	for _, s := range sniffShapes(b) {
		if s == shape {
			return true
		}
	}
	return false
}

// sniffTable: small ephemeral scalars r for which [r]QB starts with a rare shape, for the two
// identities of GM/T 0044.5 annexes C/D (master key ke, "Bob", hid 3) and B (ke, "Alice", hid 2).
// Found offline by the walk r = 1, 2, 3, ... < 2^26 (throw-away program); validated at set-up.
type sniffFixed struct {
	ke   string
	uid  string
	hid  byte
	rows map[string][]int64
}

var sniffTable = []sniffFixed{
	{"0001EDEE3778F441F8DEA3D9FA0ACC4E07EE36C93F9A08618AF4AD85CEDE1C22", "Bob", 3, map[string][]int64{
		"30-00":      {18393, 49904, 186321, 219547},
		"30-80":      {21753, 118365, 118431, 131333},
		"30-81-lt80": {11047, 522620, 524950, 780982},
		"30-81-ge80": {36417, 40601, 56570, 161763},
		"30-82-00":   {33579418, 34719371, 54819220},
		"30-82-01":   {10641683, 17341530, 41330939, 43490121},
		"30-82-ge02": {3905, 33682, 38782, 39526},
		"30-83":      {18958, 46987, 53447, 110136},
		"30-84":      {24661, 212067, 234936, 333784},
		"00-00":      {1832, 70815, 153528, 248874},
		"00-00-00":   {681868, 24748350, 28003113, 40443321},
		"04-04":      {110319, 165782, 171057, 176926},
	}},
	{"0002E65B0762D042F51F0D23542B13ED8CFA2E9A0E7206361E013A283905E31F", "Alice", 2, map[string][]int64{
		"30-00":      {125432, 154432, 196893, 263903},
		"30-80":      {24769, 61586, 78799, 80944},
		"30-81-lt80": {186670, 197180, 226037, 370649},
		"30-81-ge80": {352860, 672605, 884145, 1208840},
		"30-82-00":   {12434795, 27183692, 58886315},
		"30-82-01":   {9622422, 22101077, 34855874, 49569949},
		"30-82-ge02": {35505, 141854, 197412, 242535},
		"30-83":      {18143, 18173, 90274, 323527},
		"30-84":      {6112, 124654, 235982, 260239},
		"00-00":      {70578, 205895, 247572, 300979},
		"00-00-00":   {9087530, 11901829, 27271041, 36303773},
		"04-04":      {28121, 42883, 63251, 139062},
	}},
}

// sniffSet is one (master key, identity) set-up with the scalars found for it.
type sniffSet struct {
	label   string
	fixed   bool
	ke      *big.Int
	uid     []byte
	hid     byte
	pub     *sm9.EncryptMasterPublicKey
	euk     *sm9.EncryptPrivateKey
	de      []byte
	qb      *hk.G1
	peerUID []byte
	peer    *sm9.EncryptPrivateKey
	found   map[string][]*big.Int
	bad     string // set-up failed: why
}

var sniffSets = map[string]*sniffSet{}

func sniffBudget(x *mon.Ctx) int {
	n := 16384
	if strconv.IntSize == 32 {
		n = 4096 // the 32-bit build is an order of magnitude slower
	}
	if x.Thorough() {
		n *= 2
	}
	return n
}

// sniffSetup returns the cached set-up, building it on first use. Everything it draws comes
// from (run seed, label); c only carries the verdicts of the first case that needs the set-up.
func sniffSetup(c *mon.Case, x *mon.Ctx, label string, fixed *sniffFixed, idx int) *sniffSet {
	if s := sniffSets[label]; s != nil {
		return s
	}
	s := &sniffSet{label: label, fixed: fixed != nil, found: map[string][]*big.Int{}}
	sniffSets[label] = s
	rng := mon.NewRand(x.Seed, "c10.sniff.setup", label)
	nm2 := new(big.Int).Sub(ref.N, big.NewInt(2))
	if fixed != nil {
		s.ke, _ = new(big.Int).SetString(fixed.ke, 16)
		s.uid, s.hid = []byte(fixed.uid), fixed.hid
	} else {
		s.ke = new(big.Int).Add(rng.BigBelow(nm2), big.NewInt(1))
		s.hid = []byte{3, 1, 2, 0xff}[idx%4]
		switch idx % 4 {
		case 3:
			s.uid = []byte{} // the empty identity (length 0 is in the quantifier)
		case 1:
			s.uid = rng.Bytes(rng.Range(56, 70))
		default:
			s.uid = rng.Bytes(rng.Range(1, 40))
		}
	}
	s.peerUID = rng.Bytes(rng.Range(1, 30))
	fail := func(format string, a ...any) *sniffSet {
		s.bad = fmt.Sprintf(format, a...)
		return s
	}
	stream := ref.Bytes32(s.ke)
	stream[1] ^= 0x42
	src := mon.NewScript(stream)
	src.Tail = mon.NewRand(rng.Uint64(), "emk")
	var emk *sm9.EncryptMasterPrivateKey
	var err error
	if !c.Call("GenerateEncryptMasterKey", func() { emk, err = sm9.GenerateEncryptMasterKey(src) }) || err != nil {
		return fail("GenerateEncryptMasterKey: %v", err)
	}
	if !bytes.Equal(emk.Bytes(), ref.Bytes32(s.ke)) {
		if fixed != nil {
			return fail("the library does not take the scripted 32 octets as the master scalar; the table is for another key")
		}
		if s.ke = inRange(c, "encryption", emk.Bytes()); s.ke == nil {
			return fail("master scalar out of range")
		}
	}
	s.pub = emk.PublicKey()
	ppubRef := ref.G1Mul(s.ke, ref.P1).Bytes()
	if !c.Eq("encryption master public key vs reference [ke]P1", s.pub.Bytes(), append([]byte{4}, ppubRef...)) {
		return fail("master public key differs from the reference")
	}
	if s.euk = genEncUser(c, emk, s.ke, s.uid, s.hid); s.euk == nil {
		return fail("no user key")
	}
	if s.peer = genEncUser(c, emk, s.ke, s.peerUID, s.hid); s.peer == nil {
		return fail("no user key for the key-exchange peer")
	}
	s.de = s.euk.Bytes()[1:]
	if s.qb = encUserPublic(ppubRef, s.uid, s.hid); s.qb == nil {
		return fail("QB")
	}
	per := x.Scale(1, 2)
	if fixed != nil {
		// the table: believed only after the reference arithmetic has reproduced every entry
		qbRef := ref.EncUserPublic(ppubRef, s.uid, s.hid)
		if !c.Eq("QB = [H1(ID||hid)]P1 + Ppub-e: library G1 vs reference G1", s.qb.Marshal(), qbRef) {
			return fail("QB differs from the reference")
		}
		q, _ := ref.G1FromBytes(qbRef)
		for _, sh := range sniffTabled {
			rows := fixed.rows[sh]
			if !x.Thorough() && len(rows) > 1 {
				// quick: one entry per shape, which one follows the seed
				rows = rows[int(x.Seed%uint64(len(rows))):][:1]
			}
			for _, r := range rows {
				v := big.NewInt(r)
				if p := ref.G1Mul(v, q); p.Inf || !hasShape(p.Bytes(), sh) {
					x.HarnessError("c10.sniff table: [%d]QB of %q does not start with %s under the reference", r, fixed.uid, sh)
				}
				s.found[sh] = append(s.found[sh], v)
			}
		}
		n := 0
		for _, v := range s.found {
			n += len(v)
		}
		x.Event("sniff_table_entries_validated", n)
		return s
	}
	// the walk r0, r0+1, ...: one G1 addition and one conversion to affine per candidate
	budget := sniffBudget(x)
	// (the start does not depend on the budget: builds with a smaller budget find the same scalars or none,
	// so that the digests of the outputs stay comparable across configurations)
	r0 := new(big.Int).Add(rng.BigBelow(new(big.Int).Sub(nm2, big.NewInt(1<<20))), big.NewInt(1))
	tried := 0
	if !c.Call("the library's G1 (search for shaped C1)", func() {
		p, e := new(hk.G1).ScalarMult(s.qb, ref.Bytes32(r0))
		if e != nil {
			err = e
			return
		}
		missing := len(sniffSearched) * per
		for i := 0; i < budget && missing > 0; i++ {
			tried++
			for _, sh := range sniffShapes(p.Marshal()) {
				if len(s.found[sh]) < per {
					s.found[sh] = append(s.found[sh], new(big.Int).Add(r0, big.NewInt(int64(i))))
					for _, w := range sniffSearched {
						if w == sh {
							missing--
						}
					}
				}
			}
			p.Add(p, s.qb)
		}
	}) || err != nil {
		return fail("search: %v", err)
	}
	x.Event("sniff_search_candidates", tried)
	return s
}

// ---- the workload

// every scalar is run in two cases (the 32-bit build needs about a second of CPU for the two together)
var sniffParts = []string{
	"raw: wrap / unwrap in every form of C, five modes in the raw encoding through every decryption entry point",
	"asn1: five modes in the ASN.1 encoding through every decryption entry point, both key-exchange messages",
}

func sniff(x *mon.Ctx) {
	selfTest(x)
	nsets := x.Scale(2, 8)
	per := x.Scale(1, 2)
	for i := 0; i < nsets; i++ {
		label := fmt.Sprintf("searched-%d", i)
		for _, sh := range sniffSearched {
			for k := 0; k < per; k++ {
				for _, part := range sniffParts {
					if c := x.Begin("sniff set=%s shape=%s #%d %s: C1 = [r]QB starting with the shape, r searched", label, sh, k, part); c != nil {
						s := sniffSetup(c, x, label, nil, i)
						sniffCase(c, s, sh, k, part)
						c.End()
					}
				}
			}
		}
	}
	for ti := range sniffTable {
		t := &sniffTable[ti]
		label := "table-" + t.uid
		for si, sh := range sniffTabled {
			n := len(t.rows[sh])
			if !x.Thorough() {
				// quick: the shapes alternate between the identities of the table
				if n = 1; si%len(sniffTable) != ti {
					n = 0
				}
			}
			for k := 0; k < n; k++ {
				for _, part := range sniffParts {
					if c := x.Begin("sniff set=%s shape=%s #%d %s: C1 = [r]QB starting with the shape, r from the validated table", label, sh, k, part); c != nil {
						s := sniffSetup(c, x, label, t, ti)
						sniffCase(c, s, sh, k, part)
						c.End()
					}
				}
			}
		}
	}
	nk := x.Scale(1, 4)
	for i := 0; i < nk; i++ {
		for _, typ := range keyTypes {
			for _, sh := range keyShapes {
				if c := x.Begin("sniff keys #%d: %s whose x coordinate starts with %s, every encoding the package reads", i, typ, sh); c != nil {
					shapedKeyCase(c, x, i, typ, sh)
					c.End()
				}
			}
		}
	}
}

// lensFor returns the message lengths 1..1400 for which the raw ciphertext of mode m is
// shorter than / exactly / longer than span octets.
func lensFor(m ref.Mode, span int64) (beyond, exact, inside []int) {
	for n := 1; n <= 1400; n++ {
		switch l := int64(96 + c2Len(m, n)); {
		case l < span:
			beyond = append(beyond, n)
		case l == span:
			exact = append(exact, n)
		default:
			inside = append(inside, n)
		}
	}
	return
}

func sniffCase(c *mon.Case, s *sniffSet, shape string, k int, part string) {
	rawPart := part == sniffParts[0]
	kind := "searched"
	if s.fixed {
		kind = "table"
	}
	c.Class("sniff/%s/%s", kind, shape)
	if s.bad != "" {
		c.Inconclusive("set-up %s: %s", s.label, s.bad)
		return
	}
	if k >= len(s.found[shape]) {
		c.Event("sniff_shape_not_found_within_budget/"+shape, 1)
		c.Trivial()
		return
	}
	r := s.found[shape][k]
	rb := ref.Bytes32(r)
	var x1 []byte
	if p, err := new(hk.G1).ScalarMult(s.qb, rb); err == nil {
		x1 = p.Marshal()
	}
	if x1 == nil || !hasShape(x1, shape) {
		c.Fail("mismatch", "[r]QB does not start with %s although the search / the table found it: r=%x", shape, rb)
		return
	}
	c.Detail("r", fmt.Sprintf("%x", rb))
	c.Detail("C1", fmt.Sprintf("%x", x1))
	hit := func(c1 []byte) {
		if bytes.Equal(c1, x1) {
			c.Event("sniff_shaped_outputs", 1)
		} else {
			c.Event("shape_missed_by_library_output", 1)
		}
	}
	stream := func() *mon.Script { return script(c, "sniff", rb) }
	if rawPart {
		sniffWrap(c, s, shape, k, stream, hit)
	}

	span, wellFormed := ref.SequenceSpan(x1[:8])
	for mi, m := range ref.Modes {
		for _, asn1 := range []bool{!rawPart} {
			fits := []string{"free"}
			var beyond, exact, inside []int
			if wellFormed && !asn1 {
				beyond, exact, inside = lensFor(m, span)
				fits = fits[:0]
				for _, f := range []struct {
					name string
					l    []int
				}{{"inside", inside}, {"exact", exact}, {"beyond", beyond}} {
					if len(f.l) > 0 {
						fits = append(fits, f.name)
					}
				}
				if m != ref.XOR && len(fits) > 1 {
					fits = fits[(mi+k)%len(fits):][:1] // XOR takes every fit, the block modes one in turn
				}
			}
			for _, fit := range fits {
				var n int
				switch fit {
				case "inside":
					n = inside[c.R.Intn(min(len(inside), 64))]
				case "exact":
					n = exact[c.R.Intn(len(exact))]
				case "beyond":
					n = beyond[len(beyond)-1-c.R.Intn(min(len(beyond), 64))]
				default:
					n = pickMsgLen(c.R, m, (k+mi)%3)
				}
				msg := c.R.Bytes(n)
				enc := "raw"
				if asn1 {
					enc = "asn1"
				}
				c.Class("sniff/%s/%v/%s/%s", shape, m, enc, fit)
				var ct []byte
				var err error
				plain := append([]byte{}, msg...)
				o := optsOf(m)
				if m == ref.XOR && (c.N/2+int64(k))%2 == 1 {
					o = nil // nil options mean XOR
				}
				call := func() {
					switch {
					case !asn1:
						ct, err = sm9.Encrypt(stream(), s.pub, s.uid, s.hid, plain, o)
					case (mi+k)%2 == 0:
						ct, err = sm9.EncryptASN1(stream(), s.pub, s.uid, s.hid, plain, o)
					default:
						ct, err = s.pub.Encrypt(stream(), s.uid, s.hid, plain, o)
					}
				}
				if !c.Call("encrypt", call) {
					continue
				}
				if err != nil {
					c.Fail("reject", "encrypt %v/%s of a %d-byte message with r=%x: %v", m, enc, n, rb, err)
					continue
				}
				if c1, _, _, ok := splitCipher(c, m, asn1, ct); ok {
					hit(c1)
				}
				digest(c, fmt.Sprintf("sniff/%s/%v/%s/%s", shape, m, enc, fit), ct)
				checkCipher(c, m, asn1, ct, s.de, s.uid, msg)
				sniffDecrypt(c, s, mi, m, asn1, fit, ct, msg)
			}
		}
	}
	if k == 0 && !rawPart {
		sniffKex(c, s, shape, rb, x1)
	}
}

// sniffWrap: the three wrap entry points on the scripted r, every form of C through the unwrap entry points.
func sniffWrap(c *mon.Case, s *sniffSet, shape string, k int, stream func() *mon.Script, hit func([]byte)) {
	klen := pickKLen(c.R, k%3)
	var key, cip, got []byte
	var err error
	if !c.Call("WrapKey", func() { key, cip, err = sm9.WrapKey(stream(), s.pub, s.uid, s.hid, klen) }) {
		return
	}
	if err != nil {
		c.Fail("reject", "WrapKey: %v", err)
		return
	}
	if len(key) != klen || len(cip) != 65 || cip[0] != 4 || !ref.OnCurveG1(cip[1:]) {
		c.Fail("mismatch", "WrapKey: len(key)=%d want %d; C=%x must be 04||point of G1", len(key), klen, cip)
		return
	}
	hit(cip[1:])
	digest(c, "sniff/"+shape+"/wrap", key, cip)
	c.Eq("wrapped key vs reference KDF(C||e(C,de)||ID)", key, ref.KDF(ref.Cat(cip[1:], modelW(cip[1:], s.de), s.uid), klen))
	der := ref.DERBitString(cip)
	pkg := ref.EncodeKeyPackage(key, cip)
	for _, u := range []struct {
		name string
		f    func() ([]byte, error)
	}{
		{"UnwrapKey(04||C, 65 octets)", func() ([]byte, error) { return sm9.UnwrapKey(s.euk, s.uid, cip, klen) }},
		{"UnwrapKey(C, 64 octets)", func() ([]byte, error) { return sm9.UnwrapKey(s.euk, s.uid, cip[1:], klen) }},
		{"priv.UnwrapKey(SM9PublicKey1)", func() ([]byte, error) { return s.euk.UnwrapKey(s.uid, der, klen) }},
		{"UnmarshalSM9KeyPackage + UnwrapKey", func() ([]byte, error) {
			k2, c2, e := sm9.UnmarshalSM9KeyPackage(pkg)
			if e != nil {
				return nil, e
			}
			if !bytes.Equal(k2, key) || !bytes.Equal(c2, cip) {
				return nil, fmt.Errorf("UnmarshalSM9KeyPackage returns key %x, C %x", k2, c2)
			}
			return sm9.UnwrapKey(s.euk, s.uid, c2, klen)
		}},
	} {
		if !c.Call(u.name, func() { got, err = u.f() }) {
			continue
		}
		c.Event("sniff_unwraps", 1)
		if err != nil {
			c.Fail("reject", "%s refuses the honest C = %x (starts with %s): %v", u.name, cip[1:], shape, err)
			continue
		}
		c.Eq(u.name, got, key)
	}
	var key2, der2, pkg2 []byte
	if c.Call("pub.WrapKey", func() { key2, der2, err = s.pub.WrapKey(stream(), s.uid, s.hid, klen) }) {
		if err != nil {
			c.Fail("reject", "pub.WrapKey: %v", err)
		} else {
			c.Eq("pub.WrapKey on the same random stream: key", key2, key)
			c.Eq("pub.WrapKey on the same random stream: SM9PublicKey1 vs the reference encoding of C", der2, der)
		}
	}
	if c.Call("pub.WrapKeyASN1", func() { pkg2, err = s.pub.WrapKeyASN1(stream(), s.uid, s.hid, klen) }) {
		if err != nil {
			c.Fail("reject", "pub.WrapKeyASN1: %v", err)
		} else {
			c.Eq("pub.WrapKeyASN1 on the same random stream vs the reference encoding of SM9KeyPackage", pkg2, pkg)
		}
	}
	// an entry point given the OTHER encoding of C: refusal or the right key, never another key
	for _, u := range []struct {
		name string
		f    func() ([]byte, error)
	}{
		{"priv.UnwrapKey(04||C instead of SM9PublicKey1)", func() ([]byte, error) { return s.euk.UnwrapKey(s.uid, cip, klen) }},
		{"priv.UnwrapKey(C instead of SM9PublicKey1)", func() ([]byte, error) { return s.euk.UnwrapKey(s.uid, cip[1:], klen) }},
		{"UnwrapKey(SM9PublicKey1 instead of C)", func() ([]byte, error) { return sm9.UnwrapKey(s.euk, s.uid, der, klen) }},
	} {
		if !c.Call(u.name, func() { got, err = u.f() }) {
			continue
		}
		switch {
		case err != nil:
			c.Event("sniff_other_encoding/refused", 1)
		case bytes.Equal(got, key):
			c.Event("sniff_other_encoding/opened_to_the_key", 1)
		default:
			c.Fail("mismatch", "%s returns the key %x for the honest C of the key %x", u.name, got, key)
		}
	}
}

// sniffDecrypt runs every decryption entry point on one honest ciphertext.
func sniffDecrypt(c *mon.Case, s *sniffSet, mi int, m ref.Mode, asn1 bool, fit string, ct, msg []byte) {
	opts := optsOf(m)
	other := optsOf(ref.Modes[(mi+1)%len(ref.Modes)])
	uid := s.uid
	withUID := func(o sm9.EncrypterOpts) *sm9.DecrypterOptsWithUID {
		if len(uid) > 0 {
			if d, err := sm9.NewDecrypterOptsWithUID(o, uid); err == nil {
				return d
			}
		}
		return &sm9.DecrypterOptsWithUID{EncrypterOpts: o, UID: uid} // the exported struct: the only way for the empty identity
	}
	// open: the entry point is given the encoding it is documented to read and must return the plaintext.
	// other: it is given the OTHER encoding (decided by the reference parser); the property does not forbid a
	// lenient reader, so the verdict is: refusal (counted) or the right plaintext (counted), never another output.
	// documented: a raw ciphertext that is exactly one DER SEQUENCE, which priv.Decrypt is specified to read as
	// ASN.1; same verdict as other, counted separately.
	const (
		open = iota
		other1
		documented
	)
	type ep struct {
		name string
		want int
		f    func() ([]byte, error)
	}
	var eps []ep
	if !asn1 {
		sniffed := open
		if ref.IsOneSequence(ct) {
			sniffed = documented
		}
		eps = []ep{
			{"Decrypt", open, func() ([]byte, error) { return sm9.Decrypt(s.euk, uid, ct, opts) }},
			{"priv.Decrypt(*DecrypterOptsWithUID{mode})", sniffed, func() ([]byte, error) { return s.euk.Decrypt(nil, ct, withUID(opts)) }},
			{"priv.Decrypt(*DecrypterOptsWithUID without EncrypterOpts) on a raw ciphertext", other1, func() ([]byte, error) { return s.euk.Decrypt(nil, ct, withUID(nil)) }},
		}
		if m == ref.XOR {
			eps = append(eps, ep{"Decrypt(nil opts)", open, func() ([]byte, error) { return sm9.Decrypt(s.euk, uid, ct, nil) }})
		}
		if _, _, _, _, perr := ref.ParseCipher(ct); perr != nil {
			// not an SM9Cipher (reference parser): the ASN.1 entry points are given the other encoding
			eps = append(eps,
				ep{"DecryptASN1 on a raw ciphertext", other1, func() ([]byte, error) { return sm9.DecryptASN1(s.euk, uid, ct) }},
				ep{"priv.DecryptASN1 on a raw ciphertext", other1, func() ([]byte, error) { return s.euk.DecryptASN1(uid, ct) }},
				ep{"priv.Decrypt(uid) on a raw ciphertext", other1, func() ([]byte, error) { return s.euk.Decrypt(nil, ct, uid) }})
		}
	} else {
		eps = []ep{
			{"DecryptASN1", open, func() ([]byte, error) { return sm9.DecryptASN1(s.euk, uid, ct) }},
			{"priv.DecryptASN1", open, func() ([]byte, error) { return s.euk.DecryptASN1(uid, ct) }},
			{"priv.Decrypt(uid)", open, func() ([]byte, error) { return s.euk.Decrypt(nil, ct, uid) }},
			{"priv.Decrypt(*DecrypterOptsWithUID without EncrypterOpts)", open, func() ([]byte, error) { return s.euk.Decrypt(nil, ct, withUID(nil)) }},
			{"priv.Decrypt(*DecrypterOptsWithUID{mode})", open, func() ([]byte, error) { return s.euk.Decrypt(nil, ct, withUID(opts)) }},
			{"priv.Decrypt(*DecrypterOptsWithUID{another mode})", open, func() ([]byte, error) { return s.euk.Decrypt(nil, ct, withUID(other)) }},
		}
		if len(ct) >= 96 && !ref.OnCurveG1(ct[:64]) {
			// the first 64 octets of the DER are no point: the raw entry point is given the other encoding
			eps = append(eps, ep{"Decrypt on an ASN.1 ciphertext", other1, func() ([]byte, error) { return sm9.Decrypt(s.euk, uid, ct, opts) }})
		}
	}
	for _, e := range eps {
		var got []byte
		var err error
		in := append([]byte{}, ct...)
		if !c.Call(e.name, func() { got, err = e.f() }) {
			continue
		}
		if !bytes.Equal(in, ct) {
			c.Fail("mismatch", "%s modified the ciphertext it was given", e.name)
		}
		switch e.want {
		case open:
			if err != nil {
				c.Fail("reject", "%s (%v, %d-byte message, %d-byte ciphertext starting %x, SEQUENCE header fit: %s) refuses the honest ciphertext: %v", e.name, m, len(msg), len(ct), ct[:6], fit, err)
				continue
			}
			c.Eq(e.name+" ("+m.String()+")", got, msg)
			c.Event("sniff_decrypted", 1)
		case other1, documented:
			ev := "sniff_other_encoding"
			if e.want == documented {
				ev = "observed_raw_ciphertext_that_is_exactly_one_DER_SEQUENCE"
			}
			switch {
			case err != nil:
				c.Event(ev+"/refused", 1)
			case bytes.Equal(got, msg):
				c.Event(ev+"/opened_to_the_plaintext", 1)
			default:
				c.Fail("mismatch", "%s (%v) returns %x for an honest ciphertext of the plaintext %x", e.name, m, got, msg)
			}
		}
	}
}

// sniffKex: r as the ephemeral scalar of the peer, once as initiator (RA = [r]Q of the shaped
// identity) and once as responder (RB = [r]Q of the shaped identity, who initiates).
func sniffKex(c *mon.Case, s *sniffSet, shape string, rb, x1 []byte) {
	e := &kexEnv{c: c, ppub: s.pub.Bytes()[1:], hid: s.hid, uidA: s.peerUID, uidB: s.uid, ukA: s.peer, ukB: s.euk,
		klen: pickKLen(c.R, 0), confirm: true}
	side := func(label string, peerSide bool, scripted bool) *kexSide {
		sd := &kexSide{uid: e.uidB, peer: e.uidA, uk: e.ukB, ukPeer: e.ukA}
		if peerSide {
			sd = &kexSide{uid: e.uidA, peer: e.uidB, uk: e.ukA, ukPeer: e.ukB}
		}
		sd.stream = c.R.Bytes(32 * 16)
		if scripted {
			copy(sd.stream, rb)
		}
		sd.rnd = script(c, label, sd.stream)
		sd.ke = sd.uk.NewKeyExchange(sd.uid, sd.peer, e.klen, e.confirm)
		return sd
	}
	shaped := func(msg []byte) {
		if len(msg) == 65 && bytes.Equal(msg[1:], x1) {
			c.Event("sniff_shaped_kex_messages", 1)
		} else {
			c.Event("shape_missed_by_library_output", 1)
		}
	}
	if m, ok := e.run("sniff-RA/"+shape, side("kex-i", true, true), side("kex-r", false, false)); ok {
		shaped(m.ra)
	}
	if m, ok := e.run("sniff-RB/"+shape, side("kex-i2", false, false), side("kex-r2", true, true)); ok {
		shaped(m.rb)
	}
}

// ---- keys whose x coordinate starts with a format marker

type keyScalars struct {
	found map[string][]*big.Int
	bad   string
}

var keySearch = map[string]*keyScalars{}

// keyScalarsFor walks k0, k0+1, ... over the multiples of the generator of G1 (g2 false) or G2
// and keeps, per shape, the first scalars whose point has an x coordinate starting with it.
func keyScalarsFor(c *mon.Case, x *mon.Ctx, g2 bool) *keyScalars {
	label := "g1"
	if g2 {
		label = "g2"
	}
	if s := keySearch[label]; s != nil {
		return s
	}
	s := &keyScalars{found: map[string][]*big.Int{}}
	keySearch[label] = s
	rng := mon.NewRand(x.Seed, "c10.sniff.keys", label)
	budget := sniffBudget(x) / 4
	per := x.Scale(1, 4)
	k0 := new(big.Int).Add(rng.BigBelow(new(big.Int).Sub(ref.N, big.NewInt(1<<20))), big.NewInt(1))
	var err error
	tried := 0
	lead := func(b byte) string { return fmt.Sprintf("%02x", b) }
	walk := func(first func() []byte, next func() []byte) {
		missing := len(keyShapes) * per
		m := first()
		for i := 0; i < budget && missing > 0 && m != nil; i++ {
			tried++
			sh := lead(m[0])
			for _, w := range keyShapes {
				if w == sh && len(s.found[sh]) < per {
					s.found[sh] = append(s.found[sh], new(big.Int).Add(k0, big.NewInt(int64(i))))
					missing--
				}
			}
			m = next()
		}
	}
	if !c.Call("the library's G1 / G2 (search for shaped keys)", func() {
		if g2 {
			var p *hk.G2
			walk(func() []byte {
				if p, err = new(hk.G2).ScalarBaseMult(ref.Bytes32(k0)); err != nil {
					return nil
				}
				return p.Marshal()
			}, func() []byte { return p.Add(p, hk.Gen2).Marshal() })
		} else {
			var p *hk.G1
			walk(func() []byte {
				if p, err = new(hk.G1).ScalarBaseMult(ref.Bytes32(k0)); err != nil {
					return nil
				}
				return p.Marshal()
			}, func() []byte { return p.Add(p, hk.Gen1).Marshal() })
		}
	}) || err != nil {
		s.bad = fmt.Sprintf("search: %v", err)
	}
	x.Event("sniff_key_search_candidates", tried)
	return s
}

func scriptedMaster(k *big.Int) []byte {
	b := ref.Bytes32(k)
	b[1] ^= 0x42
	return b
}

func shapedKeyCase(c *mon.Case, x *mon.Ctx, idx int, typ, shape string) {
	c.Class("sniff/key/%s/%s", typ, shape)
	g2 := typ == "SignMasterPublicKey" || typ == "EncryptPrivateKey"
	ks := keyScalarsFor(c, x, g2)
	if ks.bad != "" {
		c.Inconclusive("key search: %s", ks.bad)
		return
	}
	if idx >= len(ks.found[shape]) {
		c.Event("sniff_shape_not_found_within_budget/key-"+shape, 1)
		c.Trivial()
		return
	}
	k := ks.found[shape][idx]
	hid := hids[(idx+len(typ))%4]
	uid := c.R.Bytes(c.R.Range(0, 80))
	msg := c.R.Bytes(c.R.Range(1, 100))
	rnd := script(c, "sniffkeys", nil)
	master := k // the master scalar: k itself for a master public key
	if typ == "SignPrivateKey" || typ == "EncryptPrivateKey" {
		// user key [t2]P with t2 = k: t2 = ks/(H1+ks)  <=>  ks = t2*H1/(1-t2)
		h := new(big.Int).SetBytes(ref.H1(append(append([]byte{}, uid...), hid)))
		den := new(big.Int).Sub(big.NewInt(1), k)
		den.Mod(den, ref.N)
		if den.Sign() == 0 {
			c.Trivial()
			return
		}
		master = new(big.Int).Mul(k, h)
		master.Mul(master, den.ModInverse(den, ref.N)).Mod(master, ref.N)
		if t2, ok := ref.UserScalar(master, uid, hid); master.Sign() == 0 || master.Cmp(new(big.Int).Sub(ref.N, big.NewInt(1))) >= 0 || !ok || t2.Cmp(k) != 0 {
			c.Inconclusive("no master scalar gives this identity the user scalar %x", k)
			return
		}
	}
	want := func(unc []byte, what string) bool {
		if fmt.Sprintf("%02x", unc[1]) == shape {
			c.Event("sniff_shaped_keys", 1)
			return true
		}
		c.Event("shape_missed_by_library_output", 1)
		return false
	}
	var err error
	switch typ {
	case "SignMasterPublicKey", "SignPrivateKey":
		var smk *sm9.SignMasterPrivateKey
		if !c.Call("GenerateSignMasterKey", func() { smk, err = sm9.GenerateSignMasterKey(script(c, "smk", scriptedMaster(master))) }) || err != nil {
			c.Fail("reject", "GenerateSignMasterKey: %v", err)
			return
		}
		if !bytes.Equal(smk.Bytes(), ref.Bytes32(master)) {
			c.Event("kgc_master_scalar_not_as_scripted", 1)
			return
		}
		spub := smk.PublicKey()
		c.Eq("signature master public key vs [ks]P2", spub.Bytes(), g2BaseMul(master))
		var suk *sm9.SignPrivateKey
		if !c.Call("GenerateUserKey", func() { suk, err = smk.GenerateUserKey(uid, hid) }) || err != nil {
			c.Fail("reject", "SignMasterPrivateKey.GenerateUserKey: %v", err)
			return
		}
		var sig []byte
		if !c.Call("SignASN1", func() { sig, err = sm9.SignASN1(rnd, suk, msg) }) || err != nil {
			c.Fail("reject", "SignASN1: %v", err)
			return
		}
		if typ == "SignMasterPublicKey" {
			want(spub.Bytes(), typ)
			digest(c, "sniff/key/spub", spub.Bytes())
			signMasterPubForms(c, spub, uid, hid, msg, sig)
		} else {
			c.Eq("signature user key vs [t2]P1", suk.Bytes(), g1BaseMul(k))
			want(suk.Bytes(), typ)
			digest(c, "sniff/key/suk", suk.Bytes())
			signUserForms(c, suk, spub, uid, hid, msg, rnd)
		}
	default:
		var emk *sm9.EncryptMasterPrivateKey
		if !c.Call("GenerateEncryptMasterKey", func() { emk, err = sm9.GenerateEncryptMasterKey(script(c, "emk", scriptedMaster(master))) }) || err != nil {
			c.Fail("reject", "GenerateEncryptMasterKey: %v", err)
			return
		}
		if !bytes.Equal(emk.Bytes(), ref.Bytes32(master)) {
			c.Event("kgc_master_scalar_not_as_scripted", 1)
			return
		}
		epub := emk.PublicKey()
		c.Eq("encryption master public key vs [ke]P1", epub.Bytes(), g1BaseMul(master))
		euk := genEncUser(c, emk, master, uid, hid)
		if euk == nil {
			return
		}
		klen := pickKLen(c.R, idx%3)
		var wkey, wcip []byte
		if !c.Call("WrapKey", func() { wkey, wcip, err = sm9.WrapKey(rnd, epub, uid, hid, klen) }) || err != nil {
			c.Fail("reject", "WrapKey: %v", err)
			return
		}
		if typ == "EncryptMasterPublicKey" {
			want(epub.Bytes(), typ)
			digest(c, "sniff/key/epub", epub.Bytes())
			encMasterPubForms(c, epub, euk, uid, hid, rnd)
		} else {
			want(euk.Bytes(), typ)
			digest(c, "sniff/key/euk", euk.Bytes())
			encUserForms(c, euk, epub, uid, wcip, wkey, klen)
		}
	}
}
