package c10

import (
	"bytes"
	"encoding/binary"
	"fmt"
	"math/big"

	"github.com/emmansun/gmsm/sm9"
	hk "github.com/emmansun/gmsm/verifhook"

	"verifh/mon"
	ref "verifh/ref/sm9"
)

// Structured values. A signature is (h, S) with h in [1, N-1] and S a G1 point; about
// one h in 182 has a leading zero byte, one in 46 000 two, and the same holds for the
// coordinates of S and of C1. Such values exercise the fixed-width / minimal-width
// conversions between the entry points (h as *big.Int, as 32-byte OCTET STRING, point
// coordinates as 32-byte fields). Random sessions almost never produce them, so they
// are SEARCHED for, deterministically and without the library's signer: with the
// ephemeral scalar r fixed (and scripted into the random stream), w = g^r is fixed
// and h = H2(M||w) is computed by the reference for successive messages M until the
// wanted shape appears (bounded); then the library signs that M with that stream.
// If the library turned the stream into another r the shape is simply missed
// (counted) - the laws below are demanded of whatever it returns.

// The "lead" shapes are values whose first octet is an ASN.1 tag or a point-format marker (30 SEQUENCE, 04 OCTET
// STRING / uncompressed point): inside the OCTET STRING h and the BIT STRING S of SM9Signature, and at the head of
// the raw (h, S) pair, they must be read as content, never as structure.
var sigShapes = []string{"h-1-zero-byte", "h-2-zero-bytes", "Sx-zero-byte", "Sy-zero-byte", "h-lead-30", "h-lead-04", "Sx-lead-04", "Sx-lead-30"}

const shapeSearchBound = 250000

// shapeHit reports whether (h, S) has the shape.
func shapeHit(shape string, h, s65 []byte) bool {
	switch shape {
	case "h-1-zero-byte":
		return h[0] == 0 && h[1] != 0
	case "h-2-zero-bytes":
		return h[0] == 0 && h[1] == 0
	case "Sx-zero-byte":
		return s65 != nil && s65[1] == 0
	case "Sy-zero-byte":
		return s65 != nil && s65[33] == 0
	case "h-lead-30":
		return h[0] == 0x30
	case "h-lead-04":
		return h[0] == 4
	case "Sx-lead-04":
		return s65 != nil && s65[1] == 4
	case "Sx-lead-30":
		return s65 != nil && s65[1] == 0x30
	}
	return false
}

func sigShapeCase(c *mon.Case, set int, shape string) {
	c.Class("shape/sig/%s", shape)
	uid := c.R.Bytes(c.R.Range(1, 40))
	hid := hids[set%4]
	smk, _ := genSignMaster(c, "random")
	if smk == nil {
		return
	}
	pub := smk.PublicKey()
	suk, err := smk.GenerateUserKey(uid, hid)
	if err != nil {
		return
	}
	// fixed ephemeral scalar, first in the stream (a value < N is taken as it is)
	r := new(big.Int).Add(c.R.BigBelow(new(big.Int).Sub(ref.N, big.NewInt(1))), big.NewInt(1))
	rb := ref.Bytes32(r)
	pp, ds := g2From(pub.Bytes()[1:]), g1From(suk.Bytes()[1:])
	if pp == nil || ds == nil {
		c.Fail("mismatch", "keys do not decode")
		return
	}
	w := new(hk.GT).ScalarMult(hk.Pair(hk.Gen1, pp), r).Marshal()
	prefix := c.R.Bytes(c.R.Range(0, 24))
	needS := shape[0] == 'S'
	var msg, best []byte
	var bestH []byte
	tried := 0
	for ctr := uint32(0); ctr < shapeSearchBound; ctr++ {
		m := binary.BigEndian.AppendUint32(append([]byte{}, prefix...), ctr)
		h := ref.H2(ref.Cat(m, w))
		tried++
		var s65 []byte
		if needS {
			l := new(big.Int).Sub(r, new(big.Int).SetBytes(h))
			l.Mod(l, ref.N)
			if l.Sign() == 0 {
				continue
			}
			p, err := new(hk.G1).ScalarMult(ds, ref.Bytes32(l))
			if err != nil {
				continue
			}
			s65 = p.MarshalUncompressed()
		}
		if shapeHit(shape, h, s65) {
			msg = m
			break
		}
		if !needS && (bestH == nil || bytes.Compare(h, bestH) < 0) {
			best, bestH = m, h
		}
	}
	c.Event("shape_search_candidates", tried)
	if msg == nil {
		c.Event("shape_not_found_within_bound/"+shape, 1)
		if best == nil {
			return
		}
		msg = best // the smallest h seen: still the most structured value available
	}
	// every signing entry point on the scripted stream, every verifier on every result
	type produced struct {
		api  string
		h, s []byte // 32 bytes, 65 bytes
		der  []byte // what the entry point returned when it returns DER
	}
	var outs []produced
	stream := func() *mon.Script { return script(c, "shape", rb) }
	var der []byte
	if c.Call("SignASN1", func() { der, err = sm9.SignASN1(stream(), suk, msg) }) {
		if err != nil {
			c.Fail("reject", "SignASN1: %v", err)
		} else if h, s, perr := ref.ParseSignature(der); perr != nil || len(h) != 32 || len(s) != 65 {
			c.Fail("mismatch", "SignASN1 output for a structured h is not SEQUENCE{OCTET STRING(32), BIT STRING(65)}: %x", der)
		} else {
			outs = append(outs, produced{"SignASN1", h, s, der})
		}
	}
	if c.Call("priv.Sign", func() { der, err = suk.Sign(stream(), msg, nil) }) {
		if err != nil {
			c.Fail("reject", "priv.Sign: %v", err)
		} else if h, s, perr := ref.ParseSignature(der); perr != nil || len(h) != 32 || len(s) != 65 {
			c.Fail("mismatch", "priv.Sign output for a structured h is not SEQUENCE{OCTET STRING(32), BIT STRING(65)}: %x", der)
		} else {
			outs = append(outs, produced{"priv.Sign", h, s, der})
		}
	}
	var hv *big.Int
	var sv []byte
	if c.Call("Sign(h,S)", func() { hv, sv, err = sm9.Sign(stream(), suk, msg) }) {
		if err != nil {
			c.Fail("reject", "Sign: %v", err)
		} else if hv.Sign() <= 0 || hv.Cmp(ref.N) >= 0 || len(sv) != 65 {
			c.Fail("mismatch", "Sign returned h=%v len(S)=%d", hv, len(sv))
		} else {
			outs = append(outs, produced{"Sign", ref.Bytes32(hv), sv, nil})
		}
	}
	for _, o := range outs {
		if shapeHit(shape, o.h, o.s) {
			c.Event("shaped_signatures/"+shape, 1)
		} else {
			c.Event("shape_missed_by_library_output", 1)
		}
		digest(c, "shape/"+shape+"/"+o.api, o.h, o.s)
		hInt := new(big.Int).SetBytes(o.h)
		fixed := ref.EncodeSignature(o.h, o.s)
		if o.der != nil {
			// the library documents/emits a fixed-width h: exactly that must come out
			c.Eq(o.api+": DER vs SEQUENCE{OCTET STRING h (32 bytes), BIT STRING 04||x||y}", o.der, fixed)
		}
		verdicts := []struct {
			name string
			f    func() bool
		}{
			{"Verify(h *big.Int, S)", func() bool { return sm9.Verify(pub, uid, hid, msg, hInt, o.s) }},
			{"Verify(copy of h, S)", func() bool {
				return sm9.Verify(pub, uid, hid, msg, new(big.Int).SetBytes(hInt.Bytes()), append([]byte{}, o.s...))
			}},
			{"VerifyASN1(fixed-width DER)", func() bool { return sm9.VerifyASN1(pub, uid, hid, msg, fixed) }},
			{"pub.Verify(fixed-width DER)", func() bool { return pub.Verify(uid, hid, msg, fixed) }},
		}
		for _, v := range verdicts {
			var ok bool
			if c.Call(v.name, func() { ok = v.f() }) {
				c.Event("structured_signature_verifications", 1)
				if !ok {
					c.Fail("reject", "%s refuses the signature produced by %s: h=%x (%d significant bits) S=%x msg=%x", v.name, o.api, o.h, hInt.BitLen(), o.s, msg)
				}
			}
		}
		if !modelVerify(pub.Bytes()[1:], uid, hid, msg, o.h, o.s[1:]) {
			c.Fail("mismatch", "reference verification refuses the signature produced by %s: h=%x S=%x", o.api, o.h, o.s)
		}
		// observation only: is a minimal-width h (leading zero bytes stripped) also accepted?
		if o.h[0] == 0 {
			var ok bool
			if c.Call("VerifyASN1(stripped h)", func() { ok = sm9.VerifyASN1(pub, uid, hid, msg, ref.EncodeSignature(hInt.Bytes(), o.s)) }) {
				if ok {
					c.Event("VerifyASN1_accepts_h_without_leading_zero_bytes", 1)
				} else {
					c.Event("VerifyASN1_refuses_h_without_leading_zero_bytes", 1)
				}
			}
		}
		// still sound
		var ok bool
		if c.Call("Verify(another uid)", func() { ok = sm9.Verify(pub, flipped(uid, c.R), hid, msg, hInt, o.s) }) && ok {
			c.Fail("accept", "Verify accepts the structured signature for another uid")
		}
		if c.Call("VerifyASN1(another message)", func() { ok = sm9.VerifyASN1(pub, uid, hid, flipped(msg, c.R), fixed) }) && ok {
			c.Fail("accept", "VerifyASN1 accepts the structured signature for another message")
		}
	}
}

// c1ShapeCase looks for an ephemeral scalar whose C1 = [r]QB has a coordinate with a
// leading zero byte and runs wrap and encrypt (raw and ASN.1) on it.
func c1ShapeCase(c *mon.Case, set int, coord int) {
	c.Class("shape/C1/coord%d", coord)
	uid := c.R.Bytes(c.R.Range(1, 40))
	hid := hids[(set+1)%4]
	emk, ke := genEncMaster(c, "random", false)
	if emk == nil {
		return
	}
	pub := emk.PublicKey()
	euk := genEncUser(c, emk, ke, uid, hid)
	if euk == nil {
		return
	}
	qb := encUserPublic(pub.Bytes()[1:], uid, hid)
	if qb == nil {
		return
	}
	var rb []byte
	tried := 0
	for ; tried < 4000 && rb == nil; tried++ {
		r := new(big.Int).Add(c.R.BigBelow(new(big.Int).Sub(ref.N, big.NewInt(1))), big.NewInt(1))
		p, err := new(hk.G1).ScalarMult(qb, ref.Bytes32(r))
		if err == nil && p.Marshal()[32*coord] == 0 {
			rb = ref.Bytes32(r)
		}
	}
	c.Event("shape_search_candidates", tried)
	if rb == nil {
		c.Event("shape_not_found_within_bound/C1", 1)
		return
	}
	de := euk.Bytes()[1:]
	hit := func(c1 []byte) {
		if c1[32*coord] == 0 {
			c.Event("shaped_C1", 1)
		} else {
			c.Event("shape_missed_by_library_output", 1)
		}
	}
	var err error
	// wrap: raw, DER BIT STRING, key package
	var key, cip, got []byte
	klen := pickKLen(c.R, set%3)
	if c.Call("WrapKey", func() { key, cip, err = sm9.WrapKey(script(c, "c1", rb), pub, uid, hid, klen) }) && err == nil && len(cip) == 65 {
		hit(cip[1:])
		digest(c, fmt.Sprintf("shape/C1/%d/wrap", coord), key, cip)
		c.Eq("structured C: wrapped key vs reference KDF", key, ref.KDF(ref.Cat(cip[1:], modelW(cip[1:], de), uid), klen))
		for _, in := range [][]byte{cip, cip[1:]} {
			if c.Call("UnwrapKey", func() { got, err = sm9.UnwrapKey(euk, uid, in, klen) }) {
				if err != nil {
					c.Fail("reject", "UnwrapKey refuses C = %x (leading zero byte in a coordinate): %v", in, err)
				} else {
					c.Eq("UnwrapKey(structured C)", got, key)
				}
			}
		}
	}
	if c.Call("pub.WrapKey", func() { key, cip, err = pub.WrapKey(script(c, "c1", rb), uid, hid, klen) }) && err == nil {
		if raw, perr := ref.ParseBitString(cip); perr != nil || len(raw) != 65 {
			c.Fail("mismatch", "pub.WrapKey: C with a leading zero byte is not encoded as BIT STRING of 65 bytes: %x", cip)
		} else {
			hit(raw[1:])
			if c.Call("priv.UnwrapKey", func() { got, err = euk.UnwrapKey(uid, cip, klen) }) {
				if err != nil {
					c.Fail("reject", "priv.UnwrapKey refuses %x: %v", cip, err)
				} else {
					c.Eq("priv.UnwrapKey(structured C)", got, key)
				}
			}
		}
	}
	for mi, m := range []ref.Mode{ref.XOR, ref.CBC, ref.ECB} {
		for _, asn1 := range []bool{false, true} {
			msg := c.R.Bytes(pickMsgLen(c.R, m, (set+mi)%3))
			var ct []byte
			call := func() {
				if asn1 {
					ct, err = sm9.EncryptASN1(script(c, "c1", rb), pub, uid, hid, append([]byte{}, msg...), optsOf(m))
				} else {
					ct, err = sm9.Encrypt(script(c, "c1", rb), pub, uid, hid, append([]byte{}, msg...), optsOf(m))
				}
			}
			if !c.Call("encrypt", call) || err != nil {
				continue
			}
			if c1, _, _, ok := splitCipher(c, m, asn1, ct); ok {
				hit(c1)
			}
			digest(c, fmt.Sprintf("shape/C1/%d/%v/%v", coord, m, asn1), ct)
			checkCipher(c, m, asn1, ct, de, uid, msg)
			decryptAll(c, euk, uid, m, asn1, ct, msg)
		}
	}
}
