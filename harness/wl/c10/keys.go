package c10

import (
	"bytes"
	"encoding/pem"

	"github.com/emmansun/gmsm/sm9"

	"verifh/mon"
	ref "verifh/ref/sm9"
)

// keys decides "keys serialise and parse back to equal values" for the six key
// types in every encoding the package reads: raw uncompressed and compressed
// points, DER (bare and wrapped in a SEQUENCE with the master public key, the
// GmSSL layout), PEM for the two master public keys; a parsed key must also
// *work* (cold lazy state): sign/verify, wrap/unwrap with parsed keys.
func keys(x *mon.Ctx) {
	selfTest(x)
	n := x.Scale(36, 540)
	for i := 0; i < n; i++ {
		mk := masterKinds[i%len(masterKinds)]
		hid := hids[(i/len(masterKinds))%4]
		c := x.Begin("keys #%d master=%s hid=%#x: six key types x {raw, compressed, DER, SEQUENCE, PEM}", i, mk, hid)
		if c == nil {
			continue
		}
		c.Class("keys/master=%s/hid=%#x", mk, hid)
		keysCase(c, mk, hid)
		c.End()
	}
}

// form is one serialisation of a point-valued key.
type form struct {
	name string
	data []byte
}

func pointForms(unc, masterPub []byte, pemType string) []form {
	cmp := ref.Compress(unc)
	fs := []form{
		{"raw/uncompressed", unc},
		{"raw/compressed", cmp},
		{"der/bitstring", ref.DERBitString(unc)},
		{"der/bitstring-compressed", ref.DERBitString(cmp)},
	}
	if masterPub != nil {
		fs = append(fs,
			form{"der/sequence", ref.DERSequence(ref.DERBitString(unc))},
			form{"der/sequence+masterpub", ref.DERSequence(ref.DERBitString(unc), ref.DERBitString(masterPub))},
			form{"der/sequence-compressed+masterpub", ref.DERSequence(ref.DERBitString(cmp), ref.DERBitString(ref.Compress(masterPub)))})
	} else {
		fs = append(fs, form{"der/sequence", ref.DERSequence(ref.DERBitString(unc))},
			form{"der/sequence-compressed", ref.DERSequence(ref.DERBitString(cmp))})
	}
	if pemType != "" {
		fs = append(fs, form{"pem", pem.EncodeToMemory(&pem.Block{Type: pemType, Bytes: ref.DERSequence(ref.DERBitString(unc))})})
	}
	return fs
}

func keysCase(c *mon.Case, mk string, hid byte) {
	uid := c.R.Bytes(c.R.Range(0, 200))
	msg := c.R.Bytes(c.R.Range(1, 100))
	rnd := script(c, "keys", nil)
	var err error

	// ---------------- signature side
	smk, ks := genSignMaster(c, mk)
	if smk == nil {
		return
	}
	spub := smk.PublicKey()
	var suk *sm9.SignPrivateKey
	if !c.Call("GenerateUserKey", func() { suk, err = smk.GenerateUserKey(uid, hid) }) || err != nil {
		return
	}
	var sig []byte
	if !c.Call("SignASN1", func() { sig, err = sm9.SignASN1(rnd, suk, msg) }) || err != nil {
		c.Fail("reject", "SignASN1: %v", err)
		return
	}
	// the compression convention of the reference equals the library's
	if p := g2From(spub.Bytes()[1:]); p != nil {
		c.Eq("G2 compressed form vs reference", p.MarshalCompressed(), ref.Compress(spub.Bytes()))
	}
	if p := g1From(suk.Bytes()[1:]); p != nil {
		c.Eq("G1 compressed form vs reference", p.MarshalCompressed(), ref.Compress(suk.Bytes()))
	}

	// master private key: INTEGER, and SEQUENCE{INTEGER, BIT STRING pub}
	var der []byte
	if c.Call("SignMasterPrivateKey.MarshalASN1", func() { der, err = smk.MarshalASN1() }) && err == nil {
		c.Eq("SignMasterPrivateKey.MarshalASN1 vs DER INTEGER", der, ref.DERInteger(ks))
		digest(c, "der/smk", der)
		for _, f := range []form{{"der/integer", der}, {"der/sequence+masterpub", ref.DERSequence(der, ref.DERBitString(spub.Bytes()))}} {
			var k2 *sm9.SignMasterPrivateKey
			if !c.Call("UnmarshalSignMasterPrivateKeyASN1("+f.name+")", func() { k2, err = sm9.UnmarshalSignMasterPrivateKeyASN1(f.data) }) {
				continue
			}
			c.Event("parsed/"+f.name, 1)
			if err != nil {
				c.Fail("reject", "UnmarshalSignMasterPrivateKeyASN1(%s %x): %v", f.name, f.data, err)
				continue
			}
			if !k2.Equal(smk) || !smk.Equal(k2) {
				c.Fail("mismatch", "parsed signature master key is not Equal to the original (%s)", f.name)
			}
			c.Eq("parsed signature master key bytes ("+f.name+")", k2.Bytes(), smk.Bytes())
			c.Eq("public key of the parsed signature master key ("+f.name+")", k2.PublicKey().Bytes(), spub.Bytes())
			// a user key derived from the parsed master key is the same key
			if u2, e := k2.GenerateUserKey(uid, hid); e != nil || !u2.Equal(suk) {
				c.Fail("mismatch", "parsed signature master key derives another user key (%s, %v)", f.name, e)
			}
		}
	}
	signMasterPubForms(c, spub, uid, hid, msg, sig)
	signUserForms(c, suk, spub, uid, hid, msg, rnd)
	// ---------------- encryption side
	emk, ke := genEncMaster(c, mk, false)
	if emk == nil {
		return
	}
	epub := emk.PublicKey()
	euk := genEncUser(c, emk, ke, uid, hid)
	if euk == nil {
		return
	}
	var wkey, wcip []byte
	if !c.Call("WrapKey", func() { wkey, wcip, err = sm9.WrapKey(rnd, epub, uid, hid, 48) }) || err != nil {
		c.Fail("reject", "WrapKey: %v", err)
		return
	}
	if c.Call("EncryptMasterPrivateKey.MarshalASN1", func() { der, err = emk.MarshalASN1() }) && err == nil {
		c.Eq("EncryptMasterPrivateKey.MarshalASN1 vs DER INTEGER", der, ref.DERInteger(ke))
		digest(c, "der/emk", der)
		for _, f := range []form{{"der/integer", der}, {"der/sequence+masterpub", ref.DERSequence(der, ref.DERBitString(epub.Bytes()))}} {
			var k2 *sm9.EncryptMasterPrivateKey
			if !c.Call("UnmarshalEncryptMasterPrivateKeyASN1("+f.name+")", func() { k2, err = sm9.UnmarshalEncryptMasterPrivateKeyASN1(f.data) }) {
				continue
			}
			c.Event("parsed/"+f.name, 1)
			if err != nil {
				c.Fail("reject", "UnmarshalEncryptMasterPrivateKeyASN1(%s %x): %v", f.name, f.data, err)
				continue
			}
			if !k2.Equal(emk) || !emk.Equal(k2) {
				c.Fail("mismatch", "parsed encryption master key is not Equal to the original (%s)", f.name)
			}
			c.Eq("parsed encryption master key bytes ("+f.name+")", k2.Bytes(), emk.Bytes())
			c.Eq("public key of the parsed encryption master key ("+f.name+")", k2.PublicKey().Bytes(), epub.Bytes())
			if u2, e := k2.GenerateUserKey(uid, hid); e != nil || !u2.Equal(euk) {
				c.Fail("mismatch", "parsed encryption master key derives another user key (%s, %v)", f.name, e)
			}
		}
	}
	encMasterPubForms(c, epub, euk, uid, hid, rnd)
	encUserForms(c, euk, epub, uid, wcip, wkey, 48)
}

// signMasterPubForms: the signature master public key in every encoding the package reads parses back to an
// equal key; keys parsed from two of the forms verify an honest signature sig of msg by (uid, hid).
func signMasterPubForms(c *mon.Case, spub *sm9.SignMasterPublicKey, uid []byte, hid byte, msg, sig []byte) {
	var der, cder []byte
	var err error
	// master public key
	if c.Call("SignMasterPublicKey.MarshalASN1", func() { der, err = spub.MarshalASN1() }) && err == nil {
		c.Eq("SignMasterPublicKey.MarshalASN1 vs DER BIT STRING", der, ref.DERBitString(spub.Bytes()))
		digest(c, "der/spub", der)
	}
	if c.Call("SignMasterPublicKey.MarshalCompressedASN1", func() { cder, err = spub.MarshalCompressedASN1() }) && err == nil {
		digest(c, "der/spub-compressed", cder)
		noteCompressed(c, "SignMasterPublicKey", cder, spub.Bytes())
	}
	for _, f := range append(pointForms(spub.Bytes(), nil, "SM9 SIGN MASTER PUBLIC KEY"), form{"MarshalCompressedASN1", cder}) {
		var p2 *sm9.SignMasterPublicKey
		call := func() {
			switch {
			case f.name == "pem":
				p2, err = sm9.ParseSignMasterPublicKeyPEM(f.data)
			case f.name[:3] == "raw":
				p2, err = sm9.UnmarshalSignMasterPublicKeyRaw(f.data)
			default:
				p2, err = sm9.UnmarshalSignMasterPublicKeyASN1(f.data)
			}
		}
		if !c.Call("parse SignMasterPublicKey "+f.name, call) {
			continue
		}
		c.Event("parsed/"+f.name, 1)
		if err != nil {
			c.Fail("reject", "SignMasterPublicKey %s %x is refused: %v", f.name, f.data, err)
			continue
		}
		if !p2.Equal(spub) {
			c.Fail("mismatch", "parsed SignMasterPublicKey (%s) is not Equal to the original", f.name)
		}
		c.Eq("parsed SignMasterPublicKey bytes ("+f.name+")", p2.Bytes(), spub.Bytes())
		if f.name == "raw/compressed" || f.name == "pem" {
			var ok bool
			if c.Call("VerifyASN1(parsed key)", func() { ok = sm9.VerifyASN1(p2, uid, hid, msg, sig) }) && !ok {
				c.Fail("reject", "SignMasterPublicKey parsed from %s refuses an honest signature", f.name)
			}
		}
	}
}

// signUserForms: the signature user key in every encoding parses back to an equal key; the forms that carry the
// master public key give a key that signs.
func signUserForms(c *mon.Case, suk *sm9.SignPrivateKey, spub *sm9.SignMasterPublicKey, uid []byte, hid byte, msg []byte, rnd *mon.Script) {
	var der, cder []byte
	var err error
	if c.Call("SignPrivateKey.MarshalASN1", func() { der, err = suk.MarshalASN1() }) && err == nil {
		c.Eq("SignPrivateKey.MarshalASN1 vs DER BIT STRING", der, ref.DERBitString(suk.Bytes()))
		digest(c, "der/suk", der)
	}
	if c.Call("SignPrivateKey.MarshalCompressedASN1", func() { cder, err = suk.MarshalCompressedASN1() }) && err == nil {
		digest(c, "der/suk-compressed", cder)
		noteCompressed(c, "SignPrivateKey", cder, suk.Bytes())
	}
	for _, f := range append(pointForms(suk.Bytes(), spub.Bytes(), ""), form{"MarshalCompressedASN1", cder}) {
		var u2 *sm9.SignPrivateKey
		call := func() {
			if f.name[:3] == "raw" {
				u2, err = sm9.UnmarshalSignPrivateKeyRaw(f.data)
			} else {
				u2, err = sm9.UnmarshalSignPrivateKeyASN1(f.data)
			}
		}
		if !c.Call("parse SignPrivateKey "+f.name, call) {
			continue
		}
		c.Event("parsed/"+f.name, 1)
		if err != nil {
			c.Fail("reject", "SignPrivateKey %s %x is refused: %v", f.name, f.data, err)
			continue
		}
		if !u2.Equal(suk) {
			c.Fail("mismatch", "parsed SignPrivateKey (%s) is not Equal to the original", f.name)
		}
		c.Eq("parsed SignPrivateKey bytes ("+f.name+")", u2.Bytes(), suk.Bytes())
		if f.name == "der/sequence+masterpub" || f.name == "der/sequence-compressed+masterpub" {
			// the master public key travelled along: the parsed key can sign
			c.Eq("master public key carried with the SignPrivateKey ("+f.name+")", u2.MasterPublic().Bytes(), spub.Bytes())
			var s2 []byte
			var ok bool
			if c.Call("SignASN1(parsed key)", func() { s2, err = sm9.SignASN1(rnd, u2, msg) }) {
				if err != nil {
					c.Fail("reject", "SignASN1 with a parsed key: %v", err)
				} else if c.Call("VerifyASN1", func() { ok = sm9.VerifyASN1(spub, uid, hid, msg, s2) }) && !ok {
					c.Fail("reject", "signature by a SignPrivateKey parsed from %s does not verify", f.name)
				} else {
					digest(c, "sig-by-parsed-key/"+f.name, s2)
				}
			}
		}
	}
}

// encMasterPubForms: the encryption master public key in every encoding parses back to an equal key; keys parsed
// from two of the forms wrap a key that euk, the user key of (uid, hid), unwraps.
func encMasterPubForms(c *mon.Case, epub *sm9.EncryptMasterPublicKey, euk *sm9.EncryptPrivateKey, uid []byte, hid byte, rnd *mon.Script) {
	var der, cder []byte
	var err error
	if c.Call("EncryptMasterPublicKey.MarshalASN1", func() { der, err = epub.MarshalASN1() }) && err == nil {
		c.Eq("EncryptMasterPublicKey.MarshalASN1 vs DER BIT STRING", der, ref.DERBitString(epub.Bytes()))
		digest(c, "der/epub", der)
	}
	if c.Call("EncryptMasterPublicKey.MarshalCompressedASN1", func() { cder, err = epub.MarshalCompressedASN1() }) && err == nil {
		digest(c, "der/epub-compressed", cder)
		noteCompressed(c, "EncryptMasterPublicKey", cder, epub.Bytes())
	}
	for _, f := range append(pointForms(epub.Bytes(), nil, "SM9 ENC MASTER PUBLIC KEY"), form{"MarshalCompressedASN1", cder}) {
		var p2 *sm9.EncryptMasterPublicKey
		call := func() {
			switch {
			case f.name == "pem":
				p2, err = sm9.ParseEncryptMasterPublicKeyPEM(f.data)
			case f.name[:3] == "raw":
				p2, err = sm9.UnmarshalEncryptMasterPublicKeyRaw(f.data)
			default:
				p2, err = sm9.UnmarshalEncryptMasterPublicKeyASN1(f.data)
			}
		}
		if !c.Call("parse EncryptMasterPublicKey "+f.name, call) {
			continue
		}
		c.Event("parsed/"+f.name, 1)
		if err != nil {
			c.Fail("reject", "EncryptMasterPublicKey %s %x is refused: %v", f.name, f.data, err)
			continue
		}
		if !p2.Equal(epub) {
			c.Fail("mismatch", "parsed EncryptMasterPublicKey (%s) is not Equal to the original", f.name)
		}
		c.Eq("parsed EncryptMasterPublicKey bytes ("+f.name+")", p2.Bytes(), epub.Bytes())
		if f.name == "raw/compressed" || f.name == "pem" {
			// wrap with the parsed (cold) key, unwrap with the original user key
			var k, ci, back []byte
			if c.Call("WrapKey(parsed key)", func() { k, ci, err = sm9.WrapKey(rnd, p2, uid, hid, 100) }) && err == nil {
				if c.Call("UnwrapKey", func() { back, err = sm9.UnwrapKey(euk, uid, ci, 100) }) {
					if err != nil || !bytes.Equal(back, k) {
						c.Fail("mismatch", "key wrapped under an EncryptMasterPublicKey parsed from %s does not unwrap (%v)", f.name, err)
					}
					digest(c, "wrap-by-parsed-key/"+f.name, k, ci)
				}
			}
		}
	}
}

// encUserForms: the encryption user key in every encoding parses back to an equal key; keys parsed from two of
// the forms unwrap wcip to wkey (klen bytes).
func encUserForms(c *mon.Case, euk *sm9.EncryptPrivateKey, epub *sm9.EncryptMasterPublicKey, uid, wcip, wkey []byte, klen int) {
	var der, cder []byte
	var err error
	if c.Call("EncryptPrivateKey.MarshalASN1", func() { der, err = euk.MarshalASN1() }) && err == nil {
		c.Eq("EncryptPrivateKey.MarshalASN1 vs DER BIT STRING", der, ref.DERBitString(euk.Bytes()))
		digest(c, "der/euk", der)
	}
	if c.Call("EncryptPrivateKey.MarshalCompressedASN1", func() { cder, err = euk.MarshalCompressedASN1() }) && err == nil {
		digest(c, "der/euk-compressed", cder)
		noteCompressed(c, "EncryptPrivateKey", cder, euk.Bytes())
	}
	for _, f := range append(pointForms(euk.Bytes(), epub.Bytes(), ""), form{"MarshalCompressedASN1", cder}) {
		var u2 *sm9.EncryptPrivateKey
		call := func() {
			if f.name[:3] == "raw" {
				u2, err = sm9.UnmarshalEncryptPrivateKeyRaw(f.data)
			} else {
				u2, err = sm9.UnmarshalEncryptPrivateKeyASN1(f.data)
			}
		}
		if !c.Call("parse EncryptPrivateKey "+f.name, call) {
			continue
		}
		c.Event("parsed/"+f.name, 1)
		if err != nil {
			c.Fail("reject", "EncryptPrivateKey %s %x is refused: %v", f.name, f.data, err)
			continue
		}
		if !u2.Equal(euk) {
			c.Fail("mismatch", "parsed EncryptPrivateKey (%s) is not Equal to the original", f.name)
		}
		c.Eq("parsed EncryptPrivateKey bytes ("+f.name+")", u2.Bytes(), euk.Bytes())
		if f.name == "raw/compressed" || f.name == "der/sequence-compressed+masterpub" {
			var back []byte
			if c.Call("UnwrapKey(parsed key)", func() { back, err = sm9.UnwrapKey(u2, uid, wcip, klen) }) {
				if err != nil || !bytes.Equal(back, wkey) {
					c.Fail("mismatch", "EncryptPrivateKey parsed from %s does not unwrap (%v)", f.name, err)
				}
			}
		}
		if f.name == "der/sequence-compressed+masterpub" {
			c.Eq("master public key carried with the EncryptPrivateKey", u2.MasterPublic().Bytes(), epub.Bytes())
		}
	}
}

// noteCompressed records which point form MarshalCompressedASN1 emits (the
// property only demands that it parses back to the same key, decided by the caller).
func noteCompressed(c *mon.Case, typ string, der, unc []byte) {
	switch {
	case bytes.Equal(der, ref.DERBitString(ref.Compress(unc))):
		c.Event("MarshalCompressedASN1_emits_compressed_point", 1)
	case bytes.Equal(der, ref.DERBitString(unc)):
		c.Event("MarshalCompressedASN1_emits_UNcompressed_point", 1)
	default:
		c.Fail("mismatch", "%s.MarshalCompressedASN1 = %x is neither the compressed nor the uncompressed BIT STRING", typ, der)
	}
}
