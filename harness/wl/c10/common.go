// Package c10 decides property C10 (SM9 sign, wrap, encrypt and key exchange are
// complete, sound and portable) by executing the real github.com/emmansun/gmsm/sm9
// API on generated inputs with every random byte scripted, and observing it with
//
//   - round-trip and soundness laws (honest artefacts accepted, altered ones refused),
//   - a reference model (verifh/ref/sm9: H1, H2, KDF, MAC, the five symmetric modes,
//     confirmation hashes, DER formats, naive G1) fed with pairing values taken from
//     the library's own bn256 package through the verif hook, so that a KDF or hash
//     that is wrong but self-consistent is caught inside one build,
//   - digests of every output of the deterministic transcript, which the driver
//     compares across all dispatch configurations and the pure-Go build.
package c10

import (
	"bytes"
	"crypto/sha256"
	"encoding/binary"
	"fmt"
	"math/big"

	"github.com/emmansun/gmsm/sm9"
	hk "github.com/emmansun/gmsm/verifhook"

	"verifh/mon"
	ref "verifh/ref/sm9"
	"verifh/wl/reg"
)

func init() {
	reg.Register("c10.transcript", "C10", transcript)
	reg.Register("c10.keys", "C10", keys)
	reg.Register("c10.sound", "C10", sound)
}

var hids = []byte{1, 2, 3, 0xFF}

// selfTest validates the reference model before any verdict is produced.
func selfTest(x *mon.Ctx) {
	if err := ref.SelfTest(); err != nil {
		x.HarnessError("%v", err)
	}
	// the hook's generators must be the standard's: ties the hook to the reference G1
	if !bytes.Equal(hk.Gen1.Marshal(), ref.P1.Bytes()) {
		x.HarnessError("verifhook.Gen1 is not the P1 of the reference model")
	}
}

// digest publishes sha256 over the length-prefixed parts under "<case>/<step>".
func digest(c *mon.Case, step string, parts ...[]byte) {
	h := sha256.New()
	for _, p := range parts {
		var l [4]byte
		binary.BigEndian.PutUint32(l[:], uint32(len(p)))
		h.Write(l[:])
		h.Write(p)
	}
	c.Digest(fmt.Sprintf("%d/%s", c.N, step), h.Sum(nil))
	c.Event("transcript_steps", 1)
}

// script returns a scripted random source: prefix first, then an endless
// deterministic tail derived from the case generator.
func script(c *mon.Case, label string, prefix []byte) *mon.Script {
	s := mon.NewScript(prefix)
	s.Tail = mon.NewRand(c.R.Uint64(), label)
	return s
}

func blockClass(klen int) string {
	switch b := (klen + 31) / 32; {
	case b <= 3:
		return "1-3"
	case b <= 7:
		return "4-7"
	}
	return ">=8"
}

// pickKLen draws a key length whose KDF block count falls in class k (0: 1-3
// blocks, 1: 4-7 blocks, 2: >= 8 blocks), favouring the class boundaries.
func pickKLen(r *mon.Rand, k int) int {
	lo, hi := [3]int{1, 97, 225}[k], [3]int{96, 224, 300}[k]
	switch r.Intn(4) {
	case 0:
		return lo + r.Intn(3)
	case 1:
		return hi - r.Intn(3)
	}
	return r.Range(lo, hi)
}

// masterKinds are the structured master scalars the random stream is scripted to
// deliver (the generators read 32 bytes and flip bits 0x42 of byte 1).
var masterKinds = []string{"random", "one", "two", "n-2", "pow2", "runs", "retry-n-1", "retry-zero", "retry-ff"}

func masterStream(r *mon.Rand, kind string) (stream []byte, want *big.Int) {
	enc := func(v *big.Int) []byte {
		b := ref.Bytes32(v)
		b[1] ^= 0x42
		return b
	}
	nm2 := new(big.Int).Sub(ref.N, big.NewInt(2))
	rnd := func() *big.Int { return new(big.Int).Add(r.BigBelow(nm2), big.NewInt(1)) } // 1..n-2
	switch kind {
	case "one":
		want = big.NewInt(1)
	case "two":
		want = big.NewInt(2)
	case "n-2":
		want = nm2
	case "pow2":
		want = new(big.Int).Lsh(big.NewInt(1), uint(r.Intn(255)))
	case "runs":
		b := make([]byte, 32)
		for i := range b {
			b[i] = []byte{0x00, 0xff}[(i/(1+r.Intn(8)))&1]
		}
		b[0] &= 0x7f
		want = new(big.Int).SetBytes(b)
		if want.Sign() == 0 || want.Cmp(nm2) > 0 {
			want = rnd()
		}
	case "retry-n-1":
		want = rnd()
		return append(enc(new(big.Int).Sub(ref.N, big.NewInt(1))), enc(want)...), want
	case "retry-zero":
		want = rnd()
		return append(enc(big.NewInt(0)), enc(want)...), want
	case "retry-ff":
		want = rnd()
		return append(enc(new(big.Int).Sub(new(big.Int).Lsh(big.NewInt(1), 256), big.NewInt(1))), enc(want)...), want
	default:
		return nil, nil
	}
	return enc(want), want
}

// ---- model pieces that need group or pairing values (taken from the library's
// bn256 package through the hook; its arithmetic is decided by property C09)

func g1From(b []byte) *hk.G1 { // b = x||y
	p := new(hk.G1)
	if _, err := p.Unmarshal(b); err != nil {
		return nil
	}
	return p
}

func g2From(b []byte) *hk.G2 { // b = 128 bytes
	p := new(hk.G2)
	if _, err := p.Unmarshal(b); err != nil {
		return nil
	}
	return p
}

// g2BaseMul returns 04 || [k]P2.
func g2BaseMul(k *big.Int) []byte {
	p, err := new(hk.G2).ScalarBaseMult(ref.Bytes32(k))
	if err != nil {
		return nil
	}
	return p.MarshalUncompressed()
}

// g1BaseMul returns 04 || [k]P1 computed by the library's G1.
func g1BaseMul(k *big.Int) []byte {
	p, err := new(hk.G1).ScalarBaseMult(ref.Bytes32(k))
	if err != nil {
		return nil
	}
	return p.MarshalUncompressed()
}

// encUserPublic returns QB = [H1(ID||hid)]P1 + Ppub-e with the reference H1 and
// the library's G1 (ref.EncUserPublic is the fully independent, slow version).
func encUserPublic(ppub, uid []byte, hid byte) *hk.G1 {
	pp := g1From(ppub)
	q, err := new(hk.G1).ScalarBaseMult(ref.H1(append(append([]byte{}, uid...), hid)))
	if pp == nil || err != nil {
		return nil
	}
	return q.Add(q, pp)
}

// modelW returns the 384-byte encoding of e(C, de) for C = x||y and de = 128 bytes.
func modelW(c, de []byte) []byte {
	p, q := g1From(c), g2From(de)
	if p == nil || q == nil {
		return nil
	}
	return hk.Pair(p, q).Marshal()
}

// hk2GT returns e(C, de) as a GT element.
func hk2GT(c, de []byte) *hk.GT {
	p, q := g1From(c), g2From(de)
	if p == nil || q == nil {
		return nil
	}
	return hk.Pair(p, q)
}

// newGTExp returns the encoding of g^k (square-and-multiply over big.Int exponents,
// not the windowed table code the schemes use).
func newGTExp(g *hk.GT, k *big.Int) []byte { return new(hk.GT).ScalarMult(g, k).Marshal() }

// modelVerify is the verification algorithm of GM/T 0044.2 7.1 with the
// reference H1/H2: h in [1,N-1], S in G1, t = g^h, P = [H1(ID||hid)]P2 + Ppub-s,
// w' = e(S,P) * t, accept iff H2(M||w') = h. ppub is 128 bytes, s is x||y.
func modelVerify(ppub, uid []byte, hid byte, msg, h, s []byte) bool {
	hv := new(big.Int).SetBytes(h)
	if hv.Sign() == 0 || hv.Cmp(ref.N) >= 0 || !ref.OnCurveG1(s) {
		return false
	}
	pp, sp := g2From(ppub), g1From(s)
	if pp == nil || sp == nil {
		return false
	}
	g := hk.Pair(hk.Gen1, pp)
	t := new(hk.GT).ScalarMult(g, hv)
	hp, err := new(hk.G2).ScalarBaseMult(ref.H1(append(append([]byte{}, uid...), hid)))
	if err != nil {
		return false
	}
	hp.Add(hp, pp)
	w := new(hk.GT).Add(hk.Pair(sp, hp), t)
	return bytes.Equal(ref.H2(ref.Cat(msg, w.Marshal())), ref.Bytes32(hv))
}

// optsOf maps a reference mode to the library's option value.
func optsOf(m ref.Mode) sm9.EncrypterOpts {
	switch m {
	case ref.ECB:
		return sm9.SM4ECBEncrypterOpts
	case ref.CBC:
		return sm9.SM4CBCEncrypterOpts
	case ref.CFB:
		return sm9.SM4CFBEncrypterOpts
	case ref.OFB:
		return sm9.SM4OFBEncrypterOpts
	}
	return sm9.DefaultEncrypterOpts
}

// splitCipher splits a ciphertext produced by the library into C1 (x||y), C3, C2
// with the reference parser; for the ASN.1 form it also checks that re-encoding
// the fields gives the same bytes (serialise . parse = identity).
func splitCipher(c *mon.Case, m ref.Mode, asn1 bool, ct []byte) (c1, c3, c2 []byte, ok bool) {
	if !asn1 {
		if len(ct) <= 96 {
			c.Fail("mismatch", "raw ciphertext of %d bytes is shorter than C1||C3||C2 with a non-empty C2", len(ct))
			return nil, nil, nil, false
		}
		return ct[:64], ct[64:96], ct[96:], true
	}
	ty, b1, c3, c2, err := ref.ParseCipher(ct)
	if err != nil {
		c.Fail("mismatch", "EncryptASN1 output is not a DER SM9Cipher: %x", ct)
		return nil, nil, nil, false
	}
	if !ty.IsInt64() || ty.Int64() != int64(m) || len(b1) != 65 || b1[0] != 4 || len(c3) != 32 {
		c.Fail("mismatch", "SM9Cipher fields: enType=%v (want %d) len(c1)=%d len(c3)=%d", ty, int(m), len(b1), len(c3))
		return nil, nil, nil, false
	}
	c.Eq("SM9Cipher re-encoded by the reference", ct, ref.EncodeCipher(m, b1, c3, c2))
	return b1[1:], c3, c2, true
}

// checkCipher decides one honest ciphertext against the reference model.
func checkCipher(c *mon.Case, m ref.Mode, asn1 bool, ct, de, uid, msg []byte) {
	c1, c3, c2, ok := splitCipher(c, m, asn1, ct)
	if !ok {
		return
	}
	want := len(msg)
	if m == ref.ECB || m == ref.CBC {
		want = len(msg)/16*16 + 16
	}
	if m.HasIV() {
		want += 16
	}
	if len(c2) != want {
		c.Fail("mismatch", "%v: len(C2) = %d want %d for a %d-byte message", m, len(c2), want, len(msg))
	}
	if !ref.OnCurveG1(c1) {
		c.Fail("mismatch", "%v: C1 %x is not a point of G1", m, c1)
		return
	}
	w := modelW(c1, de)
	got, ok, k1zero := ref.Open(m, c1, c3, c2, w, uid)
	c.Event("model_decryptions", 1)
	if k1zero {
		c.Event("k1_all_zero_ciphertexts", 1)
	}
	if !ok {
		c.Fail("mismatch", "%v: reference decryption (KDF(C1||w||ID), C3 = SM3(C2||K2), mode) refuses the library's ciphertext %x", m, ct)
		return
	}
	c.Eq(fmt.Sprintf("reference decryption of the %v ciphertext", m), got, msg)
}

// flipped returns b with one bit changed (or one byte appended when b is empty).
func flipped(b []byte, r *mon.Rand) []byte {
	if len(b) == 0 {
		return []byte{byte(r.Intn(256))}
	}
	o := append([]byte{}, b...)
	o[r.Intn(len(o))] ^= 1 << uint(r.Intn(8))
	return o
}

func otherHid(h byte) byte {
	if h == 1 {
		return 2
	}
	return h - 1
}
