package c10

import (
	"bytes"
	"fmt"
	"math/big"

	"github.com/emmansun/gmsm/sm9"
	hk "github.com/emmansun/gmsm/verifhook"

	"verifh/mon"
	ref "verifh/ref/sm9"
)

// transcript runs deterministic SM9 sessions (all randomness scripted from the
// case generator, hence identical in every configuration), checks the laws and the
// reference model inside the child and publishes a digest of every output.
//
// Four case kinds per index i (uid length = i mod 201, so every length 0..200 and
// every residue mod 64 appears in each kind):
//
//	sign: master key, user key, SignASN1 / Sign / priv.Sign, all verifiers
//	wrap: master key, user key, WrapKey / pub.WrapKey / WrapKeyASN1 in the three KDF block classes
//	enc:  Encrypt / EncryptASN1 in the five modes, every decrypt entry point
//	kex:  both roles of the key exchange with and without confirmation
func transcript(x *mon.Ctx) {
	selfTest(x)
	reps := x.Scale(1, 12)
	for rep := 0; rep < reps; rep++ {
		for i := 0; i <= 200; i++ {
			hid := hids[(i+rep)%4]
			mk := masterKinds[(i/4+rep)%len(masterKinds)]
			// quick: sign and kex sessions for every second uid length (wrap and enc, whose KDF
			// input alignment is len(uid) mod 64, for every length); thorough: all, eight times
			half := x.Thorough() || i%2 == 0
			if half {
				if c := x.Begin("sign rep=%d uidlen=%d hid=%#x master=%s", rep, i, hid, mk); c != nil {
					signCase(c, i, hid, mk, rep)
					c.End()
				}
			}
			mk = masterKinds[(i/4+rep+3)%len(masterKinds)]
			if c := x.Begin("wrap rep=%d uidlen=%d hid=%#x master=%s", rep, i, hid, mk); c != nil {
				wrapCase(c, i, hid, mk, rep)
				c.End()
			}
			if c := x.Begin("enc rep=%d uidlen=%d hid=%#x (five modes, raw/ASN.1 alternating)", rep, i, hid); c != nil {
				encCase(c, x, i, hid, rep)
				c.End()
			}
			lb := (i*37 + 11 + rep*53) % 201
			kc := (i + rep) % 3
			if half {
				confirm := (i/2+rep/3)%2 == 0
				if c := x.Begin("kex rep=%d uidlenA=%d uidlenB=%d hid=%#x klen-class=%d confirm=%v", rep, i, lb, hid, kc, confirm); c != nil {
					kexCase(c, i, lb, hid, kc, confirm)
					c.End()
				}
			}
		}
	}
	histories(x)
}

// histories appends the reuse histories and the structured-value cases to the
// transcript (their outputs are digested and compared across configurations too).
func histories(x *mon.Ctx) {
	nk := x.Scale(36, 720) // 6 histories x Destroy yes/no x confirmation (2 of 3 with)
	for j := 0; j < nk; j++ {
		la, lb, hid := (j*29+3)%201, (j*53+60)%201, hids[j%4]
		if c := x.Begin("kexreuse #%d history=%s uidlenA=%d uidlenB=%d hid=%#x", j, kexHistories[j%len(kexHistories)], la, lb, hid); c != nil {
			kexReuseCase(c, j, la, lb, hid)
			c.End()
		}
	}
	no := x.Scale(12, 240)
	for j := 0; j < no; j++ {
		if c := x.Begin("objreuse #%d: one master public key, one set of option objects, one DecrypterOptsWithUID per user, changing uid/hid/mode/length", j); c != nil {
			objReuseCase(c, j, hids[j%4])
			c.End()
		}
	}
	sets := x.Scale(1, 8)
	for set := 0; set < sets; set++ {
		for _, sh := range sigShapes {
			if c := x.Begin("shape set=%d signature with %s (reference search over messages, then every sign/verify entry point)", set, sh); c != nil {
				sigShapeCase(c, set, sh)
				c.End()
			}
		}
		for coord := 0; coord < 2; coord++ {
			if c := x.Begin("shape set=%d C1 with a leading zero byte in coordinate %d (wrap and encrypt, raw and ASN.1)", set, coord); c != nil {
				c1ShapeCase(c, set, coord)
				c.End()
			}
		}
	}
}

func inRange(c *mon.Case, what string, ks []byte) *big.Int {
	v := new(big.Int).SetBytes(ks)
	if len(ks) != 32 || v.Sign() == 0 || v.Cmp(ref.N) >= 0 {
		c.Fail("mismatch", "%s master scalar %x is not a 32-byte value in [1, N-1]", what, ks)
		return nil
	}
	return v
}

// genSignMaster generates the signature master key from a scripted stream and
// checks Ppub-s = [ks]P2.
func genSignMaster(c *mon.Case, kind string) (*sm9.SignMasterPrivateKey, *big.Int) {
	stream, want := masterStream(c.R, kind)
	var smk *sm9.SignMasterPrivateKey
	var err error
	if !c.Call("GenerateSignMasterKey", func() { smk, err = sm9.GenerateSignMasterKey(script(c, "smk", stream)) }) {
		return nil, nil
	}
	if err != nil {
		c.Fail("reject", "GenerateSignMasterKey failed on a working random source: %v", err)
		return nil, nil
	}
	ks := inRange(c, "signature", smk.Bytes())
	if ks == nil {
		return nil, nil
	}
	if want != nil && ks.Cmp(want) == 0 {
		c.Event("master_scalar_as_scripted", 1)
	}
	c.Eq("signature master public key vs [ks]P2", smk.PublicKey().Bytes(), g2BaseMul(ks))
	return smk, ks
}

// genEncMaster generates the encryption master key and checks Ppub-e = [ke]P1:
// with the naive reference G1 (6 ms) when indep is set, else with the library's
// own G1 through the hook.
func genEncMaster(c *mon.Case, kind string, indep bool) (*sm9.EncryptMasterPrivateKey, *big.Int) {
	stream, want := masterStream(c.R, kind)
	var emk *sm9.EncryptMasterPrivateKey
	var err error
	if !c.Call("GenerateEncryptMasterKey", func() { emk, err = sm9.GenerateEncryptMasterKey(script(c, "emk", stream)) }) {
		return nil, nil
	}
	if err != nil {
		c.Fail("reject", "GenerateEncryptMasterKey failed on a working random source: %v", err)
		return nil, nil
	}
	ke := inRange(c, "encryption", emk.Bytes())
	if ke == nil {
		return nil, nil
	}
	if want != nil && ke.Cmp(want) == 0 {
		c.Event("master_scalar_as_scripted", 1)
	}
	if indep {
		c.Eq("encryption master public key vs reference [ke]P1", emk.PublicKey().Bytes(), append([]byte{4}, ref.G1Mul(ke, ref.P1).Bytes()...))
	} else {
		c.Eq("encryption master public key vs [ke]P1", emk.PublicKey().Bytes(), g1BaseMul(ke))
	}
	return emk, ke
}

// genEncUser derives a user's encryption key and checks de = [ke/(H1(ID||hid)+ke)]P2.
func genEncUser(c *mon.Case, emk *sm9.EncryptMasterPrivateKey, ke *big.Int, uid []byte, hid byte) *sm9.EncryptPrivateKey {
	var euk *sm9.EncryptPrivateKey
	var err error
	if !c.Call("EncryptMasterPrivateKey.GenerateUserKey", func() { euk, err = emk.GenerateUserKey(uid, hid) }) {
		return nil
	}
	t2, ok := ref.UserScalar(ke, uid, hid)
	if !ok {
		if err == nil {
			c.Fail("accept", "GenerateUserKey succeeded although H1(ID||hid)+ke = 0 mod N")
		}
		return nil
	}
	if err != nil {
		c.Fail("reject", "GenerateUserKey: %v", err)
		return nil
	}
	c.Eq("encryption user key vs [t2]P2 with the reference H1", euk.Bytes(), g2BaseMul(t2))
	return euk
}

func msgTail(n int) string { // does hashing n bytes need an extra padding block?
	if n%64 < 56 {
		return "pad1"
	}
	return "pad2"
}

func signCase(c *mon.Case, uidLen int, hid byte, mk string, rep int) {
	uid := c.R.Bytes(uidLen)
	msgLen := c.R.Range(1, 300)
	msg := c.R.Bytes(msgLen)
	c.Class("sign/uid%%64=%d/hid=%#x/H2tail=%s/master=%s", uidLen%64, hid, msgTail(1+msgLen+384+4), mk)

	smk, ks := genSignMaster(c, mk)
	if smk == nil {
		return
	}
	pub := smk.PublicKey()
	digest(c, "smk", smk.Bytes(), pub.Bytes())

	var suk *sm9.SignPrivateKey
	var err error
	if !c.Call("SignMasterPrivateKey.GenerateUserKey", func() { suk, err = smk.GenerateUserKey(uid, hid) }) {
		return
	}
	t2, ok := ref.UserScalar(ks, uid, hid)
	if !ok || err != nil {
		if ok {
			c.Fail("reject", "GenerateUserKey: %v", err)
		}
		return
	}
	c.Eq("signature user key vs reference [t2]P1 (reference H1 and G1)", suk.Bytes(), append([]byte{4}, ref.G1Mul(t2, ref.P1).Bytes()...))
	digest(c, "suk", suk.Bytes())

	// three signing entry points on one continuing random stream
	rnd := script(c, "sign", nil)
	var sig1, sig2, s3 []byte
	var h3 *big.Int
	if !c.Call("SignASN1", func() { sig1, err = sm9.SignASN1(rnd, suk, msg) }) || err != nil {
		if err != nil {
			c.Fail("reject", "SignASN1: %v", err)
		}
		return
	}
	digest(c, "sig/SignASN1", sig1)
	h1, s1, perr := ref.ParseSignature(sig1)
	if perr != nil || len(h1) != 32 || len(s1) != 65 || s1[0] != 4 {
		c.Fail("mismatch", "SignASN1 output is not SEQUENCE{OCTET STRING(32), BIT STRING(04||x||y)}: %x", sig1)
		return
	}
	c.Eq("SM9Signature re-encoded by the reference", sig1, ref.EncodeSignature(h1, s1))
	if !modelVerify(pub.Bytes()[1:], uid, hid, msg, h1, s1[1:]) {
		c.Fail("mismatch", "reference verification (H1, H2 of ref/sm9; pairing through the hook) refuses the library's signature %x", sig1)
	}
	c.Event("model_verifications", 1)
	var okv bool
	if c.Call("VerifyASN1", func() { okv = sm9.VerifyASN1(pub, uid, hid, msg, sig1) }) && !okv {
		c.Fail("reject", "VerifyASN1 refuses the signature just produced")
	}
	if c.Call("SignMasterPublicKey.Verify", func() { okv = pub.Verify(uid, hid, msg, sig1) }) && !okv {
		c.Fail("reject", "pub.Verify refuses the signature just produced")
	}
	if c.Call("Verify(h,S)", func() { okv = sm9.Verify(pub, uid, hid, msg, new(big.Int).SetBytes(h1), s1) }) && !okv {
		c.Fail("reject", "Verify(h, S) refuses the components of the ASN.1 signature")
	}
	c.Event("honest_verified", 3)
	if rep%2 == 0 {
		if c.Call("priv.Sign", func() { sig2, err = suk.Sign(rnd, msg, nil) }) && err == nil {
			digest(c, "sig/priv.Sign", sig2)
			if c.Call("VerifyASN1", func() { okv = sm9.VerifyASN1(pub, uid, hid, msg, sig2) }) && !okv {
				c.Fail("reject", "VerifyASN1 refuses the output of priv.Sign")
			}
			c.Event("honest_verified", 1)
		} else if err != nil {
			c.Fail("reject", "priv.Sign: %v", err)
		}
	} else {
		if c.Call("Sign(h,S)", func() { h3, s3, err = sm9.Sign(rnd, suk, msg) }) && err == nil {
			digest(c, "sig/Sign", h3.Bytes(), s3)
			if c.Call("Verify(h,S)", func() { okv = sm9.Verify(pub, uid, hid, msg, h3, s3) }) && !okv {
				c.Fail("reject", "Verify refuses the output of Sign")
			}
			if c.Call("VerifyASN1", func() { okv = sm9.VerifyASN1(pub, uid, hid, msg, ref.EncodeSignature(ref.Bytes32(h3), s3)) }) && !okv {
				c.Fail("reject", "VerifyASN1 refuses the reference encoding of Sign's (h, S)")
			}
			c.Event("honest_verified", 2)
		} else if err != nil {
			c.Fail("reject", "Sign: %v", err)
		}
	}
	// wrong identity, hid, message
	wrongs := []struct {
		what string
		uid  []byte
		hid  byte
		msg  []byte
	}{
		{"another uid", flipped(uid, c.R), hid, msg},
		{"another hid", uid, otherHid(hid), msg},
		{"another message", uid, hid, flipped(msg, c.R)},
	}
	if rep%2 == 1 {
		wrongs[0].uid = append(append([]byte{}, uid...), 0)
		wrongs[2].msg = msg[:len(msg)-1]
	}
	// another hid always; another uid or another message alternately (the sound
	// workload presents many more wrong contexts)
	wrongs = []struct {
		what string
		uid  []byte
		hid  byte
		msg  []byte
	}{wrongs[1], wrongs[2*((uidLen/2+rep)%2)]}
	for _, w := range wrongs {
		if c.Call("VerifyASN1("+w.what+")", func() { okv = sm9.VerifyASN1(pub, w.uid, w.hid, w.msg, sig1) }) {
			if okv {
				c.Fail("accept", "VerifyASN1 accepts the signature for %s (uid %x hid %#x msg %x)", w.what, w.uid, w.hid, w.msg)
			} else {
				c.Event("wrong_context_refused", 1)
			}
		}
	}
}

func wrapCase(c *mon.Case, uidLen int, hid byte, mk string, rep int) {
	uid := c.R.Bytes(uidLen)
	emk, ke := genEncMaster(c, mk, true)
	if emk == nil {
		return
	}
	pub := emk.PublicKey()
	digest(c, "emk", emk.Bytes(), pub.Bytes())
	euk := genEncUser(c, emk, ke, uid, hid)
	if euk == nil {
		return
	}
	digest(c, "euk", euk.Bytes())
	de := euk.Bytes()[1:]
	rnd := script(c, "wrap", nil)
	for k := 0; k < 3; k++ {
		klen := pickKLen(c.R, k)
		api := (k + uidLen + rep) % 3
		c.Class("wrap/uid%%64=%d/kdf-blocks=%s/api=%d", uidLen%64, blockClass(klen), api)
		var key, cip, raw, got []byte
		var err error
		switch api {
		case 0: // raw: 04||x||y
			if !c.Call("WrapKey", func() { key, cip, err = sm9.WrapKey(rnd, pub, uid, hid, klen) }) {
				continue
			}
			raw = cip
		case 1: // SM9PublicKey1: BIT STRING
			if !c.Call("pub.WrapKey", func() { key, cip, err = pub.WrapKey(rnd, uid, hid, klen) }) {
				continue
			}
			if err == nil {
				var perr error
				if raw, perr = ref.ParseBitString(cip); perr != nil {
					c.Fail("mismatch", "pub.WrapKey cipher is not a DER BIT STRING: %x", cip)
					continue
				}
				c.Eq("SM9PublicKey1 re-encoded by the reference", cip, ref.DERBitString(raw))
			}
		case 2: // SM9KeyPackage
			if !c.Call("pub.WrapKeyASN1", func() { cip, err = pub.WrapKeyASN1(rnd, uid, hid, klen) }) {
				continue
			}
			if err == nil {
				var perr error
				if key, raw, perr = ref.ParseKeyPackage(cip); perr != nil {
					c.Fail("mismatch", "WrapKeyASN1 output is not a DER SM9KeyPackage: %x", cip)
					continue
				}
				c.Eq("SM9KeyPackage re-encoded by the reference", cip, ref.EncodeKeyPackage(key, raw))
				var k2, c2 []byte
				if c.Call("UnmarshalSM9KeyPackage", func() { k2, c2, err = sm9.UnmarshalSM9KeyPackage(cip) }) {
					if err != nil || !bytes.Equal(k2, key) || !bytes.Equal(c2, raw) {
						c.Fail("mismatch", "UnmarshalSM9KeyPackage(WrapKeyASN1(...)) = %x, %x, %v", k2, c2, err)
					}
				}
			}
		}
		if err != nil {
			c.Fail("reject", "wrap (api %d, klen %d): %v", api, klen, err)
			continue
		}
		digest(c, fmt.Sprintf("wrap%d/api%d/klen%d", k, api, klen), key, cip)
		if len(key) != klen || len(raw) != 65 || raw[0] != 4 || !ref.OnCurveG1(raw[1:]) {
			c.Fail("mismatch", "wrap: len(key)=%d want %d; C=%x must be 04||point of G1", len(key), klen, raw)
			continue
		}
		// the reference KDF over C || e(C, de) || ID must give the same key
		w := modelW(raw[1:], de)
		c.Eq(fmt.Sprintf("wrapped key vs reference KDF(C||w||ID, %d) with len(ID)=%d", klen, uidLen), key, ref.KDF(ref.Cat(raw[1:], w, uid), klen))
		c.Event("model_kdf_checks", 1)
		// unwrap through the matching and the raw entry points
		if api == 1 {
			if c.Call("priv.UnwrapKey(DER)", func() { got, err = euk.UnwrapKey(uid, cip, klen) }) {
				if err != nil {
					c.Fail("reject", "priv.UnwrapKey refuses the wrapped key: %v", err)
				} else {
					c.Eq("priv.UnwrapKey", got, key)
				}
			}
		}
		in := raw
		if (k+rep)%2 == 1 {
			in = raw[1:] // the 64-byte form is accepted too
		}
		if c.Call("UnwrapKey", func() { got, err = sm9.UnwrapKey(euk, uid, in, klen) }) {
			if err != nil {
				c.Fail("reject", "UnwrapKey refuses the wrapped key: %v", err)
			} else {
				c.Eq("UnwrapKey", got, key)
			}
		}
		c.Event("honest_unwrapped", 1)
		if k == 1 {
			// another identity gives the key of the reference for that identity, not ours
			uid2 := flipped(uid, c.R)
			if c.Call("UnwrapKey(another uid)", func() { got, err = sm9.UnwrapKey(euk, uid2, raw, klen) }) && err == nil {
				if bytes.Equal(got, key) {
					c.Fail("accept", "UnwrapKey with another uid returns the same key")
				}
				c.Eq("UnwrapKey(another uid) vs reference KDF", got, ref.KDF(ref.Cat(raw[1:], w, uid2), klen))
				c.Event("wrong_context_refused", 1)
			}
		}
	}
	extremeWraps(c, pub, euk, uid, hid, uidLen, rep)
}

// extremeWraps: the two ends of the key-length range. (1) Keys of one or two bytes: GM/T 0044.4 step A4 sends the
// sender back to a fresh r when the derived key is all zero, which a one-byte key is once in 256 wraps; whatever was
// drawn and computed for the discarded r must leave no trace in the (key, C) pair that is returned. Some cases look for
// such an r beforehand (with the library's own 32-byte wrap as the probe; the KDF is a prefix function of the length)
// and script it as the first nonce, so that every run observes forced retries; the verdict is the same as for every
// wrap: key = reference KDF(C || e(C, de) || ID) and UnwrapKey(C) = key. (2) Keys beyond 255 KDF blocks (8160 bytes),
// where the block counter leaves its low byte; the transcript digest makes these part of the cross-build comparison.
func extremeWraps(c *mon.Case, pub *sm9.EncryptMasterPublicKey, euk *sm9.EncryptPrivateKey, uid []byte, hid byte, uidLen, rep int) {
	de := euk.Bytes()[1:]
	one := func(label string, idx int, rnd *mon.Script, klen int) {
		var key, cip, got []byte
		var err error
		before := rnd.Consumed()
		if !c.Call("WrapKey("+label+")", func() { key, cip, err = sm9.WrapKey(rnd, pub, uid, hid, klen) }) {
			return
		}
		if err != nil {
			c.Fail("reject", "WrapKey (%s, klen %d) with a working random source: %v", label, klen, err)
			return
		}
		if len(key) != klen || len(cip) != 65 || cip[0] != 4 || !ref.OnCurveG1(cip[1:]) {
			c.Fail("mismatch", "WrapKey (%s): len(key)=%d want %d; C=%x must be 04||point of G1", label, len(key), klen, cip)
			return
		}
		if rnd.Consumed()-before > 32 {
			c.Event("wrap_consumed_more_than_one_nonce/"+label, 1)
		}
		allZero := true
		for _, b := range key {
			allZero = allZero && b == 0
		}
		if allZero {
			c.Fail("mismatch", "WrapKey (%s, klen %d) returned the all-zero key the standard sends back to step A2: C=%x", label, klen, cip)
			return
		}
		digest(c, fmt.Sprintf("wrap-extreme/%s%d/klen%d", label, idx, klen), key, cip)
		w := modelW(cip[1:], de)
		c.Eq(fmt.Sprintf("WrapKey (%s): key vs reference KDF(C||w||ID, %d) with len(ID)=%d", label, klen, uidLen), key, ref.KDF(ref.Cat(cip[1:], w, uid), klen))
		if c.Call("UnwrapKey("+label+")", func() { got, err = sm9.UnwrapKey(euk, uid, cip, klen) }) {
			if err != nil {
				c.Fail("reject", "UnwrapKey refuses the key wrapped just before (%s, klen %d): %v", label, klen, err)
			} else {
				c.Eq("UnwrapKey ("+label+")", got, key)
			}
		}
		c.Event("extreme_wraps/"+label, 1)
	}
	rnd := script(c, "wrap-tiny", nil)
	for t := 0; t < 6; t++ {
		klen := 1 + t/4
		c.Class("wrap/tiny/klen=%d/uid%%64=%d", klen, uidLen%64)
		one("tiny", t, rnd, klen)
	}
	if (uidLen+rep)%16 == 5 {
		// forced: look for a nonce whose derived key starts with a zero octet
		probe := mon.NewRand(c.R.Uint64(), "wrap-forced-probe")
		for try := 0; try < 1500; try++ {
			nonce := probe.Bytes(32)
			var key []byte
			var err error
			ps := mon.NewScript(nonce)
			ps.Tail = mon.NewRand(uint64(try), "wrap-forced-probe-tail")
			if !c.Call("WrapKey(probe)", func() { key, _, err = sm9.WrapKey(ps, pub, uid, hid, 32) }) || err != nil || len(key) != 32 {
				return
			}
			if ps.Consumed() != 32 || key[0] != 0 {
				continue
			}
			fs := mon.NewScript(nonce)
			fs.Tail = mon.NewRand(c.R.Uint64(), "wrap-forced-tail")
			c.Class("wrap/tiny/forced-retry/uid%%64=%d", uidLen%64)
			c.Event("forced_zero_key_nonce_found", 1)
			one("forced-retry", 0, fs, 1)
			if fs.Consumed() <= 32 {
				c.Event("forced_retry_not_observed", 1)
			}
			break
		}
	}
	if (uidLen+rep)%8 == 3 {
		klen := []int{8161, 8192 + 33, 16320 + 1, 8160 + 32*uidLen + 7}[(uidLen/8+rep)%4]
		c.Class("wrap/long/kdf-blocks>255/uid%%64=%d", uidLen%64)
		one("long", 0, script(c, "wrap-long", nil), klen)
	}
}

// decryptAll runs every decrypt entry point that applies to the encoding.
func decryptAll(c *mon.Case, euk *sm9.EncryptPrivateKey, uid []byte, m ref.Mode, asn1 bool, ct, msg []byte) {
	opts := optsOf(m)
	type ep struct {
		name string
		f    func() ([]byte, error)
	}
	var eps []ep
	if asn1 {
		eps = []ep{
			{"DecryptASN1", func() ([]byte, error) { return sm9.DecryptASN1(euk, uid, ct) }},
			{"priv.DecryptASN1", func() ([]byte, error) { return euk.DecryptASN1(uid, ct) }},
			{"priv.Decrypt(uid)", func() ([]byte, error) { return euk.Decrypt(nil, ct, uid) }},
		}
		if len(uid) > 0 {
			eps = append(eps, ep{"priv.Decrypt(DecrypterOptsWithUID{nil})", func() ([]byte, error) {
				o, err := sm9.NewDecrypterOptsWithUID(nil, uid)
				if err != nil {
					return nil, err
				}
				return euk.Decrypt(nil, ct, o)
			}})
		}
	} else {
		eps = []ep{{"Decrypt", func() ([]byte, error) { return sm9.Decrypt(euk, uid, ct, opts) }}}
		if m == ref.XOR {
			eps = append(eps, ep{"Decrypt(nil opts)", func() ([]byte, error) { return sm9.Decrypt(euk, uid, ct, nil) }})
		}
		// priv.Decrypt is specified to read input that is exactly one DER SEQUENCE as ASN.1; a raw
		// ciphertext can be one (header 30 + the length of the rest) - counted by c10.sniff, which
		// constructs such ciphertexts, not part of the property
		if len(uid) > 0 && !ref.IsOneSequence(ct) {
			eps = append(eps, ep{"priv.Decrypt(DecrypterOptsWithUID{opts})", func() ([]byte, error) {
				o, err := sm9.NewDecrypterOptsWithUID(opts, uid)
				if err != nil {
					return nil, err
				}
				return euk.Decrypt(nil, ct, o)
			}})
		}
	}
	// the primary entry point always, one of the alternatives in turn
	if len(eps) > 2 {
		alt := 1 + (len(ct)+len(uid))%(len(eps)-1)
		eps = []ep{eps[0], eps[alt]}
	}
	for _, e := range eps {
		var got []byte
		var err error
		in := append([]byte{}, ct...)
		if !c.Call(e.name, func() { got, err = e.f() }) {
			continue
		}
		if err != nil {
			c.Fail("reject", "%s (%v, %d-byte message) refuses the honest ciphertext: %v", e.name, m, len(msg), err)
			continue
		}
		c.Eq(e.name+" ("+m.String()+")", got, msg)
		if !bytes.Equal(in, ct) {
			c.Fail("mismatch", "%s modified the ciphertext it was given", e.name)
		}
		c.Event("honest_decrypted", 1)
	}
}

// pickMsgLen draws a message length 1..300; for XOR the KDF output is len+32 bytes,
// so the three block classes are 1..64, 65..192, 193..300.
func pickMsgLen(r *mon.Rand, m ref.Mode, k int) int {
	if m == ref.XOR {
		lo, hi := [3]int{1, 65, 193}[k], [3]int{64, 192, 300}[k]
		switch r.Intn(4) {
		case 0:
			return lo + r.Intn(2)
		case 1:
			return hi - r.Intn(2)
		}
		return r.Range(lo, hi)
	}
	switch r.Intn(4) {
	case 0:
		return 16 * r.Range(1, 18) // full blocks: a whole padding block is added
	case 1:
		return r.Range(1, 17)
	}
	return r.Range(1, 300)
}

func encCase(c *mon.Case, x *mon.Ctx, uidLen int, hid byte, rep int) {
	uid := c.R.Bytes(uidLen)
	emk, ke := genEncMaster(c, "random", false)
	if emk == nil {
		return
	}
	pub := emk.PublicKey()
	euk := genEncUser(c, emk, ke, uid, hid)
	if euk == nil {
		return
	}
	de := euk.Bytes()[1:]
	rnd := script(c, "enc", nil)
	for mi, m := range ref.Modes {
		encs := []bool{(uidLen+mi+rep)%2 == 0}
		if x.Thorough() && rep%4 == 3 {
			encs = []bool{false, true}
		}
		for _, asn1 := range encs {
			msgLen := pickMsgLen(c.R, m, (uidLen+rep+mi)%3)
			if m == ref.XOR && (uidLen+rep)%8 == 6 {
				// the mask needs more than 255 KDF blocks: the block counter leaves its low byte
				msgLen = []int{8129, 8128 + 77, 16289 + uidLen}[(uidLen/8+rep)%3]
				c.Class("enc/XOR/long/kdf-blocks>255/uid%%64=%d", uidLen%64)
			}
			msg := c.R.Bytes(msgLen)
			kl := m.K1Len(msgLen) + ref.K2Len
			enc := "raw"
			if asn1 {
				enc = "asn1"
			}
			c.Class("enc/%v/%s/uid%%64=%d/kdf-blocks=%s", m, enc, uidLen%64, blockClass(kl))
			if m != ref.XOR {
				c.Class("enc/%v/%s/msg%%16=%d/blocks=%d", m, enc, msgLen%16, min(msgLen/16, 3))
			}
			var ct []byte
			var err error
			plain := append([]byte{}, msg...)
			if asn1 {
				if (uidLen+rep)%2 == 0 {
					if !c.Call("EncryptASN1", func() { ct, err = sm9.EncryptASN1(rnd, pub, uid, hid, plain, optsOf(m)) }) {
						continue
					}
				} else if !c.Call("pub.Encrypt", func() { ct, err = pub.Encrypt(rnd, uid, hid, plain, optsOf(m)) }) {
					continue
				}
			} else {
				o := optsOf(m)
				if m == ref.XOR && rep%2 == 1 {
					o = nil // nil means XOR
				}
				if !c.Call("Encrypt", func() { ct, err = sm9.Encrypt(rnd, pub, uid, hid, plain, o) }) {
					continue
				}
			}
			if err != nil {
				c.Fail("reject", "encrypt %v/%s of a %d-byte message: %v", m, enc, msgLen, err)
				continue
			}
			if !bytes.Equal(plain, msg) {
				c.Fail("mismatch", "encrypt %v/%s modified the caller's plaintext", m, enc)
			}
			digest(c, fmt.Sprintf("enc/%v/%s/len%d", m, enc, msgLen), ct)
			checkCipher(c, m, asn1, ct, de, uid, msg)
			decryptAll(c, euk, uid, m, asn1, ct, msg)
			if mi == (uidLen+rep)%5 {
				uid2 := flipped(uid, c.R)
				var got []byte
				dec := func() {
					if asn1 {
						got, err = sm9.DecryptASN1(euk, uid2, ct)
					} else {
						got, err = sm9.Decrypt(euk, uid2, ct, optsOf(m))
					}
				}
				if c.Call("decrypt(another uid)", dec) {
					if err == nil {
						c.Fail("accept", "decrypt %v/%s with another uid succeeds -> %x", m, enc, got)
					} else {
						c.Event("wrong_context_refused", 1)
					}
				}
			}
		}
	}
	// the empty message is refused, not encrypted
	var err error
	if c.Call("Encrypt(empty)", func() { _, err = sm9.Encrypt(rnd, pub, uid, hid, nil, nil) }) && err == nil {
		c.Fail("accept", "Encrypt accepted an empty plaintext")
	}
}

func kexCase(c *mon.Case, la, lb int, hid byte, kc int, confirm bool) {
	uidA, uidB := c.R.Bytes(la), c.R.Bytes(lb)
	klen := pickKLen(c.R, kc)
	c.Class("kex/idA%%64=%d/kdf-blocks=%s/confirm=%v", la%64, blockClass(klen), confirm)
	c.Class("kex/(idA+idB)%%64=%d/kdf-blocks=%s", (la+lb)%64, blockClass(klen))
	emk, ke := genEncMaster(c, "random", false)
	if emk == nil {
		return
	}
	ukA := genEncUser(c, emk, ke, uidA, hid)
	ukB := genEncUser(c, emk, ke, uidB, hid)
	if ukA == nil || ukB == nil {
		return
	}
	streamA := c.R.Bytes(32 * 48)
	rndA, rndB := script(c, "kexA", streamA), script(c, "kexB", nil)
	a := ukA.NewKeyExchange(uidA, uidB, klen, confirm)
	b := ukB.NewKeyExchange(uidB, uidA, klen, confirm)
	var ra, rb, sb, sa, ska, skb []byte
	var err error
	if !c.Call("InitKeyExchange", func() { ra, err = a.InitKeyExchange(rndA, hid) }) || err != nil {
		if err != nil {
			c.Fail("reject", "InitKeyExchange: %v", err)
		}
		return
	}
	ra = append([]byte{}, ra...)
	digest(c, "kex/RA", ra)
	if !c.Call("RespondKeyExchange", func() { rb, sb, err = b.RespondKeyExchange(rndB, hid, ra) }) || err != nil {
		if err != nil {
			c.Fail("reject", "RespondKeyExchange refuses the initiator's message: %v", err)
		}
		return
	}
	rb = append([]byte{}, rb...)
	digest(c, "kex/RB+SB", rb, sb)
	if !c.Call("ConfirmResponder", func() { ska, sa, err = a.ConfirmResponder(rb, sb) }) || err != nil {
		if err != nil {
			c.Fail("reject", "ConfirmResponder refuses the responder's message: %v", err)
		}
		return
	}
	digest(c, "kex/SKA+SA", ska, sa)
	if !c.Call("ConfirmInitiator", func() { skb, err = b.ConfirmInitiator(sa) }) || err != nil {
		if err != nil {
			c.Fail("reject", "ConfirmInitiator refuses the initiator's confirmation: %v", err)
		}
		return
	}
	digest(c, "kex/SKB", skb)
	c.Event("key_exchanges", 1)
	c.Eq("SKB vs SKA", skb, ska)
	if len(ska) != klen {
		c.Fail("mismatch", "shared key has %d bytes, want %d", len(ska), klen)
	}
	if confirm && (len(sb) != 32 || len(sa) != 32) || !confirm && (len(sb) != 0 || len(sa) != 0) {
		c.Fail("mismatch", "confirmation values: len(SB)=%d len(SA)=%d with confirm=%v", len(sb), len(sa), confirm)
	}
	// reference model: g1 = e(RA, deB), g2 = e(RB, deA), g3 = g2^rA with rA recovered
	// from the read log of A's random source (checked against RA = [rA]QB)
	if len(ra) != 65 || len(rb) != 65 || ra[0] != 4 || rb[0] != 4 || !ref.OnCurveG1(ra[1:]) || !ref.OnCurveG1(rb[1:]) {
		c.Fail("mismatch", "RA=%x RB=%x must be 04||point of G1", ra, rb)
		return
	}
	g1 := modelW(ra[1:], ukB.Bytes()[1:])
	g2p := hk2GT(rb[1:], ukA.Bytes()[1:])
	var rA *big.Int
	qb := encUserPublic(emk.PublicKey().Bytes()[1:], uidB, hid) // [H1(IDB||hid)]P1 + Ppub-e, reference H1
	for i := len(rndA.Log) - 1; i >= 0 && rA == nil && qb != nil; i-- {
		e := rndA.Log[i]
		if e.Probe || e.Want != 32 || e.N != 32 || e.Off < 0 || e.Off+32 > len(streamA) {
			continue
		}
		v := new(big.Int).SetBytes(streamA[e.Off : e.Off+32])
		if v.Sign() == 0 || v.Cmp(ref.N) >= 0 {
			continue
		}
		if p, err := new(hk.G1).ScalarMult(qb, ref.Bytes32(v)); err == nil && bytes.Equal(p.Marshal(), ra[1:]) {
			rA = v
		}
	}
	if rA == nil || g2p == nil {
		// the library is free in how it turns random bytes into rA; without rA the
		// model cannot form g3 - observed, not judged
		c.Event("kex_model_skipped_r_not_recovered", 1)
		return
	}
	c.Event("kex_initiator_point_is_[rA]QB", 1)
	g3 := newGTExp(g2p, rA)
	want := ref.Kex(uidA, uidB, ra[1:], rb[1:], g1, g2p.Marshal(), g3, klen)
	c.Eq(fmt.Sprintf("shared key vs reference KDF(IDA||IDB||RA||RB||g1||g2||g3, %d)", klen), ska, want.SK)
	if confirm {
		c.Eq("SB vs reference Hash(0x82||g1||Hash(g2||g3||IDA||IDB||RA||RB))", sb, want.SB)
		c.Eq("SA vs reference Hash(0x83||...)", sa, want.SA)
	}
	c.Event("model_kex_checks", 1)
}
