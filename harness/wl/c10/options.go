package c10

import (
	"bytes"
	"crypto/aes"
	"crypto/cipher"
	"fmt"
	"math/big"

	"github.com/emmansun/gmsm/padding"
	"github.com/emmansun/gmsm/sm4"
	"github.com/emmansun/gmsm/sm9"

	"verifh/mon"
	refpad "verifh/ref/pad"
	ref "verifh/ref/sm9"
)

// options appends to c10.reuse the parts of the API the transcript never reaches
// (found with tools/cover.py) and that the property statement covers:
//
//   - kgc: the one (master key, identity) pair per identity for which NO user key
//     exists, H1(ID||hid) + ks = 0 mod N: the master scalar is scripted to N - H1(ID||hid);
//     GenerateUserKey must refuse that identity (both key types), twice, and the master
//     key object must go on serving every other identity (state after a refused call);
//     a signature by another identity must not verify under the impossible identity
//     (its public key is the point at infinity);
//   - option objects built with the public constructors for OTHER block ciphers, key
//     sizes and paddings than the package-level SM4/PKCS#7 ones (AES-128/192/256 from
//     the standard library, ANSI X9.23 and ISO 9797-1 method 2 padding): encryption in
//     the raw encoding against a reference built from ref KDF / MAC, crypto/cipher and
//     the reference paddings, and back through every raw decrypt entry point;
//   - what the doc comment of EncryptPrivateKey.Decrypt promises for option values:
//     a *DecrypterOptsWithUID without EncrypterOpts opens ASN.1 ciphertexts and refuses
//     raw ones, any other option type is refused; an empty uid (length 0 is in the
//     quantifier) cannot go through NewDecrypterOptsWithUID but through the struct.
func options(x *mon.Ctx) {
	n := x.Scale(8, 96)
	for j := 0; j < n; j++ {
		hid := hids[j%4]
		if c := x.Begin("kgc #%d hid=%#x: master scalars N - H1(ID||hid) (no user key exists for ID), refusal and the state after it", j, hid); c != nil {
			kgcCase(c, j, hid)
			c.End()
		}
	}
	n = x.Scale(12, 144)
	for j := 0; j < n; j++ {
		cc := customCiphers[j%len(customCiphers)]
		if c := x.Begin("custom options #%d: %s, four block modes x paddings built with the public constructors, raw encoding", j, cc.name); c != nil {
			customCase(c, j, cc)
			c.End()
		}
	}
	n = x.Scale(4, 48)
	for j := 0; j < n; j++ {
		if c := x.Begin("decrypter options #%d: option values of EncryptPrivateKey.Decrypt as its doc comment describes them; empty uid", j); c != nil {
			decOptsCase(c, j, hids[j%4])
			c.End()
		}
	}
}

func kgcCase(c *mon.Case, idx int, hid byte) {
	uid := c.R.Bytes(c.R.Range(0, 80))
	c.Class("options/kgc/hid=%#x/uid%%2=%d", hid, len(uid)%2)
	h1 := new(big.Int).SetBytes(ref.H1(append(append([]byte{}, uid...), hid)))
	k := new(big.Int).Sub(ref.N, h1)
	if k.Sign() <= 0 || k.Cmp(new(big.Int).Sub(ref.N, big.NewInt(1))) >= 0 {
		c.Trivial() // H1 = 1: N-1 is not a master scalar
		return
	}
	if _, ok := ref.UserScalar(k, uid, hid); ok {
		c.Inconclusive("reference: N - H1(ID||hid) does not make t1 zero")
		return
	}
	stream := ref.Bytes32(k)
	stream[1] ^= 0x42
	others := []ident{{flipped(uid, c.R), hid}, {uid, otherHid(hid)}, {append(append([]byte{}, uid...), hid), hid}}
	rnd := script(c, "kgc", nil)
	var err error

	// ---- signature master key
	var smk *sm9.SignMasterPrivateKey
	if !c.Call("GenerateSignMasterKey", func() { smk, err = sm9.GenerateSignMasterKey(script(c, "kgc-smk", stream)) }) || err != nil {
		return
	}
	if !bytes.Equal(smk.Bytes(), ref.Bytes32(k)) {
		c.Event("kgc_master_scalar_not_as_scripted", 1)
		return
	}
	pub := smk.PublicKey()
	var osuk *sm9.SignPrivateKey
	for round := 0; round < 2; round++ {
		var suk *sm9.SignPrivateKey
		if c.Call("SignMasterPrivateKey.GenerateUserKey(identity without a key)", func() { suk, err = smk.GenerateUserKey(uid, hid) }) {
			if err == nil {
				c.Fail("accept", "GenerateUserKey returns a key for (uid %x, hid %#x) under ks = N - H1(ID||hid) = %x: t1 = 0, no such key exists (the master key must be regenerated); got %x", uid, hid, k, suk.Bytes())
			} else {
				c.Event("kgc_refusals", 1)
			}
		}
		for _, o := range others {
			var s2 *sm9.SignPrivateKey
			if !c.Call("SignMasterPrivateKey.GenerateUserKey(another identity, after the refusal)", func() { s2, err = smk.GenerateUserKey(o.uid, o.hid) }) {
				continue
			}
			t2, ok := ref.UserScalar(k, o.uid, o.hid)
			if !ok {
				continue
			}
			if err != nil {
				c.Fail("reject", "after refusing the identity without a key the master key object refuses %v too: %v", o, err)
				continue
			}
			c.Eq(fmt.Sprintf("user key of %v on the master key object that refused another identity", o), s2.Bytes(), g1BaseMul(t2))
			osuk = s2
		}
	}
	if osuk != nil {
		o := others[len(others)-1]
		msg := c.R.Bytes(c.R.Range(1, 60))
		var sig []byte
		if c.Call("SignASN1", func() { sig, err = sm9.SignASN1(rnd, osuk, msg) }) && err == nil {
			var ok bool
			if c.Call("VerifyASN1", func() { ok = sm9.VerifyASN1(pub, o.uid, o.hid, msg, sig) }) && !ok {
				c.Fail("reject", "VerifyASN1 refuses the honest signature of %v", o)
			}
			// the public key of the impossible identity is [H1]P2 + [ks]P2 = infinity
			if c.Call("VerifyASN1(identity whose public key is the point at infinity)", func() { ok = sm9.VerifyASN1(pub, uid, hid, msg, sig) }) && ok {
				c.Fail("accept", "the signature of %v verifies under (uid %x, hid %#x)", o, uid, hid)
			}
			if c.Call("VerifyASN1", func() { ok = sm9.VerifyASN1(pub, o.uid, o.hid, msg, sig) }) && !ok {
				c.Fail("reject", "VerifyASN1 refuses the honest signature of %v after a verification under the identity without a key", o)
			}
			digest(c, "kgc/sig", sig)
		}
	}

	// ---- encryption master key
	var emk *sm9.EncryptMasterPrivateKey
	if !c.Call("GenerateEncryptMasterKey", func() { emk, err = sm9.GenerateEncryptMasterKey(script(c, "kgc-emk", stream)) }) || err != nil {
		return
	}
	if !bytes.Equal(emk.Bytes(), ref.Bytes32(k)) {
		c.Event("kgc_master_scalar_not_as_scripted", 1)
		return
	}
	epub := emk.PublicKey()
	var oeuk *sm9.EncryptPrivateKey
	for round := 0; round < 2; round++ {
		var euk *sm9.EncryptPrivateKey
		if c.Call("EncryptMasterPrivateKey.GenerateUserKey(identity without a key)", func() { euk, err = emk.GenerateUserKey(uid, hid) }) {
			if err == nil {
				c.Fail("accept", "GenerateUserKey returns a key for (uid %x, hid %#x) under ke = N - H1(ID||hid) = %x: t1 = 0, no such key exists; got %x", uid, hid, k, euk.Bytes())
			} else {
				c.Event("kgc_refusals", 1)
			}
		}
		for _, o := range others {
			if e2 := genEncUser(c, emk, k, o.uid, o.hid); e2 != nil {
				oeuk = e2
			}
		}
	}
	if oeuk != nil {
		o := others[len(others)-1]
		klen := pickKLen(c.R, idx%3)
		var key, cip, got []byte
		if c.Call("WrapKey", func() { key, cip, err = sm9.WrapKey(rnd, epub, o.uid, o.hid, klen) }) && err == nil && len(cip) == 65 {
			c.Eq("wrapped key vs reference KDF on a master key that has an identity without a key", key, ref.KDF(ref.Cat(cip[1:], modelW(cip[1:], oeuk.Bytes()[1:]), o.uid), klen))
			if c.Call("UnwrapKey", func() { got, err = sm9.UnwrapKey(oeuk, o.uid, cip, klen) }) {
				if err != nil {
					c.Fail("reject", "UnwrapKey: %v", err)
				} else {
					c.Eq("UnwrapKey", got, key)
				}
			}
			digest(c, "kgc/wrap", key, cip)
		}
		// wrapping FOR the impossible identity has no receiver; what the library does is observed only
		p := mon.Try(func() { key, cip, err = sm9.WrapKey(script(c, "kgc-inf", nil), epub, uid, hid, 32) })
		switch {
		case p != nil:
			c.Event("observed_wrap_for_identity_without_key/panics", 1)
		case err != nil:
			c.Event("observed_wrap_for_identity_without_key/error", 1)
		default:
			c.Event("observed_wrap_for_identity_without_key/returns_a_key", 1)
		}
	}
}

// ---- option objects for other ciphers and paddings

type customCipher struct {
	name    string
	newc    func(key []byte) (cipher.Block, error)
	keySize int
}

var customCiphers = []customCipher{
	{"AES-128 (crypto/aes)", aes.NewCipher, 16},
	{"AES-192 (crypto/aes)", aes.NewCipher, 24},
	{"AES-256 (crypto/aes)", aes.NewCipher, 32},
	{"SM4 through the constructors", sm4.NewCipher, 16},
}

type customPad struct {
	name   string
	scheme refpad.Scheme
	p      padding.Padding
}

var customPads = []customPad{
	{"pkcs7", refpad.PKCS7, padding.NewPKCS7Padding(16)},
	{"x923", refpad.X923, padding.NewANSIX923Padding(16)},
	{"iso9797m2", refpad.M2, padding.NewISO9797M2Padding(16)},
}

// customOpen is the reference decryption for an arbitrary block cipher: K1||K2 =
// KDF(C1||w||ID, keySize+32), C3 = SM3(C2||K2), C2 by crypto/cipher (ECB by hand),
// padding by the reference decoder.
func customOpen(m ref.Mode, cc customCipher, pad refpad.Scheme, c1, c3, c2, w, uid []byte) ([]byte, bool) {
	k := ref.EncKey(c1, w, uid, cc.keySize+ref.K2Len)
	if !bytes.Equal(ref.C3(c2, k[cc.keySize:]), c3) {
		return nil, false
	}
	b, err := cc.newc(k[:cc.keySize])
	if err != nil {
		return nil, false
	}
	var iv []byte
	if m.HasIV() {
		if len(c2) <= 16 {
			return nil, false
		}
		iv, c2 = c2[:16], c2[16:]
	}
	out := make([]byte, len(c2))
	switch m {
	case ref.ECB, ref.CBC:
		if len(c2) == 0 || len(c2)%16 != 0 {
			return nil, false
		}
		if m == ref.ECB {
			for i := 0; i < len(c2); i += 16 {
				b.Decrypt(out[i:i+16], c2[i:i+16])
			}
		} else {
			cipher.NewCBCDecrypter(b, iv).CryptBlocks(out, c2)
		}
		return refpad.Unpad(pad, 16, out)
	case ref.CFB:
		cipher.NewCFBDecrypter(b, iv).XORKeyStream(out, c2)
	case ref.OFB:
		cipher.NewOFB(b, iv).XORKeyStream(out, c2)
	default:
		return nil, false
	}
	return out, true
}

func customCase(c *mon.Case, idx int, cc customCipher) {
	hid := hids[(idx/len(customCiphers))%4]
	uid := c.R.Bytes(c.R.Range(0, 100))
	emk, ke := genEncMaster(c, "random", false)
	if emk == nil {
		return
	}
	pub := emk.PublicKey()
	euk := genEncUser(c, emk, ke, uid, hid)
	if euk == nil {
		return
	}
	de := euk.Bytes()[1:]
	rnd := script(c, "custom", nil)
	ar := newArena(c, "the caller's arena", arSize)
	for mi, m := range []ref.Mode{ref.ECB, ref.CBC, ref.CFB, ref.OFB} {
		pd := customPads[(idx/len(customCiphers)+mi)%len(customPads)]
		var o sm9.EncrypterOpts
		switch m {
		case ref.ECB:
			o = sm9.NewECBEncrypterOpts(pd.p, cc.newc, cc.keySize)
		case ref.CBC:
			o = sm9.NewCBCEncrypterOpts(pd.p, cc.newc, cc.keySize)
		case ref.CFB:
			o = sm9.NewCFBEncrypterOpts(cc.newc, cc.keySize)
		case ref.OFB:
			o = sm9.NewOFBEncrypterOpts(cc.newc, cc.keySize)
		}
		padded := m == ref.ECB || m == ref.CBC
		pname := "-"
		if padded {
			pname = pd.name
		}
		c.Class("options/custom/%s/%v/pad=%s", cc.name, m, pname)
		// the same option object serves two messages
		for rep := 0; rep < 2; rep++ {
			msg := c.R.Bytes(pickMsgLen(c.R, m, (idx+mi+rep)%3))
			mm := ar.put(offMsg, msg)
			u := ar.put(offUID, uid)
			var ct []byte
			var err error
			ar.mark()
			if !c.Call("Encrypt", func() { ct, err = sm9.Encrypt(rnd, pub, u, hid, mm, o) }) {
				continue
			}
			if lo, hi := ar.diff(); lo >= 0 && padded && padTail(ar, lo, hi, offMsg+len(msg), refpad.Pad(pd.scheme, 16, msg)[len(msg):]) {
				c.Event("observed_blockmode_encrypt_appends_padding_in_callers_spare_capacity", 1)
				copy(ar.mem, ar.snap)
			} else {
				ar.intact("Encrypt")
			}
			if err != nil {
				c.Fail("reject", "Encrypt with %s %v (padding %s) of a %d-byte message: %v", cc.name, m, pname, len(msg), err)
				continue
			}
			if o.GetKeySize(msg) != cc.keySize {
				c.Fail("mismatch", "GetKeySize = %d for an option object constructed with key size %d", o.GetKeySize(msg), cc.keySize)
			}
			keep := append([]byte{}, ct...)
			scribble(ct)
			digest(c, fmt.Sprintf("custom/%v/%d/len%d", m, rep, len(msg)), keep)
			want := len(msg)
			if padded {
				want = len(msg)/16*16 + 16
			}
			if m.HasIV() {
				want += 16
			}
			if len(keep) != 96+want {
				c.Fail("mismatch", "%s %v: ciphertext of %d bytes for a %d-byte message, want %d", cc.name, m, len(keep), len(msg), 96+want)
				continue
			}
			c1, c3, c2 := keep[:64], keep[64:96], keep[96:]
			if !ref.OnCurveG1(c1) {
				c.Fail("mismatch", "C1 %x is not a point of G1", c1)
				continue
			}
			got, ok := customOpen(m, cc, pd.scheme, c1, c3, c2, modelW(c1, de), uid)
			c.Event("model_decryptions", 1)
			if !ok {
				c.Fail("mismatch", "%s %v (padding %s): reference decryption (KDF(C1||w||ID, %d+32), C3 = SM3(C2||K2), crypto/cipher, reference padding) refuses the library's ciphertext %x", cc.name, m, pname, cc.keySize, keep)
				continue
			}
			c.Eq(fmt.Sprintf("reference decryption, %s %v padding %s", cc.name, m, pname), got, msg)
			cin := ar.put(offCT, keep)
			for _, ep := range []string{"Decrypt", "priv.Decrypt(DecrypterOptsWithUID)"} {
				if ep != "Decrypt" && (len(uid) == 0 || ref.IsOneSequence(keep)) {
					continue
				}
				ar.mark()
				var back []byte
				if !c.Call(ep, func() {
					if ep == "Decrypt" {
						back, err = sm9.Decrypt(euk, u, cin, o)
					} else {
						var d *sm9.DecrypterOptsWithUID
						if d, err = sm9.NewDecrypterOptsWithUID(o, u); err == nil {
							back, err = euk.Decrypt(nil, cin, d)
						}
					}
				}) {
					continue
				}
				ar.intact(ep)
				if err != nil {
					c.Fail("reject", "%s with %s %v (padding %s) refuses the honest ciphertext: %v", ep, cc.name, m, pname, err)
					continue
				}
				c.Eq(fmt.Sprintf("%s, %s %v padding %s", ep, cc.name, m, pname), back, msg)
				scribble(back)
				c.Event("honest_decrypted", 1)
			}
			// altered C2 / C3 are still refused with these options
			bad := append([]byte{}, keep...)
			bad[64+c.R.Intn(len(bad)-64)] ^= 1 << uint(c.R.Intn(8))
			var back []byte
			if c.Call("Decrypt(altered)", func() { back, err = sm9.Decrypt(euk, uid, bad, o) }) && err == nil {
				c.Fail("accept", "%s %v: a ciphertext with one bit of C3||C2 changed decrypts to %x", cc.name, m, back)
			}
		}
	}
}

// ---- option values of EncryptPrivateKey.Decrypt

func decOptsCase(c *mon.Case, idx int, hid byte) {
	c.Class("options/decrypter/hid=%#x", hid)
	emk, ke := genEncMaster(c, "random", false)
	if emk == nil {
		return
	}
	pub := emk.PublicKey()
	rnd := script(c, "decopts", nil)
	for ui, uid := range [][]byte{nil, {}, c.R.Bytes(c.R.Range(1, 40))} {
		euk := genEncUser(c, emk, ke, uid, hid)
		if euk == nil {
			return
		}
		var d *sm9.DecrypterOptsWithUID
		var err error
		if c.Call("NewDecrypterOptsWithUID", func() { d, err = sm9.NewDecrypterOptsWithUID(nil, uid) }) {
			switch {
			case len(uid) == 0 && err == nil:
				c.Fail("accept", "NewDecrypterOptsWithUID accepts an empty uid (its doc comment: the UID must not be empty, otherwise an error is returned)")
			case len(uid) > 0 && (err != nil || d == nil):
				c.Fail("reject", "NewDecrypterOptsWithUID(nil, %x): %v", uid, err)
			}
		}
		// the struct is exported: the only way to use priv.Decrypt for the empty identity
		d = &sm9.DecrypterOptsWithUID{UID: uid}
		for mi, m := range ref.Modes {
			msg := c.R.Bytes(pickMsgLen(c.R, m, (idx+mi)%3))
			var raw, der, got []byte
			if !c.Call("Encrypt", func() { raw, err = sm9.Encrypt(rnd, pub, uid, hid, msg, optsOf(m)) }) || err != nil {
				continue
			}
			if !c.Call("EncryptASN1", func() { der, err = sm9.EncryptASN1(rnd, pub, uid, hid, msg, optsOf(m)) }) || err != nil {
				continue
			}
			digest(c, fmt.Sprintf("decopts/uid%d/%v", ui, m), raw, der)
			c.Class("options/decrypter/%v/uidlen=%d", m, min(len(uid), 1))
			// ASN.1 ciphertext: EncrypterOpts nil and set both work (the mode is in the ciphertext)
			for _, o := range []sm9.EncrypterOpts{nil, optsOf(m), optsOf(ref.Modes[(mi+1)%5])} {
				d.EncrypterOpts = o
				if c.Call("priv.Decrypt(ASN.1, DecrypterOptsWithUID)", func() { got, err = euk.Decrypt(nil, der, d) }) {
					if err != nil {
						c.Fail("reject", "priv.Decrypt(*DecrypterOptsWithUID{opts %T, uid %x}) refuses an honest ASN.1 %v ciphertext: %v", o, uid, m, err)
					} else {
						c.Eq("priv.Decrypt(ASN.1, DecrypterOptsWithUID)", got, msg)
						c.Event("honest_decrypted", 1)
					}
				}
			}
			if ref.IsOneSequence(raw) {
				continue // priv.Decrypt is specified to read input that is exactly one DER SEQUENCE as ASN.1 (c10.sniff constructs such ciphertexts)
			}
			// raw ciphertext: needs the mode
			d.EncrypterOpts = optsOf(m)
			if c.Call("priv.Decrypt(raw, DecrypterOptsWithUID)", func() { got, err = euk.Decrypt(nil, raw, d) }) {
				if err != nil {
					c.Fail("reject", "priv.Decrypt(*DecrypterOptsWithUID{%v, uid %x}) refuses an honest raw ciphertext: %v", m, uid, err)
				} else {
					c.Eq("priv.Decrypt(raw, DecrypterOptsWithUID)", got, msg)
					c.Event("honest_decrypted", 1)
				}
			}
			d.EncrypterOpts = nil
			if c.Call("priv.Decrypt(raw, DecrypterOptsWithUID without EncrypterOpts)", func() { got, err = euk.Decrypt(nil, raw, d) }) && err == nil {
				c.Fail("accept", "priv.Decrypt returns %x for a raw %v ciphertext although the options carry no EncrypterOpts (doc comment: an error indicating invalid ASN.1 data)", got, m)
			}
			// option values of other types are refused, whatever the ciphertext
			for _, o := range []any{nil, string(uid), m, optsOf(m), *d, &uid} {
				for _, ct := range [][]byte{raw, der} {
					if c.Call("priv.Decrypt(unsupported option type)", func() { got, err = euk.Decrypt(nil, ct, o) }) && err == nil {
						c.Fail("accept", "priv.Decrypt accepts decrypter options of type %T and returns %x", o, got)
					} else {
						c.Event("unsupported_options_refused", 1)
					}
				}
			}
		}
	}
}
