package c10

import (
	"bytes"
	"fmt"
	"math/big"

	"github.com/emmansun/gmsm/sm9"
	hk "github.com/emmansun/gmsm/verifhook"

	"verifh/mon"
	ref "verifh/ref/sm9"
)

// Unreduced aliases. Every integer a verifier or decryptor decodes lives in a range
// - h in [1, N-1], point coordinates in [0, p-1], the EnType of SM9Cipher in a handful
// of small values - and every one of them has other spellings that a decoder which
// REDUCES instead of REFUSING maps onto the honest value: h + N, h + 2N, ..., x + p,
// y + p, EnType + 256. Byte substitutions never produce them (h + N differs from h in
// most bytes), so they are constructed here for every artefact of the property:
//
//	sig:  (h', S) for h' = h + kN, h + 2^256, the range edges 0, N, N+1, 2N, 2^256-1,
//	      2^256, negative values, and h itself in other widths (leading zero octets
//	      added / stripped), through Verify(h *big.Int, S) and - spelled as minimal,
//	      32-byte and zero-extended OCTET STRING - through VerifyASN1 and pub.Verify;
//	      (h, S') for S' = S with x + p / y + p / both, through all three;
//	enc:  wrapped keys (65-byte, 64-byte and DER form) and ciphertexts (five modes, raw
//	      and ASN.1) whose C1 has x + p / y + p / both; ASN.1 ciphertexts whose EnType is
//	      spelled m + 256, m + 2^16, m + 2^32, m - 256, m + 2^64 or with leading zero octets;
//	kex:  RA with x + p / y + p / both to RespondKeyExchange, RB likewise (with the honest
//	      SB) to ConfirmResponder, then the honest run on the same objects.
//
// An alias of a value only exists in 32 bytes when the value is below 2^256 - N (resp.
// 2^256 - p), about 29 % of all values. So the honest artefacts are CONSTRUCTED to have
// them: scripted nonces are tried, deterministically from the case generator, until
// the signature has a small h (resp. an S with a small x, a small y), and until C1 /
// RA / RB have two small coordinates (searched with the hook's G1, then scripted).
//
// Oracle, as everywhere in c10.sound: the reference's strict verdict. A signature
// candidate is accepted only if h' is in [1, N-1], S' is the canonical encoding of a
// point of G1 and the reference verification holds (true only for the honest value in
// another width: counted, either verdict); a point that is not canonical must be
// refused by UnwrapKey and the key exchange (the decoders decided by C09 refuse
// coordinates >= p: expected refusals, counted); a ciphertext candidate is refused or -
// counted - opens to the same plaintext, never to another one. Honest artefacts must
// be accepted by every entry point before and after the candidates.

var (
	two256 = new(big.Int).Lsh(big.NewInt(1), 256)
	roomN  = new(big.Int).Sub(two256, ref.N) // v < roomN: v + N fits 32 bytes
	roomP  = new(big.Int).Sub(two256, ref.P) // v < roomP: v + p fits 32 bytes
)

func aliasCases(x *mon.Ctx, id int) {
	for _, k := range []struct {
		name string
		f    func(*mon.Case, *roundData)
	}{
		{"sig: h + kN, range edges, other widths of h; S with x+p / y+p; three verify entry points, raw and ASN.1", sigAliasCase},
		{"enc: wrapped keys and ciphertexts (five modes, raw / ASN.1) with C1 x+p / y+p; EnType + 256 ... in SM9Cipher", encAliasCase},
		{"kex: RA and RB with x+p / y+p, then the honest run on the same objects", kexAliasCase},
	} {
		c := x.Begin("sound round=%d unreduced aliases, %s", id, k.name)
		if c == nil {
			continue
		}
		c.Class("sound/alias/%s/hid=%#x", k.name[:3], hids[id%4])
		if rd := getRound(x, id); rd.err != nil {
			c.Fail("reject", "honest operation failed while building round %d: %v", id, rd.err)
		} else {
			k.f(c, rd)
		}
		c.End()
	}
}

func small(b []byte, room *big.Int) bool { return new(big.Int).SetBytes(b).Cmp(room) < 0 }

func plusP(b []byte) []byte {
	v := new(big.Int).SetBytes(b)
	return ref.Bytes32(v.Add(v, ref.P))
}

type pointAlias struct {
	kind string
	xy   []byte // 64 bytes, never a canonical encoding
}

// pointAliases returns the spellings of the point xy (64 bytes) in which a
// coordinate v is replaced by v + p, as far as they fit 32 bytes.
func pointAliases(xy []byte) []pointAlias {
	x, y := xy[:32], xy[32:64]
	var out []pointAlias
	if small(x, roomP) {
		out = append(out, pointAlias{"x+p", ref.Cat(plusP(x), y)})
	}
	if small(y, roomP) {
		out = append(out, pointAlias{"y+p", ref.Cat(x, plusP(y))})
	}
	if small(x, roomP) && small(y, roomP) {
		out = append(out, pointAlias{"x+p,y+p", ref.Cat(plusP(x), plusP(y))})
	}
	return out
}

// smallPointScalar looks for r in [1, N-1] such that both coordinates of [r]q are
// below 2^256 - p (one r in twelve) and returns r and x||y of the point.
func smallPointScalar(c *mon.Case, q *hk.G1) (*big.Int, []byte) {
	if q == nil {
		return nil, nil
	}
	nm1 := new(big.Int).Sub(ref.N, big.NewInt(1))
	for tries := 1; tries <= 600; tries++ {
		r := new(big.Int).Add(c.R.BigBelow(nm1), big.NewInt(1))
		p, err := new(hk.G1).ScalarMult(q, ref.Bytes32(r))
		if err != nil {
			continue
		}
		if xy := p.Marshal(); small(xy[:32], roomP) && small(xy[32:], roomP) {
			c.Event("alias_search_candidates", tries)
			return r, xy
		}
	}
	c.Event("alias_not_available/point", 1)
	return nil, nil
}

type intAlias struct {
	kind string
	v    *big.Int
}

// intAliases returns other integers a reducing decoder maps to v (v + k*mod, v + 2^256),
// the edges of the range [1, mod-1] and of 32 bytes, and negative values.
func intAliases(v, mod *big.Int) []intAlias {
	add := func(a, b *big.Int) *big.Int { return new(big.Int).Add(a, b) }
	mul := func(k int64) *big.Int { return new(big.Int).Mul(mod, big.NewInt(k)) }
	return []intAlias{
		{"v+N", add(v, mul(1))},
		{"v+2N", add(v, mul(2))},
		{"v+3N", add(v, mul(3))},
		{"v+256N", add(v, mul(256))},
		{"v+N*2^256", add(v, new(big.Int).Lsh(mod, 256))},
		{"v+2^256", add(v, two256)},
		{"v+N+2^256", add(add(v, mod), two256)},
		{"0", big.NewInt(0)},
		{"N", mul(1)},
		{"N+1", add(mod, big.NewInt(1))},
		{"2N", mul(2)},
		{"2^256-1", new(big.Int).Sub(two256, big.NewInt(1))},
		{"2^256", two256},
		{"-v", new(big.Int).Neg(v)},
		{"v-N", new(big.Int).Sub(v, mod)},
		{"-1", big.NewInt(-1)},
	}
}

// octetSpellings returns the ways of writing the non-negative integer v as an OCTET
// STRING: minimal, 32 bytes (when it fits), and each with one and two zero octets added.
func octetSpellings(v *big.Int) [][]byte {
	var out [][]byte
	seen := map[string]bool{}
	put := func(b []byte) {
		if !seen[string(b)] {
			seen[string(b)] = true
			out = append(out, b)
		}
	}
	mn := v.Bytes()
	put(mn)
	if len(mn) <= 32 {
		put(ref.Bytes32(v))
		put(append([]byte{0}, ref.Bytes32(v)...))
		put(append([]byte{0, 0}, ref.Bytes32(v)...))
	} else {
		put(append([]byte{0}, mn...))
	}
	return out
}

// ---- signatures

func sigAliasCase(c *mon.Case, rd *roundData) {
	suk, err := rd.smk.GenerateUserKey(rd.uid, rd.hid)
	if err != nil {
		c.Fail("reject", "GenerateUserKey: %v", err)
		return
	}
	pub, pubXY := rd.spub, rd.spub.Bytes()[1:]
	msg := c.R.Bytes(c.R.Range(1, 80))
	type sig struct {
		h *big.Int
		s []byte // 65 bytes
	}
	// scripted nonces until there is a signature with h < 2^256 - N, one whose S has
	// x < 2^256 - p and one whose S has y < 2^256 - p (one signature may serve several)
	var hSmall, xSmall, ySmall *sig
	nm1 := new(big.Int).Sub(ref.N, big.NewInt(1))
	tries := 0
	for ; tries < 128 && (hSmall == nil || xSmall == nil || ySmall == nil); tries++ {
		r := new(big.Int).Add(c.R.BigBelow(nm1), big.NewInt(1))
		var hv *big.Int
		var s []byte
		if !c.Call("Sign(scripted nonce)", func() { hv, s, err = sm9.Sign(script(c, "alias-sign", ref.Bytes32(r)), suk, msg) }) {
			return
		}
		if err != nil || hv == nil || len(s) != 65 || s[0] != 4 {
			c.Fail("reject", "Sign with a scripted nonce: h=%v S=%x err=%v", hv, s, err)
			return
		}
		g := &sig{hv, s}
		if hSmall == nil && hv.Sign() > 0 && hv.Cmp(roomN) < 0 {
			hSmall = g
		}
		if xSmall == nil && small(s[1:33], roomP) {
			xSmall = g
		}
		if ySmall == nil && small(s[33:65], roomP) {
			ySmall = g
		}
	}
	c.Event("alias_search_candidates", tries)
	// verdict of the three entry points on (h', S') with the reference's strict verdict
	valid := func(v *big.Int, s []byte) bool {
		return v.Sign() > 0 && v.Cmp(ref.N) < 0 && pointVerdict(s) && modelVerify(pubXY, rd.uid, rd.hid, msg, ref.Bytes32(v), s[1:])
	}
	judge := func(api, what string, got bool, v *big.Int, s []byte, sameValue bool) {
		c.Event("alias_candidates", 1)
		switch {
		case !got:
			if sameValue {
				c.Event("alias_same_value_other_width_refused", 1)
			} else {
				c.Event("alias_refused", 1)
			}
		case valid(v, s):
			c.Event("alias_same_value_other_width_accepted", 1)
		default:
			c.Fail("accept", "%s accepts %s: h' = %x (%d bytes as integer) S' = %x; the reference refuses it (h' must be in [1, N-1], S' the canonical encoding of a point of G1, H2(M||w') = h')", api, what, v, len(v.Bytes()), s)
		}
	}
	honest := func(g *sig, when string) bool {
		der := ref.EncodeSignature(ref.Bytes32(g.h), g.s)
		var ok1, ok2, ok3 bool
		if !c.Call("verify honest", func() {
			ok1 = sm9.Verify(pub, rd.uid, rd.hid, msg, g.h, g.s)
			ok2 = sm9.VerifyASN1(pub, rd.uid, rd.hid, msg, der)
			ok3 = pub.Verify(rd.uid, rd.hid, msg, der)
		}) {
			return false
		}
		if !ok1 || !ok2 || !ok3 {
			c.Fail("reject", "the honest signature h=%x S=%x is refused %s: Verify=%v VerifyASN1=%v pub.Verify=%v", g.h, g.s, when, ok1, ok2, ok3)
			return false
		}
		c.Event("honest_verified", 3)
		return true
	}
	present := func(g *sig, what string, v *big.Int, s []byte) {
		same := v.Cmp(g.h) == 0 && bytes.Equal(s, g.s)
		var got bool
		if !same && c.Call("Verify(h', S')", func() { got = sm9.Verify(pub, rd.uid, rd.hid, msg, v, s) }) {
			judge("Verify(h *big.Int, S)", what, got, v, s, false)
		}
		if v.Sign() < 0 {
			return
		}
		for _, hb := range octetSpellings(v) {
			if same && len(hb) == 32 {
				continue // the honest signature itself
			}
			der := ref.EncodeSignature(hb, s)
			w := fmt.Sprintf("%s, h' as OCTET STRING of %d bytes", what, len(hb))
			if c.Call("VerifyASN1(h', S')", func() { got = sm9.VerifyASN1(pub, rd.uid, rd.hid, msg, der) }) {
				judge("VerifyASN1", w, got, v, s, same)
			}
			if c.Call("pub.Verify(h', S')", func() { got = pub.Verify(rd.uid, rd.hid, msg, der) }) {
				judge("pub.Verify", w, got, v, s, same)
			}
		}
	}
	done := map[*sig]bool{}
	for _, g := range []*sig{hSmall, xSmall, ySmall} {
		if g == nil {
			c.Event("alias_not_available/signature", 1)
			continue
		}
		if done[g] {
			continue
		}
		done[g] = true
		if !valid(g.h, g.s) {
			c.Fail("mismatch", "reference verification refuses the library's signature h=%x S=%x", g.h, g.s)
			continue
		}
		c.Event("model_verifications", 1)
		if !honest(g, "before the aliases") {
			continue
		}
		if g == hSmall {
			c.Event("alias_signatures_with_h+N_in_32_bytes", 1)
		}
		// integers: for every signature (h + N needs no room in Verify(h *big.Int, S))
		present(g, "the honest h in another width", g.h, g.s)
		for _, a := range intAliases(g.h, ref.N) {
			kind := a.kind
			if len(kind) > 0 && kind[0] == 'v' {
				kind = "h" + kind[1:]
			} else if kind == "-v" {
				kind = "-h"
			}
			present(g, "h' = "+kind+" with the honest S", a.v, g.s)
		}
		// points
		for _, a := range pointAliases(g.s[1:]) {
			c.Event("alias_points/S/"+a.kind, 1)
			s2 := append([]byte{4}, a.xy...)
			present(g, "the honest h with S' = S spelled "+a.kind, g.h, s2)
			if g.h.Cmp(roomN) < 0 {
				present(g, "h' = h+N with S' = S spelled "+a.kind, new(big.Int).Add(g.h, ref.N), s2)
			}
		}
		honest(g, "after the aliases")
	}
}

// ---- wrapped keys and ciphertexts

// derCipherWithType is SM9Cipher with an arbitrary content of the EnType INTEGER.
func derCipherWithType(ty []byte, c1x65, c3, c2 []byte) []byte {
	return ref.DERSequence(ref.TLV(0x02, ty), ref.DERBitString(c1x65), ref.DEROctetString(c3), ref.DEROctetString(c2))
}

func encAliasCase(c *mon.Case, rd *roundData) {
	qb := encUserPublic(rd.epub.Bytes()[1:], rd.uid, rd.hid)
	r, xy := smallPointScalar(c, qb)
	if r == nil {
		return
	}
	rb := ref.Bytes32(r)
	aliases := pointAliases(xy)
	var err error
	// ---- key encapsulation
	klen := []int{16, 100, 32, 240}[rd.id%4]
	var key, cip, got []byte
	if !c.Call("WrapKey(scripted nonce)", func() { key, cip, err = sm9.WrapKey(script(c, "alias-wrap", rb), rd.epub, rd.uid, rd.hid, klen) }) {
		return
	}
	if err != nil {
		c.Fail("reject", "WrapKey: %v", err)
		return
	}
	if len(cip) != 65 || !bytes.Equal(cip[1:], xy) {
		c.Event("alias_shape_missed_by_library_output", 1) // another way of drawing r: nothing to present
		return
	}
	unwrapHonest := func(when string) {
		if c.Call("UnwrapKey", func() { got, err = sm9.UnwrapKey(rd.euk, rd.uid, cip, klen) }) {
			if err != nil || !bytes.Equal(got, key) {
				c.Fail("reject", "UnwrapKey of the honest C %s: %x, %v", when, got, err)
			}
		}
	}
	unwrapHonest("before the aliases")
	for _, a := range aliases {
		c.Event("alias_points/C/"+a.kind, 1)
		forms := []struct {
			name string
			f    func() ([]byte, error)
		}{
			{"UnwrapKey(04||x||y)", func() ([]byte, error) { return sm9.UnwrapKey(rd.euk, rd.uid, append([]byte{4}, a.xy...), klen) }},
			{"UnwrapKey(x||y)", func() ([]byte, error) { return sm9.UnwrapKey(rd.euk, rd.uid, a.xy, klen) }},
			{"priv.UnwrapKey(DER)", func() ([]byte, error) {
				return rd.euk.UnwrapKey(rd.uid, ref.DERBitString(append([]byte{4}, a.xy...)), klen)
			}},
		}
		for _, f := range forms {
			c.Event("alias_candidates", 1)
			if !c.Call(f.name, func() { got, err = f.f() }) {
				continue
			}
			if err == nil {
				c.Fail("accept", "%s accepts C spelled %s (%x), which is not the canonical encoding of a point of G1 -> key %x (honest C %x, key %x)", f.name, a.kind, a.xy, got, cip, key)
			} else {
				c.Event("alias_refused", 1)
			}
		}
	}
	unwrapHonest("after the aliases")
	// ---- ciphertexts: the same nonce gives the same C1 in every mode and encoding
	for _, m := range ref.Modes {
		for _, asn1 := range []bool{false, true} {
			msg := c.R.Bytes(c.R.Range(1, 40))
			name := "alias/ct/" + m.String() + map[bool]string{false: "/raw", true: "/asn1"}[asn1]
			var ct []byte
			if !c.Call("encrypt(scripted nonce)", func() {
				if asn1 {
					ct, err = sm9.EncryptASN1(script(c, "alias-enc", rb), rd.epub, rd.uid, rd.hid, msg, optsOf(m))
				} else {
					ct, err = sm9.Encrypt(script(c, "alias-enc", rb), rd.epub, rd.uid, rd.hid, msg, optsOf(m))
				}
			}) {
				continue
			}
			if err != nil {
				c.Fail("reject", "encrypt %s: %v", name, err)
				continue
			}
			c1, c3, c2, ok := splitCipher(c, m, asn1, ct)
			if !ok {
				continue
			}
			off := bytes.Index(ct, xy)
			if !bytes.Equal(c1, xy) || off < 0 {
				c.Event("alias_shape_missed_by_library_output", 1)
				continue
			}
			if v := judgeCipher(c, rd, name, m, asn1, msg, "honest", ct); v != "same-plaintext" {
				c.Fail("reject", "%s: the honest ciphertext is not opened (%s)", name, v)
				continue
			}
			c.Event("mutants_decrypting_to_same_plaintext", -1)
			for _, a := range aliases {
				mut := append([]byte{}, ct...)
				copy(mut[off:], a.xy)
				c.Event("alias_candidates", 1)
				c.Event("alias_ciphertext/C1 "+a.kind+"/"+judgeCipher(c, rd, name, m, asn1, msg, "C1 spelled "+a.kind, mut), 1)
			}
			if !asn1 {
				continue
			}
			// EnType: other integers with the same low byte, and the same integer in other widths
			v := byte(m)
			for _, t := range []struct {
				kind string
				ty   []byte
			}{
				{"m+256", []byte{1, v}},
				{"m+2^16", []byte{1, 0, v}},
				{"m+2^32", []byte{1, 0, 0, 0, v}},
				{"m+2^63 (9 octets)", []byte{0, 0x80, 0, 0, 0, 0, 0, 0, v}},
				{"m+2^64", []byte{1, 0, 0, 0, 0, 0, 0, 0, v}},
				{"m-256", []byte{0xff, v}},
				{"m-2^32", []byte{0xff, 0, 0, 0, v}},
				{"m with a leading zero octet", []byte{0, v}},
				{"m with two leading zero octets", []byte{0, 0, v}},
			} {
				mut := derCipherWithType(t.ty, append([]byte{4}, c1...), c3, c2)
				c.Event("alias_candidates", 1)
				c.Event("alias_ciphertext/EnType "+t.kind+"/"+judgeCipher(c, rd, name, m, true, msg, "EnType spelled "+t.kind, mut), 1)
			}
		}
	}
}

// ---- key exchange

func kexAliasCase(c *mon.Case, rd *roundData) {
	ppub := rd.epub.Bytes()[1:]
	// RA = [rA]QB, RB = [rB]QA
	rA, raXY := smallPointScalar(c, encUserPublic(ppub, rd.uidB, rd.hid))
	rB, rbXY := smallPointScalar(c, encUserPublic(ppub, rd.uid, rd.hid))
	if rA == nil || rB == nil {
		return
	}
	a := rd.euk.NewKeyExchange(rd.uid, rd.uidB, 32, true)
	b := rd.eukB.NewKeyExchange(rd.uidB, rd.uid, 32, true)
	var ra, rb, sb, sa, ska, skb []byte
	var err error
	if !c.Call("InitKeyExchange(scripted nonce)", func() { ra, err = a.InitKeyExchange(script(c, "alias-kexA", ref.Bytes32(rA)), rd.hid) }) {
		return
	}
	if err != nil {
		c.Fail("reject", "InitKeyExchange: %v", err)
		return
	}
	ra = clone(ra)
	if len(ra) != 65 || !bytes.Equal(ra[1:], raXY) {
		c.Event("alias_shape_missed_by_library_output", 1)
		return
	}
	for _, al := range pointAliases(raXY) {
		c.Event("alias_points/RA/"+al.kind, 1)
		c.Event("alias_candidates", 1)
		b2 := rd.eukB.NewKeyExchange(rd.uidB, rd.uid, 32, true)
		m := append([]byte{4}, al.xy...)
		if !c.Call("RespondKeyExchange(RA spelled "+al.kind+")", func() { _, _, err = b2.RespondKeyExchange(script(c, "alias-kexB2", nil), rd.hid, m) }) {
			continue
		}
		if err == nil {
			c.Fail("accept", "RespondKeyExchange accepts RA spelled %s (%x), which is not 04||canonical point of G1 (honest RA %x)", al.kind, m, ra)
		} else {
			c.Event("alias_refused", 1)
		}
	}
	if !c.Call("RespondKeyExchange(scripted nonce)", func() { rb, sb, err = b.RespondKeyExchange(script(c, "alias-kexB", ref.Bytes32(rB)), rd.hid, ra) }) {
		return
	}
	if err != nil {
		c.Fail("reject", "RespondKeyExchange refuses the honest RA: %v", err)
		return
	}
	rb, sb = clone(rb), clone(sb)
	if len(rb) != 65 || !bytes.Equal(rb[1:], rbXY) {
		c.Event("alias_shape_missed_by_library_output", 1)
		return
	}
	for _, al := range pointAliases(rbXY) {
		c.Event("alias_points/RB/"+al.kind, 1)
		c.Event("alias_candidates", 1)
		m := append([]byte{4}, al.xy...)
		var k []byte
		if !c.Call("ConfirmResponder(RB spelled "+al.kind+")", func() { k, _, err = a.ConfirmResponder(m, sb) }) {
			continue
		}
		if err == nil {
			c.Fail("accept", "ConfirmResponder accepts RB spelled %s (%x) with the honest SB, which is not 04||canonical point of G1 (honest RB %x) -> key %x", al.kind, m, rb, k)
		} else {
			c.Event("alias_refused", 1)
		}
	}
	// the honest run completes on the objects that refused the aliases
	if !c.Call("ConfirmResponder", func() { ska, sa, err = a.ConfirmResponder(rb, sb) }) {
		return
	}
	if err != nil {
		c.Fail("reject", "after the refused aliases ConfirmResponder refuses the honest response: %v", err)
		return
	}
	sa = clone(sa)
	if !c.Call("ConfirmInitiator", func() { skb, err = b.ConfirmInitiator(sa) }) {
		return
	}
	if err != nil {
		c.Fail("reject", "ConfirmInitiator refuses the honest confirmation: %v", err)
		return
	}
	c.Eq("SKB vs SKA after the refused aliases", skb, ska)
	c.Event("key_exchanges", 1)
}
