package c10

import (
	"bytes"
	"fmt"
	"math/big"

	"github.com/emmansun/gmsm/padding"
	"github.com/emmansun/gmsm/sm4"
	"github.com/emmansun/gmsm/sm9"

	"verifh/mon"
	refpad "verifh/ref/pad"
	ref "verifh/ref/sm9"
	"verifh/wl/reg"
)

// c10.reuse: input-buffer independence and object histories for EVERY operation of
// the property on long-lived key objects.
//
// A caller may keep ONE piece of memory for the identity, one for the message, one
// for the signature / ciphertext / protocol message it currently works on, overwrite
// them in place between calls, and reuse the memory of every slice the library handed
// back. The property quantifies over values, not over where they are stored: each
// call must behave as if it had been given fresh copies, whatever the same key object
// was asked before. So every case below
//
//   - keeps its arguments in an ARENA (one backing array, fields at fixed offsets, each
//     argument a sub-slice whose capacity runs on into the caller's other data) and
//     overwrites the fields in place between calls,
//   - overwrites every slice a call returned before the next call,
//   - uses ONE master key object / ONE verifier object / ONE key object per user for
//     the whole history, built in every way the API offers (generated, Public(),
//     parsed from raw / DER bytes held in the arena and overwritten after the parse,
//     MasterPublic() of a user key),
//   - walks through ALL ordered pairs (previous identity, next identity) of a pool
//     of identities that are related in every way a cache key could get wrong: same
//     length and other content, same but for the last byte, one a proper prefix of
//     the other (longer and shorter than its predecessor in the same buffer), same
//     uid under another hid,
//
// and decides every single step by GROUND TRUTH: a signature verifies exactly under
// the (uid, hid, message) it was made for (made-for is established with the reference
// verifier on private copies); a ciphertext / wrapped key is for the identity the
// reference model says (KDF(C||e(C,de)||ID) with that identity's key), opens with
// that identity's key object and not with the previous identity's; user keys equal
// [t2]P with the reference H1; a key exchange gives the reference key for ITS two
// identities. After every call the whole arena is compared with its state before
// the call: the library must not write into the caller's memory (inside or behind
// the argument slices).

func init() { reg.Register("c10.reuse", "C10", reuse) }

func reuse(x *mon.Ctx) {
	selfTest(x)
	n := x.Scale(10, 150)
	for j := 0; j < n; j++ {
		hid := hids[j%4]
		if c := x.Begin("bufsign #%d hid=%#x verifier=%s: user keys, signatures and 61 verifications with uid / message / signature held in one reused arena, all ordered identity pairs", j, hid, signPubKinds[j%len(signPubKinds)]); c != nil {
			bufSignCase(c, j, hid)
			c.End()
		}
		if c := x.Begin("bufenc #%d hid=%#x master public key=%s: wrap / encrypt / unwrap / decrypt with uid / plaintext / ciphertext held in one reused arena, all ordered identity pairs", j, hid, encPubKinds[j%len(encPubKinds)]); c != nil {
			bufEncCase(c, j, hid)
			c.End()
		}
		if c := x.Begin("bufkex #%d hid=%#x: 12 sequential key exchanges (all ordered pairs of 4 identities) on long-lived user keys; uid buffers overwritten while the session is live, every received message read into the party's one receive buffer, every returned slice overwritten before the next step", j, hid); c != nil {
			bufKexCase(c, j, hid)
			c.End()
		}
	}
	options(x)
}

// ---- the caller's memory

type arena struct {
	c    *mon.Case
	name string
	mem  []byte
	snap []byte
}

func newArena(c *mon.Case, name string, size int) *arena {
	a := &arena{c: c, name: name, mem: make([]byte, size), snap: make([]byte, size)}
	c.R.Fill(a.mem) // dirty: the spare capacity behind every argument is non-zero
	return a
}

// put overwrites the arena in place at off and returns the field as a slice whose
// capacity runs to the end of the arena.
func (a *arena) put(off int, b []byte) []byte {
	if off+len(b) > len(a.mem) {
		panic("c10: arena too small")
	}
	copy(a.mem[off:], b)
	return a.mem[off : off+len(b)]
}

// mark remembers the arena as it is handed to the library.
func (a *arena) mark() { copy(a.snap, a.mem) }

// diff returns the first and last+1 offset at which the arena differs from mark().
func (a *arena) diff() (lo, hi int) {
	lo = -1
	for i := range a.mem {
		if a.mem[i] != a.snap[i] {
			if lo < 0 {
				lo = i
			}
			hi = i + 1
		}
	}
	return
}

// intact demands that the call just made left the caller's memory alone.
func (a *arena) intact(what string) bool {
	a.c.Event("arena_checks", 1)
	lo, hi := a.diff()
	if lo < 0 {
		return true
	}
	a.c.Fail("mismatch", "%s wrote into the caller's memory (%s, offsets %d..%d): before %x after %x", what, a.name, lo, hi-1, a.snap[lo:hi], a.mem[lo:hi])
	copy(a.mem, a.snap)
	return false
}

// scribble overwrites a slice the library returned, over its whole capacity: the
// memory is the caller's now.
func scribble(bs ...[]byte) {
	for _, b := range bs {
		b = b[:cap(b)]
		for i := range b {
			b[i] = 0xA5
		}
	}
}

// ---- identities

type ident struct {
	uid []byte // ground truth; the library only ever sees arena copies
	hid byte
}

func (a ident) String() string { return fmt.Sprintf("(uid %x, hid %#x)", a.uid, a.hid) }

// identPool returns five pairwise different identities: [1] has the length of [0]
// and other content, [2] is [0] but for one bit of the last byte, [3] has [0] as a
// proper prefix (even idx) or is a proper prefix of [0] (odd idx), [4] is the uid
// of [0] under another hid. Lengths 0 (rarely) and 1..130.
func identPool(r *mon.Rand, idx int, hid byte) []ident {
	l := 2 + r.Intn(69)
	if idx%4 == 3 {
		l = []int{16, 32, 55, 60, 64}[r.Intn(5)]
	}
	u0 := r.Bytes(l)
	u1 := r.Bytes(l)
	if bytes.Equal(u0, u1) {
		u1[0] ^= 0x80
	}
	u2 := append([]byte{}, u0...)
	u2[l-1] ^= 1 << uint(r.Intn(8))
	var u3 []byte
	if idx%2 == 0 {
		u3 = append(append([]byte{}, u0...), r.Bytes(r.Range(1, 60))...)
	} else {
		u3 = append([]byte{}, u0[:r.Intn(l)]...) // now and then the empty uid
	}
	return []ident{{u0, hid}, {u1, hid}, {u2, hid}, {u3, hid}, {u0, otherHid(hid)}}
}

// msgPool returns five pairwise different messages related like the identities of
// identPool: [1] has the length of [0], [2] is [0] but for one bit, [3] extends or
// shortens [0], [4] is unrelated.
func msgPool(r *mon.Rand, idx int) [][]byte {
	l := r.Range(8, 120)
	m0, m1 := r.Bytes(l), r.Bytes(l)
	if bytes.Equal(m0, m1) {
		m1[0] ^= 0x80
	}
	m2 := append([]byte{}, m0...)
	m2[r.Intn(l)] ^= 1 << uint(r.Intn(8))
	var m3 []byte
	if idx%4 < 2 {
		m3 = append(append([]byte{}, m0...), r.Bytes(r.Range(1, 60))...)
	} else {
		m3 = append([]byte{}, m0[:l-1-r.Intn(l-1)]...)
	}
	m4 := r.Bytes(r.Range(1, 180))
	for _, o := range [][]byte{m0, m1, m2, m3} {
		if bytes.Equal(o, m4) {
			m4 = append(m4, 0)
		}
	}
	return [][]byte{m0, m1, m2, m3, m4}
}

// eulerWalk returns a closed walk through the complete directed graph on k nodes
// that uses every ordered pair (a, b), a != b, exactly once (k(k-1)+1 nodes); the
// node names are permuted by perm.
func eulerWalk(k int, perm []int) []int {
	used := make([][]bool, k)
	for i := range used {
		used[i] = make([]bool, k)
	}
	next := make([]int, k)
	stack := []int{0}
	var out []int
	for len(stack) > 0 {
		v := stack[len(stack)-1]
		found := false
		for ; next[v] < k; next[v]++ {
			// visit the targets of v in the order v+1, v+2, ... so that the walk does not
			// run through the nodes in the same order all the time
			w := (v + 1 + next[v]) % k
			if w != v && !used[v][w] {
				used[v][w] = true
				stack = append(stack, w)
				found = true
				break
			}
		}
		if !found {
			out = append(out, perm[v])
			stack = stack[:len(stack)-1]
		}
	}
	for i, j := 0, len(out)-1; i < j; i, j = i+1, j-1 {
		out[i], out[j] = out[j], out[i]
	}
	return out
}

// arena layout (sign and encrypt cases)
const (
	offUID = 0    // <= 130 bytes
	offMsg = 192  // <= 300 bytes
	offCT  = 512  // signature (104) or ciphertext (<= 470)
	offKey = 1024 // key encodings handed to the parsers (<= 210)
	arSize = 1536 // >= 384 bytes of the caller's data behind every C1
)

// ---- signatures

var signPubKinds = []string{"PublicKey()", "Public()", "parsed-raw", "parsed-der-compressed", "user.MasterPublic()"}

func bufSignUser(c *mon.Case, ar *arena, smk *sm9.SignMasterPrivateKey, ks *big.Int, id ident) *sm9.SignPrivateKey {
	u := ar.put(offUID, id.uid)
	ar.mark()
	var suk *sm9.SignPrivateKey
	var err error
	if !c.Call("SignMasterPrivateKey.GenerateUserKey(uid in the reused buffer)", func() { suk, err = smk.GenerateUserKey(u, id.hid) }) {
		return nil
	}
	ar.intact("SignMasterPrivateKey.GenerateUserKey")
	t2, ok := ref.UserScalar(ks, id.uid, id.hid)
	if !ok {
		if err == nil {
			c.Fail("accept", "GenerateUserKey succeeded although H1(ID||hid)+ks = 0 mod N")
		}
		return nil
	}
	if err != nil {
		c.Fail("reject", "GenerateUserKey%v: %v", id, err)
		return nil
	}
	c.Eq(fmt.Sprintf("signature user key of %v, uid taken from the reused buffer, vs [t2]P1 with the reference H1", id), suk.Bytes(), g1BaseMul(t2))
	c.Event("reuse_user_keys", 1)
	return suk
}

func bufSignCase(c *mon.Case, idx int, hid byte) {
	kind := idx % len(signPubKinds)
	ids := identPool(c.R, idx, hid)
	c.Class("reuse/sign/verifier=%s/hid=%#x/uid3=%s", signPubKinds[kind], hid, []string{"longer", "shorter"}[idx%2])
	smk, ks := genSignMaster(c, "random")
	if smk == nil {
		return
	}
	pubBytes := g2BaseMul(ks) // independent of what Bytes() hands out
	ar := newArena(c, "the signer's / verifier's arena", arSize)
	var err error
	if idx%3 == 2 {
		// the master key object of this history is parsed from arena bytes that are then overwritten
		der := ref.DERInteger(ks)
		if idx%2 == 0 {
			der = ref.DERSequence(der, ref.DERBitString(pubBytes))
		}
		in := ar.put(offKey, der)
		ar.mark()
		var p *sm9.SignMasterPrivateKey
		if !c.Call("UnmarshalSignMasterPrivateKeyASN1(bytes in the arena)", func() { p, err = sm9.UnmarshalSignMasterPrivateKeyASN1(in) }) {
			return
		}
		ar.intact("UnmarshalSignMasterPrivateKeyASN1")
		if err != nil {
			c.Fail("reject", "UnmarshalSignMasterPrivateKeyASN1(%x): %v", der, err)
			return
		}
		c.R.Fill(in)
		if !p.Equal(smk) || !smk.Equal(p) {
			c.Fail("mismatch", "SignMasterPrivateKey parsed from the arena is not Equal to the original after the arena was overwritten")
		}
		smk = p
	}
	pub := smk.PublicKey()

	// what the key objects hand out is the caller's: overwriting it must not reach the objects
	scribble(smk.Bytes(), pub.Bytes())
	if d, e := smk.MarshalASN1(); e == nil {
		scribble(d)
	}
	if d, e := pub.MarshalASN1(); e == nil {
		scribble(d)
	}
	c.Eq("SignMasterPrivateKey.Bytes() after slices it returned earlier were overwritten", smk.Bytes(), ref.Bytes32(ks))
	c.Eq("SignMasterPublicKey.Bytes() after slices it returned earlier were overwritten", pub.Bytes(), pubBytes)

	// user keys: one master key object, the uid always in the same buffer
	suks := make([]*sm9.SignPrivateKey, len(ids))
	for i, id := range ids {
		if suks[i] = bufSignUser(c, ar, smk, ks, id); suks[i] == nil {
			return
		}
		want := append([]byte{}, suks[i].Bytes()...)
		scribble(suks[i].Bytes())
		if d, e := suks[i].MarshalASN1(); e == nil {
			scribble(d)
		}
		c.Eq("SignPrivateKey.Bytes() after slices it returned earlier were overwritten", suks[i].Bytes(), want)
	}
	for i := len(ids) - 1; i >= 0; i-- {
		again := bufSignUser(c, ar, smk, ks, ids[i])
		if again == nil {
			return
		}
		if !again.Equal(suks[i]) || !suks[i].Equal(again) {
			c.Fail("mismatch", "the key generated a second time for %v is not Equal to the first", ids[i])
		}
		for j := range ids {
			if j != i && (suks[j].Equal(again) || again.Equal(suks[j])) {
				c.Fail("mismatch", "SignPrivateKey.Equal is true for the keys of %v and %v", ids[i], ids[j])
			}
		}
		if again.Equal(smk) || smk.Equal(again) || pub.Equal(again) || smk.Equal(smk.PublicKey()) {
			c.Fail("mismatch", "Equal is true across key types")
		}
	}
	// every second signing key is parsed back from bytes held in the arena, which are
	// overwritten as soon as the parser returned (such a key carries its own master public key object)
	for i := range ids {
		if (i+idx)%2 == 0 {
			continue
		}
		var der []byte
		if (i+idx)%4 == 1 {
			der = ref.DERSequence(ref.DERBitString(suks[i].Bytes()), ref.DERBitString(pubBytes))
		} else {
			der = ref.DERSequence(ref.DERBitString(ref.Compress(suks[i].Bytes())), ref.DERBitString(ref.Compress(pubBytes)))
		}
		in := ar.put(offKey, der)
		ar.mark()
		var p *sm9.SignPrivateKey
		if !c.Call("UnmarshalSignPrivateKeyASN1(bytes in the arena)", func() { p, err = sm9.UnmarshalSignPrivateKeyASN1(in) }) {
			return
		}
		ar.intact("UnmarshalSignPrivateKeyASN1")
		if err != nil {
			c.Fail("reject", "UnmarshalSignPrivateKeyASN1(%x): %v", der, err)
			return
		}
		c.R.Fill(in)
		if !p.Equal(suks[i]) {
			c.Fail("mismatch", "SignPrivateKey parsed from the arena is not Equal to the original after the arena was overwritten")
		}
		suks[i] = p
	}

	// one signature per identity, the message in the arena, three entry points
	type signed struct{ msg, der, h, s []byte }
	sg := make([]signed, len(ids))
	rnd := script(c, "reuse-sign", nil)
	msgs := msgPool(c.R, idx)
	for i, id := range ids {
		msg := msgs[i]
		m := ar.put(offMsg, msg)
		ar.mark()
		var der, s []byte
		var h *big.Int
		api := []string{"SignASN1", "priv.Sign", "Sign(h,S)"}[(i+idx)%3]
		ok := c.Call(api, func() {
			switch api {
			case "SignASN1":
				der, err = sm9.SignASN1(rnd, suks[i], m)
			case "priv.Sign":
				der, err = suks[i].Sign(rnd, m, nil)
			default:
				h, s, err = sm9.Sign(rnd, suks[i], m)
			}
		})
		if !ok {
			return
		}
		ar.intact(api)
		if err != nil {
			c.Fail("reject", "%s by %v: %v", api, id, err)
			return
		}
		if api == "Sign(h,S)" {
			der = ref.EncodeSignature(ref.Bytes32(h), s)
			scribble(s)
		}
		keep := append([]byte{}, der...)
		scribble(der)
		hb, sb, perr := ref.ParseSignature(keep)
		if perr != nil || len(hb) != 32 || len(sb) != 65 || sb[0] != 4 || len(keep) != 104 {
			c.Fail("mismatch", "%s output is not SEQUENCE{OCTET STRING(32), BIT STRING(04||x||y)}: %x", api, keep)
			return
		}
		// made-for: the reference verifier on private copies
		if !modelVerify(pubBytes[1:], id.uid, id.hid, msg, hb, sb[1:]) {
			c.Fail("mismatch", "reference verification refuses the signature %s made with the key of %v over a message held in the reused arena: %x", api, id, keep)
			return
		}
		c.Event("model_verifications", 1)
		digest(c, fmt.Sprintf("reuse/sig%d/%s", i, api), keep)
		sg[i] = signed{msg, keep, hb, sb}
	}
	hOff, sOff := bytes.Index(sg[0].der, sg[0].h), bytes.LastIndex(sg[0].der, sg[0].s)

	// the ONE verifier object of this history
	var vpub *sm9.SignMasterPublicKey
	switch signPubKinds[kind] {
	case "PublicKey()":
		vpub = pub
	case "Public()":
		vpub, _ = smk.Public().(*sm9.SignMasterPublicKey)
	case "parsed-raw":
		in := ar.put(offKey, pubBytes)
		ar.mark()
		if !c.Call("UnmarshalSignMasterPublicKeyRaw(bytes in the arena)", func() { vpub, err = sm9.UnmarshalSignMasterPublicKeyRaw(in) }) {
			return
		}
		ar.intact("UnmarshalSignMasterPublicKeyRaw")
		c.R.Fill(in)
	case "parsed-der-compressed":
		in := ar.put(offKey, ref.DERBitString(ref.Compress(pubBytes)))
		ar.mark()
		if !c.Call("UnmarshalSignMasterPublicKeyASN1(bytes in the arena)", func() { vpub, err = sm9.UnmarshalSignMasterPublicKeyASN1(in) }) {
			return
		}
		ar.intact("UnmarshalSignMasterPublicKeyASN1")
		c.R.Fill(in)
	case "user.MasterPublic()":
		vpub = suks[(idx/len(signPubKinds))%len(suks)].MasterPublic()
	}
	if err != nil || vpub == nil {
		c.Fail("reject", "verifier object (%s): %v", signPubKinds[kind], err)
		return
	}
	c.Eq("verifier object bytes ("+signPubKinds[kind]+")", vpub.Bytes(), pubBytes)
	if !vpub.Equal(pub) || !pub.Equal(vpub) {
		c.Fail("mismatch", "verifier object (%s) is not Equal to the generated master public key", signPubKinds[kind])
	}

	// the history: (claimed identity, signature, message) live in three fields of the arena
	// and are overwritten in place ONE FIELD AT A TIME, in all six orders
	var cu, cs, cm int // whose uid / signature / message the fields hold now
	var fu, fs, fm []byte
	setField := func(f byte, i int) {
		switch f {
		case 'U':
			cu, fu = i, ar.put(offUID, ids[i].uid)
		case 'S':
			cs, fs = i, ar.put(offCT, sg[i].der)
		case 'M':
			cm, fm = i, ar.put(offMsg, sg[i].msg)
		}
	}
	step := 0
	prev := "nothing"
	verify := func() {
		step++
		want := cu == cs && cs == cm
		api := []string{"VerifyASN1", "pub.Verify", "Verify(h,S)"}[(step+idx)%3]
		ar.mark()
		var got bool
		ok := c.Call(api, func() {
			switch api {
			case "VerifyASN1":
				got = sm9.VerifyASN1(vpub, fu, ids[cu].hid, fm, fs)
			case "pub.Verify":
				got = vpub.Verify(fu, ids[cu].hid, fm, fs)
			default:
				got = sm9.Verify(vpub, fu, ids[cu].hid, fm, new(big.Int).SetBytes(fs[hOff:hOff+32]), fs[sOff:sOff+65])
			}
		})
		if !ok {
			return
		}
		ar.intact(api)
		now := fmt.Sprintf("claimed %v, signature of #%d, message of #%d", ids[cu], cs, cm)
		switch {
		case got && !want:
			c.Fail("accept", "step %d: %s on the reused verifier object accepts [%s]: the signature was made by %v over another %s; the fields were overwritten in place, previous call: [%s]",
				step, api, now, ids[cs], map[bool]string{true: "identity", false: "message"}[cu != cs], prev)
		case !got && want:
			c.Fail("reject", "step %d: %s on the reused verifier object refuses the honest [%s] after the fields were overwritten in place; previous call: [%s]", step, api, now, prev)
		case want:
			c.Event("reuse_honest_verified", 1)
		default:
			c.Event("reuse_wrong_context_refused", 1)
		}
		prev = now
	}
	walk := eulerWalk(len(ids), c.R.Perm(len(ids)))
	orders := []string{"USM", "UMS", "SUM", "SMU", "MUS", "MSU"}
	for _, f := range "USM" {
		setField(byte(f), walk[0])
	}
	verify()
	for t := 1; t < len(walk); t++ {
		for _, f := range orders[(t+idx)%6] {
			setField(byte(f), walk[t])
			verify()
		}
	}
}

// ---- wrapping and encryption

var encPubKinds = []string{"PublicKey()", "Public()", "parsed-raw", "parsed-der-compressed", "user.MasterPublic()"}

func bufEncUser(c *mon.Case, ar *arena, emk *sm9.EncryptMasterPrivateKey, ke *big.Int, id ident) *sm9.EncryptPrivateKey {
	u := ar.put(offUID, id.uid)
	ar.mark()
	var euk *sm9.EncryptPrivateKey
	var err error
	if !c.Call("EncryptMasterPrivateKey.GenerateUserKey(uid in the reused buffer)", func() { euk, err = emk.GenerateUserKey(u, id.hid) }) {
		return nil
	}
	ar.intact("EncryptMasterPrivateKey.GenerateUserKey")
	t2, ok := ref.UserScalar(ke, id.uid, id.hid)
	if !ok {
		if err == nil {
			c.Fail("accept", "GenerateUserKey succeeded although H1(ID||hid)+ke = 0 mod N")
		}
		return nil
	}
	if err != nil {
		c.Fail("reject", "GenerateUserKey%v: %v", id, err)
		return nil
	}
	c.Eq(fmt.Sprintf("encryption user key of %v, uid taken from the reused buffer, vs [t2]P2 with the reference H1", id), euk.Bytes(), g2BaseMul(t2))
	c.Event("reuse_user_keys", 1)
	return euk
}

// bufEncUsers generates the user keys of ids on one master key object through the
// arena, twice, and replaces every second one by a key parsed from arena bytes. A key
// parsed from the raw point carries no master public key (documented): it can unwrap
// and decrypt but neither hand out MasterPublic() nor run a key exchange, so raw
// selects whether that form is used; bare[i] tells which keys are of that kind.
func bufEncUsers(c *mon.Case, ar *arena, emk *sm9.EncryptMasterPrivateKey, ke *big.Int, ids []ident, idx int, raw bool) (euks []*sm9.EncryptPrivateKey, bare []bool) {
	epubBytes := g1BaseMul(ke)
	euks, bare = make([]*sm9.EncryptPrivateKey, len(ids)), make([]bool, len(ids))
	for i, id := range ids {
		if euks[i] = bufEncUser(c, ar, emk, ke, id); euks[i] == nil {
			return nil, nil
		}
		want := append([]byte{}, euks[i].Bytes()...)
		scribble(euks[i].Bytes())
		if d, e := euks[i].MarshalASN1(); e == nil {
			scribble(d)
		}
		c.Eq("EncryptPrivateKey.Bytes() after slices it returned earlier were overwritten", euks[i].Bytes(), want)
	}
	for i := len(ids) - 1; i >= 0; i-- {
		again := bufEncUser(c, ar, emk, ke, ids[i])
		if again == nil {
			return nil, nil
		}
		if !again.Equal(euks[i]) || !euks[i].Equal(again) {
			c.Fail("mismatch", "the key generated a second time for %v is not Equal to the first", ids[i])
		}
		for j := range ids {
			if j != i && (euks[j].Equal(again) || again.Equal(euks[j])) {
				c.Fail("mismatch", "EncryptPrivateKey.Equal is true for the keys of %v and %v", ids[i], ids[j])
			}
		}
		if again.Equal(emk) || emk.Equal(again) || emk.PublicKey().Equal(again) || emk.Equal(emk.PublicKey()) {
			c.Fail("mismatch", "Equal is true across key types")
		}
	}
	for i := range ids {
		if (i+idx)%2 == 0 {
			continue
		}
		var p *sm9.EncryptPrivateKey
		var err error
		var in []byte
		what := "UnmarshalEncryptPrivateKeyASN1"
		switch form := (i + idx) % 6; {
		case form == 5 && raw:
			what, bare[i] = "UnmarshalEncryptPrivateKeyRaw", true
			in = ar.put(offKey, euks[i].Bytes())
		case form == 3:
			in = ar.put(offKey, ref.DERSequence(ref.DERBitString(ref.Compress(euks[i].Bytes())), ref.DERBitString(ref.Compress(epubBytes))))
		default:
			in = ar.put(offKey, ref.DERSequence(ref.DERBitString(euks[i].Bytes()), ref.DERBitString(epubBytes)))
		}
		ar.mark()
		if !c.Call(what+"(bytes in the arena)", func() {
			if what == "UnmarshalEncryptPrivateKeyRaw" {
				p, err = sm9.UnmarshalEncryptPrivateKeyRaw(in)
			} else {
				p, err = sm9.UnmarshalEncryptPrivateKeyASN1(in)
			}
		}) {
			return nil, nil
		}
		ar.intact(what)
		if err != nil {
			c.Fail("reject", "%s(%x): %v", what, in, err)
			return nil, nil
		}
		c.R.Fill(in)
		if !p.Equal(euks[i]) {
			c.Fail("mismatch", "EncryptPrivateKey parsed from the arena is not Equal to the original after the arena was overwritten")
		}
		euks[i] = p
	}
	return euks, bare
}

// padTail recognises the one way in which the unchanged library writes into the
// caller's memory: the block-mode options hand the caller's plaintext slice to
// padding.Pad, which appends the padding in place when the slice has spare
// capacity. lo..hi is the modified span, end the offset behind the plaintext.
func padTail(ar *arena, lo, hi, end int, want []byte) bool {
	return lo >= end && hi <= end+len(want) && bytes.Equal(ar.mem[end:end+len(want)], want)
}

func bufEncCase(c *mon.Case, idx int, hid byte) {
	kind := idx % len(encPubKinds)
	ids := identPool(c.R, idx, hid)
	c.Class("reuse/enc/masterpub=%s/hid=%#x/uid3=%s", encPubKinds[kind], hid, []string{"longer", "shorter"}[idx%2])
	emk, ke := genEncMaster(c, "random", false)
	if emk == nil {
		return
	}
	epubBytes := g1BaseMul(ke) // independent of what Bytes() hands out
	ar := newArena(c, "the sender's / receiver's arena", arSize)
	var err error
	if idx%3 == 2 {
		// the master key object of this history is parsed from arena bytes that are then overwritten
		der := ref.DERInteger(ke)
		if idx%2 == 0 {
			der = ref.DERSequence(der, ref.DERBitString(epubBytes))
		}
		in := ar.put(offKey, der)
		ar.mark()
		var p *sm9.EncryptMasterPrivateKey
		if !c.Call("UnmarshalEncryptMasterPrivateKeyASN1(bytes in the arena)", func() { p, err = sm9.UnmarshalEncryptMasterPrivateKeyASN1(in) }) {
			return
		}
		ar.intact("UnmarshalEncryptMasterPrivateKeyASN1")
		if err != nil {
			c.Fail("reject", "UnmarshalEncryptMasterPrivateKeyASN1(%x): %v", der, err)
			return
		}
		c.R.Fill(in)
		if !p.Equal(emk) || !emk.Equal(p) {
			c.Fail("mismatch", "EncryptMasterPrivateKey parsed from the arena is not Equal to the original after the arena was overwritten")
		}
		emk = p
	}
	epub := emk.PublicKey()
	scribble(emk.Bytes(), epub.Bytes())
	if d, e := emk.MarshalASN1(); e == nil {
		scribble(d)
	}
	if d, e := epub.MarshalASN1(); e == nil {
		scribble(d)
	}
	c.Eq("EncryptMasterPrivateKey.Bytes() after slices it returned earlier were overwritten", emk.Bytes(), ref.Bytes32(ke))
	c.Eq("EncryptMasterPublicKey.Bytes() after slices it returned earlier were overwritten", epub.Bytes(), epubBytes)
	euks, bare := bufEncUsers(c, ar, emk, ke, ids, idx, true)
	if euks == nil {
		return
	}
	des := make([][]byte, len(ids))
	for i := range euks {
		des[i] = euks[i].Bytes()[1:]
	}

	// the ONE master public key object of the sender
	var spub *sm9.EncryptMasterPublicKey
	switch encPubKinds[kind] {
	case "PublicKey()":
		spub = epub
	case "Public()":
		spub, _ = emk.Public().(*sm9.EncryptMasterPublicKey)
	case "parsed-raw":
		in := ar.put(offKey, epubBytes)
		ar.mark()
		if !c.Call("UnmarshalEncryptMasterPublicKeyRaw(bytes in the arena)", func() { spub, err = sm9.UnmarshalEncryptMasterPublicKeyRaw(in) }) {
			return
		}
		ar.intact("UnmarshalEncryptMasterPublicKeyRaw")
		c.R.Fill(in)
	case "parsed-der-compressed":
		in := ar.put(offKey, ref.DERBitString(ref.Compress(epubBytes)))
		ar.mark()
		if !c.Call("UnmarshalEncryptMasterPublicKeyASN1(bytes in the arena)", func() { spub, err = sm9.UnmarshalEncryptMasterPublicKeyASN1(in) }) {
			return
		}
		ar.intact("UnmarshalEncryptMasterPublicKeyASN1")
		c.R.Fill(in)
	case "user.MasterPublic()":
		k := (idx / len(encPubKinds)) % len(euks)
		for bare[k] {
			k = (k + 1) % len(euks) // at most every second key is parsed
		}
		spub = euks[k].MasterPublic()
	}
	if err != nil || spub == nil {
		c.Fail("reject", "master public key object (%s): %v", encPubKinds[kind], err)
		return
	}
	c.Eq("master public key object bytes ("+encPubKinds[kind]+")", spub.Bytes(), epubBytes)
	if !spub.Equal(epub) || !epub.Equal(spub) {
		c.Fail("mismatch", "master public key object (%s) is not Equal to the generated one", encPubKinds[kind])
	}

	pk := padding.NewPKCS7Padding(16)
	own := map[ref.Mode]sm9.EncrypterOpts{
		ref.XOR: new(sm9.XOREncrypterOpts),
		ref.ECB: sm9.NewECBEncrypterOpts(pk, sm4.NewCipher, 16),
		ref.CBC: sm9.NewCBCEncrypterOpts(pk, sm4.NewCipher, 16),
		ref.CFB: sm9.NewCFBEncrypterOpts(sm4.NewCipher, 16),
		ref.OFB: sm9.NewOFBEncrypterOpts(sm4.NewCipher, 16),
	}
	dopts := &sm9.DecrypterOptsWithUID{} // ONE options object; its fields follow the arena
	rnd := script(c, "reuse-enc", nil)
	type sent struct {
		m    ref.Mode
		asn1 bool
		ct   []byte
		msg  []byte
	}
	last := make([]*sent, len(ids))
	walk := eulerWalk(len(ids), c.R.Perm(len(ids)))
	for t := 1; t < len(walk); t++ {
		a, b := walk[t-1], walk[t]
		ida, idb := ids[a], ids[b]
		// the uid field held ida during the previous step; now it is overwritten with idb
		u := ar.put(offUID, idb.uid)
		hist := fmt.Sprintf("step %d, uid buffer overwritten in place: %v -> %v", t, ida, idb)
		c.Detail("history", hist)
		if t%4 == 0 {
			// ---- key encapsulation
			klen := pickKLen(c.R, (t/4)%3)
			api := []string{"WrapKey", "pub.WrapKey", "pub.WrapKeyASN1"}[(t/4+idx)%3]
			var key, cip, raw []byte
			ar.mark()
			if !c.Call(api, func() {
				switch api {
				case "WrapKey":
					key, cip, err = sm9.WrapKey(rnd, spub, u, idb.hid, klen)
				case "pub.WrapKey":
					key, cip, err = spub.WrapKey(rnd, u, idb.hid, klen)
				default:
					cip, err = spub.WrapKeyASN1(rnd, u, idb.hid, klen)
				}
			}) {
				continue
			}
			ar.intact(api)
			if err != nil {
				c.Fail("reject", "%s (%s): %v", api, hist, err)
				continue
			}
			keepCip := append([]byte{}, cip...)
			var perr error
			switch api {
			case "WrapKey":
				raw = keepCip
			case "pub.WrapKey":
				raw, perr = ref.ParseBitString(keepCip)
			default:
				key, raw, perr = ref.ParseKeyPackage(keepCip)
			}
			keepKey := append([]byte{}, key...)
			scribble(cip)
			if api != "pub.WrapKeyASN1" {
				scribble(key)
			}
			if perr != nil || len(keepKey) != klen || len(raw) != 65 || raw[0] != 4 || !ref.OnCurveG1(raw[1:]) {
				c.Fail("mismatch", "%s (%s): key of %d bytes (want %d), C = %x", api, hist, len(keepKey), klen, keepCip)
				continue
			}
			digest(c, fmt.Sprintf("reuse/wrap%d/%s/klen%d", t, api, klen), keepKey, keepCip)
			// made-for: the reference KDF with the pairing of idb's key
			if !c.Eq(fmt.Sprintf("%s (%s): key vs reference KDF(C||e(C,de)||ID, %d) for %v", api, hist, klen, idb), keepKey, ref.KDF(ref.Cat(raw[1:], modelW(raw[1:], des[b]), idb.uid), klen)) {
				continue
			}
			c.Event("model_kdf_checks", 1)
			// unwrap with idb's key object, every argument in the arena
			var got []byte
			cin := ar.put(offCT, raw)
			what := "UnwrapKey"
			switch (t/4 + idx) % 3 {
			case 1:
				what, cin = "priv.UnwrapKey(DER)", ar.put(offCT, ref.DERBitString(raw))
			case 2:
				cin = ar.put(offCT, raw[1:])
			}
			ar.mark()
			if c.Call(what, func() {
				if what == "UnwrapKey" {
					got, err = sm9.UnwrapKey(euks[b], u, cin, klen)
				} else {
					got, err = euks[b].UnwrapKey(u, cin, klen)
				}
			}) {
				ar.intact(what)
				if err != nil {
					c.Fail("reject", "%s (%s) refuses the wrapped key: %v", what, hist, err)
				} else {
					c.Eq(what+" ("+hist+")", got, keepKey)
					scribble(got)
				}
			}
			// the uid buffer goes back to the previous identity, whose key object is used: another key
			ua := ar.put(offUID, ida.uid)
			ar.mark()
			if c.Call("UnwrapKey(previous identity)", func() { got, err = sm9.UnwrapKey(euks[a], ua, ar.mem[offCT:offCT+len(cin)], klen) }) {
				ar.intact("UnwrapKey")
				if err == nil && bytes.Equal(got, keepKey) {
					c.Fail("accept", "%s: the key wrapped for %v is unwrapped by the key object of %v", hist, idb, ida)
				} else {
					c.Event("reuse_wrong_context_refused", 1)
				}
			}
			c.Event("reuse_wraps", 1)
			continue
		}
		// ---- encryption
		m := ref.Modes[(t+idx)%5]
		form := []string{"Encrypt", "EncryptASN1", "pub.Encrypt"}[(t/5+t+idx)%3]
		asn1 := form != "Encrypt"
		o := own[m]
		switch {
		case m == ref.XOR && t%2 == 1:
			o = nil // nil selects XOR in all three entry points
		case t%3 == 0:
			o = optsOf(m)
		}
		enc := map[bool]string{false: "raw", true: "asn1"}[asn1]
		c.Class("reuse/enc/%v/%s", m, enc)
		// seal encrypts msg, held in the message field of the arena, for idb and establishes
		// with the reference model that the result is a ciphertext of msg for idb
		seal := func(tag string, msg []byte) []byte {
			mm := ar.put(offMsg, msg)
			var ct []byte
			ar.mark()
			if !c.Call(form, func() {
				switch form {
				case "Encrypt":
					ct, err = sm9.Encrypt(rnd, spub, u, idb.hid, mm, o)
				case "EncryptASN1":
					ct, err = sm9.EncryptASN1(rnd, spub, u, idb.hid, mm, o)
				default:
					ct, err = spub.Encrypt(rnd, u, idb.hid, mm, o)
				}
			}) {
				return nil
			}
			if lo, hi := ar.diff(); lo >= 0 && (m == ref.ECB || m == ref.CBC) && padTail(ar, lo, hi, offMsg+len(msg), refpad.Pad(refpad.PKCS7, 16, msg)[len(msg):]) {
				// library behaviour on the unchanged tree, outside what the property states; reported, not judged
				c.Event("observed_blockmode_encrypt_appends_padding_in_callers_spare_capacity", 1)
				copy(ar.mem, ar.snap)
			} else {
				ar.intact(form)
			}
			if err != nil {
				c.Fail("reject", "%s %v (%s): %v", form, m, hist, err)
				return nil
			}
			keep := append([]byte{}, ct...)
			scribble(ct)
			digest(c, fmt.Sprintf("reuse/enc%d%s/%v/%s/len%d", t, tag, m, enc, len(msg)), keep)
			before := c.Failed()
			checkCipher(c, m, asn1, keep, des[b], idb.uid, msg)
			if !before && c.Failed() {
				return nil
			}
			c.Event("reuse_encryptions", 1)
			return keep
		}
		// open decrypts ct, held in the ciphertext field of the arena, with idb's key object
		var eps []string
		if asn1 {
			eps = []string{"DecryptASN1", "priv.DecryptASN1", "priv.Decrypt(uid)", "priv.Decrypt(DecrypterOptsWithUID)"}
		} else {
			eps = []string{"Decrypt", "priv.Decrypt(DecrypterOptsWithUID)"}
		}
		ep := eps[(t+idx/2)%len(eps)]
		var got []byte
		open := func(what string, ct, msg []byte) {
			e := ep
			if !asn1 && ref.IsOneSequence(ct) {
				e = "Decrypt" // priv.Decrypt is specified to read input that is exactly one DER SEQUENCE as ASN.1
			}
			cin := ar.put(offCT, ct)
			do := o
			if do == nil && !asn1 && e != "Decrypt" {
				do = own[m]
			}
			dopts.EncrypterOpts, dopts.UID = do, u
			ar.mark()
			if !c.Call(e, func() {
				switch e {
				case "Decrypt":
					got, err = sm9.Decrypt(euks[b], u, cin, o)
				case "DecryptASN1":
					got, err = sm9.DecryptASN1(euks[b], u, cin)
				case "priv.DecryptASN1":
					got, err = euks[b].DecryptASN1(u, cin)
				case "priv.Decrypt(uid)":
					got, err = euks[b].Decrypt(nil, cin, u)
				default:
					got, err = euks[b].Decrypt(nil, cin, dopts)
				}
			}) {
				return
			}
			ar.intact(e)
			if err != nil {
				c.Fail("reject", "%s (%v/%s, %s) refuses %s held in the reused arena: %v", e, m, enc, hist, what, err)
				return
			}
			c.Eq(fmt.Sprintf("%s (%v/%s, %s): %s", e, m, enc, hist, what), got, msg)
			scribble(got)
			c.Event("reuse_honest_decrypted", 1)
		}
		msg := c.R.Bytes(pickMsgLen(c.R, m, t%3))
		keep := seal("", msg)
		if keep == nil {
			continue
		}
		open("the honest ciphertext", keep, msg)
		switch p := last[b]; {
		case t%3 == 1:
			// ANOTHER message of the same length goes through the same message buffer, its
			// ciphertext (same length) through the same ciphertext buffer, to the same key object
			msg2 := c.R.Bytes(len(msg))
			if bytes.Equal(msg2, msg) {
				msg2[0] ^= 1
			}
			if keep2 := seal("b", msg2); keep2 != nil {
				if len(keep2) != len(keep) {
					c.Fail("mismatch", "%s: two %v ciphertexts of %d-byte messages have %d and %d bytes", hist, m, len(msg), len(keep), len(keep2))
				}
				open("the ciphertext of a second message of the same length, written over the first", keep2, msg2)
				open("the first ciphertext again, written over the second", keep, msg)
			}
		case p != nil && t%3 == 2:
			// the SAME key object opens its previous ciphertext (another mode and length), written over this one
			cin2 := ar.put(offCT, p.ct)
			ar.mark()
			if c.Call("decrypt(previous ciphertext of the same key object, same buffer)", func() {
				if p.asn1 {
					got, err = sm9.DecryptASN1(euks[b], u, cin2)
				} else {
					got, err = sm9.Decrypt(euks[b], u, cin2, own[p.m])
				}
			}) {
				ar.intact("decrypt")
				if err != nil {
					c.Fail("reject", "%s: the key object of %v refuses its earlier %v ciphertext after the ciphertext buffer was overwritten with it: %v", hist, idb, p.m, err)
				} else {
					c.Eq("earlier ciphertext of the same key object ("+hist+")", got, p.msg)
					scribble(got)
					c.Event("reuse_honest_decrypted", 1)
				}
			}
		}
		cin := ar.put(offCT, keep)
		// the uid buffer goes back to the previous identity, whose key object is used: refused
		ua := ar.put(offUID, ida.uid)
		ar.mark()
		if c.Call("decrypt(previous identity)", func() {
			if asn1 {
				got, err = sm9.DecryptASN1(euks[a], ua, cin)
			} else {
				got, err = sm9.Decrypt(euks[a], ua, cin, own[m])
			}
		}) {
			ar.intact("decrypt")
			if err == nil {
				c.Fail("accept", "%s: the %v ciphertext for %v opens with the key object of %v -> %x", hist, m, idb, ida, got)
			} else {
				c.Event("reuse_wrong_context_refused", 1)
			}
		}
		last[b] = &sent{m, asn1, keep, msg}
	}
}

// ---- key exchange

// arena layout of one party of the key exchange: its two uid buffers and ONE receive
// buffer into which every protocol message it gets is read (the responder reads RA and
// later SA over it; the initiator reads the response RB||SB).
const (
	kxSelf = 0   // own uid
	kxPeer = 192 // peer uid
	kxNet  = 384 // the receive buffer
	kxSize = 1024
)

// bufKexCase: the exchange object outlives every call that feeds it, so the arena
// discipline is applied at every step of every session. The uid buffers given to
// NewKeyExchange are overwritten as soon as the constructor returned and again after
// every step; each party reads every message it receives into its ONE receive buffer,
// which is overwritten again as soon as the step returned (the responder's RA is gone
// - overwritten by SA - when ConfirmInitiator runs); every slice a step returned (RA,
// RB, SB, SA, the keys) is overwritten before the next step of either party. The
// messages travel between the parties as private copies (the network). Every session
// must complete - both confirmations accepted - with the reference key, SB and SA for
// ITS identities and messages.
func bufKexCase(c *mon.Case, idx int, hid byte) {
	ids := identPool(c.R, idx, hid)[:4]
	confirm := idx%3 != 2
	destroy := idx%2 == 1
	e := &kexEnv{c: c, hid: hid, confirm: confirm, klen: pickKLen(c.R, idx%3)}
	c.Class("reuse/kex/confirm=%v/destroy=%v/kdf-blocks=%s", confirm, destroy, blockClass(e.klen))
	emk, ke := genEncMaster(c, "random", false)
	if emk == nil {
		return
	}
	e.ppub = emk.PublicKey().Bytes()[1:]
	memI, memR := newArena(c, "the initiator's arena", kxSize), newArena(c, "the responder's arena", kxSize)
	kar := newArena(c, "the key generation centre's arena", arSize)
	euks, _ := bufEncUsers(c, kar, emk, ke, ids, idx, false)
	if euks == nil {
		return
	}
	// trash overwrites everything the two parties keep in their arenas: the uid buffers the
	// exchange objects were constructed from and the receive buffers of the steps that returned
	trash := func() {
		c.R.Fill(memI.mem)
		c.R.Fill(memR.mem)
	}
	side := func(m *arena, self, peer int, label string) *kexSide {
		s := &kexSide{uid: ids[self].uid, peer: ids[peer].uid, uk: euks[self], ukPeer: euks[peer]}
		s.stream = c.R.Bytes(32 * 24)
		s.rnd = script(c, label, s.stream)
		us, up := m.put(kxSelf, s.uid), m.put(kxPeer, s.peer)
		m.mark()
		s.ke = s.uk.NewKeyExchange(us, up, e.klen, confirm)
		m.intact("NewKeyExchange")
		return s
	}
	var err error
	session := func(tag, what string, a, b int) {
		A, B := side(memI, a, b, tag+"/A"), side(memR, b, a, tag+"/B")
		trash() // the uid buffers are the callers' again
		if destroy {
			defer c.Call("Destroy", func() { A.ke.Destroy(); B.ke.Destroy() })
		}
		hist := tag + " " + what + ", uid buffers, receive buffers and returned slices overwritten after every step"
		var ra, rb, sb, sa, ska, skb []byte
		memI.mark()
		if !c.Call(tag+": InitKeyExchange", func() { ra, err = A.ke.InitKeyExchange(A.rnd, hid) }) {
			return
		}
		memI.intact("InitKeyExchange")
		if err != nil {
			c.Fail("reject", "%s: InitKeyExchange: %v", hist, err)
			return
		}
		raC := clone(ra) // on the wire
		scribble(ra)
		trash()
		in := memR.put(kxNet, raC)
		memR.mark()
		if !c.Call(tag+": RespondKeyExchange", func() { rb, sb, err = B.ke.RespondKeyExchange(B.rnd, hid, in) }) {
			return
		}
		memR.intact("RespondKeyExchange")
		if err != nil {
			c.Fail("reject", "%s: RespondKeyExchange refuses the honest RA read into the responder's receive buffer: %v", hist, err)
			return
		}
		rbC, sbC := clone(rb), clone(sb) // on the wire
		scribble(rb, sb)
		trash()
		want, haveWant := e.expect(A, B, raC, rbC)
		if haveWant && confirm {
			c.Eq(hist+": SB vs reference for this session's identities and messages", sbC, want.SB)
		}
		inB := memI.put(kxNet, rbC)
		inS := memI.put(kxNet+len(rbC), sbC)
		memI.mark()
		if !c.Call(tag+": ConfirmResponder", func() { ska, sa, err = A.ke.ConfirmResponder(inB, inS) }) {
			return
		}
		memI.intact("ConfirmResponder")
		if err != nil {
			c.Fail("reject", "%s: ConfirmResponder refuses the honest response RB||SB read into the initiator's receive buffer: %v", hist, err)
			return
		}
		saC, skaC := clone(sa), clone(ska)
		scribble(sa, ska)
		trash()
		var inA []byte // nil: no confirmation was sent
		if saC != nil {
			inA = memR.put(kxNet, saC) // over the RA received earlier
		}
		memR.mark()
		if !c.Call(tag+": ConfirmInitiator", func() { skb, err = B.ke.ConfirmInitiator(inA) }) {
			return
		}
		memR.intact("ConfirmInitiator")
		if err != nil {
			c.Fail("reject", "%s: ConfirmInitiator refuses the honest confirmation SA read into the responder's receive buffer (over RA): %v", hist, err)
			return
		}
		c.Eq(hist+": responder's key vs initiator's key", skb, skaC)
		if len(skaC) != e.klen {
			c.Fail("mismatch", "%s: shared key has %d bytes, want %d", hist, len(skaC), e.klen)
		}
		if confirm && (len(sbC) != 32 || len(saC) != 32) || !confirm && (len(sbC) != 0 || len(saC) != 0) {
			c.Fail("mismatch", "%s: confirmation values: len(SB)=%d len(SA)=%d with confirm=%v", hist, len(sbC), len(saC), confirm)
		}
		if haveWant {
			c.Eq(hist+": shared key vs reference for this session's identities and messages", skaC, want.SK)
			if confirm {
				c.Eq(hist+": SA vs reference", saC, want.SA)
			}
			c.Event("model_kex_checks", 1)
		}
		scribble(skb)
		trash()
		digest(c, "reuse/kex/"+tag, raC, rbC, sbC, saC, skaC)
		c.Event("key_exchanges", 1)
		c.Event("reuse_key_exchanges", 1)
	}
	walk := eulerWalk(len(ids), c.R.Perm(len(ids)))
	for t := 1; t < len(walk); t++ {
		session(fmt.Sprintf("session %d", t), fmt.Sprintf("%v -> %v", ids[walk[t-1]], ids[walk[t]]), walk[t-1], walk[t])
		if c.Failed() {
			return
		}
	}
}
