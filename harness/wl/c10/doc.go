// Package c10 holds the workloads and oracles that decide property C10.
package c10
