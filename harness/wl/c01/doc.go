// Package c01 holds the workloads and oracles that decide property C01.
package c01
