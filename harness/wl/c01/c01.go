// Package c01 decides property C01 (SM3 digest and SM3-KDF) by running the
// library next to the reference of verifh/ref/sm3 on every length residue, on
// random Write/Sum/Reset/Marshal histories and on the KDF grid, with the inputs
// in guard-page buffers.
package c01

import (
	"bytes"
	"encoding"
	"encoding/binary"
	"fmt"
	"hash"
	"math/bits"

	"github.com/emmansun/gmsm/kdf"
	"github.com/emmansun/gmsm/sm3"

	"verifh/mon"
	refsm3 "verifh/ref/sm3"
	"verifh/wl/reg"
)

func init() {
	reg.Register("c01.sum", "C01", sumWL)
	reg.Register("c01.history", "C01", historyWL)
	reg.Register("c01.kdf", "C01", kdfWL)
	reg.Register("c01.bigstate", "C01", bigStateWL)
}

func selftest(x *mon.Ctx) {
	if err := refsm3.SelfTest(); err != nil {
		x.HarnessError("%v", err)
	}
}

func blocksClass(n int) string {
	b := n / 64
	switch {
	case b <= 4:
		return fmt.Sprint(b)
	case b <= 8:
		return "5-8"
	case b <= 16:
		return "9-16"
	case b <= 32:
		return "17-32"
	}
	return "33+"
}

// content kinds for messages
func fillKind(r *mon.Rand, kind int, b []byte) {
	switch kind % 4 {
	case 0, 1:
		r.Fill(b)
	case 2:
		for i := range b {
			b[i] = 0
		}
	case 3:
		for i := range b {
			b[i] = 0xff
		}
	}
}

func sumWL(x *mon.Ctx) {
	selftest(x)
	g := mon.NewGuard(1 << 17)
	defer g.Free()
	maxLen := x.Scale(1100, 4300) // thorough: every length up to 67 blocks (every residue after every phase of the 4/8-block loops)
	one := func(c *mon.Case, n int, kind int, hi bool) {
		m := g.Side(n, hi)
		fillKind(c.R, kind, m)
		want := refsm3.Sum(m)
		var got [32]byte
		if c.Call("sm3.Sum", func() { got = sm3.Sum(m) }) {
			c.Eq("sm3.Sum", got[:], want[:])
		}
		// the same through a fresh hash object in one Write, appended to a prefix
		var out []byte
		prefix := []byte{1, 2, 3}
		if c.Call("New/Write/Sum", func() {
			h := sm3.New()
			h.Write(m)
			out = h.Sum(prefix[:3:3])
		}) {
			c.Eq("New().Write(m).Sum(prefix)", out, append([]byte{1, 2, 3}, want[:]...))
		}
		c.CheckGuards("sm3.Sum", g)
		// misaligned start (Hi/Lo starts are 16-byte aligned for multiples of 16): an aligned vector load on the
		// caller's memory would fault here
		saved := append([]byte{}, m...)
		mis := g.Off(n, 1+(n+kind)%31)
		copy(mis, saved)
		if c.Call("sm3.Sum(misaligned)", func() { got = sm3.Sum(mis) }) {
			c.Eq("sm3.Sum(misaligned input)", got[:], want[:])
		}
		c.CheckGuards("sm3.Sum(misaligned)", g)
	}
	for n := 0; n <= maxLen; n++ {
		for v := 0; v < x.Scale(2, 6); v++ {
			hi := v%2 == 0
			c := x.Begin("sum len=%d kind=%d guard=%s", n, v, side(hi))
			if c == nil {
				continue
			}
			if n == 0 {
				c.Trivial()
			}
			c.Class("sum/mod64=%d/blocks=%s/%s", n%64, blocksClass(n), side(hi))
			one(c, n, v, hi)
			c.End()
		}
	}
	// long messages: every bulk phase of the multi-block assembly
	for i := 0; i < x.Scale(300, 24000); i++ {
		pre := mon.NewRand(x.Seed, "c01.sumlong", i)
		n := 1100 + pre.Intn(1<<16-1100)
		if i%3 == 0 {
			n = 64*pre.Range(17, 1023) + []int{0, 1, 55, 56, 57, 63}[pre.Intn(6)]
		}
		hi := pre.Bool()
		c := x.Begin("sum-long #%d len=%d guard=%s", i, n, side(hi))
		if c == nil {
			continue
		}
		c.Class("sumlong/mod64=%d/blocks=%s/%s", n%64, blocksClass(n), side(hi))
		one(c, n, i, hi)
		c.End()
	}
}

func side(hi bool) string {
	if hi {
		return "hi"
	}
	return "lo"
}

// historyWL: random walks over one hash object. Abstract state of the monitor:
// the bytes written since the last Reset.
func historyWL(x *mon.Ctx) {
	selftest(x)
	g := mon.NewGuard(1 << 13)
	defer g.Free()
	lens := []int{0, 1, 3, 4, 31, 32, 55, 56, 57, 63, 64, 65, 119, 120, 127, 128, 129, 191, 192, 255, 256, 257, 511, 512, 513, 1000, 1024, 2047}
	for i := 0; i < x.Scale(4000, 300000); i++ {
		c := x.Begin("history #%d", i)
		if c == nil {
			continue
		}
		var model []byte
		var ops []string
		h := sm3.New()
		steps := c.R.Range(3, 24)
		states := map[string]bool{}
		check := func(when string) bool {
			want := refsm3.Sum(model)
			var a, b []byte
			if !c.Call("Sum", func() { a = h.Sum(nil); b = h.Sum(nil) }) {
				return false
			}
			ok := c.Eq("Sum after "+when, a, want[:])
			if !bytes.Equal(a, b) {
				c.Fail("mismatch", "two successive Sum calls differ after %s: %x / %x", when, a, b)
				ok = false
			}
			return ok
		}
		for s := 0; s < steps; s++ {
			op := c.R.Intn(10)
			var name string
			switch {
			case op < 5: // Write
				n := lens[c.R.Intn(len(lens))]
				if c.R.Intn(4) == 0 {
					n = c.R.Intn(300)
				}
				hi := c.R.Bool()
				p := g.Side(n, hi)
				fillKind(c.R, c.R.Intn(4), p)
				name = fmt.Sprintf("Write(%d,%s)", n, side(hi))
				c.Class("hist/write/nx=%d/len%%64=%d/blocks=%s", len(model)%64, n%64, blocksClass(n))
				var wn int
				var err error
				if !c.Call(name, func() { wn, err = h.Write(p) }) {
					s = steps
					break
				}
				if wn != n || err != nil {
					c.Fail("mismatch", "%s returned (%d, %v)", name, wn, err)
				}
				model = append(model, p...)
				c.CheckGuards(name, g)
			case op < 6:
				name = "Sum"
				c.Class("hist/sum/nx=%d", len(model)%64)
			case op < 7:
				name = "Reset"
				c.Class("hist/reset/nx=%d", len(model)%64)
				h.Reset()
				model = model[:0]
			case op < 9: // export the state and continue on a fresh object
				name = "Marshal->Unmarshal"
				c.Class("hist/marshal/nx=%d/blocks=%s", len(model)%64, blocksClass(len(model)))
				var st []byte
				var err error
				if !c.Call("MarshalBinary", func() { st, err = h.(encoding.BinaryMarshaler).MarshalBinary() }) {
					s = steps
					break
				}
				if err != nil {
					c.Fail("reject", "MarshalBinary: %v", err)
					break
				}
				h2 := sm3.New()
				// poison the fresh object first: the imported state must replace everything
				h2.Write(c.R.Bytes(c.R.Intn(100)))
				if !c.Call("UnmarshalBinary", func() { err = h2.(encoding.BinaryUnmarshaler).UnmarshalBinary(st) }) {
					s = steps
					break
				}
				if err != nil {
					c.Fail("reject", "UnmarshalBinary(MarshalBinary()) failed: %v", err)
					break
				}
				// the exporting object must be undisturbed: alternate which one continues
				if c.R.Bool() {
					if !check("Marshal (exporting object)") {
						s = steps
						break
					}
					h = h2
				} else {
					old := h
					h = h2
					if !check("Unmarshal (importing object)") {
						s = steps
						break
					}
					h = old
				}
			case op < 10 && c.R.Intn(2) == 0: // an import that must be refused leaves the running state alone
				name = "Unmarshal(refused)"
				c.Class("hist/badimport/nx=%d", len(model)%64)
				donor := sm3.New()
				donor.Write(c.R.Bytes(c.R.Intn(200)))
				st, _ := donor.(encoding.BinaryMarshaler).MarshalBinary()
				var bad []byte
				switch c.R.Intn(5) {
				case 0:
					bad = st[:len(st)-1-c.R.Intn(len(st)-1)]
				case 1:
					bad = append(append([]byte{}, st...), c.R.Bytes(c.R.Range(1, 40))...)
				case 2:
					bad = append([]byte{}, st...)
					bad[c.R.Intn(4)] ^= 0x20
				case 3:
					bad = nil
				default:
					bad = c.R.Bytes(len(st))
					bad[0] = 'x'
				}
				var err error
				if !c.Call("UnmarshalBinary(malformed)", func() { err = h.(encoding.BinaryUnmarshaler).UnmarshalBinary(bad) }) {
					s = steps
					break
				}
				if err == nil {
					c.Fail("accept", "UnmarshalBinary accepted a malformed %d-byte state (a valid one has %d bytes)", len(bad), len(st))
					s = steps
				}
			default:
				switch c.R.Intn(3) {
				case 0: // size queries
					name = "Size"
					if h.Size() != 32 || h.BlockSize() != 64 {
						c.Fail("mismatch", "Size/BlockSize = %d/%d", h.Size(), h.BlockSize())
					}
				case 1:
					// AppendBinary behind a non-empty prefix (with and without spare capacity): the prefix stays, the
					// appended state is the MarshalBinary state, importing it continues the message
					ab, okA := h.(interface {
						AppendBinary([]byte) ([]byte, error)
					})
					if !okA {
						name = "Size"
						break
					}
					name = "AppendBinary(prefix)->Unmarshal"
					np := c.R.Intn(150)
					if c.R.Intn(4) == 0 {
						np = []int{1, 36, 37, 63, 64, 100, 108}[c.R.Intn(7)]
					}
					c.Class("hist/appendbinary/nx=%d/prefix=%s", len(model)%64, blocksClass(np))
					prefix := c.R.Bytes(np)
					buf := make([]byte, np, np+c.R.Intn(3)*70)
					copy(buf, prefix)
					for i := range buf[np:cap(buf)] {
						buf[np:cap(buf)][i] = 0xEE // dirty spare capacity
					}
					var out, plain []byte
					var err, err2 error
					if !c.Call("AppendBinary", func() {
						plain, err2 = h.(encoding.BinaryMarshaler).MarshalBinary()
						out, err = ab.AppendBinary(buf)
					}) {
						s = steps
						break
					}
					if err != nil || err2 != nil {
						c.Fail("reject", "AppendBinary/MarshalBinary: %v / %v", err, err2)
						break
					}
					if len(out) < np || !bytes.Equal(out[:np], prefix) {
						c.Fail("mismatch", "AppendBinary changed the %d-byte prefix it was asked to append to: got %x want %x", np, out[:min(np, len(out))], prefix)
						break
					}
					if !bytes.Equal(out[np:], plain) {
						c.Fail("mismatch", "AppendBinary behind a %d-byte prefix appended %x, MarshalBinary of the same object gives %x", np, out[np:], plain)
						break
					}
					h2 := sm3.New()
					h2.Write(c.R.Bytes(c.R.Intn(100)))
					if !c.Call("UnmarshalBinary", func() { err = h2.(encoding.BinaryUnmarshaler).UnmarshalBinary(out[np:]) }) {
						s = steps
						break
					}
					if err != nil {
						c.Fail("reject", "UnmarshalBinary(AppendBinary(prefix)[len(prefix):]) failed: %v", err)
						break
					}
					h = h2
				default:
					// the KDF method of a running hash object (kdf.KdfInterface, also reached by kdf.Kdf when the
					// constructor hands out this object): the result is KDF(z, n) whatever the object absorbed
					// before; the object is Reset afterwards (its state after Kdf is not specified)
					ki, okK := h.(kdf.KdfInterface)
					if !okK {
						name = "Size"
						break
					}
					name = "Kdf on the running object"
					z := c.R.Bytes(c.R.Intn(140))
					n := []int{1, 31, 32, 33, 96, 97, 128, 224, 225, 300}[c.R.Intn(10)]
					c.Class("hist/kdf-on-used/nx=%d/out=%s", len(model)%64, outClass(n))
					var got []byte
					via := "KdfInterface.Kdf"
					if c.R.Bool() {
						via = "kdf.Kdf(func() hash.Hash { return h })"
						hh := h
						if !c.Call(via, func() { got = kdf.Kdf(func() hash.Hash { return hh }, z, n) }) {
							s = steps
							break
						}
					} else if !c.Call(via, func() { got = ki.Kdf(z, n) }) {
						s = steps
						break
					}
					c.Eq(fmt.Sprintf("%s(len(z)=%d, keyLen=%d) on an object that had absorbed %d bytes", via, len(z), n, len(model)), got, refsm3.KDF(z, n))
					h.Reset()
					model = model[:0]
				}
			}
			ops = append(ops, name)
			states[fmt.Sprintf("%d/%s", len(model)%64, blocksClass(len(model)))] = true
			if !check(name) {
				break
			}
		}
		c.Detail("ops", ops)
		c.Event("history_steps", len(ops))
		c.Event("abstract_states_visited", len(states))
		c.End()
	}
}

// bigStateWL: exported states whose byte counter is far beyond what a test can feed (2^29 .. 2^60 bytes absorbed).
// The state of a short prefix is exported, its length field is raised by a multiple of 64 (the number of pending
// bytes stays consistent), imported into a fresh object and the message is continued: the digest must be the
// standard's value for that chaining value and that total length (the reference continues from the same state).
// This is the only way to reach the high bits of the bit-length field in the finalisation.
func bigStateWL(x *mon.Ctx) {
	selftest(x)
	bases := []uint64{0, 1 << 29, 1<<29 - 64, 1 << 32, 1<<32 - 64, 1<<32 + 1<<29, 1 << 35, 1<<40 + 1<<29, 1 << 56, 1 << 60}
	for bi, base := range bases {
		for rep := 0; rep < x.Scale(24, 400); rep++ {
			c := x.Begin("bigstate byte counter raised by %d (#%d) rep=%d (prefix, continuation from the case PRNG)", base, bi, rep)
			if c == nil {
				continue
			}
			n := c.R.Intn(200)
			if rep%3 == 0 {
				n = []int{0, 1, 55, 56, 63, 64, 119, 120, 127, 128}[c.R.Intn(10)]
			}
			prefix := c.R.Bytes(n)
			c.Class("bigstate/base#%d/nx=%d", bi, n%64)
			h := sm3.New()
			h.Write(prefix)
			st, err := h.(encoding.BinaryMarshaler).MarshalBinary()
			if err != nil || len(st) != 4+32+64+8 {
				c.Fail("mismatch", "MarshalBinary: %d bytes, %v", len(st), err)
				c.End()
				continue
			}
			var v [8]uint32
			for i := range v {
				v[i] = binary.BigEndian.Uint32(st[4+4*i:])
			}
			pending := append([]byte{}, st[36:36+n%64]...)
			if got := binary.BigEndian.Uint64(st[100:]); got != uint64(n) {
				c.Fail("mismatch", "exported state carries length %d after %d bytes", got, n)
				c.End()
				continue
			}
			total := uint64(n) + base
			binary.BigEndian.PutUint64(st[100:], total)
			h2 := sm3.New()
			h2.Write(c.R.Bytes(c.R.Intn(70)))
			if !c.Call("UnmarshalBinary", func() { err = h2.(encoding.BinaryUnmarshaler).UnmarshalBinary(st) }) {
				c.End()
				continue
			}
			if err != nil {
				c.Fail("reject", "UnmarshalBinary refused a state with byte counter %d (pending %d bytes): %v", total, n%64, err)
				c.End()
				continue
			}
			more := c.R.Bytes([]int{0, 1, 55, 56, 64, 100, 200}[c.R.Intn(7)])
			var a, b []byte
			if c.Call("Write/Sum", func() {
				a = h2.Sum(nil)
				h2.Write(more)
				b = h2.Sum(nil)
			}) {
				w0 := refsm3.SumFrom(v, pending, total, nil)
				w1 := refsm3.SumFrom(v, pending, total, more)
				c.Eq(fmt.Sprintf("Sum of a state with byte counter %d", total), a, w0[:])
				c.Eq(fmt.Sprintf("Sum after %d more bytes on a state with byte counter %d", len(more), total), b, w1[:])
			}
			// the state exported again carries the advanced counter
			if st2, err := h2.(encoding.BinaryMarshaler).MarshalBinary(); err == nil && len(st2) == len(st) {
				if got := binary.BigEndian.Uint64(st2[100:]); got != total+uint64(len(more)) {
					c.Fail("mismatch", "re-exported state carries byte counter %d, want %d", got, total+uint64(len(more)))
				}
			}
			c.End()
		}
	}
}

// hash wrappers that hide the optimised KDF method from kdf.Kdf
type hideAll struct{ hash.Hash }

type hideKdf struct{ hash.Hash }

func (h hideKdf) MarshalBinary() ([]byte, error) {
	return h.Hash.(encoding.BinaryMarshaler).MarshalBinary()
}
func (h hideKdf) UnmarshalBinary(b []byte) error {
	return h.Hash.(encoding.BinaryUnmarshaler).UnmarshalBinary(b)
}

var kdfEntries = []struct {
	name string
	f    func(z []byte, n int) []byte
}{
	{"sm3.Kdf", func(z []byte, n int) []byte { return sm3.Kdf(z, n) }},
	{"kdf.Kdf(sm3.New)", func(z []byte, n int) []byte { return kdf.Kdf(sm3.New, z, n) }},
	{"kdf.Kdf(generic+marshal)", func(z []byte, n int) []byte {
		return kdf.Kdf(func() hash.Hash { return hideKdf{sm3.New()} }, z, n)
	}},
	{"kdf.Kdf(generic)", func(z []byte, n int) []byte {
		return kdf.Kdf(func() hash.Hash { return hideAll{sm3.New()} }, z, n)
	}},
}

func outClass(n int) string {
	b := (n + 31) / 32
	rem := ""
	if b%4 != 0 {
		rem = "+r4"
	}
	if b%8 != 0 {
		rem += "+r8"
	}
	switch {
	case b < 4:
		return "1-3"
	case b < 8:
		return "4-7" + rem
	case b < 16:
		return "8-15" + rem
	}
	return "16+" + rem
}

func kdfWL(x *mon.Ctx) {
	selftest(x)
	g := mon.NewGuard(1 << 13)
	defer g.Free()
	keyLens := []int{1, 31, 32, 33, 95, 96, 97, 128, 129, 224, 225, 256, 257, 300, 511, 512, 1000}
	// long outputs: the 32-bit block counter beyond one and two bytes (256 blocks = 8192 bytes, 65536 blocks = 2 MiB)
	longKeyLens := []int{8160, 8161, 8192, 8193, 8448, 16384 + 33, 65536 + 1, 1<<21 - 31, 1<<21 + 1, 1<<21 + 8*32 + 5}
	maxZ := 200
	if x.Thorough() {
		// every output length up to 17 blocks (every remainder class of the 4- and 8-lane loops twice) and the long ones;
		// every len(z) up to five blocks + every residue
		keyLens = keyLens[:0]
		for kl := 1; kl <= 545; kl++ {
			keyLens = append(keyLens, kl)
		}
		keyLens = append(keyLens, 1000, 1024, 2047, 4096)
		maxZ = 330
	}
	one := func(c *mon.Case, zl, kl int, hi bool, entries int) {
		z := g.Side(zl, hi)
		c.R.Fill(z)
		want := refsm3.KDF(z, kl)
		for e := 0; e < entries; e++ {
			ent := kdfEntries[e]
			var got []byte
			zc := append([]byte{}, z...)
			if c.Call(ent.name, func() { got = ent.f(z, kl) }) {
				c.Eq(fmt.Sprintf("%s(len(z)=%d, keyLen=%d)", ent.name, zl, kl), got, want)
			}
			if !bytes.Equal(zc, z) {
				c.Fail("mismatch", "%s modified z", ent.name)
			}
			c.CheckGuards(ent.name, g)
		}
		// misaligned z
		zs := append([]byte{}, z...)
		zm := g.Off(zl, 1+(zl+kl)%31)
		copy(zm, zs)
		var gm []byte
		if c.Call("sm3.Kdf(misaligned z)", func() { gm = sm3.Kdf(zm, kl) }) {
			c.Eq("sm3.Kdf(misaligned z)", gm, want)
		}
		c.CheckGuards("sm3.Kdf(misaligned)", g)
		z = zm
		// prefix law against a longer request on the fast entry point
		var longer []byte
		if c.Call("sm3.Kdf longer", func() { longer = sm3.Kdf(z, kl+c.R.Range(1, 200)) }) {
			c.Eq("prefix law: Kdf(z,a) must be a prefix of Kdf(z,b), a<b", longer[:kl], want)
		}
	}
	for zl := 0; zl <= maxZ; zl++ {
		for ki, kl := range keyLens {
			hi := (zl+ki)%2 == 0
			c := x.Begin("kdf grid len(z)=%d keyLen=%d guard=%s", zl, kl, side(hi))
			if c == nil {
				continue
			}
			c.Class("kdf/zmod64=%d/zblocks=%s/out=%s", zl%64, blocksClass(zl), outClass(kl))
			one(c, zl, kl, hi, len(kdfEntries))
			c.End()
		}
	}
	for li, kl := range longKeyLens {
		for _, zl := range []int{0, 7, 55, 59, 60, 64, 131}[:x.Scale(4, 7)] {
			hi := (li+zl)%2 == 0
			c := x.Begin("kdf long output len(z)=%d keyLen=%d guard=%s", zl, kl, side(hi))
			if c == nil {
				continue
			}
			c.Class("kdflong/zmod64=%d/counter-bytes=%d", zl%64, (bits.Len(uint((kl+31)/32))+7)/8)
			one(c, zl, kl, hi, 2)
			c.End()
		}
	}
	for i := 0; i < x.Scale(1500, 120000); i++ {
		pre := mon.NewRand(x.Seed, "c01.kdfr", i)
		zl, kl := pre.Intn(4097), pre.Range(1, 4096)
		if i%2 == 0 {
			zl = 64*pre.Intn(8) + pre.Range(52, 63) // around the counter/padding boundary
			kl = 32*pre.Range(3, 40) + pre.Intn(33) - 16
		}
		hi := pre.Bool()
		c := x.Begin("kdf random #%d len(z)=%d keyLen=%d guard=%s", i, zl, kl, side(hi))
		if c == nil {
			continue
		}
		c.Class("kdfr/zmod64=%d/zblocks=%s/out=%s", zl%64, blocksClass(zl), outClass(kl))
		one(c, zl, kl, hi, 2+i%3)
		c.End()
	}
}
