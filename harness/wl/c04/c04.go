// Workloads of property C04 (SM4-GCM / SM4-CCM): the library's AEADs are executed
// next to the reference of verifh/ref/aead over verifh/ref/sm4.
//
//	c04.gcm     differential Seal / Open round trip / append-only / guard pages for
//	            crypto/cipher.NewGCM* over the sm4 block (fused asm, table-driven or
//	            generic according to the dispatch configuration) and over the opaque wrapper
//	c04.ccm     the same for gmsm/cipher.NewCCM*
//	c04.wrap    GCM with constructed nonces whose pre-counter block J0 makes the 32-bit
//	            block counter wrap inside the message
//	c04.reuse   histories on ONE sm4 block: several AEADs with different constructors, nonce and
//	            tag sizes are made from it and used interleaved; each must behave as the reference
//	            for ITS OWN parameters (a block that caches per-key GCM state must not leak
//	            parameters from one AEAD into the next)
//	c04.tamper  every single-byte alteration of ct||tag, nonce, aad, truncations and length
//	            changes must be refused with a nil result and a zeroed output region
package c04

import (
	"crypto/cipher"
	"encoding/binary"
	"fmt"

	"verifh/mon"
	"verifh/ref/aead"
	"verifh/wl/reg"
)

func init() {
	reg.Register("c04.gcm", "C04", gcmGrid)
	reg.Register("c04.ccm", "C04", ccmGrid)
	reg.Register("c04.wrap", "C04", gcmWrap)
	reg.Register("c04.tamper", "C04", tamper)
	reg.Register("c04.reuse", "C04", reuse)
}

func selfTest(x *mon.Ctx) {
	if err := aead.SelfTest(); err != nil {
		x.HarnessError("%v", err)
	}
}

// aadCycle: associated-data lengths visited round-robin next to a plaintext sweep
// (13 is the TLS special case of the GHASH assembly; 128+ enters its 8-block loop).
var aadCycle = []int{0, 13, 1, 16, 20, 15, 17, 31, 32, 33, 5, 64, 47, 70, 127, 128, 129, 145, 256, 257, 300}

// ptCycle: plaintext lengths visited round-robin next to another sweep.
var ptCycle = []int{0, 1, 15, 16, 17, 31, 32, 33, 48, 63, 64, 65, 79, 80, 81, 96, 111, 112, 113, 127, 128, 129, 143, 144, 145,
	191, 192, 193, 207, 208, 255, 256, 257, 271, 272, 300, 319, 320, 321, 383, 384, 385, 400, 511, 512, 513, 600}

// modePair enumerates (Seal dst mode, Open dst mode, input placement, output placement)
// so that consecutive integers cycle through all of them.
//
// Placement: two of three cases put the buffers against a guard page (inputs and
// outputs independently at the lower or the upper one); every third case uses
// misaligned buffers - inputs at misOffsets[j], outputs at misOffsets[j+2], nonce and
// aad at further offsets - with j advancing from case to case.
func modePair(i int) (ms, mo dstMode, pIn, pOut pos) {
	ms = dstMode(i % int(nDstModes))
	mo = dstMode((i/int(nDstModes) + i) % int(nDstModes))
	pIn, pOut = atLo, atLo
	if (i/3)&1 == 0 {
		pIn = atHi
	}
	if (i/7)&1 == 0 {
		pOut = atHi
	}
	if i%3 == 2 {
		pIn, pOut = mis(i/3), mis(i/3+2)
	}
	return
}

// one runs a seal/open case for spec s on fresh random key, nonce, data, with the
// dst modes and placements of position i of the cycle.
func one(x *mon.Ctx, ar *arena, part string, s spec, n, al, i int) {
	ms, mo, pIn, pOut := modePair(i)
	oneModes(x, ar, part, s, n, al, ms, mo, pIn, pOut)
}

func oneModes(x *mon.Ctx, ar *arena, part string, s spec, n, al int, ms, mo dstMode, pIn, pOut pos) {
	c := x.Begin("%s %v pt=%d aad=%d seal-dst=%v open-dst=%v inputs@%v outputs@%v", part, s, n, al, ms, mo, pIn, pOut)
	if c == nil {
		return
	}
	defer c.End()
	if n == 0 && al == 0 {
		c.Trivial()
	}
	c.Class("%s/%s/pt:%s/seal:%v", part, s.ctorClass(), lenClass(n), ms)
	c.Class("%s/%s/aad:%s/open:%v", part, s.ctorClass(), lenClass(al), mo)
	if pIn.misaligned() {
		c.Class("%s/%s/%s/misaligned:in@%v,out@%v/pt:o%d.b%d", part, s.fam, s.blk, pIn, pOut, min(n/128, 2), n%128/16)
		c.Event("cases_with_misaligned_buffers", 1)
	}
	key, nonce, pt, ad := c.R.Bytes(16), c.R.Bytes(s.ns), c.R.Bytes(n), c.R.Bytes(al)
	var a cipher.AEAD
	var err error
	if !c.Call(s.String(), func() { a, err = s.build(key) }) {
		return
	}
	if err != nil {
		c.Fail("reject", "%v refused valid parameters: %v", s, err)
		return
	}
	if a.NonceSize() != s.ns || a.Overhead() != s.ts {
		c.Fail("mismatch", "%v: NonceSize()=%d Overhead()=%d", s, a.NonceSize(), a.Overhead())
	}
	c.Event(fmt.Sprintf("impl %T", a), 1)
	c.Detail("key", key)
	c.Detail("nonce", nonce)
	want := s.ref(key, nonce, pt, ad)
	sealOpen(c, ar, s, a, nonce, pt, ad, want, ms, mo, pIn, pOut)
}

// ---------------------------------------------------------------------------

func gcmGrid(x *mon.Ctx) {
	selfTest(x)
	ar := &arena{}
	reps := x.Scale(4, 80)
	i := 0
	std := gcmSpec("lib", 12, 16)
	// A: every plaintext length through the 128/64/16/tail phases, aad cycling
	for n := 0; n <= x.Scale(420, 2200); n++ { // thorough: every residue after 0..17 iterations of the 128-byte loop
		for r := 0; r < reps; r++ {
			one(x, ar, "pt-sweep", std, n, aadCycle[i%len(aadCycle)], i)
			i++
		}
	}
	// B: every associated-data length, plaintext cycling
	for al := 0; al <= x.Scale(300, 1300); al++ {
		for r := 0; r < (reps+1)/2; r++ {
			one(x, ar, "aad-sweep", std, ptCycle[i%len(ptCycle)], al, i)
			i++
		}
	}
	// C: nonce sizes (GHASH-derived J0 except 12)
	var sizes []int
	for ns := 1; ns <= 40; ns++ {
		sizes = append(sizes, ns)
	}
	sizes = append(sizes, 48, 63, 64, 65, 127, 128, 129, 255, 256, 1000)
	for _, ns := range sizes {
		for r := 0; r < 6*reps; r++ {
			one(x, ar, "nonce-size", gcmSpec("lib", ns, 16), ptCycle[i%len(ptCycle)], aadCycle[(i/3)%len(aadCycle)], i)
			i++
		}
	}
	// D: tag sizes
	for ts := 12; ts <= 15; ts++ {
		for r := 0; r < 20*reps; r++ {
			one(x, ar, "tag-size", gcmSpec("lib", 12, ts), ptCycle[i%len(ptCycle)], aadCycle[(i/3)%len(aadCycle)], i)
			i++
		}
	}
	// D2: truncated tags x final partial block of r bytes with r + tag < 16 (and the first residue that is safe):
	// the assembly touches a whole block at the final partial block, which then reaches behind ciphertext||tag.
	// Deterministic placements: ciphertext||tag of Open and the destination of Seal end exactly at a guard page
	// (fault on the first stray byte) or are followed by a fence (stray store visible).
	for ts := 12; ts <= 15; ts++ {
		for _, q := range []int{0, 1, 4, 8, 9} {
			for r := 1; r <= 16-ts; r++ {
				n, s := 16*q+r, gcmSpec("lib", 12, ts)
				al := aadCycle[(q+r)%len(aadCycle)]
				oneModes(x, ar, "short-tag", s, n, al, dExact, dExact, atHi, atHi)        // Seal dst and Open input end at the guard page
				oneModes(x, ar, "short-tag", s, n, al, dExact, dInPlaceTight, atHi, atLo) // Seal dst followed by a fence; Open in place, buffer ends at the guard page
				oneModes(x, ar, "short-tag", s, n, al, dSpare, dNil, atLo, atHi)          // Seal into spare capacity; Open input ends at the guard page
				oneModes(x, ar, "short-tag", s, n, al, dInPlaceTight, dSpare, atLo, atHi) // Seal in place, buffer ends at the guard page
			}
		}
	}
	// E: long messages (many iterations of the 8-block loops), long aad
	for _, n := range []int{1023, 1024, 1025, 2048 + 17, 4096, 4096 + 127, 8191, 16384 + 1, 65536 + 15} {
		for r := 0; r < (reps+3)/4; r++ {
			one(x, ar, "long", std, n, aadCycle[i%len(aadCycle)], i)
			i++
			one(x, ar, "long", std, ptCycle[i%len(ptCycle)], n, i)
			i++
			one(x, ar, "long", gcmSpec("lib", 16, 16), n, 20, i)
			i++
		}
	}
	// F: the same block hidden behind the opaque wrapper (stdlib generic GCM over the library's Encrypt)
	for n := 0; n <= 300; n++ {
		k := i
		for r := 0; r < (reps+3)/4; r++ {
			one(x, ar, "opaque", gcmSpec("opaque", 12, 16), n, aadCycle[i%len(aadCycle)], i)
			i++
		}
		if n%4 == 0 {
			one(x, ar, "opaque", gcmSpec("opaque", sizes[k%len(sizes)], 16), n, aadCycle[i%len(aadCycle)], i)
			i++
			one(x, ar, "opaque", gcmSpec("opaque", 12, 12+k%4), n, aadCycle[i%len(aadCycle)], i)
			i++
		}
	}
}

func ccmGrid(x *mon.Ctx) {
	selfTest(x)
	ar := &arena{}
	reps := x.Scale(2, 40)
	i := 0
	// A: every (nonce size, tag size) with plaintext lengths cycling; general constructor
	for ns := 7; ns <= 13; ns++ {
		for ts := 4; ts <= 16; ts += 2 {
			for r := 0; r < 12*reps; r++ {
				one(x, ar, "sizes", ccmSpec("lib", ns, ts, true), ptCycle[i%len(ptCycle)], aadCycle[(i/5)%len(aadCycle)], i)
				i++
			}
		}
	}
	// B: the short constructors
	for r := 0; r < 30*reps; r++ {
		one(x, ar, "ctors", ccmSpec("lib", 12, 16, false), ptCycle[i%len(ptCycle)], aadCycle[(i/5)%len(aadCycle)], i)
		i++
	}
	for ns := 7; ns <= 13; ns++ {
		for r := 0; r < 8*reps; r++ {
			one(x, ar, "ctors", ccmSpec("lib", ns, 16, false), ptCycle[i%len(ptCycle)], aadCycle[(i/5)%len(aadCycle)], i)
			i++
		}
	}
	for ts := 4; ts <= 16; ts += 2 {
		for r := 0; r < 8*reps; r++ {
			one(x, ar, "ctors", ccmSpec("lib", 12, ts, false), ptCycle[i%len(ptCycle)], aadCycle[(i/5)%len(aadCycle)], i)
			i++
		}
	}
	// C: every plaintext length (CTR batches of the asm block) and every aad length 0..70 (2-byte length header
	//    makes the first MAC block hold 14 bytes)
	for n := 0; n <= 300; n++ {
		for r := 0; r < reps; r++ {
			ns, ts := 7+i%7, 4+2*((i/7)%7)
			one(x, ar, "pt-sweep", ccmSpec("lib", ns, ts, true), n, aadCycle[i%len(aadCycle)], i)
			i++
		}
	}
	for al := 0; al <= 100; al++ {
		for r := 0; r < reps; r++ {
			ns, ts := 7+i%7, 4+2*((i/7)%7)
			one(x, ar, "aad-sweep", ccmSpec("lib", ns, ts, true), ptCycle[i%len(ptCycle)], al, i)
			i++
		}
	}
	// D: associated-data length encodings: 2 bytes below 0xff00, 0xfffe + 4 bytes from 0xff00
	for _, al := range []int{65279, 65280, 65281, 65535, 65536, 70001} {
		for r := 0; r < reps; r++ {
			ns, ts := 7+i%7, 4+2*((i/7)%7)
			one(x, ar, "aad-encoding", ccmSpec("lib", ns, ts, true), ptCycle[i%len(ptCycle)], al, i)
			i++
		}
	}
	// E: long messages, and the longest message a 13-byte nonce allows (L=2: 65535 bytes)
	for _, n := range []int{1024 + 1, 4096 + 127, 16384 + 15, 65535} {
		for r := 0; r < (reps+1)/2; r++ {
			one(x, ar, "long", ccmSpec("lib", 13, 4+2*(i%7), true), n, aadCycle[i%len(aadCycle)], i)
			i++
		}
	}
	one(x, ar, "long", ccmSpec("lib", 7, 16, true), 65536+1, 3, i)
	i++
	// F: opaque block (generic CTR of the standard library instead of the block's own NewCTR)
	for n := 0; n <= 200; n++ {
		for r := 0; r < (reps+1)/2; r++ {
			ns, ts := 7+i%7, 4+2*((i/7)%7)
			one(x, ar, "opaque", ccmSpec("opaque", ns, ts, i%3 == 0), n, aadCycle[i%len(aadCycle)], i)
			i++
		}
	}
}

// ---------------------------------------------------------------------------

// lowWords: values of the low 32 bits of J0. The first key stream block uses J0+1,
// so with low word ffffffff-k the wrap to 0 happens at block k of the message.
func lowWords(thorough bool) []uint32 {
	var w []uint32
	top := 40
	if thorough {
		top = 72
	}
	for k := 0; k < top; k++ {
		w = append(w, 0xffffffff-uint32(k))
	}
	// carries inside the word (no wrap): byte boundaries
	for _, b := range []uint32{0x000000ff, 0x0000ffff, 0x00ffffff, 0x7fffffff, 0xfffffeff, 0xfffeffff} {
		for k := uint32(0); k < 6; k++ {
			w = append(w, b-k)
		}
	}
	return w
}

func gcmWrap(x *mon.Ctx) {
	selfTest(x)
	ar := &arena{}
	reps := x.Scale(1, 14)
	lens := []int{1, 16, 17, 48, 63, 64, 65, 100, 127, 128, 129, 160, 192, 200, 255, 256, 257, 300, 384, 400, 513, 640, 1100}
	i := 0
	for _, lw := range lowWords(x.Thorough()) {
		for li, n := range lens {
			for r := 0; r < reps; r++ {
				blk := "lib"
				if (li+r)%6 == 5 {
					blk = "opaque"
				}
				ns := []int{16, 16, 32, 16, 48}[i%5]
				s := gcmSpec(blk, ns, 16)
				ms, mo, pIn, pOut := modePair(i)
				i++
				c := x.Begin("wrap %v J0 low word=%08x pt=%d seal-dst=%v open-dst=%v inputs@%v outputs@%v", s, lw, n, ms, mo, pIn, pOut)
				if c == nil {
					continue
				}
				key := c.R.Bytes(16)
				var j0 [16]byte
				c.R.Fill(j0[:12])
				binary.BigEndian.PutUint32(j0[12:], lw)
				enc := aead.SM4(key)
				nonce, err := aead.GCMNonceForJ0(enc, j0, ns, c.R.Bytes(ns-16))
				if err != nil {
					c.Inconclusive("no nonce for this J0: %v", err)
					c.End()
					continue
				}
				blocks := uint32((n + 15) / 16)
				crossed := lw+blocks < lw // counter values used: lw+1 .. lw+blocks
				wrapClass := "no-wrap"
				if crossed {
					at := 0xffffffff - lw // index of the block that is encrypted with counter low word 0
					wrapClass = fmt.Sprintf("wrap-at-block-%d", at)
					c.Event("counter_wraps_inside_message", 1)
				}
				c.Class("wrap/%s/ns%d/%s/pt:%s", blk, ns, wrapClass, lenClass(n))
				if pIn.misaligned() {
					c.Class("wrap/%s/misaligned:in@%v,out@%v/%s", blk, pIn, pOut, wrapClass)
					c.Event("cases_with_misaligned_buffers", 1)
				}
				c.Detail("key", key)
				c.Detail("nonce", nonce)
				c.Detail("J0", j0[:])
				var a cipher.AEAD
				if !c.Call(s.String(), func() { a, err = s.build(key) }) || err != nil {
					if err != nil {
						c.Fail("reject", "%v: %v", s, err)
					}
					c.End()
					continue
				}
				c.Event(fmt.Sprintf("impl %T", a), 1)
				pt, ad := c.R.Bytes(n), c.R.Bytes(aadCycle[i%len(aadCycle)])
				want := aead.GCMSeal(enc, nonce, pt, ad, 16)
				sealOpen(c, ar, s, a, nonce, pt, ad, want, ms, mo, pIn, pOut)
				c.Event("constructed_j0", 1)
				c.End()
			}
		}
	}
}

// ---------------------------------------------------------------------------

func tamper(x *mon.Ctx) {
	selfTest(x)
	ar := &arena{}
	type job struct {
		s    spec
		lens []int
	}
	short := []int{0, 1, 15, 16, 17, 33, 64, 65, 100, 128, 129}
	full := []int{0, 1, 2, 15, 16, 17, 31, 32, 33, 47, 63, 64, 65, 80, 95, 112, 127, 128, 129, 130, 144, 191, 192, 193, 255, 256, 257, 300, 384, 401, 600}
	var jobs []job
	// GCM through the block's own hook
	jobs = append(jobs, job{gcmSpec("lib", 12, 16), full})
	for _, ns := range []int{1, 8, 11, 13, 16, 17, 32, 33} {
		jobs = append(jobs, job{gcmSpec("lib", ns, 16), short})
	}
	for ts := 12; ts <= 15; ts++ {
		// final partial blocks of 1..3 bytes: a whole-block access there reaches behind a truncated tag
		l := append([]int{2, 3, 18, 19, 131, 258}, short...)
		if ts == 12 {
			l = append([]int{3, 18, 19, 131, 258}, full...)
		}
		jobs = append(jobs, job{gcmSpec("lib", 12, ts), l})
	}
	// standard library generic GCM over the library's Encrypt
	jobs = append(jobs, job{gcmSpec("opaque", 12, 16), short}, job{gcmSpec("opaque", 16, 16), short[:6]}, job{gcmSpec("opaque", 12, 13), short[:6]})
	// CCM
	jobs = append(jobs, job{ccmSpec("lib", 12, 16, false), full})
	for ns := 7; ns <= 13; ns++ {
		ts := 4 + 2*((ns-7)%7)
		jobs = append(jobs, job{ccmSpec("lib", ns, ts, true), short})
	}
	jobs = append(jobs, job{ccmSpec("lib", 13, 4, true), short}, job{ccmSpec("lib", 7, 16, true), short}, job{ccmSpec("opaque", 12, 8, false), short[:8]}, job{ccmSpec("opaque", 9, 10, true), short[:6]})

	reps := x.Scale(1, 14)
	i := 0
	for _, j := range jobs {
		for _, n := range j.lens {
			for r := 0; r < reps; r++ {
				al := aadCycle[i%len(aadCycle)]
				if al > 70 && i%2 == 0 {
					al %= 41
				}
				i++
				tamperCase(x, ar, j.s, n, al, 1)
			}
		}
	}
	// long associated data (CCM 6-byte length header; GCM many GHASH blocks): positions sampled
	for _, s := range []spec{ccmSpec("lib", 12, 16, false), ccmSpec("lib", 8, 6, true), gcmSpec("lib", 12, 16), gcmSpec("lib", 24, 16)} {
		for r := 0; r < reps; r++ {
			tamperCase(x, ar, s, 77, 65280+r, 3203)
			tamperCase(x, ar, s, 4096+33, 20, 61)
		}
	}
}

func tamperCase(x *mon.Ctx, ar *arena, s spec, n, al, stride int) {
	c := x.Begin("tamper %v pt=%d aad=%d position stride for long fields=%d", s, n, al, stride)
	if c == nil {
		return
	}
	defer c.End()
	c.Class("tamper/%s/pt:%s/aad:%s", s.ctorClass(), lenClass(n), lenClass(al))
	key, nonce, pt, ad := c.R.Bytes(16), c.R.Bytes(s.ns), c.R.Bytes(n), c.R.Bytes(al)
	c.Detail("key", key)
	var a cipher.AEAD
	var err error
	if !c.Call(s.String(), func() { a, err = s.build(key) }) {
		return
	}
	if err != nil {
		c.Fail("reject", "%v refused valid parameters: %v", s, err)
		return
	}
	want := s.ref(key, nonce, pt, ad)
	var sealed []byte
	if !c.Call("Seal", func() { sealed = a.Seal(nil, nonce, pt, ad) }) {
		return
	}
	if !c.Eq(s.String()+" Seal", sealed, want) {
		return
	}
	c.Event("tamper_messages", 1)
	c.Event(fmt.Sprintf("impl %T", a), 1)
	enc := aead.SM4(key)
	refAccepts := func(n, m, d []byte) bool {
		ok := false
		if s.fam == "gcm" {
			_, ok = aead.GCMOpen(enc, n, m, d, s.ts)
		} else {
			_, ok = aead.CCMOpen(enc, n, m, d, s.ts)
		}
		return ok
	}
	tamperSweep(c, ar, s, a, refAccepts, nonce, want, ad, pt, stride)
}

// ---------------------------------------------------------------------------
// block reuse

// reuseSpecs: the AEAD flavours drawn on in a history. The first nine are the GCM
// flavours whose ordered pairs are enumerated completely.
func reuseSpecs() []spec {
	l := []spec{gcmSpec("lib", 12, 16)}
	for ts := 12; ts <= 15; ts++ {
		l = append(l, gcmSpec("lib", 12, ts))
	}
	for _, ns := range []int{8, 13, 16, 32} {
		l = append(l, gcmSpec("lib", ns, 16))
	}
	l = append(l, ccmSpec("lib", 12, 16, false), ccmSpec("lib", 12, 8, false), ccmSpec("lib", 7, 16, false), ccmSpec("lib", 13, 4, true),
		ccmSpec("lib", 12, 12, true), gcmSpec("opaque", 12, 16), gcmSpec("opaque", 12, 13), gcmSpec("opaque", 16, 16), ccmSpec("opaque", 11, 10, true))
	return l
}

// member is one AEAD of a history.
type member struct {
	s spec
	a cipher.AEAD
}

// reuseStep makes member m seal and open one fresh message and judges it with the
// reference for m's own parameters.
func reuseStep(c *mon.Case, ar *arena, key []byte, m member, step int) {
	if m.a.NonceSize() != m.s.ns || m.a.Overhead() != m.s.ts {
		c.Fail("mismatch", "step %d: %v built on a shared block reports NonceSize()=%d Overhead()=%d", step, m.s, m.a.NonceSize(), m.a.Overhead())
		// the nonce the object insists on may differ; using it would only be a documented precondition panic
		if m.a.NonceSize() != m.s.ns {
			return
		}
	}
	n, al := ptCycle[c.R.Intn(len(ptCycle))], aadCycle[c.R.Intn(len(aadCycle))]
	if c.R.Intn(3) == 0 {
		n = c.R.Intn(300)
	}
	nonce, pt, ad := c.R.Bytes(m.s.ns), c.R.Bytes(n), c.R.Bytes(al)
	want := m.s.ref(key, nonce, pt, ad)
	ms, mo, pIn, pOut := modePair(c.R.Intn(1 << 20))
	sealOpen(c, ar, m.s, m.a, nonce, pt, ad, want, ms, mo, pIn, pOut)
	c.Event("reuse_steps", 1)
	// quick negative: the message cut by one byte must be refused (unless the reference accepts it too)
	if c.R.Intn(4) == 0 && len(want) > 0 {
		var err error
		bad := append([]byte{}, want[:len(want)-1]...)
		if c.Call("Open of a message cut by one byte", func() { _, err = m.a.Open(nil, nonce, bad, ad) }) && err == nil {
			ok := false
			if m.s.fam == "gcm" {
				_, ok = aead.GCMOpen(aead.SM4(key), nonce, bad, ad, m.s.ts)
			} else {
				_, ok = aead.CCMOpen(aead.SM4(key), nonce, bad, ad, m.s.ts)
			}
			if !ok {
				c.Fail("accept", "step %d: %v accepted its message cut by one byte", step, m.s)
			}
		}
	}
}

func reuse(x *mon.Ctx) {
	selfTest(x)
	ar := &arena{}
	specs := reuseSpecs()
	// A: every ordered pair (first, second) of the nine fused-path GCM flavours on one block, in three
	//    interleavings: make both then use second, first, second; make/use first, make/use second, use first;
	//    make first, make second, use first only after second was used twice
	for fi := 0; fi < 9; fi++ {
		for si := 0; si < 9; si++ {
			for il := 0; il < 3; il++ {
				for r := 0; r < x.Scale(1, 6); r++ {
					c := x.Begin("reuse pair first=%v second=%v interleaving=%d rep=%d", specs[fi], specs[si], il, r)
					if c == nil {
						continue
					}
					c.Class("reuse/pair/%s->%s/il%d", specs[fi].ctorClass(), specs[si].ctorClass(), il)
					key := c.R.Bytes(16)
					c.Detail("key", key)
					runHistory(c, ar, key, []spec{specs[fi], specs[si]}, [][]int{{-1, -2, 2, 1, 2}, {-1, 1, -2, 2, 1}, {-1, -2, 2, 2, 1, 2}}[il])
					c.End()
				}
			}
		}
	}
	// B: random histories over all flavours (GCM and CCM, own hook and opaque wrapper) on one block
	for h := 0; h < x.Scale(300, 6000); h++ {
		c := x.Begin("reuse history %d", h)
		if c == nil {
			continue
		}
		key := c.R.Bytes(16)
		c.Detail("key", key)
		k := c.R.Range(3, 6)
		var ss []spec
		for i := 0; i < k; i++ {
			ss = append(ss, specs[c.R.Intn(len(specs))])
		}
		// script: negative = construct member -v, positive = use member v (only after its construction)
		var script []int
		made := 0
		for len(script) < 4*k {
			if made < k && (made == 0 || c.R.Intn(3) == 0) {
				made++
				script = append(script, -made)
			} else {
				script = append(script, c.R.Range(1, made))
			}
		}
		for made < k {
			made++
			script = append(script, -made, made)
		}
		fams := map[string]bool{}
		for _, s := range ss {
			fams[s.fam+"/"+s.blk] = true
		}
		c.Class("reuse/history/members%d/kinds%d", k, len(fams))
		c.Detail("members", fmt.Sprint(ss))
		c.Detail("script", fmt.Sprint(script))
		runHistory(c, ar, key, ss, script)
		c.End()
	}
}

// runHistory executes a script on ONE block made from key: -v constructs member v
// (1-based) from the shared block, +v uses member v.
func runHistory(c *mon.Case, ar *arena, key []byte, ss []spec, script []int) {
	var blk cipher.Block
	var err error
	if !c.Call("sm4.NewCipher", func() { blk, err = newBlock(key) }) || err != nil {
		if err != nil {
			c.Fail("reject", "sm4.NewCipher: %v", err)
		}
		return
	}
	ms := make([]member, len(ss))
	for step, v := range script {
		if v < 0 {
			s := ss[-v-1]
			var a cipher.AEAD
			if !c.Call(s.String(), func() { a, err = s.buildOn(blk) }) {
				return
			}
			if err != nil {
				c.Fail("reject", "step %d: %v refused valid parameters on a shared block: %v", step, s, err)
				return
			}
			ms[-v-1] = member{s, a}
			c.Event("reuse_constructions", 1)
			c.Event(fmt.Sprintf("impl %T", a), 1)
			continue
		}
		if ms[v-1].a == nil {
			continue
		}
		reuseStep(c, ar, key, ms[v-1], step)
	}
}
