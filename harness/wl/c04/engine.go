package c04

import (
	"bytes"
	"crypto/cipher"
	"fmt"

	gcipher "github.com/emmansun/gmsm/cipher"
	"github.com/emmansun/gmsm/sm4"

	"verifh/mon"
	"verifh/ref/aead"
)

// opaque hides every optional interface of the library's block (NewGCM, NewCTR,
// EncryptBlocks, ...): crypto/cipher then runs its generic GCM and gmsm/cipher its
// generic CCM over nothing but the library's single-block Encrypt.
type opaque struct{ b cipher.Block }

func (o opaque) BlockSize() int          { return o.b.BlockSize() }
func (o opaque) Encrypt(dst, src []byte) { o.b.Encrypt(dst, src) }
func (o opaque) Decrypt(dst, src []byte) { o.b.Decrypt(dst, src) }

// spec names one way of obtaining an AEAD from the library.
type spec struct {
	fam  string // "gcm" | "ccm"
	blk  string // "lib" (sm4.NewCipher block as is) | "opaque" (wrapped)
	ctor string // constructor function used
	ns   int    // nonce size
	ts   int    // tag size
}

func (s spec) String() string {
	return fmt.Sprintf("%s/%s/%s(ns=%d,ts=%d)", s.fam, s.blk, s.ctor, s.ns, s.ts)
}

func gcmSpec(blk string, ns, ts int) spec {
	switch {
	case ts != 16:
		return spec{"gcm", blk, "NewGCMWithTagSize", 12, ts} // the public API fixes the nonce at 12 here
	case ns != 12:
		return spec{"gcm", blk, "NewGCMWithNonceSize", ns, 16}
	}
	return spec{"gcm", blk, "NewGCM", 12, 16}
}

// ccmSpec picks the most specific public constructor for (ns, ts); variant selects
// NewCCMWithNonceAndTagSize even where a shorter one exists.
func ccmSpec(blk string, ns, ts int, general bool) spec {
	switch {
	case general || (ns != 12 && ts != 16):
		return spec{"ccm", blk, "NewCCMWithNonceAndTagSize", ns, ts}
	case ns != 12:
		return spec{"ccm", blk, "NewCCMWithNonceSize", ns, 16}
	case ts != 16:
		return spec{"ccm", blk, "NewCCMWithTagSize", 12, ts}
	}
	return spec{"ccm", blk, "NewCCM", 12, 16}
}

// build creates the library AEAD for key over a fresh block.
func (s spec) build(key []byte) (cipher.AEAD, error) {
	b, err := newBlock(key)
	if err != nil {
		return nil, err
	}
	return s.buildOn(b)
}

// newBlock gives NewCipher a private copy of the key and overwrites the copy once the constructor has returned: block
// and AEADs built on it must own their key material.
func newBlock(key []byte) (cipher.Block, error) {
	k := append([]byte{}, key...)
	b, err := sm4.NewCipher(k)
	for i := range k {
		k[i] = 0xA5
	}
	return b, err
}

// buildOn creates the library AEAD over an existing block of the library (which
// several AEADs may share).
func (s spec) buildOn(b cipher.Block) (cipher.AEAD, error) {
	if s.blk == "opaque" {
		b = opaque{b}
	}
	switch s.ctor {
	case "NewGCM":
		return cipher.NewGCM(b)
	case "NewGCMWithNonceSize":
		return cipher.NewGCMWithNonceSize(b, s.ns)
	case "NewGCMWithTagSize":
		return cipher.NewGCMWithTagSize(b, s.ts)
	case "NewCCM":
		return gcipher.NewCCM(b)
	case "NewCCMWithNonceSize":
		return gcipher.NewCCMWithNonceSize(b, s.ns)
	case "NewCCMWithTagSize":
		return gcipher.NewCCMWithTagSize(b, s.ts)
	case "NewCCMWithNonceAndTagSize":
		return gcipher.NewCCMWithNonceAndTagSize(b, s.ns, s.ts)
	}
	panic("c04: unknown constructor " + s.ctor)
}

// ref seals with the reference model over the reference SM4.
func (s spec) ref(key, nonce, pt, aad []byte) []byte {
	enc := aead.SM4(key)
	if s.fam == "gcm" {
		return aead.GCMSeal(enc, nonce, pt, aad, s.ts)
	}
	return aead.CCMSeal(enc, nonce, pt, aad, s.ts)
}

// ctorClass buckets the constructor parameters for the class key.
func (s spec) ctorClass() string {
	nsc := fmt.Sprint(s.ns)
	if s.fam == "gcm" {
		switch {
		case s.ns < 12:
			nsc = "1-11"
		case s.ns > 12 && s.ns < 16:
			nsc = "13-15"
		case s.ns > 16 && s.ns%16 == 0:
			nsc = "16k"
		case s.ns > 16:
			nsc = "17+"
		}
	}
	return fmt.Sprintf("%s/%s/%s/ns%s/ts%d", s.fam, s.blk, s.ctor, nsc, s.ts)
}

// lenClass buckets a data length by the phases of the fused loops: number of
// 128-byte iterations (0,1,2+), 16-byte blocks in the remainder, kind of tail.
func lenClass(n int) string {
	o := n / 128
	if o > 2 {
		o = 2
	}
	t := "0"
	switch r := n % 16; {
	case r == 0:
	case r == 1:
		t = "1"
	case r == 15:
		t = "15"
	default:
		t = "mid"
	}
	if n > 1024 {
		return fmt.Sprintf("big.t%s", t)
	}
	return fmt.Sprintf("o%d.b%d.t%s", o, n%128/16, t)
}

// ---------------------------------------------------------------------------
// guarded buffers

const marker = 0xEE

// bufs is the set of guard-page buffers of a workload: one Guard per live buffer.
type bufs struct {
	nonce, pt, aad, dst, ct, out *mon.Guard
}

func newBufs(max int) *bufs {
	return &bufs{mon.NewGuard(max), mon.NewGuard(max), mon.NewGuard(max), mon.NewGuard(max), mon.NewGuard(max), mon.NewGuard(max)}
}

// arena hands out the smallest set of guards that holds the case: the canary scan
// of mon.Guard.Check is linear in the size of the region.
type arena struct {
	sets [3]*bufs
}

var arenaSizes = [3]int{4096, 4 * 4096, 32 * 4096}

func (a *arena) pick(need int) *bufs {
	for i, sz := range arenaSizes {
		if need <= sz {
			if a.sets[i] == nil {
				a.sets[i] = newBufs(sz)
			}
			return a.sets[i]
		}
	}
	panic("c04: case larger than the biggest arena")
}

// pos says where a buffer is put inside its guard region.
type pos struct {
	kind int8 // kLo: starts at the lower guard page; kHi: ends at the upper guard page; kOff / kHiOff: misaligned, see below
	off  int  // kOff: start off bytes after the lower guard page; kHiOff: end off bytes before the upper guard page
}

const (
	kLo int8 = iota
	kHi
	kOff
	kHiOff
)

var (
	atLo = pos{kind: kLo}
	atHi = pos{kind: kHi}
)

// misOffsets are the start offsets of the misalignment dimension: Hi and Lo hand out
// 16-byte aligned starts whenever the length is a multiple of 16, which hides an
// aligned-load/store instruction (MOVOA, VMOVDQA) used on caller memory. 16 and 24 are
// 16- resp. 8-byte aligned but not 32-byte aligned (YMM accesses).
var misOffsets = [5]int{1, 8, 16, 24, 31}

// mis returns the j-th misaligned position; odd j measure from the upper guard page.
func mis(j int) pos {
	if j < 0 {
		j = -j
	}
	k := kOff
	if j&1 == 1 {
		k = kHiOff
	}
	return pos{kind: k, off: misOffsets[j%len(misOffsets)]}
}

// shift gives a misaligned position another offset (so that the buffers of one call
// differ in alignment); guard-page positions are returned unchanged.
func (p pos) shift(d int) pos {
	if p.kind != kOff && p.kind != kHiOff {
		return p
	}
	for i, o := range misOffsets {
		if o == p.off {
			return pos{kind: p.kind, off: misOffsets[(i+d)%len(misOffsets)]}
		}
	}
	return p
}

func (p pos) kindName() string {
	return [...]string{"start_on_guard_page", "end_on_guard_page", "misaligned_offset_from_start", "misaligned_offset_from_end"}[p.kind]
}

func (p pos) misaligned() bool { return p.kind == kOff || p.kind == kHiOff }

func (p pos) String() string {
	switch p.kind {
	case kLo:
		return "lo"
	case kHi:
		return "hi"
	case kOff:
		return fmt.Sprintf("lo+%d", p.off)
	}
	return fmt.Sprintf("hi-%d", p.off)
}

// slice hands out n bytes (len == cap) of g at the position.
func (p pos) slice(g *mon.Guard, n int) []byte {
	switch p.kind {
	case kLo:
		return g.Lo(n)
	case kHi:
		return g.Hi(n)
	case kOff:
		return g.Off(n, p.off)
	}
	return g.HiOff(n, p.off)
}

// in places an input. A zero-length input is handed over as nil or as an empty
// non-nil slice.
func in(g *mon.Guard, b []byte, p pos) []byte {
	if len(b) == 0 {
		p.slice(g, 0)
		if p.kind == kHi || p.kind == kHiOff {
			return []byte{}
		}
		return nil
	}
	s := p.slice(g, len(b))
	copy(s, b)
	return s
}

// dstMode: how the destination of Seal/Open is supplied.
type dstMode int

const (
	dNil          dstMode = iota // dst = nil
	dExact                       // prefix, capacity exactly what the call appends
	dSpare                       // prefix, capacity larger than needed: the spare bytes must stay untouched
	dInPlace                     // prefix, input lives at dst[len(prefix):] of the same buffer (exact overlap), spare capacity behind
	dShort                       // prefix, capacity too small: the call must allocate and leave the buffer alone
	dInPlaceTight                // as dInPlace, but the buffer ends with the input / the result (no spare byte)
	nDstModes
)

func (m dstMode) String() string {
	return [...]string{"nil", "exact", "spare", "inplace", "short", "inplace-tight"}[m]
}

func (m dstMode) inPlace() bool { return m == dInPlace || m == dInPlaceTight }

// placed is a destination prepared in a guard buffer.
type placed struct {
	mode   dstMode
	buf    []byte // the marker-filled buffer dst is cut from; cap(dst) ends at len(buf) (nil for dNil)
	fence  []byte // marker bytes that follow buf in memory (only when buf does not end at the guard page)
	dst    []byte // the dst argument
	input  []byte // for dInPlace: the input slice inside buf
	prefix []byte // copy of the prefix bytes
	need   int    // bytes the call appends
}

const fenceLen = 16

// place prepares dst for a call that appends need bytes. input is the plaintext
// (Seal) or the ciphertext||tag (Open) - used by the in-place mode, where
// len(input) may exceed need (Open) or be smaller (Seal). At kHi the capacity of
// dst ends at the guard page (a write beyond it faults); at the other positions it
// is followed by a fence of marker bytes outside its capacity.
func place(g *mon.Guard, r *mon.Rand, mode dstMode, at pos, need int, input []byte) placed {
	p := placed{mode: mode, need: need}
	if mode == dNil {
		return p
	}
	pl := 0
	if r.Intn(4) != 0 {
		pl = r.Range(1, 40)
	}
	if at.misaligned() {
		// the chosen offset is meant for the region the library writes (and, in place, reads):
		// a prefix of 0 or 32 bytes keeps that region at the alignment of the buffer start
		pl = 32 * r.Intn(2)
	}
	p.prefix = r.Bytes(pl)
	room := need
	if len(input) > room {
		room = len(input)
	}
	switch mode {
	case dSpare:
		room += r.Range(1, 96)
	case dShort:
		if need == 0 {
			// nothing to append: a short capacity does not exist; degrade to exact
			p.mode = dExact
		} else {
			room = r.Intn(need)
		}
	case dInPlace:
		room += r.Range(1, 48)
	}
	if at.kind == kHi {
		p.buf = g.Hi(pl + room)
	} else {
		whole := at.slice(g, pl+room+fenceLen)
		p.buf, p.fence = whole[:pl+room:pl+room], whole[pl+room:]
	}
	for i := range p.buf {
		p.buf[i] = marker
	}
	for i := range p.fence {
		p.fence[i] = marker
	}
	copy(p.buf, p.prefix)
	p.dst = p.buf[:pl]
	if p.mode.inPlace() {
		copy(p.buf[pl:], input)
		p.input = p.buf[pl : pl+len(input)]
	}
	return p
}

// checkAfter verifies what the call may not have touched: the prefix (in the
// result and in the buffer), every byte of the buffer beyond the appended region
// (all of it beyond the prefix when the capacity was too small) and the fence
// behind the capacity.
func (p *placed) checkAfter(c *mon.Case, what string, ret []byte, ok bool) {
	if p.mode == dNil {
		return
	}
	pl := len(p.prefix)
	if !bytes.Equal(p.buf[:pl], p.prefix) {
		c.Fail("oob", "%s: the %d prefix bytes already in dst were modified in the caller's buffer: %x -> %x", what, pl, p.prefix, p.buf[:pl])
	}
	if ok && (len(ret) < pl || !bytes.Equal(ret[:pl], p.prefix)) {
		c.Fail("mismatch", "%s: result does not start with the %d bytes that were in dst (only appending is allowed)", what, pl)
	}
	from := pl + p.need // end of the appended region
	if p.mode == dShort {
		from = pl // the buffer cannot hold the result: nothing of it may be written
	}
	if p.mode.inPlace() && len(p.input) > p.need {
		// Open in place: the tag bytes of the input follow the output region; they are input, not spare
		from = pl + len(p.input)
	}
	for i := from; i < len(p.buf)+len(p.fence); i++ {
		b, where := byte(0), "inside the spare capacity of dst"
		if i < len(p.buf) {
			b = p.buf[i]
		} else {
			b, where = p.fence[i-len(p.buf)], "BEYOND the capacity of dst"
		}
		if b != marker {
			c.Fail("oob", "%s: wrote at dst offset %d (value %#x) %s, outside the %d appended bytes after the %d-byte prefix (dst mode %v, cap %d)", what, i, b, where, p.need, pl, p.mode, cap(p.dst))
			return
		}
	}
}

// unchanged checks that an input buffer still holds what was passed.
func unchanged(c *mon.Case, what, name string, now, orig []byte) {
	if !bytes.Equal(now, orig) {
		off := 0
		for off < len(now) && now[off] == orig[off] {
			off++
		}
		c.Fail("oob", "%s modified its %s argument at offset %d", what, name, off)
	}
}

// ---------------------------------------------------------------------------
// the seal / open laws

// sealOpen executes Seal (dst mode ms) and Open (dst mode mo) of a on one input
// and checks: Seal == want (reference), append-only, inputs untouched, guards;
// Open(want) == pt with the same obligations.
func sealOpen(c *mon.Case, ar *arena, s spec, a cipher.AEAD, nonce, pt, aad, want []byte, ms, mo dstMode, pIn, pOut pos) {
	g := ar.pick(max(len(pt), len(aad)) + s.ts + 200)
	what := fmt.Sprintf("%v Seal(dst=%v)", s, ms)
	// ---- Seal
	nn, aa := in(g.nonce, nonce, pIn.shift(1)), in(g.aad, aad, pIn.shift(3))
	p := place(g.dst, c.R, ms, pOut, len(pt)+s.ts, pt)
	src := p.input
	if !p.mode.inPlace() {
		src = in(g.pt, pt, pIn)
	}
	var ret []byte
	if c.Call(what, func() { ret = a.Seal(p.dst, nn, src, aa) }) {
		c.CheckGuards(what, g.nonce, g.aad, g.dst, g.pt)
		c.Event("seal_vs_ref", 1)
		c.Event("seal_dst_"+p.mode.String(), 1)
		if len(ret) >= len(p.prefix) {
			c.Eq(what, ret[len(p.prefix):], want)
		} else {
			c.Fail("mismatch", "%s: result shorter than the prefix", what)
		}
		p.checkAfter(c, what, ret, true)
		unchanged(c, what, "nonce", nn, nonce)
		unchanged(c, what, "additional data", aa, aad)
		if !p.mode.inPlace() {
			unchanged(c, what, "plaintext", src, pt)
		}
	}
	// ---- Open of the reference's output
	what = fmt.Sprintf("%v Open(dst=%v)", s, mo)
	nn, aa = in(g.nonce, nonce, pOut.shift(2)), in(g.aad, aad, pOut.shift(4))
	q := place(g.out, c.R, mo, pIn, len(pt), want)
	ct := q.input
	if !q.mode.inPlace() {
		ct = in(g.ct, want, pOut)
	}
	var back []byte
	var err error
	if c.Call(what, func() { back, err = a.Open(q.dst, nn, ct, aa) }) {
		c.CheckGuards(what, g.nonce, g.aad, g.out, g.ct)
		c.Event("open_roundtrip", 1)
		c.Event("open_dst_"+q.mode.String(), 1)
		if err != nil {
			c.Fail("reject", "%s refused the sealed message of the reference: %v", what, err)
		} else if len(back) < len(q.prefix) {
			c.Fail("mismatch", "%s: result shorter than the prefix", what)
		} else {
			c.Eq(what, back[len(q.prefix):], pt)
		}
		q.checkAfter(c, what, back, err == nil)
		unchanged(c, what, "nonce", nn, nonce)
		unchanged(c, what, "additional data", aa, aad)
		if !q.mode.inPlace() {
			unchanged(c, what, "ciphertext", ct, want)
		}
	}
	c.Event("inputs_at_"+pIn.kindName(), 1)
	c.Event("outputs_at_"+pOut.kindName(), 1)
}

// ---------------------------------------------------------------------------
// tamper sweep

var subs = [4]func(byte) byte{
	func(b byte) byte { return b ^ 0x01 },
	func(b byte) byte { return b ^ 0x80 },
	func(b byte) byte { return 0x00 },
	func(b byte) byte { return 0xff },
}

// tamperOne opens one altered (nonce, aad, sealed) triple and demands refusal:
// error, nil result, an all-zero output region, nothing else touched.
func tamperOne(c *mon.Case, g *bufs, s spec, a cipher.AEAD, refAccepts func(nonce, sealed, aad []byte) bool, what string, k int, nonce, sealed, aad, pt []byte) {
	// placement: ciphertext||tag and the output alternately end / start at a guard page; every 7th
	// alteration uses misaligned buffers (different offsets for input and output)
	pc, po := atLo, atLo
	if k&1 == 0 {
		pc, po = atHi, atHi
	}
	if k%7 == 3 {
		pc, po = mis(k/7), mis(k/7+2)
		c.Event("tamper_opens_misaligned", 1)
	}
	mode := dExact
	switch {
	case k%11 == 10:
		mode = dNil
	case k%10 == 9:
		mode = dInPlaceTight
	case k%5 == 4:
		mode = dInPlace
	case k%3 == 2:
		mode = dSpare
	}
	region := len(sealed) - s.ts // bytes Open appends (and must zero); negative: shorter than a tag
	if region < 0 {
		region = 0
	}
	pn := atLo
	if pc.kind == kLo {
		pn = atHi
	}
	nn, aa := in(g.nonce, nonce, pc.shift(1)), in(g.aad, aad, pn)
	if pc.misaligned() {
		aa = in(g.aad, aad, pc.shift(3))
	}
	q := place(g.out, c.R, mode, po, region, sealed)
	ct := q.input
	if !q.mode.inPlace() {
		ct = in(g.ct, sealed, pc)
	}
	var back []byte
	var err error
	c.Event("tamper_opens", 1)
	if !c.Call(what, func() { back, err = a.Open(q.dst, nn, ct, aa) }) {
		return
	}
	c.CheckGuards(what, g.out, g.ct)
	if k%16 == 0 {
		// the nonce and aad slices keep their size during a sweep, so a stray write next to them stays visible
		c.CheckGuards(what, g.nonce, g.aad)
	}
	if err == nil && refAccepts(nonce, sealed, aad) {
		// a genuine collision of the truncated tag (probability 2^-8t per attempt): the specification accepts it too
		c.Event("tag_collisions_confirmed_by_reference", 1)
		return
	}
	if err == nil {
		c.Event("tamper_accepted", 1)
		c.Detail("nonce", nonce)
		c.Detail("aad", aad)
		c.Detail("sealed", sealed)
		c.Detail("returned", back)
		c.Fail("accept", "%v Open accepted an altered message (%s)", s, what)
		return
	}
	c.Event("tamper_rejected", 1)
	if back != nil {
		c.Fail("accept", "%v Open returned an error and a non-nil result of %d bytes (%s)", s, len(back), what)
	}
	if q.mode != dNil {
		pl := len(q.prefix)
		out := q.buf[pl : pl+region]
		zero := true
		for _, b := range out {
			if b != 0 {
				zero = false
				break
			}
		}
		c.Event("zeroed_regions_checked", 1)
		if !zero {
			switch {
			case len(pt) >= region && region > 0 && bytes.Equal(out, pt[:region]):
				c.Fail("accept", "%v failed Open left the PLAINTEXT in the output region dst[%d:%d] (%s)", s, pl, pl+region, what)
			case !q.mode.inPlace() && bytes.Equal(out, bytes.Repeat([]byte{marker}, region)):
				c.Fail("mismatch", "%v failed Open left the output region dst[%d:%d] untouched instead of zeroing it (%s)", s, pl, pl+region, what)
			default:
				c.Detail("region", out)
				c.Fail("accept", "%v failed Open left non-zero bytes in the output region dst[%d:%d] (%s)", s, pl, pl+region, what)
			}
		}
		q.checkAfter(c, what, nil, false)
	}
	unchanged(c, what, "nonce", nn, nonce)
	unchanged(c, what, "additional data", aa, aad)
	if !q.mode.inPlace() {
		unchanged(c, what, "ciphertext", ct, sealed)
	}
}

// tamperSweep applies every single-byte substitution (4 per position, identity
// mutants skipped) to sealed, nonce and aad, every truncation by 1..tag bytes and a
// few length changes. stride > 1 samples positions of long fields (offset drawn
// from the case PRNG).
func tamperSweep(c *mon.Case, ar *arena, s spec, a cipher.AEAD, refAccepts func(nonce, sealed, aad []byte) bool, nonce, sealed, aad, pt []byte, stride int) {
	g := ar.pick(max(len(sealed), len(aad)) + 200)
	k := 0
	fields := []struct {
		name string
		val  []byte
	}{{"ct||tag", sealed}, {"nonce", nonce}, {"aad", aad}}
	for fi, f := range fields {
		st := 1
		if len(f.val) > 700 {
			st = stride
		}
		for pos := c.R.Intn(st); pos < len(f.val); pos += st {
			for si, sub := range subs {
				nb := sub(f.val[pos])
				if nb == f.val[pos] {
					c.Event("identity_mutants_skipped", 1)
					continue
				}
				m := append([]byte{}, f.val...)
				m[pos] = nb
				args := [3][]byte{sealed, nonce, aad}
				args[fi] = m
				what := fmt.Sprintf("tamper %s[%d] %#02x->%#02x (sub %d)", f.name, pos, f.val[pos], nb, si)
				tamperOne(c, g, s, a, refAccepts, what, k, args[1], args[0], args[2], pt)
				c.Event("tamper_"+f.name, 1)
				k++
			}
		}
	}
	c.CheckGuards("tamper sweep", g.nonce, g.aad)
	for t := 1; t <= s.ts && t <= len(sealed); t++ {
		tamperOne(c, g, s, a, refAccepts, fmt.Sprintf("truncate ct||tag by %d", t), k, nonce, sealed[:len(sealed)-t], aad, pt)
		c.Event("tamper_truncate", 1)
		k++
	}
	// length changes that keep every byte: GHASH/CBC-MAC zero padding must not hide them
	ext := append(append([]byte{}, sealed...), 0)
	tamperOne(c, g, s, a, refAccepts, "ct||tag extended by a zero byte", k, nonce, ext, aad, pt)
	k++
	tamperOne(c, g, s, a, refAccepts, "aad extended by a zero byte", k, nonce, sealed, append(append([]byte{}, aad...), 0), pt)
	k++
	if len(aad) > 0 {
		tamperOne(c, g, s, a, refAccepts, "aad shortened by its last byte", k, nonce, sealed, aad[:len(aad)-1], pt)
		k++
	}
	if len(sealed) > s.ts && len(aad) < 600 {
		// move the first ciphertext byte into the associated data
		tamperOne(c, g, s, a, refAccepts, "boundary between aad and ciphertext moved", k, nonce, sealed[1:], append(append([]byte{}, aad...), sealed[0]), pt)
		k++
	}
	c.Event("tamper_length_changes", 3)
	c.CheckGuards("tamper sweep", g.nonce, g.aad, g.out, g.ct)
	// the object that refused all of the above must still open the unaltered message
	var back []byte
	var err error
	if c.Call("Open of the unaltered message after the sweep", func() { back, err = a.Open(nil, nonce, sealed, aad) }) {
		if err != nil {
			c.Fail("reject", "%v refused the unaltered message after the tamper sweep: %v", s, err)
		} else {
			c.Eq("Open after the sweep", back, pt)
		}
	}
}
