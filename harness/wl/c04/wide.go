package c04

// c04.wide: the far end of every length range of the property - values whose BIT length does not fit in 32 bits,
// lengths that need the widest encoding of a length field, nonce lengths across every byte/word boundary.
//
// Long inputs are anonymous private mappings between two inaccessible pages: only a short random prefix and suffix
// are written, the untouched pages in between are the kernel's shared zero page, so 512 MiB or 4 GiB of associated
// data cost no memory. During the library call the mapping is read-only (a stray store faults). The reference never
// walks the zeros: GHASH over k zero blocks is a multiplication by H^k (ref/aead sparse strings).
//
//	nonce-sweep   NewGCMWithNonceSize for every nonce length 41..300 (1..40 are in c04.gcm), all dst modes/placements
//	long-nonce    nonces of 2^16-1 .. 2^24+8 bytes and - the bit length of the nonce enters the GHASH length
//	              block - of 2^29-1, 2^29, 2^29+5 bytes
//	huge-aad      GCM associated data of 2^29-16 .. 2^29+5, 3*2^29 and (thorough, 64-bit) 2^32, 2^32+17 bytes:
//	              Seal == reference, Open accepts the reference's message and refuses it with the associated data
//	              cut by one byte (with an all-zero tail that changes nothing but the length block)
//	huge-ct       (thorough, 64-bit, library GCM) a ciphertext of 2^29(+5) bytes: the tag of a sparse ciphertext is
//	              computed by the reference, Open in place must accept it, sampled plaintext blocks must be the CTR
//	              key stream, and Seal in place of that plaintext must give the sparse ciphertext and the tag back
//	ccm-aad       CCM associated data of 2^16 .. 2^24+1 bytes (six-octet length encoding with every byte of the
//	              length non-zero) against the streamed RFC 3610 reference; thorough, 64-bit, one configuration:
//	              2^32-1, 2^32, 2^32+17 bytes (ten-octet encoding) with crypto/aes as the block cipher
//
// Which sizes run is decided by the implementation the configuration dispatches to (type of the AEAD): the fused
// assembly hashes a gigabyte per second, the table-driven and generic GHASH are an order of magnitude slower.

import (
	"bytes"
	"crypto/aes"
	"crypto/cipher"
	"fmt"
	"strconv"
	"syscall"

	gcipher "github.com/emmansun/gmsm/cipher"
	hook "github.com/emmansun/gmsm/verifhook"

	"verifh/mon"
	"verifh/ref/aead"
	"verifh/wl/reg"
)

func init() { reg.Register("c04.wide", "C04", wide) }

const wordBits = strconv.IntSize

// zmap is an anonymous private mapping [PROT_NONE page | data | PROT_NONE page].
type zmap struct {
	mem  []byte
	data []byte
}

const zPage = 4096

func newZmap(n int) (*zmap, error) {
	size := (n + zPage - 1) / zPage * zPage
	if size == 0 {
		size = zPage
	}
	if size < n || size+2*zPage < size {
		return nil, fmt.Errorf("%d bytes do not fit the address space", n)
	}
	mem, err := syscall.Mmap(-1, 0, size+2*zPage, syscall.PROT_READ|syscall.PROT_WRITE, syscall.MAP_ANON|syscall.MAP_PRIVATE|syscall.MAP_NORESERVE)
	if err != nil {
		return nil, fmt.Errorf("mmap of %d bytes: %v", size+2*zPage, err)
	}
	z := &zmap{mem: mem, data: mem[zPage : zPage+size : zPage+size]}
	if size >= 1<<24 {
		// a hint only: with transparent huge pages the untouched range is backed by the 2 MiB zero page (512 times fewer
		// page faults and TLB entries)
		syscall.Madvise(z.data, 14 /* MADV_HUGEPAGE */)
	}
	if err := syscall.Mprotect(mem[:zPage], syscall.PROT_NONE); err == nil {
		err = syscall.Mprotect(mem[zPage+size:], syscall.PROT_NONE)
	}
	if err != nil {
		z.free()
		return nil, fmt.Errorf("mprotect: %v", err)
	}
	return z, nil
}

// slice returns n bytes whose end (hi) or start abuts an inaccessible page.
func (z *zmap) slice(n int, hi bool) []byte {
	if hi {
		return z.data[len(z.data)-n:]
	}
	return z.data[:n:n]
}

func (z *zmap) readOnly() {
	if err := syscall.Mprotect(z.data, syscall.PROT_READ); err != nil {
		panic("c04: mprotect: " + err.Error())
	}
}

func (z *zmap) free() {
	if z != nil && z.mem != nil {
		syscall.Munmap(z.mem)
		z.mem = nil
	}
}

// sparseIn is a long input: the library sees b, the reference sp.
type sparseIn struct {
	z  *zmap
	b  []byte
	sp aead.Sparse
}

// ends draws the lengths of the random prefix and suffix of a long input of n bytes: each is absent in a third of the
// cases (then the input begins / ends with the zero run and cutting a byte changes nothing but the length).
func ends(r *mon.Rand, n int) (p, s int) {
	if r.Intn(3) != 0 {
		p = r.Range(1, 40)
	}
	if r.Intn(3) != 0 {
		s = r.Range(1, 40)
	}
	if p+s > n {
		p, s = n, 0
	}
	return
}

// newSparseIn maps n bytes (plus spare bytes behind them when the slice starts at the lower page) and writes prefix and suffix.
func newSparseIn(r *mon.Rand, n, spare int, hi bool) (*sparseIn, error) {
	z, err := newZmap(n + spare)
	if err != nil {
		return nil, err
	}
	p, s := ends(r, n)
	in := &sparseIn{z: z, b: z.slice(n+spare, hi && spare == 0)[:n]}
	in.sp = aead.Sparse{Prefix: r.Bytes(p), Zeros: uint64(n - p - s), Suffix: r.Bytes(s)}
	copy(in.b, in.sp.Prefix)
	copy(in.b[n-s:], in.sp.Suffix)
	return in, nil
}

func sparseDesc(sp aead.Sparse) string {
	return fmt.Sprintf("%d random + %d zero + %d random bytes", len(sp.Prefix), sp.Zeros, len(sp.Suffix))
}

// gcmImpl classifies the GCM the configuration dispatches to: "fused" (assembly GHASH+CTR), "table" (the library's
// table-driven Go GCM over assembly batches) or "generic" (crypto/cipher's own GCM over the library's block).
func gcmImpl() (string, string) {
	a, err := gcmSpec("lib", 12, 16).build(make([]byte, 16))
	if err != nil {
		return "generic", "?"
	}
	t := fmt.Sprintf("%T", a)
	switch t {
	case "*sm4.gcmAsm":
		return "fused", t
	case "*sm4.gcm":
		return "table", t
	}
	return "generic", t
}

// plan of the inputs of 2^29 bytes and more.
type hugeSizes struct {
	nonces, aads, cts []int
	reps              int  // messages per size
	lean              bool // Seal only (one pass over the long input instead of three)
	noRefusal         bool // Seal and Open (two passes)
}

// hugePlan: what fits the budget. The fused assembly hashes several GiB/s: every size around 2^29, 3*2^29 and - thorough,
// 64-bit - around 2^32, three passes each (Seal, Open, refused Open); in quick only its first configuration (avx2) gets
// all of them, the others (avx, sse, aesni1: the GHASH of nonce and associated data and the length block are ONE routine
// for all of them, only the fused GHASH+CTR loops differ) one nonce and one associated data. The table-driven Go GHASH of the library and the
// generic GHASH of crypto/cipher manage about 0.2 GiB/s: the table-driven one gets two lean messages in quick in its
// first configuration (noclmul; noclmul-avx and noclmul-sse run the same Go code over smaller CTR batches; Seal only: Open
// computes the tag with the same function) and the
// sizes around 2^29 (Seal and Open) plus, in its first configuration, a huge ciphertext in thorough (a case stays below
// ten seconds: the machine is shared and the per-case deadline is wall-clock time); the generic one - no code of the library between the caller
// and the hash - two sizes in thorough only.
func hugePlan(impl string, primary, thorough bool) hugeSizes {
	h := pow2(29)
	switch {
	case impl == "fused" && !primary && !thorough:
		return hugeSizes{nonces: []int{h}, aads: []int{h + 5}, reps: 1}
	case impl == "fused":
		p := hugeSizes{nonces: []int{h, h + 5}, aads: []int{h - 1, h, h + 5, 3 * h}, reps: 1}
		if thorough {
			p.reps = 3
			p.nonces, p.aads = append(p.nonces, h-1), append(p.aads, h-16)
			if wordBits == 64 {
				p.aads = append(p.aads, pow2(32)-1, pow2(32), pow2(32)+17)
				p.cts = []int{h, h + 5}
			}
		}
		return p
	case impl == "table" && thorough:
		p := hugeSizes{nonces: []int{h, h + 5}, aads: []int{h - 1, h, h + 5}, reps: 1, noRefusal: true}
		if wordBits == 64 && primary {
			p.cts = []int{h + 5}
		}
		return p
	case impl == "table" && primary:
		return hugeSizes{nonces: []int{h}, aads: []int{h + 5}, reps: 1, lean: true}
	case thorough:
		return hugeSizes{nonces: []int{h}, aads: []int{h, h + 5}, reps: 1, lean: true}
	}
	return hugeSizes{}
}

func pow2(e uint) int { one := 1; return one << e } // not a constant: 1<<32 must compile where int has 32 bits

func sizeClass(n int) string {
	for e := uint(10); e < uint(wordBits-1); e++ {
		if d := n - pow2(e); d > -64 && d < 64 {
			switch {
			case d < 0:
				return fmt.Sprintf("2^%d-", e)
			case d == 0:
				return fmt.Sprintf("2^%d", e)
			}
			return fmt.Sprintf("2^%d+", e)
		}
	}
	if n < 1<<20 {
		return fmt.Sprintf("%dKiB", n>>10)
	}
	return fmt.Sprintf("%dMiB", n>>20)
}

func wide(x *mon.Ctx) {
	if err := aead.SelfTestSparse(); err != nil {
		x.HarnessError("%v", err)
	}
	impl, implType := gcmImpl()
	d := hook.Dispatch()
	primary := impl == "generic" || (d["sm4.useAVX2"] && !d["sm4.useAESNI4SingleBlock"])
	x.Note("c04.wide: GCM implementation of this configuration is %s (%s), first configuration of its kind: %v, int has %d bits", impl, implType, primary, wordBits)
	ar := &arena{}
	i := 0
	// ---- nonce-sweep: every nonce length 41..300
	for ns := 41; ns <= 300; ns++ {
		for r := 0; r < x.Scale(1, 8); r++ {
			one(x, ar, "nonce-sweep", gcmSpec("lib", ns, 16), ptCycle[i%len(ptCycle)], aadCycle[(i/3)%len(aadCycle)], i)
			i++
		}
	}
	// ---- long-nonce, huge-aad, huge-ct: sizes by implementation (see hugePlan)
	h := pow2(29)
	pl := hugePlan(impl, primary, x.Thorough())
	for _, ns := range append([]int{1<<16 - 1, 1 << 16, 1<<16 + 1, 1<<20 + 3, 1<<24 + 8}, pl.nonces...) {
		for r := 0; r < x.Scale(1, 3); r++ {
			if ns >= h && r >= pl.reps {
				continue
			}
			hugeGCM(x, "long-nonce", ns, -1, []int{0, 33, 16, 1}[i%4], i, pl.lean && ns >= h, false)
			i++
		}
	}
	for _, al := range pl.aads {
		for r := 0; r < pl.reps; r++ {
			if r > 0 && al > 3*h {
				continue
			}
			hugeGCM(x, "huge-aad", 12+4*(r%2)*(i%2), al, []int{5, 0, 16, 100}[i%4], i, pl.lean, pl.noRefusal)
			i++
		}
	}
	for _, n := range pl.cts {
		hugeCiphertext(x, n, i)
		i++
	}
	// ---- ccm-aad
	ccmLens := []int{1 << 16, 0x010203, 1<<20 + 1}
	if x.Thorough() {
		ccmLens = append(ccmLens, 0xf1f2f3, 1<<24-1, 0x01020304)
	}
	for _, al := range ccmLens {
		for r := 0; r < x.Scale(2, 6); r++ {
			hugeCCM(x, 7+i%7, 4+2*((3*i+1)%7), al, ptCycle[(5*i)%len(ptCycle)], i, false, 3)
			i++
		}
	}
	ccmDomain(x)
	// the ten-octet encoding, over crypto/aes: one configuration (the code is portable Go), thorough, 64-bit
	if x.Thorough() && wordBits == 64 && impl == "fused" && primary {
		hugeCCM(x, 12, 16, pow2(32)-1, 5, i, true, 1)
		hugeCCM(x, 7+i%7, 4+2*(i%7), pow2(32), 33, i+1, true, 1)
		hugeCCM(x, 13, 8, pow2(32)+17, 0, i+2, true, 1)
		i += 3
	}
}

// smallDst prepares a destination for need appended bytes: nil, or a marker-filled buffer with a prefix and spare capacity.
func smallDst(r *mon.Rand, i, need int) (dst, buf, prefix []byte) {
	if i%3 == 0 {
		return nil, nil, nil
	}
	prefix = r.Bytes(r.Intn(20))
	buf = bytes.Repeat([]byte{marker}, len(prefix)+need+r.Range(0, 40))
	copy(buf, prefix)
	return buf[:len(prefix)], buf, prefix
}

// checkSmallDst: prefix kept, nothing written behind the appended bytes.
func checkSmallDst(c *mon.Case, what string, buf, prefix []byte, need int) {
	if buf == nil {
		return
	}
	if !bytes.Equal(buf[:len(prefix)], prefix) {
		c.Fail("oob", "%s modified the bytes already in dst", what)
	}
	for k := len(prefix) + need; k < len(buf); k++ {
		if buf[k] != marker {
			c.Fail("oob", "%s wrote at dst offset %d, behind the %d appended bytes", what, k, need)
			return
		}
	}
}

// refuse demands that Open refuses (nonce, sealed, aad): error, nil result, zeroed output region.
func refuse(c *mon.Case, a cipher.AEAD, what string, nonce, sealed, aad []byte, region int) {
	buf := bytes.Repeat([]byte{marker}, 8+region+8)
	var back []byte
	var err error
	if !c.Call(what, func() { back, err = a.Open(buf[:8], nonce, sealed, aad) }) {
		return
	}
	c.Event("wide_refusals_demanded", 1)
	if err == nil {
		c.Fail("accept", "%s: Open accepted it", what)
		return
	}
	if back != nil {
		c.Fail("accept", "%s: Open returned an error and a non-nil result", what)
	}
	for k := 0; k < region; k++ {
		if buf[8+k] != 0 {
			c.Fail("accept", "%s: the refused Open left non-zero bytes in the output region", what)
			break
		}
	}
	for k := 0; k < 8; k++ {
		if buf[k] != marker || buf[8+region+k] != marker {
			c.Fail("oob", "%s: the refused Open wrote outside the output region", what)
			break
		}
	}
}

// hugeGCM: one GCM message with a long nonce (ns bytes, al < 0: short dense associated data) or long associated data
// (al bytes, nonce of ns bytes).
func hugeGCM(x *mon.Ctx, part string, ns, al, n, i int, lean, noRefusal bool) {
	longNonce := al < 0
	if longNonce {
		al = aadCycle[i%len(aadCycle)]
	}
	s := gcmSpec("lib", ns, 16)
	if !longNonce && ns == 12 && i%3 == 1 {
		s = gcmSpec("lib", 12, 12+i%4)
	}
	hi := i%2 == 0
	c := x.Begin("%s %v pt=%d aad=%d long input ends at an inaccessible page=%v", part, s, n, al, hi)
	if c == nil {
		return
	}
	defer c.End()
	long := al
	if longNonce {
		long = ns
	}
	c.Class("%s/%s/ts%d/long:%s/pt:%s/hi:%v", part, s.ctor, s.ts, sizeClass(long), lenClass(n), hi)
	key, pt := c.R.Bytes(16), c.R.Bytes(n)
	c.Detail("key", key)
	in, err := newSparseIn(c.R, long, 0, hi)
	if err != nil {
		c.Inconclusive("no mapping for the long input: %v", err)
		return
	}
	defer in.z.free()
	c.Detail("long input", sparseDesc(in.sp))
	in.z.readOnly()
	nonceSp, aadSp := in.sp, in.sp
	nonce, ad := in.b, in.b
	if longNonce {
		ad = c.R.Bytes(al)
		aadSp = aead.Dense(ad)
	} else {
		nonce = c.R.Bytes(ns)
		nonceSp = aead.Dense(nonce)
		c.Detail("nonce", nonce)
	}
	var a cipher.AEAD
	if !c.Call(s.String(), func() { a, err = s.build(key) }) {
		return
	}
	if err != nil {
		c.Fail("reject", "%v refused valid parameters: %v", s, err)
		return
	}
	c.Event(fmt.Sprintf("impl %T", a), 1)
	enc := aead.SM4(key)
	want := aead.GCMSealSparse(enc, nonceSp, pt, aadSp, s.ts)
	c.Event("wide_bytes_hashed_by_sparse_reference_MiB", long>>20)
	// Seal
	what := fmt.Sprintf("%v Seal with %s of %d bytes", s, map[bool]string{true: "a nonce", false: "associated data"}[longNonce], long)
	dst, buf, prefix := smallDst(c.R, i, len(want))
	var ret []byte
	if c.Call(what, func() { ret = a.Seal(dst, nonce, pt, ad) }) {
		c.Event("seal_vs_ref", 1)
		if len(ret) < len(prefix) || !bytes.Equal(ret[:len(prefix)], prefix) {
			c.Fail("mismatch", "%s: result does not start with the bytes that were in dst", what)
		} else {
			c.Eq(what, ret[len(prefix):], want)
		}
		checkSmallDst(c, what, buf, prefix, len(want))
	}
	if lean {
		return
	}
	// Open of the reference's message
	what = fmt.Sprintf("%v Open with %s of %d bytes", s, map[bool]string{true: "a nonce", false: "associated data"}[longNonce], long)
	dst, buf, prefix = smallDst(c.R, i+1, n)
	var back []byte
	if c.Call(what, func() { back, err = a.Open(dst, nonce, want, ad) }) {
		c.Event("open_roundtrip", 1)
		if err != nil {
			c.Fail("reject", "%s refused the sealed message of the reference: %v", what, err)
		} else if len(back) < len(prefix) || !bytes.Equal(back[:len(prefix)], prefix) {
			c.Fail("mismatch", "%s: result does not start with the bytes that were in dst", what)
		} else {
			c.Eq(what, back[len(prefix):], pt)
		}
		checkSmallDst(c, what, buf, prefix, n)
	}
	// the same message with the associated data one byte shorter (an all-zero tail: only the length block differs)
	if !longNonce && !noRefusal {
		cut := in.sp
		if len(cut.Suffix) > 0 {
			cut.Suffix = cut.Suffix[:len(cut.Suffix)-1]
		} else {
			cut.Zeros--
		}
		if !bytes.Equal(aead.GCMTagSparse(enc, nonceSp, aead.Dense(want[:n]), cut, s.ts), want[n:]) {
			refuse(c, a, fmt.Sprintf("%v Open with the associated data cut from %d to %d bytes", s, long, long-1), nonce, want, ad[:long-1], n)
		} else {
			c.Event("tag_collisions_confirmed_by_reference", 1)
		}
	}
}

// hugeCiphertext: the bit length of the MESSAGE beyond 32 bits. A sparse ciphertext of n bytes gets its tag from the
// reference (H^k again); Open in place must accept it; the plaintext it leaves must be the CTR key stream XOR the
// ciphertext at the sampled blocks (first and last 48, 3000 random ones); Seal in place of that plaintext must
// reproduce the sparse ciphertext (complete scan) and the tag.
func hugeCiphertext(x *mon.Ctx, n, i int) {
	s := gcmSpec("lib", 12, 16)
	c := x.Begin("huge-ct %v ciphertext=%d bytes, in place", s, n)
	if c == nil {
		return
	}
	defer c.End()
	c.Class("huge-ct/%s/ct:%s", s.ctor, sizeClass(n))
	key, nonce, ad := c.R.Bytes(16), c.R.Bytes(12), c.R.Bytes(aadCycle[i%len(aadCycle)])
	c.Detail("key", key)
	c.Detail("nonce", nonce)
	in, err := newSparseIn(c.R, n, 16, false)
	if err != nil {
		c.Inconclusive("no mapping for the long input: %v", err)
		return
	}
	defer in.z.free()
	c.Detail("ciphertext", sparseDesc(in.sp))
	var a cipher.AEAD
	if !c.Call(s.String(), func() { a, err = s.build(key) }) || err != nil {
		if err != nil {
			c.Fail("reject", "%v refused valid parameters: %v", s, err)
		}
		return
	}
	enc := aead.SM4(key)
	tag := aead.GCMTagSparse(enc, aead.Dense(nonce), in.sp, aead.Dense(ad), 16)
	region := in.b[: n+16 : n+16]
	copy(region[n:], tag)
	var back []byte
	what := fmt.Sprintf("%v Open in place of %d bytes", s, n)
	if !c.Call(what, func() { back, err = a.Open(region[:0], nonce, region, ad) }) {
		return
	}
	if err != nil {
		c.Fail("reject", "%s refused the message whose tag the reference computed: %v", what, err)
		return
	}
	if len(back) != n {
		c.Fail("mismatch", "%s: result of %d bytes instead of %d", what, len(back), n)
		return
	}
	j0 := aead.GCMJ0(enc, nonce)
	blocks := (n + 15) / 16
	bad := 0
	check := func(b int) {
		ks := aead.GCMKeyStreamBlock(enc, j0, uint32(b))
		for k := 16 * b; k < 16*b+16 && k < n; k++ {
			if back[k] != ks[k-16*b]^in.sp.At(uint64(k)) && bad < 3 {
				bad++
				c.Fail("mismatch", "%s: plaintext byte %d (block %d) is %#02x, CTR key stream XOR ciphertext is %#02x", what, k, b, back[k], ks[k-16*b]^in.sp.At(uint64(k)))
				return
			}
		}
		c.Event("wide_plaintext_blocks_compared", 1)
	}
	for b := 0; b < 48; b++ {
		check(b)
		check(blocks - 1 - b)
	}
	for k := 0; k < 3000; k++ {
		check(c.R.Intn(blocks))
	}
	if !bytes.Equal(region[n:], tag) {
		c.Fail("oob", "%s modified the tag behind the ciphertext", what)
	}
	// back to the ciphertext
	what = fmt.Sprintf("%v Seal in place of %d bytes", s, n)
	var ret []byte
	if !c.Call(what, func() { ret = a.Seal(back[:0], nonce, back, ad) }) {
		return
	}
	c.Event("seal_vs_ref", 1)
	if len(ret) != n+16 {
		c.Fail("mismatch", "%s: result of %d bytes instead of %d", what, len(ret), n+16)
		return
	}
	c.Eq(what+": tag", ret[n:], tag)
	p, sfx := len(in.sp.Prefix), len(in.sp.Suffix)
	c.Eq(what+": first bytes", ret[:p], in.sp.Prefix)
	c.Eq(what+": last bytes", ret[n-sfx:n], in.sp.Suffix)
	var zero [1 << 16]byte
	for k := p; k < n-sfx; {
		e := min(k+len(zero), n-sfx)
		if !bytes.Equal(ret[k:e], zero[:e-k]) {
			for ret[k] == 0 {
				k++
			}
			c.Fail("mismatch", "%s: ciphertext byte %d is %#02x, the sealed plaintext was opened from a ciphertext with 0 there", what, k, ret[k])
			break
		}
		k = e
	}
	c.Event("wide_MiB_opened_and_sealed_in_place", n>>20)
}

// hugeCCM: CCM with associated data in the six-octet length encoding.
//
// passes = 1: Seal, 2: and Open, 3: and the refused Open. overAES: the ten-octet encoding starts at 2^32 bytes and the CBC-MAC over them is 2^28
// block encryptions one after the other - a minute per pass with SM4, five seconds with the AES instructions. The code
// that formats the length (gmsm/cipher ccm.auth) does not depend on the block cipher, so it is driven over crypto/aes
// there, the reference running over the same block function.
func hugeCCM(x *mon.Ctx, ns, ts, al, n, i int, overAES bool, passes int) {
	s := ccmSpec("lib", ns, ts, true)
	if overAES {
		s.blk = "crypto/aes"
	}
	hi := i%2 == 0
	c := x.Begin("ccm-aad %v pt=%d aad=%d (%#x) long input ends at an inaccessible page=%v", s, n, al, al, hi)
	if c == nil {
		return
	}
	defer c.End()
	c.Class("ccm-aad/%s/ns%d/ts%d/aad:%s/hi:%v", s.blk, ns, ts, sizeClass(al), hi)
	c.Class("ccm-aad/%s/aad:%s/pt:%s", s.blk, sizeClass(al), lenClass(n))
	key, nonce, pt := c.R.Bytes(16), c.R.Bytes(ns), c.R.Bytes(n)
	c.Detail("key", key)
	c.Detail("nonce", nonce)
	in, err := newSparseIn(c.R, al, 0, hi)
	if err != nil {
		c.Inconclusive("no mapping for the long input: %v", err)
		return
	}
	defer in.z.free()
	c.Detail("long input", sparseDesc(in.sp))
	in.z.readOnly()
	var a cipher.AEAD
	enc := aead.SM4(key)
	build := func() { a, err = s.build(key) }
	if overAES {
		blk, e := aes.NewCipher(key)
		if e != nil {
			x.HarnessError("crypto/aes: %v", e)
		}
		enc = blk.Encrypt
		build = func() { a, err = gcipher.NewCCMWithNonceAndTagSize(blk, ns, ts) }
	}
	if !c.Call(s.String(), build) || err != nil {
		if err != nil {
			c.Fail("reject", "%v refused valid parameters: %v", s, err)
		}
		return
	}
	// the reference (a pure function of values this goroutine does not modify) runs next to the library call: the
	// 2^28 chained block encryptions of the long cases then cost their time once, not twice
	var want []byte
	done := make(chan struct{})
	go func() {
		defer close(done)
		want = aead.CCMSealSparse(enc, nonce, pt, in.sp, ts)
	}()
	c.Event("wide_ccm_reference_MiB", al>>20)
	what := fmt.Sprintf("%v Seal with associated data of %d bytes", s, al)
	dst, buf, prefix := smallDst(c.R, i, n+ts)
	var ret []byte
	sealed := c.Call(what, func() { ret = a.Seal(dst, nonce, pt, in.b) })
	<-done
	if sealed {
		c.Event("seal_vs_ref", 1)
		if len(ret) < len(prefix) || !bytes.Equal(ret[:len(prefix)], prefix) {
			c.Fail("mismatch", "%s: result does not start with the bytes that were in dst", what)
		} else {
			c.Eq(what, ret[len(prefix):], want)
		}
		checkSmallDst(c, what, buf, prefix, len(want))
	}
	if passes < 2 {
		return
	}
	what = fmt.Sprintf("%v Open with associated data of %d bytes", s, al)
	dst, buf, prefix = smallDst(c.R, i+1, n)
	var back []byte
	if c.Call(what, func() { back, err = a.Open(dst, nonce, want, in.b) }) {
		c.Event("open_roundtrip", 1)
		if err != nil {
			c.Fail("reject", "%s refused the sealed message of the reference: %v", what, err)
		} else if len(back) < len(prefix) || !bytes.Equal(back[:len(prefix)], prefix) {
			c.Fail("mismatch", "%s: result does not start with the bytes that were in dst", what)
		} else {
			c.Eq(what, back[len(prefix):], pt)
		}
		checkSmallDst(c, what, buf, prefix, n)
	}
	if i%2 == 0 && passes > 2 {
		cut := in.sp
		if len(cut.Suffix) > 0 {
			cut.Suffix = cut.Suffix[:len(cut.Suffix)-1]
		} else {
			cut.Zeros--
		}
		if !bytes.Equal(aead.CCMSealSparse(enc, nonce, pt, cut, ts), want) {
			refuse(c, a, fmt.Sprintf("%v Open with the associated data cut from %d to %d bytes", s, al, al-1), nonce, want, in.b[:al-1], n)
		} else {
			c.Event("tag_collisions_confirmed_by_reference", 1)
		}
	}
}

// shortBlock is a 64-bit block cipher: CCM is defined for 128-bit blocks only.
type shortBlock struct{}

func (shortBlock) BlockSize() int          { return 8 }
func (shortBlock) Encrypt(dst, src []byte) { copy(dst, src[:8]) }
func (shortBlock) Decrypt(dst, src []byte) { copy(dst, src[:8]) }

// ccmDomain: the ends of the PARAMETER ranges of RFC 3610. Every constructor must accept exactly nonce sizes 7..13
// (L = 2..8) and tag sizes 4, 6, .., 16 over a 128-bit block and refuse everything else with an error and a nil AEAD;
// an accepted pair must report its own sizes. And the first ciphertext length beyond the L-octet length field
// (2^16, 2^24, 2^32 bytes of message for nonces of 13, 12, 11 bytes) must be refused by Open, whatever the tag - no
// message of that length can have been sealed.
func ccmDomain(x *mon.Ctx) {
	sizes := []int{-1 << (wordBits - 1), -16, -1}
	for v := 0; v <= 20; v++ {
		sizes = append(sizes, v)
	}
	sizes = append(sizes, 32, 255, 256, 260, 1<<16+12, 1<<(wordBits-1)-1)
	for _, ns := range sizes {
		c := x.Begin("ccm-domain constructors with nonce size %d x every tag size", ns)
		if c == nil {
			continue
		}
		c.Class("ccm-domain/ctor/ns-valid:%v", ns >= 7 && ns <= 13)
		blk, err := newBlock(c.R.Bytes(16))
		if err != nil {
			x.HarnessError("sm4.NewCipher: %v", err)
		}
		try := func(what string, valid bool, wantNs, wantTs int, f func() (cipher.AEAD, error)) {
			var a cipher.AEAD
			var err error
			if !c.Call(what, func() { a, err = f() }) {
				return
			}
			c.Event("wide_ccm_constructor_verdicts", 1)
			switch {
			case valid && (err != nil || a == nil):
				c.Fail("reject", "%s refused parameters of RFC 3610: %v", what, err)
			case valid && (a.NonceSize() != wantNs || a.Overhead() != wantTs):
				c.Fail("mismatch", "%s: NonceSize()=%d Overhead()=%d", what, a.NonceSize(), a.Overhead())
			case !valid && err == nil:
				c.Fail("accept", "%s accepted parameters outside RFC 3610", what)
			case !valid && a != nil:
				c.Fail("accept", "%s returned an error and a non-nil AEAD", what)
			}
		}
		nsOK := ns >= 7 && ns <= 13
		for _, ts := range sizes {
			tsOK := ts >= 4 && ts <= 16 && ts%2 == 0
			ns, ts := ns, ts
			try(fmt.Sprintf("NewCCMWithNonceAndTagSize(ns=%d,ts=%d)", ns, ts), nsOK && tsOK, ns, ts, func() (cipher.AEAD, error) { return gcipher.NewCCMWithNonceAndTagSize(blk, ns, ts) })
			try(fmt.Sprintf("NewCCMWithNonceAndTagSize(64-bit block,ns=%d,ts=%d)", ns, ts), false, ns, ts, func() (cipher.AEAD, error) { return gcipher.NewCCMWithNonceAndTagSize(shortBlock{}, ns, ts) })
			if ns == 12 {
				try(fmt.Sprintf("NewCCMWithTagSize(ts=%d)", ts), tsOK, 12, ts, func() (cipher.AEAD, error) { return gcipher.NewCCMWithTagSize(blk, ts) })
			}
		}
		try(fmt.Sprintf("NewCCMWithNonceSize(ns=%d)", ns), nsOK, ns, 16, func() (cipher.AEAD, error) { return gcipher.NewCCMWithNonceSize(opaque{blk}, ns) })
		c.End()
	}
	for _, ns := range []int{13, 12, 11} {
		for k, ts := range []int{4, 16, 10} {
			c := x.Begin("ccm-domain Open of the first message length beyond the %d-octet length field, nonce %d bytes, tag %d bytes", 15-ns, ns, ts)
			if c == nil {
				continue
			}
			c.Class("ccm-domain/too-long/ns%d", ns)
			e := uint(8 * (15 - ns))
			if e >= uint(wordBits-1) {
				c.Trivial() // no slice is that long here
				c.End()
				continue
			}
			n := pow2(e) + ts
			in, err := newSparseIn(c.R, n, 0, k%2 == 0)
			if err != nil {
				c.Inconclusive("no mapping for the long input: %v", err)
				c.End()
				continue
			}
			in.z.readOnly()
			s := ccmSpec([]string{"lib", "lib", "opaque"}[k], ns, ts, true)
			var a cipher.AEAD
			if c.Call(s.String(), func() { a, err = s.build(c.R.Bytes(16)) }) && err == nil {
				var back []byte
				dst := bytes.Repeat([]byte{marker}, 64)
				what := fmt.Sprintf("%v Open of %d bytes (message of 2^%d bytes)", s, n, e)
				if c.Call(what, func() { back, err = a.Open(dst[:8], c.R.Bytes(ns), in.b, c.R.Bytes(k)) }) {
					c.Event("wide_refusals_demanded", 1)
					if err == nil {
						c.Fail("accept", "%s: accepted a message longer than the length field can express", what)
					} else if back != nil {
						c.Fail("accept", "%s: returned an error and a non-nil result", what)
					}
					if !bytes.Equal(dst[:8], bytes.Repeat([]byte{marker}, 8)) {
						c.Fail("oob", "%s modified the bytes already in dst", what)
					}
				}
			} else if err != nil {
				c.Fail("reject", "%v refused valid parameters: %v", s, err)
			}
			in.z.free()
			c.End()
		}
	}
}
