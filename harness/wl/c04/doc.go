// Package c04 holds the workloads and oracles that decide property C04.
package c04
