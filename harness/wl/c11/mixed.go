package c11

import (
	"fmt"

	"github.com/emmansun/gmsm/zuc"

	"verifh/mon"
	"verifh/wl/reg"
)

// c11.mixed: every object kind of the property lives in ONE process, created and used in an order drawn from the case
// PRNG. The other workloads build one kind of object per process (ciphers in eea.*, MACs in eia.*) and, inside a case,
// one object; anything the package keeps outside the objects (constant tables, lazily initialised state, dispatch
// variables, scratch buffers) that one kind or one parameter choice leaves behind for another is invisible there.
// Here each case
//   1. creates one object of each of the 11 kinds in a drawn order, using the new and the older objects in between,
//   2. goes on with drawn steps: use of a drawn object, a call the object must refuse, a constructor call with
//      wrong key / IV / tag sizes (error, no effect on anything else), a twin A' built from the parameters of a
//      live object A (both must follow the reference: A' from the start, A where it was),
//   3. uses every object once more and builds a twin of the oldest objects of the case.
// Every single use is judged against ref/zuc by the per-object sequential models of eea.go (history) and machist.go
// (macHist); objects share keys and IVs across kinds with probability 1/2 (128-EEA3 and 128-EIA3 under one key and
// COUNT/BEARER/DIRECTION is how the two are deployed).

func init() { reg.Register("c11.mixed", "C11", mixed) }

type mixKind struct {
	name   string
	cipher bool
	family string // cipher: streamSpec.family
	withB  bool
	alg    int // MAC: index into macAlgs
}

var mixKinds = []mixKind{
	{name: "z128", cipher: true, family: "z128"},
	{name: "z128+bucket", cipher: true, family: "z128", withB: true},
	{name: "eea3", cipher: true, family: "eea3"},
	{name: "eea3+bucket", cipher: true, family: "eea3", withB: true},
	{name: "z256", cipher: true, family: "z256"},
	{name: "z256+bucket", cipher: true, family: "z256", withB: true},
	{name: "eia3iv", alg: 0},
	{name: "eia3", alg: 1},
	{name: "z256-32", alg: 2},
	{name: "z256-64", alg: 3},
	{name: "z256-128", alg: 4},
}

// mixBuckets adds a negative argument to the bucket sizes of the walks: the constructors take "not greater than 0" as
// "no bucket" (effBucket models that).
var mixBuckets = []int{0, 1, 127, 128, 129, 256, 1000, -1}

type mixObj struct {
	id   int
	kind int
	ci   *history
	mh   *macHist
	uses int
}

// mixShared is the key material objects of one case have in common.
type mixShared struct {
	k16, iv16, k32, iv23     []byte
	count, bearer, direction uint32
}

type mixCase struct {
	c    *mon.Case
	r    *mon.Rand
	log  []string
	sh   mixShared
	objs []*mixObj
	last string // kind of the object created last (class keys)
	dead bool
}

const mixMaxLen = 700 // longest single XOR call of this workload

func (mc *mixCase) specFor(k mixKind, like *mixObj) (*streamSpec, *macSpec) {
	r := mc.r
	if like != nil {
		if like.ci != nil {
			s := *like.ci.spec
			if s.withB && r.Bool() { // same key and IV, another bucket size: the keystream is the same
				s.bucketArg = mixBuckets[r.Intn(len(mixBuckets))]
			}
			return &s, nil
		}
		m := *like.mh.m
		return nil, &m
	}
	shared := r.Bool()
	if k.cipher {
		s := randomSpec(r)
		for s.family != k.family {
			s = randomSpec(r)
		}
		s.withB = k.withB
		s.bucketArg = 0
		if k.withB {
			s.bucketArg = mixBuckets[r.Intn(len(mixBuckets))]
		}
		if shared {
			switch k.family {
			case "z128":
				s.key, s.iv = mc.sh.k16, mc.sh.iv16
			case "eea3":
				s.key, s.count, s.bearer, s.direction = mc.sh.k16, mc.sh.count, mc.sh.bearer, mc.sh.direction
			case "z256":
				s.key, s.iv = mc.sh.k32, mc.sh.iv23
			}
		}
		return s, nil
	}
	m := newMacSpec(r, k.alg)
	if shared {
		switch m.alg {
		case "eia3iv":
			m.key, m.iv = mc.sh.k16, mc.sh.iv16
		case "eia3":
			m.key, m.count, m.bearer, m.direction = mc.sh.k16, mc.sh.count, mc.sh.bearer, mc.sh.direction
		default:
			m.key, m.iv = mc.sh.k32, mc.sh.iv23
		}
	}
	return nil, m
}

// create builds an object of the kind (like == nil) or a twin of like.
func (mc *mixCase) create(kind int, like *mixObj) *mixObj {
	if mc.dead {
		return nil
	}
	c := mc.c
	k := mixKinds[kind]
	s, m := mc.specFor(k, like)
	o := &mixObj{id: len(mc.objs), kind: kind}
	tag := fmt.Sprintf("#%d ", o.id)
	twin := ""
	if like != nil {
		twin = fmt.Sprintf(" (twin of #%d)", like.id)
		c.Class("mixed/twin/%s/uses=%d", k.name, min(like.uses, 3))
		c.Event("mixed_twins", 1)
	}
	if s != nil {
		mc.log = append(mc.log, fmt.Sprintf("#%d = new %v%s", o.id, s, twin))
		if o.ci = newHistory(c, s); o.ci == nil {
			mc.dead = true
			return nil
		}
		o.ci.logp, o.ci.tag = &mc.log, tag
	} else {
		mc.log = append(mc.log, fmt.Sprintf("#%d = new %v%s", o.id, m, twin))
		if o.mh = newMacHist(c, m, &mc.log, tag); o.mh == nil {
			mc.dead = true
			return nil
		}
		if o.mh.h.Size() != m.tag {
			c.Fail("mismatch", "#%d Size() = %d want %d", o.id, o.mh.h.Size(), m.tag)
		}
		c.Call("BlockSize", func() { c.Event(fmt.Sprintf("mac_blocksize_%d", o.mh.h.BlockSize()), 1) }) // observed, not judged
		o.mh.sparse = mc.r.Intn(4) == 0
	}
	c.Detail("history", lazyLog{&mc.log})
	if mc.last != "" {
		c.Class("mixed/created/%s/after/%s", k.name, mc.last)
	}
	mc.last = k.name
	mc.objs = append(mc.objs, o)
	c.Event("mixed_objects", 1)
	return o
}

func (mc *mixCase) alive(o *mixObj) bool {
	if o.ci != nil {
		return !o.ci.dead
	}
	return o.mh.alive
}

func (mc *mixCase) after(o *mixObj) {
	if !mc.alive(o) {
		mc.dead = true
	}
}

// use issues one valid operation on the object, judged by its model.
func (mc *mixCase) use(o *mixObj) {
	if mc.dead || o == nil {
		return
	}
	r := mc.r
	mc.c.Class("mixed/use/%s/uses=%d/last-created=%s", mixKinds[o.kind].name, min(o.uses, 2), mc.last)
	if o.ci != nil {
		o.ci.do(o.ci.randomOp(r, mixMaxLen), r)
	} else {
		switch r.Intn(9) {
		case 0, 1, 2, 3:
			o.mh.write(r)
		case 4, 5:
			o.mh.sum()
		case 6, 7:
			o.mh.finish(r)
		default:
			o.mh.reset()
		}
	}
	o.uses++
	mc.c.Event("mixed_uses", 1)
	mc.after(o)
}

// refuse issues one call the object must refuse; its model does not move.
func (mc *mixCase) refuse(o *mixObj) {
	if mc.dead || o == nil {
		return
	}
	mc.c.Class("mixed/refused-call/%s", mixKinds[o.kind].name)
	if o.ci != nil {
		o.ci.randomRefuse(mc.r)
	} else {
		o.mh.refuse(mc.r)
	}
	mc.c.Event("mixed_refused_calls", 1)
	mc.after(o)
}

// final is the closing examination of an object: a cipher re-reads the start of its keystream and goes on
// sequentially, a MAC reports what it has absorbed and is finished.
func (mc *mixCase) final(o *mixObj) {
	if mc.dead {
		return
	}
	r := mc.r
	if o.ci != nil {
		pl := place(r.Intn(nPlaces))
		o.ci.do(op{at: true, off: uint64(r.Intn(4)), n: 1 + r.Intn(200), dp: pl, sp: pl.next(1), cls: "final"}, r)
		o.ci.do(op{n: 1 + r.Intn(200), dp: pl.next(2), sp: pl.next(3)}, r)
	} else {
		o.mh.sum()
		if o.mh.alive {
			o.mh.finish(r)
		}
	}
	o.uses++
	mc.c.Class("mixed/final/%s", mixKinds[o.kind].name)
	mc.after(o)
}

var wrongKey16 = []int{0, 1, 15, 17, 24, 31, 32, 33}
var wrongKey32 = []int{0, 1, 15, 16, 17, 24, 31, 33, 64}
var wrongIV16 = []int{0, 1, 15, 17, 23, 32}
var wrongIV23 = []int{0, 1, 16, 17, 22, 24, 32} // 25 (the unpacked form of the specification) is refused too, but not judged
var wrongTags = []int{0, 1, 2, 3, 5, 7, 12, 15, 17, 32, 64, -4}

// badConstructor calls one constructor of the property with a key, IV or tag size outside its domain. All of them
// document an error return ("otherwise, an error will be returned"; NewHash*: fmt.Errorf on the size): a panic is a
// violation, a nil error is a violation, and the objects built afterwards show that nothing else changed.
func (mc *mixCase) badConstructor() {
	if mc.dead {
		return
	}
	c, r := mc.c, mc.r
	pick := func(v []int) int { return v[r.Intn(len(v))] }
	var err error
	var what string
	var call func()
	bucket := mixBuckets[r.Intn(len(mixBuckets))]
	count, bearer, dir := uint32(r.Uint64()), uint32(r.Intn(32)), uint32(r.Intn(2))
	ctor := r.Intn(7)
	var kl, il, tag int
	switch ctor {
	case 0, 1: // NewCipher, NewCipherWithBucketSize
		switch r.Intn(4) {
		case 0:
			kl, il = pick([]int{0, 1, 15, 17, 24, 31, 33, 64}), pick([]int{0, 16, 23})
		case 1:
			kl, il = 16, pick(wrongIV16)
		case 2:
			kl, il = 32, pick(wrongIV23)
		default:
			kl, il = pick(wrongKey16), 16
		}
		if kl == 32 && il == 23 || kl == 16 && il == 16 {
			kl = 24
		}
		key, iv := r.Bytes(kl), r.Bytes(il)
		if ctor == 0 {
			what = fmt.Sprintf("NewCipher(%d-byte key, %d-byte IV)", kl, il)
			call = func() { _, err = zuc.NewCipher(key, iv) }
		} else {
			what = fmt.Sprintf("NewCipherWithBucketSize(%d-byte key, %d-byte IV, %d)", kl, il, bucket)
			call = func() { _, err = zuc.NewCipherWithBucketSize(key, iv, bucket) }
		}
	case 2, 3: // NewEEACipher, NewEEACipherWithBucketSize
		kl = pick(wrongKey16)
		key := r.Bytes(kl)
		if ctor == 2 {
			what = fmt.Sprintf("NewEEACipher(%d-byte key)", kl)
			call = func() { _, err = zuc.NewEEACipher(key, count, bearer, dir) }
		} else {
			what = fmt.Sprintf("NewEEACipherWithBucketSize(%d-byte key, bucket %d)", kl, bucket)
			call = func() { _, err = zuc.NewEEACipherWithBucketSize(key, count, bearer, dir, bucket) }
		}
	case 4: // NewHash
		kl, il = 16, 16
		if r.Bool() {
			kl = pick(wrongKey16)
		} else {
			il = pick(wrongIV16)
		}
		key, iv := r.Bytes(kl), r.Bytes(il)
		what = fmt.Sprintf("NewHash(%d-byte key, %d-byte IV)", kl, il)
		call = func() { _, err = zuc.NewHash(key, iv) }
	case 5: // NewEIAHash
		kl = pick(wrongKey16)
		key := r.Bytes(kl)
		what = fmt.Sprintf("NewEIAHash(%d-byte key)", kl)
		call = func() { _, err = zuc.NewEIAHash(key, count, bearer, dir) }
	default: // NewHash256
		kl, il, tag = 32, 23, pick([]int{4, 8, 16})
		switch r.Intn(3) {
		case 0:
			tag = pick(wrongTags)
		case 1:
			kl = pick(wrongKey32)
		default:
			il = pick(wrongIV23)
		}
		key, iv := r.Bytes(kl), r.Bytes(il)
		what = fmt.Sprintf("NewHash256(%d-byte key, %d-byte IV, tag %d)", kl, il, tag)
		call = func() { _, err = zuc.NewHash256(key, iv, tag) }
	}
	mc.log = append(mc.log, "refused constructor "+what)
	c.Class("mixed/refused-constructor/%d/key%d/iv%d/tag%d", ctor, kl, il, tag)
	c.Event("mixed_refused_constructors", 1)
	if !c.Call(what, call) {
		mc.dead = true
		return
	}
	if err == nil {
		c.Fail("accept", "%s returned no error", what)
		mc.dead = true
		return
	}
	// the error must be usable as one (KeySizeError / IVSizeError / fmt errors): its text goes into the case log
	if !c.Call(what+": Error()", func() { mc.log = append(mc.log, "  -> "+err.Error()) }) {
		mc.dead = true
	}
	mc.last = "refused-constructor"
}

func (mc *mixCase) pickObj() *mixObj {
	if len(mc.objs) == 0 {
		return nil
	}
	return mc.objs[mc.r.Intn(len(mc.objs))]
}

func (mc *mixCase) run() {
	r := mc.r
	fill := func(n int) []byte {
		switch r.Intn(10) {
		case 0:
			return make([]byte, n)
		case 1:
			b := make([]byte, n)
			for i := range b {
				b[i] = 0xff
			}
			return b
		}
		return r.Bytes(n)
	}
	mc.sh = mixShared{k16: fill(16), iv16: fill(16), k32: fill(32), iv23: fill(23),
		count: uint32(r.Uint64()), bearer: uint32(r.Intn(32)), direction: uint32(r.Intn(2))}

	// 1. one object of every kind, in a drawn order
	for _, kind := range r.Perm(len(mixKinds)) {
		if r.Intn(8) == 0 {
			mc.badConstructor()
		}
		o := mc.create(kind, nil)
		for k := r.Intn(3); k > 0; k-- {
			switch r.Intn(6) {
			case 0, 1:
				mc.use(o)
			case 2, 3, 4:
				mc.use(mc.pickObj())
			default:
				mc.refuse(mc.pickObj())
			}
		}
		if mc.dead {
			return
		}
	}
	// 2. drawn steps
	for k := 4 + r.Intn(16); k > 0 && !mc.dead; k-- {
		switch s := r.Intn(20); {
		case s < 11:
			mc.use(mc.pickObj())
		case s < 14:
			mc.refuse(mc.pickObj())
		case s < 16:
			mc.badConstructor()
			if o := mc.create(r.Intn(len(mixKinds)), nil); o != nil {
				mc.use(o)
			}
		case s < 18: // a twin of a live object: A' must follow the reference from the start, A from where it is
			a := mc.pickObj()
			b := mc.create(a.kind, a)
			if r.Bool() {
				mc.use(b)
				mc.use(a)
			} else {
				mc.use(a)
				mc.use(b)
			}
		default: // a further object of a drawn kind, used later (or never before the closing examination)
			mc.create(r.Intn(len(mixKinds)), nil)
		}
	}
	// 3. closing examination of every object, and twins of the oldest ones
	n := len(mc.objs)
	for _, i := range r.Perm(n) {
		mc.final(mc.objs[i])
	}
	for k := 0; k < 2 && !mc.dead; k++ {
		a := mc.objs[r.Intn(len(mixKinds))]
		if b := mc.create(a.kind, a); b != nil {
			mc.final(b)
		}
	}
}

func mixed(x *mon.Ctx) {
	setup(x)
	n := raceScale(x, x.Scale(800, 16000))
	for i := 0; i < n; i++ {
		c := x.Begin("mixed %d: one object of each of the 11 cipher and MAC kinds created and used interleaved in one process, then drawn steps (uses, refused calls, refused constructors, twins) and a closing examination of every object", i)
		if c == nil {
			continue
		}
		mc := &mixCase{c: c, r: c.R}
		c.Detail("history", lazyLog{&mc.log})
		mc.run()
		c.Event("mixed_cases", 1)
		c.End()
	}
}
