package c11

import (
	"bytes"
	"encoding/hex"
	"fmt"
	"strings"

	"github.com/emmansun/gmsm/zuc"

	"verifh/mon"
	refzuc "verifh/ref/zuc"
	"verifh/wl/reg"
)

func init() {
	reg.Register("c11.eia.bits", "C11", eiaBits)
	reg.Register("c11.eia.bytes", "C11", eiaBytes)
	reg.Register("c11.eia.hist", "C11", eiaHist)
}

// macSpec says how one MAC object is built.
type macSpec struct {
	alg       string // "eia3iv" NewHash(key, iv) | "eia3" NewEIAHash(key, count, bearer, direction) | "z256" NewHash256(key, iv, tag)
	tag       int
	key, iv   []byte
	count     uint32
	bearer    uint32
	direction uint32
}

func (m *macSpec) name() string {
	if m.alg == "z256" {
		return fmt.Sprintf("z256-%d", 8*m.tag)
	}
	return m.alg
}

func (m *macSpec) String() string {
	if m.alg == "eia3" {
		return fmt.Sprintf("eia3 key=%x count=%#x bearer=%d dir=%d", m.key, m.count, m.bearer, m.direction)
	}
	return fmt.Sprintf("%s key=%x iv=%x", m.name(), m.key, m.iv)
}

// build: private copies of key and IV, overwritten once the constructor has returned (Reset and Finish re-initialise
// the object later: it must own what it needs for that).
func (m *macSpec) build() (zuc.EIA, error) {
	key, iv := append([]byte{}, m.key...), append([]byte{}, m.iv...)
	defer scribble(key, iv)
	switch m.alg {
	case "eia3iv":
		return zuc.NewHash(key, iv)
	case "eia3":
		return zuc.NewEIAHash(key, m.count, m.bearer, m.direction)
	}
	return zuc.NewHash256(key, iv, m.tag)
}

func (m *macSpec) ref(msg []byte, nbits int) ([]byte, error) {
	switch m.alg {
	case "eia3iv":
		return refzuc.EIA3(m.key, m.iv, msg, nbits)
	case "eia3":
		return refzuc.EIA3(m.key, refzuc.EIA3IV(m.count, m.bearer, m.direction), msg, nbits)
	}
	return refzuc.MAC256(m.key, m.iv, m.tag, msg, nbits)
}

var macAlgs = []struct {
	alg string
	tag int
}{{"eia3iv", 4}, {"eia3", 4}, {"z256", 4}, {"z256", 8}, {"z256", 16}}

func newMacSpec(r *mon.Rand, ai int) *macSpec {
	m := &macSpec{alg: macAlgs[ai].alg, tag: macAlgs[ai].tag}
	fill := func(n int) []byte {
		switch r.Intn(10) {
		case 0:
			return make([]byte, n)
		case 1:
			return bytes.Repeat([]byte{0xff}, n)
		}
		return r.Bytes(n)
	}
	switch m.alg {
	case "eia3iv":
		m.key, m.iv = fill(16), fill(16)
	case "eia3":
		m.key = fill(16)
		m.count, m.bearer, m.direction = uint32(r.Uint64()), uint32(r.Intn(32)), uint32(r.Intn(2))
	default:
		m.key, m.iv = fill(32), fill(23)
	}
	return m
}

// judge compares a tag with the specification's value for the first nbits bits of msg.
// It returns true when the monitoring of this object can go on (tag right, or wrong in
// exactly the way of the open finding zuc256-tail-window).
func (m *macSpec) judge(c *mon.Case, what string, got, msg []byte, nbits int) bool {
	want, err := m.ref(msg, nbits)
	if err != nil {
		c.Fail("fault", "reference: %v", err)
		return false
	}
	c.Event("mac_compare", 1)
	if bytes.Equal(got, want) {
		return true
	}
	if m.alg == "z256" && tailWindowClass(m.tag, nbits) {
		model, err := tailWindowModel(m.key, m.iv, m.tag, msg, nbits)
		if err == nil && bytes.Equal(got, model) {
			c.Event("known_tail_window_matched", 1)
			c.Known("zuc256-tail-window", "mismatch", "%s: ZUC-256 MAC, %d-byte tag, %d bits (mod 128 = %d): got %x, specification %x; equals the model of the mis-indexed tail window (object %v, message %x)",
				what, m.tag, nbits, nbits%128, got, want, m, clipMsg(msg, nbits))
			return true
		}
		c.Detail("bug_model_output", model)
	}
	c.Detail("object", m.String())
	c.Detail("message", hex.EncodeToString(msg[:(nbits+7)/8]))
	c.Fail("mismatch", "%s: %s over %d bits (mod 32 = %d, mod 128 = %d): got %x want %x", what, m.name(), nbits, nbits%32, nbits%128, got, want)
	return false
}

func clipMsg(msg []byte, nbits int) []byte {
	n := (nbits + 7) / 8
	if n > 96 {
		n = 96
	}
	return msg[:n]
}

var eiaMsg *mon.Guard

func eiaGuard() *mon.Guard {
	if eiaMsg == nil {
		eiaMsg = mon.NewGuard(16384 + 64)
	}
	return eiaMsg
}

func bitClass(nbits int) string {
	blocks := "0blk"
	switch b := nbits / 128; {
	case b == 1:
		blocks = "1blk"
	case b > 1:
		blocks = "nblk"
	}
	return fmt.Sprintf("%s/mod128=%d", blocks, nbits%128)
}

// modelSelfCheck validates the bug model itself before it may excuse anything: outside
// the finding's input class it must reproduce the specification, and on the message of
// TestEIA256_Finish it must reproduce the tags that test pins.
func modelSelfCheck(x *mon.Ctx) {
	key := bytes.Repeat([]byte{0xff}, 32)
	iv := bytes.Repeat([]byte{0xff}, 23)
	msg := []byte("emmansunshangmi1emmansun shangmiemmansun shangmi 12345")
	for _, tc := range []struct {
		tag  int
		want string
	}{{8, "1f6f71e386a2ce01"}, {16, "bf5339cfd87bba97d70ef4f5973af8bb"}} {
		got, err := tailWindowModel(key, iv, tc.tag, msg, 8*53+4)
		if err != nil || hex.EncodeToString(got) != tc.want {
			x.HarnessError("bug model zuc256-tail-window does not reproduce the tag pinned by TestEIA256_Finish (%d-byte tag): %x, %v", tc.tag, got, err)
		}
		if ref, _ := refzuc.MAC256(key, iv, tc.tag, msg, 8*53+4); hex.EncodeToString(ref) == tc.want {
			x.HarnessError("the pinned TestEIA256_Finish tag equals the specification's value: the finding is gone, remove the matcher")
		}
	}
	long := make([]byte, 100)
	for i := range long {
		long[i] = byte(i*7 + 3)
	}
	for _, tag := range []int{4, 8, 16} {
		for nbits := 0; nbits <= 300; nbits++ {
			if tag != 4 && tailWindowClass(tag, nbits) {
				continue
			}
			a, err1 := tailWindowModel(key, iv, tag, long, nbits)
			b, err2 := refzuc.MAC256(key, iv, tag, long, nbits)
			if err1 != nil || err2 != nil || !bytes.Equal(a, b) {
				x.HarnessError("bug model zuc256-tail-window differs from the specification outside its input class (tag %d, %d bits): %x vs %x", tag, nbits, a, b)
			}
		}
	}
}

func setup(x *mon.Ctx) {
	if err := refzuc.SelfTest(); err != nil {
		x.HarnessError("%v", err)
	}
	modelSelfCheck(x)
}

// ---------------------------------------------------------------------------------------------
// every bit length through Finish

var bitKinds = []string{"random", "random+junk", "zeros+junk", "ones", "sparse"}

// sparsify gives a random message the structure real traffic has and uniformly random bytes never show: aligned
// 32-bit words that are zero next to words that are not (zero-padded fields, counters), single set bits, runs of zero
// octets. A MAC that is computed word by word, with shortcuts for "nothing to accumulate", meets its special cases here.
func sparsify(r *mon.Rand, m []byte) {
	switch r.Intn(4) {
	case 0: // every aligned 32-bit word is zero with probability 1/2
		for i := 0; i < len(m); i += 4 {
			if r.Bool() {
				for j := i; j < i+4 && j < len(m); j++ {
					m[j] = 0
				}
			}
		}
	case 1: // one-hot
		for i := range m {
			m[i] = 0
		}
		if len(m) > 0 {
			m[r.Intn(len(m))] = 1 << uint(r.Intn(8))
		}
	case 2: // a run of zero octets
		if len(m) > 0 {
			a := r.Intn(len(m))
			for j := a; j < len(m) && j < a+1+r.Intn(24); j++ {
				m[j] = 0
			}
		}
	default: // every octet is zero with probability 1/2
		for i := range m {
			if r.Bool() {
				m[i] = 0
			}
		}
	}
}

// bitMessage builds a message of nbits bits; "junk" kinds set the unused low bits of
// the last byte and append bytes after it, which Finish(p, nbits) must ignore.
func bitMessage(r *mon.Rand, kind string, nbits int) []byte {
	n := (nbits + 7) / 8
	m := r.Bytes(n)
	switch kind {
	case "zeros+junk":
		for i := range m {
			m[i] = 0
		}
	case "ones":
		for i := range m {
			m[i] = 0xff
		}
	case "sparse":
		sparsify(r, m)
	}
	if u := nbits % 8; u != 0 {
		mask := byte(0xff) >> uint(u)
		switch kind {
		case "random", "ones", "sparse":
			m[n-1] &^= mask
		default:
			m[n-1] |= mask & byte(r.Uint64()|1)
		}
	}
	if strings.HasSuffix(kind, "+junk") && r.Bool() {
		m = append(m, r.Bytes(1+r.Intn(20))...)
	}
	return m
}

func eiaBits(x *mon.Ctx) {
	setup(x)
	maxBits := x.Scale(700, 2100)
	reps := x.Scale(1, 3)
	for ai := range macAlgs {
		for nbits := 0; nbits <= maxBits; nbits++ {
			for _, kind := range bitKinds {
				for rep := 0; rep < reps; rep++ {
					c := x.Begin("bits alg=%s-%d nbits=%d kind=%s rep=%d: Finish(p, nbits) on a fresh object (in half of the cases after the same call with a buffer that is too short was refused), then reuse", macAlgs[ai].alg, 8*macAlgs[ai].tag, nbits, kind, rep)
					if c == nil {
						continue
					}
					r := c.R
					m := newMacSpec(r, ai)
					if nbits == 0 {
						c.Trivial()
					}
					c.Class("eia.bits/%s/%s/%s", m.name(), bitClass(nbits), kind)
					pl := place(r.Intn(nPlaces))
					c.Class("eia.place/%s/Finish@%v", m.name(), pl)
					g := eiaGuard()
					msg := bitMessage(r, kind, nbits)
					var h zuc.EIA
					var err error
					if !c.Call("constructor", func() { h, err = m.build() }) {
						c.End()
						continue
					}
					if err != nil {
						c.Fail("reject", "constructor refused valid parameters (%v): %v", m, err)
						c.End()
						continue
					}
					if h.Size() != m.tag {
						c.Fail("mismatch", "Size() = %d want %d", h.Size(), m.tag)
					}
					if nbits > 0 && r.Intn(2) == 0 {
						// the call with a buffer too short for nbits is refused and must leave the fresh object fresh
						if !refusedFinish(c, m, h, r, "on a fresh object", nbits) {
							c.End()
							continue
						}
						c.Event("mac_refused_before_finish", 1)
					}
					p := pl.put(g, msg)
					var got []byte
					if !c.Call("Finish", func() { got = h.Finish(p, nbits) }) {
						c.End()
						continue
					}
					cont := m.judge(c, "Finish on a fresh object", got, msg, nbits)
					if !bytes.Equal(p, msg) {
						c.Fail("oob", "Finish modified its input")
					}
					c.CheckGuards("Finish", g)
					if cont {
						// the object must now be as good as new
						n2 := r.Intn(520)
						msg2 := bitMessage(r, "random", n2)
						if n2 > 0 && r.Intn(4) == 0 && !refusedFinish(c, m, h, r, fmt.Sprintf("on the object reused after Finish(%d bits)", nbits), n2) {
							c.End()
							continue
						}
						p2 := pl.next(1+r.Intn(nPlaces-1)).put(g, msg2)
						switch r.Intn(3) {
						case 0:
							if c.Call("second Finish", func() { got = h.Finish(p2, n2) }) {
								m.judge(c, fmt.Sprintf("Finish(%d bits) on the object reused after Finish(%d bits)", n2, nbits), got, msg2, n2)
							}
						case 1:
							nb := n2 / 8
							if c.Call("Write+Sum after Finish", func() { h.Write(p2[:nb]); got = h.Sum(nil) }) {
								m.judge(c, fmt.Sprintf("Write(%d bytes)+Sum on the object reused after Finish(%d bits)", nb, nbits), got, msg2, 8*nb)
							}
						case 2:
							nb := n2 / 8
							cut := r.Intn(nb + 1)
							if c.Call("Write+Finish after Finish", func() { h.Write(p2[:cut]); got = h.Finish(p2[cut:], n2-8*cut) }) {
								m.judge(c, fmt.Sprintf("Write(%d bytes)+Finish(rest, %d bits) on the object reused after Finish(%d bits)", cut, n2-8*cut, nbits), got, msg2, n2)
							}
						}
						c.CheckGuards("reuse", g)
						c.Event("mac_reuse_after_finish", 1)
					}
					c.End()
				}
			}
		}
	}
}

// ---------------------------------------------------------------------------------------------
// byte lengths through Write partitions and Sum

var partStyles = []string{"one", "bytewise", "block+-1", "random", "empties"}

// partition cuts n bytes into the lengths of successive Write calls.
func partition(r *mon.Rand, style string, n int) []int {
	var out []int
	switch style {
	case "one":
		out = []int{n}
	case "bytewise":
		for i := 0; i < n; i++ {
			out = append(out, 1)
		}
	case "block+-1": // cuts at multiples of 16 shifted by -1, 0, +1
		left := n
		for left > 0 {
			k := 16*(1+r.Intn(3)) + r.Intn(3) - 1
			if k > left {
				k = left
			}
			out = append(out, k)
			left -= k
		}
	case "random":
		left := n
		for left > 0 {
			k := 1 + r.Intn(left)
			if r.Bool() && k > 40 {
				k = 1 + r.Intn(40)
			}
			out = append(out, k)
			left -= k
		}
	case "empties":
		left := n
		out = append(out, 0)
		for left > 0 {
			k := 1 + r.Intn(33)
			if k > left {
				k = left
			}
			out = append(out, k, 0)
			left -= k
		}
	}
	return out
}

func byteClass(n int) string {
	blocks := "0blk"
	switch b := n / 16; {
	case b == 1:
		blocks = "1blk"
	case b > 1:
		blocks = "nblk"
	}
	return fmt.Sprintf("%s/mod16=%d", blocks, n%16)
}

// writeAll feeds msg to h in the given parts through guarded source buffers.
func writeAll(c *mon.Case, h zuc.EIA, msg []byte, parts []int, pl place) bool {
	g := eiaGuard()
	off := 0
	for i, k := range parts {
		p := pl.next(i).put(g, msg[off:off+k])
		var n int
		var err error
		if !c.Call(fmt.Sprintf("Write #%d of %d bytes at %d", i, k, off), func() { n, err = h.Write(p) }) {
			return false
		}
		if n != k || err != nil {
			c.Fail("mismatch", "Write(%d bytes) returned (%d, %v)", k, n, err)
			return false
		}
		if !bytes.Equal(p, msg[off:off+k]) {
			c.Fail("oob", "Write modified its input")
			return false
		}
		if !c.CheckGuards("Write", g) {
			return false
		}
		off += k
	}
	c.Event("mac_writes", len(parts))
	return true
}

func eiaBytes(x *mon.Ctx) {
	setup(x)
	maxLen := x.Scale(200, 600)
	reps := x.Scale(1, 3)
	for ai := range macAlgs {
		for n := 0; n <= maxLen; n++ {
			for _, style := range partStyles {
				for rep := 0; rep < reps; rep++ {
					c := x.Begin("bytes alg=%s-%d len=%d partition=%s rep=%d: Write parts, Sum, Sum, continue, Sum, Reset, again", macAlgs[ai].alg, 8*macAlgs[ai].tag, n, style, rep)
					if c == nil {
						continue
					}
					r := c.R
					m := newMacSpec(r, ai)
					if n == 0 && style != "empties" {
						c.Trivial()
					}
					c.Class("eia.bytes/%s/%s/%s", m.name(), byteClass(n), style)
					extra := r.Intn(40)
					msg := r.Bytes(n + extra)
					if r.Intn(3) == 0 {
						sparsify(r, msg)
						c.Class("eia.bytes.sparse/%s/%s", m.name(), byteClass(n))
					}
					pl := place(r.Intn(nPlaces))
					c.Class("eia.place/%s/Write@%v", m.name(), pl)
					var h zuc.EIA
					var err error
					if !c.Call("constructor", func() { h, err = m.build() }) || err != nil {
						if err != nil {
							c.Fail("reject", "constructor refused valid parameters (%v): %v", m, err)
						}
						c.End()
						continue
					}
					eiaBytesCase(c, m, h, msg, n, extra, partition(r, style, n), pl)
					c.End()
				}
			}
		}
	}
}

func eiaBytesCase(c *mon.Case, m *macSpec, h zuc.EIA, msg []byte, n, extra int, parts []int, pl place) {
	r := c.R
	if !writeAll(c, h, msg[:n], parts, pl) {
		return
	}
	prefix := r.Bytes(r.Intn(5))
	var s1, s2 []byte
	if !c.Call("Sum", func() { s1 = h.Sum(append([]byte(nil), prefix...)); s2 = h.Sum(nil) }) {
		return
	}
	if len(s1) != len(prefix)+m.tag || !bytes.Equal(s1[:len(prefix)], prefix) {
		c.Fail("mismatch", "Sum(in) did not append a %d-byte tag to in=%x: %x", m.tag, prefix, s1)
		return
	}
	if !m.judge(c, fmt.Sprintf("Sum after %d bytes", n), s1[len(prefix):], msg, 8*n) {
		return
	}
	if !bytes.Equal(s1[len(prefix):], s2) {
		c.Fail("mismatch", "second Sum differs from the first: %x then %x", s1[len(prefix):], s2)
		return
	}
	// Sum must not have moved the state: go on writing
	if !writeAll(c, h, msg[n:], []int{extra}, pl.next(3)) {
		return
	}
	var s3 []byte
	if !c.Call("Sum", func() { s3 = h.Sum(nil) }) {
		return
	}
	if !m.judge(c, fmt.Sprintf("Sum after %d bytes, two Sums, %d more bytes", n, extra), s3, msg, 8*(n+extra)) {
		return
	}
	c.Event("mac_sum_nondestructive", 1)
	// Reset gives a fresh object
	if !c.Call("Reset", func() { h.Reset() }) {
		return
	}
	k := r.Intn(n + extra + 1)
	if !writeAll(c, h, msg[:k], []int{k}, pl.next(11)) {
		return
	}
	var s4 []byte
	if !c.Call("Sum", func() { s4 = h.Sum(nil) }) {
		return
	}
	if !m.judge(c, fmt.Sprintf("Sum of %d bytes after Reset (object had absorbed %d bytes)", k, n+extra), s4, msg, 8*k) {
		return
	}
	c.Event("mac_reuse_after_reset", 1)
}

// ---------------------------------------------------------------------------------------------
// random histories over {Write, Sum, Finish, Reset} on one MAC object; the model is the
// byte string absorbed since the last Finish/Reset.

func eiaHist(x *mon.Ctx) {
	setup(x)
	walks := raceScale(x, x.Scale(1000, 12000))
	for ai := range macAlgs {
		for i := 0; i < walks; i++ {
			c := x.Begin("hist alg=%s-%d walk %d: random history over Write/Sum/Finish/Reset and refused Finish calls on one MAC object", macAlgs[ai].alg, 8*macAlgs[ai].tag, i)
			if c == nil {
				continue
			}
			r := c.R
			m := newMacSpec(r, ai)
			var log []string
			c.Detail("history", lazyLog{&log})
			mh := newMacHist(c, m, &log, "")
			if mh == nil {
				c.End()
				continue
			}
			nops := 2 + r.Intn(14)
			mh.big = r.Intn(12) == 0
			mh.sparse = r.Intn(3) == 0
			if mh.sparse {
				c.Class("eia.hist.sparse/%s", m.name())
			}
			for k := 0; k < nops && mh.alive; k++ {
				mh.step(r)
			}
			c.End()
		}
	}
}

func lenClass16(n int) string {
	switch {
	case n == 0:
		return "0"
	case n < 16:
		return "<16"
	case n%16 == 0:
		return "16k"
	}
	return ">16"
}
