// Package c11 holds the workloads and oracles that decide property C11.
package c11
