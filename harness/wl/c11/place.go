package c11

import (
	"fmt"

	"verifh/mon"
)

// place says where inside a guard-page region a caller buffer is put. Besides the two
// placements that abut a guard page (lo: the start, hi: the end) there are two that give
// the buffer a chosen start misalignment: Guard.Lo starts on a page boundary and
// Guard.Hi starts 16-byte aligned whenever the length is a multiple of 16, which would
// hide an aligned vector load or store used on caller memory. The value rotates through
// 4 kinds x 5 offsets.
type place int

const nPlaces = 20

var misOffsets = [...]int{1, 4, 8, 16, 31}

func (p place) kind() int { return int(p) % 4 } // 0 lo | 1 hi | 2 start off bytes after the lower page | 3 end off bytes before the upper page
func (p place) off() int  { return misOffsets[int(p)/4%len(misOffsets)] }

// next returns the i-th placement after p in an order that visits all of them.
func (p place) next(i int) place { return place((int(p) + 7*i) % nPlaces) }

// apart returns a placement whose kind and offset both differ from q's (for the second buffer of a call).
func (p place) apart(q place) place {
	for p.kind() == q.kind() || p.off() == q.off() {
		p = p.next(1)
	}
	return p
}

func (p place) String() string {
	switch p.kind() {
	case 0:
		return "lo"
	case 1:
		return "hi"
	case 2:
		return fmt.Sprintf("lo+%d", p.off())
	}
	return fmt.Sprintf("hi-%d", p.off())
}

// buf hands out n bytes of g at this placement (len == cap, canaries around).
func (p place) buf(g *mon.Guard, n int) []byte {
	switch p.kind() {
	case 0:
		return g.Lo(n)
	case 1:
		return g.Hi(n)
	case 2:
		return g.Off(n, p.off())
	}
	return g.HiOff(n, p.off())
}

// put returns a copy of b at this placement.
func (p place) put(g *mon.Guard, b []byte) []byte {
	s := p.buf(g, len(b))
	copy(s, b)
	return s
}
