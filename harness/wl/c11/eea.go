package c11

import (
	"bytes"
	"fmt"
	"strings"

	gcipher "github.com/emmansun/gmsm/cipher"
	"github.com/emmansun/gmsm/zuc"

	"verifh/mon"
	refzuc "verifh/ref/zuc"
	"verifh/wl/reg"
)

func init() {
	reg.Register("c11.eea.walk", "C11", eeaWalk)
	reg.Register("c11.eea.grid", "C11", eeaGrid)
}

const (
	roundBytes = 128       // the library generates the keystream in rounds of 32 words
	maxOpLen   = 8192      // longest single XOR call issued
	farLimit   = 64 * 1024 // largest absolute offset a positioned call starts at
)

// ---------------------------------------------------------------------------------------------
// construction of the object under test and of its reference keystream

// streamSpec says how one cipher object is built.
type streamSpec struct {
	family    string // "z128" NewCipher*, 16-byte key+IV | "eea3" NewEEACipher* | "z256" NewCipher*, 32-byte key + 23-byte IV
	withB     bool   // use the ...WithBucketSize constructor
	bucketArg int    // argument handed to it
	key, iv   []byte
	count     uint32
	bearer    uint32
	direction uint32
}

// effBucket is the documented effective bucket size: rounded up to a multiple of the round, 0 = none.
func (s *streamSpec) effBucket() int {
	if !s.withB || s.bucketArg <= 0 {
		return 0
	}
	return (s.bucketArg + roundBytes - 1) / roundBytes * roundBytes
}

func (s *streamSpec) String() string {
	b := "plain"
	if s.withB {
		b = fmt.Sprintf("bucket=%d", s.bucketArg)
	}
	if s.family == "eea3" {
		return fmt.Sprintf("eea3 %s key=%x count=%#x bearer=%d dir=%d", b, s.key, s.count, s.bearer, s.direction)
	}
	return fmt.Sprintf("%s %s key=%x iv=%x", s.family, b, s.key, s.iv)
}

// build hands the constructors private copies of key and IV and overwrites those copies as soon as the constructor
// has returned: the object must own what it needs for later (backward seeks re-initialise the generator).
func (s *streamSpec) build() (gcipher.SeekableStream, error) {
	key, iv := append([]byte{}, s.key...), append([]byte{}, s.iv...)
	defer scribble(key, iv)
	switch {
	case s.family == "eea3" && s.withB:
		return zuc.NewEEACipherWithBucketSize(key, s.count, s.bearer, s.direction, s.bucketArg)
	case s.family == "eea3":
		return zuc.NewEEACipher(key, s.count, s.bearer, s.direction)
	case s.withB:
		return zuc.NewCipherWithBucketSize(key, iv, s.bucketArg)
	}
	return zuc.NewCipher(key, iv)
}

func scribble(bs ...[]byte) {
	for _, b := range bs {
		for i := range b {
			b[i] = 0xA5
		}
	}
}

// refStream is the reference keystream, indexed by absolute byte position, extended on demand.
type refStream struct {
	z   *refzuc.State
	buf []byte
}

func (s *streamSpec) ref() (*refStream, error) {
	iv := s.iv
	if s.family == "eea3" {
		iv = refzuc.EEA3IV(s.count, s.bearer, s.direction)
	}
	z, err := refzuc.NewStream(s.key, iv)
	if err != nil {
		return nil, err
	}
	return &refStream{z: z}, nil
}

func (r *refStream) at(off uint64, n int) []byte {
	end := int(off) + n
	for len(r.buf) < end {
		w := r.z.Word()
		r.buf = append(r.buf, byte(w>>24), byte(w>>16), byte(w>>8), byte(w))
	}
	return r.buf[off:end]
}

var bucketArgs = []int{0, 1, 127, 128, 129, 256, 1000}

// randomSpec draws a constructor, key material and bucket size.
func randomSpec(r *mon.Rand) *streamSpec {
	s := &streamSpec{}
	switch r.Intn(5) {
	case 0, 1:
		s.family = "z128"
	case 2:
		s.family = "eea3"
	default:
		s.family = "z256"
	}
	fill := func(n int) []byte {
		switch r.Intn(8) {
		case 0:
			return make([]byte, n)
		case 1:
			return bytes.Repeat([]byte{0xff}, n)
		}
		return r.Bytes(n)
	}
	switch s.family {
	case "z128":
		s.key, s.iv = fill(16), fill(16)
	case "eea3":
		s.key = fill(16)
		s.count = uint32(r.Uint64())
		s.bearer = uint32(r.Intn(32))
		s.direction = uint32(r.Intn(2))
	case "z256":
		s.key, s.iv = fill(32), fill(23)
	}
	if r.Intn(4) != 0 {
		s.withB = true
		s.bucketArg = bucketArgs[r.Intn(len(bucketArgs))]
	}
	return s
}

// ---------------------------------------------------------------------------------------------
// history monitor

type op struct {
	at    bool
	off   uint64 // absolute offset of a positioned call
	n     int    // bytes
	alias int    // 0 dst and src disjoint | 1 dst == src | 2 dst longer than src
	dp    place  // placement of dst in its guard region (guard-abutting or misaligned start)
	sp    place  // placement of src, always of another kind and offset than dst's
	cls   string // how the offset was chosen (class key component)
}

func (o op) String() string {
	al := [...]string{"", " inplace", " longdst"}[o.alias]
	pl := fmt.Sprintf("dst@%v src@%v", o.dp, o.sp)
	if o.alias == 1 {
		pl = fmt.Sprintf("buf@%v", o.sp)
	}
	if o.at {
		return fmt.Sprintf("At(off=%d,len=%d %s%s %s)", o.off, o.n, pl, al, o.cls)
	}
	return fmt.Sprintf("Seq(len=%d %s%s)", o.n, pl, al)
}

var eeaDst, eeaSrc *mon.Guard

func eeaGuards() (*mon.Guard, *mon.Guard) {
	if eeaDst == nil {
		eeaDst = mon.NewGuard(maxOpLen + 64)
		eeaSrc = mon.NewGuard(maxOpLen + 64)
	}
	return eeaDst, eeaSrc
}

// history is the sequential model of one cipher object: the abstract state is
// (next sequential position, effective bucket size).
type history struct {
	c       *mon.Case
	spec    *streamSpec
	s       gcipher.SeekableStream
	ks      *refStream
	pos     uint64
	bucket  int
	maxPos  uint64
	log     []string
	logp    *[]string       // where operations are logged: &log, or the log shared by all objects of a c11.mixed case
	tag     string          // prefix of the log entries (object number in c11.mixed)
	nops    int             // operations issued on this object
	alts    []uint64        // further candidates for the sequential position (see refuse); empty = the model is certain
	visited []uint64        // start offsets of earlier operations
	rewound map[uint64]bool // bucket indices a backward seek already landed in
	dead    bool
}

func newHistory(c *mon.Case, spec *streamSpec) *history {
	h := &history{c: c, spec: spec, bucket: spec.effBucket(), rewound: map[uint64]bool{}}
	h.logp = &h.log
	var err error
	if !c.Call("constructor", func() { h.s, err = spec.build() }) {
		return nil
	}
	if err != nil || h.s == nil {
		c.Fail("reject", "constructor refused valid parameters (%v): %v", spec, err)
		return nil
	}
	if h.ks, err = spec.ref(); err != nil {
		c.Fail("fault", "reference refused the parameters: %v", err)
		return nil
	}
	c.Detail("object", spec.String())
	c.Detail("history", lazyLog{h.logp})
	return h
}

func posClass(p uint64) string {
	switch r := p % roundBytes; {
	case r == 0:
		return "p0"
	case r <= 3:
		return "p1-3"
	case r >= 125:
		return "p125-127"
	case r%4 == 0:
		return "pw"
	}
	return "pmid"
}

func lenClass(n int) string {
	switch {
	case n == 0:
		return "l0"
	case n < 4:
		return "l1-3"
	case n < roundBytes && n%4 == 0:
		return "lw"
	case n < roundBytes:
		return "l<128"
	case n%roundBytes == 0:
		return "l128k"
	case n%roundBytes == 1 || n%roundBytes == roundBytes-1:
		return "l128k+-1"
	}
	return "l>128"
}

// do executes one operation on the object and judges it against the model.
func (h *history) do(o op, r *mon.Rand) {
	if h.dead {
		return
	}
	c := h.c
	gd, gs := eeaGuards()
	start := h.pos
	seek := "seq"
	if o.at {
		start = o.off
		switch {
		case o.off == h.pos:
			seek = "same"
		case o.off > h.pos:
			gap := o.off - h.pos
			unread := (roundBytes - h.pos%roundBytes) % roundBytes
			switch {
			case gap < unread:
				seek = "fwd-in-round"
			case gap == unread:
				seek = "fwd-to-round-end"
			case gap <= 4*roundBytes:
				seek = "fwd-near"
			case gap <= 4096:
				seek = "fwd-mid"
			default:
				seek = "fwd-far"
			}
		default:
			back := h.pos - o.off
			switch {
			case o.off == 0:
				seek = "back-to-0"
			case back <= h.pos%roundBytes:
				seek = "back-in-round"
			case back <= 4*roundBytes:
				seek = "back-near"
			default:
				seek = "back-far"
			}
			if h.bucket > 0 {
				bi := o.off / uint64(h.bucket)
				if h.rewound[bi] {
					seek += "/ckpt-again"
				} else {
					seek += "/ckpt-first"
					h.rewound[bi] = true
				}
			}
		}
	}
	o.sp = o.sp.apart(o.dp)
	h.nops++
	*h.logp = append(*h.logp, h.tag+o.String())
	kind := "Seq"
	if o.at {
		kind = "At"
	}
	fam := h.spec.family
	c.Class("eea/%s/b%d/%s/%s/%s/%s", fam, h.bucket, kind, posClass(start), lenClass(o.n), seek)
	if o.at {
		c.Class("eea/offset-choice/%s/b%d/%s", fam, h.bucket, o.cls)
	}
	if o.alias == 1 {
		c.Class("eea/place/inplace@%v", o.sp)
	} else {
		c.Class("eea/place/dst@%v/src@%v", o.dp, o.sp)
	}

	// buffers
	src := o.sp.buf(gs, o.n)
	r.Fill(src)
	orig := append([]byte(nil), src...)
	var dst []byte
	extra := 0
	switch o.alias {
	case 0:
		dst = o.dp.buf(gd, o.n)
		for i := range dst {
			dst[i] = 0x5c
		}
	case 1:
		dst = src
	case 2:
		extra = 1 + r.Intn(9)
		dst = o.dp.buf(gd, o.n+extra)
		for i := range dst {
			dst[i] = 0x5c
		}
	}
	xorKey := func(at uint64) []byte {
		key := h.ks.at(at, o.n)
		w := make([]byte, o.n)
		for i := range w {
			w[i] = orig[i] ^ key[i]
		}
		return w
	}
	want := xorKey(start)
	what := fmt.Sprintf("%sop %d %v (model position before: %d)", h.tag, h.nops, o, h.pos)
	ok := c.Call(what, func() {
		if o.at {
			h.s.XORKeyStreamAt(dst, src, o.off)
		} else {
			h.s.XORKeyStream(dst, src)
		}
	})
	c.Event("eea_ops", 1)
	c.Event("eea_bytes", o.n)
	if !ok {
		h.fail()
		return
	}
	if o.at {
		h.alts = nil // a positioned call defines the position whatever it was
	} else if len(h.alts) > 0 {
		// the sequential position is one of several candidates (a refused positioned call came before): the output
		// decides which; it must be the keystream of one of them
		var keep []uint64
		primary := bytes.Equal(dst[:o.n], want)
		for _, a := range h.alts {
			if bytes.Equal(dst[:o.n], xorKey(a)) {
				keep = append(keep, a)
			}
		}
		switch {
		case primary:
			if len(keep) == 0 {
				c.Event("refused_at_position_kept", 1)
			}
		case len(keep) > 0:
			c.Event("refused_at_position_moved", 1)
			start, keep = keep[0], keep[1:]
			want = xorKey(start)
		default:
			c.Detail("position_candidates", fmt.Sprint(append([]uint64{h.pos}, h.alts...)))
		}
		for i := range keep {
			keep[i] += uint64(o.n)
		}
		h.alts = keep
	}
	if !bytes.Equal(dst[:o.n], want) {
		i := 0
		for dst[i] == want[i] {
			i++
		}
		// does the output equal the keystream of some other position? (diagnosis only)
		c.Fail("mismatch", "%s: output differs from input XOR reference keystream[%d..%d) first at byte %d (absolute %d): got %x want %x",
			what, start, start+uint64(o.n), i, start+uint64(i), clip(dst[i:o.n]), clip(want[i:]))
		h.fail()
		return
	}
	c.Event("compare", 1)
	if o.alias != 1 && !bytes.Equal(src, orig) {
		c.Fail("oob", "%s: the source buffer was modified", what)
		h.fail()
		return
	}
	for i := 0; i < extra; i++ {
		if dst[o.n+i] != 0x5c {
			c.Fail("oob", "%s: dst[%d] beyond len(src)=%d was modified", what, o.n+i, o.n)
			h.fail()
			return
		}
	}
	if !c.CheckGuards(what, gd, gs) {
		h.fail()
		return
	}
	h.visited = append(h.visited, start)
	h.pos = start + uint64(o.n)
	if h.pos > h.maxPos {
		h.maxPos = h.pos
	}
}

// refuse issues a call the object must refuse: len(dst) < len(src) ("If len(dst) < len(src), XORKeyStream should
// panic", crypto/cipher.Stream; the library panics with "zuc: output smaller than input"). The panic is the documented
// refusal and is not judged (mon.Try); a call that returns normally has produced output for which there was no room:
// violation. A refused call is no transition of the object's state machine: XORKeyStream checks before it touches the
// object, so the sequential position and every later keystream byte must be what they were. XORKeyStreamAt, however,
// seeks to the offset first and refuses afterwards (internal/zuc/eea.go XORKeyStreamAt); the property says nothing on
// the position after a refused positioned call, so the model keeps both candidates {old position, off} and lets the
// next sequential call decide (event refused_at_position_moved / _kept); the keystream content is checked either way.
// dst and src sit in different guard regions and never overlap.
func (h *history) refuse(at bool, off uint64, cls string, r *mon.Rand, dp, sp place) {
	if h.dead {
		return
	}
	c := h.c
	gd, gs := eeaGuards()
	n := 1 + r.Intn(300)
	var d int
	how := ""
	switch r.Intn(3) {
	case 0:
		d, how = n-1, "one-byte-less"
	case 1:
		d, how = 0, "empty"
	default:
		d, how = r.Intn(n), "shorter"
	}
	sp = sp.apart(dp)
	src := sp.buf(gs, n)
	r.Fill(src)
	// in half of the calls dst is short in length only: its capacity would hold the output (a check that looks at the
	// capacity, or a missing check followed by a reslice, then goes through instead of refusing)
	spare := 0
	if r.Bool() {
		spare = n - d + r.Intn(8)
		how += "+cap"
	}
	dst := dp.buf(gd, d+spare)
	for i := range dst {
		dst[i] = 0x5c
	}
	dst = dst[:d]
	h.nops++
	var what string
	if at {
		what = fmt.Sprintf("%sop %d refused At(off=%d,len(src)=%d,len(dst)=%d [%s] dst@%v src@%v %s) (model position before: %d)", h.tag, h.nops, off, n, d, how, dp, sp, cls, h.pos)
	} else {
		what = fmt.Sprintf("%sop %d refused Seq(len(src)=%d,len(dst)=%d [%s] dst@%v src@%v) (model position before: %d)", h.tag, h.nops, n, d, how, dp, sp, h.pos)
	}
	*h.logp = append(*h.logp, what)
	pi := try(func() {
		if at {
			h.s.XORKeyStreamAt(dst, src, off)
		} else {
			h.s.XORKeyStream(dst, src)
		}
	})
	c.Event("calls", 1)
	c.Event("eea_ops", 1)
	kind := "Seq"
	if at {
		kind = "At"
	}
	c.Class("eea.refused/%s/b%d/%s/%s/%s/%s", h.spec.family, h.bucket, kind, posClass(h.pos), how, lenClass(n))
	if pi == nil {
		c.Fail("accept", "%s: the call was not refused although dst is shorter than src", what)
		h.fail()
		return
	}
	if isFault(pi) {
		c.Detail("stack", pi.Stack)
		c.Fail("oob", "%s: memory fault instead of a refusal: %v", what, pi.Value)
		h.fail()
		return
	}
	c.Event("eea_refused", 1)
	if !c.CheckGuards(what, gd, gs) {
		h.fail()
		return
	}
	if at && atRefusedMayMove {
		known := off == h.pos
		for _, a := range h.alts {
			known = known || a == off
		}
		if !known {
			h.alts = append(h.alts, off)
		}
	}
}

// atRefusedMayMove: the sequential position after a refused XORKeyStreamAt(dst, src, off) is either the old one or off.
const atRefusedMayMove = true

func clip(b []byte) []byte {
	if len(b) > 48 {
		return b[:48]
	}
	return b
}

func (h *history) fail() { h.dead = true }

// lazyLog is attached to a case as a detail before anything can fail; it is rendered
// only when a violation record is written, with the operations issued until then.
type lazyLog struct{ log *[]string }

func (l lazyLog) MarshalText() ([]byte, error) { return []byte(strings.Join(*l.log, " ; ")), nil }

// ---------------------------------------------------------------------------------------------
// random walks

func pickLen(r *mon.Rand) int {
	switch k := r.Intn(20); {
	case k == 0:
		return 0
	case k < 7: // L(4): every residue around a few words
		return r.Intn(21)
	case k < 15: // L(128): every residue over none / one / several rounds
		return r.Intn(4*roundBytes + roundBytes + 1)
	case k < 18: // round multiples +-3
		n := roundBytes*(1+r.Intn(8)) + r.Intn(7) - 3
		return n
	case k == 18:
		return r.Intn(4096)
	}
	return 4096 + r.Intn(maxOpLen-4096+1)
}

// pickOffset draws the absolute offset of a positioned call relative to the model state.
func (h *history) pickOffset(r *mon.Rand) (uint64, string) {
	pos := h.pos
	b := uint64(h.bucket)
	if b == 0 {
		b = roundBytes
	}
	sub := func(a, d uint64) uint64 {
		if d > a {
			return 0
		}
		return a - d
	}
	switch k := r.Intn(40); {
	case k < 3:
		return pos, "same"
	case k < 8: // inside the unread part of the current round, up to and including its end
		unread := (roundBytes - pos%roundBytes) % roundBytes
		if unread == 0 {
			return pos + uint64(r.Intn(roundBytes+1)), "next-round"
		}
		return pos + uint64(r.Intn(int(unread)+2)), "in-round"
	case k < 13:
		return pos + 1 + uint64(r.Intn(600)), "forward"
	case k < 18:
		return sub(pos, 1+uint64(r.Intn(600))), "backward"
	case k < 21:
		return 0, "zero"
	case k < 28: // bucket boundaries +-1 anywhere up to a little past the farthest position reached
		kk := uint64(r.Intn(int(h.maxPos/b) + 3))
		return sub(kk*b+1, uint64(r.Intn(3))), "bucket+-1"
	case k < 31: // round boundaries +-1 around the current position
		kk := pos/roundBytes + uint64(r.Intn(3))
		return sub(kk*roundBytes+1, uint64(r.Intn(3))), "round+-1"
	case k < 34:
		if pos == 0 {
			return 0, "zero"
		}
		return uint64(r.Intn(int(pos))), "back-anywhere"
	case k < 38:
		if len(h.visited) == 0 {
			return 0, "zero"
		}
		return h.visited[r.Intn(len(h.visited))], "revisit"
	case k < 39:
		return uint64(r.Intn(farLimit + 1)), "far"
	}
	// far-away bucket boundary
	kk := uint64(r.Intn(farLimit/int(b) + 1))
	return sub(kk*b+1, uint64(r.Intn(3))), "far-bucket+-1"
}

// raceScale cuts the number of random histories for the -race build (thorough only), where the
// instrumented reference and canary scans are an order of magnitude slower; the count stays a
// function of (tier, variant) only.
func raceScale(x *mon.Ctx, n int) int {
	if strings.HasPrefix(x.Variant, "race") {
		return n / 10
	}
	return n
}

// randomOp draws one valid operation (length, placement, aliasing, sequential or positioned) relative to the model state.
func (h *history) randomOp(r *mon.Rand, maxLen int) op {
	o := op{n: pickLen(r), dp: place(r.Intn(nPlaces)), sp: place(r.Intn(nPlaces))}
	if o.n > maxLen {
		o.n %= maxLen + 1
	}
	switch r.Intn(8) {
	case 0, 1:
		o.alias = 1
	case 2:
		o.alias = 2
	}
	if r.Intn(5) < 3 {
		o.at = true
		o.off, o.cls = h.pickOffset(r)
		if o.off > 4096 && o.n > 2048 {
			o.n %= 512
		}
	}
	return o
}

// randomRefuse draws one call that must be refused (see refuse).
func (h *history) randomRefuse(r *mon.Rand) {
	at := r.Bool()
	var off uint64
	cls := ""
	if at {
		off, cls = h.pickOffset(r)
	}
	h.refuse(at, off, cls, r, place(r.Intn(nPlaces)), place(r.Intn(nPlaces)))
}

func eeaWalk(x *mon.Ctx) {
	if err := refzuc.SelfTest(); err != nil {
		x.HarnessError("%v", err)
	}
	walks := raceScale(x, x.Scale(6000, 150000))
	for i := 0; i < walks; i++ {
		c := x.Begin("walk %d: random history on one cipher object (constructor, key, operations and refused calls drawn from the case PRNG)", i)
		if c == nil {
			continue
		}
		r := c.R
		spec := randomSpec(r)
		h := newHistory(c, spec)
		if h == nil {
			c.End()
			continue
		}
		nops := 1 + r.Intn(40)
		for k := 0; k < nops && !h.dead; k++ {
			if r.Intn(12) == 0 {
				h.randomRefuse(r)
				continue
			}
			h.do(h.randomOp(r, maxOpLen), r)
		}
		c.Event("eea_walks", 1)
		c.End()
	}
}

// ---------------------------------------------------------------------------------------------
// systematic short histories: from every sequential position a (every residue of the
// round over more than two rounds) to a fixed list of targets around the current
// round, the bucket boundaries and the start, for a fixed list of objects.

func gridSpecs() []*streamSpec {
	k16 := []byte{0x17, 0x3d, 0x14, 0xba, 0x50, 0x03, 0x73, 0x1d, 0x7a, 0x60, 0x04, 0x94, 0x70, 0xf0, 0x0a, 0x29}
	iv16 := []byte{0x84, 0x31, 0x9a, 0xa8, 0xde, 0x69, 0x15, 0xca, 0x1f, 0x6b, 0xda, 0x6b, 0xfb, 0xd8, 0xc7, 0x66}
	k32 := make([]byte, 32)
	iv23 := make([]byte, 23)
	for i := range k32 {
		k32[i] = byte(0xa1 + 7*i)
	}
	for i := range iv23 {
		iv23[i] = byte(0x3c + 11*i)
	}
	var out []*streamSpec
	add := func(f string, withB bool, b int) {
		s := &streamSpec{family: f, withB: withB, bucketArg: b}
		switch f {
		case "z128":
			s.key, s.iv = k16, iv16
		case "eea3":
			s.key, s.count, s.bearer, s.direction = k16, 0x66035492, 0xf, 1
		case "z256":
			s.key, s.iv = k32, iv23
		}
		out = append(out, s)
	}
	add("z128", false, 0)
	add("z128", true, 0)
	add("z128", true, 1)
	add("z128", true, 129)
	add("z128", true, 1000)
	add("eea3", false, 0)
	add("eea3", true, 127)
	add("eea3", true, 256)
	add("z256", false, 0)
	add("z256", true, 128)
	add("z256", true, 256)
	return out
}

func eeaGrid(x *mon.Ctx) {
	if err := refzuc.SelfTest(); err != nil {
		x.HarnessError("%v", err)
	}
	maxA := x.Scale(300, 1100)
	// the 25-element IV form of the ZUC-256 specification (8 six-bit values in separate bytes) is not part of
	// the constructors' domain: recorded for the evidence, not judged
	if p := mon.Try(func() {
		if _, err := zuc.NewCipher(make([]byte, 32), make([]byte, 25)); err != nil {
			x.Note("zuc.NewCipher(32-byte key, 25-byte IV) is refused (%v): only the packed 23-byte IV form is exercised", err)
		} else {
			x.Note("zuc.NewCipher(32-byte key, 25-byte IV) is accepted but not exercised by this workload")
		}
	}); p != nil {
		x.Note("zuc.NewCipher(32-byte key, 25-byte IV) panics: %v", p.Value)
	}
	lens := []int{1, 3, 4, 5, 127, 128, 129, 0, 2, 131, 260, 7}
	for si, spec := range gridSpecs() {
		for a := 0; a <= maxA; a++ {
			c := x.Begin("grid object#%d (%s) from sequential position a=%d to each target", si, spec, a)
			if c == nil {
				continue
			}
			h := newHistory(c, spec)
			if h == nil {
				c.End()
				continue
			}
			r := c.R
			b := uint64(spec.effBucket())
			if b == 0 {
				b = roundBytes
			}
			ua := uint64(a)
			roundEnd := ua + (roundBytes-ua%roundBytes)%roundBytes
			targets := []struct {
				off uint64
				cls string
			}{
				{0, "zero"}, {ua, "same"}, {ua + 1, "a+1"}, {ua + 2, "a+2"}, {ua + 5, "a+5"},
				{roundEnd, "round-end"}, {roundEnd + 1, "round-end+1"}, {roundEnd + roundBytes, "round-end+128"},
				{ua + 200, "a+200"}, {ua / 2, "a/2"}, {ua / roundBytes * roundBytes, "round-start"},
				{ua/roundBytes*roundBytes + 1, "round-start+1"}, {b, "bucket"}, {b + 1, "bucket+1"},
				{2 * b, "2bucket"}, {2*b + 1, "2bucket+1"}, {3 * b, "3bucket"},
			}
			if ua > 0 {
				targets = append(targets, struct {
					off uint64
					cls string
				}{ua - 1, "a-1"})
			}
			if roundEnd > 0 {
				targets = append(targets, struct {
					off uint64
					cls string
				}{roundEnd - 1, "round-end-1"})
			}
			targets = append(targets, struct {
				off uint64
				cls string
			}{b - 1, "bucket-1"}, struct {
				off uint64
				cls string
			}{2*b - 1, "2bucket-1"})
			for ti, t := range targets {
				if h.dead {
					break
				}
				pl := place((a + 3*ti) % nPlaces)
				// bring the object to sequential position a the natural way: rewind, then one sequential call
				h.do(op{at: true, off: 0, n: 0, dp: pl, sp: pl.next(1), cls: "rewind"}, r)
				h.do(op{n: a, dp: pl.next(1), sp: pl.next(2), alias: (a + ti) % 3 % 2}, r)
				h.do(op{at: true, off: t.off, n: lens[(a+ti)%len(lens)], dp: pl.next(2), sp: pl.next(3), cls: t.cls}, r)
				// a refused call (dst shorter than src) from the position just reached: sequential for one target in
				// eight, positioned (to the next target's offset) for another
				switch (a + ti) % 8 {
				case 1:
					h.refuse(false, 0, "", r, pl.next(5), pl.next(6))
				case 5:
					h.refuse(true, targets[(ti+1)%len(targets)].off, "next-target", r, pl.next(5), pl.next(6))
				}
				h.do(op{n: 3 + ti%3, dp: pl.next(3), sp: pl.next(4)}, r)
			}
			c.End()
		}
	}
}
