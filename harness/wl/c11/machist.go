package c11

import (
	"fmt"
	"runtime"
	"runtime/debug"

	"github.com/emmansun/gmsm/zuc"

	"verifh/mon"
)

// macHist is the sequential model of one MAC object: the abstract state is the byte string absorbed since the last
// Finish/Reset. Operations the object refuses (an argument check that panics) are no transition of that state machine:
// the history goes on and every later result must equal the model that did not move.
type macHist struct {
	c        *mon.Case
	m        *macSpec
	h        zuc.EIA
	absorbed []byte
	logp     *[]string // where the operations are logged (shared by all objects of a c11.mixed case)
	tag      string    // prefix of the log entries
	nops     int
	big      bool // some Writes of this history are 1000-4000 bytes long
	sparse   bool // structured data (zero words, single bits) in every Write and Finish of this history
	alive    bool
}

// newMacHist builds the object; nil when the constructor failed (a violation has been recorded).
func newMacHist(c *mon.Case, m *macSpec, logp *[]string, tag string) *macHist {
	mh := &macHist{c: c, m: m, logp: logp, tag: tag, alive: true}
	var err error
	if !c.Call("constructor "+m.name(), func() { mh.h, err = m.build() }) {
		return nil
	}
	if err != nil {
		c.Fail("reject", "constructor refused valid parameters (%v): %v", m, err)
		return nil
	}
	return mh
}

func (mh *macHist) logf(format string, args ...any) string {
	s := fmt.Sprintf(format, args...)
	*mh.logp = append(*mh.logp, mh.tag+s)
	mh.nops++
	mh.c.Event("mac_hist_ops", 1)
	return mh.tag + s
}

func (mh *macHist) pickWriteLen(r *mon.Rand) int {
	var n int
	switch r.Intn(6) {
	case 0:
		n = 0
	case 1:
		n = 1 + r.Intn(3)
	case 2:
		n = 16*(1+r.Intn(4)) + r.Intn(3) - 1
	case 3:
		n = (16 - len(mh.absorbed)%16) % 16 // fill the partial block exactly
	default:
		n = r.Intn(100)
	}
	if mh.big && r.Intn(3) == 0 {
		n = 1000 + r.Intn(3000)
	}
	return n
}

func (mh *macHist) write(r *mon.Rand) {
	c, m := mh.c, mh.m
	n := mh.pickWriteLen(r)
	mh.logf("Write(%d)", n)
	data := r.Bytes(n)
	if mh.sparse {
		sparsify(r, data)
	}
	wp := place(r.Intn(nPlaces))
	mh.alive = writeAll(c, mh.h, data, []int{n}, wp)
	c.Class("eia.place/%s/Write@%v", m.name(), wp)
	mh.absorbed = append(mh.absorbed, data...)
	c.Class("eia.hist/%s/Write/nx=%d/%s", m.name(), (len(mh.absorbed)-n)%16, lenClass16(n))
}

func (mh *macHist) sum() {
	c, m := mh.c, mh.m
	what := mh.logf("Sum")
	var s []byte
	if mh.alive = c.Call(what, func() { s = mh.h.Sum(nil) }); mh.alive {
		mh.alive = m.judge(c, fmt.Sprintf("%s (op %d) over %d absorbed bytes", what, mh.nops, len(mh.absorbed)), s, mh.absorbed, 8*len(mh.absorbed))
	}
	c.Class("eia.hist/%s/Sum/nx=%d", m.name(), len(mh.absorbed)%16)
}

func (mh *macHist) finish(r *mon.Rand) {
	c, m := mh.c, mh.m
	g := eiaGuard()
	nb := r.Intn(200)
	if r.Intn(4) == 0 {
		nb = 0
	}
	tail := bitMessage(r, "random+junk", nb)
	if mh.sparse {
		sparsify(r, tail)
	}
	fp := place(r.Intn(nPlaces))
	p := fp.put(g, tail)
	c.Class("eia.place/%s/Finish@%v", m.name(), fp)
	what := mh.logf("Finish(%d bits)", nb)
	var s []byte
	if mh.alive = c.Call(what, func() { s = mh.h.Finish(p, nb) }); mh.alive {
		full := append(append([]byte(nil), mh.absorbed...), tail[:(nb+7)/8]...)
		mh.alive = m.judge(c, fmt.Sprintf("%s (op %d) after %d absorbed bytes", what, mh.nops, len(mh.absorbed)), s, full, 8*len(mh.absorbed)+nb)
		c.CheckGuards(what, g)
	}
	c.Class("eia.hist/%s/Finish/nx=%d/bits%%32=%d", m.name(), len(mh.absorbed)%16, nb%32)
	mh.absorbed = mh.absorbed[:0]
}

func (mh *macHist) reset() {
	c, m := mh.c, mh.m
	what := mh.logf("Reset")
	mh.alive = c.Call(what, func() { mh.h.Reset() })
	c.Class("eia.hist/%s/Reset/nx=%d", m.name(), len(mh.absorbed)%16)
	mh.absorbed = mh.absorbed[:0]
}

// shortKinds are the ways the buffer of a refused Finish(p, nbits) is too short.
var shortKinds = []string{"whole-bytes-only", "one-byte-less", "empty", "nil", "half"}

// shortFinishLen draws nbits > 0 and a buffer length below (nbits+7)/8: exactly the whole bytes (the byte that carries the
// trailing bits is missing), one byte less than the whole bytes, nothing at all although nbits > 0, about half.
func shortFinishLen(r *mon.Rand, nb int) (int, string) {
	k := r.Intn(len(shortKinds))
	switch {
	case shortKinds[k] == "whole-bytes-only" && nb%8 != 0:
		return nb / 8, shortKinds[k]
	case shortKinds[k] == "one-byte-less" && nb >= 8:
		return nb/8 - 1, shortKinds[k]
	case shortKinds[k] == "half" && nb > 16:
		return nb / 16, shortKinds[k]
	case shortKinds[k] == "nil":
		return -1, shortKinds[k]
	}
	if nb%8 != 0 && r.Bool() {
		return nb / 8, "whole-bytes-only"
	}
	return 0, "empty"
}

// refusedFinish issues Finish(p, nbits) with len(p) < ceil(nbits/8). Both MAC types document the refusal (panic
// "invalid p length") and refuse before they touch the object; the panic itself is therefore not judged (mon.Try), the
// model does not move, and the operations that follow show whether the object did. A call that is NOT refused has
// authenticated bits that do not exist: violation. It returns false when the history cannot go on.
func refusedFinish(c *mon.Case, m *macSpec, h zuc.EIA, r *mon.Rand, what string, nb int) bool {
	g := eiaGuard()
	n, how := shortFinishLen(r, nb)
	var p []byte
	if n >= 0 {
		fp := place(r.Intn(nPlaces))
		spare := 0
		if r.Bool() { // short in length only: the capacity would hold ceil(nbits/8) bytes
			spare = (nb+7)/8 - n + r.Intn(4)
			how += "+cap"
		}
		p = fp.put(g, r.Bytes(n+spare))[:n]
		c.Class("eia.place/%s/refusedFinish@%v", m.name(), fp)
	} else {
		n = 0
	}
	what = fmt.Sprintf("%s: Finish(p of %d bytes [%s], %d bits)", what, n, how, nb)
	var s []byte
	pi := try(func() { s = h.Finish(p, nb) })
	c.Event("calls", 1)
	c.Class("eia.refused/%s/Finish/%s/bits%%8=%d/%s", m.name(), how, nb%8, lenClass16(nb/8))
	if pi == nil {
		c.Detail("object", m.String())
		c.Fail("accept", "%s was not refused although p is shorter than ceil(nbits/8) = %d bytes: returned %x", what, (nb+7)/8, s)
		return false
	}
	if isFault(pi) {
		c.Detail("stack", pi.Stack)
		c.Fail("oob", "%s: memory fault instead of a refusal: %v", what, pi.Value)
		return false
	}
	c.Event("mac_refused_finish", 1)
	return c.CheckGuards(what, g)
}

// isFault tells a memory fault (runtime error with an address) from an ordinary panic.
func isFault(pi *mon.PanicInfo) bool {
	if e, ok := pi.Value.(runtime.Error); ok {
		if _, isAddr := e.(interface{ Addr() uintptr }); isAddr {
			return true
		}
	}
	return false
}

// try is mon.Try for calls whose panic is the expected outcome (hundreds of thousands per run): it recovers without
// judging and takes the stack trace only for runtime errors (index out of range, memory fault), where a report may follow.
func try(f func()) (p *mon.PanicInfo) {
	defer func() {
		if r := recover(); r != nil {
			p = &mon.PanicInfo{Value: r}
			if _, ok := r.(runtime.Error); ok {
				p.Stack = string(debug.Stack())
			}
		}
	}()
	f()
	return nil
}

func pickRefusedBits(r *mon.Rand) int {
	switch r.Intn(3) {
	case 0: // whole bytes (possibly whole blocks) plus 1..7 bits
		return 8*(1+r.Intn(40)) + 1 + r.Intn(7)
	case 1:
		return 1 + r.Intn(24)
	}
	return 1 + r.Intn(600)
}

func (mh *macHist) refuse(r *mon.Rand) {
	nb := pickRefusedBits(r)
	what := mh.logf("refused Finish(%d bits)", nb)
	mh.alive = refusedFinish(mh.c, mh.m, mh.h, r, fmt.Sprintf("%s (op %d) after %d absorbed bytes", what, mh.nops, len(mh.absorbed)), nb)
	mh.c.Class("eia.hist/%s/refusedFinish/nx=%d", mh.m.name(), len(mh.absorbed)%16)
	// the model did not move: what the object has absorbed so far must still be what Sum reports
	if mh.alive && r.Intn(3) != 0 {
		mh.sum()
	}
}

// step issues one operation drawn from {Write, Sum, Finish, Reset, refused Finish}.
func (mh *macHist) step(r *mon.Rand) {
	if !mh.alive {
		return
	}
	switch o := r.Intn(11); {
	case o < 5:
		mh.write(r)
	case o < 7:
		mh.sum()
	case o < 9:
		mh.finish(r)
	case o < 10:
		mh.reset()
	default:
		mh.refuse(r)
	}
}
