package c07

import (
	"fmt"
	"math/big"

	"verifh/mon"
	enc "verifh/ref/sm2enc"
)

// Structured values in the coordinates of C1 = [k]G. A coordinate with z leading zero octets is
// a DER INTEGER that is z octets shorter (one less when the next octet has its top bit set: the
// sign octet) in the ASN.1 layout, and a field element padded with z zero octets in the plain
// layouts (uncompressed, compressed and hybrid alike). A random k gives z >= 2 with probability
// 2^-16 per coordinate, so such ciphertexts never come out of sampled scalars: the scalars below
// were found once, offline, by exhaustive search over k = 1, 2, 3, ... with the scalar
// multiplication of the library resp. of crypto/elliptic (throw-away program, not part of the
// harness). Nothing is believed from that search: validateShapes recomputes [k]G for every entry
// with the reference arithmetic at workload start, and an entry that does not have the recorded
// shape is a harness error.
//
// zx, zy: leading zero octets of x1, y1 relative to the width of a field element; tx, ty: top
// bit of the first non-zero octet (for P-521, where the first octet is 0 or 1, z counts from
// that octet as well).
type shapedK struct {
	curve          string
	k              int64
	zx, tx, zy, ty int
}

// rankedK is a table entry with its rank among the entries of the same shape (the quick tier
// takes the first ranks only).
type rankedK struct {
	shapedK
	rank int
}

func part(z, t int) string {
	if z == 0 {
		return "-"
	}
	return fmt.Sprintf("%dz%s", z, [2]string{"<80", ">=80"}[t])
}

// label names the shape: zero octets and top bit of the next octet for x and y ("-": no leading zero octet).
func (s shapedK) label() string { return "x:" + part(s.zx, s.tx) + ",y:" + part(s.zy, s.ty) }

// lzOctets returns the number of leading zero octets of v written on width octets and the top
// bit of the first non-zero octet.
func lzOctets(v *big.Int, width int) (z, top int) {
	b := v.FillBytes(make([]byte, width))
	for z < width && b[z] == 0 {
		z++
	}
	if z < width && b[z]&0x80 != 0 {
		top = 1
	}
	return
}

var shapeRanked map[string][]rankedK

// shapesOf returns the table entries of a curve, ordered by shape, each with its rank within the shape.
func shapesOf(curve string) []rankedK {
	if shapeRanked == nil {
		shapeRanked = map[string][]rankedK{}
		n := map[string]int{}
		for _, s := range shapedKs {
			key := s.curve + "/" + s.label()
			shapeRanked[s.curve] = append(shapeRanked[s.curve], rankedK{s, n[key]})
			n[key]++
		}
	}
	return shapeRanked[curve]
}

// validateShapes re-establishes every table entry of the curve with the reference arithmetic.
func validateShapes(x *mon.Ctx, cv enc.Curve) {
	name := cvName(cv)
	for _, s := range shapesOf(name) {
		x1, y1, inf := cv.BaseMul(big.NewInt(s.k))
		if inf {
			x.HarnessError("shape table: [%d]G is the point at infinity on %s", s.k, name)
		}
		zx, tx := lzOctets(x1, cv.ByteLen())
		zy, ty := lzOctets(y1, cv.ByteLen())
		if zx != s.zx || tx != s.tx || zy != s.zy || ty != s.ty {
			x.HarnessError("shape table: [%d]G on %s has shape x:%d/%d y:%d/%d under the reference, the table says x:%d/%d y:%d/%d",
				s.k, name, zx, tx, zy, ty, s.zx, s.tx, s.zy, s.ty)
		}
		if s.zx < 2 && s.zy < 2 && !(s.zx >= 1 && s.zy >= 1) {
			x.HarnessError("shape table: entry k=%d on %s is not a structured value", s.k, name)
		}
	}
	x.Event("shape_table_entries_validated/"+name, len(shapesOf(name)))
}

// shapeCases runs the round-trip machinery (9 encryption variants byte-equal to the reference
// under the scripted k, every serialisation of the reference ciphertext through the 5 decryption
// entry points, wrong key) with the scalars of the shape table: quick takes the first quickRanks
// scalars of every shape with one message length each, thorough all scalars with every length.
func shapeCases(x *mon.Ctx, cv enc.Curve, lens []int, quickRanks int) {
	name := cvName(cv)
	for i, sh := range shapesOf(name) {
		for li, n := range lens {
			if !x.Thorough() && (sh.rank >= quickRanks || li != i%len(lens)) {
				continue
			}
			content := []string{"random", "mask", "mask-head"}[(i+li)%3]
			c := x.Begin("special curve=%s C1 shape %s k=%d len=%d content=%s", name, sh.label(), sh.k, n, content)
			if c == nil {
				continue
			}
			c.Class("%s/special/C1-shape/%s/len=%s", name, sh.label(), lenClass(n))
			kp := newKey(cv, pickKey(c, cv, []string{"random", "d<2^64", "random", "d=2^255+r"}[i%4]))
			k := big.NewInt(sh.k)
			x1, y1, x2, y2, err := enc.Shared(cv, k, kp.px, kp.py)
			if err != nil {
				c.Inconclusive("no shared point: %v", err)
				c.End()
				continue
			}
			zx, _ := lzOctets(x1, cv.ByteLen())
			zy, _ := lzOctets(y1, cv.ByteLen())
			if zx != sh.zx || zy != sh.zy {
				x.HarnessError("shape table: [%d]G on %s does not have the recorded shape", sh.k, name)
			}
			if allZero(enc.Mask(cv, x2, y2, n)) {
				n++ // the standard restarts for this k at this length: take one more byte
			}
			m := pickMsg(c, content, n, enc.Mask(cv, x2, y2, n))
			runRoundTrip(c, &rtParams{kp: kp, k: k, m: m})
			c.Event("special/C1-shape", 1)
			c.End()
		}
	}
}

var shapedKs = []shapedK{
	// sm2: 55 scalars, 13 shapes
	{"sm2", 193197, 0, 1, 2, 0}, {"sm2", 252436, 0, 1, 2, 0}, {"sm2", 302857, 0, 1, 2, 0}, {"sm2", 317276, 0, 1, 2, 0}, {"sm2", 904636, 0, 1, 2, 0},
	{"sm2", 942769, 0, 1, 2, 0}, {"sm2", 316619, 0, 1, 2, 1}, {"sm2", 760549, 0, 0, 2, 1}, {"sm2", 873820, 0, 1, 2, 1}, {"sm2", 944749, 0, 0, 2, 1},
	{"sm2", 1087463, 0, 1, 2, 1}, {"sm2", 1168263, 0, 0, 2, 1}, {"sm2", 35466032, 0, 1, 3, 0}, {"sm2", 13047929, 0, 1, 3, 1},
	{"sm2", 37851942, 0, 1, 3, 1}, {"sm2", 715452, 1, 0, 1, 0}, {"sm2", 1409977, 1, 0, 1, 0}, {"sm2", 1495937, 1, 0, 1, 0}, {"sm2", 1597655, 1, 0, 1, 0},
	{"sm2", 2070848, 1, 0, 1, 0}, {"sm2", 2220370, 1, 0, 1, 0}, {"sm2", 501527, 1, 0, 1, 1}, {"sm2", 857308, 1, 0, 1, 1}, {"sm2", 1079263, 1, 0, 1, 1},
	{"sm2", 1155915, 1, 0, 1, 1}, {"sm2", 1258816, 1, 0, 1, 1}, {"sm2", 1369466, 1, 0, 1, 1}, {"sm2", 31345403, 1, 0, 2, 1}, {"sm2", 589123, 1, 1, 1, 0},
	{"sm2", 1018103, 1, 1, 1, 0}, {"sm2", 1145204, 1, 1, 1, 0}, {"sm2", 1810335, 1, 1, 1, 0}, {"sm2", 1814822, 1, 1, 1, 0}, {"sm2", 1824930, 1, 1, 1, 0},
	{"sm2", 278982, 1, 1, 1, 1}, {"sm2", 304071, 1, 1, 1, 1}, {"sm2", 467495, 1, 1, 1, 1}, {"sm2", 482627, 1, 1, 1, 1}, {"sm2", 500792, 1, 1, 1, 1},
	{"sm2", 524234, 1, 1, 1, 1}, {"sm2", 5121106, 1, 1, 2, 0}, {"sm2", 17883, 2, 0, 0, 1}, {"sm2", 60190, 2, 0, 0, 0}, {"sm2", 84295, 2, 0, 0, 1},
	{"sm2", 126495, 2, 0, 0, 0}, {"sm2", 173403, 2, 0, 0, 0}, {"sm2", 367633, 2, 0, 0, 1}, {"sm2", 713630, 2, 1, 0, 0}, {"sm2", 914487, 2, 1, 0, 0},
	{"sm2", 937849, 2, 1, 0, 0}, {"sm2", 997590, 2, 1, 0, 1}, {"sm2", 1045165, 2, 1, 0, 1}, {"sm2", 1090458, 2, 1, 0, 0}, {"sm2", 17431078, 3, 0, 0, 0},
	{"sm2", 30673590, 3, 0, 0, 1},
	// p256: 61 scalars, 14 shapes
	{"p256", 2376, 0, 0, 2, 0}, {"p256", 162290, 0, 0, 2, 0}, {"p256", 281153, 0, 1, 2, 0}, {"p256", 495758, 0, 1, 2, 0}, {"p256", 586938, 0, 0, 2, 0},
	{"p256", 618335, 0, 1, 2, 0}, {"p256", 61552, 0, 0, 2, 1}, {"p256", 77299, 0, 1, 2, 1}, {"p256", 120189, 0, 0, 2, 1}, {"p256", 268298, 0, 0, 2, 1},
	{"p256", 434541, 0, 1, 2, 1}, {"p256", 661286, 0, 0, 2, 1}, {"p256", 11948115, 0, 1, 3, 0}, {"p256", 7280631, 0, 0, 3, 1},
	{"p256", 27806924, 0, 1, 3, 1}, {"p256", 29800866, 0, 1, 3, 1}, {"p256", 227470, 1, 0, 1, 0}, {"p256", 266589, 1, 0, 1, 0},
	{"p256", 674715, 1, 0, 1, 0}, {"p256", 2051920, 1, 0, 1, 0}, {"p256", 2377088, 1, 0, 1, 0}, {"p256", 2844830, 1, 0, 1, 0},
	{"p256", 49350, 1, 0, 1, 1}, {"p256", 124396, 1, 0, 1, 1}, {"p256", 213297, 1, 0, 1, 1}, {"p256", 1201043, 1, 0, 1, 1},
	{"p256", 1630400, 1, 0, 1, 1}, {"p256", 2080705, 1, 0, 1, 1}, {"p256", 12162999, 1, 0, 2, 0}, {"p256", 32373524, 1, 0, 2, 0},
	{"p256", 112756, 1, 1, 1, 0}, {"p256", 120908, 1, 1, 1, 0}, {"p256", 299837, 1, 1, 1, 0}, {"p256", 309023, 1, 1, 1, 0}, {"p256", 469651, 1, 1, 1, 0},
	{"p256", 573423, 1, 1, 1, 0}, {"p256", 136425, 1, 1, 1, 1}, {"p256", 274120, 1, 1, 1, 1}, {"p256", 548236, 1, 1, 1, 1}, {"p256", 751504, 1, 1, 1, 1},
	{"p256", 1255310, 1, 1, 1, 1}, {"p256", 1367871, 1, 1, 1, 1}, {"p256", 2442384, 1, 1, 2, 0}, {"p256", 15364378, 1, 1, 2, 0},
	{"p256", 5695146, 1, 1, 2, 1}, {"p256", 11185969, 1, 1, 2, 1}, {"p256", 12191229, 1, 1, 2, 1}, {"p256", 40393, 2, 0, 0, 1},
	{"p256", 209780, 2, 0, 0, 0}, {"p256", 302630, 2, 0, 0, 0}, {"p256", 494690, 2, 0, 0, 1}, {"p256", 573196, 2, 0, 0, 1}, {"p256", 595895, 2, 0, 0, 1},
	{"p256", 116173, 2, 1, 0, 1}, {"p256", 383134, 2, 1, 0, 1}, {"p256", 554009, 2, 1, 0, 0}, {"p256", 669626, 2, 1, 0, 0}, {"p256", 758794, 2, 1, 0, 0},
	{"p256", 796078, 2, 1, 0, 1}, {"p256", 1476301, 3, 0, 0, 1}, {"p256", 12132004, 3, 0, 0, 1},
	// p224: 24 scalars, 8 shapes
	{"p224", 143119, 0, 1, 2, 0}, {"p224", 179483, 0, 0, 2, 0}, {"p224", 217287, 0, 0, 2, 0}, {"p224", 44364, 0, 1, 2, 1}, {"p224", 103027, 0, 0, 2, 1},
	{"p224", 299297, 0, 0, 2, 1}, {"p224", 120360, 1, 0, 1, 0}, {"p224", 481812, 1, 0, 1, 0}, {"p224", 539258, 1, 0, 1, 0}, {"p224", 416538, 1, 0, 1, 1},
	{"p224", 547339, 1, 0, 1, 1}, {"p224", 650385, 1, 0, 1, 1}, {"p224", 60913, 1, 1, 1, 0}, {"p224", 166414, 1, 1, 1, 0}, {"p224", 249074, 1, 1, 1, 0},
	{"p224", 62957, 1, 1, 1, 1}, {"p224", 69587, 1, 1, 1, 1}, {"p224", 244851, 1, 1, 1, 1}, {"p224", 4819, 2, 0, 0, 1}, {"p224", 354421, 2, 0, 0, 1},
	{"p224", 365185, 2, 0, 0, 1}, {"p224", 41550, 2, 1, 0, 1}, {"p224", 42810, 2, 1, 0, 1}, {"p224", 156456, 2, 1, 0, 0},
	// p384: 22 scalars, 8 shapes
	{"p384", 93150, 0, 0, 2, 0}, {"p384", 119438, 0, 0, 2, 0}, {"p384", 279702, 0, 0, 2, 0}, {"p384", 229562, 0, 1, 2, 1}, {"p384", 455379, 0, 0, 2, 1},
	{"p384", 536804, 0, 1, 2, 1}, {"p384", 265846, 1, 0, 1, 0}, {"p384", 416688, 1, 0, 1, 0}, {"p384", 510546, 1, 0, 1, 0}, {"p384", 108595, 1, 0, 1, 1},
	{"p384", 202428, 1, 0, 1, 1}, {"p384", 477455, 1, 0, 1, 1}, {"p384", 385979, 1, 1, 1, 0}, {"p384", 6394, 1, 1, 1, 1}, {"p384", 10184, 1, 1, 1, 1},
	{"p384", 64159, 1, 1, 1, 1}, {"p384", 14971, 2, 0, 0, 0}, {"p384", 381850, 2, 0, 0, 1}, {"p384", 530061, 2, 0, 0, 0}, {"p384", 40603, 2, 1, 0, 0},
	{"p384", 64109, 2, 1, 0, 0}, {"p384", 142047, 2, 1, 0, 1},
	// p521: 26 scalars, 10 shapes
	{"p521", 5037, 1, 0, 2, 0}, {"p521", 9355, 1, 0, 2, 0}, {"p521", 10717, 1, 0, 2, 0}, {"p521", 6003, 1, 0, 2, 1}, {"p521", 11215, 1, 0, 2, 1},
	{"p521", 12074, 1, 0, 2, 1}, {"p521", 13518, 1, 1, 2, 0}, {"p521", 15427, 1, 1, 2, 0}, {"p521", 23727, 1, 1, 2, 0}, {"p521", 10700, 1, 1, 2, 1},
	{"p521", 11344, 1, 1, 2, 1}, {"p521", 13435, 1, 1, 2, 1}, {"p521", 63506, 1, 1, 3, 0}, {"p521", 5980, 2, 0, 1, 0}, {"p521", 6638, 2, 0, 1, 0},
	{"p521", 10307, 2, 0, 1, 0}, {"p521", 2238, 2, 0, 1, 1}, {"p521", 2929, 2, 0, 1, 1}, {"p521", 6349, 2, 0, 1, 1}, {"p521", 819, 2, 1, 1, 0},
	{"p521", 1010, 2, 1, 1, 0}, {"p521", 5227, 2, 1, 1, 0}, {"p521", 351, 2, 1, 1, 1}, {"p521", 8429, 2, 1, 1, 1}, {"p521", 23325, 2, 1, 1, 1},
	{"p521", 10735, 3, 0, 0, 0},
}
