package c07

import (
	"bytes"
	"fmt"
	"strconv"

	"github.com/emmansun/gmsm/sm2"

	"verifh/mon"
	enc "verifh/ref/sm2enc"
)

// c07.long: messages beyond 8160 bytes, i.e. KDF counters from 256 on (second, third counter octet in use), judged
// against the reference in both directions: the library's ciphertext under a scripted k must equal the reference
// ciphertext byte for byte, and the reference ciphertext must be decrypted to the message by the library (a library
// that agrees only with itself passes neither). Lengths are chosen by the number of 32-byte KDF blocks: 255, 256, 257,
// ... blocks, every residue of the block count modulo 8 (8-lane and 4-lane batches and the one-at-a-time remainder),
// 512+, 2048+ blocks; the thorough tier adds more of them and 65536+ blocks (counter octet three) on 64-bit builds.

func longLens(thorough bool) []int {
	l := []int{8160, 8161, 8199, 8289, 12000, 16417, 16550, 65537, 65700}
	if thorough {
		l = append(l, 8192, 8193, 8223, 8224, 8225, 8257, 8321, 8353, 8385, 9000, 10000, 16384, 16385, 20000, 24577, 32773, 40000,
			65535, 65536, 73697, 100000, 131073, 262145)
		if strconv.IntSize > 32 {
			l = append(l, 2097152, 2097153+4*32)
		}
	}
	return l
}

func long(x *mon.Ctx) {
	selfTest(x)
	type cl struct {
		cv   enc.Curve
		lens []int
	}
	all := longLens(x.Thorough())
	plan := []cl{{enc.SM2, all}, {enc.P256, []int{8161, 16417}}, {enc.P384, []int{8199}}, {enc.P521, []int{12000}}, {enc.P224, []int{8289}}}
	if x.Thorough() {
		plan = []cl{{enc.SM2, all}, {enc.P256, all[:12]}, {enc.P384, all[:9]}, {enc.P521, all[:9]}, {enc.P224, all[:9]}}
	}
	contents := []string{"random", "mask", "text", "mask^bit", "zeros"}
	for ci, p := range plan {
		for li, n := range p.lens {
			content := contents[(li+ci)%len(contents)]
			c := x.Begin("long curve=%s len=%d (%d KDF blocks) content=%s", cvName(p.cv), n, (n+31)/32, content)
			if c == nil {
				continue
			}
			c.Class("%s/long/blocks%%8=%d/blocks>=%s/%s", cvName(p.cv), ((n+31)/32)%8, blockClass((n+31)/32), content)
			longCase(c, p.cv, n, content, li)
			c.End()
		}
	}
}

func blockClass(b int) string {
	for _, t := range []int{65536, 2048, 512, 256} {
		if b >= t {
			return fmt.Sprint(t)
		}
	}
	return "0"
}

func longCase(c *mon.Case, cv enc.Curve, n int, content string, pick int) {
	kp := newKey(cv, pickKey(c, cv, "random"))
	k := randScalar(c.R, cv.N())
	_, _, x2, y2, err := enc.Shared(cv, k, kp.px, kp.py)
	if err != nil {
		c.Inconclusive("no shared point: %v", err)
		return
	}
	mask := enc.Mask(cv, x2, y2, n)
	m := pickMsg(c, content, n, mask)
	if content == "mask^bit" {
		// the single one bit of C2 behind KDF block 255
		copy(m, mask)
		i := 8*8160 + c.R.Intn(8*(n-8160)+1)
		if i >= 8*n {
			i = 8*n - 1
		}
		m[i/8] ^= 0x80 >> uint(i%8)
	}
	ct, err := enc.Encrypt(cv, k, kp.px, kp.py, m)
	if err != nil {
		c.Inconclusive("reference encryption not applicable: %v", err)
		return
	}
	o := newOracle(kp)
	o.know(ct)
	big := n > 200000
	// encryption under the scripted k: byte-equal to the reference
	evs := []int{0, 4, 8}
	if !big {
		evs = append(evs, []int{1 + pick%3, 5 + pick%3}...)
	}
	for _, vi := range evs {
		ev := &encVariants[vi]
		var got []byte
		var err error
		mm := append([]byte{}, m...)
		if !c.Call(ev.name, func() { got, err = ev.call(script(c, kBlock(cv, k)), &kp.priv.PublicKey, mm) }) {
			continue
		}
		if err != nil {
			c.Fail("reject", "%s failed on a %d-byte message: %v", ev.name, n, err)
			continue
		}
		c.Event("encryptions", 1)
		c.Event("long_encryptions", 1)
		judgeEnc(c, o, ev, ct, k, got, m)
	}
	// decryption of the reference ciphertext
	type dc struct {
		b   []byte
		dvi int
	}
	asn1 := ct.ASN1()
	list := []dc{{ct.Plain(enc.C1C3C2, enc.Uncompressed), dvDecrypt}, {ct.Plain(enc.C1C2C3, enc.Compressed), dvC1C2C3}, {asn1, dvASN1}}
	if !big {
		list = append(list, dc{ct.Plain(enc.C1C3C2, enc.Compressed), dvNil}, dc{ct.Plain(enc.C1C3C2, enc.Uncompressed), dvC1C3C2}, dc{ct.Plain(enc.C1C2C3, enc.Uncompressed), dvC1C2C3}, dc{asn1, dvNil})
	}
	for _, d := range list {
		pt, ok := o.decrypt(c, "reference ciphertext", d.b, d.dvi)
		c.Event("long_decryptions", 1)
		if ok && !bytes.Equal(pt, m) && !c.Failed() {
			c.Fail("mismatch", "%s: plaintext differs from the message", decVariants[d.dvi].name)
		}
	}
	// one changed bit in C2 behind block 255 / in the last byte: refused
	for _, pos := range []int{8160 + c.R.Intn(n-8160+1), n - 1} {
		if pos >= n {
			pos = n - 1
		}
		mut := ct.Plain(enc.C1C3C2, enc.Uncompressed)
		mut[len(mut)-n+pos] ^= 1 << uint(c.R.Intn(8))
		if _, ok := o.decrypt(c, fmt.Sprintf("bit flipped in byte %d of C2", pos), mut, dvDecrypt); ok {
			c.Event("long_mutant_decrypted", 1)
		} else {
			c.Event("long_mutant_refused", 1)
		}
	}
	// converters carry C2 unchanged whatever its length
	if isSM2(cv) && !big {
		var out []byte
		var err error
		in := append([]byte{}, asn1...)
		if c.Call("ASN1Ciphertext2Plain", func() { out, err = sm2.ASN1Ciphertext2Plain(in, nil) }) {
			if err != nil {
				c.Fail("reject", "ASN1Ciphertext2Plain refused the reference ciphertext of a %d-byte message: %v", n, err)
			} else {
				c.Eq("ASN1Ciphertext2Plain(nil)", out, ct.Plain(enc.C1C3C2, enc.Uncompressed))
			}
		}
		in = ct.Plain(enc.C1C2C3, enc.Compressed)
		if c.Call("PlainCiphertext2ASN1", func() { out, err = sm2.PlainCiphertext2ASN1(in, sm2.C1C2C3) }) {
			if err != nil {
				c.Fail("reject", "PlainCiphertext2ASN1 refused the reference ciphertext of a %d-byte message: %v", n, err)
			} else {
				c.Eq("PlainCiphertext2ASN1(C1C2C3)", out, asn1)
			}
		}
		c.Event("conversions", 2)
	}
}
