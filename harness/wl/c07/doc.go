// Package c07 decides property C07 (SM2 public-key encryption): it executes
// sm2.Encrypt / EncryptASN1 / Decrypt / PrivateKey.Decrypt, the layout converters
// and the enveloped-key helpers next to the reference model verifh/ref/sm2enc
// (GB/T 32918.4 with a harness-chosen ephemeral scalar).
//
// Verdict rule used everywhere a byte string b is handed to a decryption entry
// point E of the library (oracle.judge):
//
//   - if b is, under a layout E is documented for, a canonical serialisation
//     (C1 as 04 or 02/03, DER for ASN.1) of a triple that the reference decryption
//     opens to m, the library must return exactly m ("reject"/"mismatch" otherwise);
//   - if the library returns a plaintext, that plaintext must be what the
//     reference decryption yields for b under one of the layouts, leniently parsed
//     (hybrid C1, BER variants) - anything else is an "accept" violation;
//   - a panic is always a violation.
//
// Nothing more is demanded: refusing a hybrid C1, or accepting one and returning
// the right message, are both fine; so is decrypting an ASN.1 ciphertext although
// plain options were given.
package c07
