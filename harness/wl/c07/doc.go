// Package c07 decides property C07 (SM2 public-key encryption): it executes
// sm2.Encrypt / EncryptASN1 / Decrypt / PrivateKey.Decrypt, the layout converters
// and the enveloped-key helpers next to the reference model verifh/ref/sm2enc
// (GB/T 32918.4 with a harness-chosen ephemeral scalar).
//
// Verdict rule used everywhere a byte string b is handed to a decryption entry
// point E of the library (oracle.judge):
//
//   - if b is, under a layout E is documented for, a canonical serialisation
//     (C1 as 04 or 02/03, DER for ASN.1) of a triple that the reference decryption
//     opens to m, the library must return exactly m ("reject"/"mismatch" otherwise);
//   - if the library returns a plaintext, that plaintext must be what the
//     reference decryption yields for b under one of the layouts, leniently parsed
//     (hybrid C1, BER variants) - anything else is an "accept" violation;
//   - a panic is always a violation.
//
// Nothing more is demanded: refusing a hybrid C1, or accepting one and returning
// the right message, are both fine; so is decrypting an ASN.1 ciphertext although
// plain options were given.
//
// Workloads:
//
//	c07.roundtrip  SM2 curve: every length x contents x key / k kinds, 9 encryption variants byte-equal
//	               to the reference under the scripted k, 5 decryption entry points, wrong key; constructed
//	               corner cases (zero masks, runs of zero masks up to the retry limit, shared points with leading
//	               zero octets, and the table of searched scalars whose C1 has 1..3 leading zero octets in x, y or
//	               both - shapes.go; the same table feeds c07.legacy, c07.curves, c07.convert and c07.envelope)
//	c07.legacy     the same on NIST P-256 keys (math/big path of the library)
//	c07.curves     the same, smaller, on P-224 / P-384 / P-521 keys (other element sizes: 28, 48, 66 bytes),
//	               with the tamper sweep and the hostile families
//	c07.tamper     every single-byte substitution, truncation and two extensions of valid ciphertexts
//	c07.convert    converter chains up to depth 3
//	c07.hostile    hand-made invalid inputs by family; invalid public keys, option values and key objects
//	               for the panic monitor
//	c07.envelope   enveloped-key helpers
//	c07.keyobj     histories on ONE key object: first / second / third use through every entry point, every
//	               constructor, FromECPrivateKey on a used receiver (then: new key works, old key refused),
//	               refused ciphertexts and refused re-keying in between, Sign / Marshal / Encrypt-to-self traffic
//	c07.mixed      histories in ONE process: several key objects on five curves, all KDF input and output
//	               length classes, encryption / decryption / converters / KDF / hash interleaved and played
//	               back to back, long-lived option objects and caller buffers; every step judged by the reference
//	c07.der        structured re-encodings of a valid ASN.1 ciphertext with consistent lengths (negated / lifted /
//	               padded INTEGERs, every length in every long form, extra elements, trailing bytes, other tags,
//	               element order, indefinite and constructed forms, other widths) on five curves, with C1 random,
//	               with leading zero octets and with x1 < 2^bits - p (so that x1+p fits the field width), through the
//	               five decryption entry points, the converters and ParseEnvelopedPrivateKey. Strict accept-set here:
//	               only the canonical DER encoding of a ciphertext the reference opens may yield a plaintext
//	               (the pinned library reads strict DER: all of these families are refused)
//	c07.long       messages of 8160 .. 65700 bytes (thorough: up to 2 MiB): KDF counters beyond 255 / 65535, every
//	               residue of the block count modulo 8; library ciphertext byte-equal to the reference under the
//	               scripted k, reference ciphertext decrypted by the library, in every dispatch configuration
//	c07.buffers    every byte-slice argument of every entry point cut out of an arena with canary-filled spare
//	               capacity and neighbour bytes: arena unchanged after the call, result unchanged after the caller
//	               overwrote the arena and after the later calls of the case, key objects unchanged
package c07
