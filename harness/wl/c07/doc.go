// Package c07 holds the workloads and oracles that decide property C07.
package c07
