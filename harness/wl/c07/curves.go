package c07

import (
	"verifh/mon"
	enc "verifh/ref/sm2enc"
)

// curves: the legacy path on the other NIST prime curves a caller can put into a key
// (P-224, P-384, P-521). Their field elements are 28, 48 and 66 bytes long: every length
// computation of the path (point encodings, the too-short pre-check, splitting C3 / C2, the
// fixed-length x2 || y2 that goes into KDF and hash - 56, 96 and 132 bytes, never a multiple
// of the SM3 block - and the rejection sampling of k for an order that does not fill its
// first byte) takes values there that the 256-bit curves of c07.roundtrip / c07.legacy
// cannot show. The reference is ref/sm2enc over crypto/elliptic. Round trips (all
// encryption variants byte-equal to the reference, all decryption entry points, wrong key),
// the tamper sweep and the hostile families, as for the other curves.
func curves(x *mon.Ctx) {
	selfTest(x)
	lens := []int{1, 2, 32, 33, 97, 128, 225, 256, 1000}
	tlens := []int{1}
	reps := 1
	if x.Thorough() {
		lens = nil
		for n := 1; n <= 70; n++ {
			lens = append(lens, n)
		}
		lens = append(lens, 96, 97, 127, 128, 129, 200, 224, 225, 255, 256, 257, 511, 512, 1000)
		tlens = []int{1, 2, 33, 100}
		reps = 3
	}
	for _, cv := range []enc.Curve{enc.P224, enc.P384, enc.P521} {
		validateShapes(x, cv)
	}
	for _, cv := range []enc.Curve{enc.P224, enc.P384, enc.P521} {
		name := cvName(cv)
		shapeCases(x, cv, []int{1, 2, 31, 32, 33, 100}, 1)
		for rep := 0; rep < reps; rep++ {
			for li, n := range lens {
				for _, zero := range []bool{false, true} {
					content := contentKinds[(li+rep)%len(contentKinds)]
					if zero {
						content = "mask"
					}
					keyKind := keyKinds[(li+5*rep+3)%len(keyKinds)]
					kKind := kKinds[(li+3*rep+2)%len(kKinds)]
					if zero {
						kKind = kKinds[(li+7*rep+5)%len(kKinds)]
					}
					c := x.Begin("curves roundtrip curve=%s len=%d content=%s key=%s k=%s rep=%d", name, n, content, keyKind, kKind, rep)
					if c == nil {
						continue
					}
					c.Class("%s/len=%s/%s/key:%s/k:%s", name, lenClass(n), content, keyKind, kKind)
					rtCase(c, cv, n, content, keyKind, kKind, zero)
					c.End()
				}
			}
			for _, n := range tlens {
				for si := 0; si < 7; si++ {
					c := x.Begin("curves tamper curve=%s len=%d serialisation#%d rep=%d (all substitutions ^01 ^80 =00 =ff, truncations, extensions)", name, n, si, rep)
					if c == nil {
						continue
					}
					tamperCase(c, cv, n, si)
					c.End()
				}
			}
			for _, fam := range hostileFamilies {
				if rep > 0 && (fam == "tiny1" || fam == "tiny2") {
					continue
				}
				c := x.Begin("curves hostile curve=%s family=%s rep=%d", name, fam, rep)
				if c == nil {
					continue
				}
				c.Class("%s/hostile/%s", name, fam)
				hostileCase(c, cv, fam, rep)
				c.End()
			}
		}
	}
}
