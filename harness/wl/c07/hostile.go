package c07

import (
	"bytes"
	"crypto/ecdsa"
	"fmt"
	"math/big"

	"github.com/emmansun/gmsm/sm2"

	"verifh/mon"
	"verifh/ref/ec"
	enc "verifh/ref/sm2enc"
)

type hinput struct {
	name string
	b    []byte
}

// der helpers for hand-made (also deliberately malformed) ASN.1 inputs
func tl(tag byte, v []byte) []byte {
	n := len(v)
	switch {
	case n < 0x80:
		return append([]byte{tag, byte(n)}, v...)
	case n < 0x100:
		return append([]byte{tag, 0x81, byte(n)}, v...)
	}
	return append([]byte{tag, 0x82, byte(n >> 8), byte(n)}, v...)
}

func uintDER(v *big.Int) []byte {
	b := v.Bytes()
	if len(b) == 0 || b[0]&0x80 != 0 {
		b = append([]byte{0}, b...)
	}
	return tl(2, b)
}

func cat(parts ...[]byte) []byte {
	var out []byte
	for _, p := range parts {
		out = append(out, p...)
	}
	return out
}

// forgeFor builds the ciphertext of m for an arbitrary point C1 of the curve using
// the private key ((x2,y2) = [d]C1): what somebody who knows k would have sent.
func forgeFor(kp *keyPair, x1, y1 *big.Int, m []byte) *enc.Ciphertext {
	x2, y2, inf := kp.cv.Mul(kp.d, x1, y1)
	if inf {
		return nil
	}
	t := enc.Mask(kp.cv, x2, y2, len(m))
	c2 := make([]byte, len(m))
	for i := range m {
		c2[i] = m[i] ^ t[i]
	}
	return &enc.Ciphertext{Curve: kp.cv, X1: x1, Y1: y1, C2: c2, C3: enc.Tag(kp.cv, x2, y2, m), X2: x2, Y2: y2}
}

// smallPoint finds the point with the smallest x >= from on the curve.
func smallPoint(cv enc.Curve, from int64) (x, y *big.Int) {
	for v := from; ; v++ {
		x = big.NewInt(v)
		if y, ok := cv.Decompress(x, 0); ok {
			return x, y
		}
	}
}

var hostileFamilies = []string{"tiny1", "tiny2", "tiny3", "short-after-C1", "off-curve", "infinity", "non-canonical", "asn1-structure", "other-point"}

func hostileInputs(c *mon.Case, kp *keyPair, fam string) []hinput {
	cv := kp.cv
	n := cv.ByteLen()
	p := cv.Prime()
	var in []hinput
	add := func(name string, b []byte) { in = append(in, hinput{name, b}) }
	m := c.R.Bytes(1 + c.R.Intn(48))
	k, _, _ := drawK(c, kp, len(m))
	valid := func() *enc.Ciphertext {
		ct, err := enc.Encrypt(cv, k, kp.px, kp.py, m)
		if err != nil {
			return nil
		}
		return ct
	}
	switch fam {
	case "tiny1":
		add("nil", nil)
		add("empty", []byte{})
		for v := 0; v < 256; v++ {
			add(fmt.Sprintf("1 byte %02x", v), []byte{byte(v)})
		}
	case "tiny2":
		for _, h := range []byte{0x00, 0x02, 0x03, 0x04, 0x06, 0x07, 0x30, 0xff} {
			for v := 0; v < 256; v += 1 + 4*int(h&1) {
				add(fmt.Sprintf("2 bytes %02x%02x", h, v), []byte{h, byte(v)})
			}
		}
	case "tiny3":
		for _, b := range [][]byte{{0x30, 0x01, 0x00}, {0x30, 0x80, 0x00}, {0x30, 0x81, 0x01}, {0x30, 0x82, 0xff}, {0x30, 0x84, 0xff}, {0x04, 0, 0}, {0x02, 0, 0}, {0x30, 0x01, 0x02}} {
			add(fmt.Sprintf("3 bytes %x", b), b)
		}
		for i := 0; i < 200; i++ {
			b := c.R.Bytes(3)
			b[0] = []byte{0x30, 0x04, 0x02, 0x03, 0x06, 0x07, 0x00, b[0]}[i%8]
			add(fmt.Sprintf("3 bytes %x", b), b)
		}
	case "short-after-C1":
		// a valid C1 followed by fewer bytes than C3 needs, by exactly C3, by C3 and one byte of junk ...
		ct := valid()
		if ct == nil {
			return nil
		}
		for _, f := range []enc.Form{enc.Uncompressed, enc.Compressed, enc.Hybrid} {
			c1 := ct.Point(f)
			for _, extra := range []int{0, 1, 2, 15, 30, 31, 32, 33, 34, 63, 64, 65} {
				add(fmt.Sprintf("valid %v C1 + %d random bytes", f, extra), cat(c1, c.R.Bytes(extra)))
			}
			for cut := 1; cut < len(c1); cut += 1 + c.R.Intn(5) {
				add(fmt.Sprintf("%v C1 cut to %d bytes", f, cut), c1[:cut])
			}
			// padded so that the whole thing passes a total-length check
			total := 1 + 2*n + 55 // 120 on the 256-bit curves
			for _, cut := range []int{1, n, n + 1, 2 * n} {
				if cut < len(c1) {
					add(fmt.Sprintf("%v C1 cut to %d bytes + zeros up to %d", f, cut, total), cat(c1[:cut], make([]byte, total-cut)))
				}
			}
		}
	case "off-curve":
		ct := valid()
		if ct == nil {
			return nil
		}
		tail := cat(ct.C3, ct.C2)
		x, y := fe(cv, ct.X1), fe(cv, ct.Y1)
		y1 := fe(cv, new(big.Int).Mod(new(big.Int).Add(ct.Y1, big.NewInt(1)), p))
		x1 := fe(cv, new(big.Int).Mod(new(big.Int).Add(ct.X1, big.NewInt(1)), p))
		ff := bytes.Repeat([]byte{0xff}, n)
		zz := make([]byte, n)
		for _, pre := range []byte{4, 6, 7} {
			add(fmt.Sprintf("%02x: y+1", pre), cat([]byte{pre}, x, y1, tail))
			add(fmt.Sprintf("%02x: x+1", pre), cat([]byte{pre}, x1, y, tail))
			add(fmt.Sprintf("%02x: x=y=0", pre), cat([]byte{pre}, zz, zz, tail))
			add(fmt.Sprintf("%02x: x=y=ff..ff", pre), cat([]byte{pre}, ff, ff, tail))
			add(fmt.Sprintf("%02x: x=p", pre), cat([]byte{pre}, fe(cv, p), y, tail))
			add(fmt.Sprintf("%02x: y=p", pre), cat([]byte{pre}, x, fe(cv, p), tail))
			add(fmt.Sprintf("%02x: x,y swapped", pre), cat([]byte{pre}, y, x, tail))
		}
		// compressed: an x without a square root
		for v := new(big.Int).Set(ct.X1); ; v.Add(v, big.NewInt(1)) {
			if _, ok := cv.Decompress(v, 0); !ok && v.Cmp(p) < 0 {
				add("02: x has no square root", cat([]byte{2}, fe(cv, v), tail))
				add("03: x has no square root", cat([]byte{3}, fe(cv, v), tail))
				break
			}
		}
		add("02: x=p", cat([]byte{2}, fe(cv, p), tail))
		add("03: x=ff..ff", cat([]byte{3}, ff, tail))
		// ASN.1
		seq := func(xi, yi *big.Int) []byte {
			return tl(0x30, cat(uintDER(xi), uintDER(yi), tl(4, ct.C3), tl(4, ct.C2)))
		}
		add("asn1: y+1", seq(ct.X1, new(big.Int).SetBytes(y1)))
		add("asn1: x+1", seq(new(big.Int).SetBytes(x1), ct.Y1))
		add("asn1: x,y swapped", seq(ct.Y1, ct.X1))
		add("asn1: x=p", seq(p, ct.Y1))
		add("asn1: y=p", seq(ct.X1, p))
		add("asn1: x=2^256", seq(new(big.Int).Lsh(big.NewInt(1), 256), ct.Y1))
		add("asn1: y=2^256+y", seq(ct.X1, new(big.Int).Add(new(big.Int).Lsh(big.NewInt(1), 256), ct.Y1)))
		add("asn1: x=2^512", seq(new(big.Int).Lsh(big.NewInt(1), 512), ct.Y1))
		add("asn1: x=1,y=1", seq(big.NewInt(1), big.NewInt(1)))
		// invalid-curve forgery: a C1 off the curve lies on some curve y^2 = x^3 - 3x + b'; the affine
		// group law never uses b, so the reference arithmetic yields the very multiple [d]C1 that a
		// decrypter without the on-curve check of step B1 computes, and C2, C3 can be made to fit
		if isSM2(cv) {
			for i := 0; i < 3; i++ {
				bx := new(big.Int).Mod(new(big.Int).Add(ct.X1, big.NewInt(int64(i))), p)
				by := new(big.Int).Mod(new(big.Int).Add(ct.Y1, big.NewInt(1+int64(c.R.Intn(1000)))), p)
				if cv.OnCurve(bx, by) {
					continue
				}
				var fx, fy *big.Int
				if mon.Try(func() {
					r := ec.Mul(kp.d, ec.Point{X: bx, Y: by})
					if !r.Inf {
						fx, fy = r.X, r.Y
					}
				}) != nil || fx == nil {
					continue
				}
				t := enc.Mask(cv, fx, fy, len(m))
				c2 := make([]byte, len(m))
				for j := range m {
					c2[j] = m[j] ^ t[j]
				}
				f := &enc.Ciphertext{Curve: cv, X1: bx, Y1: by, C2: c2, C3: enc.Tag(cv, fx, fy, m)}
				add("invalid-curve forgery, C1C3C2", f.Plain(enc.C1C3C2, enc.Uncompressed))
				add("invalid-curve forgery, C1C2C3", f.Plain(enc.C1C2C3, enc.Uncompressed))
				add("invalid-curve forgery, ASN.1", f.ASN1())
			}
		}
		add("asn1: negative x", tl(0x30, cat(tl(2, append([]byte{0x80}, x[1:]...)), uintDER(ct.Y1), tl(4, ct.C3), tl(4, ct.C2))))
		add("asn1: negative y", tl(0x30, cat(uintDER(ct.X1), tl(2, []byte{0xff}), tl(4, ct.C3), tl(4, ct.C2))))
	case "infinity":
		// what a sender who "encrypts to the point at infinity" would build: (x2,y2) = (0,0)
		zero := big.NewInt(0)
		t := enc.Mask(cv, zero, zero, len(m))
		c2 := make([]byte, len(m))
		for i := range m {
			c2[i] = m[i] ^ t[i]
		}
		c3 := enc.Tag(cv, zero, zero, m)
		zz := make([]byte, n)
		for _, o := range []string{"C3C2", "C2C3"} {
			tail := cat(c3, c2)
			if o == "C2C3" {
				tail = cat(c2, c3)
			}
			add("00 || "+o, cat([]byte{0}, tail))
			add("00 x n || "+o, cat(zz, tail))
			add("00 x (2n+1) || "+o, cat([]byte{0}, zz, zz, tail))
			add("04 || 0 || 0 || "+o, cat([]byte{4}, zz, zz, tail))
			add("02 || 0 || "+o, cat([]byte{2}, zz, tail))
			add("06 || 0 || 0 || "+o, cat([]byte{6}, zz, zz, tail))
		}
		add("asn1 x=0 y=0", tl(0x30, cat(uintDER(zero), uintDER(zero), tl(4, c3), tl(4, c2))))
		add("asn1 x=0 y=0 (empty INTEGERs)", tl(0x30, cat(tl(2, nil), tl(2, nil), tl(4, c3), tl(4, c2))))
		add("asn1 x=p y=p", tl(0x30, cat(uintDER(p), uintDER(p), tl(4, c3), tl(4, c2))))
	case "non-canonical":
		// a valid ciphertext for a C1 with a tiny x, then x replaced by x+p (same residue, not a field element encoding)
		x, y := smallPoint(cv, 1+int64(c.R.Intn(1000)))
		ct := forgeFor(kp, x, y, m)
		if ct == nil {
			return nil
		}
		add("control: canonical small-x C1 (must decrypt)", ct.Plain(enc.C1C3C2, enc.Uncompressed))
		add("control: canonical small-x C1, ASN.1 (must decrypt)", ct.ASN1())
		xp := new(big.Int).Add(x, p)
		if xp.BitLen() <= 8*n {
			for _, pre := range []byte{4, 6 + byte(y.Bit(0))} {
				add(fmt.Sprintf("%02x: x+p", pre), cat([]byte{pre}, fe(cv, xp), fe(cv, y), ct.C3, ct.C2))
			}
			add("02/03: x+p", cat([]byte{2 + byte(y.Bit(0))}, fe(cv, xp), ct.C3, ct.C2))
		}
		add("asn1: x+p", tl(0x30, cat(uintDER(xp), uintDER(y), tl(4, ct.C3), tl(4, ct.C2))))
		add("asn1: y+p", tl(0x30, cat(uintDER(x), uintDER(new(big.Int).Add(y, p)), tl(4, ct.C3), tl(4, ct.C2))))
		add("asn1: y-p (negative)", tl(0x30, cat(uintDER(x), tl(2, twos(new(big.Int).Sub(y, p))), tl(4, ct.C3), tl(4, ct.C2))))
		// optional encodings of the right triple: a decoder may take or refuse them
		add("optional: asn1 x with a superfluous leading zero", tl(0x30, cat(tl(2, append([]byte{0}, uintDER(x)[2:]...)), uintDER(y), tl(4, ct.C3), tl(4, ct.C2))))
		add("optional: asn1 long-form length of C3", tl(0x30, cat(uintDER(x), uintDER(y), append([]byte{4, 0x81, 32}, ct.C3...), tl(4, ct.C2))))
		add("optional: hybrid prefix with the wrong parity", cat([]byte{7 - byte(y.Bit(0))}, fe(cv, x), fe(cv, y), ct.C3, ct.C2))
	case "asn1-structure":
		ct := valid()
		if ct == nil {
			return nil
		}
		X, Y, C3, C2 := uintDER(ct.X1), uintDER(ct.Y1), tl(4, ct.C3), tl(4, ct.C2)
		good := tl(0x30, cat(X, Y, C3, C2))
		add("control: well-formed (must decrypt)", good)
		add("trailing byte after SEQUENCE", cat(good, []byte{0}))
		add("trailing element inside SEQUENCE", tl(0x30, cat(X, Y, C3, C2, []byte{5, 0})))
		add("C2 missing", tl(0x30, cat(X, Y, C3)))
		add("C3 missing", tl(0x30, cat(X, Y, C2)))
		add("y missing", tl(0x30, cat(X, C3, C2)))
		add("C2 empty", tl(0x30, cat(X, Y, C3, tl(4, nil))))
		add("C3 empty", tl(0x30, cat(X, Y, tl(4, nil), C2)))
		add("C3 31 bytes", tl(0x30, cat(X, Y, tl(4, ct.C3[:31]), C2)))
		add("C3 33 bytes", tl(0x30, cat(X, Y, tl(4, append(append([]byte{}, ct.C3...), 0)), C2)))
		add("C2 before C3", tl(0x30, cat(X, Y, C2, C3)))
		add("C3,C2 as BIT STRINGs", tl(0x30, cat(X, Y, tl(3, append([]byte{0}, ct.C3...)), tl(3, append([]byte{0}, ct.C2...)))))
		add("SEQUENCE as SET", append([]byte{0x31}, good[1:]...))
		add("outer length one too long", func() []byte { b := append([]byte{}, good...); b[1]++; return b }())
		add("outer length one too short", func() []byte { b := append([]byte{}, good...); b[1]--; return b }())
		add("indefinite length", cat([]byte{0x30, 0x80}, X, Y, C3, C2, []byte{0, 0}))
		add("nested once more", tl(0x30, good))
		add("only the header", good[:2])
		add("header and x", good[:2+len(X)])
		add("C2 length says 2^31", tl(0x30, cat(X, Y, C3, []byte{4, 0x84, 0x80, 0, 0, 0}, ct.C2)))
		add("plain C1C3C2 prefixed with 30", cat([]byte{0x30}, ct.Plain(enc.C1C3C2, enc.Uncompressed)))
	case "other-point":
		ct := valid()
		if ct == nil {
			return nil
		}
		negY := new(big.Int).Sub(p, ct.Y1)
		swap := func(x1, y1 *big.Int) *enc.Ciphertext {
			return &enc.Ciphertext{Curve: cv, X1: x1, Y1: y1, C2: ct.C2, C3: ct.C3}
		}
		gx, gy, _ := cv.BaseMul(big.NewInt(1))
		for _, v := range []struct {
			name string
			ct   *enc.Ciphertext
		}{{"C1 := -C1", swap(ct.X1, negY)}, {"C1 := G", swap(gx, gy)}, {"C1 := P", swap(kp.px, kp.py)}} {
			for _, s := range serialise(v.ct, true) {
				add(v.name+" "+s.name, s.b)
			}
		}
		// C2 and C3 exchanged / replaced
		r32 := c.R.Bytes(32)
		add("C3 random", (&enc.Ciphertext{Curve: cv, X1: ct.X1, Y1: ct.Y1, C2: ct.C2, C3: r32}).Plain(enc.C1C3C2, enc.Uncompressed))
		add("C3 random, ASN.1", (&enc.Ciphertext{Curve: cv, X1: ct.X1, Y1: ct.Y1, C2: ct.C2, C3: r32}).ASN1())
		add("C3 = hash of C2", (&enc.Ciphertext{Curve: cv, X1: ct.X1, Y1: ct.Y1, C2: ct.C2, C3: enc.Tag(cv, ct.X2, ct.Y2, ct.C2)}).Plain(enc.C1C3C2, enc.Uncompressed))
		add("C2 = message in clear", (&enc.Ciphertext{Curve: cv, X1: ct.X1, Y1: ct.Y1, C2: m, C3: ct.C3}).Plain(enc.C1C3C2, enc.Uncompressed))
		add("C2 one byte longer", (&enc.Ciphertext{Curve: cv, X1: ct.X1, Y1: ct.Y1, C2: append(append([]byte{}, ct.C2...), 0), C3: ct.C3}).ASN1())
	}
	return in
}

func twos(v *big.Int) []byte { // two's complement content octets of a negative integer
	n := v.BitLen()/8 + 1
	mod := new(big.Int).Lsh(big.NewInt(1), uint(8*n))
	return new(big.Int).Add(mod, v).FillBytes(make([]byte, n))
}

func fe(cv enc.Curve, v *big.Int) []byte { return v.FillBytes(make([]byte, cv.ByteLen())) }

// hostile: hand-made invalid inputs for every decryption entry point and every
// converter, on both curves.
func hostile(x *mon.Ctx) {
	selfTest(x)
	reps := x.Scale(2, 12)
	for _, cv := range []enc.Curve{enc.SM2, enc.P256} {
		for _, fam := range hostileFamilies {
			for rep := 0; rep < reps; rep++ {
				if rep > 0 && (fam == "tiny1" || fam == "tiny2") {
					continue // enumerated completely, no randomness
				}
				c := x.Begin("hostile curve=%s family=%s rep=%d", cvName(cv), fam, rep)
				if c == nil {
					continue
				}
				c.Class("%s/hostile/%s", cvName(cv), fam)
				hostileCase(c, cv, fam, rep)
				c.End()
			}
		}
	}
	hostileEncryptSide(x)
	hostileKeyObjects(x)
}

// hostileCase hands every input of one family to every decryption entry point (and, on the
// SM2 curve, to the converters).
func hostileCase(c *mon.Case, cv enc.Curve, fam string, rep int) {
	keyKind := []string{"random", "d0", "d=1", "random"}[rep%4]
	kp := newKey(cv, pickKey(c, cv, keyKind))
	o := newOracle(kp)
	for _, in := range hostileInputs(c, kp, fam) {
		c.Event("hostile_inputs", 1)
		control := len(in.name) > 8 && in.name[:8] == "control:"
		for dvi := range decVariants {
			pt, ok := o.decrypt(c, in.name, in.b, dvi)
			if ok {
				c.Event("hostile_input_decrypted", 1)
			}
			_ = pt
		}
		if control {
			// at least the matched entry point must have taken it (judge enforces it; count it)
			c.Event("controls", 1)
		}
		if isSM2(cv) {
			converters(c, in)
		}
	}
	c.Event("reference_mults", o.mults)
}

// converters runs the three layout converters on an arbitrary byte string under the
// panic monitor. Whether a converter takes or refuses a malformed input is recorded,
// not judged (the property speaks about decryption).
func converters(c *mon.Case, in hinput) {
	type cv struct {
		name string
		f    func(b []byte) ([]byte, error)
	}
	list := []cv{
		{"AdjustCiphertextSplicingOrder(C1C3C2->C1C2C3)", func(b []byte) ([]byte, error) {
			return sm2.AdjustCiphertextSplicingOrder(b, sm2.C1C3C2, sm2.C1C2C3)
		}},
		{"AdjustCiphertextSplicingOrder(C1C2C3->C1C3C2)", func(b []byte) ([]byte, error) {
			return sm2.AdjustCiphertextSplicingOrder(b, sm2.C1C2C3, sm2.C1C3C2)
		}},
		{"AdjustCiphertextSplicingOrder(C1C3C2->C1C3C2)", func(b []byte) ([]byte, error) {
			return sm2.AdjustCiphertextSplicingOrder(b, sm2.C1C3C2, sm2.C1C3C2)
		}},
		{"PlainCiphertext2ASN1(C1C3C2)", func(b []byte) ([]byte, error) { return sm2.PlainCiphertext2ASN1(b, sm2.C1C3C2) }},
		{"PlainCiphertext2ASN1(C1C2C3)", func(b []byte) ([]byte, error) { return sm2.PlainCiphertext2ASN1(b, sm2.C1C2C3) }},
		{"ASN1Ciphertext2Plain(nil)", func(b []byte) ([]byte, error) { return sm2.ASN1Ciphertext2Plain(b, nil) }},
		{"ASN1Ciphertext2Plain(compressed,C1C2C3)", func(b []byte) ([]byte, error) {
			return sm2.ASN1Ciphertext2Plain(b, sm2.NewPlainEncrypterOpts(sm2.MarshalCompressed, sm2.C1C2C3))
		}},
	}
	for _, v := range list {
		b := append([]byte{}, in.b...)
		if in.b == nil {
			b = nil
		}
		var err error
		if callDec(c, nil, in.name+": "+v.name, b, func() { _, err = v.f(b) }) {
			if err != nil {
				c.Event("converter_refused_hostile", 1)
			} else {
				c.Event("converter_took_hostile", 1)
			}
		}
	}
}

// hostileEncryptSide: what is not a key pair or not an option set of the API handed to the
// encryption side. The property quantifies over key pairs and supported layouts, so nothing
// but the absence of a panic is demanded; what the library answers is recorded. (Public keys
// off the curve are given to the SM2-curve path only: crypto/elliptic, which carries the
// legacy path, documents a panic for them.)
func hostileEncryptSide(x *mon.Ctx) {
	for _, cv := range []enc.Curve{enc.SM2, enc.P256} {
		c := x.Begin("hostile curve=%s encryption with invalid public keys and option values outside the exported constants (panic monitor only)", cvName(cv))
		if c == nil {
			continue
		}
		c.Trivial()
		kp := newKey(cv, pickKey(c, cv, "random"))
		p := cv.Prime()
		type pk struct {
			name string
			x, y *big.Int
		}
		pubs := []pk{{"the point (0,0)", big.NewInt(0), big.NewInt(0)}}
		if isSM2(cv) {
			pubs = append(pubs,
				pk{"y+1 (off the curve)", kp.px, new(big.Int).Add(kp.py, big.NewInt(1))},
				pk{"x,y swapped", kp.py, kp.px},
				pk{"x+p", new(big.Int).Add(kp.px, p), kp.py},
				pk{"x=p", p, kp.py},
				pk{"x of 257 bits", new(big.Int).Lsh(big.NewInt(1), 256), kp.py},
				pk{"negative y", kp.px, new(big.Int).Neg(kp.py)},
				pk{"(0, y)", big.NewInt(0), kp.py},
				pk{"(x, 0)", kp.px, big.NewInt(0)})
		}
		for _, q := range pubs {
			for _, vi := range []int{0, 4, 8} {
				ev := &encVariants[vi]
				pub := &ecdsa.PublicKey{Curve: libCurve(cv), X: new(big.Int).Set(q.x), Y: new(big.Int).Set(q.y)}
				m := c.R.Bytes(1 + c.R.Intn(120))
				var got []byte
				var err error
				if callDec(c, kp, fmt.Sprintf("%s to the public key %s", ev.name, q.name), m, func() { got, err = ev.call(script(c, c.R.Bytes(32)), pub, m) }) {
					if err != nil {
						c.Event("invalid_public_key_refused", 1)
					} else {
						c.Event(fmt.Sprintf("invalid_public_key_gave_%d_bytes/%s", len(got)-len(m), q.name), 1)
					}
				}
			}
		}
		// option values beyond the exported constants
		for _, o := range []struct {
			name string
			opts *sm2.EncrypterOpts
		}{
			{"splicing order 2", sm2.NewPlainEncrypterOpts(sm2.MarshalUncompressed, sm2.C1C2C3+1)},
			{"splicing order 255", sm2.NewPlainEncrypterOpts(sm2.MarshalCompressed, sm2.C1C2C3+254)},
			{"marshal mode 3", sm2.NewPlainEncrypterOpts(sm2.MarshalHybrid+1, sm2.C1C3C2)},
			{"marshal mode 255, splicing order 2", sm2.NewPlainEncrypterOpts(sm2.MarshalHybrid+253, sm2.C1C2C3+1)},
		} {
			m := c.R.Bytes(1 + c.R.Intn(120))
			k, _, _ := drawK(c, kp, len(m))
			var got []byte
			var err error
			if !callDec(c, kp, "Encrypt with "+o.name, m, func() { got, err = sm2.Encrypt(script(c, kBlock(cv, k)), &kp.priv.PublicKey, m, o.opts) }) {
				continue
			}
			if err != nil {
				c.Event("invalid_option_refused", 1)
				continue
			}
			c.Event("invalid_option_gave_ciphertext", 1)
			// whatever it is, the decryption side and the converters must survive it (with the same strange order, too)
			for _, d := range []*sm2.DecrypterOpts{nil, sm2.NewPlainDecrypterOpts(sm2.C1C2C3 + 1), sm2.NewPlainDecrypterOpts(sm2.C1C3C2), sm2.NewPlainDecrypterOpts(sm2.C1C2C3)} {
				in := append([]byte{}, got...)
				var pt []byte
				var derr error
				if callDec(c, kp, "PrivateKey.Decrypt of the result of Encrypt with "+o.name, in, func() {
					if d == nil {
						pt, derr = kp.priv.Decrypt(decRand, in, nil)
					} else {
						pt, derr = kp.priv.Decrypt(decRand, in, d)
					}
				}) && derr == nil {
					if bytes.Equal(pt, m) {
						c.Event("invalid_option_ciphertext_decrypted", 1)
					} else if _, ok := newOracle(kp).may(got, pt); !ok {
						c.Detail("ciphertext", got)
						c.Fail("accept", "PrivateKey.Decrypt returned a plaintext that the reference decryption does not find in the ciphertext under any layout (ciphertext from Encrypt with %s)", o.name)
					}
				}
			}
			if isSM2(cv) {
				converters(c, hinput{"result of Encrypt with " + o.name, got})
				in := append([]byte{}, got...)
				callDec(c, kp, "AdjustCiphertextSplicingOrder(2->0)", in, func() { sm2.AdjustCiphertextSplicingOrder(in, sm2.C1C2C3+1, sm2.C1C3C2) })
				callDec(c, kp, "AdjustCiphertextSplicingOrder(0->2)", in, func() { sm2.AdjustCiphertextSplicingOrder(in, sm2.C1C3C2, sm2.C1C2C3+1) })
				callDec(c, kp, "PlainCiphertext2ASN1(2)", in, func() { sm2.PlainCiphertext2ASN1(in, sm2.C1C2C3+1) })
			}
		}
		c.End()
	}
}

// hostileKeyObjects: key objects whose exported scalar is no private key (0, n and above,
// wider than the order) handed to the decryption entry points and to the enveloping
// function. Such an object is not a key pair, so the answer is recorded, not judged;
// a panic is a violation.
func hostileKeyObjects(x *mon.Ctx) {
	for _, cv := range []enc.Curve{enc.SM2, enc.P256} {
		c := x.Begin("hostile curve=%s decryption and enveloping with key objects whose scalar is 0, >= n or wider than n (panic monitor only)", cvName(cv))
		if c == nil {
			continue
		}
		c.Trivial()
		kp := newKey(cv, pickKey(c, cv, "random"))
		n := cv.N()
		m := c.R.Bytes(1 + c.R.Intn(100))
		k, _, _ := drawK(c, kp, len(m))
		ct, err := enc.Encrypt(cv, k, kp.px, kp.py, m)
		if err != nil {
			c.End()
			continue
		}
		two := func(e uint) *big.Int { return new(big.Int).Lsh(big.NewInt(1), e) }
		for _, d := range []struct {
			name string
			v    *big.Int
		}{
			{"0", big.NewInt(0)},
			{"n", new(big.Int).Set(n)},
			{"n+d", new(big.Int).Add(n, kp.d)},
			{"2^256-1", new(big.Int).Sub(two(256), big.NewInt(1))},
			{"2^256", two(256)},
			{"2^256+d", new(big.Int).Add(two(256), kp.d)},
			{"2^300+d", new(big.Int).Add(two(300), kp.d)},
			{"d*2^256", new(big.Int).Lsh(kp.d, 256)},
		} {
			bad := &keyPair{cv: cv, d: d.v, px: kp.px, py: kp.py, priv: newKeyFromPoint(cv, d.v, kp.px, kp.py)}
			for _, s := range serialise(ct, false) {
				for dvi := range decVariants {
					in := append([]byte{}, s.b...)
					var pt []byte
					var derr error
					if callDec(c, bad, fmt.Sprintf("key object with D=%s: %s of %s", d.name, decVariants[dvi].name, s.name), in, func() { pt, derr = decVariants[dvi].call(bad.priv, in) }) {
						switch {
						case derr != nil:
							c.Event("invalid_scalar_decrypt_refused", 1)
						case bytes.Equal(pt, m):
							c.Event("invalid_scalar_decrypt_gave_the_message/D="+d.name, 1) // D = d mod n
						default:
							c.Event("invalid_scalar_decrypt_gave_other_bytes/D="+d.name, 1)
						}
					}
				}
			}
			if isSM2(cv) {
				rcpt := fixedPair()
				var merr error
				if callDec(c, bad, "MarshalEnvelopedPrivateKey of a key object with D="+d.name, nil, func() {
					_, merr = sm2.MarshalEnvelopedPrivateKey(script(c, c.R.Bytes(16), c.R.Bytes(32)), &rcpt.priv.PublicKey, bad.priv)
				}) {
					if merr != nil {
						c.Event("invalid_scalar_envelope_refused", 1)
					} else {
						c.Event("invalid_scalar_envelope_made/D="+d.name, 1)
					}
				}
			}
		}
		if isSM2(cv) {
			// enveloping for a recipient whose public key is the point (0,0)
			var merr error
			zero := &ecdsa.PublicKey{Curve: libCurve(cv), X: big.NewInt(0), Y: big.NewInt(0)}
			if callDec(c, kp, "MarshalEnvelopedPrivateKey for the recipient (0,0)", nil, func() {
				_, merr = sm2.MarshalEnvelopedPrivateKey(script(c, c.R.Bytes(16), c.R.Bytes(32)), zero, kp.priv)
			}) && merr == nil {
				c.Event("envelope_for_recipient_00_made", 1)
			}
		}
		c.End()
	}
}
