package c07

import (
	"bytes"
	"fmt"
	"math/big"

	"verifh/mon"
	"verifh/ref/ec"
	enc "verifh/ref/sm2enc"
)

// serialisation of a reference ciphertext
type ser struct {
	name   string
	b      []byte
	layout enc.Layout
	form   enc.Form
}

func forms(cv enc.Curve, withHybrid bool) []enc.Form {
	f := []enc.Form{enc.Uncompressed, enc.Compressed}
	if withHybrid {
		f = append(f, enc.Hybrid)
	}
	return f
}

func serialise(ct *enc.Ciphertext, withHybrid bool) []ser {
	var out []ser
	for _, f := range forms(ct.Curve, withHybrid) {
		out = append(out,
			ser{"ref/C1C3C2/" + f.String(), ct.Plain(enc.C1C3C2, f), enc.PlainC1C3C2, f},
			ser{"ref/C1C2C3/" + f.String(), ct.Plain(enc.C1C2C3, f), enc.PlainC1C2C3, f})
	}
	return append(out, ser{"ref/ASN.1", ct.ASN1(), enc.ASN1, enc.Uncompressed})
}

// neighbour returns the key pair (d+1, P+G): a wrong key that costs no scalar multiplication.
func neighbour(kp *keyPair) *keyPair {
	d := new(big.Int).Add(kp.d, big.NewInt(1))
	var px, py *big.Int
	if isSM2(kp.cv) {
		s := ec.Add(ec.Point{X: kp.px, Y: kp.py}, ec.G)
		if s.Inf {
			return nil
		}
		px, py = s.X, s.Y
	} else {
		lc := enc.Elliptic(kp.cv)
		p := lc.Params()
		px, py = lc.Add(kp.px, kp.py, p.Gx, p.Gy)
		if px.Sign() == 0 && py.Sign() == 0 {
			return nil
		}
	}
	if d.Cmp(kp.cv.N()) >= 0 || !kp.cv.OnCurve(px, py) {
		return nil
	}
	o := newKey2(kp.cv, d, px, py)
	return o
}

func newKey2(cv enc.Curve, d, px, py *big.Int) *keyPair {
	kp := &keyPair{cv: cv, d: d, px: px, py: py}
	kp.priv = newKeyFromPoint(cv, d, px, py)
	return kp
}

var keyKinds = []string{"random", "random", "random", "random", "random", "d=1", "random", "d=2", "random", "d=n-2", "random", "d=2^255+r", "random", "d<2^64"}
var kKinds = []string{"random", "random", "random", "retry", "random", "k=1", "random", "k=n-1", "random", "k=2", "random", "k=n-2", "random", "k<2^64", "random", "k=2^255+r", "retry0"}
var contentKinds = []string{"random", "zeros", "ff", "text", "mask^bit", "random"}

func pickKey(c *mon.Case, cv enc.Curve, kind string) *big.Int {
	n := cv.N()
	switch kind {
	case "d=1":
		return big.NewInt(1)
	case "d=2":
		return big.NewInt(2)
	case "d=n-2":
		return new(big.Int).Sub(n, big.NewInt(2))
	case "d=2^255+r": // top bit of the order's width (255 on the 256-bit curves)
		v := new(big.Int).SetBytes(c.R.Bytes(16))
		return v.SetBit(v, n.BitLen()-1, 1)
	case "d<2^64":
		return new(big.Int).Add(new(big.Int).SetUint64(c.R.Uint64()), big.NewInt(3))
	case "d0":
		return d0(cv)
	}
	return randScalar(c.R, new(big.Int).Sub(n, big.NewInt(1))) // [1, n-2]
}

// pickK returns the ephemeral scalar and the 32-byte blocks scripted before it
// (blocks that FIPS 186 rejection sampling has to skip).
func pickK(c *mon.Case, cv enc.Curve, kind string) (k *big.Int, skipped [][]byte) {
	n := cv.N()
	switch kind {
	case "k=1":
		return big.NewInt(1), nil
	case "k=2":
		return big.NewInt(2), nil
	case "k=n-1":
		return new(big.Int).Sub(n, big.NewInt(1)), nil
	case "k=n-2":
		return new(big.Int).Sub(n, big.NewInt(2)), nil
	case "k<2^64":
		return new(big.Int).Add(new(big.Int).SetUint64(c.R.Uint64()), big.NewInt(1)), nil
	case "k=2^255+r":
		v := new(big.Int).SetBytes(c.R.Bytes(16))
		return v.SetBit(v, n.BitLen()-1, 1), nil
	case "retry":
		// candidates >= n are not scalars: all ones, n itself, n+1
		nb := (n.BitLen() + 7) / 8
		return randScalar(c.R, n), [][]byte{bytes.Repeat([]byte{0xff}, nb), kBlock(cv, n), kBlock(cv, new(big.Int).Add(n, big.NewInt(1)))}
	case "retry0":
		return randScalar(c.R, n), [][]byte{make([]byte, (n.BitLen()+7)/8)}
	}
	return randScalar(c.R, n), nil
}

func pickMsg(c *mon.Case, kind string, n int, mask []byte) []byte {
	m := make([]byte, n)
	switch kind {
	case "zeros": // C2 = t
	case "ff":
		for i := range m {
			m[i] = 0xff
		}
	case "text":
		const s = "encryption standard "
		for i := range m {
			m[i] = s[i%len(s)]
		}
	case "mask": // m = t: C2 is all zero, a legitimate output of the standard algorithm
		copy(m, mask)
	case "mask^bit": // C2 has a single one bit
		copy(m, mask)
		i := c.R.Intn(8 * n)
		m[i/8] ^= 0x80 >> (i % 8)
	case "mask-head": // first half of C2 zero
		c.R.Fill(m)
		copy(m[:(n+1)/2], mask)
	default:
		c.R.Fill(m)
	}
	return m
}

// rtParams is one fully determined round-trip case.
type rtParams struct {
	kp      *keyPair
	k       *big.Int
	skipped [][]byte // scripted blocks before k that the sampler has to reject
	zeroKs  []*big.Int
	m       []byte
	x1, y1  *big.Int
	x2, y2  *big.Int
}

// runRoundTrip is the body of every positive case: reference encryption with k,
// library encryption in every variant against the scripted k, the decryption
// matrix (every distinct ciphertext x every entry point) and a wrong key.
func runRoundTrip(c *mon.Case, p *rtParams) {
	cv, kp := p.kp.cv, p.kp
	ct, err := enc.Encrypt(cv, p.k, kp.px, kp.py, p.m)
	if err != nil {
		c.Inconclusive("reference encryption not applicable: %v", err)
		return
	}
	o := newOracle(kp)
	o.know(ct)
	sers := serialise(ct, true)
	// the reference must agree with itself before it judges anybody
	for _, s := range sers {
		if s.form == enc.Hybrid {
			continue
		}
		if got, ok := o.must(s.b, &decVariants[matched(s.layout)]); !ok || !bytes.Equal(got, p.m) {
			ctx.HarnessError("reference serialisation %s does not open under the reference (case %d)", s.name, c.N)
		}
	}
	blocks := append(append([][]byte{}, p.skipped...), kBlock(cv, p.k))

	// library encryption, every variant, same scripted k
	type cts struct {
		name string
		b    []byte
	}
	var pool []cts
	add := func(name string, b []byte) {
		for _, e := range pool {
			if bytes.Equal(e.b, b) {
				return
			}
		}
		pool = append(pool, cts{name, b})
	}
	for _, s := range sers {
		add(s.name, s.b)
	}
	for vi := range encVariants {
		ev := &encVariants[vi]
		src := script(c, blocks...)
		var got []byte
		var err error
		m := append([]byte{}, p.m...)
		if !c.Call(ev.name, func() { got, err = ev.call(src, &kp.priv.PublicKey, m) }) {
			continue
		}
		if err != nil {
			c.Fail("reject", "%s failed on a %d-byte message: %v (random source: %d bytes read, budget hit %v)", ev.name, len(p.m), err, src.Consumed(), src.Budget)
			continue
		}
		c.Event("encryptions", 1)
		if !judgeEnc(c, o, ev, ct, p.k, got, p.m) {
			continue
		}
		add(ev.name, got)
	}

	// decryption matrix
	for _, e := range pool {
		for dvi := range decVariants {
			pt, ok := o.decrypt(c, e.name, e.b, dvi)
			if ok && !bytes.Equal(pt, p.m) && !c.Failed() {
				c.Fail("mismatch", "%s via %s: plaintext differs from the message", e.name, decVariants[dvi].name)
			}
		}
	}

	// wrong key: (d+1, P+G)
	if w := neighbour(kp); w != nil {
		ow := newOracle(w)
		for i, e := range pool {
			if i%3 != int(c.N%3) && len(pool) > 3 {
				continue
			}
			for dvi := range decVariants {
				if _, ok := ow.decrypt(c, "wrong key d+1, "+e.name, e.b, dvi); ok {
					c.Event("wrong_key_accepted", 1)
				} else {
					c.Event("wrong_key_refused", 1)
				}
			}
		}
		c.Event("reference_mults_for_wrong_key", ow.mults)
	}
}

func roundtrip(x *mon.Ctx, cv enc.Curve) {
	selfTest(x)
	validateShapes(x, cv)
	name := cvName(cv)
	reps := x.Scale(1, 30)
	if !isSM2(cv) {
		reps = x.Scale(1, 12)
	}
	lens := msgLens(x.Thorough())
	for rep := 0; rep < reps; rep++ {
		for li, n := range lens {
			for _, zero := range []bool{false, true} {
				content := contentKinds[(li+rep)%len(contentKinds)]
				if zero {
					content = "mask"
				}
				keyKind := keyKinds[(li+5*rep)%len(keyKinds)]
				kKind := kKinds[(li+3*rep)%len(kKinds)]
				if zero {
					kKind = kKinds[(li+7*rep+4)%len(kKinds)]
				}
				c := x.Begin("roundtrip curve=%s len=%d content=%s key=%s k=%s rep=%d", name, n, content, keyKind, kKind, rep)
				if c == nil {
					continue
				}
				c.Class("%s/len=%s/%s/key:%s/k:%s", name, lenClass(n), content, keyKind, kKind)
				rtCase(c, cv, n, content, keyKind, kKind, zero)
				c.End()
			}
		}
	}
	special(x, cv)
}

// judgeEnc judges one ciphertext got that the library made for the message m under the
// variant ev while the scripted random source offered k: if the library used k (its C1 is
// the reference's) the ciphertext is determined and must equal the reference ciphertext ct
// in (one of) the requested serialisation(s); otherwise the reference decryption must open
// it to m. It returns false when got is not even a well-formed ciphertext of the layout.
func judgeEnc(c *mon.Case, o *oracle, ev *encVariant, ct *enc.Ciphertext, k *big.Int, got, m []byte) bool {
	cv := o.kp.cv
	t, perr := enc.Parse(cv, got, ev.layout)
	if perr != nil {
		c.Detail("ciphertext", got)
		c.Fail("mismatch", "%s: output is not a well-formed %v ciphertext", ev.name, ev.layout)
		return false
	}
	if t.X1.Cmp(ct.X1) == 0 && t.Y1.Cmp(ct.Y1) == 0 {
		// the library used the scripted k: the ciphertext is determined
		c.Event("compare", 1)
		okb := false
		var want []byte
		if ev.layout == enc.ASN1 {
			want = ct.ASN1()
			okb = bytes.Equal(got, want)
		} else {
			for _, f := range ev.forms {
				w := ct.Plain(enc.Order(ev.layout), f)
				if want == nil {
					want = w
				}
				okb = okb || bytes.Equal(got, w)
			}
		}
		if okb {
			c.Event("ciphertext_equals_reference", 1)
		} else {
			c.Eq(ev.name+" with k="+fmt.Sprintf("%x", k), got, want)
		}
	} else {
		// other derivation of k from the random bytes: judge by the reference decryption alone
		c.Event("library_used_other_k", 1)
		if m2, e := o.open(t); e != nil || !bytes.Equal(m2, m) {
			c.Detail("ciphertext", got)
			c.Fail("mismatch", "%s: the reference decryption does not open the library's ciphertext to the message", ev.name)
		}
	}
	return true
}

// rtCase is one round-trip case: key, ephemeral scalar and message of the given kinds
// (zero: the message equals the mask, so that C2 is all zero), then runRoundTrip.
func rtCase(c *mon.Case, cv enc.Curve, n int, content, keyKind, kKind string, zero bool) {
	kp := newKey(cv, pickKey(c, cv, keyKind))
	k, skipped := pickK(c, cv, kKind)
	_, _, x2, y2, err := enc.Shared(cv, k, kp.px, kp.py)
	for try := 0; err == nil && allZero(enc.Mask(cv, x2, y2, n)) && try < 8; try++ {
		// (probability 2^-8n) the mask of this k is all zero: the standard restarts,
		// so the library has to skip this block of the stream too
		c.Event("zero_mask_restarts", 1)
		skipped = append(skipped, kBlock(cv, k))
		k = randScalar(c.R, cv.N())
		_, _, x2, y2, err = enc.Shared(cv, k, kp.px, kp.py)
	}
	if err != nil {
		c.Inconclusive("no shared point: %v", err)
		return
	}
	m := pickMsg(c, content, n, enc.Mask(cv, x2, y2, n))
	runRoundTrip(c, &rtParams{kp: kp, k: k, skipped: skipped, m: m})
	if zero {
		c.Event("all_zero_C2_ciphertexts", 1)
	}
}

// special enumerates the constructed corner cases: coordinates with leading zero
// bytes, ephemeral scalars whose mask is all zero, the empty message.
func special(x *mon.Ctx, cv enc.Curve) {
	name := cvName(cv)
	sp := specialK[name]
	lens := []int{1, 2, 31, 32, 33, 100}
	if x.Thorough() {
		lens = []int{1, 2, 3, 16, 31, 32, 33, 63, 64, 65, 100, 200, 256}
	}
	type grp struct {
		label  string
		ks     []int64
		keyd0  bool
		expect func(x1, y1, x2, y2 *big.Int) bool
	}
	lz := func(v *big.Int) bool { return v.BitLen() <= 248 }
	zz := func(v *big.Int) bool { return v.BitLen() <= 240 }
	groups := []grp{
		{"x1-leading-zero", sp.x1lz, false, func(x1, y1, x2, y2 *big.Int) bool { return lz(x1) }},
		{"y1-leading-zero", sp.y1lz, false, func(x1, y1, x2, y2 *big.Int) bool { return lz(y1) }},
		{"x2-leading-zero", sp.x2lz, true, func(x1, y1, x2, y2 *big.Int) bool { return lz(x2) }},
		{"y2-leading-zero", sp.y2lz, true, func(x1, y1, x2, y2 *big.Int) bool { return lz(y2) }},
		{"x2-two-leading-zeros", sp.x2zz, true, func(x1, y1, x2, y2 *big.Int) bool { return zz(x2) }},
		{"y2-two-leading-zeros", sp.y2zz, true, func(x1, y1, x2, y2 *big.Int) bool { return zz(y2) }},
	}
	for gi, g := range groups {
		for ki, kv := range g.ks {
			for li, n := range lens {
				if gi >= 4 && !x.Thorough() && li%2 != ki%2 {
					continue // the two-zero groups: every other length per scalar in the quick tier
				}
				content := []string{"random", "mask", "mask-head"}[(li+int(kv))%3]
				c := x.Begin("special curve=%s %s k=%d len=%d content=%s", name, g.label, kv, n, content)
				if c == nil {
					continue
				}
				c.Class("%s/special/%s/len=%s/%s", name, g.label, lenClass(n), content)
				keyKind := "random"
				if g.keyd0 {
					keyKind = "d0"
				}
				kp := newKey(cv, pickKey(c, cv, keyKind))
				k := big.NewInt(kv)
				x1, y1, x2, y2, err := enc.Shared(cv, k, kp.px, kp.py)
				if err != nil || !g.expect(x1, y1, x2, y2) {
					x.HarnessError("special scalar k=%d on %s does not give %s under the reference", kv, name, g.label)
				}
				m := pickMsg(c, content, n, enc.Mask(cv, x2, y2, n))
				runRoundTrip(c, &rtParams{kp: kp, k: k, m: m})
				c.Event("special/"+g.label, 1)
				c.End()
			}
		}
	}

	shapeCases(x, cv, lens, 3)

	// all-zero mask: A5 restarts, B4 refuses
	type zk struct {
		k    int64
		zlen int
	}
	var zks []zk
	for _, k := range sp.t1z {
		zks = append(zks, zk{k, 1})
	}
	for _, k := range sp.t2z {
		zks = append(zks, zk{k, 1}, zk{k, 2})
	}
	for _, z := range zks {
		for _, mode := range []string{"encrypt-restarts", "decrypt-refuses", "longer-message"} {
			c := x.Begin("special curve=%s zero-mask k=%d klen=%d %s", name, z.k, z.zlen, mode)
			if c == nil {
				continue
			}
			c.Class("%s/special/zero-mask/klen=%d/%s", name, z.zlen, mode)
			kp := newKey(cv, d0(cv))
			kbad := big.NewInt(z.k)
			x1, y1, x2, y2, err := enc.Shared(cv, kbad, kp.px, kp.py)
			if err != nil || !allZero(enc.Mask(cv, x2, y2, z.zlen)) {
				x.HarnessError("special scalar k=%d on %s does not give an all-zero %d-byte mask under the reference", z.k, name, z.zlen)
			}
			m := c.R.Bytes(z.zlen)
			if _, err := enc.Encrypt(cv, kbad, kp.px, kp.py, m); err != enc.ErrZeroMask {
				x.HarnessError("reference encryptor did not report the restart for k=%d", z.k)
			}
			switch mode {
			case "encrypt-restarts":
				// the library has to discard kbad and use the next scalar of the stream
				kgood := randScalar(c.R, cv.N())
				runRoundTrip(c, &rtParams{kp: kp, k: kgood, skipped: [][]byte{kBlock(cv, kbad)}, m: m})
				c.Event("zero_mask_restarts", 1)
			case "decrypt-refuses":
				// the would-be ciphertext for kbad: C2 = m xor 0, C3 = Hash(x2||m||y2). Step B4 refuses it.
				forged := &enc.Ciphertext{Curve: cv, X1: x1, Y1: y1, C2: append([]byte{}, m...), C3: enc.Tag(cv, x2, y2, m), X2: x2, Y2: y2}
				o := newOracle(kp)
				o.know(forged)
				for _, s := range serialise(forged, true) {
					for dvi := range decVariants {
						if _, ok := o.decrypt(c, "zero-mask "+s.name, s.b, dvi); ok {
							c.Event("zero_mask_ciphertext_accepted", 1)
						} else {
							c.Event("zero_mask_ciphertext_refused", 1)
						}
					}
				}
			case "longer-message":
				// with one more byte the mask is not all zero any more: an ordinary ciphertext whose mask starts with zeros
				n := z.zlen + 1 + c.R.Intn(40)
				mm := pickMsg(c, []string{"random", "mask", "zeros"}[c.R.Intn(3)], n, enc.Mask(cv, x2, y2, n))
				if allZero(enc.Mask(cv, x2, y2, n)) {
					c.Inconclusive("mask still all zero at %d bytes", n)
				} else {
					runRoundTrip(c, &rtParams{kp: kp, k: kbad, m: mm})
				}
			}
			c.End()
		}
	}

	// a run of scalars with an all-zero mask: step A5 restarts every time. A library may give up after some
	// number of restarts of its own choosing (an error is no ciphertext); what it must not do is loop without
	// bound, panic, or hand out a ciphertext that does not open to the message.
	if len(sp.t1z) > 0 {
		for _, nbad := range []int{2, 99, 100, 101, 130} {
			for _, vi := range []int{0, 4, 8} {
				ev := &encVariants[vi]
				c := x.Begin("special curve=%s run of %d scalars with an all-zero 1-byte mask, then a good one, %s", name, nbad, ev.name)
				if c == nil {
					continue
				}
				c.Class("%s/special/zero-mask-run/%d", name, nbad)
				kp := newKey(cv, d0(cv))
				for _, kv := range sp.t1z {
					if _, _, x2, y2, err := enc.Shared(cv, big.NewInt(kv), kp.px, kp.py); err != nil || !allZero(enc.Mask(cv, x2, y2, 1)) {
						x.HarnessError("special scalar k=%d on %s does not give an all-zero 1-byte mask under the reference", kv, name)
					}
				}
				var blocks [][]byte
				for i := 0; i < nbad; i++ {
					blocks = append(blocks, kBlock(cv, big.NewInt(sp.t1z[(i+int(c.N))%len(sp.t1z)])))
				}
				m := c.R.Bytes(1)
				kgood, _, _ := drawK(c, kp, 1)
				ct, err := enc.Encrypt(cv, kgood, kp.px, kp.py, m)
				if err != nil {
					x.HarnessError("reference encryption failed for a scalar with a non-zero mask: %v", err)
				}
				o := newOracle(kp)
				o.know(ct)
				src := script(c, append(blocks, kBlock(cv, kgood))...)
				var got []byte
				if c.Call(ev.name, func() { got, err = ev.call(src, &kp.priv.PublicKey, append([]byte{}, m...)) }) {
					switch {
					case src.Budget:
						c.Fail("hang", "%s: unbounded restart: more than %d random bytes consumed after a run of %d zero-mask scalars", ev.name, src.MaxBytes, nbad)
					case err != nil && nbad <= 2:
						c.Fail("reject", "%s gave up after %d restarts: %v", ev.name, nbad, err)
					case err != nil:
						c.Event(fmt.Sprintf("gave_up_after_zero_mask_run/%d", nbad), 1)
					default:
						c.Event(fmt.Sprintf("survived_zero_mask_run/%d", nbad), 1)
						if judgeEnc(c, o, ev, ct, kgood, got, m) {
							if pt, ok := o.decrypt(c, "ciphertext after the run", got, matched(ev.layout)); !ok || !bytes.Equal(pt, m) {
								if !c.Failed() {
									c.Fail("reject", "%s: the ciphertext made after %d restarts does not decrypt to the message", ev.name, nbad)
								}
							}
						}
					}
				}
				c.End()
			}
		}
	}

	// empty message: outside the property ("every non-empty message"); executed for the panic monitor only
	for _, vi := range []int{0, 3, 7, 8} {
		ev := &encVariants[vi]
		c := x.Begin("special curve=%s empty message %s", name, ev.name)
		if c == nil {
			continue
		}
		c.Trivial()
		kp := newKey(cv, d0(cv))
		for _, m := range [][]byte{nil, {}} {
			var got []byte
			var err error
			if c.Call(ev.name+"(empty)", func() { got, err = ev.call(script(c, c.R.Bytes(32)), &kp.priv.PublicKey, m) }) {
				switch {
				case err != nil:
					c.Event("empty_message_refused", 1)
				case len(got) == 0:
					c.Event("empty_message_gives_empty_ciphertext", 1)
				default:
					c.Event("empty_message_gives_ciphertext", 1)
				}
			}
		}
		c.End()
	}
}

func allZero(b []byte) bool {
	for _, v := range b {
		if v != 0 {
			return false
		}
	}
	return true
}
