package c07

import (
	"bytes"
	"fmt"
	"math/big"

	"github.com/emmansun/gmsm/sm2"

	"verifh/mon"
	enc "verifh/ref/sm2enc"
	refsm4 "verifh/ref/sm4"
)

// SM2EnvelopedKey ::= SEQUENCE { symAlgID AlgorithmIdentifier, symEncryptedKey SM2Cipher,
// sm2PublicKey BIT STRING, sm2EncryptedPrivateKey BIT STRING }  (GB/T 35276-2017 7.4)
var algSM4ECB = []byte{0x30, 0x0c, 0x06, 0x08, 0x2a, 0x81, 0x1c, 0xcf, 0x55, 0x01, 0x68, 0x01, 0x05, 0x00} // 1.2.156.10197.1.104.1, NULL

func ecbEncrypt(key, in []byte) []byte {
	ci := refsm4.New(key)
	out := make([]byte, len(in))
	for i := 0; i+16 <= len(in); i += 16 {
		ci.Encrypt(out[i:], in[i:])
	}
	return out
}

// refEnvelope builds the enveloped key with the reference primitives.
func refEnvelope(symCipher []byte, inner *keyPair, encD []byte) []byte {
	pub := cat([]byte{4}, b32(inner.px), b32(inner.py))
	return tl(0x30, cat(algSM4ECB, symCipher, tl(3, append([]byte{0}, pub...)), tl(3, append([]byte{0}, encD...))))
}

func parseEnv(c *mon.Case, what string, rcpt *keyPair, env []byte) (*sm2.PrivateKey, error, bool) {
	var k *sm2.PrivateKey
	var err error
	in := append([]byte{}, env...)
	ok := callDec(c, rcpt, what+": ParseEnvelopedPrivateKey", in, func() { k, err = sm2.ParseEnvelopedPrivateKey(rcpt.priv, in) })
	return k, err, ok
}

func sameKey(k *sm2.PrivateKey, kp *keyPair) bool {
	return k != nil && k.D != nil && k.X != nil && k.Y != nil && k.D.Cmp(kp.d) == 0 && k.X.Cmp(kp.px) == 0 && k.Y.Cmp(kp.py) == 0
}

// envelope: MarshalEnvelopedPrivateKey / ParseEnvelopedPrivateKey round trip with a
// scripted random source, envelopes built by the reference, and the tamper sweep.
func envelope(x *mon.Ctx) {
	selfTest(x)
	if err := refsm4.SelfTest(false); err != nil {
		x.HarnessError("%v", err)
	}
	cv := enc.SM2
	validateShapes(x, cv)
	innerKinds := []string{"random", "d=1", "d=2", "d=n-2", "d<2^64", "random", "d=2^255+r", "random"}
	reps := x.Scale(16, 200)
	sweepEvery := x.Scale(4, 5)
	for rep := 0; rep < reps; rep++ {
		ik := innerKinds[rep%len(innerKinds)]
		sweep := rep%sweepEvery == 0
		c := x.Begin("envelope inner-key=%s rep=%d sweep=%v", ik, rep, sweep)
		if c == nil {
			continue
		}
		c.Class("envelope/inner:%s/sweep=%v", ik, sweep)
		envCase(c, cv, ik, sweep, nil)
		c.End()
	}
	// ephemeral scalars whose C1 has coordinates with leading zero octets (short DER INTEGERs inside the SM2Cipher)
	for i, sh := range shapesOf("sm2") {
		if !x.Thorough() && sh.rank > 1 {
			continue
		}
		ik := innerKinds[i%len(innerKinds)]
		c := x.Begin("envelope inner-key=%s ephemeral scalar k=%d with C1 shape %s", ik, sh.k, sh.label())
		if c == nil {
			continue
		}
		c.Class("envelope/inner:%s/C1-shape:%s", ik, sh.label())
		envCase(c, cv, ik, false, big.NewInt(sh.k))
		c.Event("envelope_with_shaped_C1", 1)
		c.End()
	}
	// tiny inputs
	c := x.Begin("envelope tiny inputs (nil, empty, every 1-byte string, 30 xx, 3 random bytes)")
	if c != nil {
		c.Class("envelope/tiny")
		rcpt := newKey(cv, d0SM2)
		ins := [][]byte{nil, {}}
		for v := 0; v < 256; v++ {
			ins = append(ins, []byte{byte(v)}, []byte{0x30, byte(v)}, append([]byte{0x30}, c.R.Bytes(2)...), c.R.Bytes(3))
		}
		for _, in := range ins {
			c.Event("envelope_tiny_inputs", 1)
			if _, e, ok := parseEnv(c, fmt.Sprintf("tiny %x", in), rcpt, in); ok && e == nil {
				c.Fail("accept", "ParseEnvelopedPrivateKey accepted %x", in)
			}
		}
		c.End()
	}
}

// envCase is one enveloped-key case: round trip of the library's envelope, the same envelope built
// with the reference primitives, wrong recipient, malformed but well-structured envelopes and (sweep)
// every single-byte mutant. k is the ephemeral scalar offered to MarshalEnvelopedPrivateKey (nil: random).
func envCase(c *mon.Case, cv enc.Curve, ik string, sweep bool, k *big.Int) {
	rcpt := newKey(cv, pickKey(c, cv, "random"))
	inner := newKey(cv, pickKey(c, cv, ik))
	sym := c.R.Bytes(16)
	if k == nil {
		k = randScalar(c.R, cv.N())
	}
	src := script(c, sym, b32(k))
	var env []byte
	var err error
	if !c.Call("MarshalEnvelopedPrivateKey", func() { env, err = sm2.MarshalEnvelopedPrivateKey(src, &rcpt.priv.PublicKey, inner.priv) }) {
		return
	}
	if err != nil {
		c.Fail("reject", "MarshalEnvelopedPrivateKey failed: %v", err)
		return
	}
	// round trip
	got, perr, ok := parseEnv(c, "library envelope", rcpt, env)
	if ok {
		switch {
		case perr != nil:
			c.Detail("envelope", env)
			c.Fail("reject", "ParseEnvelopedPrivateKey refused the library's own envelope: %v", perr)
		case !sameKey(got, inner):
			c.Fail("mismatch", "ParseEnvelopedPrivateKey returned another key than the enveloped one")
		default:
			c.Event("envelope_roundtrips", 1)
		}
	}
	// the same envelope built by the reference (same symmetric key, same k)
	ct, rerr := enc.Encrypt(cv, k, rcpt.px, rcpt.py, sym)
	if rerr != nil {
		c.Inconclusive("reference encryption not applicable: %v", rerr)
		return
	}
	encD := ecbEncrypt(sym, b32(inner.d))
	renv := refEnvelope(ct.ASN1(), inner, encD)
	if bytes.Equal(renv, env) {
		c.Event("envelope_equals_reference", 1)
	} else {
		c.Event("envelope_differs_from_reference", 1) // recorded, not judged: the property is the round trip
	}
	got, perr, ok = parseEnv(c, "reference envelope", rcpt, renv)
	if ok {
		switch {
		case perr != nil:
			c.Detail("envelope", renv)
			c.Fail("reject", "ParseEnvelopedPrivateKey refused an envelope built with the reference primitives: %v", perr)
		case !sameKey(got, inner):
			c.Fail("mismatch", "ParseEnvelopedPrivateKey returned another key than the one in the reference envelope")
		default:
			c.Event("reference_envelopes_opened", 1)
		}
	}
	// wrong recipient
	if w := neighbour(rcpt); w != nil {
		if g, e, ok := parseEnv(c, "wrong recipient", w, env); ok && e == nil {
			c.Fail("accept", "ParseEnvelopedPrivateKey succeeded with the wrong recipient key (returned enveloped key: %v)", sameKey(g, inner))
		} else if ok {
			c.Event("wrong_recipient_refused", 1)
		}
	}
	// malformed but well-structured envelopes: sizes taken from hostile bytes must not crash the parser
	for _, v := range []struct {
		name string
		env  []byte
	}{
		{"encrypted private key empty", refEnvelope(ct.ASN1(), inner, nil)},
		{"encrypted private key 16 bytes", refEnvelope(ct.ASN1(), inner, encD[:16])},
		{"encrypted private key 48 bytes (padded ECB)", refEnvelope(ct.ASN1(), inner, ecbEncrypt(sym, append(b32(inner.d), bytes.Repeat([]byte{16}, 16)...)))},
		{"encrypted private key 31 bytes", refEnvelope(ct.ASN1(), inner, encD[:31])},
		{"encrypted private key 33 bytes", refEnvelope(ct.ASN1(), inner, append(append([]byte{}, encD...), 0))},
		{"encrypted private key 1 byte", refEnvelope(ct.ASN1(), inner, encD[:1])},
		{"symmetric key 15 bytes", envWithSym(cv, rcpt, inner, k, sym[:15], encD)},
		{"symmetric key 17 bytes", envWithSym(cv, rcpt, inner, k, append(append([]byte{}, sym...), 1), encD)},
		{"symmetric key 32 bytes", envWithSym(cv, rcpt, inner, k, append(append([]byte{}, sym...), sym...), encD)},
		{"symmetric key 1 byte", envWithSym(cv, rcpt, inner, k, sym[:1], encD)},
		{"public key of another pair", refEnvelope(ct.ASN1(), rcpt, encD)},
		{"public key compressed", tl(0x30, cat(algSM4ECB, ct.ASN1(), tl(3, cat([]byte{0, 2 + byte(inner.py.Bit(0))}, b32(inner.px))), tl(3, append([]byte{0}, encD...))))},
		{"public key empty", tl(0x30, cat(algSM4ECB, ct.ASN1(), tl(3, []byte{0}), tl(3, append([]byte{0}, encD...))))},
		{"bit strings without the unused-bits octet", tl(0x30, cat(algSM4ECB, ct.ASN1(), tl(3, nil), tl(3, nil)))},
		{"plain (non ASN.1) SM2 ciphertext inside", tl(0x30, cat(algSM4ECB, ct.Plain(enc.C1C3C2, enc.Uncompressed), tl(3, append([]byte{0}, b32(inner.px)...)), tl(3, append([]byte{0}, encD...))))},
	} {
		if v.env == nil {
			continue
		}
		c.Event("malformed_envelopes", 1)
		g, e, ok := parseEnv(c, v.name, rcpt, v.env)
		if ok && e == nil && !sameKey(g, inner) {
			c.Detail("envelope", v.env)
			c.Fail("accept", "%s: ParseEnvelopedPrivateKey returned a key that is not the enveloped one", v.name)
		} else if ok && e == nil {
			c.Event("malformed_envelope_gave_right_key", 1)
		} else if ok {
			c.Event("malformed_envelope_refused", 1)
		}
	}
	if sweep {
		// every single-byte substitution and truncation: an error or the right key, never a panic
		try := func(what string, mut []byte) {
			if bytes.Equal(mut, env) {
				return
			}
			c.Event("envelope_mutants", 1)
			g, e, ok := parseEnv(c, what, rcpt, mut)
			switch {
			case !ok:
			case e != nil:
				c.Event("envelope_mutant_refused", 1)
			case sameKey(g, inner):
				c.Event("envelope_mutant_gave_right_key", 1)
			default:
				c.Detail("envelope", mut)
				c.Fail("accept", "%s: ParseEnvelopedPrivateKey returned a key that is not the enveloped one", what)
			}
		}
		for i := range env {
			for _, v := range []byte{env[i] ^ 1, env[i] ^ 0x80, 0, 0xff} {
				mut := append([]byte{}, env...)
				mut[i] = v
				try(fmt.Sprintf("byte %d of %d set to %02x", i, len(env), v), mut)
			}
		}
		for l := 0; l < len(env); l++ {
			try(fmt.Sprintf("truncated to %d of %d bytes", l, len(env)), env[:l])
		}
		try("extended by 00", append(append([]byte{}, env...), 0))
	}
}

// envWithSym builds an envelope whose SM2Cipher decrypts to an arbitrary byte string.
func envWithSym(cv enc.Curve, rcpt, inner *keyPair, k *big.Int, sym, encD []byte) []byte {
	ct, err := enc.Encrypt(cv, k, rcpt.px, rcpt.py, sym)
	if err != nil {
		return nil
	}
	return refEnvelope(ct.ASN1(), inner, encD)
}
