package c07

import (
	"bytes"
	"fmt"

	"verifh/mon"
	enc "verifh/ref/sm2enc"
)

// part labels every byte offset of a serialised ciphertext with the component it belongs to.
func partsPlain(cv enc.Curve, b []byte, o enc.Order, c2len int) []string {
	c1 := len(b) - 32 - c2len
	p := make([]string, len(b))
	for i := range p {
		switch {
		case i == 0:
			p[i] = "C1.prefix"
		case i < c1:
			p[i] = "C1"
		case o == enc.C1C3C2 && i < c1+32, o == enc.C1C2C3 && i >= c1+c2len:
			p[i] = "C3"
		default:
			p[i] = "C2"
		}
	}
	return p
}

func partsASN1(b []byte) []string {
	p := make([]string, len(b))
	hdr := func(at int) (hl, l int) { // length of tag+length octets, content length
		if b[at+1] < 0x80 {
			return 2, int(b[at+1])
		}
		nb := int(b[at+1] & 0x7f)
		for _, v := range b[at+2 : at+2+nb] {
			l = l<<8 | int(v)
		}
		return 2 + nb, l
	}
	hl, _ := hdr(0)
	for i := 0; i < hl; i++ {
		p[i] = "SEQ.tl"
	}
	at := hl
	for _, name := range []string{"C1.x", "C1.y", "C3", "C2"} {
		h, l := hdr(at)
		for i := 0; i < h; i++ {
			p[at+i] = name + ".tl"
		}
		for i := 0; i < l; i++ {
			p[at+h+i] = name
		}
		at += h + l
	}
	return p
}

// tamper: every single-byte substitution (4 values per offset), every truncation and
// two extensions of valid ciphertexts in every layout, on both curves; the library's
// answer to each is judged by the reference decryption.
func tamper(x *mon.Ctx) {
	selfTest(x)
	lens := []int{1, 2, 16, 32, 33, 64, 100}
	reps := 1
	if x.Thorough() {
		lens = nil
		for n := 1; n <= 40; n++ {
			lens = append(lens, n)
		}
		lens = append(lens, 63, 64, 65, 100, 128, 200, 255, 256, 300)
		reps = 2
	}
	for _, cv := range []enc.Curve{enc.SM2, enc.P256} {
		nser := 5 // C1C3C2, C1C2C3 x uncompressed, compressed; ASN.1
		if !isSM2(cv) {
			nser = 7 // + hybrid C1, which the legacy path produces and reads
		}
		for rep := 0; rep < reps; rep++ {
			for _, n := range lens {
				for si := 0; si < nser; si++ {
					c := x.Begin("tamper curve=%s len=%d serialisation#%d rep=%d (all substitutions ^01 ^80 =00 =ff, truncations, extensions)", cvName(cv), n, si, rep)
					if c == nil {
						continue
					}
					tamperCase(c, cv, n, si)
					c.End()
				}
			}
		}
	}
}

func tamperCase(c *mon.Case, cv enc.Curve, n, si int) {
	kp := newKey(cv, pickKey(c, cv, "random"))
	k, x2, y2 := drawK(c, kp, n)
	kind := []string{"random", "mask", "zeros", "random"}[c.R.Intn(4)]
	m := pickMsg(c, kind, n, enc.Mask(cv, x2, y2, n))
	ct, err := enc.Encrypt(cv, k, kp.px, kp.py, m)
	if err != nil {
		c.Inconclusive("reference encryption not applicable: %v", err)
		return
	}
	s := serialise(ct, !isSM2(cv))[si]
	c.Class("%s/tamper/%s/len=%s/%s", cvName(cv), s.name, lenClass(n), kind)
	o := newOracle(kp)
	o.know(ct)
	md := matched(s.layout)
	// the untouched ciphertext decrypts (otherwise the sweep below proves nothing)
	if pt, ok := o.decrypt(c, "untouched "+s.name, s.b, md); !ok || !bytes.Equal(pt, m) {
		if s.form != enc.Hybrid {
			if !c.Failed() {
				c.Fail("reject", "untouched %s ciphertext did not decrypt to the message", s.name)
			}
			return
		}
		c.Event("hybrid_base_refused", 1) // optional form; the sweep is still a no-panic / no-wrong-plaintext sweep
	}
	var parts []string
	if s.layout == enc.ASN1 {
		parts = partsASN1(s.b)
	} else {
		parts = partsPlain(cv, s.b, enc.Order(s.layout), len(m))
	}
	try := func(what, part string, mut []byte, i int) {
		if bytes.Equal(mut, s.b) {
			return // identity mutant
		}
		c.Event("mutants", 1)
		c.Event("mutants/"+part, 1)
		dvs := []int{md}
		if other := (i + len(what)) % len(decVariants); other != md {
			dvs = append(dvs, other)
		}
		for _, dvi := range dvs {
			pt, ok := o.decrypt(c, fmt.Sprintf("%s %s", s.name, what), mut, dvi)
			if ok {
				c.Event("mutant_decrypted/"+part, 1)
				if !bytes.Equal(pt, m) && !c.Failed() {
					c.Fail("accept", "%s %s: %s returned a different plaintext", s.name, what, decVariants[dvi].name)
				}
			}
		}
	}
	for i := range s.b {
		seen := map[byte]bool{s.b[i]: true}
		for _, sub := range []struct {
			name string
			v    byte
		}{{"^01", s.b[i] ^ 1}, {"^80", s.b[i] ^ 0x80}, {"=00", 0}, {"=ff", 0xff}} {
			if seen[sub.v] {
				continue
			}
			seen[sub.v] = true
			mut := append([]byte{}, s.b...)
			mut[i] = sub.v
			try(fmt.Sprintf("byte %d (%s) %s", i, parts[i], sub.name), parts[i], mut, i)
		}
	}
	for l := 0; l < len(s.b); l++ {
		try(fmt.Sprintf("truncated to %d of %d bytes (cut in %s)", l, len(s.b), parts[l]), "truncate@"+parts[l], append([]byte{}, s.b[:l]...), l)
	}
	try("extended by 00", "extend", append(append([]byte{}, s.b...), 0), 0)
	try("extended by a copy of the last byte", "extend", append(append([]byte{}, s.b...), s.b[len(s.b)-1]), 1)
	c.Event("reference_mults_for_changed_C1", o.mults)
}
