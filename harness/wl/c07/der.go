package c07

import (
	"bytes"
	"fmt"
	"math/big"

	"github.com/emmansun/gmsm/sm2"

	"verifh/mon"
	enc "verifh/ref/sm2enc"
	refsm4 "verifh/ref/sm4"
)

// c07.der: structured re-encodings of a VALID ASN.1 ciphertext SEQUENCE{INTEGER x1, INTEGER y1, OCTET STRING C3,
// OCTET STRING C2}. Every mutant is a well-formed TLV structure with consistent lengths (the enclosing lengths are
// recomputed after every edit), so it passes every check a byte flip fails, and it denotes - under a tolerant reading -
// the same or a closely related triple. The accept-set of the property is the canonical DER encoding of a triple that the
// reference decryption opens; everything else has to come back as an error from every ASN.1-consuming entry point:
// the five decryption entry points (the SM2-curve path dispatches on the first byte, so all five read ASN.1), the
// converters, and ParseEnvelopedPrivateKey (mutant SM2Cipher inside an otherwise valid SM2EnvelopedKey).
//
// Families whose members the pinned library refuses without exception are judged strictly (a plaintext for a byte string
// that is not the canonical encoding of a valid ciphertext is a violation of kind accept). A family listed in
// derLenient is judged by the tolerant rule of oracle.judge (right plaintext of a tolerantly parsed triple: counted).

// derLenient: families that are not judged strictly (none at present: the pinned library reads strict DER).
var derLenient = map[string]bool{}

type dmut struct {
	fam, name string
	b         []byte
}

// encLenForm encodes a length with k length octets behind 0x80|k (k = 0: minimal DER form).
func encLenForm(n, k int) []byte {
	if k == 0 {
		switch {
		case n < 0x80:
			return []byte{byte(n)}
		case n < 0x100:
			return []byte{0x81, byte(n)}
		case n < 0x10000:
			return []byte{0x82, byte(n >> 8), byte(n)}
		}
		return []byte{0x83, byte(n >> 16), byte(n >> 8), byte(n)}
	}
	out := []byte{0x80 | byte(k)}
	for i := k - 1; i >= 0; i-- {
		if i >= 4 {
			out = append(out, 0)
			continue
		}
		out = append(out, byte(uint32(n)>>(8*uint(i))))
	}
	return out
}

// elem is one TLV under construction: tag octets, content, length form.
type elem struct {
	tag  []byte
	val  []byte
	form int
}

func (e elem) bytes() []byte { return cat(e.tag, encLenForm(len(e.val), e.form), e.val) }

func seqOfElems(outer elem, parts ...elem) []byte {
	var body []byte
	for _, p := range parts {
		body = append(body, p.bytes()...)
	}
	outer.val = body
	return outer.bytes()
}

// twosMin returns the minimal two's complement content octets of v (any sign).
func twosMin(v *big.Int) []byte {
	if v.Sign() >= 0 {
		b := v.Bytes()
		if len(b) == 0 || b[0]&0x80 != 0 {
			b = append([]byte{0}, b...)
		}
		return b
	}
	w := new(big.Int).Neg(v)
	w.Sub(w, big.NewInt(1))
	n := w.BitLen()/8 + 1
	mod := new(big.Int).Lsh(big.NewInt(1), uint(8*n))
	return new(big.Int).Add(mod, v).FillBytes(make([]byte, n))
}

var derFamilies = []string{"negative", "lifted", "padded-integer", "length-form", "extra-element", "trailing", "wrong-tag", "order", "indefinite", "constructed", "width"}

// derMutants builds the mutants of one family from the reference ciphertext ct.
func derMutants(c *mon.Case, cv enc.Curve, ct *enc.Ciphertext, fam string) []dmut {
	p := cv.Prime()
	tInt, tOct, tSeq := []byte{2}, []byte{4}, []byte{0x30}
	X := elem{tag: tInt, val: twosMin(ct.X1)}
	Y := elem{tag: tInt, val: twosMin(ct.Y1)}
	C3 := elem{tag: tOct, val: ct.C3}
	C2 := elem{tag: tOct, val: ct.C2}
	S := elem{tag: tSeq}
	good := seqOfElems(S, X, Y, C3, C2)
	if !bytes.Equal(good, ct.ASN1()) {
		ctx.HarnessError("c07.der: the element builder does not reproduce the reference ASN.1 serialisation")
	}
	var out []dmut
	add := func(name string, b []byte) {
		if bytes.Equal(b, good) {
			return // identity (e.g. the requested length form is the minimal one)
		}
		out = append(out, dmut{fam, name, b})
	}
	withInts := func(name string, x, y *big.Int) {
		add(name, seqOfElems(S, elem{tag: tInt, val: twosMin(x)}, elem{tag: tInt, val: twosMin(y)}, C3, C2))
	}
	neg := func(v *big.Int) *big.Int { return new(big.Int).Neg(v) }
	plus := func(v, w *big.Int) *big.Int { return new(big.Int).Add(v, w) }
	minus := func(v, w *big.Int) *big.Int { return new(big.Int).Sub(v, w) }
	two := func(e int) *big.Int { return new(big.Int).Lsh(big.NewInt(1), uint(e)) }
	w := 8 * cv.ByteLen()
	switch fam {
	case "negative":
		withInts("x1 := -x1", neg(ct.X1), ct.Y1)
		withInts("y1 := -y1", ct.X1, neg(ct.Y1))
		withInts("x1, y1 := -x1, -y1", neg(ct.X1), neg(ct.Y1))
		withInts("x1 := x1-p", minus(ct.X1, p), ct.Y1)
		withInts("y1 := y1-p", ct.X1, minus(ct.Y1, p))
		withInts("x1, y1 := x1-p, y1-p", minus(ct.X1, p), minus(ct.Y1, p))
		withInts("y1 := -(p-y1)", ct.X1, neg(minus(p, ct.Y1)))
		withInts("x1 := x1-2^w", minus(ct.X1, two(w)), ct.Y1)
		withInts("y1 := y1-2^w", ct.X1, minus(ct.Y1, two(w)))
		withInts("x1 := x1-2^(w+8)", minus(ct.X1, two(w+8)), ct.Y1)
		// the same octets read as a negative number: sign octet dropped where there is one
		if len(X.val) > 1 && X.val[0] == 0 {
			add("x1 without its sign octet", seqOfElems(S, elem{tag: tInt, val: X.val[1:]}, Y, C3, C2))
		}
		if len(Y.val) > 1 && Y.val[0] == 0 {
			add("y1 without its sign octet", seqOfElems(S, X, elem{tag: tInt, val: Y.val[1:]}, C3, C2))
		}
		add("x1 with sign octet ff", seqOfElems(S, elem{tag: tInt, val: cat([]byte{0xff}, ct.X1.Bytes())}, Y, C3, C2))
	case "lifted":
		withInts("x1 := x1+p", plus(ct.X1, p), ct.Y1)
		withInts("y1 := y1+p", ct.X1, plus(ct.Y1, p))
		withInts("x1, y1 := x1+p, y1+p", plus(ct.X1, p), plus(ct.Y1, p))
		withInts("x1 := x1+2p", plus(ct.X1, plus(p, p)), ct.Y1)
		withInts("x1 := x1+2^w", plus(ct.X1, two(w)), ct.Y1)
		withInts("y1 := y1+2^w", ct.X1, plus(ct.Y1, two(w)))
		withInts("x1 := x1+2^(w+64)", plus(ct.X1, two(w+64)), ct.Y1)
		withInts("y1 := y1+p*2^w", ct.X1, plus(ct.Y1, new(big.Int).Lsh(p, uint(w))))
	case "padded-integer":
		for _, z := range []int{1, 2, 5} {
			pad := make([]byte, z)
			add(fmt.Sprintf("x1 with %d superfluous zero octets", z), seqOfElems(S, elem{tag: tInt, val: cat(pad, X.val)}, Y, C3, C2))
			add(fmt.Sprintf("y1 with %d superfluous zero octets", z), seqOfElems(S, X, elem{tag: tInt, val: cat(pad, Y.val)}, C3, C2))
			add(fmt.Sprintf("x1, y1 with %d superfluous zero octets", z), seqOfElems(S, elem{tag: tInt, val: cat(pad, X.val)}, elem{tag: tInt, val: cat(pad, Y.val)}, C3, C2))
		}
		// padded up to the full width of a field element plus sign octet, whatever the value
		full := func(v *big.Int) []byte { return cat([]byte{0}, fe(cv, v)) }
		add("x1, y1 at full width with a sign octet", seqOfElems(S, elem{tag: tInt, val: full(ct.X1)}, elem{tag: tInt, val: full(ct.Y1)}, C3, C2))
	case "length-form":
		names := []string{"SEQUENCE", "x1", "y1", "C3", "C2"}
		for pos := 0; pos < 5; pos++ {
			for k := 1; k <= 5; k++ {
				e := []elem{S, X, Y, C3, C2}
				e[pos].form = k
				add(fmt.Sprintf("length of %s in the %d-octet long form", names[pos], k), seqOfElems(e[0], e[1:]...))
			}
		}
		for k := 1; k <= 3; k++ {
			e := []elem{S, X, Y, C3, C2}
			for i := range e {
				e[i].form = k
			}
			add(fmt.Sprintf("every length in the %d-octet long form", k), seqOfElems(e[0], e[1:]...))
			e[0].form = 0
			add(fmt.Sprintf("every inner length in the %d-octet long form", k), seqOfElems(e[0], e[1:]...))
		}
	case "extra-element":
		null := elem{tag: []byte{5}}
		zero := elem{tag: tInt, val: []byte{0}}
		empty := elem{tag: tOct}
		for _, x := range []struct {
			name string
			e    elem
		}{{"NULL", null}, {"INTEGER 0", zero}, {"empty OCTET STRING", empty}, {"copy of C2", C2}, {"copy of x1", X}, {"context [0] element", elem{tag: []byte{0xa0}, val: []byte{5, 0}}}} {
			add(x.name+" appended inside the SEQUENCE", seqOfElems(S, X, Y, C3, C2, x.e))
			add(x.name+" in front inside the SEQUENCE", seqOfElems(S, x.e, X, Y, C3, C2))
			add(x.name+" between y1 and C3", seqOfElems(S, X, Y, x.e, C3, C2))
			add(x.name+" between C3 and C2", seqOfElems(S, X, Y, C3, x.e, C2))
		}
	case "trailing":
		for _, t := range []struct {
			name string
			b    []byte
		}{{"00", []byte{0}}, {"0000", []byte{0, 0}}, {"NULL", []byte{5, 0}}, {"ff", []byte{0xff}}, {"the SEQUENCE again", good}, {"an empty SEQUENCE", []byte{0x30, 0}}} {
			add(t.name+" behind the SEQUENCE", cat(good, t.b))
		}
		// trailing octets inside the last element's parent but covered by no element
		add("one octet behind C2 inside the SEQUENCE", tl(0x30, cat(X.bytes(), Y.bytes(), C3.bytes(), C2.bytes(), []byte{0})))
	case "wrong-tag":
		names := []string{"SEQUENCE", "x1", "y1", "C3", "C2"}
		alts := [][][]byte{
			{{0x31}, {0x10}, {0x70}, {0xb0}, {0x20}, {0x3f, 0x10}},
			{{0x82}, {0x22}, {0x0a}, {0x03}, {0x04}, {0x42}, {0x1f, 0x02}},
			{{0x82}, {0x22}, {0x0a}, {0x03}, {0x04}, {0x42}, {0x1f, 0x02}},
			{{0x24}, {0x03}, {0x0c}, {0x84}, {0x02}, {0x44}, {0x1f, 0x04}},
			{{0x24}, {0x03}, {0x0c}, {0x84}, {0x02}, {0x44}, {0x1f, 0x04}},
		}
		for pos := 0; pos < 5; pos++ {
			for _, tg := range alts[pos] {
				e := []elem{S, X, Y, C3, C2}
				e[pos].tag = tg
				add(fmt.Sprintf("%s with tag %x", names[pos], tg), seqOfElems(e[0], e[1:]...))
			}
		}
		add("both INTEGERs as OCTET STRINGs of the field width", seqOfElems(S, elem{tag: tOct, val: fe(cv, ct.X1)}, elem{tag: tOct, val: fe(cv, ct.Y1)}, C3, C2))
		add("C3, C2 as BIT STRINGs", seqOfElems(S, X, Y, elem{tag: []byte{3}, val: cat([]byte{0}, ct.C3)}, elem{tag: []byte{3}, val: cat([]byte{0}, ct.C2)}))
	case "order":
		e := []elem{X, Y, C3, C2}
		nm := []string{"x1", "y1", "C3", "C2"}
		perm := []int{0, 1, 2, 3}
		var rec func(k int)
		rec = func(k int) {
			if k == 4 {
				add(fmt.Sprintf("elements in the order %s %s %s %s", nm[perm[0]], nm[perm[1]], nm[perm[2]], nm[perm[3]]),
					seqOfElems(S, e[perm[0]], e[perm[1]], e[perm[2]], e[perm[3]]))
				return
			}
			for i := k; i < 4; i++ {
				perm[k], perm[i] = perm[i], perm[k]
				rec(k + 1)
				perm[k], perm[i] = perm[i], perm[k]
			}
		}
		rec(0)
	case "indefinite":
		body := cat(X.bytes(), Y.bytes(), C3.bytes(), C2.bytes())
		add("SEQUENCE of indefinite length", cat([]byte{0x30, 0x80}, body, []byte{0, 0}))
		add("SEQUENCE of indefinite length without end-of-contents", cat([]byte{0x30, 0x80}, body))
		ind := func(e elem) []byte { return cat([]byte{0x24, 0x80}, e.bytes(), []byte{0, 0}) }
		add("C2 constructed, indefinite length", tl(0x30, cat(X.bytes(), Y.bytes(), C3.bytes(), ind(C2))))
		add("C3 constructed, indefinite length", tl(0x30, cat(X.bytes(), Y.bytes(), ind(C3), C2.bytes())))
		add("length octet 80 on C2", tl(0x30, cat(X.bytes(), Y.bytes(), C3.bytes(), []byte{4, 0x80}, ct.C2, []byte{0, 0})))
	case "constructed":
		split := func(e elem) []byte {
			h := len(e.val) / 2
			return tl(0x24, cat(tl(4, e.val[:h]), tl(4, e.val[h:])))
		}
		add("C2 as a constructed OCTET STRING of two pieces", tl(0x30, cat(X.bytes(), Y.bytes(), C3.bytes(), split(C2))))
		add("C3 as a constructed OCTET STRING of two pieces", tl(0x30, cat(X.bytes(), Y.bytes(), split(C3), C2.bytes())))
		add("C2 wrapped in a constructed OCTET STRING", tl(0x30, cat(X.bytes(), Y.bytes(), C3.bytes(), tl(0x24, C2.bytes()))))
		add("SEQUENCE inside a SEQUENCE", tl(0x30, good))
		add("SEQUENCE inside an OCTET STRING", tl(4, good))
		add("x1, y1 inside a SEQUENCE of their own", tl(0x30, cat(tl(0x30, cat(X.bytes(), Y.bytes())), C3.bytes(), C2.bytes())))
		add("C3, C2 inside a SEQUENCE of their own", tl(0x30, cat(X.bytes(), Y.bytes(), tl(0x30, cat(C3.bytes(), C2.bytes())))))
	case "width":
		// the right octets at another width: integers cut or C3 of another size, lengths consistent
		add("x1 without its last octet", seqOfElems(S, elem{tag: tInt, val: X.val[:len(X.val)-1]}, Y, C3, C2))
		add("y1 without its last octet", seqOfElems(S, X, elem{tag: tInt, val: Y.val[:len(Y.val)-1]}, C3, C2))
		add("x1 empty", seqOfElems(S, elem{tag: tInt}, Y, C3, C2))
		add("y1 empty", seqOfElems(S, X, elem{tag: tInt}, C3, C2))
		add("C3 with a zero octet appended", seqOfElems(S, X, Y, elem{tag: tOct, val: cat(ct.C3, []byte{0})}, C2))
		add("C3 with a zero octet in front", seqOfElems(S, X, Y, elem{tag: tOct, val: cat([]byte{0}, ct.C3)}, C2))
		add("C3 without its last octet", seqOfElems(S, X, Y, elem{tag: tOct, val: ct.C3[:len(ct.C3)-1]}, C2))
		add("C3 twice", seqOfElems(S, X, Y, elem{tag: tOct, val: cat(ct.C3, ct.C3)}, C2))
		add("C2 with a zero octet appended", seqOfElems(S, X, Y, C3, elem{tag: tOct, val: cat(ct.C2, []byte{0})}))
		if len(ct.C2) > 1 {
			add("C2 without its last octet", seqOfElems(S, X, Y, C3, elem{tag: tOct, val: ct.C2[:len(ct.C2)-1]}))
		}
		add("C2 and C3 in one OCTET STRING", seqOfElems(S, X, Y, elem{tag: tOct, val: cat(ct.C3, ct.C2)}))
	}
	return out
}

// canonAny returns the plaintexts that the canonical reading of b under any layout yields.
func (o *oracle) canonAny(b []byte) [][]byte {
	var out [][]byte
	for _, l := range allLayouts {
		if t, err := enc.Parse(o.kp.cv, b, l); err == nil && t.Canonical {
			if m, err := o.open(t); err == nil {
				out = append(out, m)
			}
		}
	}
	return out
}

// strictDecrypt runs one decryption entry point on a structured mutant and applies the accept-set rule.
func (o *oracle) strictDecrypt(c *mon.Case, mu dmut, dvi int) {
	if derLenient[mu.fam] {
		if _, ok := o.decrypt(c, mu.fam+": "+mu.name, mu.b, dvi); ok {
			c.Event("der_lenient_family_decrypted/"+mu.fam, 1)
		}
		return
	}
	dv := &decVariants[dvi]
	var pt []byte
	var err error
	in := append([]byte{}, mu.b...)
	if !callDec(c, o.kp, mu.fam+": "+mu.name+": "+dv.name, in, func() { pt, err = dv.call(o.kp.priv, in) }) {
		return
	}
	c.Event("der_verdicts", 1)
	want, must := o.must(mu.b, dv)
	switch {
	case err != nil && must:
		c.Detail("ciphertext", mu.b)
		c.Fail("reject", "%s: %s: %s refused a canonical ciphertext that the reference decryption opens: %v", mu.fam, mu.name, dv.name, err)
	case err != nil:
		c.Event("der_mutant_refused", 1)
		c.Event("der_mutant_refused/"+mu.fam, 1)
	case must:
		if !bytes.Equal(pt, want) {
			c.Detail("ciphertext", mu.b)
			c.Fail("mismatch", "%s: %s: %s returned %x, the reference decryption gives %x", mu.fam, mu.name, dv.name, clip(pt), clip(want))
		} else {
			c.Event("der_mutant_is_a_valid_ciphertext", 1)
		}
	default:
		for _, m := range o.canonAny(mu.b) {
			if bytes.Equal(m, pt) {
				c.Event("der_mutant_is_a_valid_ciphertext_of_another_layout", 1)
				return
			}
		}
		c.Detail("ciphertext", mu.b)
		c.Detail("got", pt)
		c.Fail("accept", "%s: %s: %s returned a %d-byte plaintext (%x) for a byte string that is not the DER encoding of a ciphertext the reference decryption opens",
			mu.fam, mu.name, dv.name, len(pt), clip(pt))
	}
}

// strictConverters: a converter that takes a byte string says that it is a ciphertext; it must be the canonical encoding
// of a triple with C1 on the curve (the converters have no key: C3 is not theirs to check). AdjustCiphertextSplicingOrder
// with from == to returns its argument unread (counted, not judged).
func strictConverters(c *mon.Case, cv enc.Curve, mu dmut) {
	type conv struct {
		name string
		out  enc.Layout
		f    func(b []byte) ([]byte, error)
	}
	list := []conv{
		{"ASN1Ciphertext2Plain(nil)", enc.PlainC1C3C2, func(b []byte) ([]byte, error) { return sm2.ASN1Ciphertext2Plain(b, nil) }},
		{"ASN1Ciphertext2Plain(uncompressed,C1C2C3)", enc.PlainC1C2C3, func(b []byte) ([]byte, error) {
			return sm2.ASN1Ciphertext2Plain(b, sm2.NewPlainEncrypterOpts(sm2.MarshalUncompressed, sm2.C1C2C3))
		}},
		{"ASN1Ciphertext2Plain(compressed,C1C3C2)", enc.PlainC1C3C2, func(b []byte) ([]byte, error) {
			return sm2.ASN1Ciphertext2Plain(b, sm2.NewPlainEncrypterOpts(sm2.MarshalCompressed, sm2.C1C3C2))
		}},
		{"AdjustCiphertextSplicingOrder(C1C3C2->C1C2C3)", enc.PlainC1C2C3, func(b []byte) ([]byte, error) {
			return sm2.AdjustCiphertextSplicingOrder(b, sm2.C1C3C2, sm2.C1C2C3)
		}},
		{"AdjustCiphertextSplicingOrder(C1C2C3->C1C3C2)", enc.PlainC1C3C2, func(b []byte) ([]byte, error) {
			return sm2.AdjustCiphertextSplicingOrder(b, sm2.C1C2C3, sm2.C1C3C2)
		}},
		{"PlainCiphertext2ASN1(C1C3C2)", enc.ASN1, func(b []byte) ([]byte, error) { return sm2.PlainCiphertext2ASN1(b, sm2.C1C3C2) }},
		{"PlainCiphertext2ASN1(C1C2C3)", enc.ASN1, func(b []byte) ([]byte, error) { return sm2.PlainCiphertext2ASN1(b, sm2.C1C2C3) }},
	}
	var canon *enc.Triple
	for _, l := range allLayouts {
		if t, err := enc.Parse(cv, mu.b, l); err == nil && t.Canonical {
			canon = t
		}
	}
	// the size of C3 is checked by the comparison of step B6, i.e. by decryption; the pinned converters carry a C3 of
	// any size (observation): canonical structure and C1 on the curve is all that is asked of a converter's input
	oddC3 := false
	if t, err := enc.SplitASN1(mu.b); canon == nil && err == nil && t.Canonical && len(t.C2) > 0 && t.X1.Sign() >= 0 && t.Y1.Sign() >= 0 && cv.OnCurve(t.X1, t.Y1) {
		canon, oddC3 = t, true
	}
	for _, v := range list {
		in := append([]byte{}, mu.b...)
		var out []byte
		var err error
		if !callDec(c, nil, mu.fam+": "+mu.name+": "+v.name, in, func() { out, err = v.f(in) }) {
			continue
		}
		c.Event("der_converter_verdicts", 1)
		if err != nil {
			c.Event("der_converter_refused", 1)
			continue
		}
		if canon != nil {
			if oddC3 {
				c.Event("der_converter_took_a_canonical_encoding_with_C3_of_another_size", 1)
			} else {
				c.Event("der_converter_took_a_canonical_encoding", 1)
			}
			continue
		}
		if derLenient[mu.fam] {
			c.Event("der_lenient_family_converted/"+mu.fam, 1)
			continue
		}
		c.Detail("input", mu.b)
		c.Detail("output", out)
		c.Fail("accept", "%s: %s: %s converted a byte string that is not the canonical encoding of a ciphertext (C1 on the curve) in any layout", mu.fam, mu.name, v.name)
	}
}

func der(x *mon.Ctx) {
	selfTest(x)
	if err := refsm4.SelfTest(false); err != nil {
		x.HarnessError("%v", err)
	}
	curveSet := []enc.Curve{enc.SM2, enc.P256, enc.P224, enc.P384, enc.P521}
	for _, cv := range curveSet {
		validateShapes(x, cv)
	}
	lens := []int{1, 16, 20, 23, 100, 127, 128, 200, 255, 256, 1000}
	bases := []string{"random-k", "shaped-C1", "tiny-x", "random-k/envelope"}
	reps := x.Scale(1, 6)
	for rep := 0; rep < reps; rep++ {
		for ci, cv := range curveSet {
			for bi, base := range bases {
				if base == "random-k/envelope" && !isSM2(cv) {
					continue
				}
				for fi, fam := range derFamilies {
					n := lens[(fi+3*bi+5*ci+7*rep)%len(lens)]
					if base == "random-k/envelope" {
						n = 16
					}
					c := x.Begin("der curve=%s base=%s family=%s len=%d rep=%d (every mutant x 5 decryption entry points, converters, enveloped key)", cvName(cv), base, fam, n, rep)
					if c == nil {
						continue
					}
					c.Class("%s/der/%s/%s/len=%s", cvName(cv), base, fam, lenClass(n))
					derCase(c, cv, base, fam, n, fi+rep)
					c.End()
				}
			}
		}
	}
}

func derCase(c *mon.Case, cv enc.Curve, base, fam string, n, pick int) {
	kp := newKey(cv, pickKey(c, cv, []string{"random", "d0", "random", "d<2^64"}[pick%4]))
	m := c.R.Bytes(n)
	var ct *enc.Ciphertext
	switch base {
	case "shaped-C1":
		sh := shapesOf(cvName(cv))
		if len(sh) == 0 {
			c.Inconclusive("no shape table for the curve")
			return
		}
		s := sh[(pick*7+c.R.Intn(len(sh)))%len(sh)]
		var err error
		if ct, err = enc.Encrypt(cv, big.NewInt(s.k), kp.px, kp.py, m); err != nil {
			m = c.R.Bytes(n + 1)
			if ct, err = enc.Encrypt(cv, big.NewInt(s.k), kp.px, kp.py, m); err != nil {
				c.Inconclusive("reference encryption not applicable: %v", err)
				return
			}
		}
		c.Event("der_base_shaped_C1/"+s.label(), 1)
	case "tiny-x":
		// x1 below 2^bits - p, so that x1+p still fits the width of a field element (on the SM2 curve: at least four
		// leading zero octets), shifted down by 0..3 octets more
		bound := new(big.Int).Lsh(big.NewInt(1), uint(cv.Prime().BitLen()))
		bound.Sub(bound, cv.Prime())
		from := c.R.BigBelow(bound)
		from.Rsh(from, uint(8*c.R.Intn(4)))
		from.Add(from, big.NewInt(1))
		px, py := pointFrom(cv, from, uint(c.R.Intn(2)))
		ct = forgeFor(kp, px, py, m)
		if ct != nil && allZero(enc.Mask(cv, ct.X2, ct.Y2, len(m))) {
			m = c.R.Bytes(n + 1)
			ct = forgeFor(kp, px, py, m)
		}
		if ct == nil {
			c.Inconclusive("[d]C1 is the point at infinity")
			return
		}
	default:
		k, _, _ := drawK(c, kp, len(m))
		var err error
		if ct, err = enc.Encrypt(cv, k, kp.px, kp.py, m); err != nil {
			c.Inconclusive("reference encryption not applicable: %v", err)
			return
		}
	}
	o := newOracle(kp)
	o.know(ct)
	good := ct.ASN1()
	// control: the canonical encoding must be taken by every entry point that reads ASN.1 (judge enforces the demanded one)
	for dvi := range decVariants {
		if pt, ok := o.decrypt(c, "control: canonical DER", good, dvi); ok && !bytes.Equal(pt, m) && !c.Failed() {
			c.Fail("mismatch", "control: %s: plaintext differs from the message", decVariants[dvi].name)
		}
	}
	muts := derMutants(c, cv, ct, fam)
	c.Event("der_mutants", len(muts))
	c.Event("der_mutants/"+fam, len(muts))
	envelope := base == "random-k/envelope"
	var inner *keyPair
	var encD []byte
	if envelope {
		inner = fixedPair()
		encD = ecbEncrypt(m, b32(inner.d))
		if g, e, ok := parseEnv(c, "control: envelope with the canonical SM2Cipher", kp, refEnvelope(good, inner, encD)); ok && (e != nil || !sameKey(g, inner)) {
			c.Fail("reject", "control: ParseEnvelopedPrivateKey did not open the reference envelope: %v", e)
		}
	}
	for _, mu := range muts {
		for dvi := range decVariants {
			o.strictDecrypt(c, mu, dvi)
		}
		if isSM2(cv) {
			strictConverters(c, cv, mu)
		}
		if envelope {
			env := refEnvelope(mu.b, inner, encD)
			g, e, ok := parseEnv(c, mu.fam+": "+mu.name+" as symEncryptedKey", kp, env)
			if !ok {
				continue
			}
			c.Event("der_envelope_verdicts", 1)
			switch {
			case e != nil:
				c.Event("der_envelope_refused", 1)
			case derLenient[mu.fam]:
				c.Event("der_lenient_family_envelope_opened/"+mu.fam, 1)
			default:
				if _, must := o.must(mu.b, &decVariants[dvASN1]); must && sameKey(g, inner) {
					c.Event("der_envelope_mutant_is_a_valid_ciphertext", 1)
					continue
				}
				c.Detail("envelope", env)
				c.Fail("accept", "%s: %s: ParseEnvelopedPrivateKey opened an envelope whose symEncryptedKey is not the DER encoding of a ciphertext the reference decryption opens", mu.fam, mu.name)
			}
		}
	}
	c.Event("reference_mults", o.mults)
}
