package c07

import (
	"bytes"
	"fmt"
	"math/big"

	"github.com/emmansun/gmsm/sm2"

	"verifh/mon"
	enc "verifh/ref/sm2enc"
)

// cstate is the layout a ciphertext is in while it travels through the converters.
type cstate struct {
	asn1  bool
	order enc.Order
	form  enc.Form
}

func (s cstate) String() string {
	if s.asn1 {
		return "ASN.1"
	}
	return s.order.String() + "/" + s.form.String()
}

func (s cstate) layout() enc.Layout {
	switch {
	case s.asn1:
		return enc.ASN1
	case s.order == enc.C1C3C2:
		return enc.PlainC1C3C2
	}
	return enc.PlainC1C2C3
}

// cop is one converter call applicable in a state.
type cop struct {
	name string
	call func(b []byte) ([]byte, error)
	next func(out []byte) cstate // state of the result
}

func formOf(b []byte) enc.Form {
	switch b[0] {
	case 2, 3:
		return enc.Compressed
	case 6, 7:
		return enc.Hybrid
	}
	return enc.Uncompressed
}

func opsFor(s cstate) []cop {
	var ops []cop
	if !s.asn1 {
		if s.form == enc.Hybrid {
			return nil // hybrid C1 is outside the property
		}
		other := enc.C1C2C3
		if s.order == enc.C1C2C3 {
			other = enc.C1C3C2
		}
		adj := func(from, to enc.Order) func(b []byte) ([]byte, error) {
			return func(b []byte) ([]byte, error) {
				switch {
				case from == enc.C1C3C2 && to == enc.C1C2C3:
					return sm2.AdjustCiphertextSplicingOrder(b, sm2.C1C3C2, sm2.C1C2C3)
				case from == enc.C1C2C3 && to == enc.C1C3C2:
					return sm2.AdjustCiphertextSplicingOrder(b, sm2.C1C2C3, sm2.C1C3C2)
				case from == enc.C1C3C2:
					return sm2.AdjustCiphertextSplicingOrder(b, sm2.C1C3C2, sm2.C1C3C2)
				}
				return sm2.AdjustCiphertextSplicingOrder(b, sm2.C1C2C3, sm2.C1C2C3)
			}
		}
		ops = append(ops,
			cop{fmt.Sprintf("Adjust(%v->%v)", s.order, other), adj(s.order, other), func(out []byte) cstate { return cstate{false, other, formOf(out)} }},
			cop{fmt.Sprintf("Adjust(%v->%v)", s.order, s.order), adj(s.order, s.order), func(out []byte) cstate { return cstate{false, s.order, formOf(out)} }},
			cop{fmt.Sprintf("Plain2ASN1(%v)", s.order), func(b []byte) ([]byte, error) {
				if s.order == enc.C1C3C2 {
					return sm2.PlainCiphertext2ASN1(b, sm2.C1C3C2)
				}
				return sm2.PlainCiphertext2ASN1(b, sm2.C1C2C3)
			}, func(out []byte) cstate { return cstate{asn1: true} }})
		return ops
	}
	ops = append(ops, cop{"ASN12Plain(nil)", func(b []byte) ([]byte, error) { return sm2.ASN1Ciphertext2Plain(b, nil) },
		func(out []byte) cstate { return cstate{false, enc.C1C3C2, formOf(out)} }})
	for _, o := range []enc.Order{enc.C1C3C2, enc.C1C2C3} {
		for _, f := range []string{"U", "C", "H"} {
			o, f := o, f
			ops = append(ops, cop{fmt.Sprintf("ASN12Plain(%s,%v)", f, o), func(b []byte) ([]byte, error) {
				so := sm2.C1C3C2
				if o == enc.C1C2C3 {
					so = sm2.C1C2C3
				}
				switch f {
				case "C":
					return sm2.ASN1Ciphertext2Plain(b, sm2.NewPlainEncrypterOpts(sm2.MarshalCompressed, so))
				case "H":
					return sm2.ASN1Ciphertext2Plain(b, sm2.NewPlainEncrypterOpts(sm2.MarshalHybrid, so))
				}
				return sm2.ASN1Ciphertext2Plain(b, sm2.NewPlainEncrypterOpts(sm2.MarshalUncompressed, so))
			}, func(out []byte) cstate { return cstate{false, o, formOf(out)} }})
		}
	}
	return ops
}

// convert: converter chains up to depth 3 from every starting layout; after every
// step the result must denote the same (C1, C2, C3), and at the end of every chain
// the library must decrypt it, with the options of the final layout, to the message.
func convert(x *mon.Ctx) {
	selfTest(x)
	cv := enc.SM2
	validateShapes(x, cv)
	lens := []int{1, 2, 31, 32, 33, 64, 65, 200, 256, 1000}
	reps := 1
	if x.Thorough() {
		lens = nil
		for n := 1; n <= 70; n++ {
			lens = append(lens, n)
		}
		lens = append(lens, 100, 127, 128, 129, 199, 200, 255, 256, 1000)
		reps = 3
	}
	sp := specialK["sm2"]
	kKinds := []string{"random", "x1lz", "y1lz", "random", "k=n-1"}
	starts := []cstate{{false, enc.C1C3C2, enc.Uncompressed}, {false, enc.C1C2C3, enc.Uncompressed},
		{false, enc.C1C3C2, enc.Compressed}, {false, enc.C1C2C3, enc.Compressed}, {asn1: true}}
	for rep := 0; rep < reps; rep++ {
		for li, n := range lens {
			for ki, kk := range kKinds {
				for _, st := range starts {
					c := x.Begin("convert len=%d k=%s start=%v rep=%d (all converter chains of depth <= 3)", n, kk, st, rep)
					if c == nil {
						continue
					}
					c.Class("convert/len=%s/k:%s/start=%v", lenClass(n), kk, st)
					kp := newKey(cv, pickKey(c, cv, "random"))
					var k *big.Int
					switch kk {
					case "x1lz":
						k = big.NewInt(sp.x1lz[(li+rep)%len(sp.x1lz)])
					case "y1lz":
						k = big.NewInt(sp.y1lz[(li+rep)%len(sp.y1lz)])
					case "k=n-1":
						k = new(big.Int).Sub(cv.N(), big.NewInt(1))
					default:
						k, _, _ = drawK(c, kp, n)
					}
					_, _, x2, y2, err := enc.Shared(cv, k, kp.px, kp.py)
					if err == nil && allZero(enc.Mask(cv, x2, y2, n)) {
						// the standard would restart with another k (1- and 2-byte messages only)
						k, x2, y2 = drawK(c, kp, n)
					}
					if err != nil {
						c.Inconclusive("no shared point: %v", err)
						c.End()
						continue
					}
					content := []string{"random", "mask", "mask-head"}[(li+ki+rep)%3]
					m := pickMsg(c, content, n, enc.Mask(cv, x2, y2, n))
					ct, err := enc.Encrypt(cv, k, kp.px, kp.py, m)
					if err != nil {
						c.Inconclusive("reference encryption not applicable: %v", err)
						c.End()
						continue
					}
					if k.BitLen() < 16 && (kk == "x1lz" && ct.X1.BitLen() > 248 || kk == "y1lz" && ct.Y1.BitLen() > 248) {
						x.HarnessError("special scalar %v does not give a leading zero byte under the reference", k)
					}
					walkFrom(c, kp, ct, m, st)
					c.End()
				}
			}
		}
	}
	// C1 with short coordinates: every INTEGER length of the ASN.1 layout, every amount of padding of the plain ones.
	// (a) the ephemeral scalars of the shape table (1..3 leading zero octets in x1, in y1, in both; top bit of the next octet set / clear)
	for i, sh := range shapesOf("sm2") {
		for si, st := range starts {
			if !x.Thorough() && (sh.rank > 0 || si != i%len(starts) && si != (i+2)%len(starts)) {
				continue
			}
			n := lens[(i+si)%len(lens)]
			c := x.Begin("convert len=%d k=%d (C1 shape %s) start=%v (all converter chains of depth <= 3)", n, sh.k, sh.label(), st)
			if c == nil {
				continue
			}
			c.Class("convert/len=%s/C1-shape:%s/start=%v", lenClass(n), sh.label(), st)
			kp := newKey(cv, pickKey(c, cv, "random"))
			k := big.NewInt(sh.k)
			_, _, x2, y2, err := enc.Shared(cv, k, kp.px, kp.py)
			if err == nil && allZero(enc.Mask(cv, x2, y2, n)) {
				n++
			}
			var ct *enc.Ciphertext
			var m []byte
			if err == nil {
				m = pickMsg(c, []string{"random", "mask", "mask-head"}[(i+si)%3], n, enc.Mask(cv, x2, y2, n))
				ct, err = enc.Encrypt(cv, k, kp.px, kp.py, m)
			}
			if err != nil {
				c.Inconclusive("reference encryption not applicable: %v", err)
				c.End()
				continue
			}
			walkFrom(c, kp, ct, m, st)
			c.Event("conversions_with_shaped_C1", 1)
			c.End()
		}
	}
	// (b) points C1 with a tiny x (no scalar is known for them: the ciphertext is what a sender who knows k would have
	// sent, made with the private key): z = 1..31 leading zero octets, next octet with the top bit clear / set
	for zi, z := range []int{1, 2, 3, 4, 5, 8, 15, 16, 17, 24, 30, 31} {
		for top := 0; top < 2; top++ {
			for si, st := range starts {
				if !x.Thorough() && si != (zi+2*top)%len(starts) {
					continue
				}
				n := lens[(zi+top+si)%len(lens)]
				c := x.Begin("convert len=%d C1 with x of %d leading zero octets, top bit of the next octet %d, start=%v (all converter chains of depth <= 3)", n, z, top, st)
				if c == nil {
					continue
				}
				c.Class("convert/len=%s/C1-x:%dz,top=%d/start=%v", lenClass(n), z, top, st)
				kp := newKey(cv, pickKey(c, cv, "random"))
				from := new(big.Int).Lsh(big.NewInt(1), uint(8*(32-z)-2+top)) // 0x40.. or 0x80.. in octet z
				from.Add(from, new(big.Int).Rsh(new(big.Int).SetBytes(c.R.Bytes(32)), uint(8*z+3)))
				px, py := pointFrom(cv, from, uint(c.R.Intn(2)))
				if lzx, t := lzOctets(px, 32); lzx != z || t != top {
					x.HarnessError("constructed x has %d leading zero octets, top bit %d (wanted %d, %d)", lzx, t, z, top)
				}
				m := c.R.Bytes(n)
				ct := forgeFor(kp, px, py, m)
				if ct != nil && allZero(enc.Mask(cv, ct.X2, ct.Y2, n)) {
					// step B4 refuses such a ciphertext: take one more byte
					m = c.R.Bytes(n + 1)
					ct = forgeFor(kp, px, py, m)
				}
				if ct == nil {
					c.Inconclusive("[d]C1 is the point at infinity")
					c.End()
					continue
				}
				walkFrom(c, kp, ct, m, st)
				c.Event("conversions_with_tiny_x", 1)
				c.End()
			}
		}
	}
}

// walkFrom walks all converter chains from one serialisation of a reference ciphertext.
func walkFrom(c *mon.Case, kp *keyPair, ct *enc.Ciphertext, m []byte, st cstate) {
	o := newOracle(kp)
	o.know(ct)
	var b []byte
	if st.asn1 {
		b = ct.ASN1()
	} else {
		b = ct.Plain(st.order, st.form)
	}
	walk(c, o, ct, m, st, b, "start", 0)
}

// pointFrom finds the point of the curve with the smallest x >= from and the given parity of y.
func pointFrom(cv enc.Curve, from *big.Int, ybit uint) (x, y *big.Int) {
	for v := new(big.Int).Set(from); ; v.Add(v, big.NewInt(1)) {
		if y, ok := cv.Decompress(v, ybit); ok {
			return v, y
		}
	}
}

func walk(c *mon.Case, o *oracle, ct *enc.Ciphertext, m []byte, st cstate, b []byte, path string, depth int) {
	if depth > 0 {
		// end of a chain of length depth: the library decrypts the result to m
		c.Event("chains", 1)
		c.Event(fmt.Sprintf("chains/depth%d", depth), 1)
		if st.form == enc.Hybrid && !st.asn1 {
			c.Event("chains_ending_in_hybrid_C1", 1)
		}
		pt, ok := o.decrypt(c, "chain "+path, b, matched(st.layout()))
		if ok && !bytes.Equal(pt, m) && !c.Failed() {
			c.Fail("mismatch", "chain %s: plaintext differs from the message", path)
		}
		if !ok && !c.Failed() && !(st.form == enc.Hybrid && !st.asn1) {
			c.Fail("reject", "chain %s: result not decrypted", path)
		}
	}
	if depth == 3 {
		return
	}
	for _, op := range opsFor(st) {
		in := append([]byte{}, b...)
		var out []byte
		var err error
		if !c.Call(path+" > "+op.name, func() { out, err = op.call(in) }) {
			continue
		}
		c.Event("conversions", 1)
		if err != nil {
			c.Detail("input", b)
			c.Fail("reject", "chain %s > %s: converter refused a valid %v ciphertext: %v", path, op.name, st, err)
			continue
		}
		if len(out) == 0 {
			c.Fail("mismatch", "chain %s > %s: empty result", path, op.name)
			continue
		}
		ns := op.next(out)
		t, perr := enc.Parse(o.kp.cv, out, ns.layout())
		if perr != nil || !t.SameAs(ct) {
			c.Detail("input", b)
			c.Detail("output", out)
			c.Fail("mismatch", "chain %s > %s: the result is not a %v serialisation of the same (C1, C2, C3)", path, op.name, ns.layout())
			continue
		}
		c.Event("conversions_preserving_triple", 1)
		walk(c, o, ct, m, ns, append([]byte{}, out...), path+" > "+op.name, depth+1)
	}
}
