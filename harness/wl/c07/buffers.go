package c07

import (
	"bytes"
	"fmt"
	"math/big"

	"github.com/emmansun/gmsm/sm2"

	"verifh/mon"
	enc "verifh/ref/sm2enc"
	refsm4 "verifh/ref/sm4"
)

// c07.buffers: caller memory. Every byte-slice argument of every entry point of the property (message of the nine
// encryption variants, ciphertext of the five decryption entry points, input of every converter call, envelope of
// ParseEnvelopedPrivateKey) is cut out of an arena: neighbour bytes | argument | spare capacity filled with a canary |
// neighbour bytes, with the capacity of the slice ending at the argument, behind the spare zone or at the end of the
// arena. After the call the whole arena must equal its snapshot (argument unmodified, nothing written behind it: an
// append that finds room in the caller's capacity writes into the caller's next record). Then the arena is overwritten
// (the buffer is the caller's again) and the result of the call must still be what it was; all results of a case are
// looked at once more at its end, after the later calls. Key objects handed in are compared by value before and after.
// By design AdjustCiphertextSplicingOrder with from == to returns its argument itself: counted, not judged.

type bufShape struct {
	name  string
	spare func(mlen, dlen int) int
	capTo int // 0: the argument, 1: the spare zone, 2: the end of the arena
}

var bufShapes = []bufShape{
	{"spare=0,cap=arena", func(m, d int) int { return 0 }, 2},
	{"spare=0,cap=exact", func(m, d int) int { return 0 }, 0},
	{"spare=1,cap=arena", func(m, d int) int { return 1 }, 2},
	{"spare=31,cap=arena", func(m, d int) int { return 31 }, 2},
	{"spare=32,cap=spare", func(m, d int) int { return 32 }, 1},
	{"spare=mlen,cap=spare", func(m, d int) int { return m }, 1},
	{"spare=mlen+32,cap=spare", func(m, d int) int { return m + 32 }, 1},
	{"spare=2len+64,cap=spare", func(m, d int) int { return 2*d + 64 }, 1},
	{"spare=33,cap=exact", func(m, d int) int { return 33 }, 0},
}

type arenaT struct {
	buf, snap []byte
	off, n    int
}

// lay puts data into a fresh arena and returns the slice to hand to the library.
func lay(c *mon.Case, data []byte, mlen int, sh bufShape) (*arenaT, []byte) {
	pre := c.R.Intn(41)
	spare := sh.spare(mlen, len(data))
	post := len(data) + 64 + c.R.Intn(16)
	a := &arenaT{off: pre, n: len(data)}
	a.buf = make([]byte, pre+len(data)+spare+post)
	c.R.Fill(a.buf)
	copy(a.buf[pre:], data)
	for i := 0; i < spare; i++ {
		a.buf[pre+len(data)+i] = 0xa5 ^ byte(i*7)
	}
	a.snap = append([]byte{}, a.buf...)
	end := pre + len(data)
	switch sh.capTo {
	case 1:
		end += spare
	case 2:
		end = len(a.buf)
	}
	if data == nil {
		return a, nil
	}
	return a, a.buf[pre : pre+len(data) : end]
}

// intact compares the arena with its snapshot.
func (a *arenaT) intact(c *mon.Case, what string) bool {
	c.Event("arena_comparisons", 1)
	if bytes.Equal(a.buf, a.snap) {
		return true
	}
	i := 0
	for a.buf[i] == a.snap[i] {
		i++
	}
	j := len(a.buf) - 1
	for a.buf[j] == a.snap[j] {
		j--
	}
	lo, hi := i-3, j+4
	if lo < 0 {
		lo = 0
	}
	if hi > len(a.buf) {
		hi = len(a.buf)
	}
	c.Detail("arena_before", a.snap[lo:hi])
	c.Detail("arena_after", a.buf[lo:hi])
	switch {
	case i >= a.off+a.n:
		c.Fail("oob", "%s: the library wrote behind its %d-byte argument: bytes +%d..+%d after its end changed (caller memory within the capacity of the slice)", what, a.n, i-a.off-a.n, j-a.off-a.n)
	case i < a.off:
		c.Fail("oob", "%s: the library wrote in front of its argument (arena offsets %d..%d, argument at %d)", what, i, j, a.off)
	default:
		c.Fail("mismatch", "%s: the library changed its %d-byte argument (offsets %d..%d%s)", what, a.n, i-a.off, j-a.off,
			map[bool]string{true: " and bytes behind it", false: ""}[j >= a.off+a.n])
	}
	return false
}

// scribble: the buffer is the caller's again.
func (a *arenaT) scribble() {
	for i := range a.buf {
		a.buf[i] = ^a.buf[i]
	}
}

type heldRes struct {
	what      string
	res, copy []byte
}

type bufCase struct {
	c    *mon.Case
	sh   bufShape
	mlen int
	held []heldRes
}

// after is called when a call returned: arena intact, then overwritten, result unchanged by that.
func (b *bufCase) after(a *arenaT, what string, res []byte, byDesign bool) {
	c := b.c
	a.intact(c, what)
	cp := append([]byte{}, res...)
	a.scribble()
	if !bytes.Equal(res, cp) {
		if byDesign {
			c.Event("result_is_the_argument_by_design", 1)
			return
		}
		c.Detail("result_before", clip(cp))
		c.Detail("result_after", clip(res))
		c.Fail("mismatch", "%s: the result changed when the caller overwrote the argument buffer after the call (the result shares memory with the argument)", what)
		return
	}
	c.Event("results_independent_of_argument", 1)
	if res != nil {
		b.held = append(b.held, heldRes{what, res, cp})
	}
}

func (b *bufCase) finish() {
	for _, h := range b.held {
		b.c.Event("held_results_rechecked", 1)
		if !bytes.Equal(h.res, h.copy) {
			b.c.Fail("mismatch", "%s: the result changed during later calls of the case (shared memory inside the library)", h.what)
			return
		}
	}
}

func sameInt(a, b *big.Int) bool { return a != nil && b != nil && a.Cmp(b) == 0 }

// keyIntact: the key object still holds the reference's values.
func keyIntact(c *mon.Case, what string, kp *keyPair) {
	c.Event("key_object_comparisons", 1)
	if !sameInt(kp.priv.D, kp.d) || !sameInt(kp.priv.X, kp.px) || !sameInt(kp.priv.Y, kp.py) {
		c.Fail("mismatch", "%s: the key object handed to the library has other values than before the call", what)
	}
}

func buffers(x *mon.Ctx) {
	selfTest(x)
	if err := refsm4.SelfTest(false); err != nil {
		x.HarnessError("%v", err)
	}
	lens := []int{1, 16, 32, 33, 100, 200, 300, 1000}
	reps := x.Scale(1, 5)
	for rep := 0; rep < reps; rep++ {
		for ci, cv := range []enc.Curve{enc.SM2, enc.P256, enc.P384, enc.P521, enc.P224} {
			for si, sh := range bufShapes {
				for li := 0; li < 3; li++ {
					if !isSM2(cv) && li > 0 {
						continue
					}
					n := lens[(si+3*li+ci+rep)%len(lens)]
					if isSM2(cv) && li == 2 {
						n = 16 // size of the symmetric key of an enveloped key
					}
					c := x.Begin("buffers curve=%s shape=%s len=%d rep=%d (every entry point with its byte-slice argument inside an arena)", cvName(cv), sh.name, n, rep)
					if c == nil {
						continue
					}
					c.Class("%s/buffers/%s/len=%s", cvName(cv), sh.name, lenClass(n))
					buffersCase(c, cv, sh, n)
					c.End()
				}
			}
		}
	}
}

func buffersCase(c *mon.Case, cv enc.Curve, sh bufShape, n int) {
	kp := newKey(cv, pickKey(c, cv, "random"))
	k, x2, y2 := drawK(c, kp, n)
	m := pickMsg(c, []string{"random", "mask", "text"}[c.R.Intn(3)], n, enc.Mask(cv, x2, y2, n))
	ct, err := enc.Encrypt(cv, k, kp.px, kp.py, m)
	if err != nil {
		c.Inconclusive("reference encryption not applicable: %v", err)
		return
	}
	o := newOracle(kp)
	o.know(ct)
	b := &bufCase{c: c, sh: sh, mlen: n}

	// encryption: the message is the caller's
	for vi := range encVariants {
		ev := &encVariants[vi]
		a, in := lay(c, m, n, sh)
		src := script(c, kBlock(cv, k))
		var got []byte
		var err error
		if !c.Call(ev.name, func() { got, err = ev.call(src, &kp.priv.PublicKey, in) }) {
			continue
		}
		if err != nil {
			c.Fail("reject", "%s failed on a %d-byte message: %v", ev.name, n, err)
			continue
		}
		c.Event("encryptions", 1)
		judgeEnc(c, o, ev, ct, k, got, m)
		b.after(a, ev.name, got, false)
		keyIntact(c, ev.name, kp)
	}

	// decryption: the ciphertext is the caller's
	for _, s := range serialise(ct, false) {
		for dvi := range decVariants {
			dv := &decVariants[dvi]
			a, in := lay(c, s.b, n, sh)
			var pt []byte
			var err error
			what := fmt.Sprintf("%s of %s", dv.name, s.name)
			if !callDec(c, kp, what, s.b, func() { pt, err = dv.call(kp.priv, in) }) {
				continue
			}
			o.judge(c, s.name, s.b, dv, pt, err)
			b.after(a, what, pt, false)
			keyIntact(c, what, kp)
		}
	}

	// converters (SM2 curve): every applicable call from every layout
	if isSM2(cv) {
		starts := []cstate{{false, enc.C1C3C2, enc.Uncompressed}, {false, enc.C1C2C3, enc.Uncompressed},
			{false, enc.C1C3C2, enc.Compressed}, {false, enc.C1C2C3, enc.Compressed}, {asn1: true}}
		for _, st := range starts {
			var data []byte
			if st.asn1 {
				data = ct.ASN1()
			} else {
				data = ct.Plain(st.order, st.form)
			}
			for _, op := range opsFor(st) {
				a, in := lay(c, data, n, sh)
				var out []byte
				var err error
				what := fmt.Sprintf("%s on a %v ciphertext", op.name, st)
				if !c.Call(what, func() { out, err = op.call(in) }) {
					continue
				}
				c.Event("conversions", 1)
				if err != nil {
					c.Fail("reject", "%s: converter refused a valid ciphertext: %v", what, err)
					continue
				}
				if len(out) == 0 {
					c.Fail("mismatch", "%s: empty result", what)
					continue
				}
				ns := op.next(out)
				if t, perr := enc.Parse(cv, out, ns.layout()); perr != nil || !t.SameAs(ct) {
					c.Detail("output", out)
					c.Fail("mismatch", "%s: the result is not a %v serialisation of the same (C1, C2, C3)", what, ns.layout())
				}
				same := len(out) == len(in) && len(in) > 0 && &out[0] == &in[0]
				if same {
					c.Event("converter_returned_its_argument/"+op.name, 1)
				}
				res := append([]byte{}, out...)
				b.after(a, what, out, same && !st.asn1 && ns.order == st.order)
				// the converted ciphertext (as it was when the converter returned) decrypts
				if pt, ok := o.decrypt(c, what+", result", res, matched(ns.layout())); ok && !bytes.Equal(pt, m) && !c.Failed() {
					c.Fail("mismatch", "%s: the result decrypts to another plaintext", what)
				}
			}
		}
	}

	// enveloped key: kp is the recipient
	if isSM2(cv) && n == 16 {
		inner := fixedPair()
		encD := ecbEncrypt(m, b32(inner.d))
		env := refEnvelope(ct.ASN1(), inner, encD)
		a, in := lay(c, env, n, sh)
		var got *sm2.PrivateKey
		var err error
		if callDec(c, kp, "ParseEnvelopedPrivateKey", env, func() { got, err = sm2.ParseEnvelopedPrivateKey(kp.priv, in) }) {
			switch {
			case err != nil:
				c.Fail("reject", "ParseEnvelopedPrivateKey refused an envelope built with the reference primitives: %v", err)
			case !sameKey(got, inner):
				c.Fail("mismatch", "ParseEnvelopedPrivateKey returned another key than the enveloped one")
			default:
				c.Event("reference_envelopes_opened", 1)
			}
			a.intact(c, "ParseEnvelopedPrivateKey")
			a.scribble()
			if err == nil && !sameKey(got, inner) && !c.Failed() {
				c.Fail("mismatch", "ParseEnvelopedPrivateKey: the returned key changed when the caller overwrote the envelope buffer")
			}
			keyIntact(c, "ParseEnvelopedPrivateKey (recipient)", kp)
		}
		// MarshalEnvelopedPrivateKey: both key objects are the caller's
		inner2 := newKeyFromPoint(cv, inner.d, inner.px, inner.py)
		ik := &keyPair{cv: cv, d: inner.d, px: inner.px, py: inner.py, priv: inner2}
		var menv []byte
		if c.Call("MarshalEnvelopedPrivateKey", func() {
			menv, err = sm2.MarshalEnvelopedPrivateKey(script(c, m, kBlock(cv, k)), &kp.priv.PublicKey, inner2)
		}) {
			if err != nil {
				c.Fail("reject", "MarshalEnvelopedPrivateKey failed: %v", err)
			} else {
				keyIntact(c, "MarshalEnvelopedPrivateKey (recipient)", kp)
				keyIntact(c, "MarshalEnvelopedPrivateKey (enveloped key)", ik)
				a2, in2 := lay(c, menv, n, sh)
				var g2 *sm2.PrivateKey
				if callDec(c, kp, "ParseEnvelopedPrivateKey of the library's envelope", menv, func() { g2, err = sm2.ParseEnvelopedPrivateKey(kp.priv, in2) }) {
					if err != nil || !sameKey(g2, inner) {
						c.Fail("reject", "ParseEnvelopedPrivateKey did not return the enveloped key from the library's own envelope: %v", err)
					}
					a2.intact(c, "ParseEnvelopedPrivateKey of the library's envelope")
				}
			}
		}
	}
	b.finish()
	c.Event("reference_mults", o.mults)
}
