package c07

import (
	"bytes"
	"crypto/ecdsa"
	"crypto/elliptic"
	"fmt"
	"io"
	"math/big"

	"github.com/emmansun/gmsm/sm2"

	"verifh/mon"
	enc "verifh/ref/sm2enc"
	"verifh/wl/reg"
)

func init() {
	reg.Register("c07.roundtrip", "C07", func(x *mon.Ctx) { roundtrip(x, enc.SM2) })
	reg.Register("c07.legacy", "C07", func(x *mon.Ctx) { roundtrip(x, enc.P256) })
	reg.Register("c07.tamper", "C07", tamper)
	reg.Register("c07.convert", "C07", convert)
	reg.Register("c07.hostile", "C07", hostile)
	reg.Register("c07.envelope", "C07", envelope)
	reg.Register("c07.keyobj", "C07", keyobj)
	reg.Register("c07.mixed", "C07", mixed)
	reg.Register("c07.curves", "C07", curves)
	reg.Register("c07.der", "C07", der)
	reg.Register("c07.long", "C07", long)
	reg.Register("c07.buffers", "C07", buffers)
}

func selfTest(x *mon.Ctx) {
	ctx = x
	if err := enc.SelfTest(); err != nil {
		x.HarnessError("%v", err)
	}
}

func isSM2(cv enc.Curve) bool { return cv == enc.SM2 }

func cvName(cv enc.Curve) string {
	switch cv {
	case enc.SM2:
		return "sm2"
	case enc.P256:
		return "p256"
	case enc.P224:
		return "p224"
	case enc.P384:
		return "p384"
	case enc.P521:
		return "p521"
	}
	return cv.Name()
}

// keyPair is one key pair known to the reference (d, P) and to the library (priv).
// The public point comes from the reference so that C07 does not depend on the
// library's own base-point multiplication.
type keyPair struct {
	cv     enc.Curve
	d      *big.Int
	px, py *big.Int
	priv   *sm2.PrivateKey
}

func libCurve(cv enc.Curve) elliptic.Curve {
	if isSM2(cv) {
		return sm2.P256()
	}
	return enc.Elliptic(cv)
}

func newKey(cv enc.Curve, d *big.Int) *keyPair {
	px, py, inf := cv.BaseMul(d)
	if inf {
		panic("c07: private scalar is a multiple of n")
	}
	return &keyPair{cv: cv, d: d, px: px, py: py, priv: newKeyFromPoint(cv, d, px, py)}
}

func newKeyFromPoint(cv enc.Curve, d, px, py *big.Int) *sm2.PrivateKey {
	priv := new(sm2.PrivateKey)
	priv.PrivateKey = ecdsa.PrivateKey{PublicKey: ecdsa.PublicKey{Curve: libCurve(cv), X: new(big.Int).Set(px), Y: new(big.Int).Set(py)}, D: new(big.Int).Set(d)}
	return priv
}

// ctx is the run context of the workload in progress (one workload per process).
var ctx *mon.Ctx

// fixed private scalars for which special ephemeral scalars were searched offline
// (the searched property is re-established with the reference at run time).
var (
	d0SM2  = hexInt("3945208F7B2144B13F36E38AC6D39F95889393692860B51A42FB81EF4DF7C5B8") // GM/T 0003.5 annex C
	d0P256 = hexInt("C9AFA9D845BA75166B5C215767B1D6934E50C3DB36E89B127B8A622B120F6721") // RFC 6979 A.2.5
)

func hexInt(s string) *big.Int { v, _ := new(big.Int).SetString(s, 16); return v }

func d0(cv enc.Curve) *big.Int {
	switch cv {
	case enc.SM2:
		return d0SM2
	case enc.P256:
		return d0P256
	}
	return new(big.Int).Mod(d0P256, cv.N())
}

// special ephemeral scalars (small integers), per curve:
//
//	x1lz / y1lz: [k]G has a coordinate with a leading zero byte (short DER INTEGER, padded field element)
//	x2lz / y2lz: [k]P0 has one, for P0 = [d0]G (KDF and hash input must still be 32+32 bytes)
//	t1z / t2z:   KDF(x2||y2, 1 resp. 2) is all zero for P0: the standard restarts (A5) and refuses (B4)
//	x2zz / y2zz: [k]P0 has a coordinate with two leading zero bytes (first one with the next byte < 0x80, then >= 0x80)
type specials struct{ x1lz, y1lz, x2lz, y2lz, t1z, t2z, x2zz, y2zz []int64 }

var specialK = map[string]specials{
	"sm2": {x1lz: []int64{327, 659, 1270, 2109}, y1lz: []int64{107, 119, 206, 217}, x2lz: []int64{194, 913, 1184, 1199},
		y2lz: []int64{295, 801, 932, 1519}, t1z: []int64{470, 524, 724, 1570, 1829, 2030}, t2z: []int64{62785},
		x2zz: []int64{158997, 41294, 226856, 119745}, y2zz: []int64{112047, 46691, 171804, 202607}},
	"p256": {x1lz: []int64{379, 552, 751, 783}, y1lz: []int64{43, 444, 742, 997}, x2lz: []int64{379, 453, 770, 877},
		y2lz: []int64{172, 273, 1505, 1602}, t1z: []int64{32, 319, 396, 776, 803, 1211}, t2z: []int64{81184, 134054},
		x2zz: []int64{54244, 100668, 369386, 379658}, y2zz: []int64{524370, 55131, 384494}},
}

// ---------------------------------------------------------------- entry points

// encVariant is one way of asking the library to encrypt.
type encVariant struct {
	name   string
	layout enc.Layout
	forms  []enc.Form // C1 forms that satisfy the request (plain layouts)
	call   func(r io.Reader, pub *ecdsa.PublicKey, m []byte) ([]byte, error)
	// mkOpts builds the option object of the variant (nil: the variant has none of its own). call makes a
	// fresh one every time; workloads about histories keep one and pass it to sm2.Encrypt many times.
	mkOpts func() *sm2.EncrypterOpts
}

func plainEnc(name string, o enc.Order, mode string) encVariant {
	lo := enc.PlainC1C3C2
	so := sm2.C1C3C2
	if o == enc.C1C2C3 {
		lo, so = enc.PlainC1C2C3, sm2.C1C2C3
	}
	v := encVariant{name: name, layout: lo}
	switch mode {
	case "U":
		v.forms = []enc.Form{enc.Uncompressed}
		v.mkOpts = func() *sm2.EncrypterOpts { return sm2.NewPlainEncrypterOpts(sm2.MarshalUncompressed, so) }
	case "C":
		v.forms = []enc.Form{enc.Compressed}
		v.mkOpts = func() *sm2.EncrypterOpts { return sm2.NewPlainEncrypterOpts(sm2.MarshalCompressed, so) }
	case "H":
		// the property names compressed and uncompressed C1 only; a library that answers a
		// hybrid request with an uncompressed point (the SM2-curve path does) is within it
		v.forms = []enc.Form{enc.Hybrid, enc.Uncompressed}
		v.mkOpts = func() *sm2.EncrypterOpts { return sm2.NewPlainEncrypterOpts(sm2.MarshalHybrid, so) }
	}
	mk := v.mkOpts
	v.call = func(r io.Reader, pub *ecdsa.PublicKey, m []byte) ([]byte, error) { return sm2.Encrypt(r, pub, m, mk()) }
	return v
}

var encVariants = []encVariant{
	{name: "Encrypt/nil", layout: enc.PlainC1C3C2, forms: []enc.Form{enc.Uncompressed},
		call: func(r io.Reader, pub *ecdsa.PublicKey, m []byte) ([]byte, error) { return sm2.Encrypt(r, pub, m, nil) }},
	plainEnc("Encrypt/plain-U-C1C3C2", enc.C1C3C2, "U"),
	plainEnc("Encrypt/plain-U-C1C2C3", enc.C1C2C3, "U"),
	plainEnc("Encrypt/plain-C-C1C3C2", enc.C1C3C2, "C"),
	plainEnc("Encrypt/plain-C-C1C2C3", enc.C1C2C3, "C"),
	plainEnc("Encrypt/plain-H-C1C3C2", enc.C1C3C2, "H"),
	plainEnc("Encrypt/plain-H-C1C2C3", enc.C1C2C3, "H"),
	{name: "Encrypt/ASN1EncrypterOpts", layout: enc.ASN1,
		call: func(r io.Reader, pub *ecdsa.PublicKey, m []byte) ([]byte, error) {
			return sm2.Encrypt(r, pub, m, sm2.ASN1EncrypterOpts)
		}},
	{name: "EncryptASN1", layout: enc.ASN1,
		call: func(r io.Reader, pub *ecdsa.PublicKey, m []byte) ([]byte, error) { return sm2.EncryptASN1(r, pub, m) }},
}

// decVariant is one way of asking the library to decrypt, with the layouts the
// entry point is documented to understand.
type decVariant struct {
	name     string
	demanded []enc.Layout
	call     func(priv *sm2.PrivateKey, ct []byte) ([]byte, error)
	// mkOpts: the option object of the variant, for workloads that keep one (see encVariant.mkOpts)
	mkOpts func() *sm2.DecrypterOpts
}

// decRand is handed to PrivateKey.Decrypt as its io.Reader argument (the scheme is
// deterministic; the reader only has to exist).
var decRand = mon.NewRand(0, "c07.decrypt-reader")

var decVariants = []decVariant{
	{"sm2.Decrypt", []enc.Layout{enc.PlainC1C3C2},
		func(p *sm2.PrivateKey, ct []byte) ([]byte, error) { return sm2.Decrypt(p, ct) }, nil},
	{"PrivateKey.Decrypt/nil", []enc.Layout{enc.PlainC1C3C2},
		func(p *sm2.PrivateKey, ct []byte) ([]byte, error) { return p.Decrypt(decRand, ct, nil) }, nil},
	{"PrivateKey.Decrypt/plain-C1C3C2", []enc.Layout{enc.PlainC1C3C2},
		func(p *sm2.PrivateKey, ct []byte) ([]byte, error) {
			return p.Decrypt(decRand, ct, sm2.NewPlainDecrypterOpts(sm2.C1C3C2))
		}, func() *sm2.DecrypterOpts { return sm2.NewPlainDecrypterOpts(sm2.C1C3C2) }},
	{"PrivateKey.Decrypt/plain-C1C2C3", []enc.Layout{enc.PlainC1C2C3},
		func(p *sm2.PrivateKey, ct []byte) ([]byte, error) {
			return p.Decrypt(decRand, ct, sm2.NewPlainDecrypterOpts(sm2.C1C2C3))
		}, func() *sm2.DecrypterOpts { return sm2.NewPlainDecrypterOpts(sm2.C1C2C3) }},
	{"PrivateKey.Decrypt/ASN1", []enc.Layout{enc.ASN1},
		func(p *sm2.PrivateKey, ct []byte) ([]byte, error) {
			return p.Decrypt(decRand, ct, sm2.ASN1DecrypterOpts)
		},
		func() *sm2.DecrypterOpts { return sm2.ASN1DecrypterOpts }},
}

const (
	dvDecrypt = iota
	dvNil
	dvC1C3C2
	dvC1C2C3
	dvASN1
)

// matched returns the index of the decryption variant made for a layout.
func matched(l enc.Layout) int {
	switch l {
	case enc.PlainC1C3C2:
		return dvC1C3C2
	case enc.PlainC1C2C3:
		return dvC1C2C3
	}
	return dvASN1
}

var allLayouts = []enc.Layout{enc.PlainC1C3C2, enc.PlainC1C2C3, enc.ASN1}

// ---------------------------------------------------------------------- oracle

// oracle is the reference decryption for one private key, with a cache of the
// shared points [d]C1 (one reference scalar multiplication per distinct C1).
type oracle struct {
	kp    *keyPair
	cache map[string][2]*big.Int
	mults int
}

func newOracle(kp *keyPair) *oracle { return &oracle{kp: kp, cache: map[string][2]*big.Int{}} }

// know stores a shared point computed elsewhere (by the reference encryptor).
func (o *oracle) know(ct *enc.Ciphertext) {
	o.cache[string(ct.Point(enc.Uncompressed))] = [2]*big.Int{ct.X2, ct.Y2}
}

func (o *oracle) open(t *enc.Triple) ([]byte, error) {
	key := string((&enc.Ciphertext{Curve: o.kp.cv, X1: t.X1, Y1: t.Y1}).Point(enc.Uncompressed))
	s, ok := o.cache[key]
	if !ok {
		x2, y2, inf := o.kp.cv.Mul(o.kp.d, t.X1, t.Y1) // the parsers only return points of the curve
		o.mults++
		if inf {
			return nil, enc.ErrDecrypt
		}
		s = [2]*big.Int{x2, y2}
		if len(o.cache) < 4096 {
			o.cache[key] = s
		}
	}
	return enc.Open(o.kp.cv, s[0], s[1], t.C2, t.C3)
}

// must returns the plaintext the entry point has to return for b, if any.
func (o *oracle) must(b []byte, dv *decVariant) ([]byte, bool) {
	for _, l := range dv.demanded {
		if t, err := enc.Parse(o.kp.cv, b, l); err == nil && t.Canonical {
			if m, err := o.open(t); err == nil {
				return m, true
			}
		}
	}
	return nil, false
}

// may reports whether pt is a plaintext of b under any layout, leniently parsed.
func (o *oracle) may(b, pt []byte) (enc.Layout, bool) {
	for _, l := range allLayouts {
		if t, err := enc.Parse(o.kp.cv, b, l); err == nil {
			if m, err := o.open(t); err == nil && bytes.Equal(m, pt) {
				return l, true
			}
		}
	}
	return 0, false
}

// judge applies the verdict rule of the package comment to one library answer.
// It returns true when the answer is a plaintext.
func (o *oracle) judge(c *mon.Case, what string, b []byte, dv *decVariant, pt []byte, err error) bool {
	c.Event("decrypt_verdicts", 1)
	want, must := o.must(b, dv)
	if err != nil {
		if must {
			c.Detail("ciphertext", b)
			c.Detail("want", want)
			c.Fail("reject", "%s: %s refused a ciphertext that the reference decryption opens (%d-byte message): %v", what, dv.name, len(want), err)
			return false
		}
		c.Event("refused_as_expected", 1)
		return false
	}
	if must {
		if bytes.Equal(pt, want) {
			c.Event("decrypted_as_expected", 1)
			return true
		}
		c.Detail("ciphertext", b)
		c.Fail("mismatch", "%s: %s returned %x, the reference decryption gives %x", what, dv.name, clip(pt), clip(want))
		return true
	}
	if l, ok := o.may(b, pt); ok {
		// not demanded from this entry point (other layout, hybrid C1, BER form), but right
		c.Event("decrypted_optional/"+dv.name+"/"+l.String(), 1)
		return true
	}
	c.Detail("ciphertext", b)
	c.Detail("got", pt)
	c.Fail("accept", "%s: %s returned a %d-byte plaintext (%x) for a byte string that the reference decryption refuses under every layout", what, dv.name, len(pt), clip(pt))
	return true
}

// decrypt runs one entry point under the panic monitor and judges the answer.
func (o *oracle) decrypt(c *mon.Case, what string, b []byte, dvi int) (pt []byte, ok bool) {
	dv := &decVariants[dvi]
	var err error
	in := append([]byte{}, b...)
	if !callDec(c, o.kp, what+": "+dv.name, in, func() { pt, err = dv.call(o.kp.priv, in) }) {
		return nil, false
	}
	return pt, o.judge(c, what, b, dv, pt, err)
}

func clip(b []byte) []byte {
	if len(b) > 48 {
		return b[:48]
	}
	return b
}

// callDec is c.Call for decryption-side entry points: a panic is a violation and the
// input that caused it is attached to the record.
func callDec(c *mon.Case, kp *keyPair, what string, in []byte, f func()) bool {
	c.Event("calls", 1)
	p := mon.Try(f)
	if p == nil {
		return true
	}
	c.Detail("input", in)
	c.Detail("stack", clipS(p.Stack, 3000))
	c.Fail("panic", "%s: panic: %v", what, p.Value)
	return false
}

func clipS(s string, n int) string {
	if len(s) > n {
		return s[:n]
	}
	return s
}

// ------------------------------------------------------------------- utilities

// msgLens is the length set of the property: 1..200 and the KDF block classes beyond
// (255, 256, 1000); the thorough tier adds the neighbours of the 8-lane KDF batch
// boundaries and two long messages.
func msgLens(thorough bool) []int {
	var l []int
	for n := 1; n <= 200; n++ {
		l = append(l, n)
	}
	l = append(l, 255, 256, 1000)
	if thorough {
		l = append(l, 257, 479, 480, 511, 512, 513, 2048, 4099)
	}
	return l
}

func lenClass(n int) string {
	switch {
	case n <= 4:
		return fmt.Sprintf("%d", n)
	case n < 32:
		return "5..31"
	case n%32 == 0:
		return fmt.Sprintf("%dx32", n/32)
	case n < 64:
		return "33..63"
	case n%32 == 1:
		return "32k+1"
	case n%32 == 31:
		return "32k+31"
	case n < 256:
		return "65..255"
	}
	return ">256"
}

func randScalar(r *mon.Rand, n *big.Int) *big.Int {
	// uniform in [1, n-1]
	return new(big.Int).Add(r.BigBelow(new(big.Int).Sub(n, big.NewInt(1))), big.NewInt(1))
}

func b32(v *big.Int) []byte { return v.FillBytes(make([]byte, 32)) }

// kBlock is the block of random bytes from which the candidate scalar k is read: as many
// bytes as the group order has; where the order does not fill its first byte (P-521: 521 bits
// in 66 bytes) the samplers of FIPS 186-4 B.5.2 in the Go tradition shift the first byte
// right by the excess bits, so k's first byte is scripted shifted left. A library that
// derives its scalar otherwise is judged by the reference decryption alone (runRoundTrip).
func kBlock(cv enc.Curve, k *big.Int) []byte {
	nb := (cv.N().BitLen() + 7) / 8
	b := k.FillBytes(make([]byte, nb))
	if ex := uint(nb*8 - cv.N().BitLen()); ex > 0 {
		b[0] <<= ex
	}
	return b
}

// script builds the random source for Encrypt: the given 32-byte blocks, then a
// deterministic tail (so that a library that wants more bytes gets them), with a
// logical budget of 256 blocks.
func script(c *mon.Case, blocks ...[]byte) *mon.Script {
	var st []byte
	for _, b := range blocks {
		st = append(st, b...)
	}
	s := mon.NewScript(st)
	s.Tail = mon.NewRand(0, "c07.script-tail", c.N)
	s.MaxBytes = len(st) + 256*32
	return s
}

// drawK draws ephemeral scalars until the n-byte mask is not all zero (what the
// standard's restart rule does; matters for 1- and 2-byte messages only).
func drawK(c *mon.Case, kp *keyPair, n int) (k, x2, y2 *big.Int) {
	for {
		k = randScalar(c.R, kp.cv.N())
		_, _, x2, y2, err := enc.Shared(kp.cv, k, kp.px, kp.py)
		if err == nil && !allZero(enc.Mask(kp.cv, x2, y2, n)) {
			return k, x2, y2
		}
	}
}
