package c07

import (
	"bytes"
	"crypto/ecdsa"
	"fmt"
	"math/big"

	"github.com/emmansun/gmsm/sm2"
	"github.com/emmansun/gmsm/smx509"

	"verifh/mon"
	enc "verifh/ref/sm2enc"
)

// Histories on key objects. A *sm2.PrivateKey is an object the caller keeps: it is
// built by one of several constructors, used many times through several entry
// points, and FromECPrivateKey may load another key pair into the same receiver.
// The model of a history is the key pair the object holds NOW (the one its last
// successful constructor / FromECPrivateKey call installed; a refused call changes
// nothing). After every step the property must hold for that pair: ciphertexts the
// reference made for it are decrypted to the message by every entry point, ciphertexts
// for the pairs the object held before (or for nobody) are refused. Every verdict is
// the reference decryption under the scalar of the model (oracle.judge); nothing is
// read back from the object. Assigning to the exported fields of a live object is not
// a supported way of re-keying and is not done.

// ---------------------------------------------------------------- constructors

var oidSM2Curve = []byte{0x06, 0x08, 0x2a, 0x81, 0x1c, 0xcf, 0x55, 0x01, 0x82, 0x2d} // 1.2.156.10197.1.301
var oidECPublicKey = []byte{0x06, 0x07, 0x2a, 0x86, 0x48, 0xce, 0x3d, 0x02, 0x01}    // 1.2.840.10045.2.1

// sec1DER is ECPrivateKey of SEC 1 / RFC 5915 for the SM2 curve.
func sec1DER(kp *keyPair, withParams bool) []byte {
	body := cat([]byte{2, 1, 1}, tl(4, b32(kp.d)))
	if withParams {
		body = cat(body, tl(0xa0, oidSM2Curve))
	}
	body = cat(body, tl(0xa1, tl(3, cat([]byte{0, 4}, b32(kp.px), b32(kp.py)))))
	return tl(0x30, body)
}

// pkcs8DER is PrivateKeyInfo{ecPublicKey, sm2 curve} around the SEC 1 structure.
func pkcs8DER(kp *keyPair) []byte {
	return tl(0x30, cat([]byte{2, 1, 0}, tl(0x30, cat(oidECPublicKey, oidSM2Curve)), tl(4, sec1DER(kp, false))))
}

func ecdsaKey(kp *keyPair) *ecdsa.PrivateKey {
	return &ecdsa.PrivateKey{PublicKey: ecdsa.PublicKey{Curve: libCurve(kp.cv), X: new(big.Int).Set(kp.px), Y: new(big.Int).Set(kp.py)}, D: new(big.Int).Set(kp.d)}
}

// fixedPair is a long-lived key pair of the process (GM/T 0003.5 annex C key), used as the
// enveloped key and as a third-party recipient; its object is used by many cases.
var fixedPairV *keyPair

func fixedPair() *keyPair {
	if fixedPairV == nil {
		fixedPairV = newKey(enc.SM2, d0SM2)
	}
	return fixedPairV
}

// ctor is one way of obtaining a *sm2.PrivateKey for a scalar of the SM2 curve.
type ctor struct {
	name  string
	build func(c *mon.Case, kp *keyPair) (*sm2.PrivateKey, error)
}

var ctors = []ctor{
	{"literal", func(c *mon.Case, kp *keyPair) (*sm2.PrivateKey, error) {
		return newKeyFromPoint(kp.cv, kp.d, kp.px, kp.py), nil
	}},
	{"new+FromECPrivateKey", func(c *mon.Case, kp *keyPair) (*sm2.PrivateKey, error) {
		return new(sm2.PrivateKey).FromECPrivateKey(ecdsaKey(kp))
	}},
	{"NewPrivateKey", func(c *mon.Case, kp *keyPair) (*sm2.PrivateKey, error) {
		b := b32(kp.d)
		k, err := sm2.NewPrivateKey(b)
		c.R.Fill(b) // the caller's buffer is the caller's again
		return k, err
	}},
	{"NewPrivateKeyFromInt", func(c *mon.Case, kp *keyPair) (*sm2.PrivateKey, error) {
		v := new(big.Int).Set(kp.d)
		k, err := sm2.NewPrivateKeyFromInt(v)
		v.SetInt64(0)
		return k, err
	}},
	{"GenerateKey", func(c *mon.Case, kp *keyPair) (*sm2.PrivateKey, error) {
		// the random source offers kp.d; whichever scalar the library derives is read back by the caller
		return sm2.GenerateKey(script(c, b32(kp.d)))
	}},
	{"smx509.ParseSM2PrivateKey", func(c *mon.Case, kp *keyPair) (*sm2.PrivateKey, error) {
		der := sec1DER(kp, true)
		k, err := smx509.ParseSM2PrivateKey(der)
		c.R.Fill(der)
		return k, err
	}},
	{"smx509.ParsePKCS8PrivateKey", func(c *mon.Case, kp *keyPair) (*sm2.PrivateKey, error) {
		der := pkcs8DER(kp)
		k, err := smx509.ParsePKCS8PrivateKey(der)
		c.R.Fill(der)
		if err != nil {
			return nil, err
		}
		sk, ok := k.(*sm2.PrivateKey)
		if !ok {
			return nil, fmt.Errorf("ParsePKCS8PrivateKey returned a %T for an SM2 key", k)
		}
		return sk, nil
	}},
	{"sm2.ParseEnvelopedPrivateKey", func(c *mon.Case, kp *keyPair) (*sm2.PrivateKey, error) {
		rcpt := fixedPair()
		env := envelopeFor(c, rcpt, kp)
		if env == nil {
			return nil, fmt.Errorf("no reference envelope")
		}
		k, err := sm2.ParseEnvelopedPrivateKey(rcpt.priv, env)
		c.R.Fill(env)
		return k, err
	}},
}

// smallK draws a 64-bit ephemeral scalar: the histories are about objects, not about k
// (c07.roundtrip varies k), and the reference multiplication costs time proportional to its length.
func smallK(c *mon.Case) *big.Int {
	return new(big.Int).Add(new(big.Int).SetUint64(c.R.Uint64()), big.NewInt(1))
}

// envelopeFor builds, with the reference primitives, the SM2EnvelopedKey that carries inner for rcpt.
func envelopeFor(c *mon.Case, rcpt, inner *keyPair) []byte {
	sym := c.R.Bytes(16)
	ct, err := enc.Encrypt(enc.SM2, smallK(c), rcpt.px, rcpt.py, sym)
	if err != nil {
		return nil
	}
	return refEnvelope(ct.ASN1(), inner, ecbEncrypt(sym, b32(inner.d)))
}

// construct builds the key object for a scalar of the given kind through constructor ci.
// It returns nil after recording a violation when the constructor fails on a valid scalar.
func construct(c *mon.Case, ci int, kind string) *keyPair {
	ct := &ctors[ci%len(ctors)]
	kp := newKey(enc.SM2, pickKey(c, enc.SM2, kind))
	var obj *sm2.PrivateKey
	var err error
	if !c.Call("constructor "+ct.name, func() { obj, err = ct.build(c, kp) }) {
		return nil
	}
	if err != nil || obj == nil || obj.D == nil {
		c.Fail("reject", "constructor %s failed for a valid private scalar (kind %s): %v", ct.name, kind, err)
		return nil
	}
	c.Event("constructed/"+ct.name, 1)
	if obj.D.Cmp(kp.d) != 0 {
		if ct.name != "GenerateKey" {
			c.Fail("mismatch", "constructor %s returned a key with another private scalar than the one given", ct.name)
			return nil
		}
		// a generator is free in how it derives the scalar from the random bytes: take the scalar it reports
		c.Event("generatekey_other_scalar", 1)
		d := new(big.Int).Set(obj.D)
		if d.Sign() <= 0 || d.Cmp(enc.SM2.N()) >= 0 {
			c.Fail("mismatch", "GenerateKey returned a scalar outside [1, n-1]")
			return nil
		}
		kp = newKey(enc.SM2, d)
	}
	kp.priv = obj
	return kp
}

// ------------------------------------------------------------------- the model

// keyUse is one way of using the decryption capability of a key object: the five
// decryption entry points and ParseEnvelopedPrivateKey (which decrypts the symmetric key).
const nUses = 6
const useEnvelope = 5

func useName(u int) string {
	if u == useEnvelope {
		return "ParseEnvelopedPrivateKey"
	}
	return decVariants[u].name
}

// held is one key pair an object holds or held, with a reference ciphertext for it.
type held struct {
	kp   *keyPair // kp.priv is the object under test for every pair of one history
	name string
	m    []byte
	ct   *enc.Ciphertext
	o    *oracle
}

type objHistory struct {
	c     *mon.Case
	obj   *sm2.PrivateKey
	cur   *held
	old   []*held
	step  int
	trail []string
}

func (h *objHistory) note(format string, args ...any) string {
	h.step++
	s := fmt.Sprintf(format, args...)
	h.trail = append(h.trail, s)
	return fmt.Sprintf("step %d (%s) of history [%s]", h.step, s, joinTrail(h.trail))
}

func joinTrail(t []string) string {
	s := ""
	for i, e := range t {
		if i > 0 {
			s += "; "
		}
		s += e
	}
	if len(s) > 600 {
		s = "..." + s[len(s)-600:]
	}
	return s
}

// hold makes pair kp (whose object is obj) the current pair of the history and prepares a
// reference ciphertext for it.
func (h *objHistory) hold(kp *keyPair, name string) bool {
	c := h.c
	kp.priv = h.obj
	n := []int{1, 2, 16, 31, 32, 33, 64, 97, 128, 225, 256}[c.R.Intn(11)]
	var ct *enc.Ciphertext
	var m []byte
	for try := 0; ct == nil && try < 8; try++ {
		m = c.R.Bytes(n)
		ct, _ = enc.Encrypt(kp.cv, smallK(c), kp.px, kp.py, m)
	}
	if ct == nil {
		c.Inconclusive("no reference ciphertext")
		return false
	}
	if h.cur != nil {
		h.old = append(h.old, h.cur)
	}
	h.cur = &held{kp: kp, name: name, m: m, ct: ct, o: newOracle(kp)}
	h.cur.o.know(ct)
	return true
}

// serialisation of a reference ciphertext that the decryption entry point dvi is documented for
func serFor(c *mon.Case, ct *enc.Ciphertext, dvi int) []byte {
	f := enc.Uncompressed
	if c.R.Intn(3) == 0 {
		f = enc.Compressed
	}
	switch dvi {
	case dvC1C2C3:
		return ct.Plain(enc.C1C2C3, f)
	case dvASN1:
		return ct.ASN1()
	}
	return ct.Plain(enc.C1C3C2, f)
}

// use hands the object a ciphertext (or an envelope) made for the pair `to`, which is the
// current pair, one the object held before, or nil for a damaged ciphertext of the current pair.
func (h *objHistory) use(u int, to *held, damaged bool) {
	c := h.c
	target := "the key the object holds now"
	switch {
	case damaged:
		target = "the key the object holds now, one byte of C3 changed"
	case to != h.cur:
		target = "the key the object held before (" + to.name + ")"
	}
	what := h.note("%s <- ciphertext for %s", useName(u), target)
	o := h.cur.o // the verdict is the reference's under the scalar the object holds now
	if u == useEnvelope {
		inner := fixedPair()
		sym := c.R.Bytes(16)
		ct, err := enc.Encrypt(enc.SM2, smallK(c), to.kp.px, to.kp.py, sym)
		if err != nil {
			return
		}
		if to == h.cur {
			o.know(ct)
		}
		symCT := ct.ASN1()
		if damaged {
			symCT[len(symCT)-len(sym)-2-1] ^= 0x10 // last byte of C3
		}
		env := refEnvelope(symCT, inner, ecbEncrypt(sym, b32(inner.d)))
		t, perr := enc.Parse(enc.SM2, symCT, enc.ASN1)
		if perr != nil {
			ctx.HarnessError("reference envelope does not parse")
		}
		wantSym, rerr := o.open(t)
		k, err, ok := parseEnv(c, what, h.cur.kp, env)
		c.Event("object_uses/envelope", 1)
		switch {
		case !ok:
		case rerr == nil && bytes.Equal(wantSym, sym):
			if err != nil {
				c.Detail("envelope", env)
				c.Fail("reject", "%s: ParseEnvelopedPrivateKey refused an envelope made for the key pair the object holds: %v", what, err)
			} else if !sameKey(k, inner) {
				c.Fail("mismatch", "%s: ParseEnvelopedPrivateKey returned another key than the enveloped one", what)
			} else {
				c.Event("object_envelope_opened", 1)
			}
		case err == nil:
			c.Detail("envelope", env)
			c.Fail("accept", "%s: ParseEnvelopedPrivateKey opened an envelope whose symmetric key the reference decryption refuses under the key the object holds", what)
		default:
			c.Event("object_envelope_refused", 1)
		}
		return
	}
	b := serFor(c, to.ct, u)
	if damaged {
		t, perr := enc.Parse(h.cur.kp.cv, b, decVariants[u].demanded[0])
		if perr != nil {
			ctx.HarnessError("reference serialisation does not parse")
		}
		bad := append([]byte{}, t.C3...)
		bad[c.R.Intn(32)] ^= 1 << uint(c.R.Intn(8))
		b = bytes.Replace(b, t.C3, bad, 1)
	}
	c.Event("object_uses/decrypt", 1)
	pt, ok := o.decrypt(c, what, b, u)
	switch {
	case ok && to == h.cur && !damaged:
		if !bytes.Equal(pt, to.m) && !c.Failed() {
			c.Fail("mismatch", "%s: plaintext differs from the message", what)
		}
		c.Event("object_decrypted", 1)
	case ok:
		c.Event("object_foreign_ciphertext_accepted", 1) // judge has already decided whether that is a violation
	case to == h.cur && !damaged && !c.Failed():
		c.Fail("reject", "%s: not decrypted", what)
	default:
		c.Event("object_refused", 1)
	}
}

// rekey loads another key pair into the same receiver.
func (h *objHistory) rekey(kind string) bool {
	c := h.c
	kp := newKey(enc.SM2, pickKey(c, enc.SM2, kind))
	name := fmt.Sprintf("key %d (%s)", len(h.old)+2, kind)
	what := h.note("FromECPrivateKey(%s) on the same receiver", name)
	var ret *sm2.PrivateKey
	var err error
	ek := ecdsaKey(kp)
	if !c.Call(what, func() { ret, err = h.obj.FromECPrivateKey(ek) }) {
		return false
	}
	if err != nil {
		c.Fail("reject", "%s refused a valid SM2 key: %v", what, err)
		return false
	}
	if ret != h.obj {
		c.Event("fromec_returned_other_object", 1)
	}
	c.Event("rekeys", 1)
	return h.hold(kp, name)
}

// rekeyRefused offers the receiver a key FromECPrivateKey does not take (another curve):
// whether it is refused is not C07's business, but a refused call must not change the object.
func (h *objHistory) rekeyRefused() {
	c := h.c
	kp := newKey(enc.P256, pickKey(c, enc.P256, "random"))
	what := h.note("FromECPrivateKey(NIST P-256 key) on the same receiver")
	var err error
	if !c.Call(what, func() { _, err = h.obj.FromECPrivateKey(ecdsaKey(kp)) }) {
		return
	}
	if err == nil {
		// the library took it: the object is a P-256 key now
		c.Event("rekey_other_curve_accepted", 1)
		h.hold(&keyPair{cv: enc.P256, d: kp.d, px: kp.px, py: kp.py}, "NIST P-256 key")
		return
	}
	c.Event("rekey_other_curve_refused", 1)
}

// sign uses the signing side of the object (it has a lazily cached value of its own);
// the signature is C06's business, here it is traffic between two decryptions.
func (h *objHistory) sign() {
	c := h.c
	h.note("Sign")
	dg := c.R.Bytes(32)
	rd := script(c, c.R.Bytes(32))
	var err error
	if p := mon.Try(func() {
		if c.R.Bool() {
			_, err = h.obj.Sign(rd, dg, nil)
		} else {
			_, err = h.obj.Sign(rd, dg, sm2.DefaultSM2SignerOpts)
		}
	}); p != nil || err != nil {
		c.Event("sign_traffic_failed", 1)
		return
	}
	c.Event("sign_traffic", 1)
}

// marshal envelopes the object's own key pair for a third party; the third party must get
// the pair the object holds now.
func (h *objHistory) marshal() {
	c := h.c
	what := h.note("MarshalEnvelopedPrivateKey(object as the key to envelope)")
	rcpt := fixedPair()
	src := script(c, c.R.Bytes(16), b32(smallK(c)))
	var env []byte
	var err error
	if !c.Call(what, func() { env, err = sm2.MarshalEnvelopedPrivateKey(src, &rcpt.priv.PublicKey, h.obj) }) {
		return
	}
	if err != nil {
		c.Fail("reject", "%s failed: %v", what, err)
		return
	}
	k, perr, ok := parseEnv(c, what+", opened by the recipient", rcpt, env)
	switch {
	case !ok:
	case perr != nil:
		c.Detail("envelope", env)
		c.Fail("reject", "%s: the recipient cannot open the envelope: %v", what, perr)
	case !sameKey(k, h.cur.kp):
		c.Fail("mismatch", "%s: the envelope does not carry the key pair the object holds now", what)
	default:
		c.Event("object_enveloped", 1)
	}
}

// selfRoundTrip encrypts to the public key read from the object and decrypts with the object.
func (h *objHistory) selfRoundTrip() {
	c := h.c
	vi := c.R.Intn(len(encVariants))
	ev := &encVariants[vi]
	what := h.note("%s to the object's public key, then decrypt", ev.name)
	m := c.R.Bytes([]int{1, 17, 32, 33, 97, 130, 230}[c.R.Intn(7)])
	var k *big.Int
	if c.R.Intn(4) == 0 {
		k, _, _ = drawK(c, h.cur.kp, len(m))
	} else {
		k = smallK(c)
	}
	ct, err := enc.Encrypt(enc.SM2, k, h.cur.kp.px, h.cur.kp.py, m)
	if err != nil {
		return // (a zero mask: probability 2^-8 for the 1-byte message)
	}
	o := h.cur.o
	o.know(ct)
	var got []byte
	mm := append([]byte{}, m...)
	if !c.Call(what, func() { got, err = ev.call(script(c, b32(k)), &h.obj.PublicKey, mm) }) {
		return
	}
	if err != nil {
		c.Fail("reject", "%s failed: %v", what, err)
		return
	}
	c.Event("object_encryptions", 1)
	evn := *ev
	evn.name = what
	if !judgeEnc(c, o, &evn, ct, k, got, m) {
		return
	}
	if pt, ok := o.decrypt(c, what, got, matched(ev.layout)); ok && !bytes.Equal(pt, m) && !c.Failed() {
		c.Fail("mismatch", "%s: plaintext differs from the message", what)
	} else if !ok && !c.Failed() && !(len(got) > 0 && (got[0] == 6 || got[0] == 7)) {
		c.Fail("reject", "%s: the object does not decrypt what was encrypted to its public key", what)
	}
}

func (h *objHistory) anyOld() *held {
	if len(h.old) == 0 {
		return nil
	}
	return h.old[h.c.R.Intn(len(h.old))]
}

var objKeyKinds = []string{"random", "d<2^64", "random", "d=1", "random", "d=n-2", "d=2^255+r", "d=2"}

// newHistory builds the object through constructor ci. legacyFirst: the object starts as a
// NIST P-256 key (struct literal, the only way to build one), decrypts once on the legacy
// path and is then converted with FromECPrivateKey.
func newHistory(c *mon.Case, ci int, kind string, legacyFirst bool) *objHistory {
	h := &objHistory{c: c}
	if legacyFirst {
		kp := newKey(enc.P256, pickKey(c, enc.P256, "random"))
		h.obj = kp.priv
		h.note("object built as a literal NIST P-256 key")
		if !h.hold(kp, "key 1 (NIST P-256)") {
			return nil
		}
		return h
	}
	kp := construct(c, ci, kind)
	if kp == nil {
		return nil
	}
	h.obj = kp.priv
	h.note("object built by %s", ctors[ci%len(ctors)].name)
	if !h.hold(kp, "key 1 ("+kind+")") {
		return nil
	}
	return h
}

// useOn: legacy keys have no envelope entry point worth a reference (ParseEnvelopedPrivateKey
// is specified for SM2 keys); fall back to a decryption entry point there.
func (h *objHistory) useAny(u int, to *held, damaged bool) {
	if u == useEnvelope && (!isSM2(h.cur.kp.cv) || !isSM2(to.kp.cv)) {
		u = dvNil
	}
	if to != h.cur && to.kp.cv != h.cur.kp.cv {
		// a ciphertext of another curve is just a byte string for this key: covered by c07.hostile
		return
	}
	h.use(u, to, damaged)
}

func keyobj(x *mon.Ctx) {
	selfTest(x)
	// (1) every ordered pair (use before re-keying, use after re-keying), with and without the re-key in between
	for f := 0; f < nUses; f++ {
		for g := 0; g < nUses; g++ {
			for _, rk := range []bool{true, false} {
				ci := f*nUses + g
				c := x.Begin("keyobj pair first-use=%s second-use=%s rekey-between=%v constructor=%s", useName(f), useName(g), rk, ctors[ci%len(ctors)].name)
				if c == nil {
					continue
				}
				c.Class("keyobj/pair/%s>%s/rekey=%v", useName(f), useName(g), rk)
				h := newHistory(c, ci, objKeyKinds[(ci+f)%len(objKeyKinds)], false)
				if h != nil {
					h.useAny(f, h.cur, false)
					h.selfRoundTrip() // the public half of the object is read as well, before and after
					if !rk || h.rekey(objKeyKinds[(ci+g+3)%len(objKeyKinds)]) {
						h.useAny(g, h.cur, false)
						if rk {
							h.useAny((f+g)%nUses, h.old[0], false)
						}
						h.selfRoundTrip()
						h.useAny(f, h.cur, false) // third use
					}
					c.Event("reference_mults_for_foreign_ciphertexts", h.cur.o.mults)
				}
				c.End()
			}
		}
	}
	// (2) every constructor, first use by every entry point, then a refused ciphertext, then a second use
	for ci := range ctors {
		for u := 0; u < nUses; u++ {
			c := x.Begin("keyobj constructor=%s first-use=%s, damaged ciphertext, second use", ctors[ci].name, useName(u))
			if c == nil {
				continue
			}
			c.Class("keyobj/ctor/%s/%s", ctors[ci].name, useName(u))
			if h := newHistory(c, ci, objKeyKinds[(ci+u)%len(objKeyKinds)], false); h != nil {
				h.useAny(u, h.cur, false)
				h.useAny((u+1)%nUses, h.cur, true)
				h.useAny((u+2)%nUses, h.cur, false)
			}
			c.End()
		}
	}
	// (3) all sequences of three uses on one object (thorough), with a re-key at every position
	if x.Thorough() {
		for a := 0; a < nUses; a++ {
			for b := 0; b < nUses; b++ {
				for d := 0; d < nUses; d++ {
					for pos := 0; pos < 3; pos++ {
						ci := (a*nUses+b)*nUses + d + pos
						c := x.Begin("keyobj triple uses=%s,%s,%s rekey-before-use=%d constructor=%s", useName(a), useName(b), useName(d), pos+1, ctors[ci%len(ctors)].name)
						if c == nil {
							continue
						}
						c.Class("keyobj/triple/%d%d%d/rekey@%d", a, b, d, pos)
						if h := newHistory(c, ci, objKeyKinds[ci%len(objKeyKinds)], false); h != nil {
							for i, u := range []int{a, b, d} {
								if i == pos && !h.rekey(objKeyKinds[(ci+i)%len(objKeyKinds)]) {
									break
								}
								h.useAny(u, h.cur, false)
								if o := h.anyOld(); o != nil {
									h.useAny(u, o, false)
								}
							}
						}
						c.End()
					}
				}
			}
		}
	}
	// (4) random histories
	for i := 0; i < x.Scale(72, 3000); i++ {
		c := x.Begin("keyobj random history i=%d (constructor, key kinds, steps from the case PRNG)", i)
		if c == nil {
			continue
		}
		legacyFirst := i%9 == 8
		h := newHistory(c, c.R.Intn(len(ctors)), objKeyKinds[c.R.Intn(len(objKeyKinds))], legacyFirst)
		if h == nil {
			c.End()
			continue
		}
		pattern := ""
		if legacyFirst {
			// one use on the legacy path, then the conversion
			h.useAny(c.R.Intn(5), h.cur, false)
			pattern = "L"
			if !h.rekey(objKeyKinds[c.R.Intn(len(objKeyKinds))]) {
				c.End()
				continue
			}
			pattern += "K"
		}
		steps := c.R.Range(5, 10)
		for s := 0; s < steps && !c.Failed(); s++ {
			switch r := c.R.Intn(100); {
			case r < 34:
				h.useAny(c.R.Intn(nUses), h.cur, false)
				pattern += "u"
			case r < 50:
				if o := h.anyOld(); o != nil {
					h.useAny(c.R.Intn(nUses), o, false)
					pattern += "o"
				}
			case r < 56:
				h.useAny(c.R.Intn(nUses), h.cur, true)
				pattern += "d"
			case r < 76:
				if !h.rekey(objKeyKinds[c.R.Intn(len(objKeyKinds))]) {
					s = steps
				}
				pattern += "K"
			case r < 81:
				h.rekeyRefused()
				pattern += "r"
			case r < 88:
				h.sign()
				pattern += "s"
			case r < 94:
				if isSM2(h.cur.kp.cv) {
					h.marshal()
					pattern += "m"
				}
			default:
				if isSM2(h.cur.kp.cv) {
					h.selfRoundTrip()
					pattern += "e"
				}
			}
		}
		// the last word is a use of the current key
		if !c.Failed() {
			h.useAny(c.R.Intn(nUses), h.cur, false)
		}
		if len(pattern) > 6 {
			pattern = pattern[:6] + "+"
		}
		c.Class("keyobj/random/%s", pattern)
		c.Event("reference_mults_for_foreign_ciphertexts", h.cur.o.mults)
		c.End()
	}
}
