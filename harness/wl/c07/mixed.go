package c07

import (
	"bytes"
	"fmt"
	"math/big"

	"github.com/emmansun/gmsm/sm2"
	"github.com/emmansun/gmsm/sm3"

	"verifh/mon"
	enc "verifh/ref/sm2enc"
	refsm3 "verifh/ref/sm3"
)

// Interleaved traffic inside one process. Every other C07 workload runs one curve,
// one key and one operation after the other, each on fresh objects; a process of an
// application encrypts and decrypts for several keys on several curves, with messages
// of all sizes, and calls the KDF and the hash for other purposes in between. Whatever
// the library keeps between two calls (pools, scratch buffers, templates, caches, the
// key objects themselves) is exercised only by such histories.
//
// One case is one history. It is prepared completely (keys, reference ciphertexts,
// expected values) before the first library call, then PLAYED without any harness work
// between two library calls, then judged: every step on its own, by the reference, exactly
// as in c07.roundtrip (encryption under a scripted k equals the reference ciphertext byte
// for byte; decryption of a reference ciphertext returns the message; KDF and hash equal
// ref/sm3; a converter's result denotes the same triple). The input buffers handed to the
// library are the caller's: one buffer is used for several steps and must be unchanged at the end.

// traffic classes: length of the KDF input x2||y2 (per curve) and number of KDF output blocks
var mixCurves = []enc.Curve{enc.SM2, enc.P256, enc.P224, enc.P384, enc.P521}

const (
	mcSM2 = iota
	mcP256
	mcP224
	mcP384
	mcP521
	mcKDF // direct sm3.Kdf call with an input of another length
)

var mixClassNames = []string{"sm2", "p256", "p224", "p384", "p521", "kdf"}

// message lengths by KDF tier: fewer than 4 output blocks (one-at-a-time code), 4..7 (4 lanes),
// 8 and more (8 lanes with AVX2, 4 lanes twice otherwise; remainders of 4 lanes and of single blocks)
var mixLens = [3][]int{
	{1, 2, 16, 31, 32, 33, 63, 64, 65, 95, 96},
	{97, 100, 127, 128, 129, 159, 160, 161, 192, 193, 223, 224},
	{225, 250, 255, 256, 257, 287, 288, 289, 352, 383, 384, 385, 416, 417, 480, 511, 512, 513, 600, 1000},
}
var mixTierNames = [3]string{"1-3", "4-7", "8+"}

// input lengths of direct KDF calls: around the places where counter and padding cross a block boundary
var mixZLens = []int{1, 16, 31, 32, 33, 48, 51, 52, 55, 56, 59, 60, 63, 65, 66, 95, 97, 100, 115, 116, 119, 120, 123, 124, 127, 129, 131, 133, 200}

func tierOf(n int) int {
	switch b := (n + 31) / 32; {
	case b < 4:
		return 0
	case b < 8:
		return 1
	}
	return 2
}

type mixKey struct {
	kp   *keyPair
	o    *oracle
	name string // "sm2 key object 1 (NewPrivateKey)", "p384 key object 0"
}

// mixRec is one reference ciphertext of the history.
type mixRec struct {
	key  *mixKey
	k    *big.Int
	m    []byte // handed to the library as it is
	m0   []byte // private copy
	ct   *enc.Ciphertext
	sers map[string][]byte // serialisations handed to the library as they are
	ser0 map[string][]byte
}

type mixStep struct {
	desc    string
	traffic string // "<class>:<tier>" for steps that run the KDF, "" otherwise
	run     func()
	judge   func(what string)
}

type mixHistory struct {
	c     *mon.Case
	keys  [5][]*mixKey
	recs  []*mixRec
	steps []*mixStep
	ctorI int
	// option objects are the caller's, too: one per variant for the whole history
	encOpts map[int]*sm2.EncrypterOpts
	decOpts map[int]*sm2.DecrypterOpts
}

// key returns the j-th key object of curve class mc of this history, building it on first use.
func (h *mixHistory) key(mc, j int) *mixKey {
	for len(h.keys[mc]) <= j {
		var kp *keyPair
		name := fmt.Sprintf("%s key object %d", mixClassNames[mc], len(h.keys[mc]))
		if mc == mcSM2 {
			ci := h.ctorI + len(h.keys[mc])
			kp = construct(h.c, ci, objKeyKinds[h.c.R.Intn(len(objKeyKinds))])
			if kp == nil {
				return nil
			}
			name += " (" + ctors[ci%len(ctors)].name + ")"
		} else {
			kp = newKey(mixCurves[mc], pickKey(h.c, mixCurves[mc], "random"))
		}
		h.keys[mc] = append(h.keys[mc], &mixKey{kp: kp, o: newOracle(kp), name: name})
	}
	return h.keys[mc][j]
}

func (h *mixHistory) rec(mc, j, n int) *mixRec {
	c := h.c
	key := h.key(mc, j)
	if key == nil {
		return nil
	}
	cv := key.kp.cv
	for try := 0; try < 16; try++ {
		var k *big.Int
		if mc == mcSM2 && c.R.Intn(4) != 0 {
			k = smallK(c) // the cost of the reference multiplication is proportional to the length of k; c07.roundtrip varies k
		} else {
			k = randScalar(c.R, cv.N())
		}
		_, _, x2, y2, err := enc.Shared(cv, k, key.kp.px, key.kp.py)
		if err != nil {
			continue
		}
		mask := enc.Mask(cv, x2, y2, n)
		if allZero(mask) {
			continue
		}
		m := pickMsg(c, []string{"random", "random", "mask", "zeros", "mask^bit"}[c.R.Intn(5)], n, mask)
		ct, err := enc.Encrypt(cv, k, key.kp.px, key.kp.py, m)
		if err != nil {
			continue
		}
		key.o.know(ct)
		r := &mixRec{key: key, k: k, m: m, m0: append([]byte{}, m...), ct: ct, sers: map[string][]byte{}, ser0: map[string][]byte{}}
		h.recs = append(h.recs, r)
		return r
	}
	return nil
}

func (r *mixRec) traffic() string {
	return fmt.Sprintf("%s:%s", cvName(r.key.kp.cv), mixTierNames[tierOf(len(r.m0))])
}

// ser returns the (shared) buffer with one reference serialisation of the record.
func (r *mixRec) ser(l enc.Layout, f enc.Form) []byte {
	name := l.String() + "/" + f.String()
	if b, ok := r.sers[name]; ok {
		return b
	}
	var b []byte
	if l == enc.ASN1 {
		b = r.ct.ASN1()
	} else {
		b = r.ct.Plain(enc.Order(l), f)
	}
	r.sers[name] = b
	r.ser0[name] = append([]byte{}, b...)
	return b
}

func (h *mixHistory) addEnc(r *mixRec) {
	c := h.c
	vi := c.R.Intn(len(encVariants))
	ev := &encVariants[vi]
	src := script(c, kBlock(r.key.kp.cv, r.k))
	var got []byte
	var err error
	st := &mixStep{desc: fmt.Sprintf("%s of %d bytes to %s", ev.name, len(r.m), r.key.name), traffic: r.traffic()}
	if ev.mkOpts != nil {
		if h.encOpts == nil {
			h.encOpts = map[int]*sm2.EncrypterOpts{}
		}
		if h.encOpts[vi] == nil {
			h.encOpts[vi] = ev.mkOpts()
		}
		opts := h.encOpts[vi]
		st.run = func() { got, err = sm2.Encrypt(src, &r.key.kp.priv.PublicKey, r.m, opts) }
	} else {
		st.run = func() { got, err = ev.call(src, &r.key.kp.priv.PublicKey, r.m) }
	}
	st.judge = func(what string) {
		if err != nil {
			c.Fail("reject", "%s: failed on a %d-byte message: %v (random source: %d bytes read, budget hit %v)", what, len(r.m0), err, src.Consumed(), src.Budget)
			return
		}
		c.Event("encryptions", 1)
		evn := *ev
		evn.name = what
		judgeEnc(c, r.key.o, &evn, r.ct, r.k, got, r.m0)
	}
	h.steps = append(h.steps, st)
}

func (h *mixHistory) addDec(r *mixRec) {
	c := h.c
	dvi := c.R.Intn(len(decVariants))
	dv := &decVariants[dvi]
	f := enc.Uncompressed
	if c.R.Intn(3) == 0 {
		f = enc.Compressed
	}
	b := r.ser(dv.demanded[0], f)
	var pt []byte
	var err error
	st := &mixStep{desc: fmt.Sprintf("%s of a %v/%v reference ciphertext (%d-byte message) with %s", dv.name, dv.demanded[0], f, len(r.m), r.key.name), traffic: r.traffic()}
	if dv.mkOpts != nil {
		if h.decOpts == nil {
			h.decOpts = map[int]*sm2.DecrypterOpts{}
		}
		if h.decOpts[dvi] == nil {
			h.decOpts[dvi] = dv.mkOpts()
		}
		opts := h.decOpts[dvi]
		st.run = func() { pt, err = r.key.kp.priv.Decrypt(decRand, b, opts) }
	} else {
		st.run = func() { pt, err = dv.call(r.key.kp.priv, b) }
	}
	st.judge = func(what string) {
		// the reference's verdict on the bytes as they were prepared
		if r.key.o.judge(c, what, r.ser0[dv.demanded[0].String()+"/"+f.String()], dv, pt, err) {
			c.Event("mixed_decryptions", 1)
		} else if !c.Failed() {
			c.Fail("reject", "%s: not decrypted", what)
		}
	}
	h.steps = append(h.steps, st)
}

func (h *mixHistory) addKDF(zlen, n int) {
	c := h.c
	z := c.R.Bytes(zlen)
	z0 := append([]byte{}, z...)
	want := refsm3.KDF(z0, n)
	var got []byte
	st := &mixStep{desc: fmt.Sprintf("sm3.Kdf(%d-byte input, %d bytes)", zlen, n), traffic: fmt.Sprintf("kdf:%s", mixTierNames[tierOf(n)])}
	st.run = func() { got = sm3.Kdf(z, n) }
	st.judge = func(what string) {
		c.Event("mixed_kdf_calls", 1)
		c.Eq(what, got, want)
		if !bytes.Equal(z, z0) && !c.Failed() {
			c.Fail("mismatch", "%s: the KDF changed its input buffer", what)
		}
	}
	h.steps = append(h.steps, st)
}

func (h *mixHistory) addHash(n int) {
	c := h.c
	d := c.R.Bytes(n)
	w := refsm3.Sum(d)
	var got [32]byte
	st := &mixStep{desc: fmt.Sprintf("sm3.Sum(%d bytes)", n)}
	st.run = func() { got = sm3.Sum(d) }
	st.judge = func(what string) {
		c.Event("mixed_hash_calls", 1)
		c.Eq(what, got[:], w[:])
	}
	h.steps = append(h.steps, st)
}

// addConv: one converter call on a reference serialisation of an SM2-curve record.
func (h *mixHistory) addConv(r *mixRec) {
	c := h.c
	f := enc.Uncompressed
	if c.R.Bool() {
		f = enc.Compressed
	}
	var in []byte
	var call func(b []byte) ([]byte, error)
	var target enc.Layout
	var name string
	switch c.R.Intn(4) {
	case 0:
		in, target, name = r.ser(enc.PlainC1C3C2, f), enc.PlainC1C2C3, "AdjustCiphertextSplicingOrder(C1C3C2->C1C2C3)"
		call = func(b []byte) ([]byte, error) { return sm2.AdjustCiphertextSplicingOrder(b, sm2.C1C3C2, sm2.C1C2C3) }
	case 1:
		in, target, name = r.ser(enc.PlainC1C2C3, f), enc.PlainC1C3C2, "AdjustCiphertextSplicingOrder(C1C2C3->C1C3C2)"
		call = func(b []byte) ([]byte, error) { return sm2.AdjustCiphertextSplicingOrder(b, sm2.C1C2C3, sm2.C1C3C2) }
	case 2:
		in, target, name = r.ser(enc.PlainC1C2C3, f), enc.ASN1, "PlainCiphertext2ASN1(C1C2C3)"
		call = func(b []byte) ([]byte, error) { return sm2.PlainCiphertext2ASN1(b, sm2.C1C2C3) }
	default:
		in, target, name = r.ser(enc.ASN1, enc.Uncompressed), enc.PlainC1C2C3, "ASN1Ciphertext2Plain(compressed,C1C2C3)"
		const vi = 4 // the option object that the Encrypt/plain-C-C1C2C3 steps of this history use
		if h.encOpts == nil {
			h.encOpts = map[int]*sm2.EncrypterOpts{}
		}
		if h.encOpts[vi] == nil {
			h.encOpts[vi] = encVariants[vi].mkOpts()
		}
		opts := h.encOpts[vi]
		call = func(b []byte) ([]byte, error) { return sm2.ASN1Ciphertext2Plain(b, opts) }
	}
	var out []byte
	var err error
	st := &mixStep{desc: fmt.Sprintf("%s on a reference ciphertext (%d-byte message)", name, len(r.m))}
	st.run = func() { out, err = call(in) }
	st.judge = func(what string) {
		c.Event("mixed_conversions", 1)
		if err != nil {
			c.Fail("reject", "%s: converter refused a valid ciphertext: %v", what, err)
			return
		}
		if t, perr := enc.Parse(r.key.kp.cv, out, target); perr != nil || !t.SameAs(r.ct) {
			c.Detail("output", out)
			c.Fail("mismatch", "%s: the result is not a %v serialisation of the same (C1, C2, C3)", what, target)
		}
	}
	h.steps = append(h.steps, st)
}

// op adds one step of traffic class mc (a curve, or the direct KDF) whose KDF produces a
// number of blocks of the given tier; enc chooses between encryption and decryption.
func (h *mixHistory) op(mc, tier int, encrypt bool) bool {
	c := h.c
	n := mixLens[tier][c.R.Intn(len(mixLens[tier]))]
	if mc == mcKDF {
		h.addKDF(mixZLens[c.R.Intn(len(mixZLens))], n)
		return true
	}
	j := 0
	if mc == mcSM2 {
		j = c.R.Intn(2)
	}
	r := h.rec(mc, j, n)
	if r == nil {
		return false
	}
	if encrypt {
		h.addEnc(r)
	} else {
		h.addDec(r)
	}
	return true
}

// play runs the steps in the given order, back to back, then judges them.
func (h *mixHistory) play(order []int) {
	c := h.c
	done := make([]bool, len(order))
	for i, si := range order {
		st := h.steps[si]
		done[i] = c.Call(fmt.Sprintf("step %d of %d: %s", i+1, len(order), st.desc), st.run)
		c.Event("calls", 1)
	}
	prev, prevMulti := "", false
	for i, si := range order {
		st := h.steps[si]
		before := "the first step"
		if i > 0 {
			before = "after: " + h.steps[order[i-1]].desc
			if i > 1 {
				before += "; before that: " + h.steps[order[i-2]].desc
			}
		}
		if done[i] {
			st.judge(fmt.Sprintf("step %d of %d: %s (%s)", i+1, len(order), st.desc, clipS(before, 400)))
		}
		if st.traffic != "" {
			multi := st.traffic[len(st.traffic)-3:] != "1-3"
			if prev != "" && multi && prevMulti {
				c.Event("mixed_adjacent_multilane/"+prev+">"+st.traffic, 1)
			}
			prev, prevMulti = st.traffic, multi
		}
	}
	// the caller's buffers are still what the caller put there
	for _, r := range h.recs {
		if !bytes.Equal(r.m, r.m0) && !c.Failed() {
			c.Fail("mismatch", "a %d-byte message buffer handed to Encrypt was changed by the library", len(r.m0))
		}
		for name, b := range r.sers {
			if !bytes.Equal(b, r.ser0[name]) && !c.Failed() {
				c.Fail("mismatch", "a ciphertext buffer (%s, %d-byte message) handed to the library was changed by it", name, len(r.m0))
			}
		}
	}
	c.Event("mixed_steps", len(order))
}

func mixed(x *mon.Ctx) {
	selfTest(x)
	if err := refsm3.SelfTest(); err != nil {
		x.HarnessError("%v", err)
	}
	// (1) every ordered pair of multi-lane traffic classes (A, B): A B A B with encryption and decryption alternating
	type tc struct{ mc, tier int }
	var tcs []tc
	for mc := mcSM2; mc <= mcKDF; mc++ {
		for tier := 1; tier <= 2; tier++ {
			tcs = append(tcs, tc{mc, tier})
		}
	}
	for ai, a := range tcs {
		for bi, b := range tcs {
			c := x.Begin("mixed pair A=%s:%s B=%s:%s (A B A B back to back; encrypt/decrypt alternate; keys, lengths, contents from the case PRNG)",
				mixClassNames[a.mc], mixTierNames[a.tier], mixClassNames[b.mc], mixTierNames[b.tier])
			if c == nil {
				continue
			}
			c.Class("mixed/pair/%s:%s>%s:%s", mixClassNames[a.mc], mixTierNames[a.tier], mixClassNames[b.mc], mixTierNames[b.tier])
			h := &mixHistory{c: c, ctorI: ai*len(tcs) + bi}
			first := (ai+bi)%2 == 0
			ok := h.op(a.mc, a.tier, first) && h.op(b.mc, b.tier, !first) && h.op(a.mc, a.tier, !first) && h.op(b.mc, b.tier, first)
			if ok && !c.Failed() {
				order := make([]int, len(h.steps))
				for i := range order {
					order[i] = i
				}
				h.play(order)
			} else if !c.Failed() {
				c.Inconclusive("no reference ciphertext")
			}
			c.End()
		}
	}
	// (2) long random histories over all classes and tiers, with converter and hash calls in between
	subsets := [][]int{{mcP384, mcP224}, {mcP521, mcP256}, {mcP384, mcP521}, {mcP224, mcP256, mcP384}, {mcP521, mcP224}, {mcP256, mcP384}}
	for i := 0; i < x.Scale(24, 1500); i++ {
		sub := subsets[i%len(subsets)]
		c := x.Begin("mixed random history i=%d (two SM2 key objects and keys on %v, steps and their order from the case PRNG)", i, names(sub))
		if c == nil {
			continue
		}
		h := &mixHistory{c: c, ctorI: i}
		nrec := c.R.Range(10, 14)
		for j := 0; j < nrec && !c.Failed(); j++ {
			mc := mcSM2
			if c.R.Intn(2) == 0 {
				mc = sub[c.R.Intn(len(sub))]
			}
			tier := []int{0, 1, 1, 2, 2}[c.R.Intn(5)]
			n := mixLens[tier][c.R.Intn(len(mixLens[tier]))]
			k := 0
			if mc == mcSM2 {
				k = c.R.Intn(2)
			}
			r := h.rec(mc, k, n)
			if r == nil {
				continue
			}
			h.addEnc(r)
			h.addDec(r)
			if c.R.Bool() {
				h.addDec(r)
			}
			if mc == mcSM2 && c.R.Intn(3) == 0 {
				h.addConv(r)
			}
		}
		for j := c.R.Range(5, 8); j > 0; j-- {
			tier := []int{0, 1, 2, 2}[c.R.Intn(4)]
			h.addKDF(mixZLens[c.R.Intn(len(mixZLens))], mixLens[tier][c.R.Intn(len(mixLens[tier]))])
		}
		for j := c.R.Range(2, 4); j > 0; j-- {
			h.addHash([]int{0, 1, 55, 56, 63, 64, 65, 119, 120, 128, 200, 1000}[c.R.Intn(12)])
		}
		if !c.Failed() {
			h.play(c.R.Perm(len(h.steps)))
		}
		ca, cb := "-", "-"
		if len(h.keys[mcSM2]) > 0 {
			ca = ctors[(h.ctorI)%len(ctors)].name
		}
		if len(h.keys[mcSM2]) > 1 {
			cb = ctors[(h.ctorI+1)%len(ctors)].name
		}
		c.Class("mixed/random/%v/sm2-keys:%s,%s", names(sub), ca, cb)
		c.End()
	}
}

func names(mcs []int) string {
	s := ""
	for i, m := range mcs {
		if i > 0 {
			s += "+"
		}
		s += mixClassNames[m]
	}
	return s
}
