package c07

import (
	"bytes"
	"math/big"
	"strings"

	"verifh/mon"
	enc "verifh/ref/sm2enc"
)

// Matchers for defects of the pinned tree that were reported while this check was
// written. Each one is a predicate on the input AND a model of the defective
// behaviour (panic message and frame, or the exact wrong plaintext); anything else
// that goes wrong on the same inputs is still an ordinary violation. The driver
// suppresses a match only if KNOWN_FINDINGS.txt lists the id as open.
const (
	// sm2/sm2_legacy.go decryptLegacy: a non-SM2-curve key, plain layout, a valid C1 followed
	// by fewer than 32 bytes: ciphertext[c3Start+32:] / ciphertext[c3Start:len-32] out of range.
	idLegacyShort = "sm2-decrypt-panic-legacy-short"
	// sm2/sm2_legacy.go rawDecrypt: ASN.1 layout on a NIST curve, (x1,y1) not on the curve:
	// crypto/elliptic's ScalarMult panics on invalid points; the point is never validated.
	idLegacyOffCurve = "sm2-decrypt-panic-legacy-asn1-offcurve"
	// sm2/sm2_envelopedkey.go ParseEnvelopedPrivateKey: sm2EncryptedPrivateKey BIT STRING whose
	// length is not a multiple of 16 goes straight into ECB CryptBlocks.
	idEnvelopeBits = "sm2-decrypt-panic-enveloped-bitstring"
	// sm2/sm2_legacy.go rawDecrypt: ASN.1 layout on a NIST curve with x1 = y1 = 0 (the stdlib's
	// notation for the point at infinity): decrypts with (x2,y2) = (0,0) whatever the private key.
	idLegacyInfinity = "sm2-decrypt-legacy-infinity-c1"
)

func init() { knownPanic = matchPanic }

func matchPanic(kp *keyPair, in []byte, p *mon.PanicInfo) string {
	msg := p.String()
	if kp == nil {
		return ""
	}
	if strings.Contains(p.Stack, "sm2.ParseEnvelopedPrivateKey(") {
		if strings.Contains(msg, "input not full blocks") && strings.Contains(p.Stack, "CryptBlocks") {
			if n, ok := envelopeKeyBits(in); ok && n%16 != 0 {
				return idEnvelopeBits
			}
		}
		return ""
	}
	if isSM2(kp.cv) || len(in) == 0 {
		return ""
	}
	switch {
	case strings.Contains(msg, "slice bounds out of range") && strings.Contains(p.Stack, "sm2.decryptLegacy("):
		_, _, used, _, err := enc.ParsePoint(kp.cv, in)
		if err == nil && in[0] != 0x30 && len(in) < used+32 {
			return idLegacyShort
		}
	case strings.Contains(msg, "ScalarMult was called on an invalid point") && strings.Contains(p.Stack, "sm2.rawDecrypt("):
		if t, err := enc.SplitASN1(in); err == nil && !kp.cv.OnCurve(t.X1, t.Y1) && !(t.X1.Sign() == 0 && t.Y1.Sign() == 0) {
			return idLegacyOffCurve
		}
	}
	return ""
}

// envelopeKeyBits returns the number of content bytes (without the unused-bits octet)
// of the fourth element of an SM2EnvelopedKey, if the outer structure can be walked.
func envelopeKeyBits(b []byte) (int, bool) {
	t, err := splitSeq(b)
	if err != nil || len(t) != 4 || t[3].tag != 3 || len(t[3].val) < 1 {
		return 0, false
	}
	return len(t[3].val) - 1, true
}

type elem struct {
	tag byte
	val []byte
}

// splitSeq walks the elements of an outer DER SEQUENCE (short and long definite lengths).
func splitSeq(b []byte) ([]elem, error) {
	rd := func(b []byte) (elem, []byte, bool) {
		if len(b) < 2 {
			return elem{}, nil, false
		}
		l, off := int(b[1]), 2
		if l&0x80 != 0 {
			nb := l & 0x7f
			if nb == 0 || nb > 3 || len(b) < 2+nb {
				return elem{}, nil, false
			}
			l = 0
			for _, v := range b[2 : 2+nb] {
				l = l<<8 | int(v)
			}
			off = 2 + nb
		}
		if len(b)-off < l {
			return elem{}, nil, false
		}
		return elem{b[0], b[off : off+l]}, b[off+l:], true
	}
	outer, rest, ok := rd(b)
	if !ok || outer.tag != 0x30 || len(rest) != 0 {
		return nil, enc.ErrDecrypt
	}
	var out []elem
	for body := outer.val; len(body) > 0; {
		e, r, ok := rd(body)
		if !ok {
			return nil, enc.ErrDecrypt
		}
		out = append(out, e)
		body = r
	}
	return out, nil
}

// knownAccept recognises the plaintext the library returns for C1 = (0,0) on the
// legacy path: the reference opening with (x2,y2) = (0,0).
func knownAccept(kp *keyPair, in, pt []byte) string {
	if isSM2(kp.cv) {
		return ""
	}
	t, err := enc.SplitASN1(in)
	if err != nil || t.X1.Sign() != 0 || t.Y1.Sign() != 0 {
		return ""
	}
	zero := big.NewInt(0)
	if m, err := enc.Open(kp.cv, zero, zero, t.C2, t.C3); err == nil && bytes.Equal(m, pt) {
		return idLegacyInfinity
	}
	return ""
}
