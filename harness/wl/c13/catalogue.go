package c13

// The catalogue of entry points that consume externally supplied bytes. Each entry
// names the artefacts it is seeded with and a closure that hands the hostile bytes
// to the library and, when the bytes are accepted, goes on to every accessor that
// works on the parsed object (verify, decrypt, ...). A closure returns true when the
// first call accepted the bytes. Keys, passwords, identities and option values are
// structural arguments and are always valid; only b is hostile.

import (
	"crypto/ecdsa"
	"crypto/x509/pkix"
	"encoding/asn1"
	"encoding/pem"
	"fmt"

	"github.com/emmansun/gmsm/cfca"
	"github.com/emmansun/gmsm/ecdh"
	"github.com/emmansun/gmsm/padding"
	"github.com/emmansun/gmsm/pkcs7"
	"github.com/emmansun/gmsm/pkcs8"
	"github.com/emmansun/gmsm/sm2"
	"github.com/emmansun/gmsm/sm9"
	"github.com/emmansun/gmsm/smx509"
)

type entry struct {
	name  string
	seeds []string
	f     func(b []byte) bool
	kdf   bool // password-based: the work-factor guard screens every mutant
	tier  bool // the code path contains a primitive whose implementation depends on the dispatch tier (SM4 modes)
	// seeds the entry point is expected to refuse although they are valid artefacts (wrong password, other
	// layout); every other seed must be accepted unmodified, or the sweep from it would be vacuous
	rejects []string
	chunk   int // positions per case (default 256); smaller for entry points that cost milliseconds
	// text: the text-grammar mutator applies (quick: 16 characters, thorough: 36): set for the entry points that
	// hand the bytes to the X.509 / CSR / CRL / PEM / escrow parsers directly; containers that embed certificates
	// reach the same sub-parsers
	text bool
	// signed: the seeds are authenticated artefacts (names.go): only the DER-tree mutators, which re-sign,
	// apply; swept by the workload c13.names
	signed bool
	// kinds: when set, only these mutator kinds (and the unmodified seeds) apply: entry points that verify under keys
	// of every kind cost milliseconds per call and exist for the der-algid product; the artefact forms they parse are
	// swept in full through the ordinary entry points
	kinds []int
}

func (e *entry) wants(kind int) bool {
	if e.kinds == nil {
		return true
	}
	for _, k := range e.kinds {
		if k == kind {
			return true
		}
	}
	return false
}

func catalogue(w *world) []*entry {
	w.buildKeyKinds() // the artefacts of the key-kind PKI (algid.go) join the world with the catalogue
	var es []*entry
	add := func(name string, seeds []string, f func(b []byte) bool) *entry {
		e := &entry{name: name, seeds: seeds, f: f, chunk: 256}
		for _, s := range seeds {
			w.get(s)
		}
		es = append(es, e)
		return e
	}
	S := func(s ...string) []string { return s }
	slow := func(e *entry) { e.chunk = 64 }
	// entry points whose every call costs tens of milliseconds under the race detector (generic P-384/P-521, RSA
	// private-key operations): small cases, so that a case stays far below the watchdog limit on a loaded machine
	verySlow := func(e *entry) { e.chunk = 16 }

	// ---------------------------------------------------------------- sm2
	pubA := &w.sm2A.PublicKey
	add("sm2.VerifyASN1WithSM2", S("sm2.sig"), func(b []byte) bool { return sm2.VerifyASN1WithSM2(pubA, nil, w.msg, b) })
	add("sm2.VerifyASN1", S("sm2.sig.digest"), func(b []byte) bool { return sm2.VerifyASN1(pubA, w.digest, b) })
	verySlow(add("sm2.VerifyASN1/legacy-p384", S("sm2.legacy.p384.sig"), func(b []byte) bool { return sm2.VerifyASN1(&w.nistP384.PublicKey, w.digest, b) }))
	add("sm2.RecoverPublicKeysFromSM2Signature", S("sm2.sig.digest"), func(b []byte) bool {
		_, err := sm2.RecoverPublicKeysFromSM2Signature(w.digest, b)
		return err == nil
	})
	add("sm2.Decrypt", S("sm2.ct.c1c3c2", "sm2.ct.compressed", "sm2.ct.hybrid", "sm2.ct.asn1", "sm2.ct.asn1.short"), func(b []byte) bool {
		_, err := sm2.Decrypt(w.sm2A, b)
		return err == nil
	})
	add("sm2.PrivateKey.Decrypt/C1C2C3", S("sm2.ct.c1c2c3"), func(b []byte) bool {
		_, err := w.sm2A.Decrypt(nil, b, sm2.NewPlainDecrypterOpts(sm2.C1C2C3))
		return err == nil
	})
	add("sm2.PrivateKey.Decrypt/ASN1opts", S("sm2.ct.asn1", "sm2.ct.c1c3c2"), func(b []byte) bool {
		_, err := w.sm2A.Decrypt(nil, b, sm2.ASN1DecrypterOpts)
		return err == nil
	})
	for _, v := range []struct {
		n string
		k *sm2.PrivateKey
	}{{"p256", w.nistP256}, {"p521", w.nistP521}} {
		k := v.k
		pace := slow
		if v.n == "p521" {
			pace = verySlow
		}
		pace(add("sm2.Decrypt/legacy-"+v.n, S("sm2.legacy."+v.n+".ct.c1c3c2", "sm2.legacy."+v.n+".ct.asn1"), func(b []byte) bool {
			_, err := sm2.Decrypt(k, b)
			return err == nil
		}))
		pace(add("sm2.PrivateKey.Decrypt/legacy-"+v.n+"/C1C2C3", S("sm2.legacy."+v.n+".ct.c1c2c3"), func(b []byte) bool {
			_, err := k.Decrypt(nil, b, sm2.NewPlainDecrypterOpts(sm2.C1C2C3))
			return err == nil
		}))
		pace(add("sm2.PrivateKey.Decrypt/legacy-"+v.n+"/ASN1opts", S("sm2.legacy."+v.n+".ct.asn1"), func(b []byte) bool {
			_, err := k.Decrypt(nil, b, sm2.ASN1DecrypterOpts)
			return err == nil
		}))
	}
	add("sm2.ASN1Ciphertext2Plain", S("sm2.ct.asn1"), func(b []byte) bool {
		_, err := sm2.ASN1Ciphertext2Plain(b, nil)
		_, err2 := sm2.ASN1Ciphertext2Plain(b, sm2.NewPlainEncrypterOpts(sm2.MarshalCompressed, sm2.C1C2C3))
		return err == nil && err2 == nil
	})
	add("sm2.PlainCiphertext2ASN1", S("sm2.ct.c1c3c2", "sm2.ct.compressed"), func(b []byte) bool {
		_, err := sm2.PlainCiphertext2ASN1(b, sm2.C1C3C2)
		sm2.PlainCiphertext2ASN1(b, sm2.C1C2C3)
		return err == nil
	})
	add("sm2.AdjustCiphertextSplicingOrder", S("sm2.ct.c1c3c2", "sm2.ct.compressed", "sm2.ct.asn1"), func(b []byte) bool {
		_, err := sm2.AdjustCiphertextSplicingOrder(b, sm2.C1C3C2, sm2.C1C2C3)
		sm2.AdjustCiphertextSplicingOrder(b, sm2.C1C2C3, sm2.C1C3C2)
		return err == nil
	})
	add("sm2.ParseEnvelopedPrivateKey", S("sm2.enveloped"), func(b []byte) bool {
		_, err := sm2.ParseEnvelopedPrivateKey(w.sm2A, b)
		return err == nil
	})
	add("sm2.NewPublicKey", S("sm2.pub.uncompressed", "sm2.pub.compressed"), func(b []byte) bool {
		_, err := sm2.NewPublicKey(b)
		return err == nil
	}).rejects = S("sm2.pub.compressed")
	add("sm2.NewPrivateKey", S("sm2.priv.scalar"), func(b []byte) bool {
		_, err := sm2.NewPrivateKey(b)
		return err == nil
	})
	sm2kx := func() (ini, rsp *sm2.KeyExchange, rB *ecdsa.PublicKey, sB []byte, ok bool) {
		ini, err := sm2.NewKeyExchange(w.sm2A, &w.sm2B.PublicKey, w.uid, w.uidB, 32, true)
		rsp, err2 := sm2.NewKeyExchange(w.sm2B, &w.sm2A.PublicKey, w.uidB, w.uid, 32, true)
		if err != nil || err2 != nil {
			return
		}
		rA, err := ini.InitKeyExchange(w.kxRand("sm2.A"))
		if err != nil {
			return
		}
		rB, sB, err = rsp.RepondKeyExchange(w.kxRand("sm2.B"), rA)
		return ini, rsp, rB, sB, err == nil
	}
	add("sm2.KeyExchange.ConfirmResponder", S("sm2.kx.sB"), func(b []byte) bool {
		ini, _, rB, _, ok := sm2kx()
		if !ok {
			return false
		}
		_, _, err := ini.ConfirmResponder(rB, b)
		return err == nil
	})
	add("sm2.KeyExchange.ConfirmInitiator", S("sm2.kx.sA"), func(b []byte) bool {
		ini, rsp, rB, sB, ok := sm2kx()
		if !ok {
			return false
		}
		if _, _, err := ini.ConfirmResponder(rB, sB); err != nil {
			return false
		}
		_, err := rsp.ConfirmInitiator(b)
		return err == nil
	})
	// hostile message in the middle of a LIVE session, after which the session goes on with the genuine messages: a
	// refused message must not leave the object in a state in which the next call panics
	add("sm2.KeyExchange: ConfirmResponder(hostile sB); ConfirmResponder(genuine)", S("sm2.kx.sB"), func(b []byte) bool {
		ini, _, rB, sB, ok := sm2kx()
		if !ok {
			return false
		}
		_, _, err := ini.ConfirmResponder(rB, b)
		ini.ConfirmResponder(rB, sB)
		ini.Destroy()
		return err == nil
	})
	add("sm2.KeyExchange: ConfirmInitiator(hostile sA); ConfirmInitiator(genuine)", S("sm2.kx.sA"), func(b []byte) bool {
		ini, rsp, rB, sB, ok := sm2kx()
		if !ok {
			return false
		}
		_, sA, err := ini.ConfirmResponder(rB, sB)
		if err != nil {
			return false
		}
		_, err = rsp.ConfirmInitiator(b)
		rsp.ConfirmInitiator(sA)
		rsp.Destroy()
		return err == nil
	})

	// ---------------------------------------------------------------- ecdh
	add("ecdh.P256.NewPublicKey", S("sm2.pub.uncompressed", "sm2.pub.compressed"), func(b []byte) bool {
		k, err := ecdh.P256().NewPublicKey(b)
		if err != nil {
			return false
		}
		if priv, err := w.sm2B.ECDH(); err == nil {
			priv.ECDH(k)
		}
		return true
	})
	add("ecdh.P256.NewPrivateKey", S("sm2.priv.scalar"), func(b []byte) bool {
		k, err := ecdh.P256().NewPrivateKey(b)
		if err != nil {
			return false
		}
		k.PublicKey()
		return true
	})
	es[len(es)-2].rejects = S("sm2.pub.compressed")

	// ---------------------------------------------------------------- smx509
	certSeeds := S("x509.cert.root", "x509.cert.leaf", "x509.cert.rsa", "x509.cert.ecdsa")
	add("smx509.ParseCertificate+Verify", certSeeds, func(b []byte) bool {
		c, err := smx509.ParseCertificate(b)
		if err != nil {
			return false
		}
		c.CheckSignatureFrom(w.root)
		c.Verify(smx509.VerifyOptions{Roots: w.pool, CurrentTime: w.now, DNSName: "leaf.a.example"})
		c.VerifyHostname("x.b.example")
		c.VerifyHostname("10.1.2.3")
		c.Equal(w.leaf)
		c.ToX509()
		return true
	}).text = true
	// the certificates of the names PKI (names.go), whose values feed the hand-written string sub-parsers. Without a
	// fresh signature chain building stops at the first link, so these entry points parse and match host names only;
	// verification of the same certificates is driven by the authenticated entry points below
	add("smx509.ParseCertificate+VerifyHostname", S("x509.names.ca", "x509.names.leaf", "x509.names.leaf2", "x509.cert.ed25519", "x509.cert.x25519", "x509.cert.dsa"), func(b []byte) bool {
		c, err := smx509.ParseCertificate(b)
		if err != nil {
			return false
		}
		w.hostnames(c)
		return true
	}).text = true
	// a hostile trust anchor (a root's own signature is never checked): the genuine intermediate, which has names of all four kinds, below it
	add("smx509.ParseCertificate+Verify/as-trust-anchor", S("x509.names.root"), func(b []byte) bool {
		c, err := smx509.ParseCertificate(b)
		if err != nil {
			return false
		}
		roots := smx509.NewCertPool()
		roots.AddCert(c)
		w.nameCA.Verify(smx509.VerifyOptions{Roots: roots, CurrentTime: w.now, KeyUsages: []smx509.ExtKeyUsage{smx509.ExtKeyUsageAny}})
		// the self-issued hostile certificate against the genuine anchor it imitates (same subject and key: the
		// chain builder's loop protection compares names)
		c.Verify(smx509.VerifyOptions{Roots: w.namePool, CurrentTime: w.now, KeyUsages: []smx509.ExtKeyUsage{smx509.ExtKeyUsageAny}})
		return true
	}).text = true
	// hostile certificates that carry a valid signature of their issuer (every mutant is re-signed by the harness):
	// chain building gets past the signature check and runs the name-constraint sub-parsers on the hostile values
	sg := add("smx509.ParseCertificate+Verify/authenticated-leaf", S("x509.names.leaf.signed", "x509.names.leaf2.signed"), func(b []byte) bool {
		c, err := smx509.ParseCertificate(b)
		if err != nil {
			return false
		}
		w.verifyNames(c, w.namePool, w.nameInter)
		return true
	})
	sg.signed, sg.chunk = true, 64
	sg = add("smx509.ParseCertificate+Verify/authenticated-intermediate", S("x509.names.ca.signed"), func(b []byte) bool {
		c, err := smx509.ParseCertificate(b)
		if err != nil {
			return false
		}
		// the genuine leaf below the hostile intermediate; the hostile certificate's own names against the root's constraints
		inter := smx509.NewCertPool()
		inter.AddCert(c)
		w.nameLeaf.Verify(smx509.VerifyOptions{Roots: w.namePool, Intermediates: inter, CurrentTime: w.now, KeyUsages: []smx509.ExtKeyUsage{smx509.ExtKeyUsageAny}})
		if len(c.Signature) > 0 && c.Signature[len(c.Signature)-1]&1 == 0 {
			// (pseudo-randomly every other mutant: one more signature verification)
			c.Verify(smx509.VerifyOptions{Roots: w.namePool, CurrentTime: w.now, KeyUsages: []smx509.ExtKeyUsage{smx509.ExtKeyUsageAny}})
		}
		return true
	})
	sg.signed, sg.chunk = true, 64
	add("smx509.ParseCertificates", S("x509.certs.two"), func(b []byte) bool {
		_, err := smx509.ParseCertificates(b)
		return err == nil
	})
	add("smx509.ParseCertificatePEM", S("x509.cert.leaf.pem"), func(b []byte) bool {
		_, err := smx509.ParseCertificatePEM(b)
		return err == nil
	})
	add("smx509.CertPool.AppendCertsFromPEM", S("x509.cert.leaf.pem", "x509.names.root.pem"), func(b []byte) bool {
		pool := smx509.NewCertPool()
		if !pool.AppendCertsFromPEM(b) {
			return false
		}
		// the pool parses lazily: its certificates are materialised by the first chain built against it
		w.nameCA.Verify(smx509.VerifyOptions{Roots: pool, CurrentTime: w.now, KeyUsages: []smx509.ExtKeyUsage{smx509.ExtKeyUsageAny}})
		pool.Subjects()
		pool.Clone()
		return true
	})
	add("smx509.ParseCertificateRequest+CheckSignature", S("x509.csr.sm2", "x509.csr.rsa", "x509.csr.cfca.sm2", "x509.names.csr"), func(b []byte) bool {
		c, err := smx509.ParseCertificateRequest(b)
		if err != nil {
			return false
		}
		c.CheckSignature()
		c.ToX509()
		return true
	}).text = true
	add("smx509.ParseCertificateRequestPEM", S("x509.csr.sm2.pem"), func(b []byte) bool {
		_, err := smx509.ParseCertificateRequestPEM(b)
		return err == nil
	})
	add("smx509.ParseCFCACertificateRequest", S("x509.csr.cfca.sm2", "x509.csr.cfca.rsa", "x509.csr.sm2", "x509.names.csr.cfca"), func(b []byte) bool {
		c, err := smx509.ParseCFCACertificateRequest(b)
		if err != nil {
			return false
		}
		c.CheckSignature()
		return true
	}).text = true
	add("smx509.ParseRevocationList+CheckSignatureFrom", S("x509.crl", "x509.names.crl"), func(b []byte) bool {
		c, err := smx509.ParseRevocationList(b)
		if err != nil {
			return false
		}
		c.CheckSignatureFrom(w.root)
		c.CheckSignatureFrom(w.nameCA)
		c.ToX509()
		return true
	}).text = true
	add("smx509.ParseCRL+CheckCRLSignature", S("x509.crl", "x509.crl.pem", "x509.names.crl"), func(b []byte) bool {
		c, err := smx509.ParseCRL(b)
		if err != nil {
			return false
		}
		w.root.CheckCRLSignature(c)
		w.nameCA.CheckCRLSignature(c)
		return true
	})
	add("smx509.ParseDERCRL", S("x509.crl"), func(b []byte) bool {
		_, err := smx509.ParseDERCRL(b)
		return err == nil
	})
	add("smx509.ParsePKIXPublicKey", S("key.pkix.sm2", "key.pkix.rsa", "key.pkix.ecdsa", "key.pkix.ed25519", "key.pkix.x25519", "key.pkix.dsa", "key.pkix.kk.p224", "key.pkix.kk.p384", "key.pkix.kk.p521", "key.pkix.kk.rsa2048"), func(b []byte) bool {
		_, err := smx509.ParsePKIXPublicKey(b)
		return err == nil
	})
	add("smx509.ParsePKCS8PrivateKey", S("key.pkcs8.sm2", "key.pkcs8.rsa", "key.pkcs8.ecdsa", "sm9.p8.signmaster", "sm9.p8.encpriv"), func(b []byte) bool {
		_, err := smx509.ParsePKCS8PrivateKey(b)
		return err == nil
	})
	add("smx509.ParseECPrivateKey", S("key.sec1.ecdsa", "key.sec1.sm2"), func(b []byte) bool {
		_, err := smx509.ParseECPrivateKey(b)
		return err == nil
	})
	add("smx509.ParseSM2PrivateKey", S("key.sec1.sm2"), func(b []byte) bool {
		_, err := smx509.ParseSM2PrivateKey(b)
		return err == nil
	})
	add("smx509.ParseTypedECPrivateKey", S("key.sec1.sm2", "key.sec1.ecdsa"), func(b []byte) bool {
		_, err := smx509.ParseTypedECPrivateKey(b)
		return err == nil
	})
	add("smx509.ParsePKCS1PrivateKey", S("key.pkcs1.priv"), func(b []byte) bool {
		_, err := smx509.ParsePKCS1PrivateKey(b)
		return err == nil
	})
	add("smx509.ParsePKCS1PublicKey", S("key.pkcs1.pub"), func(b []byte) bool {
		_, err := smx509.ParsePKCS1PublicKey(b)
		return err == nil
	})
	add("smx509.ParseCSRResponse", S("x509.csrresponse"), func(b []byte) bool {
		_, err := smx509.ParseCSRResponse(w.sm2B, b)
		return err == nil
	})
	pemSeeds := S("pemenc.des", "pemenc.3des", "pemenc.aes128", "pemenc.aes192", "pemenc.aes256", "pemenc.sm4")
	add("smx509.DecryptPEMBlock/text", pemSeeds, func(b []byte) bool {
		blk, _ := pem.Decode(b)
		if blk == nil {
			return false
		}
		smx509.IsEncryptedPEMBlock(blk)
		_, err := smx509.DecryptPEMBlock(blk, w.pw)
		smx509.DecryptPEMBlock(blk, w.wrongPw)
		return err == nil
	}).text = true
	{
		// the payload bytes of an encrypted block, with the genuine headers
		blk, _ := pem.Decode(w.get("pemenc.sm4").data)
		w.addRaw("pemenc.sm4.payload", blk.Bytes)
		blk2, _ := pem.Decode(w.get("pemenc.des").data)
		w.addRaw("pemenc.des.payload", blk2.Bytes)
		add("smx509.DecryptPEMBlock/payload-sm4", S("pemenc.sm4.payload"), func(b []byte) bool {
			_, err := smx509.DecryptPEMBlock(&pem.Block{Type: blk.Type, Headers: blk.Headers, Bytes: b}, w.pw)
			return err == nil
		})
		add("smx509.DecryptPEMBlock/payload-des", S("pemenc.des.payload"), func(b []byte) bool {
			_, err := smx509.DecryptPEMBlock(&pem.Block{Type: blk2.Type, Headers: blk2.Headers, Bytes: b}, w.pw)
			return err == nil
		})
	}

	algEntries(w, add)

	// ---------------------------------------------------------------- pkcs8
	p8enc := S("p8enc.sm.pbes", "p8enc.sm4cbc.pbkdf2-sm3", "p8enc.sm4gcm.pbkdf2-sm3", "p8enc.sm4ecb.pbkdf2-sha256", "p8enc.aes128cbc.pbkdf2-sha1",
		"p8enc.aes256gcm.pbkdf2-sha512", "p8enc.3des.pbkdf2-sha224", "p8enc.des.pbkdf2-sha384", "p8enc.sm4cbc.scrypt", "p8enc.aes192gcm.scrypt",
		"p8enc.pbes1.sha1-des", "p8enc.pbes1.md5-rc2", "p8enc.pbes1.md2-des", "p8enc.rsa.sm4cbc")
	add("pkcs8.ParsePrivateKey/password", p8enc, func(b []byte) bool {
		_, _, err := pkcs8.ParsePrivateKey(b, w.pw)
		return err == nil
	}).kdf = true
	wp := add("pkcs8.ParsePrivateKey/wrong-password", S("p8enc.sm.pbes", "p8enc.sm4gcm.pbkdf2-sm3", "p8enc.pbes1.sha1-des", "p8enc.sm4cbc.scrypt"), func(b []byte) bool {
		_, _, err := pkcs8.ParsePrivateKey(b, w.wrongPw)
		return err == nil
	})
	wp.kdf, wp.rejects = true, wp.seeds
	add("pkcs8.ParsePrivateKey/no-password", S("key.pkcs8.sm2", "p8enc.sm.pbes"), func(b []byte) bool {
		_, _, err := pkcs8.ParsePrivateKey(b, nil)
		return err == nil
	}).rejects = S("p8enc.sm.pbes")
	add("pkcs8.ParsePKCS8PrivateKey{,SM2,ECDSA,RSA}", S("key.pkcs8.sm2", "key.pkcs8.ecdsa", "key.pkcs8.rsa"), func(b []byte) bool {
		_, err := pkcs8.ParsePKCS8PrivateKey(b)
		pkcs8.ParsePKCS8PrivateKeySM2(b)
		pkcs8.ParsePKCS8PrivateKeyECDSA(b)
		pkcs8.ParsePKCS8PrivateKeyRSA(b)
		return err == nil
	})
	add("pkcs8.ParsePKCS8PrivateKeySM2/password", S("p8enc.sm.pbes"), func(b []byte) bool {
		_, err := pkcs8.ParsePKCS8PrivateKeySM2(b, w.pw)
		return err == nil
	}).kdf = true
	add("pkcs8.ParsePKCS8PrivateKeyRSA/password", S("p8enc.rsa.sm4cbc"), func(b []byte) bool {
		_, err := pkcs8.ParsePKCS8PrivateKeyRSA(b, w.pw)
		return err == nil
	}).kdf = true
	add("pkcs8.ParseSM9*PrivateKey", S("sm9.p8.signmaster", "sm9.p8.signpriv", "sm9.p8.encmaster", "sm9.p8.encpriv"), func(b []byte) bool {
		_, e1 := pkcs8.ParseSM9SignMasterPrivateKey(b)
		_, e2 := pkcs8.ParseSM9SignPrivateKey(b)
		_, e3 := pkcs8.ParseSM9EncryptMasterPrivateKey(b)
		_, e4 := pkcs8.ParseSM9EncryptPrivateKey(b)
		return e1 == nil || e2 == nil || e3 == nil || e4 == nil
	})

	// ---------------------------------------------------------------- pkcs7
	mdOID := asn1.ObjectIdentifier{1, 2, 840, 113549, 1, 9, 4}
	// accessors that do not fit the content type return at once (no cryptography); they are called on every parsed
	// object so that each accessor sees every content type
	p7cheap := func(p *pkcs7.PKCS7, signed, enveloped, encrypted, saed bool) {
		p.GetOnlySigner()
		var md []byte
		p.UnmarshalSignedAttribute(mdOID, &md)
		p.GetRecipients()
		if !signed {
			p.Verify()
			p.VerifyAsDigest()
		}
		if !enveloped {
			p.Decrypt(w.leaf, w.sm2B)
			p.DecryptCFCA(w.leaf, w.sm2B)
		}
		if !encrypted {
			p.DecryptUsingPSK(w.psk)
		}
		if !saed {
			p.DecryptAndVerifyOnlyOne(w.sm2B, func() error { return p.Verify() })
			p.DecryptAndVerify(w.leaf, w.sm2B, func() error { return p.Verify() })
		}
	}
	add("pkcs7.Parse+Verify+VerifyWithChain", S("p7.signed.sm2", "p7.signed.sm2.noattr", "p7.signed.rsa", "p7.degenerate", "p7.signed.sm2.ber"), func(b []byte) bool {
		p, err := pkcs7.Parse(b)
		if err != nil {
			return false
		}
		p.Verify()
		p.VerifyWithChainAtTime(w.pool, &w.now)
		p7cheap(p, true, false, false, false)
		return true
	})
	add("pkcs7.Parse+VerifyAsDigest+VerifyWithChain", S("p7.signed.sm2.digest", "p7.signed.sm2.detached"), func(b []byte) bool {
		p, err := pkcs7.Parse(b)
		if err != nil {
			return false
		}
		p.VerifyAsDigest()
		p.VerifyAsDigestWithChain(w.pool)
		p.Content = w.msg // detached content supplied by the caller
		p.VerifyWithChain(w.pool)
		p7cheap(p, true, false, false, false)
		return true
	})
	add("pkcs7.Parse+Decrypt/sm2", S("p7.enveloped.sm4cbc", "p7.enveloped.sm4gcm", "p7.enveloped.sm4ecb"), func(b []byte) bool {
		p, err := pkcs7.Parse(b)
		if err != nil {
			return false
		}
		p.Decrypt(w.leaf, w.sm2B)
		p7cheap(p, false, true, false, false)
		return true
	})
	add("pkcs7.Parse+DecryptCFCA", S("p7.enveloped.cfca", "p7.enveloped.cfcamsg"), func(b []byte) bool {
		p, err := pkcs7.Parse(b)
		if err != nil {
			return false
		}
		p.DecryptCFCA(w.leaf, w.sm2B)
		p.Decrypt(w.leaf, w.sm2B)
		p7cheap(p, false, true, false, false)
		return true
	})
	verySlow(add("pkcs7.Parse+Decrypt/rsa", S("p7.enveloped.rsa.aes128cbc", "p7.enveloped.rsa.aes256gcm"), func(b []byte) bool {
		p, err := pkcs7.Parse(b)
		if err != nil {
			return false
		}
		p.Decrypt(w.rsaCert, w.rsa1)
		p7cheap(p, false, true, false, false)
		return true
	}))
	add("pkcs7.Parse+DecryptUsingPSK", S("p7.encrypted.sm4cbc", "p7.encrypted.sm4gcm", "p7.encrypted.aes128cbc"), func(b []byte) bool {
		p, err := pkcs7.Parse(b)
		if err != nil {
			return false
		}
		p.DecryptUsingPSK(w.psk)
		p7cheap(p, false, false, true, false)
		return true
	})
	add("pkcs7.Parse+DecryptAndVerify/sm2", S("p7.saed.sm2"), func(b []byte) bool {
		p, err := pkcs7.Parse(b)
		if err != nil {
			return false
		}
		p.DecryptAndVerifyOnlyOne(w.sm2B, func() error { return p.Verify() })
		p.DecryptAndVerify(w.leaf, w.sm2B, nil)
		p7cheap(p, false, false, false, true)
		return true
	})
	verySlow(add("pkcs7.Parse+DecryptAndVerify/rsa", S("p7.saed.rsa"), func(b []byte) bool {
		p, err := pkcs7.Parse(b)
		if err != nil {
			return false
		}
		p.DecryptAndVerify(w.rsaCert, w.rsa1, func() error { return p.Verify() })
		p7cheap(p, false, false, false, true)
		return true
	}))
	add("pkcs7.VerifBER2DER(hook)", S("p7.signed.sm2.ber", "p7.signed.sm2.noattr", "p7.encrypted.sm4cbc"), func(b []byte) bool {
		_, err := pkcs7.VerifBER2DER(b)
		return err == nil
	})

	// ---------------------------------------------------------------- cfca
	add("cfca.ParseSM2", S("cfca.sm2blob"), func(b []byte) bool {
		_, _, err := cfca.ParseSM2(w.pw, b)
		cfca.ParseSM2(w.wrongPw, b)
		return err == nil
	})
	add("cfca.ParseEscrowPrivateKey", S("cfca.escrow.bare", "cfca.escrow.prefixed"), func(b []byte) bool {
		_, err := cfca.ParseEscrowPrivateKey(w.sm2B, b)
		return err == nil
	}).text = true
	add("cfca.ParseCertificateRequest", S("cfca.csr", "x509.csr.cfca.rsa"), func(b []byte) bool {
		c, err := cfca.ParseCertificateRequest(b)
		if err != nil {
			return false
		}
		c.CheckSignature()
		return true
	}).text = true
	add("cfca.OpenEnvelopedMessage", S("cfca.enveloped", "cfca.enveloped.gcm", "cfca.enveloped.legacy"), func(b []byte) bool {
		_, err := cfca.OpenEnvelopedMessage(b, w.leaf, w.sm2B)
		return err == nil
	}).rejects = S("cfca.enveloped.legacy")
	add("cfca.OpenEnvelopedMessageLegacy", S("cfca.enveloped.legacy", "cfca.enveloped"), func(b []byte) bool {
		_, err := cfca.OpenEnvelopedMessageLegacy(b, w.leaf, w.sm2B)
		return err == nil
	}).rejects = S("cfca.enveloped")
	add("cfca.VerifyMessageAttach", S("cfca.signed.attach"), func(b []byte) bool { return cfca.VerifyMessageAttach(b) == nil })
	add("cfca.VerifyMessageDetach", S("cfca.signed.detach"), func(b []byte) bool { return cfca.VerifyMessageDetach(b, w.msg) == nil })
	add("cfca.VerifyDigestDetach", S("cfca.signed.digest"), func(b []byte) bool { return cfca.VerifyDigestDetach(b, w.digest) == nil })
	add("cfca.DecryptBySM4CBC", S("cfca.sm4cbc"), func(b []byte) bool {
		_, err := cfca.DecryptBySM4CBC(b, w.pw)
		return err == nil
	})

	// ---------------------------------------------------------------- sm9
	smp := w.signMaster.PublicKey()
	slow(add("sm9.VerifyASN1", S("sm9.sig"), func(b []byte) bool {
		ok := sm9.VerifyASN1(smp, w.uid, 1, w.digest, b)
		smp.Verify(w.uid, 1, w.digest, b)
		return ok
	}))
	asn1cts := S("sm9.ct.asn1.xor", "sm9.ct.asn1.ecb", "sm9.ct.asn1.cbc", "sm9.ct.asn1.cfb", "sm9.ct.asn1.ofb")
	slow(add("sm9.DecryptASN1", asn1cts, func(b []byte) bool {
		_, err := sm9.DecryptASN1(w.encUser, w.uid, b)
		return err == nil
	}))
	slow(add("sm9.EncryptPrivateKey.Decrypt/uid-opts", S("sm9.ct.asn1.cbc"), func(b []byte) bool {
		_, err := w.encUser.Decrypt(nil, b, w.uid)
		return err == nil
	}))
	for _, v := range []struct {
		n    string
		opts sm9.EncrypterOpts
	}{{"xor", nil}, {"ecb", sm9.SM4ECBEncrypterOpts}, {"cbc", sm9.SM4CBCEncrypterOpts}, {"cfb", sm9.SM4CFBEncrypterOpts}, {"ofb", sm9.SM4OFBEncrypterOpts}} {
		opts := v.opts
		slow(add("sm9.Decrypt/raw-"+v.n, S("sm9.ct.raw."+v.n), func(b []byte) bool {
			_, err := sm9.Decrypt(w.encUser, w.uid, b, opts)
			return err == nil
		}))
	}
	if d, err := sm9.NewDecrypterOptsWithUID(sm9.SM4CBCEncrypterOpts, w.uid); err == nil {
		slow(add("sm9.EncryptPrivateKey.Decrypt/DecrypterOptsWithUID", S("sm9.ct.raw.cbc", "sm9.ct.asn1.cbc"), func(b []byte) bool {
			_, err := w.encUser.Decrypt(nil, b, d)
			return err == nil
		}))
	}
	slow(add("sm9.UnwrapKey/raw", S("sm9.wrap.raw", "sm9.wrap.fromPackage"), func(b []byte) bool {
		_, err := sm9.UnwrapKey(w.encUser, w.uid, b, 32)
		return err == nil
	}))
	slow(add("sm9.EncryptPrivateKey.UnwrapKey/der", S("sm9.wrap.der"), func(b []byte) bool {
		_, err := w.encUser.UnwrapKey(w.uid, b, 32)
		return err == nil
	}))
	slow(add("sm9.UnmarshalSM9KeyPackage+UnwrapKey", S("sm9.keypackage"), func(b []byte) bool {
		_, c, err := sm9.UnmarshalSM9KeyPackage(b)
		if err != nil {
			return false
		}
		sm9.UnwrapKey(w.encUser, w.uid, c, 32)
		return true
	}))
	keyDec := func(name string, seeds []string, f func(b []byte) error) {
		add(name, seeds, func(b []byte) bool { return f(b) == nil })
	}
	keyDec("sm9.UnmarshalSignMasterPublicKeyASN1", S("sm9.key.signmasterpub.asn1", "sm9.key.signmasterpub.asn1c"), func(b []byte) error {
		_, err := sm9.UnmarshalSignMasterPublicKeyASN1(b)
		return err
	})
	keyDec("sm9.UnmarshalSignMasterPublicKeyRaw", S("sm9.key.signmasterpub.raw"), func(b []byte) error {
		_, err := sm9.UnmarshalSignMasterPublicKeyRaw(b)
		return err
	})
	keyDec("sm9.ParseSignMasterPublicKeyPEM", S("sm9.key.signmasterpub.pem"), func(b []byte) error {
		_, err := sm9.ParseSignMasterPublicKeyPEM(b)
		return err
	})
	keyDec("sm9.UnmarshalSignMasterPrivateKeyASN1", S("sm9.key.signmasterpriv.asn1"), func(b []byte) error {
		_, err := sm9.UnmarshalSignMasterPrivateKeyASN1(b)
		return err
	})
	keyDec("sm9.UnmarshalSignPrivateKeyASN1", S("sm9.key.signpriv.asn1", "sm9.key.signpriv.asn1c"), func(b []byte) error {
		_, err := sm9.UnmarshalSignPrivateKeyASN1(b)
		return err
	})
	keyDec("sm9.UnmarshalSignPrivateKeyRaw", S("sm9.key.signpriv.raw"), func(b []byte) error {
		_, err := sm9.UnmarshalSignPrivateKeyRaw(b)
		return err
	})
	keyDec("sm9.UnmarshalEncryptMasterPublicKeyASN1", S("sm9.key.encmasterpub.asn1", "sm9.key.encmasterpub.asn1c"), func(b []byte) error {
		_, err := sm9.UnmarshalEncryptMasterPublicKeyASN1(b)
		return err
	})
	keyDec("sm9.UnmarshalEncryptMasterPublicKeyRaw", S("sm9.key.encmasterpub.raw"), func(b []byte) error {
		_, err := sm9.UnmarshalEncryptMasterPublicKeyRaw(b)
		return err
	})
	keyDec("sm9.ParseEncryptMasterPublicKeyPEM", S("sm9.key.encmasterpub.pem"), func(b []byte) error {
		_, err := sm9.ParseEncryptMasterPublicKeyPEM(b)
		return err
	})
	keyDec("sm9.UnmarshalEncryptMasterPrivateKeyASN1", S("sm9.key.encmasterpriv.asn1"), func(b []byte) error {
		_, err := sm9.UnmarshalEncryptMasterPrivateKeyASN1(b)
		return err
	})
	keyDec("sm9.UnmarshalEncryptPrivateKeyASN1", S("sm9.key.encpriv.asn1", "sm9.key.encpriv.asn1c"), func(b []byte) error {
		_, err := sm9.UnmarshalEncryptPrivateKeyASN1(b)
		return err
	})
	keyDec("sm9.UnmarshalEncryptPrivateKeyRaw", S("sm9.key.encpriv.raw"), func(b []byte) error {
		_, err := sm9.UnmarshalEncryptPrivateKeyRaw(b)
		return err
	})
	// user keys decoded from hostile bytes and then USED: the forms without the master public key (the ones
	// MarshalASN1 writes) give key objects that cannot sign or run the exchange; every use must return
	useSign := func(k *sm9.SignPrivateKey) {
		k.Sign(w.kxRand("sm9.use.sign"), w.digest, nil)
		sm9.SignASN1(w.kxRand("sm9.use.sign2"), k, w.digest)
		if mp := k.MasterPublic(); mp != nil {
			mp.MarshalASN1()
		}
		k.MarshalASN1()
		k.MarshalCompressedASN1()
		k.Bytes()
		k.Equal(w.signUser)
		smx509.MarshalPKCS8PrivateKey(k) // the container that needs the master public key
	}
	useEnc := func(k *sm9.EncryptPrivateKey) {
		ke := k.NewKeyExchange(w.uid, w.uidB, 16, true)
		ke.InitKeyExchange(w.kxRand("sm9.use.kx"), 3)
		ke.Destroy()
		rsp := k.NewKeyExchange(w.uid, w.uidB, 16, false)
		if ra, err := w.encUserB.NewKeyExchange(w.uidB, w.uid, 16, false).InitKeyExchange(w.kxRand("sm9.use.kx2"), 3); err == nil {
			rsp.RespondKeyExchange(w.kxRand("sm9.use.kx3"), 3, ra)
		}
		if mp := k.MasterPublic(); mp != nil {
			mp.MarshalASN1()
		}
		k.MarshalASN1()
		k.MarshalCompressedASN1()
		k.Bytes()
		k.Equal(w.encUser)
		smx509.MarshalPKCS8PrivateKey(k)
	}
	slow(add("sm9.UnmarshalSignPrivateKeyASN1+use", S("sm9.key.signpriv.asn1", "sm9.key.signpriv.asn1c"), func(b []byte) bool {
		k, err := sm9.UnmarshalSignPrivateKeyASN1(b)
		if err != nil {
			return false
		}
		useSign(k)
		return true
	}))
	slow(add("sm9.UnmarshalSignPrivateKeyRaw+use", S("sm9.key.signpriv.raw"), func(b []byte) bool {
		k, err := sm9.UnmarshalSignPrivateKeyRaw(b)
		if err != nil {
			return false
		}
		useSign(k)
		return true
	}))
	slow(add("sm9.UnmarshalEncryptPrivateKeyASN1+use", S("sm9.key.encpriv.asn1", "sm9.key.encpriv.asn1c"), func(b []byte) bool {
		k, err := sm9.UnmarshalEncryptPrivateKeyASN1(b)
		if err != nil {
			return false
		}
		useEnc(k)
		return true
	}))
	slow(add("sm9.UnmarshalEncryptPrivateKeyRaw+use", S("sm9.key.encpriv.raw"), func(b []byte) bool {
		k, err := sm9.UnmarshalEncryptPrivateKeyRaw(b)
		if err != nil {
			return false
		}
		useEnc(k)
		return true
	}))
	slow(add("sm9.KeyExchange.RespondKeyExchange", S("sm9.kx.rA"), func(b []byte) bool {
		rsp := w.encUserB.NewKeyExchange(w.uidB, w.uid, 16, true)
		defer rsp.Destroy()
		_, _, err := rsp.RespondKeyExchange(w.kxRand("sm9.B"), 3, b)
		return err == nil
	}))
	slow(add("sm9.KeyExchange.ConfirmResponder/rB", S("sm9.kx.rB"), func(b []byte) bool {
		ini := w.encUser.NewKeyExchange(w.uid, w.uidB, 16, true)
		defer ini.Destroy()
		if _, err := ini.InitKeyExchange(w.kxRand("sm9.A"), 3); err != nil {
			return false
		}
		_, _, err := ini.ConfirmResponder(b, w.get("sm9.kx.sB").data)
		return err == nil
	}))
	slow(add("sm9.KeyExchange.ConfirmResponder/sB", S("sm9.kx.sB"), func(b []byte) bool {
		ini := w.encUser.NewKeyExchange(w.uid, w.uidB, 16, true)
		defer ini.Destroy()
		if _, err := ini.InitKeyExchange(w.kxRand("sm9.A"), 3); err != nil {
			return false
		}
		_, _, err := ini.ConfirmResponder(w.get("sm9.kx.rB").data, b)
		return err == nil
	}))
	slow(add("sm9.KeyExchange.ConfirmInitiator", S("sm9.kx.sA"), func(b []byte) bool {
		rsp := w.encUserB.NewKeyExchange(w.uidB, w.uid, 16, true)
		defer rsp.Destroy()
		if _, _, err := rsp.RespondKeyExchange(w.kxRand("sm9.B"), 3, w.get("sm9.kx.rA").data); err != nil {
			return false
		}
		_, err := rsp.ConfirmInitiator(b)
		return err == nil
	}))
	// the same histories for SM9: the genuine messages of the seed session are reproduced by the fixed streams
	slow(add("sm9.KeyExchange: Respond(genuine rA); Respond(hostile); ConfirmInitiator(genuine sA)", S("sm9.kx.rA"), func(b []byte) bool {
		rsp := w.encUserB.NewKeyExchange(w.uidB, w.uid, 16, true)
		if _, _, err := rsp.RespondKeyExchange(w.kxRand("sm9.B"), 3, w.get("sm9.kx.rA").data); err != nil {
			return false
		}
		_, _, err := rsp.RespondKeyExchange(w.kxRand("sm9.B2"), 3, b)
		rsp.ConfirmInitiator(w.get("sm9.kx.sA").data)
		rsp.Destroy()
		return err == nil
	}))
	slow(add("sm9.KeyExchange: Init; ConfirmResponder(hostile rB); ConfirmResponder(genuine)", S("sm9.kx.rB"), func(b []byte) bool {
		ini := w.encUser.NewKeyExchange(w.uid, w.uidB, 16, true)
		if _, err := ini.InitKeyExchange(w.kxRand("sm9.A"), 3); err != nil {
			return false
		}
		_, _, err := ini.ConfirmResponder(b, w.get("sm9.kx.sB").data)
		ini.ConfirmResponder(w.get("sm9.kx.rB").data, w.get("sm9.kx.sB").data)
		ini.Destroy()
		return err == nil
	}))
	slow(add("sm9.KeyExchange: Init; ConfirmResponder(hostile sB); ConfirmResponder(genuine)", S("sm9.kx.sB"), func(b []byte) bool {
		ini := w.encUser.NewKeyExchange(w.uid, w.uidB, 16, true)
		if _, err := ini.InitKeyExchange(w.kxRand("sm9.A"), 3); err != nil {
			return false
		}
		_, _, err := ini.ConfirmResponder(w.get("sm9.kx.rB").data, b)
		ini.ConfirmResponder(w.get("sm9.kx.rB").data, w.get("sm9.kx.sB").data)
		return err == nil
	}))
	slow(add("sm9.KeyExchange: Respond; ConfirmInitiator(hostile sA); ConfirmInitiator(genuine)", S("sm9.kx.sA"), func(b []byte) bool {
		rsp := w.encUserB.NewKeyExchange(w.uidB, w.uid, 16, true)
		if _, _, err := rsp.RespondKeyExchange(w.kxRand("sm9.B"), 3, w.get("sm9.kx.rA").data); err != nil {
			return false
		}
		_, err := rsp.ConfirmInitiator(b)
		rsp.ConfirmInitiator(w.get("sm9.kx.sA").data)
		return err == nil
	}))

	// ---------------------------------------------------------------- padding
	for _, v := range []struct {
		n string
		p padding.Padding
	}{{"pkcs7", padding.NewPKCS7Padding(16)}, {"x923", padding.NewANSIX923Padding(16)}, {"iso9797m2", padding.NewISO9797M2Padding(16)}, {"iso9797m3", padding.NewISO9797M3Padding(16)}} {
		p := v.p
		add("padding."+v.n+".Unpad", S("pad."+v.n), func(b []byte) bool {
			_, err := p.Unpad(b)
			return err == nil
		})
	}
	_ = pkix.Name{}
	// the consuming entry points again, over a grid of values of their structural arguments (context.go)
	ctxEntries(w, add)
	// entry points that decrypt content with an SM4 mode (CBC/ECB/GCM/CFB/OFB, fused or generic by dispatch tier):
	// swept again in the tiers that select another implementation (workload c13.sweep.tiers)
	left := map[string]bool{}
	for _, n := range tierDependent {
		left[n] = true
	}
	for _, e := range es {
		if left[e.name] {
			e.tier = true
			delete(left, e.name)
		}
	}
	for n := range left {
		panic(seedErr{fmt.Errorf("tier-dependent entry point %q is not in the catalogue", n)})
	}
	return es
}

var tierDependent = []string{
	"sm2.ParseEnvelopedPrivateKey", "smx509.ParseCSRResponse", "smx509.DecryptPEMBlock/text", "smx509.DecryptPEMBlock/payload-sm4",
	"pkcs8.ParsePrivateKey/password", "pkcs8.ParsePrivateKey/wrong-password", "pkcs8.ParsePKCS8PrivateKeySM2/password", "pkcs8.ParsePKCS8PrivateKeyRSA/password",
	"pkcs7.Parse+Decrypt/sm2", "pkcs7.Parse+DecryptCFCA", "pkcs7.Parse+DecryptUsingPSK", "pkcs7.Parse+DecryptAndVerify/sm2",
	"cfca.ParseSM2", "cfca.OpenEnvelopedMessage", "cfca.OpenEnvelopedMessageLegacy", "cfca.DecryptBySM4CBC",
	"sm9.DecryptASN1", "sm9.Decrypt/raw-ecb", "sm9.Decrypt/raw-cbc", "sm9.Decrypt/raw-cfb", "sm9.Decrypt/raw-ofb",
}
