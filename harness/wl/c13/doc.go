// Package c13 holds the workloads and oracles that decide property C13.
package c13
