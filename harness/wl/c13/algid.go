package c13

// The product key kind x algorithm identifier.
//
// Every X.509-style verifier of the library dispatches on the algorithm identifiers of the signed object
// and then uses the key it finds in another field (the object's own key, the parent's key, the signer
// certificate's key): two fields of hostile input that are parsed independently meet in the signature
// check. Artefacts written by well-behaved software carry only matching combinations (an SM2 key with
// SM2-with-SM3, a P-384 key with ECDSA-with-SHA384 ...), and a mutator that replaces single OIDs neither
// keeps the inner and the outer algorithm field of a certificate consistent nor supplies the parameters an
// identifier needs. This file adds
//
//   - a PKI for EVERY key kind the parsers accept for signing - SM2, NIST P-224 / P-256 / P-384 / P-521,
//     RSA 1024 / 2048, Ed25519: a self-signed CA, a leaf whose subject key is of the NEXT kind (so that one
//     certificate combines two kinds), a request, a revocation list and PKCS#7 signed-data messages (with
//     attributes, and over a caller-supplied digest) per kind;
//   - the mutator kind kAlg ("der-algid"): every AlgorithmIdentifier element of an artefact is replaced by
//     each identifier the library knows - smx509's signature table (RSA PKCS#1 v1.5 with each hash, the three
//     RSA-PSS parameter sets, DSA, ECDSA with each hash, Ed25519, SM2-with-SM3), pkcs7's digest and
//     digest-encryption identifiers, the key algorithm identifiers with each named curve, parameter variants
//     (absent / NULL) and unknown ones: alone (inconsistent with its twin), together with every byte-identical
//     twin (the inner and outer field of a certificate or CRL, the two digest fields of a SignerInfo), and for
//     pairs of sibling identifiers (digest x digest-encryption of a SignerInfo) the product of both lists;
//   - entry points that, after the parse, call every signature-checking accessor with keys of every kind:
//     CheckSignatureFrom with each CA as parent, CheckSignature / CheckSignatureWithDigest under the object's
//     own key, Verify against a pool of all CAs, the hostile certificate as the PARENT of children and CRLs of
//     every kind, CertificateRequest.CheckSignature, RevocationList.CheckSignatureFrom and CheckCRLSignature
//     under every CA, pkcs7 Verify / VerifyWithChain / VerifyAsDigest*, the cfca verifiers.
//
// kAlg also runs on every other entry point of the plain sweep. Any value and any error is fine.

import (
	"bytes"
	"crypto"
	"crypto/ecdsa"
	"crypto/ed25519"
	"crypto/elliptic"
	"crypto/rsa"
	"crypto/sha256"
	"crypto/x509"
	"crypto/x509/pkix"
	"encoding/asn1"
	"fmt"
	"math/big"
	"time"

	"github.com/emmansun/gmsm/cfca"
	"github.com/emmansun/gmsm/pkcs7"
	"github.com/emmansun/gmsm/smx509"
)

// ---------------------------------------------------------------- the identifiers

func algID(oid asn1.ObjectIdentifier, params ...[]byte) []byte {
	return dSeq(append([][]byte{dOID(oid)}, params...)...)
}

// RFC 4055 parameters of RSASSA-PSS with MGF1 over the same hash and a salt of the hash's length
func pssParams(hash asn1.ObjectIdentifier, salt int64) []byte {
	h := dSeq(dOID(hash), dNull)
	mgf := dSeq(dOID(asn1.ObjectIdentifier{1, 2, 840, 113549, 1, 1, 8}), h)
	return dSeq(tlv([]byte{0xa0}, h, lenMinimal), tlv([]byte{0xa1}, mgf, lenMinimal), tlv([]byte{0xa2}, dInt(salt), lenMinimal))
}

var (
	oidPKCS1   = asn1.ObjectIdentifier{1, 2, 840, 113549, 1, 1}
	oidSHA2    = asn1.ObjectIdentifier{2, 16, 840, 1, 101, 3, 4, 2}
	oidECDSA2  = asn1.ObjectIdentifier{1, 2, 840, 10045, 4, 3}
	oidGM      = asn1.ObjectIdentifier{1, 2, 156, 10197, 1}
	oidEC      = asn1.ObjectIdentifier{1, 2, 840, 10045, 2, 1}
	oidSecgArc = asn1.ObjectIdentifier{1, 3, 132, 0}
	oidP256    = asn1.ObjectIdentifier{1, 2, 840, 10045, 3, 1, 7}
)

func arc(base asn1.ObjectIdentifier, more ...int) asn1.ObjectIdentifier {
	return append(append(asn1.ObjectIdentifier{}, base...), more...)
}

// algDigests and algSigs are the two sides of the pair product (digest x digest-encryption); algAll is everything.
var algDigests, algSigs, algAll = func() (dg, sg, all []named) {
	d := func(n string, b []byte) { dg = append(dg, named{n, b}) }
	s := func(n string, b []byte) { sg = append(sg, named{n, b}) }
	o := func(n string, b []byte) { all = append(all, named{n, b}) }
	// digests (pkcs7)
	d("sha1", algID(asn1.ObjectIdentifier{1, 3, 14, 3, 2, 26}, dNull))
	d("sha256", algID(arc(oidSHA2, 1), dNull))
	d("sha384", algID(arc(oidSHA2, 2), dNull))
	d("sha512", algID(arc(oidSHA2, 3), dNull))
	d("sm3", algID(arc(oidGM, 401), dNull))
	d("md5", algID(asn1.ObjectIdentifier{1, 2, 840, 113549, 2, 5}, dNull))
	// signature algorithms and digest-encryption identifiers (smx509 table, pkcs7)
	s("rsaEncryption", algID(arc(oidPKCS1, 1), dNull))
	s("sha256-rsa", algID(arc(oidPKCS1, 11), dNull))
	s("rsa-pss-sha256", algID(arc(oidPKCS1, 10), pssParams(arc(oidSHA2, 1), 32)))
	s("dsa", algID(asn1.ObjectIdentifier{1, 2, 840, 10040, 4, 1}))
	s("dsa-sha1", algID(asn1.ObjectIdentifier{1, 2, 840, 10040, 4, 3}))
	s("ecdsa-sha1", algID(asn1.ObjectIdentifier{1, 2, 840, 10045, 4, 1}))
	s("ecdsa-sha256", algID(arc(oidECDSA2, 2)))
	s("ecdsa-sha384", algID(arc(oidECDSA2, 3)))
	s("ecdsa-sha512", algID(arc(oidECDSA2, 4)))
	s("ec-p256-as-algorithm", algID(oidP256, dNull))
	s("ec-p384-as-algorithm", algID(arc(oidSecgArc, 34), dNull))
	s("ec-p521-as-algorithm", algID(arc(oidSecgArc, 35), dNull))
	s("ed25519", algID(asn1.ObjectIdentifier{1, 3, 101, 112}))
	s("sm2-sm3", algID(arc(oidGM, 501)))
	s("sm2-sign", algID(arc(oidGM, 301, 1), dNull))
	s("sm9-sign", algID(arc(oidGM, 302, 1), dNull))
	s("unknown", algID(asn1.ObjectIdentifier{1, 2, 3, 4}, dNull))
	// the rest of the tables, parameter variants, neighbours, key algorithm identifiers
	for _, v := range []struct {
		n   string
		arc int
	}{{"md2-rsa", 2}, {"md5-rsa", 4}, {"sha1-rsa", 5}, {"sha384-rsa", 12}, {"sha512-rsa", 13}, {"sha224-rsa", 14}} {
		o(v.n, algID(arc(oidPKCS1, v.arc), dNull))
	}
	o("sha1-rsa-iso", algID(asn1.ObjectIdentifier{1, 3, 14, 3, 2, 29}, dNull))
	o("sha256-rsa/no-params", algID(arc(oidPKCS1, 11)))
	o("rsa-pss-sha384", algID(arc(oidPKCS1, 10), pssParams(arc(oidSHA2, 2), 48)))
	o("rsa-pss-sha512", algID(arc(oidPKCS1, 10), pssParams(arc(oidSHA2, 3), 64)))
	o("rsa-pss/no-params", algID(arc(oidPKCS1, 10)))
	o("rsa-pss/defaults", algID(arc(oidPKCS1, 10), dSeq()))
	o("rsa-pss/sha256-salt-0", algID(arc(oidPKCS1, 10), pssParams(arc(oidSHA2, 1), 0)))
	o("rsa-pss/sha256-salt-negative", algID(arc(oidPKCS1, 10), pssParams(arc(oidSHA2, 1), -1)))
	o("rsa-pss/sha1-salt-20", algID(arc(oidPKCS1, 10), pssParams(asn1.ObjectIdentifier{1, 3, 14, 3, 2, 26}, 20)))
	o("dsa-sha256", algID(asn1.ObjectIdentifier{2, 16, 840, 1, 101, 3, 4, 3, 2}))
	o("ecdsa-sha224", algID(arc(oidECDSA2, 1)))
	o("ecdsa-sha256/null", algID(arc(oidECDSA2, 2), dNull))
	o("ed25519/null", algID(asn1.ObjectIdentifier{1, 3, 101, 112}, dNull))
	o("sm2-sm3/null", algID(arc(oidGM, 501), dNull))
	o("sm2-sha1", algID(arc(oidGM, 502)))
	o("sm2-sha256", algID(arc(oidGM, 503)))
	o("sm2-keyenc", algID(arc(oidGM, 301, 3), dNull))
	o("sm9-keyenc", algID(arc(oidGM, 302, 3), dNull))
	o("sm3/no-params", algID(arc(oidGM, 401)))
	o("sha256/no-params", algID(arc(oidSHA2, 1)))
	o("x25519", algID(asn1.ObjectIdentifier{1, 3, 101, 110}))
	o("ec-key/p224", algID(oidEC, dOID(arc(oidSecgArc, 33))))
	o("ec-key/p256", algID(oidEC, dOID(oidP256)))
	o("ec-key/p384", algID(oidEC, dOID(arc(oidSecgArc, 34))))
	o("ec-key/p521", algID(oidEC, dOID(arc(oidSecgArc, 35))))
	o("ec-key/sm2", algID(oidEC, dOID(arc(oidGM, 301))))
	o("ec-key/no-curve", algID(oidEC))
	o("ec-key/null", algID(oidEC, dNull))
	o("sm2-key/sm2", algID(arc(oidGM, 301), dOID(arc(oidGM, 301))))
	o("sm2-key/p384", algID(arc(oidGM, 301), dOID(arc(oidSecgArc, 34))))
	o("sm2-key/no-curve", algID(arc(oidGM, 301)))
	all = append(append(append([]named{}, dg...), sg...), all...)
	return
}()

// ---------------------------------------------------------------- the mutator

// isAlgID: SEQUENCE { OBJECT IDENTIFIER, parameters OPTIONAL } with parameters absent, NULL, an OBJECT IDENTIFIER
// (named curve) or a SEQUENCE (PSS, PBES2, GCM ...). Name attributes, extensions, attributes and content infos,
// whose second element is a string, an OCTET STRING, a SET or context-tagged, do not match.
func isAlgID(n *node) bool {
	if len(n.tag) != 1 || n.tag[0] != 0x30 || len(n.kids) == 0 || len(n.kids) > 2 || len(n.kids[0].tag) != 1 || n.kids[0].tag[0] != 0x06 {
		return false
	}
	if len(n.kids) == 1 {
		return true
	}
	t := n.kids[1].tag
	return len(t) == 1 && (t[0] == 0x05 || t[0] == 0x06 || t[0] == 0x30)
}

// algPos is one der-algid mutant: the nodes replaced by identifier a (and, for a pair, the second node by b).
type algPos struct {
	mode  int // 0 single, 1 every byte-identical twin, 2 sibling pair
	nodes []int
	other int // pair: the second node
	a, b  int
}

var algModes = []string{"single", "consistent", "pair"}

func (t *derTree) algPositions() []algPos {
	var out []algPos
	idx := map[*node]int{}
	for i, n := range t.flat {
		idx[n] = i
	}
	parent := map[*node]*node{}
	for _, n := range t.flat {
		for _, k := range n.kids {
			parent[k] = n
		}
	}
	// the algorithm of a SubjectPublicKeyInfo (SEQUENCE { algorithm, BIT STRING }) names the key, not a signature:
	// it is not a twin of a signature algorithm that happens to have the same bytes (Ed25519)
	inSPKI := func(n *node) bool {
		p := parent[n]
		return p != nil && len(p.kids) == 2 && p.kids[0] == n && len(p.kids[1].tag) == 1 && p.kids[1].tag[0] == 0x03
	}
	var algs []*node
	for _, n := range t.flat {
		if isAlgID(n) {
			algs = append(algs, n)
		}
	}
	var dummy bool
	raw := map[*node]string{}
	for _, n := range algs {
		raw[n] = string(emitNode(n, nil, &dummy))
	}
	for _, n := range algs {
		for a := range algAll {
			out = append(out, algPos{mode: 0, nodes: []int{idx[n]}, a: a})
		}
	}
	seen := map[string]bool{}
	for _, n := range algs {
		if inSPKI(n) || seen[raw[n]] {
			continue
		}
		seen[raw[n]] = true
		var group []int
		for _, m := range algs {
			if raw[m] == raw[n] && !inSPKI(m) {
				group = append(group, idx[m])
			}
		}
		if len(group) < 2 {
			continue
		}
		for a := range algAll {
			out = append(out, algPos{mode: 1, nodes: group, a: a})
		}
	}
	for _, n := range algs {
		p := parent[n]
		if p == nil {
			continue
		}
		for _, m := range p.kids {
			if m == n || !isAlgID(m) || raw[m] == raw[n] || idx[m] < idx[n] {
				continue
			}
			// n before m: digest x signature and signature x digest
			for a := range algDigests {
				for b := range algSigs {
					out = append(out, algPos{mode: 2, nodes: []int{idx[n]}, other: idx[m], a: a, b: len(algDigests) + b})
					out = append(out, algPos{mode: 2, nodes: []int{idx[n]}, other: idx[m], a: len(algDigests) + b, b: a})
				}
			}
		}
	}
	return out
}

// algMutant builds the mutant; nil where it would reproduce the artefact.
func (t *derTree) algMutant(p algPos) []byte {
	repl := map[*node][]byte{}
	for _, i := range p.nodes {
		repl[t.flat[i]] = algAll[p.a].b
	}
	if p.mode == 2 {
		repl[t.flat[p.other]] = algAll[p.b].b
	}
	same := true
	var dummy bool
	for n, b := range repl {
		same = same && bytes.Equal(emitNode(n, nil, &dummy), b)
	}
	if same {
		return nil
	}
	return emitReplaceMap(t.roots, repl)
}

// emitReplaceMap serialises a forest with several nodes replaced (enclosing lengths recomputed).
func emitReplaceMap(ns []*node, repl map[*node][]byte) []byte {
	var out []byte
	for _, n := range ns {
		if b, ok := repl[n]; ok {
			out = append(out, b...)
		} else if n.kids != nil {
			c := append([]byte{}, n.pre...)
			c = append(c, emitReplaceMap(n.kids, repl)...)
			out = append(out, tlv(n.tag, c, lenMinimal)...)
		} else {
			out = append(out, tlv(n.tag, n.body, lenMinimal)...)
		}
	}
	return out
}

// ---------------------------------------------------------------- a PKI per key kind

type keyKind struct {
	name string
	priv crypto.Signer
	ca   *smx509.Certificate
	leaf *smx509.Certificate // issued by ca; its subject key is of the next kind
	crl  *smx509.RevocationList
}

// buildKeyKinds runs when the catalogue is first built (the workloads of constructed inputs do not need it: signing
// with P-384, P-521 and RSA costs a second in the 32-bit build).
func (w *world) buildKeyKinds() {
	if w.kk != nil {
		return
	}
	r := w.rnd
	p224 := ecKey(elliptic.P224(), scalarD[:54])
	w.kk = []*keyKind{{name: "sm2", priv: w.sm2C}, {name: "p224", priv: p224}, {name: "p256", priv: w.ecdsaP256}, {name: "p384", priv: &w.nistP384.PrivateKey},
		{name: "p521", priv: &w.nistP521.PrivateKey}, {name: "rsa1024", priv: w.rsa1}, {name: "rsa2048", priv: w.rsa2}, {name: "ed25519", priv: ed25519.NewKeyFromSeed(w.digest)}}
	nb, na := time.Unix(1600000000, 0), time.Unix(2000000000, 0)
	w.kkPool = smx509.NewCertPool()
	for i, k := range w.kk {
		caT := &x509.Certificate{SerialNumber: big.NewInt(int64(0x7200 + i)), Subject: pkix.Name{CommonName: "kk " + k.name}, NotBefore: nb, NotAfter: na, IsCA: true, BasicConstraintsValid: true,
			KeyUsage: x509.KeyUsageCertSign | x509.KeyUsageCRLSign | x509.KeyUsageDigitalSignature, SubjectKeyId: []byte{0x6b, byte(i)}}
		der, err := smx509.CreateCertificate(r, caT, caT, k.priv.Public(), k.priv)
		must("key kind ca "+k.name, err)
		k.ca, err = smx509.ParseCertificate(der)
		must("parse key kind ca "+k.name, err)
		w.add("x509.kk."+k.name+".ca", der)
		w.kkPool.AddCert(k.ca)
		// SubjectPublicKeyInfo of the kind, for the public key parser
		spki, err := smx509.MarshalPKIXPublicKey(k.priv.Public())
		must("key kind spki "+k.name, err)
		w.add("key.pkix.kk."+k.name, spki)
	}
	for i, k := range w.kk {
		next := w.kk[(i+1)%len(w.kk)]
		leafT := &x509.Certificate{SerialNumber: big.NewInt(int64(0x7300 + i)), Subject: pkix.Name{CommonName: "kk leaf " + k.name}, NotBefore: nb, NotAfter: na,
			KeyUsage: x509.KeyUsageDigitalSignature, ExtKeyUsage: []x509.ExtKeyUsage{x509.ExtKeyUsageAny}, DNSNames: []string{"kk.example"}, AuthorityKeyId: []byte{0x6b, byte(i)}, SubjectKeyId: []byte{0x6c, byte(i)}}
		der, err := smx509.CreateCertificate(r, leafT, k.ca.ToX509(), next.priv.Public(), k.priv)
		must("key kind leaf "+k.name, err)
		k.leaf, err = smx509.ParseCertificate(der)
		must("parse key kind leaf "+k.name, err)
		w.add("x509.kk."+k.name+".leaf", der)

		csr, err := smx509.CreateCertificateRequest(r, &x509.CertificateRequest{Subject: pkix.Name{CommonName: "kk csr " + k.name}, DNSNames: []string{"kk.example"}}, k.priv)
		must("key kind csr "+k.name, err)
		w.add("x509.kk."+k.name+".csr", csr)

		crlT := &x509.RevocationList{Number: big.NewInt(int64(i + 1)), ThisUpdate: time.Unix(1700000000, 0), NextUpdate: time.Unix(1800000000, 0),
			RevokedCertificateEntries: []x509.RevocationListEntry{{SerialNumber: big.NewInt(int64(0x7300 + i)), RevocationTime: time.Unix(1690000000, 0)}}}
		crl, err := smx509.CreateRevocationList(r, crlT, k.ca, k.priv)
		must("key kind crl "+k.name, err)
		k.crl, err = smx509.ParseRevocationList(crl)
		must("parse key kind crl "+k.name, err)
		w.add("x509.kk."+k.name+".crl", crl)
	}
	// PKCS#7 signed data by a signer certificate of every kind pkcs7 can sign with (SHA-256 for the non-SM2 kinds):
	// with authenticated attributes (signing time fixed, see fixSigningTime) and over a caller-supplied digest
	sha := sha256.Sum256(w.msg)
	for _, k := range w.kk {
		k := k
		var sign func(attrs []byte) ([]byte, error)
		switch key := k.priv.(type) {
		case *ecdsa.PrivateKey:
			sign = func(attrs []byte) ([]byte, error) {
				h := sha256.Sum256(attrs)
				return ecdsa.SignASN1(w.rnd, key, h[:])
			}
		case *rsa.PrivateKey:
			sign = func(attrs []byte) ([]byte, error) {
				h := sha256.Sum256(attrs)
				return rsa.SignPKCS1v15(nil, key, crypto.SHA256, h[:])
			}
		default:
			continue // SM2: the artefacts p7.signed.sm2* exist; Ed25519: pkcs7 cannot sign with it
		}
		sd, err := pkcs7.NewSignedData(w.msg)
		must("p7 "+k.name, err)
		sd.SetDigestAlgorithm(pkcs7.OIDDigestAlgorithmSHA256)
		must("p7 signer "+k.name, sd.AddSigner(k.ca, k.priv, pkcs7.SignerInfoConfig{}))
		b, err := sd.Finish()
		must("p7 finish "+k.name, err)
		b, err = fixSigningTime(b, sign)
		must("p7 signing time "+k.name, err)
		if p, err := pkcs7.Parse(b); err != nil || p.Verify() != nil {
			panic(seedErr{fmt.Errorf("p7.kk.%s.attrs does not verify", k.name)})
		}
		w.add("p7.kk."+k.name+".attrs", b)

		sd, err = pkcs7.NewSignedDataWithDigest(sha[:])
		must("p7 digest "+k.name, err)
		sd.SetDigestAlgorithm(pkcs7.OIDDigestAlgorithmSHA256)
		must("p7 digest signer "+k.name, sd.SignWithoutAttr(k.ca, k.priv, pkcs7.SignerInfoConfig{}))
		b, err = sd.Finish()
		must("p7 digest finish "+k.name, err)
		w.add("p7.kk."+k.name+".digest", b)
		w.kkP7 = append(w.kkP7, k.name)
	}
}

// kkSeeds lists the artefact names of one form for every kind.
func (w *world) kkSeeds(prefix, suffix string, kinds ...string) []string {
	var out []string
	if len(kinds) == 0 {
		for _, k := range w.kk {
			kinds = append(kinds, k.name)
		}
	}
	for _, k := range kinds {
		out = append(out, prefix+k+suffix)
	}
	return out
}

var digestSizes = []int{20, 32, 48, 64}

// checkEverySignature is what a relying party can do with a parsed certificate and keys of every kind.
func (w *world) checkEverySignature(c *smx509.Certificate) {
	for _, k := range w.kk {
		c.CheckSignatureFrom(k.ca)
	}
	c.CheckSignature(c.SignatureAlgorithm, c.RawTBSCertificate, c.Signature)
	for _, n := range digestSizes {
		c.CheckSignatureWithDigest(c.SignatureAlgorithm, w.digest64[:n], c.Signature)
	}
	c.Verify(smx509.VerifyOptions{Roots: w.kkPool, CurrentTime: w.now, KeyUsages: []smx509.ExtKeyUsage{smx509.ExtKeyUsageAny}})
}

// algEntries adds the entry points of this file to the catalogue.
func algEntries(w *world, add func(name string, seeds []string, f func(b []byte) bool) *entry) {
	w.buildKeyKinds()
	only := func(e *entry) { e.kinds, e.chunk = []int{kAlg}, 32 }
	only(add("smx509.ParseCertificate+CheckSignature*/every-key-kind", w.kkSeeds("x509.kk.", ".leaf"), func(b []byte) bool {
		c, err := smx509.ParseCertificate(b)
		if err != nil {
			return false
		}
		w.checkEverySignature(c)
		return true
	}))
	only(add("smx509.ParseCertificate/as-parent-of-every-key-kind", w.kkSeeds("x509.kk.", ".ca"), func(b []byte) bool {
		c, err := smx509.ParseCertificate(b)
		if err != nil {
			return false
		}
		// the hostile certificate as the issuer: children and revocation lists whose algorithm fields name every kind
		pool := smx509.NewCertPool()
		pool.AddCert(c)
		for _, k := range w.kk {
			k.leaf.CheckSignatureFrom(c)
			k.crl.CheckSignatureFrom(c)
			if bytes.Equal(k.leaf.RawIssuer, c.RawSubject) {
				k.leaf.Verify(smx509.VerifyOptions{Roots: pool, CurrentTime: w.now, KeyUsages: []smx509.ExtKeyUsage{smx509.ExtKeyUsageAny}})
			}
		}
		w.leaf.CheckSignatureFrom(c)
		c.CheckSignature(c.SignatureAlgorithm, c.RawTBSCertificate, c.Signature)
		return true
	}))
	only(add("smx509.ParseCertificateRequest+CheckSignature/every-key-kind", w.kkSeeds("x509.kk.", ".csr"), func(b []byte) bool {
		c, err := smx509.ParseCertificateRequest(b)
		if err != nil {
			return false
		}
		c.CheckSignature()
		if cf, err := smx509.ParseCFCACertificateRequest(b); err == nil {
			cf.CheckSignature()
		}
		if cc, err := cfca.ParseCertificateRequest(b); err == nil {
			cc.CheckSignature()
		}
		return true
	}))
	only(add("smx509.ParseRevocationList+CheckSignatureFrom/every-key-kind", w.kkSeeds("x509.kk.", ".crl"), func(b []byte) bool {
		rl, err := smx509.ParseRevocationList(b)
		if err != nil {
			return false
		}
		for _, k := range w.kk {
			rl.CheckSignatureFrom(k.ca)
		}
		if old, err := smx509.ParseCRL(b); err == nil {
			for _, k := range w.kk {
				k.ca.CheckCRLSignature(old)
			}
		}
		return true
	}))
	only(add("pkcs7.Parse+Verify+VerifyWithChain/every-key-kind", append(w.kkSeeds("p7.kk.", ".attrs", w.kkP7...), "p7.signed.sm2", "p7.signed.sm2.noattr"), func(b []byte) bool {
		p, err := pkcs7.Parse(b)
		if err != nil {
			return false
		}
		p.Verify()
		p.VerifyWithChainAtTime(w.kkPool, &w.now)
		cfca.VerifyMessageAttach(b)
		return true
	}))
	only(add("pkcs7.Parse+VerifyAsDigest/every-key-kind", append(w.kkSeeds("p7.kk.", ".digest", w.kkP7...), "p7.signed.sm2.digest"), func(b []byte) bool {
		p, err := pkcs7.Parse(b)
		if err != nil {
			return false
		}
		// the digest is the caller's: one of every size (the first 32 octets are the SHA-256 digest the non-SM2
		// artefacts were signed over)
		for _, n := range digestSizes {
			p.Content = w.digest64[:n]
			p.VerifyAsDigest()
		}
		cfca.VerifyDigestDetach(b, w.digest64[:32])
		p.Content = w.digest
		p.VerifyAsDigestWithChain(w.kkPool)
		p.Content = w.msg
		p.Verify()
		return true
	}))
}
