package c13

// The CONTEXT of a consuming call. Which library code hostile bytes reach is decided not only by the bytes but by
// the valid, structural arguments next to them: the recipient identity (its length is part of the KDF input of
// every SM9 decryptor, unwrapper and key exchange, so it fixes where in a hash block that input ends), the output
// length the caller asks of UnwrapKey / a key exchange (scalar KDF up to 3 hash blocks, multi-lane kernels beyond),
// the length class of the genuine artefact the mutants derive from (KDF block-count classes 1-3 / 4-7 / >= 8), the
// curve of the key (coordinate sizes 28/32/48/66 give other KDF input alignments and other parsers of C1) and the
// password / content length of the containers. The plain catalogue holds each of these at one value; this file
// repeats the consuming entry points over a grid of context values, with artefacts that are valid IN that context.
//
// The quick tier takes a few values of every dimension, the thorough tier the full grid (world.full). The entry
// points are `slow` (a pairing or a generic-curve multiplication per call), so they take the mutator kinds under
// which the hostile bytes still get past the point decoder and so reach the context-dependent code: every
// truncation (which walks C2 through every length below the artefact's), ^0x01 at every position, the DER edits and
// re-lengths, every other artefact of the world unmodified (among them the artefacts of the OTHER contexts: a
// ciphertext for somebody else) and the seeded splices. Tiny inputs, the other three substitutions and the OID /
// identifier products are decided by the parsers before any context matters; the plain entry points enumerate them.

import (
	"crypto/ecdsa"
	"crypto/elliptic"
	"crypto/x509/pkix"
	"encoding/asn1"
	"fmt"
	"io"

	"github.com/emmansun/gmsm/cfca"
	"github.com/emmansun/gmsm/pkcs"
	"github.com/emmansun/gmsm/pkcs7"
	"github.com/emmansun/gmsm/pkcs8"
	"github.com/emmansun/gmsm/sm2"
	"github.com/emmansun/gmsm/sm9"
	"github.com/emmansun/gmsm/smx509"

	"verifh/mon"
	refsm9 "verifh/ref/sm9"
)

var ctxKinds = []int{kTrunc, kXor01, kDER, kRelen, kCross, kSplice}

// ctxBytes is a deterministic printable string of n octets (identities, passwords, contents of the grid).
func ctxBytes(what string, n int) []byte {
	s := fmt.Sprintf("%s-%d@context.example/0123456789abcdefghijklmnopqrstuvwxyz+", what, n)
	b := make([]byte, n)
	for i := range b {
		b[i] = s[i%len(s)]
	}
	return b
}

// produce registers a context artefact made by the library's own producer. The producers run the same context-
// dependent code as the consumers (the same KDF on the same input): when one PANICS on its valid arguments the
// artefact is replaced by a shaped one (genuine, decodable C1; the lengths of the context; arbitrary C3/C2), so that
// the consuming entry points are still driven in this context and are the ones that decide. A shaped artefact is
// refused by a healthy consumer, which the sweep reports as a harness error ("seed not accepted"): a producer that
// panics next to healthy consumers needs a look, but is not a verdict of this property.
func (w *world) produce(name string, raw bool, f func() ([]byte, error), shaped func() []byte) *artefact {
	var b []byte
	var err error
	if p := mon.Try(func() { b, err = f() }); p != nil {
		if se, ok := p.Value.(seedErr); ok {
			panic(se)
		}
		w.shaped = append(w.shaped, fmt.Sprintf("%s (producer panicked: %v)", name, p.Value))
		b = shaped()
	} else {
		must(name, err)
	}
	if raw {
		return w.addRaw(name, b)
	}
	return w.add(name, b)
}

type ctxUser struct {
	tag string
	uid []byte
	key *sm9.EncryptPrivateKey
}

func pick[T any](full bool, quick, all []T) []T {
	if full {
		return all
	}
	return quick
}

// ctxEntries appends the context grid to the catalogue.
func ctxEntries(w *world, add func(name string, seeds []string, f func(b []byte) bool) *entry) {
	S := func(s ...string) []string { return s }
	ctx := func(e *entry, chunk int) *entry {
		e.kinds, e.chunk = ctxKinds, chunk
		return e
	}
	r := w.rnd
	tail := func(n int) []byte { b := make([]byte, n); io.ReadFull(r, b); return b }

	// ------------------------------------------------------------ SM9: recipient identity x artefact length x klen
	// identity lengths by residue class of the KDF input C1||w||uid (448+len octets) within a hash block: the
	// padding fits the last block (0..51), the length field does not fit (52..59), not even the 0x80 (60..63)
	var users []*ctxUser
	users = append(users, &ctxUser{"uid5", w.uid, w.encUser})
	for _, n := range pick(w.full, []int{55, 61, 119}, []int{1, 51, 52, 55, 59, 60, 61, 63, 64, 119}) {
		uid := ctxBytes("uid", n)
		k, err := w.encMaster.GenerateUserKey(uid, 3)
		must("sm9 context user", err)
		users = append(users, &ctxUser{fmt.Sprintf("uid%d", n), uid, k})
	}
	pub := w.encMaster.PublicKey()
	baseRaw := w.get("sm9.ct.raw.xor").data
	baseRaw = baseRaw[:len(baseRaw)-len(w.msg)] // C1 || C3 of a genuine ciphertext
	_, bc1, bc3, _, err := refsm9.ParseCipher(w.get("sm9.ct.asn1.xor").data)
	must("sm9 base ciphertext", err)
	type sm9mode struct {
		n    string
		opts sm9.EncrypterOpts
		m    refsm9.Mode
	}
	xorMode := sm9mode{"xor", nil, refsm9.XOR}
	cbcMode := sm9mode{"cbc", sm9.SM4CBCEncrypterOpts, refsm9.CBC}
	for _, u := range users {
		u := u
		// raw ciphertexts: the longest message class (truncation walks through the shorter ones)
		var rawSeeds, derSeeds []string
		for _, v := range pick(w.full, []struct {
			mode sm9mode
			n    int
		}{{xorMode, 300}}, []struct {
			mode sm9mode
			n    int
		}{{xorMode, 60}, {xorMode, 150}, {xorMode, 300}}) {
			if u.tag == "uid5" && v.n == 60 {
				continue // the plain catalogue's artefact
			}
			v := v
			name := fmt.Sprintf("sm9.%s.ct.raw.%s.m%d", u.tag, v.mode.n, v.n)
			w.produce(name, true, func() ([]byte, error) { return sm9.Encrypt(r, pub, u.uid, 3, ctxBytes("msg", v.n), v.mode.opts) },
				func() []byte { return append(append([]byte{}, baseRaw...), tail(v.n)...) })
			rawSeeds = append(rawSeeds, name)
		}
		for _, v := range pick(w.full, []struct {
			mode sm9mode
			n    int
		}{{xorMode, 150}}, []struct {
			mode sm9mode
			n    int
		}{{xorMode, 60}, {xorMode, 150}, {xorMode, 300}, {cbcMode, 150}}) {
			if u.tag == "uid5" && v.n == 60 {
				continue
			}
			v := v
			name := fmt.Sprintf("sm9.%s.ct.asn1.%s.m%d", u.tag, v.mode.n, v.n)
			w.produce(name, false, func() ([]byte, error) { return sm9.EncryptASN1(r, pub, u.uid, 3, ctxBytes("msg", v.n), v.mode.opts) },
				func() []byte { return refsm9.EncodeCipher(v.mode.m, bc1, bc3, tail(v.n)) })
			derSeeds = append(derSeeds, name)
		}
		ctx(add("sm9.Decrypt/raw-xor @"+u.tag, rawSeeds, func(b []byte) bool {
			_, err := sm9.Decrypt(u.key, u.uid, b, nil)
			return err == nil
		}), 64)
		ctx(add("sm9.DecryptASN1 @"+u.tag, derSeeds, func(b []byte) bool {
			_, err := sm9.DecryptASN1(u.key, u.uid, b)
			if len(b)&3 == 0 {
				// (pseudo-randomly every fourth input: the crypto.Decrypter form, which reads the identity from the options)
				u.key.Decrypt(nil, b, u.uid)
			}
			return err == nil
		}), 64)
		// the caller-chosen output length of the unwrappers: a wrapped key is a bare C1, valid for every recipient
		// and every length
		for _, klen := range pick(w.full, []int{97, 300}, []int{16, 33, 96, 97, 129, 300, 1000}) {
			klen := klen
			ctx(add(fmt.Sprintf("sm9.UnwrapKey/raw @%s,klen%d", u.tag, klen), S("sm9.wrap.raw", "sm9.wrap.fromPackage"), func(b []byte) bool {
				_, err := sm9.UnwrapKey(u.key, u.uid, b, klen)
				return err == nil
			}), 64)
			if klen == 97 || w.full && klen == 300 {
				ctx(add(fmt.Sprintf("sm9.EncryptPrivateKey.UnwrapKey/der @%s,klen%d", u.tag, klen), S("sm9.wrap.der"), func(b []byte) bool {
					_, err := u.key.UnwrapKey(u.uid, b, klen)
					return err == nil
				}), 64)
				ctx(add(fmt.Sprintf("sm9.UnmarshalSM9KeyPackage+UnwrapKey @%s,klen%d", u.tag, klen), S("sm9.keypackage"), func(b []byte) bool {
					_, c, err := sm9.UnmarshalSM9KeyPackage(b)
					if err != nil {
						return false
					}
					sm9.UnwrapKey(u.key, u.uid, c, klen)
					return true
				}), 64)
			}
		}
	}

	// ------------------------------------------------------------ SM9 key exchange: both identities x klen
	// KDF input idA||idB||RA||RB||g1||g2||g3 = 1280+len(idA)+len(idB) octets; the messages of a session are valid
	// for that pair of identities only, so every context has its own (reproduced by the fixed streams)
	type kxCtx struct {
		a, b *ctxUser
		klen int
	}
	var kxs []kxCtx
	bob := &ctxUser{"uid3", w.uidB, w.encUserB}
	for i, u := range users[1:] {
		// identities of lengths (n, 3) and (n, n): other sums of the two lengths
		kxs = append(kxs, kxCtx{u, bob, []int{97, 300, 16}[i%3]})
		if w.full {
			kxs = append(kxs, kxCtx{u, u, 300}, kxCtx{bob, u, 128})
		}
	}
	kxs = append(kxs, kxCtx{users[0], bob, 300})
	for _, k := range kxs {
		k := k
		tag := fmt.Sprintf("%s,%s,klen%d", k.a.tag, k.b.tag, k.klen)
		pre := "sm9." + tag + ".kx."
		var rA, rB, sB, sA []byte
		session := func() error {
			ini := k.a.key.NewKeyExchange(k.a.uid, k.b.uid, k.klen, true)
			rsp := k.b.key.NewKeyExchange(k.b.uid, k.a.uid, k.klen, true)
			var err error
			if rA, err = ini.InitKeyExchange(w.kxRand("sm9.A"), 3); err != nil {
				return err
			}
			if rB, sB, err = rsp.RespondKeyExchange(w.kxRand("sm9.B"), 3, rA); err != nil {
				return err
			}
			_, sA, err = ini.ConfirmResponder(rB, sB)
			return err
		}
		var serr error
		if p := mon.Try(func() { serr = session() }); p != nil {
			// shaped: the messages of the plain session (genuine points; the confirmation values do not match)
			w.shaped = append(w.shaped, fmt.Sprintf("%s* (key exchange panicked on its own messages: %v)", pre, p.Value))
			rA, rB, sB, sA = w.get("sm9.kx.rA").data, w.get("sm9.kx.rB").data, w.get("sm9.kx.sB").data, w.get("sm9.kx.sA").data
		} else {
			must("sm9 context key exchange", serr)
		}
		w.addRaw(pre+"rA", rA)
		w.addRaw(pre+"rB", rB)
		w.addRaw(pre+"sB", sB)
		w.addRaw(pre+"sA", sA)
		ctx(add("sm9.KeyExchange.RespondKeyExchange @"+tag, S(pre+"rA"), func(b []byte) bool {
			rsp := k.b.key.NewKeyExchange(k.b.uid, k.a.uid, k.klen, true)
			defer rsp.Destroy()
			_, _, err := rsp.RespondKeyExchange(w.kxRand("sm9.B"), 3, b)
			return err == nil
		}), 32)
		ctx(add("sm9.KeyExchange.ConfirmResponder/rB @"+tag, S(pre+"rB"), func(b []byte) bool {
			ini := k.a.key.NewKeyExchange(k.a.uid, k.b.uid, k.klen, true)
			defer ini.Destroy()
			if _, err := ini.InitKeyExchange(w.kxRand("sm9.A"), 3); err != nil {
				return false
			}
			_, _, err := ini.ConfirmResponder(b, sB)
			return err == nil
		}), 32)
		ctx(add("sm9.KeyExchange: ConfirmResponder(hostile sB); ConfirmInitiator(hostile sA) @"+tag, S(pre+"sB", pre+"sA"), func(b []byte) bool {
			ini := k.a.key.NewKeyExchange(k.a.uid, k.b.uid, k.klen, true)
			defer ini.Destroy()
			if _, err := ini.InitKeyExchange(w.kxRand("sm9.A"), 3); err != nil {
				return false
			}
			_, _, err := ini.ConfirmResponder(rB, b)
			rsp := k.b.key.NewKeyExchange(k.b.uid, k.a.uid, k.klen, true)
			defer rsp.Destroy()
			if _, _, err2 := rsp.RespondKeyExchange(w.kxRand("sm9.B"), 3, rA); err2 != nil {
				return false
			}
			_, err2 := rsp.ConfirmInitiator(b)
			return err == nil || err2 == nil
		}), 32).kinds = []int{kTrunc, kXor01}
	}

	// ------------------------------------------------------------ SM2 public key encryption: curve x artefact length
	// legacy keys on the other curves the package accepts; the SM2 curve and P-256/P-521 with the longer classes
	p224 := &sm2.PrivateKey{PrivateKey: *ecKey(elliptic.P224(), scalarC[:56])}
	type curveCtx struct {
		n    string
		k    *sm2.PrivateKey
		base bool // the plain catalogue has the entry points with the 60-octet message
		pace int
	}
	curves := []curveCtx{{"p224", p224, false, 64}, {"p384", w.nistP384, false, 32}, {"p256", w.nistP256, true, 64}, {"sm2", w.sm2A, true, 256}}
	if w.full {
		curves = append(curves, curveCtx{"p521", w.nistP521, true, 16})
	}
	for _, cv := range curves {
		cv := cv
		k := cv.k
		c1 := elliptic.Marshal(k.Curve, k.X, k.Y) // the key's own point: on the curve
		shapedRaw := func(order string, n int) func() []byte {
			return func() []byte {
				if order == "c1c2c3" {
					return append(append(append([]byte{}, c1...), tail(n)...), tail(32)...)
				}
				return append(append(append([]byte{}, c1...), tail(32)...), tail(n)...)
			}
		}
		mk := func(form string, n int) string {
			name := fmt.Sprintf("sm2.ctx.%s.ct.%s.m%d", cv.n, form, n)
			if _, have := w.arts[name]; have {
				return name
			}
			msg := ctxBytes("msg", n)
			switch form {
			case "c1c3c2":
				w.produce(name, true, func() ([]byte, error) { return sm2.Encrypt(r, &k.PublicKey, msg, nil) }, shapedRaw(form, n))
			case "c1c2c3":
				w.produce(name, true, func() ([]byte, error) {
					return sm2.Encrypt(r, &k.PublicKey, msg, sm2.NewPlainEncrypterOpts(sm2.MarshalUncompressed, sm2.C1C2C3))
				}, shapedRaw(form, n))
			default:
				w.produce(name, false, func() ([]byte, error) { return sm2.Encrypt(r, &k.PublicKey, msg, sm2.ASN1EncrypterOpts) },
					func() []byte { return dSeq(dInt2(k.X), dInt2(k.Y), dOct(tail(32)), dOct(tail(n))) })
			}
			return name
		}
		if !cv.base {
			// the entry points of the plain catalogue's legacy loop, every mutator kind
			for _, e := range []*entry{
				add("sm2.Decrypt/legacy-"+cv.n, S(mk("c1c3c2", 60), mk("asn1", 60)), func(b []byte) bool {
					_, err := sm2.Decrypt(k, b)
					return err == nil
				}),
				add("sm2.PrivateKey.Decrypt/legacy-"+cv.n+"/C1C2C3", S(mk("c1c2c3", 60)), func(b []byte) bool {
					_, err := k.Decrypt(nil, b, sm2.NewPlainDecrypterOpts(sm2.C1C2C3))
					return err == nil
				}),
				add("sm2.PrivateKey.Decrypt/legacy-"+cv.n+"/ASN1opts", S(mk("asn1", 60)), func(b []byte) bool {
					_, err := k.Decrypt(nil, b, sm2.ASN1DecrypterOpts)
					return err == nil
				})} {
				e.chunk = cv.pace
			}
		}
		var rawSeeds, c2c3Seeds, derSeeds []string
		for _, n := range pick(w.full, []int{300}, []int{150, 300}) {
			rawSeeds = append(rawSeeds, mk("c1c3c2", n))
		}
		for _, n := range pick(w.full, []int{150}, []int{150, 300}) {
			derSeeds = append(derSeeds, mk("asn1", n))
			c2c3Seeds = append(c2c3Seeds, mk("c1c2c3", n))
		}
		name := "legacy-" + cv.n
		if cv.n == "sm2" {
			name = "sm2"
		}
		ctx(add("sm2.Decrypt @"+name+",long", append(append([]string{}, rawSeeds...), derSeeds...), func(b []byte) bool {
			_, err := sm2.Decrypt(k, b)
			return err == nil
		}), cv.pace)
		ctx(add("sm2.PrivateKey.Decrypt/C1C2C3 @"+name+",long", c2c3Seeds, func(b []byte) bool {
			_, err := k.Decrypt(nil, b, sm2.NewPlainDecrypterOpts(sm2.C1C2C3))
			return err == nil
		}), cv.pace)
		ctx(add("sm2.PrivateKey.Decrypt/ASN1opts @"+name+",long", derSeeds, func(b []byte) bool {
			_, err := k.Decrypt(nil, b, sm2.ASN1DecrypterOpts)
			return err == nil
		}), cv.pace)
	}

	// ------------------------------------------------------------ SM2 key exchange: both identities x klen
	// the identities enter through ZA/ZB (hash input alignment); the key length selects the KDF kernel
	type sm2kxCtx struct {
		na, nb, klen int
	}
	for _, k := range pick(w.full, []sm2kxCtx{{55, 3, 97}, {119, 61, 300}, {1, 200, 16}},
		[]sm2kxCtx{{55, 3, 97}, {119, 61, 300}, {1, 200, 16}, {0, 0, 48}, {16, 16, 128}, {64, 64, 1000}, {5, 3, 300}, {8191, 5, 33}}) {
		k := k
		uidA, uidB := ctxBytes("ida", k.na), ctxBytes("idb", k.nb)
		tag := fmt.Sprintf("uid%d,uid%d,klen%d", k.na, k.nb, k.klen)
		kx := func() (ini, rsp *sm2.KeyExchange, rB *ecdsa.PublicKey, sB []byte, ok bool) {
			ini, err := sm2.NewKeyExchange(w.sm2A, &w.sm2B.PublicKey, uidA, uidB, k.klen, true)
			rsp, err2 := sm2.NewKeyExchange(w.sm2B, &w.sm2A.PublicKey, uidB, uidA, k.klen, true)
			if err != nil || err2 != nil {
				return
			}
			rA, err := ini.InitKeyExchange(w.kxRand("sm2.A"))
			if err != nil {
				return
			}
			rB, sB, err = rsp.RepondKeyExchange(w.kxRand("sm2.B"), rA)
			return ini, rsp, rB, sB, err == nil
		}
		var sB, sA []byte
		ok := false
		if p := mon.Try(func() {
			ini, _, rB, s, good := kx()
			if !good {
				return
			}
			var err error
			sB = s
			_, sA, err = ini.ConfirmResponder(rB, sB)
			ok = err == nil
		}); p != nil {
			w.shaped = append(w.shaped, fmt.Sprintf("sm2.%s.kx.* (key exchange panicked on its own messages: %v)", tag, p.Value))
			sB, sA = w.get("sm2.kx.sB").data, w.get("sm2.kx.sA").data
		} else if !ok {
			panic(seedErr{fmt.Errorf("sm2 key exchange in context %s failed", tag)})
		}
		w.addRaw("sm2."+tag+".kx.sB", sB)
		w.addRaw("sm2."+tag+".kx.sA", sA)
		add("sm2.KeyExchange.ConfirmResponder @"+tag, S("sm2."+tag+".kx.sB"), func(b []byte) bool {
			ini, _, rB, _, ok := kx()
			if !ok {
				return false
			}
			_, _, err := ini.ConfirmResponder(rB, b)
			return err == nil
		}).kinds = []int{kTrunc, kXor01, kSplice}
		add("sm2.KeyExchange.ConfirmInitiator @"+tag, S("sm2."+tag+".kx.sA"), func(b []byte) bool {
			ini, rsp, rB, sB, ok := kx()
			if !ok {
				return false
			}
			if _, _, err := ini.ConfirmResponder(rB, sB); err != nil {
				return false
			}
			_, err := rsp.ConfirmInitiator(b)
			return err == nil
		}).kinds = []int{kTrunc, kXor01, kSplice}
	}

	// ------------------------------------------------------------ containers: password length x content length
	// passwords: empty-adjacent, longer than one HMAC block of the PRF (64 / 128 octets: hashed first); contents:
	// several cipher blocks, no longer one DER short-form length
	plainKey := w.get("key.pkcs8.sm2").data
	for _, n := range pick(w.full, []int{1, 130}, []int{1, 55, 64, 65, 130, 300}) {
		pw := ctxBytes("pw", n)
		var seeds []string
		for _, v := range pick(w.full, []struct {
			n   string
			enc pkcs.PBESEncrypter
		}{{"sm4cbc.pbkdf2-sm3", pkcs.NewPBESEncrypter(pkcs.SM4CBC, pkcs.NewSMPBKDF2Opts(8, 2))}, {"aes256gcm.pbkdf2-sha512", pkcs.NewPBESEncrypter(pkcs.AES256GCM, pkcs.NewPBKDF2Opts(pkcs.SHA512, 16, 2))}}, []struct {
			n   string
			enc pkcs.PBESEncrypter
		}{{"sm4cbc.pbkdf2-sm3", pkcs.NewPBESEncrypter(pkcs.SM4CBC, pkcs.NewSMPBKDF2Opts(8, 2))}, {"aes256gcm.pbkdf2-sha512", pkcs.NewPBESEncrypter(pkcs.AES256GCM, pkcs.NewPBKDF2Opts(pkcs.SHA512, 16, 2))},
			{"sm4gcm.pbkdf2-sha1", pkcs.NewPBESEncrypter(pkcs.SM4GCM, pkcs.NewPBKDF2Opts(pkcs.SHA1, 8, 2))}, {"sm4cbc.scrypt", pkcs.NewPBESEncrypter(pkcs.SM4CBC, pkcs.NewScryptOpts(8, 2, 1, 1))}}) {
			v := v
			name := fmt.Sprintf("p8enc.pw%d.%s", n, v.n)
			w.produce(name, false, func() ([]byte, error) {
				alg, ct, err := v.enc.Encrypt(r, pw, plainKey)
				if err != nil {
					return nil, err
				}
				return asn1.Marshal(struct {
					Algo pkix.AlgorithmIdentifier
					Data []byte
				}{*alg, ct})
			},
				func() []byte { return w.get("p8enc.sm4cbc.pbkdf2-sm3").data })
			seeds = append(seeds, name)
		}
		e := ctx(add(fmt.Sprintf("pkcs8.ParsePrivateKey/password @pw%d", n), seeds, func(b []byte) bool {
			_, _, err := pkcs8.ParsePrivateKey(b, pw)
			return err == nil
		}), 256)
		e.kdf = true
	}
	content := ctxBytes("content", 300)
	certs := []*smx509.Certificate{w.leaf}
	w.produce("p7.enveloped.sm4cbc.m300", false, func() ([]byte, error) { return pkcs7.EncryptSM(pkcs.SM4CBC, content, certs) }, func() []byte { return w.get("p7.enveloped.sm4cbc").data })
	w.produce("p7.enveloped.sm4gcm.m300", false, func() ([]byte, error) { return pkcs7.EncryptSM(pkcs.SM4GCM, content, certs) }, func() []byte { return w.get("p7.enveloped.sm4gcm").data })
	w.produce("p7.encrypted.sm4cbc.m300", false, func() ([]byte, error) { return pkcs7.EncryptSMUsingPSK(pkcs.SM4CBC, content, w.psk) }, func() []byte { return w.get("p7.encrypted.sm4cbc").data })
	w.produce("cfca.enveloped.m300", false, func() ([]byte, error) { return cfca.EnvelopeMessage(pkcs.SM4CBC, content, certs) }, func() []byte { return w.get("cfca.enveloped").data })
	w.produce("cfca.sm4cbc.m300", true, func() ([]byte, error) { return cfca.EncryptBySM4CBC(content, w.pw) }, func() []byte { return w.get("cfca.sm4cbc").data })
	ctx(add("pkcs7.Parse+Decrypt/sm2 @content300", S("p7.enveloped.sm4cbc.m300", "p7.enveloped.sm4gcm.m300"), func(b []byte) bool {
		p, err := pkcs7.Parse(b)
		if err != nil {
			return false
		}
		p.Decrypt(w.leaf, w.sm2B)
		return true
	}), 256).kinds = []int{kTrunc, kDER, kRelen, kSplice}
	ctx(add("pkcs7.Parse+DecryptUsingPSK @content300", S("p7.encrypted.sm4cbc.m300"), func(b []byte) bool {
		p, err := pkcs7.Parse(b)
		if err != nil {
			return false
		}
		p.DecryptUsingPSK(w.psk)
		return true
	}), 256).kinds = []int{kTrunc, kDER, kRelen, kSplice}
	ctx(add("cfca.OpenEnvelopedMessage @content300", S("cfca.enveloped.m300"), func(b []byte) bool {
		_, err := cfca.OpenEnvelopedMessage(b, w.leaf, w.sm2B)
		return err == nil
	}), 256).kinds = []int{kTrunc, kDER, kRelen, kSplice}
	ctx(add("cfca.DecryptBySM4CBC @content300", S("cfca.sm4cbc.m300"), func(b []byte) bool {
		_, err := cfca.DecryptBySM4CBC(b, w.pw)
		return err == nil
	}), 256).kinds = []int{kTrunc, kXor01, kSplice}
}
